// Command failtx is the C08 harness: "a failed transaction changes nothing but
// fee and nonce".
//
// It drives the REAL ABCI multiplexer with all real apps (through muxdrv) as
// TWIN REPLICAS: a reference replica B executes a seeded history of blocks;
// for every generated failing transaction a fresh replica A replays B's blocks
// up to height h-1 (identical pre-state) and then executes block h WITH the
// transaction inserted, while B executed the same block WITHOUT it. The two
// full committed-state dumps (complete MKVS iteration) are compared:
//
//   - authentication not passed (undecodable, bad signature, unknown method,
//     wrong nonce, fee not covered): the dumps must be byte-identical;
//   - authentication passed, transaction failed later (gas, handler): the dumps
//     may differ ONLY at the signer's account key, the proposer entity's account
//     key, the last-block-fees key and the common-pool key; the signer's record
//     must be equal except nonce (+1 mod 2^64) and general balance (-fee), the
//     proposer's record except general balance, and the deltas must add up to 0.
//
// "authentication passes" is computed by the harness from the pre-state and the
// decoded transaction (independently of the result code). A burst of CheckTx /
// EstimateGas calls must leave the committed dump and the AppHash of the NEXT
// block unchanged.
//
// Every case is also written as a Coq term evaluated against
// Verif.Atomic.Model.deliver with an abstract handler (correspondence K).
package main

import (
	"bytes"
	"context"
	"encoding/hex"
	"encoding/json"
	"flag"
	"fmt"
	"math"
	"math/big"
	"os"
	"path/filepath"
	"sort"
	"strings"
	"time"

	beacon "github.com/oasisprotocol/oasis-core/go/beacon/api"
	"github.com/oasisprotocol/oasis-core/go/common"
	"github.com/oasisprotocol/oasis-core/go/common/cbor"
	"github.com/oasisprotocol/oasis-core/go/common/crypto/signature"
	"github.com/oasisprotocol/oasis-core/go/common/node"
	"github.com/oasisprotocol/oasis-core/go/common/quantity"
	"github.com/oasisprotocol/oasis-core/go/common/version"
	consensus "github.com/oasisprotocol/oasis-core/go/consensus/api"
	"github.com/oasisprotocol/oasis-core/go/consensus/api/transaction"
	genesis "github.com/oasisprotocol/oasis-core/go/genesis/api"
	governance "github.com/oasisprotocol/oasis-core/go/governance/api"
	churp "github.com/oasisprotocol/oasis-core/go/keymanager/churp"
	secrets "github.com/oasisprotocol/oasis-core/go/keymanager/secrets"
	registry "github.com/oasisprotocol/oasis-core/go/registry/api"
	roothashState "github.com/oasisprotocol/oasis-core/go/consensus/cometbft/apps/roothash/state"
	roothash "github.com/oasisprotocol/oasis-core/go/roothash/api"
	"github.com/oasisprotocol/oasis-core/go/common/crypto/hash"
	"github.com/oasisprotocol/oasis-core/go/roothash/api/block"
	"github.com/oasisprotocol/oasis-core/go/roothash/api/commitment"
	"github.com/oasisprotocol/oasis-core/go/roothash/api/message"
	scheduler "github.com/oasisprotocol/oasis-core/go/scheduler/api"
	staking "github.com/oasisprotocol/oasis-core/go/staking/api"
	upgrade "github.com/oasisprotocol/oasis-core/go/upgrade/api"
	vault "github.com/oasisprotocol/oasis-core/go/vault/api"

	"verifharness/internal/coqout"
	"verifharness/internal/muxdrv"
	"verifharness/internal/prng"
)

// curMinPrice is the consensus MinGasPrice of the history being built / used (one at a time).
var curMinPrice uint64

// priced raises a fee to the history's minimum gas price (fee.amount / fee.gas >= MinGasPrice).
func priced(f *transaction.Fee) *transaction.Fee {
	if f == nil || curMinPrice == 0 || f.Gas == 0 {
		return f
	}
	need := new(big.Int).Mul(new(big.Int).SetUint64(uint64(f.Gas)), new(big.Int).SetUint64(curMinPrice))
	if f.Amount.ToBigInt().Cmp(need) < 0 {
		need.Add(need, f.Amount.ToBigInt()) // keep the random part on top
		q := quantity.NewQuantity()
		_ = q.FromBigInt(need)
		f.Amount = *q
	}
	return f
}

// sgn signs a transaction after raising its fee to the minimum gas price. The deliberately
// underpriced variants and the gas sweep sign with muxdrv.Sign directly.
func sgn(k *muxdrv.Key, tx *transaction.Transaction) []byte {
	tx.Fee = priced(tx.Fee)
	return muxdrv.Sign(k, tx)
}

// ---------------------------------------------------------------- scenario

type scen struct {
	seed  uint64
	g     *muxdrv.Genesis
	prop  int
	N     int
	ins   []*muxdrv.BlockInput
	user  [][][]byte
	full  [][][]byte
	dumps [][]muxdrv.KV
	hash  [][]byte
	res   [][]muxdrv.TxResult // B's transaction results per height
	blockGas uint64
	minPrice uint64 // consensus MinGasPrice of this history
	B     *muxdrv.Replica

	fresh, fresh2 *muxdrv.Validator
	owner         *muxdrv.Validator // a dedicated entity WITHOUT nodes that owns a runtime (rt4)
	// rt1: compute runtime with a compute node (gets a committee at the first epoch transition),
	// incoming queue of 2; rt2: runtime without nodes (no committee, suspended after the transition).
	rt1, rt2 common.Namespace
	cnode    *muxdrv.Validator
	nobody        *muxdrv.Key
	vaultAddr     staking.Address
	vault2Addr    staking.Address // 2-of-2 vault (accounts 6 and 7) with a pending action
	keys          map[signature.PublicKey]*muxdrv.Key // every key the harness can sign with
	setupFail     []string
	opCost        map[transaction.MethodName][]uint64
	known         map[transaction.MethodName]bool
}

const blockGasLimit = 80_000

const firstTwin = 4 // blocks 1..3 build state; twin blocks are firstTwin..N

// With EpochInterval 3 the first epoch transition (committee election) happens in block 6:
// from then on rt1 is active; block rtFillH fills its incoming message queue.
const (
	epochInterval = 3
	rtActiveH     = 6
	rtFillH       = 7
)

func (s *scen) rt4() common.Namespace {
	return common.NewTestNamespaceFromSeed([]byte(fmt.Sprintf("verif/%d/rt4", s.seed)), common.NamespaceTest)
}

func (s *scen) rt3() common.Namespace {
	return common.NewTestNamespaceFromSeed([]byte(fmt.Sprintf("verif/%d/rt3", s.seed)), common.NamespaceTest)
}

func (s *scen) cfg(name string) muxdrv.ReplicaConfig {
	return muxdrv.ReplicaConfig{Name: name, Identity: s.g.Validators[s.prop].Identity}
}

func mustQ(v uint64) quantity.Quantity { return *quantity.NewFromUint64(v) }

func buildScenario(seed uint64, n int) (*scen, error) {
	opts := muxdrv.GenesisOpts{EpochInterval: epochInterval}
	if seed%4 == 2 {
		// a block gas limit: twin blocks are filled with companions up to just below it, so that the
		// gas a FAILED transaction consumes can push a later transaction over the limit
		opts.MaxBlockGas = blockGasLimit
	}
	minPrice := []uint64{0, 1, 1000}[seed%3]
	opts.ConsensusMinGasPrice = minPrice
	curMinPrice = minPrice
	opts.Mutate = func(doc *genesis.Document) {
		if minPrice > 0 {
			// fees of gas*price need deep pockets: every genesis account (but the nearly empty one)
			// gets 10^13 more
			poor := muxdrv.NewKey(fmt.Sprintf("verif/%d/acct/%d", seed, 9)).Address()
			extra := mustQ(10_000_000_000_000)
			for a, acct := range doc.Staking.Ledger {
				if a.Equal(poor) {
					continue
				}
				_ = acct.General.Balance.Add(&extra)
				_ = doc.Staking.TotalSupply.Add(&extra)
			}
		}
		// runtimes without a committee get suspended at the epoch transition
		doc.RootHash.Parameters.DebugDoNotSuspendRuntimes = false
		doc.RootHash.Parameters.MaxEvidenceAge = 20
		doc.RootHash.Parameters.GasCosts = transaction.Costs{roothash.GasOpSubmitMsg: 1500, roothash.GasOpComputeCommit: 1800, roothash.GasOpEvidence: 1900}
		if seed%2 == 1 {
			// every other history runs with a non-zero minimum transacting balance, which arms the
			// post-transfer / post-deposit balance checks of the staking handlers
			doc.Staking.Parameters.MinTransactBalance = mustQ(1000)
		}
	}
	g, err := muxdrv.NewGenesis(seed, opts)
	if err != nil {
		return nil, err
	}
	s := &scen{seed: seed, g: g, N: n, blockGas: opts.MaxBlockGas, minPrice: minPrice, prop: int(seed % uint64(len(g.Validators)))}
	s.fresh = muxdrv.NewValidator(seed, 0)
	s.fresh2 = muxdrv.NewValidator(seed, 1)
	s.nobody = muxdrv.NewKey(fmt.Sprintf("verif/%d/nobody", seed))
	s.rt1 = common.NewTestNamespaceFromSeed([]byte(fmt.Sprintf("verif/%d/rt1", seed)), common.NamespaceTest)
	s.rt2 = common.NewTestNamespaceFromSeed([]byte(fmt.Sprintf("verif/%d/rt2", seed)), common.NamespaceTest)
	cn := *muxdrv.NewValidator(seed, 2)
	cn.Entity = g.Validators[0].Entity // a second node (compute worker) of validator 0's entity
	s.cnode = &cn
	s.owner = muxdrv.NewValidator(seed, 3)
	s.keys = map[signature.PublicKey]*muxdrv.Key{}
	reg := func(ks ...*muxdrv.Key) {
		for _, k := range ks {
			s.keys[k.Public()] = k
		}
	}
	for _, a := range g.Accounts {
		reg(a.Key)
	}
	for _, vv := range append(append([]*muxdrv.Validator{}, g.Validators...), s.fresh, s.fresh2, s.cnode, s.owner) {
		reg(vv.Entity, vv.Node)
	}
	reg(s.nobody)
	s.B, err = muxdrv.NewReplica(g, s.cfg("B"))
	if err != nil {
		return nil, err
	}
	sp := g.Doc.Staking.Parameters.GasCosts
	rp := g.Doc.Registry.Parameters.GasCosts
	gp := g.Doc.Governance.Parameters.GasCosts
	s.opCost = map[transaction.MethodName][]uint64{
		staking.MethodTransfer:                {uint64(sp[staking.GasOpTransfer])},
		staking.MethodBurn:                    {uint64(sp[staking.GasOpBurn])},
		staking.MethodAddEscrow:               {uint64(sp[staking.GasOpAddEscrow])},
		staking.MethodReclaimEscrow:           {uint64(sp[staking.GasOpReclaimEscrow])},
		staking.MethodAllow:                   {uint64(sp[staking.GasOpAllow])},
		staking.MethodWithdraw:                {uint64(sp[staking.GasOpWithdraw])},
		staking.MethodAmendCommissionSchedule: {uint64(sp[staking.GasOpAmendCommissionSchedule])},
		governance.MethodSubmitProposal:       {uint64(gp[governance.GasOpSubmitProposal])},
		governance.MethodCastVote:             {uint64(gp[governance.GasOpCastVote])},
		registry.MethodRegisterEntity:         {uint64(rp[registry.GasOpRegisterEntity])},
	}
	s.known = map[transaction.MethodName]bool{}
	for _, ms := range [][]transaction.MethodName{staking.Methods, registry.Methods, governance.Methods, roothash.Methods, vault.Methods, beacon.Methods, churp.Methods, secrets.Methods} {
		for _, m := range ms {
			s.known[m] = true
		}
	}

	c := muxdrv.NewChain(g)
	nonces := map[staking.Address]uint64{}
	rng := prng.New(seed ^ 0xc08c08)
	sign := func(k *muxdrv.Key, f func(n uint64) *transaction.Transaction) []byte {
		a := k.Address()
		tx := f(nonces[a])
		nonces[a]++
		return sgn(k, tx)
	}
	fee := func() *transaction.Fee { return priced(muxdrv.Fee(uint64(rng.Intn(60)), muxdrv.DefaultGas)) }
	acc := g.Accounts
	v := g.Validators
	s.ins = make([]*muxdrv.BlockInput, n+1)
	s.user = make([][][]byte, n+1)
	s.full = make([][][]byte, n+1)
	s.dumps = make([][]muxdrv.KV, n+1)
	s.hash = make([][]byte, n+1)
	s.res = make([][]muxdrv.TxResult, n+1)
	for h := 1; h <= n; h++ {
		var txs [][]byte
		switch h {
		case 1:
			txs = append(txs, sign(acc[2].Key, func(n uint64) *transaction.Transaction {
				return muxdrv.TxAllow(n, fee(), acc[3].Address, false, 900_000_000)
			}))
			txs = append(txs, sign(acc[1].Key, func(n uint64) *transaction.Transaction {
				return muxdrv.TxAddEscrow(n, fee(), v[0].EntityAddress(), 5000)
			}))
			txs = append(txs, sign(acc[4].Key, func(n uint64) *transaction.Transaction {
				return muxdrv.TxAddEscrow(n, fee(), v[1%len(v)].EntityAddress(), 2000)
			}))
			txs = append(txs, sign(v[1%len(v)].Entity, func(n uint64) *transaction.Transaction {
				return muxdrv.TxSubmitChangeParams(n, fee(), 12)
			}))
			txs = append(txs, sign(acc[6].Key, func(n uint64) *transaction.Transaction {
				return muxdrv.TxAddEscrow(n, fee(), s.fresh.EntityAddress(), 150)
			}))
			txs = append(txs, sign(acc[6].Key, func(n uint64) *transaction.Transaction {
				return muxdrv.TxAddEscrow(n, fee(), s.owner.EntityAddress(), 900) // entity 100 + compute runtime 600
			}))
			for i := 0; i < 8; i++ {
				ben := muxdrv.NewKey(fmt.Sprintf("verif/%d/ben/%d", seed, i)).Address()
				txs = append(txs, sign(acc[5].Key, func(n uint64) *transaction.Transaction {
					return muxdrv.TxAllow(n, fee(), ben, false, uint64(100+i))
				}))
			}
			// Fund the keys that otherwise own nothing (node keys sign node registrations), so that
			// they pass authentication also in the histories with a minimum transacting balance.
			poor := []*muxdrv.Key{s.fresh.Entity, s.fresh.Node, s.fresh2.Entity, s.fresh2.Node, s.cnode.Node, s.owner.Entity}
			for _, vv := range v {
				poor = append(poor, vv.Node)
			}
			for _, k := range poor {
				to := k.Address()
				txs = append(txs, sign(acc[8].Key, func(n uint64) *transaction.Transaction {
					amt := uint64(5000)
					if minPrice > 0 {
						amt = 100_000_000_000 // these keys pay fees of gas*price too
					}
					return muxdrv.TxTransfer(n, fee(), to, amt)
				}))
			}
			txs = append(txs, sign(acc[6].Key, func(n uint64) *transaction.Transaction {
				s.vault2Addr = vault.NewVaultAddress(acc[6].Address, n+1)
				au := vault.Authority{Addresses: []staking.Address{acc[6].Address, acc[7].Address}, Threshold: 2}
				return vault.NewCreateTx(n, muxdrv.Fee(uint64(rng.Intn(60)), 4*muxdrv.DefaultGas), &vault.Create{AdminAuthority: au, SuspendAuthority: au})
			}))
			for _, id := range []common.Namespace{s.rt1, s.rt2} {
				txs = append(txs, sign(v[0].Entity, func(n uint64) *transaction.Transaction {
					return registry.NewRegisterRuntimeTx(n, muxdrv.Fee(uint64(rng.Intn(60)), 4*muxdrv.DefaultGas), s.runtimeDesc(id, v[0].Entity.Public()))
				}))
			}
			txs = append(txs, sign(v[0].Entity, func(n uint64) *transaction.Transaction {
				return muxdrv.TxRegisterEntity(n, fee(), v[0].Entity, []signature.PublicKey{v[0].Node.Public(), s.cnode.Node.Public()})
			}))
			txs = append(txs, sign(acc[7].Key, func(n uint64) *transaction.Transaction {
				s.vaultAddr = vault.NewVaultAddress(acc[7].Address, n+1)
				au := vault.Authority{Addresses: []staking.Address{acc[7].Address}, Threshold: 1}
				return vault.NewCreateTx(n, muxdrv.Fee(uint64(rng.Intn(60)), 4*muxdrv.DefaultGas), &vault.Create{AdminAuthority: au, SuspendAuthority: au})
			}))
		case 2:
			txs = append(txs, sign(acc[3].Key, func(n uint64) *transaction.Transaction {
				return muxdrv.TxWithdraw(n, fee(), acc[2].Address, 300)
			}))
			txs = append(txs, sign(acc[1].Key, func(n uint64) *transaction.Transaction {
				return muxdrv.TxReclaimEscrow(n, fee(), v[0].EntityAddress(), 1000)
			}))
			txs = append(txs, sign(s.fresh.Entity, func(n uint64) *transaction.Transaction {
				return muxdrv.TxRegisterEntity(n, muxdrv.Fee(0, muxdrv.DefaultGas), s.fresh.Entity, []signature.PublicKey{s.fresh.Node.Public()})
			}))
			txs = append(txs, sign(s.owner.Entity, func(n uint64) *transaction.Transaction {
				return muxdrv.TxRegisterEntity(n, muxdrv.Fee(0, muxdrv.DefaultGas), s.owner.Entity, nil)
			}))
			txs = append(txs, sign(acc[7].Key, func(n uint64) *transaction.Transaction {
				return muxdrv.TxTransfer(n, fee(), s.vaultAddr, 5000)
			}))
			txs = append(txs, sign(acc[6].Key, func(n uint64) *transaction.Transaction {
				return muxdrv.TxTransfer(n, fee(), s.vault2Addr, 5000)
			}))
			txs = append(txs, sign(s.cnode.Node, func(n uint64) *transaction.Transaction {
				nd := muxdrv.NodeDescriptor(s.cnode, 1000, node.RoleComputeWorker)
				nd.Runtimes = []*node.Runtime{{ID: s.rt1}}
				return muxdrv.TxRegisterNode(n, muxdrv.Fee(uint64(rng.Intn(60)), 4*muxdrv.DefaultGas), s.cnode, nd)
			}))
		case 3:
			txs = append(txs, sign(v[0].Entity, func(n uint64) *transaction.Transaction {
				return muxdrv.TxCastVote(n, fee(), 1, governance.VoteYes)
			}))
			// the node-less owner entity registers a runtime of its own
			txs = append(txs, sign(s.owner.Entity, func(n uint64) *transaction.Transaction {
				return registry.NewRegisterRuntimeTx(n, muxdrv.Fee(0, 4*muxdrv.DefaultGas), s.runtimeDesc(s.rt4(), s.owner.Entity.Public()))
			}))
			// vault 1: the admin lets account 8 withdraw up to 10^9 per 1000 blocks (the vault holds 5000)
			txs = append(txs, sign(acc[7].Key, func(n uint64) *transaction.Transaction {
				return vault.NewAuthorizeActionTx(n, muxdrv.Fee(uint64(rng.Intn(60)), 4*muxdrv.DefaultGas), &vault.AuthorizeAction{Vault: s.vaultAddr, Nonce: 0,
					Action: vault.Action{UpdateWithdrawPolicy: &vault.ActionUpdateWithdrawPolicy{Address: acc[8].Address,
						Policy: vault.WithdrawPolicy{LimitAmount: mustQ(1_000_000_000), LimitInterval: 1000}}}})
			}))
			// vault 2 (2-of-2): one of the two authorizations of an execute-message action -> stays pending
			txs = append(txs, sign(acc[6].Key, func(n uint64) *transaction.Transaction {
				return vault.NewAuthorizeActionTx(n, muxdrv.Fee(uint64(rng.Intn(60)), 4*muxdrv.DefaultGas), &vault.AuthorizeAction{Vault: s.vault2Addr, Nonce: 0,
					Action: s.vault2Action()})
			}))
		case rtFillH + 1:
			// a valid executor commitment of the (only) worker: the round finalizes in EndBlock
			if st := s.rtStateAt(0, s.rt1); st != nil && st.Committee != nil {
				ec := mkCommit(s.rt1, st.LastBlock, s.cnode.Node.Public(), s.cnode.Node, 0, 0, false)
				txs = append(txs, sign(acc[1].Key, func(n uint64) *transaction.Transaction {
					return roothash.NewExecutorCommitTx(n, muxdrv.Fee(uint64(rng.Intn(60)), 4*muxdrv.DefaultGas), s.rt1, []commitment.ExecutorCommitment{ec})
				}))
			}
		case rtFillH + 2:
			// valid equivocation evidence against the worker (slashes its entity)
			if st := s.rtStateAt(0, s.rt1); st != nil && st.Committee != nil {
				a := mkCommit(s.rt1, st.LastBlock, s.cnode.Node.Public(), s.cnode.Node, 1, 0, false)
				b := mkCommit(s.rt1, st.LastBlock, s.cnode.Node.Public(), s.cnode.Node, 2, 0, false)
				txs = append(txs, sign(acc[1].Key, func(n uint64) *transaction.Transaction {
					return roothash.NewEvidenceTx(n, muxdrv.Fee(uint64(rng.Intn(60)), 4*muxdrv.DefaultGas), &roothash.Evidence{ID: s.rt1,
						EquivocationExecutor: &roothash.EquivocationExecutorEvidence{CommitA: a, CommitB: b}})
				}))
			}
		case rtFillH:
			for i := 0; i < 2; i++ {
				// (signed by a companion signer: the failing transactions' signers never sign in a twin block)
				txs = append(txs, sign(acc[1].Key, func(n uint64) *transaction.Transaction {
					return roothash.NewSubmitMsgTx(n, fee(), &roothash.SubmitMsg{ID: s.rt1, Fee: mustQ(100), Tokens: mustQ(uint64(2000 + i)), Data: []byte("fill")})
				}))
			}
		}
		// Companions: only accounts 0 and 1 sign, and only pay each other.
		nc := rng.Intn(4)
		var budget int64 = -1
		if s.blockGas > 0 && h >= firstTwin {
			// fill the block to within a small random margin of the block gas limit
			nc = 1000
			budget = int64(s.blockGas) - int64(200+rng.Intn(3300))
			for _, t := range txs {
				budget -= int64(len(t)) + 2000
			}
		}
		for i := 0; i < nc; i++ {
			from, to := acc[0], acc[1]
			if rng.Chance(50) {
				from, to = to, from
			}
			amt := uint64(10 + rng.Intn(5000))
			var raw []byte
			if rng.Chance(15) {
				raw = sign(from.Key, func(n uint64) *transaction.Transaction { return muxdrv.TxBurn(n, fee(), amt) })
			} else {
				raw = sign(from.Key, func(n uint64) *transaction.Transaction { return muxdrv.TxTransfer(n, fee(), to.Address, amt) })
			}
			if budget >= 0 {
				budget -= int64(len(raw)) + 1000 // tx bytes + the transfer/burn operation
				if budget < 0 {
					nonces[from.Key.Address()]--
					break
				}
			}
			txs = append(txs, raw)
		}
		in := c.NewBlock(v[s.prop].ConsAddr, muxdrv.VotesAll, nil)
		ptxs, err := s.B.Propose(in, txs)
		if err != nil {
			return nil, fmt.Errorf("B propose h=%d: %w", h, err)
		}
		res, err := s.B.Process(in, ptxs)
		if err != nil {
			return nil, fmt.Errorf("B process h=%d: %w", h, err)
		}
		for i := range txs {
			if res.TxResults[i].Code != 0 {
				s.setupFail = append(s.setupFail, fmt.Sprintf("h=%d tx=%d: %s/%d %s", h, i, res.TxResults[i].Codespace, res.TxResults[i].Code, res.TxResults[i].Log))
			}
		}
		c.Applied(res)
		s.ins[h], s.user[h], s.full[h], s.hash[h] = in, txs, ptxs, res.AppHash
		s.res[h] = res.TxResults
		if s.dumps[h], err = muxdrv.DumpState(s.B, 0); err != nil {
			return nil, err
		}
	}
	return s, nil
}

// vault2Action is the action pending on the 2-of-2 vault: an ExecuteMessage (a staking.Transfer of
// the vault's funds, executed as a subcall when the second authorization arrives).
func (s *scen) vault2Action() vault.Action {
	body := cbor.Marshal(&staking.Transfer{To: s.g.Accounts[0].Address, Amount: mustQ(10)})
	return vault.Action{ExecuteMessage: &vault.ActionExecuteMessage{Method: staking.MethodTransfer, Body: body}}
}

// runtimeDesc is a minimal compute runtime: one executor worker, incoming message queue of
// two, minimum incoming message fee 100.
func (s *scen) runtimeDesc(id common.Namespace, ent signature.PublicKey) *registry.Runtime {
	rt := &registry.Runtime{
		Versioned: cbor.NewVersioned(registry.LatestRuntimeDescriptorVersion),
		ID:        id,
		EntityID:  ent,
		Kind:      registry.KindCompute,
		Executor:  registry.ExecutorParameters{GroupSize: 1, RoundTimeout: 20, MaxMessages: 32},
		TxnScheduler: registry.TxnSchedulerParameters{
			BatchFlushTimeout: time.Second, MaxBatchSize: 1, MaxBatchSizeBytes: 1024, ProposerTimeout: 2 * time.Second,
			MaxInMessages: 2,
		},
		AdmissionPolicy: registry.RuntimeAdmissionPolicy{AnyNode: &registry.AnyNodeRuntimeAdmissionPolicy{}},
		Constraints: map[scheduler.CommitteeKind]map[scheduler.Role]registry.SchedulingConstraints{
			scheduler.KindComputeExecutor: {
				scheduler.RoleWorker:       {MinPoolSize: &registry.MinPoolSizeConstraint{Limit: 1}},
				scheduler.RoleBackupWorker: {MinPoolSize: &registry.MinPoolSizeConstraint{Limit: 0}},
			},
		},
		GovernanceModel: registry.GovernanceEntity,
		Staking: registry.RuntimeStakingParameters{
			MinInMessageFee: mustQ(100),
			Slashing: map[staking.SlashReason]staking.Slash{
				staking.SlashRuntimeIncorrectResults: {Amount: mustQ(100)},
				staking.SlashRuntimeEquivocation:     {Amount: mustQ(100)},
			},
			RewardSlashEquvocationRuntimePercent: 30,
			RewardSlashBadResultsRuntimePercent:  40,
		},
		Deployments:     []*registry.VersionInfo{{}},
	}
	rt.Genesis.StateRoot.Empty()
	return rt
}

// rtInfo describes the roothash state of a runtime on B at a height (for the probe / histograms).
func (s *scen) rtInfo(h int, id common.Namespace) string {
	tree, cl, err := s.B.TreeAt(int64(h))
	if err != nil {
		return "err:" + err.Error()
	}
	defer cl()
	st, err := roothashState.NewImmutableState(tree).RuntimeState(context.Background(), id)
	if err != nil {
		return "none(" + err.Error() + ")"
	}
	meta, _ := roothashState.NewImmutableState(tree).IncomingMessageQueueMeta(context.Background(), id)
	q := -1
	if meta != nil {
		q = int(meta.Size)
	}
	return fmt.Sprintf("suspended=%v committee=%v pool=%v queue=%d round=%d", st.Suspended, st.Committee != nil, st.CommitmentPool != nil, q, st.LastBlock.Header.Round)
}

// rtStateAt reads the roothash state of a runtime on B at a height (0 = latest).
func (s *scen) rtStateAt(h int, id common.Namespace) *roothash.RuntimeState {
	tree, cl, err := s.B.TreeAt(int64(h))
	if err != nil {
		return nil
	}
	defer cl()
	st, err := roothashState.NewImmutableState(tree).RuntimeState(context.Background(), id)
	if err != nil {
		return nil
	}
	return st
}

// mkCommit builds a signed executor commitment of node key n for the round after blk (the
// construction of harness/cmd/nohalt/roothash.go). variant selects the (arbitrary, non-TEE)
// result roots.
func mkCommit(rt common.Namespace, blk *block.Block, sched signature.PublicKey, n *muxdrv.Key, variant int, roundDelta int64, badPrev bool) commitment.ExecutorCommitment {
	nb := block.NewEmptyBlock(blk, 1, block.Normal)
	msgs := message.MessagesHash(nil)
	var empty hash.Hash
	empty.Empty()
	io := hash.NewFromBytes([]byte(fmt.Sprintf("io/%d/%d", nb.Header.Round, variant)))
	sr := hash.NewFromBytes([]byte(fmt.Sprintf("state/%d/%d", nb.Header.Round, variant)))
	ec := commitment.ExecutorCommitment{
		NodeID: n.Public(),
		Header: commitment.ExecutorCommitmentHeader{
			SchedulerID: sched,
			Header: commitment.ComputeResultsHeader{
				Round:        uint64(int64(nb.Header.Round) + roundDelta),
				PreviousHash: nb.Header.PreviousHash,
			},
		},
	}
	if badPrev {
		ec.Header.Header.PreviousHash = hash.NewFromBytes([]byte("not the previous block"))
	}
	ec.Header.Header.IORoot = &io
	ec.Header.Header.StateRoot = &sr
	ec.Header.Header.MessagesHash = &msgs
	ec.Header.Header.InMessagesHash = &empty
	if err := ec.Sign(n.Signer, rt); err != nil {
		panic(err)
	}
	return ec
}

// replicaAt boots a fresh replica and replays B's blocks 1..h-1.
func (s *scen) replicaAt(h int) (*muxdrv.Replica, error) {
	a, err := muxdrv.NewReplica(s.g, s.cfg("A"))
	if err != nil {
		return nil, err
	}
	for i := 1; i < h; i++ {
		res, err := a.Replay(s.ins[i], s.full[i])
		if err != nil {
			a.Close()
			return nil, fmt.Errorf("A replay h=%d: %w", i, err)
		}
		if !bytes.Equal(res.AppHash, s.hash[i]) {
			a.Close()
			return nil, fmt.Errorf("A replay h=%d: apphash differs from B", i)
		}
	}
	return a, nil
}

// ---------------------------------------------------------------- cases

// Case is the replayable description of one twin run.
type Case struct {
	Kind   string `json:"kind"` // "twin" | "burst"
	Seed   uint64 `json:"seed"`
	Blocks int    `json:"blocks"`
	Height int    `json:"height"`
	Pos    int    `json:"pos"`
	Tx     string `json:"tx"` // raw signed transaction, hex
	Label  string `json:"label"`
	// Stage the generator aimed at: decode | route | auth | gas | exec | ok.
	Stage string `json:"stage"`
	// Handler shape for the Coq model: 0 validate-fail, 1 fails inside NewTransaction, 2 succeeds.
	HKind int      `json:"hkind"`
	Costs []uint64 `json:"costs,omitempty"`
}

type txInfo struct {
	decoded  bool
	tx       transaction.Transaction
	signer   signature.PublicKey
	addr     staking.Address
	fee      *big.Int
	gas      uint64
	authPass bool
	why      string
}

func kvMap(d []muxdrv.KV) map[string]string {
	m := make(map[string]string, len(d))
	for _, kv := range d {
		m[kv.K] = kv.V
	}
	return m
}

func acctKey(a staking.Address) string {
	return hex.EncodeToString(append([]byte{0x50}, a[:]...))
}

const (
	commonPoolKey    = "52"
	lastBlockFeesKey = "57"
)

func decodeAcct(m map[string]string, a staking.Address) (*staking.Account, error) {
	v, ok := m[acctKey(a)]
	if !ok {
		return &staking.Account{}, nil
	}
	raw, _ := hex.DecodeString(v)
	var acc staking.Account
	if err := cbor.Unmarshal(raw, &acc); err != nil {
		return nil, err
	}
	return &acc, nil
}

func decodeQ(m map[string]string, k string) *big.Int {
	v, ok := m[k]
	if !ok {
		return big.NewInt(0)
	}
	raw, _ := hex.DecodeString(v)
	var q quantity.Quantity
	if err := cbor.Unmarshal(raw, &q); err != nil {
		return big.NewInt(-1)
	}
	return q.ToBigInt()
}

// analyse decodes the transaction the way mux.decodeTx does and decides from the
// pre-state whether authentication must pass (transaction.go:17-84, gas.go:48-91).
func (s *scen) analyse(raw []byte, pre map[string]string) txInfo {
	var ti txInfo
	ti.fee = big.NewInt(0)
	if uint64(len(raw)) > s.g.Doc.Consensus.Parameters.MaxTxSize {
		ti.why = "oversized"
		return ti
	}
	var st transaction.SignedTransaction
	if err := cbor.Unmarshal(raw, &st); err != nil {
		ti.why = "envelope"
		return ti
	}
	if err := st.Open(&ti.tx); err != nil {
		ti.why = "signature/body"
		return ti
	}
	if err := ti.tx.SanityCheck(); err != nil {
		ti.why = "sanity"
		return ti
	}
	ti.decoded = true
	ti.signer = st.Signature.PublicKey
	ti.addr = staking.NewAddress(ti.signer)
	if ti.tx.Fee != nil {
		ti.fee = ti.tx.Fee.Amount.ToBigInt()
		ti.gas = uint64(ti.tx.Fee.Gas)
	}
	if _, sys := consensus.SystemMethods[ti.tx.Method]; sys {
		ti.why = "system"
		return ti
	}
	if !s.known[ti.tx.Method] {
		ti.why = "unknown-method"
		return ti
	}
	if ti.addr.IsReserved() {
		ti.why = "reserved"
		return ti
	}
	acc, err := decodeAcct(pre, ti.addr)
	if err != nil {
		ti.why = "acct-undecodable"
		return ti
	}
	if acc.General.Nonce != ti.tx.Nonce {
		ti.why = "nonce"
		return ti
	}
	need := new(big.Int).Add(ti.fee, s.g.Doc.Staking.Parameters.MinTransactBalance.ToBigInt())
	if acc.General.Balance.ToBigInt().Cmp(need) < 0 {
		ti.why = "balance"
		return ti
	}
	ti.authPass = true
	ti.why = "pass"
	return ti
}

// Obs is what one twin run showed.
type Obs struct {
	Failed     bool
	Code       uint32
	Codespace  string
	Log        string
	GasUsed    int64
	NonceB     uint64
	NonceA     uint64
	BalB, BalA *big.Int
	Paid       *big.Int // sum of the non-signer fee-flow deltas
	OtherDiff  []string // diff keys outside the allow-list
	AllDiff    []string
	SelfProp   bool
	Displaced  int // later companions that ran out of BLOCK gas only in the world with the transaction
}

// twinOracle is the property predicate S evaluated on the two dumps.
func (s *scen) twinOracle(dA, dB []muxdrv.KV, ti txInfo, o *Obs) (viol []string) {
	mA, mB := kvMap(dA), kvMap(dB)
	propEnt := s.g.Validators[s.prop].EntityAddress()
	allow := map[string]bool{}
	if ti.authPass {
		allow[acctKey(ti.addr)] = true
		allow[acctKey(propEnt)] = true
		allow[commonPoolKey] = true
		allow[lastBlockFeesKey] = true
		if o.Displaced > 0 {
			allow[acctKey(s.g.Accounts[0].Address)] = true
			allow[acctKey(s.g.Accounts[1].Address)] = true
			allow["51"] = true // total supply (a displaced burn)
		}
	}
	keys := map[string]bool{}
	for k := range mA {
		keys[k] = true
	}
	for k := range mB {
		keys[k] = true
	}
	for k := range keys {
		va, oa := mA[k]
		vb, ob := mB[k]
		if oa == ob && va == vb {
			continue
		}
		o.AllDiff = append(o.AllDiff, k)
		if !allow[k] {
			o.OtherDiff = append(o.OtherDiff, k)
		}
	}
	sort.Strings(o.AllDiff)
	sort.Strings(o.OtherDiff)
	o.BalA, o.BalB, o.Paid = big.NewInt(0), big.NewInt(0), big.NewInt(0)
	if ti.decoded {
		aA, e1 := decodeAcct(mA, ti.addr)
		aB, e2 := decodeAcct(mB, ti.addr)
		if e1 == nil && e2 == nil {
			o.NonceA, o.NonceB = aA.General.Nonce, aB.General.Nonce
			o.BalA, o.BalB = aA.General.Balance.ToBigInt(), aB.General.Balance.ToBigInt()
		}
	}
	if !o.Failed {
		return nil // a successful transaction is not a subject of the property
	}
	for _, k := range o.OtherDiff {
		va, oa := mA[k]
		vb, ob := mB[k]
		if !oa {
			va = "<absent>"
		}
		if !ob {
			vb = "<absent>"
		}
		viol = append(viol, fmt.Sprintf("key %s outside the allow-list differs: with=%s without=%s", k, va, vb))
		if len(viol) >= 6 {
			break
		}
	}
	if !ti.authPass {
		return viol
	}
	// Authentication passed: signer record = without-record except nonce+1 and balance-fee.
	aA, e1 := decodeAcct(mA, ti.addr)
	aB, e2 := decodeAcct(mB, ti.addr)
	if e1 != nil || e2 != nil {
		return append(viol, "signer account record undecodable")
	}
	if aA.General.Nonce != aB.General.Nonce+1 {
		viol = append(viol, fmt.Sprintf("signer nonce with=%d without=%d (want +1)", aA.General.Nonce, aB.General.Nonce))
	}
	o.SelfProp = ti.addr.Equal(propEnt)
	dS := new(big.Int).Sub(aA.General.Balance.ToBigInt(), aB.General.Balance.ToBigInt())
	nA := *aA
	nA.General.Nonce = aB.General.Nonce
	nA.General.Balance = aB.General.Balance
	if !bytes.Equal(cbor.Marshal(&nA), cbor.Marshal(aB)) {
		viol = append(viol, "signer account differs in a field other than nonce/general balance")
	}
	dLBF := new(big.Int).Sub(decodeQ(mA, lastBlockFeesKey), decodeQ(mB, lastBlockFeesKey))
	dCP := new(big.Int).Sub(decodeQ(mA, commonPoolKey), decodeQ(mB, commonPoolKey))
	dP := big.NewInt(0)
	if !o.SelfProp {
		pA, e1 := decodeAcct(mA, propEnt)
		pB, e2 := decodeAcct(mB, propEnt)
		if e1 != nil || e2 != nil {
			return append(viol, "proposer account record undecodable")
		}
		dP = new(big.Int).Sub(pA.General.Balance.ToBigInt(), pB.General.Balance.ToBigInt())
		nP := *pA
		nP.General.Balance = pB.General.Balance
		if !bytes.Equal(cbor.Marshal(&nP), cbor.Marshal(pB)) {
			viol = append(viol, "proposer account differs in a field other than general balance")
		}
		if dS.Cmp(new(big.Int).Neg(ti.fee)) != 0 {
			viol = append(viol, fmt.Sprintf("signer balance delta %s, want -%s", dS, ti.fee))
		}
	}
	if o.Displaced > 0 {
		return viol // the displaced companions' fees are missing from the fee flow
	}
	for n, d := range map[string]*big.Int{"last block fees": dLBF, "common pool": dCP, "proposer": dP} {
		if d.Sign() < 0 {
			viol = append(viol, fmt.Sprintf("%s delta negative: %s", n, d))
		}
	}
	o.Paid = new(big.Int).Add(dLBF, new(big.Int).Add(dCP, dP))
	if o.SelfProp {
		// signer is the proposer's entity: its own share comes back to it.
		share := new(big.Int).Add(dS, ti.fee)
		if share.Sign() < 0 {
			viol = append(viol, fmt.Sprintf("signer(=proposer) balance delta %s below -fee %s", dS, ti.fee))
		}
		o.Paid.Add(o.Paid, share)
		o.BalA = new(big.Int).Sub(o.BalA, share)
	}
	sum := new(big.Int).Add(dS, new(big.Int).Add(dLBF, new(big.Int).Add(dCP, dP)))
	if sum.Sign() != 0 {
		viol = append(viol, fmt.Sprintf("fee not conserved: signer %s + proposer %s + lastBlockFees %s + commonPool %s = %s", dS, dP, dLBF, dCP, sum))
	}
	return viol
}

// runTwin executes one twin case. It returns the observation, the analysis and violations.
func (s *scen) runTwin(cs *Case) (o *Obs, ti txInfo, viol []string, err error) {
	raw, _ := hex.DecodeString(cs.Tx)
	h := cs.Height
	ti = s.analyse(raw, kvMap(s.dumps[h-1]))
	a, err := s.replicaAt(h)
	if err != nil {
		return nil, ti, nil, err
	}
	defer a.Close()
	pos := cs.Pos
	if pos > len(s.user[h]) {
		pos = len(s.user[h])
	}
	txs := append([][]byte{}, s.user[h][:pos]...)
	txs = append(txs, raw)
	txs = append(txs, s.user[h][pos:]...)
	o = &Obs{}
	ptxs, err := a.Propose(s.ins[h], txs)
	var res *muxdrv.BlockResult
	if err == nil {
		if len(ptxs) != len(txs)+1 {
			return o, ti, []string{fmt.Sprintf("proposal has %d txs, want %d", len(ptxs), len(txs)+1)}, nil
		}
		res, err = a.Process(s.ins[h], ptxs)
	}
	if err != nil {
		if pe, ok := err.(*muxdrv.PanicError); ok {
			return o, ti, []string{"implementation panicked in " + pe.Where + ": " + pe.Value}, nil
		}
		return o, ti, []string{"block with the transaction was not executed: " + err.Error()}, nil
	}
	r := res.TxResults[pos]
	o.Failed, o.Code, o.Codespace, o.Log, o.GasUsed = r.Code != 0, r.Code, r.Codespace, r.Log, r.GasUsed
	// The companions must behave the same in both worlds. Only with a block gas limit a LATER
	// companion may fail in the world with the transaction, and only for lack of block gas: the
	// gas used by a failed transaction legitimately counts against the block. The displaced
	// companions (transfers / burns between accounts 0 and 1) then did not happen: their keys
	// are added to the allow-list and the fee-flow sums are not checked (twinOracle).
	displaced := 0
	for i, rb := range s.res[h] {
		j := i
		if i >= pos {
			j = i + 1
		}
		if j >= len(res.TxResults) {
			break
		}
		ra := res.TxResults[j]
		if ra.Code == rb.Code && ra.Codespace == rb.Codespace {
			continue
		}
		if s.blockGas > 0 && i >= pos && rb.Code == 0 && ra.Code != 0 && strings.Contains(ra.Log, "out of gas") {
			displaced++
			continue
		}
		viol = append(viol, fmt.Sprintf("companion transaction %d of the block: result with=%s/%d (%s) without=%s/%d", i, ra.Codespace, ra.Code, ra.Log, rb.Codespace, rb.Code))
	}
	o.Displaced = displaced
	if displaced > 0 {
		// still required: an authentication failure consumes no gas, hence displaces nothing
		if !ti.authPass {
			viol = append(viol, "a transaction rejected at authentication displaced a later transaction")
		}
		if len(viol) > 0 {
			return o, ti, viol, nil
		}
		// fall through to the state comparison with the displaced companions' keys allowed
	}
	if len(viol) > 0 {
		return o, ti, viol, nil
	}
	dA, err := muxdrv.DumpState(a, 0)
	if err != nil {
		return o, ti, nil, err
	}
	viol = s.twinOracle(dA, s.dumps[h], ti, o)
	return o, ti, viol, nil
}

// runBurst: CheckTx / EstimateGas never change committed state.
func (s *scen) runBurst(cs *Case, txsHex []string) (viol []string, n int, err error) {
	h := cs.Height
	a, err := s.replicaAt(h)
	if err != nil {
		return nil, 0, err
	}
	defer a.Close()
	before, err := muxdrv.DumpState(a, 0)
	if err != nil {
		return nil, 0, err
	}
	hashBefore := a.AppHash()
	for i, hx := range txsHex {
		raw, _ := hex.DecodeString(hx)
		if _, err := a.CheckTx(raw, i%5 == 4); err != nil {
			return []string{"CheckTx panicked: " + err.Error()}, n, nil
		}
		n++
		var st transaction.SignedTransaction
		var tx transaction.Transaction
		if cbor.Unmarshal(raw, &st) == nil && cbor.Unmarshal(st.Blob, &tx) == nil {
			if _, err := a.EstimateGas(st.Signature.PublicKey, &tx); err != nil {
				if _, ok := err.(*muxdrv.PanicError); ok {
					return []string{"EstimateGas panicked: " + err.Error()}, n, nil
				}
			}
			n++
		}
	}
	after, err := muxdrv.DumpState(a, 0)
	if err != nil {
		return nil, n, err
	}
	if d := muxdrv.DiffKV(before, after, 6); len(d) > 0 {
		viol = append(viol, "committed state changed by CheckTx/EstimateGas: "+strings.Join(d, "; "))
	}
	if d := muxdrv.DiffKV(s.dumps[h-1], after, 6); len(d) > 0 {
		viol = append(viol, "committed state differs from the reference replica after the burst: "+strings.Join(d, "; "))
	}
	if !bytes.Equal(hashBefore, a.AppHash()) {
		viol = append(viol, "AppHash changed by CheckTx/EstimateGas")
	}
	// The next block must give the reference's result (nothing leaked into the working state).
	res, err := a.Replay(s.ins[h], s.full[h])
	if err != nil {
		return append(viol, "block after the burst failed: "+err.Error()), n, nil
	}
	if !bytes.Equal(res.AppHash, s.hash[h]) {
		dA, _ := muxdrv.DumpState(a, 0)
		viol = append(viol, "AppHash of the block after the burst differs from the reference: "+strings.Join(muxdrv.DiffKV(dA, s.dumps[h], 6), "; "))
	}
	return viol, n, nil
}

// ---------------------------------------------------------------- generator

type gctx struct {
	wantLabel string // when set, execFailing returns the class with this label
	s   *scen
	rng *prng.R
	h   int
	pre map[string]string
}

func (c *gctx) nonce(k *muxdrv.Key) uint64 {
	a, _ := decodeAcct(c.pre, k.Address())
	return a.General.Nonce
}

func (c *gctx) bal(k *muxdrv.Key) uint64 {
	a, _ := decodeAcct(c.pre, k.Address())
	b := a.General.Balance.ToBigInt()
	if !b.IsUint64() {
		return math.MaxUint64
	}
	return b.Uint64()
}

func (c *gctx) balAddr(a staking.Address) uint64 {
	ac, _ := decodeAcct(c.pre, a)
	b := ac.General.Balance.ToBigInt()
	if !b.IsUint64() {
		return math.MaxUint64
	}
	return b.Uint64()
}

func (c *gctx) fee() *transaction.Fee {
	switch c.rng.Intn(4) {
	case 0:
		return priced(muxdrv.Fee(0, muxdrv.DefaultGas))
	default:
		return priced(muxdrv.Fee(uint64(1+c.rng.Intn(200)), muxdrv.DefaultGas))
	}
}

// plain picks an ordinary funded account that never signs companions and never receives funds.
func (c *gctx) plain() *muxdrv.Key {
	return c.s.g.Accounts[2+c.rng.Intn(7)].Key // 2..8
}

// cycle is the round-robin position in the catalogue of handler failures (whole run).
var cycle int

type built struct {
	label  string
	key    *muxdrv.Key
	tx     *transaction.Transaction
	hkind  int
	entity bool // signed by a validator entity (its balance moves in BeginBlock: no boundary fees)
	minH   int  // the class needs a pre-state of at least this height (0 = any)
}

// execFailing builds a transaction that is valid up to and including authentication and
// is meant to fail in its handler.
func (c *gctx) execFailing() built { return c.execFailingPick(true) }

// execFailingPick: roundRobin=false draws at random without advancing the round-robin position
// (used when the transaction only serves as raw material of a decode failure).
func (c *gctx) execFailingPick(roundRobin bool) built {
	s, g, r := c.s, c.s.g, c.rng
	acc := g.Accounts
	v := g.Validators
	reserved := []staking.Address{staking.CommonPoolAddress, staking.FeeAccumulatorAddress, staking.GovernanceDepositsAddress, staking.BurnAddress}
	mk := func(label string, k *muxdrv.Key, f func(n uint64, fee *transaction.Fee) *transaction.Transaction) built {
		fee := c.fee()
		if c.bal(k) < 1000 {
			fee = muxdrv.Fee(0, muxdrv.DefaultGas)
		}
		return built{label: label, key: k, tx: f(c.nonce(k), fee)}
	}
	inTx := func(b built) built { b.hkind = 1; return b }
	type gen func() built
	gens := []gen{
		func() built {
			k := c.plain()
			return mk("transfer/insufficient", k, func(n uint64, f *transaction.Fee) *transaction.Transaction {
				return muxdrv.TxTransfer(n, f, acc[0].Address, c.bal(k)+uint64(r.Intn(3)))
			})
		},
		func() built {
			return mk("transfer/below-min", c.plain(), func(n uint64, f *transaction.Fee) *transaction.Transaction {
				return muxdrv.TxTransfer(n, f, acc[0].Address, uint64(r.Intn(10)))
			})
		},
		func() built {
			return mk("transfer/reserved-dest", c.plain(), func(n uint64, f *transaction.Fee) *transaction.Transaction {
				return muxdrv.TxTransfer(n, f, reserved[r.Intn(3)], 100)
			})
		},
		func() built {
			k := c.plain()
			return mk("transfer/self-insufficient", k, func(n uint64, f *transaction.Fee) *transaction.Transaction {
				return muxdrv.TxTransfer(n, f, k.Address(), c.bal(k)+1)
			})
		},
		func() built {
			k := c.plain()
			return mk("burn/insufficient", k, func(n uint64, f *transaction.Fee) *transaction.Transaction {
				return muxdrv.TxBurn(n, f, c.bal(k)+uint64(r.Intn(2)))
			})
		},
		func() built {
			return mk("escrow/below-min", c.plain(), func(n uint64, f *transaction.Fee) *transaction.Transaction {
				return muxdrv.TxAddEscrow(n, f, v[r.Intn(len(v))].EntityAddress(), uint64(r.Intn(10)))
			})
		},
		func() built {
			k := c.plain()
			return mk("escrow/insufficient", k, func(n uint64, f *transaction.Fee) *transaction.Transaction {
				return muxdrv.TxAddEscrow(n, f, v[r.Intn(len(v))].EntityAddress(), c.bal(k)+1)
			})
		},
		func() built {
			return mk("escrow/reserved", c.plain(), func(n uint64, f *transaction.Fee) *transaction.Transaction {
				return muxdrv.TxAddEscrow(n, f, reserved[r.Intn(len(reserved))], 100)
			})
		},
		func() built {
			return mk("reclaim/too-many-shares", acc[4].Key, func(n uint64, f *transaction.Fee) *transaction.Transaction {
				return muxdrv.TxReclaimEscrow(n, f, v[1%len(v)].EntityAddress(), 2001+uint64(r.Intn(1000)))
			})
		},
		func() built {
			return mk("reclaim/no-delegation", acc[8].Key, func(n uint64, f *transaction.Fee) *transaction.Transaction {
				return muxdrv.TxReclaimEscrow(n, f, v[2%len(v)].EntityAddress(), 10)
			})
		},
		func() built {
			return mk("reclaim/zero-shares", acc[4].Key, func(n uint64, f *transaction.Fee) *transaction.Transaction {
				return muxdrv.TxReclaimEscrow(n, f, v[1%len(v)].EntityAddress(), 0)
			})
		},
		func() built {
			k := c.plain()
			return mk("allow/self", k, func(n uint64, f *transaction.Fee) *transaction.Transaction {
				return muxdrv.TxAllow(n, f, k.Address(), false, 10)
			})
		},
		func() built {
			return mk("allow/reserved", c.plain(), func(n uint64, f *transaction.Fee) *transaction.Transaction {
				return muxdrv.TxAllow(n, f, reserved[r.Intn(len(reserved))], false, 10)
			})
		},
		func() built {
			return mk("allow/too-many", acc[5].Key, func(n uint64, f *transaction.Fee) *transaction.Transaction {
				return muxdrv.TxAllow(n, f, acc[6].Address, false, 10)
			})
		},
		func() built {
			return mk("withdraw/no-allowance", acc[8].Key, func(n uint64, f *transaction.Fee) *transaction.Transaction {
				return muxdrv.TxWithdraw(n, f, acc[6].Address, 100)
			})
		},
		func() built {
			return inTx(mk("withdraw/over-balance", acc[3].Key, func(n uint64, f *transaction.Fee) *transaction.Transaction {
				return muxdrv.TxWithdraw(n, f, acc[2].Address, c.bal(acc[2].Key)+1+uint64(r.Intn(50)))
			}))
		},
		func() built {
			return inTx(mk("withdraw/over-allowance", acc[3].Key, func(n uint64, f *transaction.Fee) *transaction.Transaction {
				return muxdrv.TxWithdraw(n, f, acc[2].Address, 1<<41)
			}))
		},
		func() built {
			k := c.plain()
			return mk("withdraw/self", k, func(n uint64, f *transaction.Fee) *transaction.Transaction {
				return muxdrv.TxWithdraw(n, f, k.Address(), 100)
			})
		},
		func() built {
			return mk("withdraw/below-min", acc[3].Key, func(n uint64, f *transaction.Fee) *transaction.Transaction {
				return muxdrv.TxWithdraw(n, f, acc[2].Address, uint64(r.Intn(10)))
			})
		},
		func() built {
			return mk("amend/rate-over-bound", v[r.Intn(len(v))].Entity, func(n uint64, f *transaction.Fee) *transaction.Transaction {
				return muxdrv.TxAmendCommission(n, f, 20, 60_000+uint64(r.Intn(1000)), 0, 0, 0)
			})
		},
		func() built {
			return mk("amend/start-too-soon", v[r.Intn(len(v))].Entity, func(n uint64, f *transaction.Fee) *transaction.Transaction {
				return muxdrv.TxAmendCommission(n, f, 0, 1000, 1, 0, 50_000)
			})
		},
		func() built {
			return mk("gov/deposit-insufficient", acc[9].Key, func(n uint64, f *transaction.Fee) *transaction.Transaction {
				return muxdrv.TxSubmitChangeParams(n, f, 11)
			})
		},
		func() built {
			return mk("gov/cancel-nonexistent", c.plain(), func(n uint64, f *transaction.Fee) *transaction.Transaction {
				return muxdrv.TxSubmitCancelUpgrade(n, f, 40+uint64(r.Intn(9)))
			})
		},
		func() built {
			return mk("gov/bad-module", c.plain(), func(n uint64, f *transaction.Fee) *transaction.Transaction {
				return governance.NewSubmitProposalTx(n, f, &governance.ProposalContent{
					Metadata:         &governance.ProposalMetadata{Title: "verif failing proposal"},
					ChangeParameters: &governance.ChangeParametersProposal{Module: "nomodule", Changes: cbor.Marshal(map[string]int{"a": 1})},
				})
			})
		},
		func() built {
			return mk("gov/bad-changes", c.plain(), func(n uint64, f *transaction.Fee) *transaction.Transaction {
				return governance.NewSubmitProposalTx(n, f, &governance.ProposalContent{
					Metadata:         &governance.ProposalMetadata{Title: "verif failing proposal"},
					ChangeParameters: &governance.ChangeParametersProposal{Module: staking.ModuleName, Changes: cbor.Marshal(map[string]int{"no_such_parameter": 1})},
				})
			})
		},
		func() built {
			return mk("gov/upgrade-too-soon", c.plain(), func(n uint64, f *transaction.Fee) *transaction.Transaction {
				return governance.NewSubmitProposalTx(n, f, &governance.ProposalContent{
					Metadata: &governance.ProposalMetadata{Title: "verif failing proposal"},
					Upgrade: &governance.UpgradeProposal{Descriptor: upgrade.Descriptor{
						Versioned: cbor.NewVersioned(upgrade.LatestDescriptorVersion), Handler: "verif-handler",
						Target: version.Versions, Epoch: beacon.EpochTime(1 + r.Intn(2))}},
				})
			})
		},
		func() built {
			return mk("gov/vote-nonexistent", v[r.Intn(len(v))].Entity, func(n uint64, f *transaction.Fee) *transaction.Transaction {
				return muxdrv.TxCastVote(n, f, 90+uint64(r.Intn(9)), governance.VoteYes)
			})
		},
		func() built {
			return mk("gov/vote-not-eligible", c.plain(), func(n uint64, f *transaction.Fee) *transaction.Transaction {
				return muxdrv.TxCastVote(n, f, 1, governance.VoteNo)
			})
		},
		func() built {
			return mk("gov/vote-invalid-value", v[0].Entity, func(n uint64, f *transaction.Fee) *transaction.Transaction {
				return muxdrv.TxCastVote(n, f, 1, governance.Vote(77))
			})
		},
		func() built {
			return mk("registry/entity-wrong-signer", c.plain(), func(n uint64, f *transaction.Fee) *transaction.Transaction {
				return muxdrv.TxRegisterEntity(n, f, s.fresh2.Entity, nil)
			})
		},
		func() built {
			return mk("registry/entity-no-stake", s.fresh2.Entity, func(n uint64, f *transaction.Fee) *transaction.Transaction {
				return muxdrv.TxRegisterEntity(n, f, s.fresh2.Entity, []signature.PublicKey{s.fresh2.Node.Public()})
			})
		},
		func() built {
			return inTx(mk("registry/node-no-stake", s.fresh.Node, func(n uint64, f *transaction.Fee) *transaction.Transaction {
				return muxdrv.TxRegisterNode(n, f, s.fresh, muxdrv.NodeDescriptor(s.fresh, 50, node.RoleValidator))
			}))
		},
		func() built {
			vv := v[r.Intn(len(v))]
			return mk("registry/node-expired", vv.Node, func(n uint64, f *transaction.Fee) *transaction.Transaction {
				return muxdrv.TxRegisterNode(n, f, vv, muxdrv.NodeDescriptor(vv, 0, node.RoleValidator))
			})
		},
		func() built {
			return mk("registry/node-no-entity", s.fresh2.Node, func(n uint64, f *transaction.Fee) *transaction.Transaction {
				return muxdrv.TxRegisterNode(n, f, s.fresh2, muxdrv.NodeDescriptor(s.fresh2, 50, node.RoleValidator))
			})
		},
		func() built {
			vv := v[r.Intn(len(v))]
			return mk("registry/node-bad-roles", vv.Node, func(n uint64, f *transaction.Fee) *transaction.Transaction {
				return muxdrv.TxRegisterNode(n, f, vv, muxdrv.NodeDescriptor(vv, 50, node.RolesMask(1<<20)))
			})
		},
		func() built {
			// update of a live validator node that drops the validator role: the stake claim
			// (other thresholds) is written before the update is refused.
			vv := v[r.Intn(len(v))]
			return inTx(mk("registry/node-update-drops-role", vv.Node, func(n uint64, f *transaction.Fee) *transaction.Transaction {
				return muxdrv.TxRegisterNode(n, f, vv, muxdrv.NodeDescriptor(vv, 60, node.RoleObserver))
			}))
		},
		func() built {
			vv := v[r.Intn(len(v))]
			alt := *vv
			alt.Cons = s.fresh2.Cons
			return inTx(mk("registry/node-update-consensus-key", vv.Node, func(n uint64, f *transaction.Fee) *transaction.Transaction {
				return muxdrv.TxRegisterNode(n, f, &alt, muxdrv.NodeDescriptor(&alt, 60, node.RoleValidator))
			}))
		},
		func() built {
			// an entity with no nodes that still owns a runtime: refused with ErrEntityHasRuntimes
			// (the LAST check of deregisterEntity before RemoveEntity)
			return mk("registry/deregister-entity-with-runtimes", s.owner.Entity, func(n uint64, f *transaction.Fee) *transaction.Transaction {
				return registry.NewDeregisterEntityTx(n, f)
			})
		},
		func() built {
			return mk("registry/deregister-has-nodes", v[r.Intn(len(v))].Entity, func(n uint64, f *transaction.Fee) *transaction.Transaction {
				return registry.NewDeregisterEntityTx(n, f)
			})
		},
		func() built {
			return mk("registry/deregister-no-entity", c.plain(), func(n uint64, f *transaction.Fee) *transaction.Transaction {
				return registry.NewDeregisterEntityTx(n, f)
			})
		},
		func() built {
			vv := v[r.Intn(len(v))]
			return mk("registry/unfreeze-not-frozen", vv.Entity, func(n uint64, f *transaction.Fee) *transaction.Transaction {
				return registry.NewUnfreezeNodeTx(n, f, &registry.UnfreezeNode{NodeID: vv.Node.Public()})
			})
		},
		func() built {
			return mk("registry/unfreeze-wrong-entity", v[0].Entity, func(n uint64, f *transaction.Fee) *transaction.Transaction {
				return registry.NewUnfreezeNodeTx(n, f, &registry.UnfreezeNode{NodeID: v[1%len(v)].Node.Public()})
			})
		},
		func() built {
			vv := v[r.Intn(len(v))]
			return inTx(mk("registry/runtime", vv.Entity, func(n uint64, f *transaction.Fee) *transaction.Transaction {
				var id common.Namespace
				_ = id.UnmarshalHex("8000000000000000000000000000000000000000000000000000000000000001")
				return registry.NewRegisterRuntimeTx(n, f, &registry.Runtime{
					Versioned: cbor.NewVersioned(registry.LatestRuntimeDescriptorVersion), ID: id, EntityID: vv.Entity.Public(),
					Kind: registry.KindCompute, GovernanceModel: registry.GovernanceEntity,
				})
			}))
		},
		func() built {
			// the runtime's incoming queue (size 2) was filled in block rtFillH
			b := inTx(mk("roothash/msg-queue-full", c.plain(), func(n uint64, f *transaction.Fee) *transaction.Transaction {
				return roothash.NewSubmitMsgTx(n, f, &roothash.SubmitMsg{ID: s.rt1, Fee: mustQ(100 + uint64(r.Intn(50))), Tokens: mustQ(1000 + uint64(r.Intn(500))), Data: []byte("x")})
			}))
			b.minH = rtFillH + 1
			return b
		},
		func() built {
			b := mk("roothash/msg-fee-below-min", c.plain(), func(n uint64, f *transaction.Fee) *transaction.Transaction {
				return roothash.NewSubmitMsgTx(n, f, &roothash.SubmitMsg{ID: s.rt1, Fee: mustQ(uint64(r.Intn(100))), Tokens: mustQ(1050)})
			})
			b.minH = rtActiveH + 1
			return b
		},
		func() built {
			k := c.plain()
			b := inTx(mk("roothash/msg-insufficient-balance", k, func(n uint64, f *transaction.Fee) *transaction.Transaction {
				return roothash.NewSubmitMsgTx(n, f, &roothash.SubmitMsg{ID: s.rt1, Fee: mustQ(100), Tokens: mustQ(c.bal(k))})
			}))
			b.minH = rtActiveH + 1
			return b
		},
		func() built {
			b := mk("roothash/msg-suspended-runtime", c.plain(), func(n uint64, f *transaction.Fee) *transaction.Transaction {
				return roothash.NewSubmitMsgTx(n, f, &roothash.SubmitMsg{ID: s.rt2, Fee: mustQ(100), Tokens: mustQ(50)})
			})
			return b
		},
		func() built {
			return mk("roothash/commit-empty-known-runtime", s.cnode.Node, func(n uint64, f *transaction.Fee) *transaction.Transaction {
				return roothash.NewExecutorCommitTx(n, f, s.rt1, []commitment.ExecutorCommitment{{NodeID: s.cnode.Node.Public()}})
			})
		},
		func() built {
			return mk("registry/runtime-wrong-signer", c.plain(), func(n uint64, f *transaction.Fee) *transaction.Transaction {
				return registry.NewRegisterRuntimeTx(n, f, s.runtimeDesc(s.rt3(), v[0].Entity.Public()))
			})
		},
		func() built {
			return inTx(mk("registry/runtime-no-stake", s.fresh.Entity, func(n uint64, f *transaction.Fee) *transaction.Transaction {
				return registry.NewRegisterRuntimeTx(n, f, s.runtimeDesc(s.rt3(), s.fresh.Entity.Public()))
			}))
		},
		func() built {
			return inTx(mk("registry/runtime-update-not-allowed", v[0].Entity, func(n uint64, f *transaction.Fee) *transaction.Transaction {
				d := s.runtimeDesc(s.rt1, v[0].Entity.Public())
				d.Genesis.Round = 5 + uint64(r.Intn(5))
				return registry.NewRegisterRuntimeTx(n, f, d)
			}))
		},
		func() built {
			return mk("registry/runtime-update-other-entity", v[1%len(v)].Entity, func(n uint64, f *transaction.Fee) *transaction.Transaction {
				return registry.NewRegisterRuntimeTx(n, f, s.runtimeDesc(s.rt1, v[1%len(v)].Entity.Public()))
			})
		},
		func() built {
			return mk("beacon/set-epoch", c.plain(), func(n uint64, f *transaction.Fee) *transaction.Transaction {
				return muxdrv.TxSetEpoch(n, f, 7)
			})
		},
		func() built {
			return mk("roothash/commit-unknown-runtime", v[r.Intn(len(v))].Node, func(n uint64, f *transaction.Fee) *transaction.Transaction {
				var id common.Namespace
				_ = id.UnmarshalHex("8000000000000000000000000000000000000000000000000000000000000002")
				return roothash.NewExecutorCommitTx(n, f, id, nil)
			})
		},
		func() built {
			return mk("roothash/msg-unknown-runtime", c.plain(), func(n uint64, f *transaction.Fee) *transaction.Transaction {
				var id common.Namespace
				_ = id.UnmarshalHex("8000000000000000000000000000000000000000000000000000000000000002")
				return roothash.NewSubmitMsgTx(n, f, &roothash.SubmitMsg{ID: id, Fee: mustQ(1), Tokens: mustQ(5)})
			})
		},
		func() built {
			return mk("vault/authorize-no-vault", c.plain(), func(n uint64, f *transaction.Fee) *transaction.Transaction {
				return vault.NewAuthorizeActionTx(n, f, &vault.AuthorizeAction{Vault: acc[0].Address, Nonce: 0, Action: vault.Action{Suspend: &vault.ActionSuspend{}}})
			})
		},
		func() built {
			return mk("vault/authorize-not-authority", acc[8].Key, func(n uint64, f *transaction.Fee) *transaction.Transaction {
				return vault.NewAuthorizeActionTx(n, f, &vault.AuthorizeAction{Vault: s.vaultAddr, Nonce: 1, Action: vault.Action{Suspend: &vault.ActionSuspend{}}})
			})
		},
		func() built {
			return inTx(mk("vault/execute-failing-message", acc[7].Key, func(n uint64, f *transaction.Fee) *transaction.Transaction {
				body := cbor.Marshal(&staking.Transfer{To: acc[0].Address, Amount: mustQ(1 << 50)})
				return vault.NewAuthorizeActionTx(n, f, &vault.AuthorizeAction{Vault: s.vaultAddr, Nonce: 1, Action: vault.Action{
					ExecuteMessage: &vault.ActionExecuteMessage{Method: staking.MethodTransfer, Body: body}}})
			}))
		},
		func() built {
			return mk("vault/authorize-bad-nonce", acc[7].Key, func(n uint64, f *transaction.Fee) *transaction.Transaction {
				return vault.NewAuthorizeActionTx(n, f, &vault.AuthorizeAction{Vault: s.vaultAddr, Nonce: 5 + uint64(r.Intn(9)), Action: vault.Action{Resume: &vault.ActionResume{}}})
			})
		},
		func() built {
			return mk("vault/cancel-nothing", acc[7].Key, func(n uint64, f *transaction.Fee) *transaction.Transaction {
				return vault.NewCancelActionTx(n, f, &vault.CancelAction{Vault: s.vaultAddr, Nonce: 1})
			})
		},
		func() built {
			// withdrawals FROM the vault by the policy address: the vault's withdraw hook authorizes
			// (and records the amount against the limit), the transfer fails afterwards
			vb := c.balAddr(s.vaultAddr)
			return inTx(mk("vault/withdraw-above-balance", acc[8].Key, func(n uint64, f *transaction.Fee) *transaction.Transaction {
				return muxdrv.TxWithdraw(n, f, s.vaultAddr, vb+1+uint64(r.Intn(500)))
			}))
		},
		func() built {
			// (fails only in histories with MinTransactBalance > 0; otherwise a plain success)
			vb := c.balAddr(s.vaultAddr)
			amt := vb
			if vb > 1000 {
				amt = vb - uint64(1+r.Intn(999))
			}
			return inTx(mk("vault/withdraw-leaves-vault-under-min", acc[8].Key, func(n uint64, f *transaction.Fee) *transaction.Transaction {
				return muxdrv.TxWithdraw(n, f, s.vaultAddr, amt)
			}))
		},
		func() built {
			return mk("vault/withdraw-over-limit", acc[8].Key, func(n uint64, f *transaction.Fee) *transaction.Transaction {
				return muxdrv.TxWithdraw(n, f, s.vaultAddr, 1_000_000_001+uint64(r.Intn(500)))
			})
		},
		func() built {
			return mk("vault/withdraw-no-policy", acc[5].Key, func(n uint64, f *transaction.Fee) *transaction.Transaction {
				return muxdrv.TxWithdraw(n, f, s.vaultAddr, 100)
			})
		},
		func() built {
			return mk("vault/authorize-twice", acc[6].Key, func(n uint64, f *transaction.Fee) *transaction.Transaction {
				f.Gas = 4 * muxdrv.DefaultGas
				return vault.NewAuthorizeActionTx(n, f, &vault.AuthorizeAction{Vault: s.vault2Addr, Nonce: 0, Action: s.vault2Action()})
			})
		},
		func() built {
			// the SECOND authorization: the action becomes executable, the inner transfer runs as a
			// subcall. Succeeds with enough gas; always gas-swept (see sweepGas)
			b := mk("vault/authorize-makes-executable", acc[7].Key, func(n uint64, f *transaction.Fee) *transaction.Transaction {
				f.Gas = 4 * muxdrv.DefaultGas
				return vault.NewAuthorizeActionTx(n, f, &vault.AuthorizeAction{Vault: s.vault2Addr, Nonce: 0, Action: s.vault2Action()})
			})
			b.hkind = 2
			return b
		},
		func() built {
			return mk("vault/authorize-different-action-same-nonce", acc[7].Key, func(n uint64, f *transaction.Fee) *transaction.Transaction {
				f.Gas = 4 * muxdrv.DefaultGas
				return vault.NewAuthorizeActionTx(n, f, &vault.AuthorizeAction{Vault: s.vault2Addr, Nonce: 0, Action: vault.Action{Resume: &vault.ActionResume{}}})
			})
		},
		func() built {
			return mk("vault/cancel-by-stranger", acc[8].Key, func(n uint64, f *transaction.Fee) *transaction.Transaction {
				return vault.NewCancelActionTx(n, f, &vault.CancelAction{Vault: s.vault2Addr, Nonce: 0})
			})
		},
		func() built {
			return mk("vault/suspend-by-non-suspend-authority", acc[8].Key, func(n uint64, f *transaction.Fee) *transaction.Transaction {
				f.Gas = 4 * muxdrv.DefaultGas
				return vault.NewAuthorizeActionTx(n, f, &vault.AuthorizeAction{Vault: s.vaultAddr, Nonce: 1, Action: vault.Action{Suspend: &vault.ActionSuspend{}}})
			})
		},
		func() built {
			return mk("vault/create-invalid", c.plain(), func(n uint64, f *transaction.Fee) *transaction.Transaction {
				return vault.NewCreateTx(n, f, &vault.Create{})
			})
		},
	}
	commitGen := func(kind int) gen {
		return func() built {
			// batches of executor commitments: an earlier commitment of the batch is accepted into
			// the pool, a later one is refused: the batch must be all-or-nothing
			st := s.rtStateAt(c.h-1, s.rt1)
			if st == nil || st.Committee == nil {
				b := mk("roothash/commit-runtime-not-active", c.plain(), func(n uint64, f *transaction.Fee) *transaction.Transaction {
					return roothash.NewExecutorCommitTx(n, f, s.rt1, []commitment.ExecutorCommitment{{NodeID: s.cnode.Node.Public()}})
				})
				b.minH = rtActiveH + 1
				return b
			}
			sched := s.cnode.Node.Public()
			good := mkCommit(s.rt1, st.LastBlock, sched, s.cnode.Node, 0, 0, false)
			label := []string{"batch-second-bad-signature", "batch-second-wrong-round", "batch-duplicate", "batch-second-non-member", "stale-round", "bad-previous-hash", "batch-second-other-scheduler"}[kind]
			var cs []commitment.ExecutorCommitment
			switch kind {
			case 0:
				bad := mkCommit(s.rt1, st.LastBlock, sched, s.cnode.Node, 1, 0, false)
				bad.Signature[3] ^= 0x40
				cs = []commitment.ExecutorCommitment{good, bad}
			case 1:
				cs = []commitment.ExecutorCommitment{good, mkCommit(s.rt1, st.LastBlock, sched, s.cnode.Node, 0, 1+int64(r.Intn(3)), false)}
			case 2:
				cs = []commitment.ExecutorCommitment{good, good}
			case 3:
				cs = []commitment.ExecutorCommitment{good, mkCommit(s.rt1, st.LastBlock, sched, s.fresh2.Node, 0, 0, false)}
			case 4:
				cs = []commitment.ExecutorCommitment{mkCommit(s.rt1, st.LastBlock, sched, s.cnode.Node, 0, -1, false)}
			case 5:
				cs = []commitment.ExecutorCommitment{mkCommit(s.rt1, st.LastBlock, sched, s.cnode.Node, 0, 0, true)}
			default:
				cs = []commitment.ExecutorCommitment{good, mkCommit(s.rt1, st.LastBlock, s.fresh2.Node.Public(), s.cnode.Node, 1, 0, false)}
			}
			b := inTx(mk("roothash/commit-"+label, c.plain(), func(n uint64, f *transaction.Fee) *transaction.Transaction {
				f.Gas = 4 * muxdrv.DefaultGas
				return roothash.NewExecutorCommitTx(n, f, s.rt1, cs)
			}))
			b.minH = rtActiveH + 1
			return b
		}
	}
	evidGen := func(kind int) gen {
		return func() built {
			st := s.rtStateAt(c.h-1, s.rt1)
			var blk *block.Block
			if st != nil {
				blk = st.LastBlock
			} else {
				blk = block.NewGenesisBlock(s.rt1, 0)
			}
			label := []string{"unregistered-node", "equal-commits", "duplicate", "different-rounds"}[kind]
			signerKey := s.nobody // a key that is no registered node: "fake but valid" evidence
			if kind == 2 {
				signerKey = s.cnode.Node
			}
			a := mkCommit(s.rt1, blk, s.cnode.Node.Public(), signerKey, 1, 0, false)
			bb := mkCommit(s.rt1, blk, s.cnode.Node.Public(), signerKey, 2, 0, false)
			switch kind {
			case 1:
				bb = a
			case 2:
				// exactly the evidence of the setup block (accepted there): its round is the one
				// after the block that was last at rtFillH+1
				if st2 := s.rtStateAt(rtFillH+1, s.rt1); st2 != nil {
					a = mkCommit(s.rt1, st2.LastBlock, s.cnode.Node.Public(), s.cnode.Node, 1, 0, false)
					bb = mkCommit(s.rt1, st2.LastBlock, s.cnode.Node.Public(), s.cnode.Node, 2, 0, false)
				}
			case 3:
				bb = mkCommit(s.rt1, blk, s.cnode.Node.Public(), signerKey, 2, 1, false)
			}
			b := mk("roothash/evidence-"+label, c.plain(), func(n uint64, f *transaction.Fee) *transaction.Transaction {
				f.Gas = 4 * muxdrv.DefaultGas
				return roothash.NewEvidenceTx(n, f, &roothash.Evidence{ID: s.rt1, EquivocationExecutor: &roothash.EquivocationExecutorEvidence{CommitA: a, CommitB: bb}})
			})
			b.minH = rtActiveH + 1
			if kind == 2 {
				b.minH = rtFillH + 3
			}
			return b
		}
	}
	for k := 0; k < 7; k++ {
		gens = append(gens, commitGen(k))
	}
	for k := 0; k < 4; k++ {
		gens = append(gens, evidGen(k))
	}
	rtRejectGen := func(kind int) gen {
		return func() built {
			// RegisterRuntime that passes every registry and stake check and is REJECTED BY A SUBSCRIBER of
			// the registry's notifications: roothash VerifyRuntimeParameters (roothash/api/api.go:660-668)
			// refuses Executor.MaxMessages > MaxRuntimeMessages and MaxInMessages > MaxInRuntimeMessages.
			// Both for a new runtime and for an update of the registered one.
			label := []string{"new-max-messages", "new-max-in-messages", "update-max-messages", "update-max-in-messages"}[kind]
			return inTx(mk("registry/runtime-rejected-by-roothash-"+label, v[0].Entity, func(n uint64, f *transaction.Fee) *transaction.Transaction {
				id := s.rt3()
				if kind >= 2 {
					id = s.rt1
				}
				d := s.runtimeDesc(id, v[0].Entity.Public())
				if kind%2 == 0 {
					d.Executor.MaxMessages = s.g.Doc.RootHash.Parameters.MaxRuntimeMessages + 1 + uint32(r.Intn(5))
				} else {
					d.TxnScheduler.MaxInMessages = s.g.Doc.RootHash.Parameters.MaxInRuntimeMessages + 1 + uint32(r.Intn(5))
				}
				f.Gas = 4 * muxdrv.DefaultGas
				return registry.NewRegisterRuntimeTx(n, f, d)
			}))
		}
	}
	govRejectGen := func(mi int) gen {
		return func() built {
			// a change-parameters proposal REJECTED BY THE SUBSCRIBER module of
			// governance MessageValidateParameterChanges (one class per subscribing module)
			mods := []string{registry.ModuleName, roothash.ModuleName, scheduler.ModuleName, vault.ModuleName, governance.ModuleName, staking.ModuleName}
			mod := mods[mi%len(mods)]
			return mk("gov/changes-rejected-by-"+mod, c.plain(), func(n uint64, f *transaction.Fee) *transaction.Transaction {
				return governance.NewSubmitProposalTx(n, f, &governance.ProposalContent{
					Metadata:         &governance.ProposalMetadata{Title: "verif failing proposal"},
					ChangeParameters: &governance.ChangeParametersProposal{Module: mod, Changes: cbor.Marshal(map[string]int{"no_such_parameter": 1})},
				})
			})
		}
	}
	for k := 0; k < 4; k++ {
		gens = append(gens, rtRejectGen(k))
	}
	for k := 0; k < 6; k++ {
		gens = append(gens, govRejectGen(k))
	}
	// Only in histories with MinTransactBalance > 0: the balance left behind is below the minimum
	// (checked by the handlers AFTER the in-memory move, before the writes).
	minGens := []gen{
		func() built {
			k := c.plain()
			return mk("transfer/leaves-below-min", k, func(n uint64, f *transaction.Fee) *transaction.Transaction {
				return muxdrv.TxTransfer(n, f, acc[0].Address, c.bal(k)-f.Amount.ToBigInt().Uint64()-uint64(1+r.Intn(999)))
			})
		},
		func() built {
			k := c.plain()
			return mk("escrow/leaves-below-min", k, func(n uint64, f *transaction.Fee) *transaction.Transaction {
				return muxdrv.TxAddEscrow(n, f, v[r.Intn(len(v))].EntityAddress(), c.bal(k)-f.Amount.ToBigInt().Uint64()-uint64(1+r.Intn(999)))
			})
		},
		func() built {
			k := c.plain()
			return mk("burn/leaves-below-min", k, func(n uint64, f *transaction.Fee) *transaction.Transaction {
				return muxdrv.TxBurn(n, f, c.bal(k)-f.Amount.ToBigInt().Uint64()-uint64(1+r.Intn(999)))
			})
		},
		func() built {
			return inTx(mk("withdraw/leaves-source-below-min", acc[3].Key, func(n uint64, f *transaction.Fee) *transaction.Transaction {
				return muxdrv.TxWithdraw(n, f, acc[2].Address, c.bal(acc[2].Key)-uint64(1+r.Intn(999)))
			}))
		},
	}
	if s.g.Doc.Staking.Parameters.MinTransactBalance.ToBigInt().Sign() > 0 && r.Chance(12) {
		return minGens[r.Intn(len(minGens))]()
	}
	// Generic: every method with a garbage body, every method with its zero-value body.
	var methods []transaction.MethodName
	for m := range s.known {
		methods = append(methods, m)
	}
	sort.Slice(methods, func(i, j int) bool { return methods[i] < methods[j] })
	pickSigner := func() *muxdrv.Key {
		switch r.Intn(4) {
		case 0:
			return v[r.Intn(len(v))].Entity
		case 1:
			return v[r.Intn(len(v))].Node
		default:
			return c.plain()
		}
	}
	gens = append(gens,
		func() built {
			m := methods[r.Intn(len(methods))]
			return mk("generic/garbage-body/"+string(m), pickSigner(), func(n uint64, f *transaction.Fee) *transaction.Transaction {
				var body any = "garbage"
				if r.Chance(50) {
					body = []int{1, 2, 3}
				}
				return transaction.NewTransaction(n, f, m, body)
			})
		},
		func() built {
			m := methods[r.Intn(len(methods))]
			return mk("generic/zero-body/"+string(m), pickSigner(), func(n uint64, f *transaction.Fee) *transaction.Transaction {
				return transaction.NewTransaction(n, f, m, m.BodyType())
			})
		},
	)
	// Round-robin over the catalogue (so that even a small run meets every class), the two
	// generic generators get every fourth draw.
	if c.wantLabel != "" {
		for _, gf := range gens {
			if b := gf(); b.label == c.wantLabel {
				return b
			}
		}
	}
	if !roundRobin {
		return gens[r.Intn(len(gens))]()
	}
	cycle++
	gfn := gens[(cycle-cycle/4)%(len(gens)-2)]
	if cycle%4 == 0 {
		gfn = gens[len(gens)-1-r.Intn(2)]
	}
	b := gfn()
	if b.minH > c.h && b.minH <= s.N {
		// the class needs later state (e.g. the runtime's committee, a full queue): move the case
		c.h = b.minH + r.Intn(s.N-b.minH+1)
		c.pre = kvMap(s.dumps[c.h-1])
		b = gfn()
	}
	return b
}

// validBase builds a transaction that would succeed (for stage modifiers and gas sweeps).
func (c *gctx) validBase() built {
	g, r := c.s.g, c.rng
	acc, v := g.Accounts, g.Validators
	k := c.plain()
	n := c.nonce(k)
	f := c.fee()
	switch r.Intn(8) {
	case 0:
		return built{label: "transfer", key: k, tx: muxdrv.TxTransfer(n, f, acc[0].Address, 10+uint64(r.Intn(500))), hkind: 2}
	case 1:
		return built{label: "burn", key: k, tx: muxdrv.TxBurn(n, f, 10+uint64(r.Intn(500))), hkind: 2}
	case 2:
		return built{label: "add-escrow", key: k, tx: muxdrv.TxAddEscrow(n, f, v[r.Intn(len(v))].EntityAddress(), 10+uint64(r.Intn(500))), hkind: 2}
	case 3:
		return built{label: "reclaim", key: acc[4].Key, tx: muxdrv.TxReclaimEscrow(c.nonce(acc[4].Key), f, v[1%len(v)].EntityAddress(), 1+uint64(r.Intn(100))), hkind: 2}
	case 4:
		for k == acc[5].Key { // account 5 already holds MaxAllowances allowances
			k = c.plain()
		}
		n = c.nonce(k)
		return built{label: "allow", key: k, tx: muxdrv.TxAllow(n, f, acc[0].Address, false, 10+uint64(r.Intn(500))), hkind: 2}
	case 5:
		return built{label: "withdraw", key: acc[3].Key, tx: muxdrv.TxWithdraw(c.nonce(acc[3].Key), f, acc[2].Address, 10+uint64(r.Intn(100))), hkind: 2}
	case 6:
		e := v[r.Intn(len(v))].Entity
		return built{label: "submit-proposal", key: e, tx: muxdrv.TxSubmitChangeParams(c.nonce(e), f, 13+uint64(r.Intn(5))), hkind: 2, entity: true}
	default:
		e := v[r.Intn(len(v))].Entity
		return built{label: "amend", key: e, tx: muxdrv.TxAmendCommission(c.nonce(e), f, 40+uint64(r.Intn(5)), 1000+uint64(r.Intn(1000)), 0, 0, 0), hkind: 2, entity: true}
	}
}

// genCase builds one twin case for height h.
func (c *gctx) genCase() *Case {
	s, r := c.s, c.rng
	cs := &Case{Kind: "twin", Seed: s.seed, Blocks: s.N, Height: c.h, Pos: r.Intn(len(s.user[c.h]) + 1)}
	set := func(stage, label string, raw []byte, b built) *Case {
		cs.Stage, cs.Label, cs.Tx, cs.HKind = stage, label, hex.EncodeToString(raw), b.hkind
		if b.tx != nil {
			cs.Costs = s.opCost[b.tx.Method]
		}
		return cs
	}
	if r.Chance(9) {
		// UNDERPRICED variants of any class: fee.amount/fee.gas just below the consensus minimum,
		// zero amount with gas > 0, and amount > 0 with gas = 0 (GasPrice() = 0 by definition; the
		// transaction-size gas charge refuses it first). Delivered in a block like everything else:
		// they pass authentication (fee + nonce) and must fail BEFORE the handler runs.
		b := c.validBase()
		if r.Chance(50) {
			b = c.execFailingPick(false)
		}
		if c.h != cs.Height {
			cs.Height, cs.Pos = c.h, r.Intn(len(s.user[c.h])+1)
		}
		gas := uint64(4 * muxdrv.DefaultGas)
		var amount uint64
		variant := r.Intn(3)
		name := []string{"just-below", "zero-amount", "zero-gas"}[variant]
		switch variant {
		case 0:
			if s.minPrice > 0 {
				amount = gas*s.minPrice - 1 - uint64(r.Intn(3))
			}
		case 1:
			amount = 0
		default:
			gas, amount = 0, 1+uint64(r.Intn(1000))
		}
		b.tx.Fee = muxdrv.Fee(amount, gas)
		stage := "exec"
		if variant == 2 {
			stage = "gas"
		}
		return set(stage, "underpriced-"+name+"/"+b.label, muxdrv.Sign(b.key, b.tx), b)
	}
	switch p := r.Intn(100); {
	case p < 50: // handler failures
		b := c.execFailing()
		if c.h != cs.Height {
			cs.Height, cs.Pos = c.h, r.Intn(len(s.user[c.h])+1)
		}
		return set("exec", b.label, sgn(b.key, b.tx), b)
	case p < 64: // gas limit sweep on an otherwise valid transaction
		b := c.validBase()
		cost := s.opCost[b.tx.Method][0]
		size := uint64(len(sgn(b.key, b.tx)))
		var gas uint64
		switch r.Intn(8) {
		case 0:
			gas = 0
		case 1:
			gas = uint64(r.Intn(int(size)))
		case 2:
			gas = size - 1 - uint64(r.Intn(3))
		case 3:
			gas = size + uint64(r.Intn(3))
		case 4:
			gas = size + cost - 1 - uint64(r.Intn(4))
		case 5:
			gas = size + uint64(r.Intn(int(cost)))
		case 6:
			gas = size + cost - 4 + uint64(r.Intn(8)) // around the success threshold
		default:
			gas = uint64(r.Intn(int(size + cost)))
		}
		if b.tx.Fee == nil {
			b.tx.Fee = &transaction.Fee{}
		}
		b.tx.Fee.Gas = transaction.Gas(gas)
		raw := sgn(b.key, b.tx)
		stage := "gas"
		if gas >= uint64(len(raw)) {
			stage = "exec"
		}
		if gas >= uint64(len(raw))+cost {
			stage = "ok"
		}
		return set(stage, "gas-sweep/"+b.label, raw, b)
	case p < 77: // authentication failures
		b := c.validBase()
		b.hkind = 2
		mod := r.Intn(6)
		for (mod == 3 || mod == 4) && b.entity {
			b = c.validBase()
		}
		switch mod {
		case 0:
			b.tx.Nonce++
			return set("auth", "nonce+1/"+b.label, sgn(b.key, b.tx), b)
		case 1:
			if b.tx.Nonce > 0 {
				b.tx.Nonce--
			} else {
				b.tx.Nonce = math.MaxUint64
			}
			return set("auth", "nonce-1/"+b.label, sgn(b.key, b.tx), b)
		case 2:
			b.tx.Nonce = r.U64() | 1<<40
			return set("auth", "nonce-random/"+b.label, sgn(b.key, b.tx), b)
		case 3:
			b.tx.Fee = muxdrv.Fee(c.bal(b.key)+1+uint64(r.Intn(3)), muxdrv.DefaultGas)
			return set("auth", "fee>balance/"+b.label, sgn(b.key, b.tx), b)
		case 4:
			// fee == balance passes authentication; most handlers then fail for lack of funds.
			b.tx.Fee = muxdrv.Fee(c.bal(b.key), muxdrv.DefaultGas)
			b.hkind = 0
			return set("exec", "fee=balance/"+b.label, sgn(b.key, b.tx), b)
		default:
			k := s.nobody
			tx := muxdrv.TxTransfer(0, muxdrv.Fee(1+uint64(r.Intn(50)), muxdrv.DefaultGas), s.g.Accounts[0].Address, 100)
			return set("auth", "unfunded-signer/transfer", sgn(k, tx), built{tx: tx, hkind: 2})
		}
	case p < 82: // unknown method / empty account with zero fee
		k := c.plain()
		if r.Chance(30) {
			tx := muxdrv.TxTransfer(0, muxdrv.Fee(0, muxdrv.DefaultGas), s.g.Accounts[0].Address, 100)
			return set("exec", "unfunded-signer-zero-fee/transfer", sgn(s.nobody, tx), built{tx: tx})
		}
		m := []string{"staking.Nope", "nomodule.Method", "consensus.Other", "registry.registerentity", "x"}[r.Intn(5)]
		tx := transaction.NewTransaction(c.nonce(k), c.fee(), transaction.MethodName(m), "body")
		return set("route", "unknown-method/"+m, sgn(k, tx), built{tx: tx})
	default: // decode failures
		b := c.validBase()
		if r.Chance(40) {
			b = c.execFailingPick(false)
		}
		good := sgn(b.key, b.tx)
		switch r.Intn(8) {
		case 0:
			return set("decode", "sig/other-chain", muxdrv.SignRaw(b.key, b.tx, muxdrv.TxRawContext("0000000000000000")), b)
		case 1:
			return set("decode", "sig/other-domain", muxdrv.SignRaw(b.key, b.tx, []byte("oasis-core/registry: register entity")), b)
		case 2:
			return set("decode", "sig/claimed-signer", muxdrv.WithSigner(good, c.plain().Public()), b)
		case 3:
			return set("decode", "flip-bit", muxdrv.FlipBit(good, r.Intn(8*len(good))), b)
		case 4:
			return set("decode", "truncate", muxdrv.Truncate(good, 1+r.Intn(len(good))), b)
		case 5:
			return set("decode", "garbage", r.Bytes(1+r.Intn(300)), b)
		case 6:
			big := transaction.NewTransaction(b.tx.Nonce, b.tx.Fee, b.tx.Method, r.Bytes(33000))
			return set("decode", "oversized", sgn(b.key, big), b)
		default:
			tx := transaction.NewTransaction(b.tx.Nonce, b.tx.Fee, "", "body")
			return set("decode", "empty-method", sgn(b.key, tx), b)
		}
	}
}

// ---------------------------------------------------------------- gas sweep over every charging point

// sweepGas re-issues the transaction of a finished case with fee.gas lowered to one below every
// gas-charging point of its processing, discovered empirically: the response of a run that ran out
// of gas reports the gas used BEFORE the refused charge, i.e. the cumulative cost of all earlier
// charging points (transaction bytes, the handler's operations, inner subcalls of vault
// ExecuteMessage actions and of messages). Starting from (gas used with ample gas) - 1 and
// continuing with (reported gas used) - 1 visits every charging point from the last to the first.
// Each re-issued transaction is an ordinary twin case: failed => only fee + nonce may differ.
func sweepGas(s *scen, cs *Case, o *Obs, ti txInfo, doTwin func(*scen, *Case), last func() (*Obs, txInfo), sum *coqout.Summary) {
	if o == nil || !ti.decoded || !ti.authPass || o.GasUsed <= 0 {
		return
	}
	key := s.keys[ti.signer]
	if key == nil {
		return
	}
	raw0, _ := hex.DecodeString(cs.Tx)
	handlerGas := o.GasUsed - int64(len(raw0)) // what the handler (incl. subcalls) charged with ample gas
	if handlerGas < 0 {
		handlerGas = 0
	}
	limit := o.GasUsed - 1
	for i := 0; i < 8 && limit >= 0; i++ {
		tx := ti.tx
		fee := transaction.Fee{}
		if tx.Fee != nil {
			fee = *tx.Fee
		}
		fee.Gas = transaction.Gas(limit)
		tx.Fee = &fee
		c2 := *cs
		c2.Tx = hex.EncodeToString(muxdrv.Sign(key, &tx))
		c2.Label = "gas-point/" + cs.Label
		c2.Stage = "exec"
		c2.Costs = []uint64{uint64(handlerGas)}
		c2.HKind = 2 // the model's handler: charge handlerGas, then succeed ...
		if o.Failed {
			c2.HKind = 0 // ... or fail, as the transaction did with ample gas
		}
		doTwin(s, &c2)
		o2, _ := last()
		sum.Count("gas_points_visited", fmt.Sprintf("point %d from the end", i+1))
		// (a transaction may also SUCCEED with less gas: vault authorizeAction only records an inner
		// out-of-gas in its event; the descent continues below what it used)
		if o2 == nil || o2.GasUsed <= 0 || o2.GasUsed-1 >= limit || (o2.Failed && !strings.Contains(o2.Log, "out of gas")) {
			break
		}
		limit = o2.GasUsed - 1
	}
}

// ---------------------------------------------------------------- Coq cases

func n(v uint64) string { return fmt.Sprintf("%d", v) }

func bigN(b *big.Int) string {
	if b == nil || b.Sign() < 0 {
		return "0"
	}
	return b.String()
}

// coqCase renders ((pre_nonce, pre_bal, min_bal, decoded, known, tx_nonce, fee, gas, size, byte_cost, costs, hkind),
//
//	(failed, auth_passed, nonce', bal', paid, other_changed)).
func (s *scen) coqCase(cs *Case, ti txInfo, o *Obs) string {
	raw, _ := hex.DecodeString(cs.Tx)
	var costs []string
	for _, c := range cs.Costs {
		costs = append(costs, n(c))
	}
	if ti.decoded && s.known[ti.tx.Method] && len(cs.Costs) == 0 {
		costs = nil
	}
	if strings.HasPrefix(cs.Label, "gas-point/") && !o.Failed {
		costs = nil // it went through with less gas than estimated: the handler's verdict is an input
	}
	known := ti.decoded && s.known[ti.tx.Method]
	minBal := s.g.Doc.Staking.Parameters.MinTransactBalance.ToBigInt()
	byteCost := uint64(s.g.Doc.Consensus.Parameters.GasCosts["tx_byte"])
	// The handler's own verdict is an INPUT of the model (handlers are not modelled): a
	// transaction that went through gets the succeeding handler. Gas sweeps are predictive.
	hk := cs.HKind
	if !o.Failed && !strings.HasPrefix(cs.Label, "gas-sweep/") {
		hk = 2
	}
	if s.blockGas > 0 && o.Failed && strings.Contains(o.Log, fmt.Sprintf("limit: %d ", s.blockGas)) {
		hk = 0 // it ran out of BLOCK gas, which the model does not have: the verdict is an input
	}
	in := fmt.Sprintf("(%s, %s, %s, %s, %s, %s, %s, %s, %s, %s, %s, %s, %s)",
		n(s.minPrice), n(o.NonceB), bigN(o.BalB), bigN(minBal), coqout.Bool(ti.decoded), coqout.Bool(known),
		n(ti.tx.Nonce), bigN(ti.fee), n(ti.gas), n(uint64(len(raw))), n(byteCost), coqout.List(costs), n(uint64(hk)))
	authObs := o.NonceA != o.NonceB
	out := fmt.Sprintf("(%s, %s, %s, %s, %s, %s)", coqout.Bool(o.Failed), coqout.Bool(authObs), n(o.NonceA), bigN(o.BalA), bigN(o.Paid), coqout.Bool(len(o.OtherDiff) > 0))
	return "(" + in + ", " + out + ")"
}

// ---------------------------------------------------------------- main

func main() {
	seed := flag.Uint64("seed", 1, "")
	out := flag.String("out", "", "")
	cases := flag.Int("cases", 100, "failing transactions to generate")
	blocks := flag.Int("blocks", 11, "blocks per history")
	perScen := flag.Int("per", 50, "cases per scenario (history)")
	bursts := flag.Int("bursts", 1, "CheckTx/EstimateGas bursts per scenario")
	replay := flag.String("replay", "", "replay a case description")
	verbose := flag.Bool("v", false, "")
	sweepPct := flag.Int("sweep", 6, "percentage of cases whose gas limit is swept over every charging point")
	probe := flag.Bool("probe", false, "print the setup results of one history and exit")
	flag.Parse()
	if *probe {
		s, err := buildScenario(*seed*1000, *blocks)
		if err != nil {
			panic(err)
		}
		fmt.Println("setup failures:", s.setupFail)
		for h := 1; h <= s.N; h++ {
			ep, _, _ := s.B.Epoch(int64(h))
			fmt.Printf("h=%d epoch=%d rt1: %s | rt2: %s\n", h, ep, s.rtInfo(h, s.rt1), s.rtInfo(h, s.rt2))
		}
		s.B.Close()
		return
	}
	if *out == "" {
		d, _ := os.MkdirTemp("", "failtx-")
		defer os.RemoveAll(d)
		*out = d
	}
	_ = os.MkdirAll(*out, 0o755)
	w := coqout.NewWriter(*out, "From Verif Require Import Lib.Base Atomic.Model Atomic.Corr.", "run_case", "obs_eqb", 400)
	sum := coqout.NewSummary("distinct (label class, failure stage, observed (codespace,code), allowed-diff shape) tuples among transactions that failed; successes and setup are not counted")
	distinct := map[string]bool{}
	evals := 0

	report := func(cs *Case, what []string) {
		sum.Violations = append(sum.Violations, map[string]any{"what": "C08 violated: " + strings.Join(what, " | "), "case": cs,
			"kind": cs.Kind, "seed": cs.Seed, "blocks": cs.Blocks, "height": cs.Height, "pos": cs.Pos, "tx": cs.Tx, "label": cs.Label, "stage": cs.Stage, "hkind": cs.HKind, "costs": cs.Costs})
	}

	var redo []*Case
	var lastObs *Obs
	var lastTi txInfo
	doTwin := func(s *scen, cs *Case) {
		o, ti, viol, err := s.runTwin(cs)
		if err != nil {
			fmt.Fprintln(os.Stderr, "harness error:", err)
			os.Exit(3)
		}
		evals++
		lastObs, lastTi = o, ti
		stageObs := "decode"
		switch {
		case !o.Failed:
			stageObs = "ok"
		case ti.authPass:
			stageObs = "post-auth"
		case ti.decoded:
			stageObs = "auth:" + ti.why
		default:
			stageObs = "decode:" + ti.why
		}
		// generator self-check: the aimed stage and the computed predicate must agree.
		aimedPass := cs.Stage == "gas" || cs.Stage == "exec" || cs.Stage == "ok"
		if *replay == "" && aimedPass != ti.authPass {
			sum.Count("generator_inconsistent", cs.Label+" aimed="+cs.Stage+" computed="+ti.why)
		}
		if *verbose {
			fmt.Printf("h=%d pos=%d %-45s stage=%-6s obs=%-18s code=%s/%d gas=%d diff=%d %s\n", cs.Height, cs.Pos, cs.Label, cs.Stage, stageObs, o.Codespace, o.Code, o.GasUsed, len(o.AllDiff), o.Log)
		}
		class := cs.Label
		if i := strings.Index(class, "/"); i > 0 && (strings.HasPrefix(class, "generic/") || strings.HasPrefix(class, "gas-sweep/")) {
			class = cs.Label
		}
		if s.blockGas > 0 {
			sum.Count("block_gas_history", fmt.Sprintf("displaced=%d", o.Displaced))
		}
		sum.Count("min_gas_price_history", fmt.Sprint(s.minPrice))
		sum.Count("stage_aimed", cs.Stage)
		sum.Count("stage_observed", stageObs)
		sum.Count("height", fmt.Sprint(cs.Height))
		if o.Failed {
			sum.Count("failing_label", class)
			sum.Count("error_code", fmt.Sprintf("%s/%d", o.Codespace, o.Code))
			sum.Count("diff_keys", fmt.Sprint(len(o.AllDiff)))
			if ti.decoded {
				sum.Count("method", string(ti.tx.Method))
				if ti.fee.Sign() == 0 {
					sum.Count("fee", "zero")
				} else {
					sum.Count("fee", "nonzero")
				}
			}
			distinct[fmt.Sprintf("%s|%s|%s/%d|%d", class, stageObs, o.Codespace, o.Code, len(o.AllDiff))] = true
		} else {
			sum.Count("not_failing_label", class)
		}
		if len(viol) > 0 {
			// shrink: the same transaction alone at position 0
			c2 := *cs
			c2.Pos = 0
			if _, _, v2, err := s.runTwin(&c2); err == nil && len(v2) > 0 {
				report(&c2, v2)
			} else {
				report(cs, viol)
			}
		}
		if o.Displaced == 0 { // (the fee flow of a case with displaced companions is not comparable)
			w.Add(s.coqCase(cs, ti, o), cs)
		}
		if s.blockGas > 0 && o.Failed && cs.Pos > 0 && strings.Contains(o.Log, fmt.Sprintf("limit: %d ", s.blockGas)) {
			// the transaction itself ran out of BLOCK gas: its own failure class was not reached,
			// run it once more as the first transaction of the block
			c2 := *cs
			c2.Pos = 0
			redo = append(redo, &c2)
		}
		sum.Sample(map[string]any{"label": cs.Label, "stage": cs.Stage, "height": cs.Height, "code": fmt.Sprintf("%s/%d", o.Codespace, o.Code), "diff_keys": o.AllDiff}, 6)
	}

	doBurst := func(s *scen, cs *Case) {
		var txs []string
		if cs.Tx != "" {
			txs = strings.Split(cs.Tx, ",")
		}
		viol, ncalls, err := s.runBurst(cs, txs)
		if err != nil {
			fmt.Fprintln(os.Stderr, "harness error:", err)
			os.Exit(3)
		}
		evals++
		sum.Count("burst_calls", fmt.Sprint(ncalls))
		if len(viol) > 0 {
			report(cs, viol)
		}
	}

	if *replay != "" {
		b, err := os.ReadFile(*replay)
		if err != nil {
			panic(err)
		}
		var cs Case
		if err := json.Unmarshal(b, &cs); err != nil {
			panic(err)
		}
		if cs.Blocks == 0 {
			cs.Blocks = *blocks
		}
		s, err := buildScenario(cs.Seed, cs.Blocks)
		if err != nil {
			panic(err)
		}
		defer s.B.Close()
		if cs.Kind == "burst" {
			doBurst(s, &cs)
		} else {
			doTwin(s, &cs)
		}
	} else {
		rng := prng.New(*seed)
		left := *cases
		for sc := 0; left > 0; sc++ {
			sseed := *seed*1000 + uint64(sc)
			s, err := buildScenario(sseed, *blocks)
			if err != nil {
				fmt.Fprintln(os.Stderr, "scenario:", err)
				os.Exit(3)
			}
			for _, f := range s.setupFail {
				sum.Count("setup_failures", f)
			}
			k := *perScen
			if k > left {
				k = left
			}
			var pool []string
			for i := 0; i < k; i++ {
				h := firstTwin + rng.Intn(s.N-firstTwin+1)
				c := &gctx{s: s, rng: rng.Fork(), h: h, pre: kvMap(s.dumps[h-1])}
				cs := c.genCase()
				doTwin(s, cs)
				for len(redo) > 0 {
					c2 := redo[0]
					redo = redo[1:]
					doTwin(s, c2)
				}
				if *sweepPct > 0 && s.blockGas == 0 && rng.Intn(100) < *sweepPct {
					sweepGas(s, cs, lastObs, lastTi, doTwin, func() (*Obs, txInfo) { return lastObs, lastTi }, sum)
				}
				if len(pool) < 100 {
					pool = append(pool, cs.Tx)
				}
			}
			left -= k
			if *sweepPct > 0 && s.blockGas == 0 {
				// classes with inner subcalls are swept in every history without a block gas limit
				for _, lab := range []string{"vault/authorize-makes-executable", "vault/execute-failing-message"} {
					h := firstTwin + rng.Intn(s.N-firstTwin+1)
					c := &gctx{s: s, rng: rng.Fork(), h: h, pre: kvMap(s.dumps[h-1]), wantLabel: lab}
					b := c.execFailing()
					if b.label != lab {
						continue
					}
					cs := &Case{Kind: "twin", Seed: s.seed, Blocks: s.N, Height: c.h, Pos: 0, Tx: hex.EncodeToString(sgn(b.key, b.tx)), Label: b.label, Stage: "exec", HKind: b.hkind}
					doTwin(s, cs)
					sweepGas(s, cs, lastObs, lastTi, doTwin, func() (*Obs, txInfo) { return lastObs, lastTi }, sum)
				}
			}
			for b := 0; b < *bursts; b++ {
				h := firstTwin + rng.Intn(s.N-firstTwin+1)
				c := &gctx{s: s, rng: rng.Fork(), h: h, pre: kvMap(s.dumps[h-1])}
				var txs []string
				for i := 0; i < 100; i++ {
					if i%2 == 0 {
						bb := c.validBase()
						txs = append(txs, hex.EncodeToString(sgn(bb.key, bb.tx)))
					} else if len(pool) > 0 {
						txs = append(txs, pool[rng.Intn(len(pool))])
					}
				}
				doBurst(s, &Case{Kind: "burst", Seed: s.seed, Blocks: s.N, Height: h, Tx: strings.Join(txs, ","), Label: "checktx+estimategas burst"})
			}
			s.B.Close()
		}
	}
	w.Close()
	sum.Evaluations = evals
	sum.DistinctNontrivial = len(distinct)
	sum.Write(*out)
	fmt.Printf("failtx: %d cases, %d distinct, %d violations -> %s\n", evals, len(distinct), len(sum.Violations), filepath.Join(*out, "summary.json"))
}
