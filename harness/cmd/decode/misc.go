package main

import (
	"bytes"
	"encoding/hex"
	"errors"
	"fmt"
	"io"
	"strings"

	"github.com/golang/snappy"

	"github.com/oasisprotocol/oasis-core/go/common"
	"github.com/oasisprotocol/oasis-core/go/common/cbor"
	"github.com/oasisprotocol/oasis-core/go/common/crypto/address"
	"github.com/oasisprotocol/oasis-core/go/common/crypto/hash"
	"github.com/oasisprotocol/oasis-core/go/common/crypto/signature"
	"github.com/oasisprotocol/oasis-core/go/common/keyformat"
	"github.com/oasisprotocol/oasis-core/go/common/sgx"
	"github.com/oasisprotocol/oasis-core/go/common/sgx/ias"
	"github.com/oasisprotocol/oasis-core/go/storage/mkvs/checkpoint"
	dbApi "github.com/oasisprotocol/oasis-core/go/storage/mkvs/db/api"
	"github.com/oasisprotocol/oasis-core/go/storage/mkvs/node"

	"verifharness/internal/prng"
)

// ---------- key formats ----------
// kfSpec is a real key format together with its description for the model.
type kfSpec struct {
	kf     *keyformat.KeyFormat
	prefix byte
	coq    []string // elem constructors
	sizes  []int    // -1 = variable
	// mk returns fresh value pointers for Decode
	mk func() []any
}

var kfSpecs []kfSpec

func initKeyFormats() {
	add := func(prefix byte, coq []string, sizes []int, mk func() []any, layout ...any) {
		kfSpecs = append(kfSpecs, kfSpec{keyformat.New(prefix, layout...), prefix, coq, sizes, mk})
	}
	// runtime/transaction txnKeyFmt-like: 'T' hash kind(1 byte)
	add('T', []string{"EBin 32 0", "EU8"}, []int{32, 1}, func() []any { return []any{&hash.Hash{}, new(uint8)} }, &hash.Hash{}, uint8(0))
	// runtime/transaction tagKeyFmt: 'E' []byte hash
	add('E', []string{"EVar", "EBin 32 0"}, []int{-1, 32}, func() []any { return []any{new([]byte), &hash.Hash{}} }, []byte{}, &hash.Hash{})
	add(0x10, []string{"EU64", "EBin 32 1", "EU16", "EU32"}, []int{8, 32, 2, 4},
		func() []any { return []any{new(uint64), &common.Namespace{}, new(uint16), new(uint32)} }, uint64(0), &common.Namespace{}, uint16(0), uint32(0))
	add(0x20, []string{"EBin 32 0", "EI64", "EVar"}, []int{32, 8, -1},
		func() []any { return []any{&signature.PublicKey{}, new(int64), new([]byte)} }, &signature.PublicKey{}, int64(0), []byte{})
	add(0x30, []string{"EBin 33 0", "EBin 32 0"}, []int{33, 32},
		func() []any { return []any{&dbApi.TypedHash{}, &keyformat.PreHashed{}} }, &dbApi.TypedHash{}, keyformat.H(&hash.Hash{}))
	add(0x40, nil, nil, func() []any { return nil })
	add(0x50, []string{"EBin 21 0", "EU8"}, []int{21, 1}, func() []any { return []any{&address.Address{}, new(uint8)} }, &address.Address{}, uint8(0))
}

func coqKVal(v any) string {
	switch t := v.(type) {
	case *uint8:
		return fmt.Sprintf("VN %d", *t)
	case *uint16:
		return fmt.Sprintf("VN %d", *t)
	case *uint32:
		return fmt.Sprintf("VN %d", *t)
	case *uint64:
		return fmt.Sprintf("VN %d", *t)
	case *int64:
		return fmt.Sprintf("VN %d", uint64(*t))
	case *[]byte:
		return "VB " + cb(*t)
	case *hash.Hash:
		return "VB " + cb(t[:])
	case *common.Namespace:
		return "VB " + cb(t[:])
	case *signature.PublicKey:
		return "VB " + cb(t[:])
	case *dbApi.TypedHash:
		return "VB " + cb(t[:])
	case *keyformat.PreHashed:
		return "VB " + cb(t[:])
	case *address.Address:
		return "VB " + cb(t[:])
	}
	return "VN 999999"
}

func runKeyFormatCase(c Case) (o outcome) {
	sp := kfSpecs[c.Fmt]
	data := unhex(c.Data)
	vals := sp.mk()
	nv := c.NVals
	for len(vals) < nv { // more values than the layout has: the documented programmer-error panic
		vals = append(vals, new(uint8))
	}
	vals = vals[:nv]
	var ok bool
	g := guarded(func() { ok = sp.kf.Decode(data, vals...) })
	in := fmt.Sprintf("CKeyFormat %d [%s] %d %s", sp.prefix, strings.Join(sp.coq, "; "), nv, cb(data))
	var out string
	switch {
	case g.panicked:
		out, o.class = "OKf Panic", "panic(modelled)"
	case !ok:
		out, o.class = "OKf (Ok None)", "false"
	default:
		items := make([]string, len(vals))
		for i, v := range vals {
			items[i] = coqKVal(v)
		}
		out, o.class, o.ok = "OKf (Ok (Some ["+strings.Join(items, "; ")+"]))", "true", true
	}
	o.g = g
	o.term = "(" + in + ", " + out + ")"
	// The only panic left in Decode is the programmer error of passing more
	// values than the layout has (modelled); any other panic is a violation.
	if g.panicked && nv <= len(sp.sizes) {
		o.violation = "keyformat: Decode panicked on a well-typed call: " + g.panicVal
	} else if !g.panicked {
		if v := g.violation(); v != "" {
			o.violation = "keyformat: " + v
		}
	}
	return o
}

func genKeyFormatCase(r *prng.R) Case {
	fi := r.Intn(len(kfSpecs))
	sp := kfSpecs[fi]
	c := Case{Kind: "keyformat", Fmt: fi, NVals: r.Intn(len(sp.sizes) + 1)}
	if r.Chance(3) {
		c.NVals = len(sp.sizes) + 1
	}
	// a valid key
	b := []byte{sp.prefix}
	for _, sz := range sp.sizes {
		if sz < 0 {
			sz = r.Intn(12)
		}
		b = append(b, r.Bytes(sz)...)
	}
	if fi == 2 && r.Chance(70) { // valid namespace flags: only the top two bits may be set
		copy(b[9:17], []byte{byte(r.Intn(4)) << 6, 0, 0, 0, 0, 0, 0, 0})
	}
	c.Origin = "valid"
	switch x := r.Intn(100); {
	case x < 35:
	case x < 70: // every shorter key, down to empty
		b = b[:r.Intn(len(b)+1)]
		c.Origin = "trunc"
	case x < 80:
		b = append(b, r.Bytes(1+r.Intn(5))...)
		c.Origin = "extend"
	case x < 90:
		b[0] = byte(r.U64())
		c.Origin = "prefix"
	default:
		b = r.Bytes(r.Intn(4))
		c.Origin = "random"
	}
	c.Data = hex.EncodeToString(b)
	return c
}

// ---------- fixed-size helpers ----------
var fixedKinds = []struct {
	name string
	size int
	kind int
	fn   func([]byte) ([]byte, error)
}{
	{"hash.Hash", 32, 0, func(b []byte) ([]byte, error) { var x hash.Hash; err := x.UnmarshalBinary(b); return x[:], err }},
	{"common.Namespace", 32, 1, func(b []byte) ([]byte, error) { var x common.Namespace; err := x.UnmarshalBinary(b); return x[:], err }},
	{"address.Address", 21, 0, func(b []byte) ([]byte, error) { var x address.Address; err := x.UnmarshalBinary(b); return x[:], err }},
	{"signature.PublicKey", 32, 0, func(b []byte) ([]byte, error) {
		var x signature.PublicKey
		err := x.UnmarshalBinary(b)
		return x[:], err
	}},
	{"signature.RawSignature", 64, 0, func(b []byte) ([]byte, error) {
		var x signature.RawSignature
		err := x.UnmarshalBinary(b)
		return x[:], err
	}},
	{"dbApi.TypedHash", 33, 0, func(b []byte) ([]byte, error) { var x dbApi.TypedHash; err := x.UnmarshalBinary(b); return x[:], err }},
	{"sgx.MrEnclave", 32, 0, func(b []byte) ([]byte, error) { var x sgx.MrEnclave; err := x.UnmarshalBinary(b); return x[:], err }},
	{"keyformat.PreHashed", 32, 0, func(b []byte) ([]byte, error) {
		var x keyformat.PreHashed
		err := x.UnmarshalBinary(b)
		return x[:], err
	}},
}

func runFixedCase(c Case) (o outcome) {
	fk := fixedKinds[c.Fmt]
	data := unhex(c.Data)
	var out []byte
	var err error
	g := guarded(func() { out, err = fk.fn(data) })
	in := fmt.Sprintf("CFixed %d %d %s", fk.size, fk.kind, cb(data))
	var ot string
	switch {
	case g.panicked:
		ot, o.class = "OFixed Panic", "panic"
	case err != nil:
		ot, o.class = "OFixed (Err 70)", "err70"
	default:
		ot, o.class, o.ok = "OFixed (Ok "+cb(out)+")", "ok", true
	}
	o.g = g
	o.term = "(" + in + ", " + ot + ")"
	if v := g.violation(); v != "" {
		o.violation = "fixed " + fk.name + ": " + v
	}
	return o
}

func genFixedCase(r *prng.R) Case {
	fi := r.Intn(len(fixedKinds))
	n := fixedKinds[fi].size + []int{0, 0, 0, -1, 1, -fixedKinds[fi].size, 7}[r.Intn(7)]
	b := r.Bytes(n)
	if fixedKinds[fi].kind == 1 && len(b) >= 8 && r.Chance(70) {
		copy(b[0:8], []byte{byte(r.Intn(4)) << 6, 0, 0, 0, 0, 0, 0, 0})
	}
	return Case{Kind: "fixed", Fmt: fi, Data: hex.EncodeToString(b), Origin: "len" + fmt.Sprint(n-fixedKinds[fi].size)}
}

// ---------- IAS quote ----------
func iasErrCode(err error) int {
	s := err.Error()
	for p, c := range map[string]int{
		"ias/quote: invalid body length":           80,
		"ias/quote: unsupported version":           81,
		"ias/quote: invalid signature type":        82,
		"ias/quote: ISVSVN_PCE set for version < 2": 83,
		"ias/quote: invalid report length":         84,
		"ias/quote: invalid quote body length":     85,
	} {
		if strings.HasPrefix(s, p) {
			return c
		}
	}
	return 9999
}

func runIasQuoteCase(c Case) (o outcome) {
	data := unhex(c.Data)
	var q ias.Quote
	var err error
	g := guarded(func() { err = q.UnmarshalBinary(data) })
	in := "CIasQuote " + cb(data)
	var ot string
	switch {
	case g.panicked:
		ot, o.class = "OIas Panic", "panic"
	case err != nil:
		ot, o.class = fmt.Sprintf("OIas (Err %d)", iasErrCode(err)), fmt.Sprintf("err%d", iasErrCode(err))
	default:
		b, rp := q.Body, q.Report
		ot = fmt.Sprintf("OIas (Ok (mkIasBody %d %d %d %d %d %s, mkReport %s %s %s))", b.Version, int(b.SignatureType), b.GID,
			b.ISVSVNQuotingEnclave, b.ISVSVNProvisioningCertificationEnclave, cb(b.Basename[:]),
			cb(rp.MRENCLAVE[:]), cb(rp.MRSIGNER[:]), cb(rp.ReportData[:]))
		o.class, o.ok = "ok", true
	}
	o.g = g
	o.term = "(" + in + ", " + ot + ")"
	if v := g.violation(); v != "" {
		o.violation = "iasquote: " + v
	}
	return o
}

func genIasQuoteCase(r *prng.R) Case {
	q := ias.Quote{}
	q.Body.Version = uint16(1 + r.Intn(2))
	q.Body.SignatureType = ias.SignatureType(r.Intn(2))
	q.Body.GID = uint32(r.U64())
	q.Body.ISVSVNQuotingEnclave = uint16(r.U64())
	if q.Body.Version == 2 {
		q.Body.ISVSVNProvisioningCertificationEnclave = uint16(r.U64())
	}
	copy(q.Body.Basename[:], r.Bytes(32))
	copy(q.Report.CPUSVN[:], r.Bytes(16))
	copy(q.Report.MRENCLAVE[:], r.Bytes(32))
	copy(q.Report.MRSIGNER[:], r.Bytes(32))
	copy(q.Report.ReportData[:], r.Bytes(64))
	b, _ := q.MarshalBinary()
	c := Case{Kind: "iasquote", Origin: "valid"}
	switch x := r.Intn(100); {
	case x < 30:
	case x < 50:
		b = append(b, r.Bytes(1+r.Intn(80))...) // the signature that follows the quote
		c.Origin = "with-signature"
	case x < 70:
		cut := []int{0, 1, 2, 47, 48, 49, 431, 432}[r.Intn(8)]
		b = b[:min(cut, len(b))]
		c.Origin = "trunc"
	case x < 85:
		f := []field{{0, 2, uint64(q.Body.Version)}, {2, 2, uint64(q.Body.SignatureType)}, {10, 2, uint64(q.Body.ISVSVNProvisioningCertificationEnclave)}}[r.Intn(3)]
		var name string
		b, name = setLE(r, b, f.off, f.width, f.val)
		c.Origin = "field:" + name
	default:
		var name string
		b, name = mutate(r, b)
		c.Origin = "mut:" + name
	}
	c.Data = hex.EncodeToString(b)
	return c
}

// ---------- checkpoint chunk restore ----------
var chunkTarget *searchTarget

func chunkInit() {
	if chunkTarget == nil {
		t := srchCheckpointTarget()
		chunkTarget = &t
	}
}

// chunkEvents replicates the loop of restoreChunk over the decompressed
// payload with the same CBOR stream decoder: what each dec.Decode(&entry)
// returns.  This is the oracle input of the model (the decoder is not modelled).
func chunkEvents(payload []byte) (evs []string, total int) {
	dec := cbor.NewDecoder(bytes.NewReader(payload))
	for {
		var entry []byte
		if err := dec.Decode(&entry); err != nil {
			if errors.Is(err, io.EOF) {
				evs = append(evs, "DEof")
			} else {
				evs = append(evs, "DErr")
			}
			return evs, total
		}
		if entry == nil {
			evs = append(evs, "DItem None")
		} else {
			evs = append(evs, "DItem (Some "+cb(entry)+")")
			total += len(entry)
		}
	}
}

func chunkEventsFrom(rd io.Reader) (evs []string) {
	dec := cbor.NewDecoder(rd)
	for {
		var entry []byte
		if err := dec.Decode(&entry); err != nil {
			if errors.Is(err, io.EOF) {
				return append(evs, "DEof")
			}
			return append(evs, "DErr")
		}
		if entry == nil {
			evs = append(evs, "DItem None")
		} else {
			evs = append(evs, "DItem (Some "+cb(entry)+")")
		}
	}
}

// chunkRawCases: DETERMINISTIC chunks whose snappy framing is broken and followed by more bytes
// (the digest in the manifest is the hash of exactly these bytes): a decode failure, not a
// corrupted transfer.
func chunkRawCases() []Case {
	var es [][]byte
	genSubtree(prng.New(0xb0d), 0, 0, 2, &es)
	var payload []byte
	for _, e := range es {
		payload = append(payload, cbor.Marshal(e)...)
	}
	good := chunkWrap(payload)
	raws := [][]byte{
		[]byte("no snappy stream identifier here"),
		append(append([]byte{}, good...), 0x02, 0x03, 0x00, 0x00, 1, 2, 3, 9, 9, 9, 9), // reserved unskippable frame + trailing bytes
		append(append([]byte{}, good[:len(good)/2]...), 0xfe, 0xff, 0xff, 0xff, 7, 7, 7, 7, 7),
		append([]byte{0xff, 0x06, 0x00, 0x00, 's', 'N', 'a', 'P', 'p', 'Y', 0x00, 0x05, 0x00, 0x00, 1, 2, 3, 4, 5}, []byte("trailing bytes")...), // bad checksum
	}
	var out []Case
	for _, r := range raws {
		out = append(out, Case{Kind: "chunk", Mode: 1, Data: hex.EncodeToString(r), Origin: "boundary:raw-snappy"})
	}
	return out
}

func chunkWrap(payload []byte) []byte {
	var buf bytes.Buffer
	w := snappy.NewBufferedWriter(&buf)
	_, _ = w.Write(payload)
	_ = w.Close()
	return buf.Bytes()
}

func chunkErrCode(err error) int {
	switch {
	case errors.Is(err, checkpoint.ErrChunkCorrupted):
		return 60
	case errors.Is(err, checkpoint.ErrChunkProofVerificationFailed):
		s := err.Error()
		i := strings.Index(s, "chunk proof verification failed: ")
		if i < 0 {
			return 9999
		}
		inner := s[i+len("chunk proof verification failed: "):]
		if strings.HasPrefix(inner, "failed to decode chunk") {
			return 61
		}
		if strings.HasPrefix(inner, "verifier: bad root") {
			return 0 // reached the root comparison, which the model does not cover
		}
		return 1000 + errCodeStr(inner)
	}
	return 9999
}

// errCodeStr classifies a verifier / node decoder error by its text (the chunk
// code flattens the cause into a string).
func errCodeStr(s string) int {
	base := 0
	for p, b := range map[string]int{
		"mkvs: failed to unmarshal LabelBitLength: ": 100,
		"mkvs: failed to unmarshal leaf node: ":      200,
		"mkvs: failed to unmarshal left hash: ":      300,
		"mkvs: failed to unmarshal right hash: ":     400,
	} {
		if strings.HasPrefix(s, p) {
			base, s = b, s[len(p):]
		}
	}
	switch {
	case s == node.ErrMalformedNode.Error():
		return base + 1
	case s == node.ErrMalformedKey.Error():
		return base + 2
	case s == hash.ErrMalformed.Error():
		return base + 3
	}
	return errCode(errors.New(s))
}

func runChunkCase(c Case) (o outcome) {
	chunkInit()
	payload := unhex(c.Data)
	var evs []string
	var framed []byte
	if c.Mode == 1 {
		// Data is the RAW chunk (possibly with broken snappy framing): the decoder events are
		// those of the CBOR stream decoder over the snappy reader, as in restoreChunk
		framed = payload
		evs = chunkEventsFrom(snappy.NewReader(bytes.NewReader(framed)))
	} else {
		evs, _ = chunkEvents(payload)
		framed = chunkWrap(payload)
	}
	var err error
	g := guarded(func() { err = chunkTarget.fn(framed) })
	in := fmt.Sprintf("CChunk true [%s]", strings.Join(evs, "; "))
	var ot string
	switch {
	case g.panicked:
		ot, o.class = "OChunk Panic", "panic"
	case err == nil || chunkErrCode(err) == 0:
		ot, o.class, o.ok = "OChunk (Ok tt)", "reached-root-check", err == nil
		if err == nil {
			o.class = "restored"
		}
	default:
		ot, o.class = fmt.Sprintf("OChunk (Err %d)", chunkErrCode(err)), fmt.Sprintf("err%d", chunkErrCode(err))
	}
	o.g = g
	o.term = "(" + in + ", " + ot + ")"
	if v := g.violation(); v != "" {
		o.violation = "chunk: " + v
	}
	return o
}

func genChunkCase(r *prng.R) Case {
	chunkInit()
	c := Case{Kind: "chunk", Origin: "seed"}
	var payload []byte
	// small real chunks only (the Coq literal cost is linear in the size, but keep the files small)
	for tries := 0; tries < 20; tries++ {
		s := chunkTarget.seeds[r.Intn(len(chunkTarget.seeds))]
		p, err := io.ReadAll(snappy.NewReader(bytes.NewReader(s)))
		if err == nil && len(p) <= 2500 {
			payload = p
			break
		}
	}
	if payload == nil || r.Chance(25) {
		// a synthetic stream of proof entries
		var es [][]byte
		genSubtree(r, 0, 0, 1+r.Intn(4), &es)
		for _, e := range es {
			payload = append(payload, cbor.Marshal(e)...)
		}
		c.Origin = "synthetic"
	}
	switch x := r.Intn(100); {
	case x < 30:
	case x < 55:
		payload = payload[:r.Intn(len(payload)+1)]
		c.Origin += "+trunc"
	case x < 85:
		var name string
		payload, name = mutate(r, payload)
		c.Origin += "+mut:" + name
	default:
		payload = append(payload, cbor.Marshal(uint64(r.Intn(100)))...) // a non-bytes item: decode error
		c.Origin += "+nonbytes"
	}
	c.Data = hex.EncodeToString(payload)
	return c
}
