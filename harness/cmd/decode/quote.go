package main

import (
	"encoding/binary"
	"encoding/hex"
	"fmt"
	"os"
	"path/filepath"
	"strings"

	"github.com/oasisprotocol/oasis-core/go/common/sgx/pcs"

	"verifharness/internal/prng"
)

// quote error classes (mirrors coq/Decode/Quote.v)
var quoteErrPrefixes = []struct {
	p string
	c int
}{
	{"pcs/quote: invalid quote length", 30},
	{"pcs/quote: unsupported quote version", 31},
	{"pcs/quote: invalid quote header length", 32},
	{"pcs/quote: invalid quote version", 33},
	{"pcs/quote: data in reserved field", 34},
	{"pcs/quote: unsupported TEE type", 35},
	{"pcs/quote: unsupported QE vendor", 36},
	{"pcs/quote: invalid quote body length", 37},
	{"pcs/quote: unexpected trailing data", 38},
	{"pcs/quote: unsupported attestation key type", 39},
	{"pcs/quote: invalid report length", 40},
	{"pcs/quote: malformed TDX attributes in report body", 41},
	{"pcs/quote: invalid ECDSA-P256 quote signature length", 42},
	{"pcs/quote: invalid ECDSA-P256 quote signature certification data size", 43},
	{"pcs/quote: unexpected certification data", 44},
	{"pcs/quote: missing report body", 45},
	{"pcs/quote: missing report signature", 46},
	{"pcs/quote: missing authentication data size", 47},
	{"pcs/quote: invalid authentication data size", 48},
	{"pcs/quote: missing certification data type", 49},
	{"pcs/quote: missing certification data size", 50},
	{"pcs/quote: invalid certification data size", 51},
	{"pcs/quote: unsupported certification data type", 52},
	{"pcs/quote: invalid PPID certification data length", 53},
	{"pcs/quote: bad X509 certificate in PCK chain", 54},
}

func quoteErrCode(err error) int {
	s := err.Error()
	best, bl := 9999, 0
	for _, e := range quoteErrPrefixes {
		if strings.HasPrefix(s, e.p) && len(e.p) > bl {
			best, bl = e.c, len(e.p)
		}
	}
	return best
}

// runQuoteCase drives pcs.Quote.UnmarshalBinaryWithTrailing.
func runQuoteCase(c Case) (o outcome) {
	data := unhex(c.Data)
	var q pcs.Quote
	var n int
	var err error
	g := guarded(func() { n, err = q.UnmarshalBinaryWithTrailing(data, c.Trailing) })
	pemOK := !(err != nil && quoteErrCode(err) == 54)
	in := fmt.Sprintf("CQuote %v %v %s", pemOK, c.Trailing, cb(data))
	var out string
	switch {
	case g.panicked:
		out = "OQuote Panic"
		o.class = "panic"
	case err != nil:
		out = fmt.Sprintf("OQuote (Err %d)", quoteErrCode(err))
		o.class = fmt.Sprintf("err%d", quoteErrCode(err))
	default:
		o.ok = true
		o.class = "ok"
		h := q.Header()
		rep := "None"
		if rb := q.VerifReportBody(); rb != nil {
			mre, mrs := []byte{}, []byte{}
			if _, ok := rb.(*pcs.SgxReport); ok {
				id := rb.AsEnclaveIdentity()
				mre, mrs = id.MrEnclave[:], id.MrSigner[:]
			}
			rep = fmt.Sprintf("(Some (mkReport %s %s %s))", cb(mre), cb(mrs), cb(rb.ReportData()))
		}
		qeT := "(mkQe [] 0 0 0)"
		if sig, ok := q.Signature().(*pcs.QuoteSignatureECDSA_P256); ok {
			qe := sig.VerifQE()
			cdt := uint16(qe.CertificationData.CertificationDataType())
			var pcesvn, pceid uint16
			if p, ok := qe.CertificationData.(*pcs.CertificationData_PPID); ok {
				pcesvn, pceid = p.PCESVN, p.PCEID
			}
			qeT = fmt.Sprintf("(mkQe %s %d %d %d)", cb(qe.AuthenticationData), cdt, pcesvn, pceid)
		}
		out = fmt.Sprintf("OQuote (Ok (mkQuote %d %d %d %s %s, %d))", h.Version(), uint32(h.TeeType()), uint16(h.AttestationKeyType()), rep, qeT, n)
	}
	o.g = g
	o.term = "(" + in + ", " + out + ")"
	if v := g.violation(); v != "" {
		o.violation = "quote: " + v
	}
	return o
}

type quoteLayout struct {
	b      []byte
	fields []field
	cuts   []int
	origin string
}

// buildQuote assembles a well-formed quote (random measurements and keys; the
// signatures are not valid, which the binary parser does not look at).
func buildQuote(r *prng.R) quoteLayout {
	v4 := r.Chance(60)
	return buildQuoteOpt(r, v4, v4 && r.Chance(50), r.Intn(6))
}

func buildQuoteOpt(r *prng.R, v4, tdx bool, cdChoice int) quoteLayout {
	var l quoteLayout
	put16 := func(v uint16) { l.b = binary.LittleEndian.AppendUint16(l.b, v) }
	put32 := func(v uint32) { l.b = binary.LittleEndian.AppendUint32(l.b, v) }
	mark := func(w int, val uint64) {
		l.fields = append(l.fields, field{len(l.b), w, val})
		l.cuts = append(l.cuts, len(l.b), len(l.b)+w)
	}
	// header
	ver := uint16(3)
	if v4 {
		ver = 4
	}
	mark(2, uint64(ver))
	put16(ver)
	mark(2, 2)
	put16(2) // ECDSA-P256
	if v4 {
		tee := uint32(0)
		if tdx {
			tee = 0x81
		}
		mark(4, uint64(tee))
		put32(tee)
		mark(2, 0)
		put16(0)
		mark(2, 0)
		put16(0)
	} else {
		mark(4, 0)
		put32(0)
		put16(uint16(r.U64()))
		put16(uint16(r.U64()))
	}
	l.cuts = append(l.cuts, len(l.b))
	l.fields = append(l.fields, field{len(l.b) + 6, 2, 0xa94c})
	l.b = append(l.b, pcs.QEVendorID_Intel...)
	l.b = append(l.b, r.Bytes(20)...)
	l.cuts = append(l.cuts, len(l.b))
	// report body
	if tdx {
		rep := r.Bytes(584)
		var attrs uint64
		for _, bit := range []uint{0, 28, 30, 31, 63} {
			if r.Chance(40) {
				attrs |= 1 << bit
			}
		}
		binary.LittleEndian.PutUint64(rep[120:], attrs)
		l.fields = append(l.fields, field{len(l.b) + 120, 4, attrs & 0xffffffff}, field{len(l.b) + 124, 4, attrs >> 32})
		l.b = append(l.b, rep...)
		l.origin = "v4-tdx"
	} else {
		l.b = append(l.b, r.Bytes(384)...)
		l.origin = "v3-sgx"
		if v4 {
			l.origin = "v4-sgx"
		}
	}
	l.cuts = append(l.cuts, len(l.b))
	// signature
	var sig []byte
	var sfields []field
	var scuts []int
	sig = append(sig, r.Bytes(128)...)
	scuts = append(scuts, 64, 128)
	var qe []byte
	qe = append(qe, r.Bytes(384+64)...)
	auth := r.Bytes(r.Intn(40))
	authOff := len(qe)
	qe = binary.LittleEndian.AppendUint16(qe, uint16(len(auth)))
	qe = append(qe, auth...)
	cdtOff := len(qe)
	var cdt uint16
	var cd []byte
	switch cdChoice {
	case 0, 1:
		cdt, cd = uint16(1+r.Intn(3)), r.Bytes(404)
		l.origin += "-ppid"
	case 2:
		cdt, cd = 5, nil
		l.origin += "-emptychain"
	case 3:
		cdt, cd = 5, []byte("-----BEGIN CERTIFICATE-----\nAAAA\n-----END CERTIFICATE-----\n")
		l.origin += "-badpem"
	case 4:
		cdt, cd = 5, r.Bytes(r.Intn(60))
		l.origin += "-nonpem"
	default:
		cdt, cd = uint16([]int{0, 4, 6, 7, 9}[r.Intn(5)]), r.Bytes(r.Intn(30))
		l.origin += "-othercd"
	}
	qe = binary.LittleEndian.AppendUint16(qe, cdt)
	qe = binary.LittleEndian.AppendUint32(qe, uint32(len(cd)))
	qe = append(qe, cd...)
	base := 128
	if v4 {
		sfields = append(sfields, field{128, 2, 6}, field{130, 4, uint64(len(qe))})
		sig = binary.LittleEndian.AppendUint16(sig, 6)
		sig = binary.LittleEndian.AppendUint32(sig, uint32(len(qe)))
		base = 134
	}
	sfields = append(sfields, field{base + authOff, 2, uint64(len(auth))}, field{base + cdtOff, 2, uint64(cdt)}, field{base + cdtOff + 2, 4, uint64(len(cd))})
	scuts = append(scuts, base, base+384, base+448, base+authOff+2, base+cdtOff, base+cdtOff+2, base+cdtOff+6)
	sig = append(sig, qe...)
	mark(4, uint64(len(sig)))
	put32(uint32(len(sig)))
	so := len(l.b)
	for _, f := range sfields {
		l.fields = append(l.fields, field{so + f.off, f.width, f.val})
	}
	for _, c := range scuts {
		l.cuts = append(l.cuts, so+c)
	}
	l.b = append(l.b, sig...)
	l.cuts = append(l.cuts, len(l.b))
	return l
}

var quoteSeeds [][]byte

func loadQuoteSeeds() {
	if len(quoteSeeds) > 0 {
		return
	}
	repo := os.Getenv("VERIF_REPO")
	if repo == "" {
		repo = "/repo"
	}
	files, _ := filepath.Glob(filepath.Join(repo, "go/common/sgx/pcs/testdata/quote_*.bin"))
	for _, f := range files {
		if b, err := os.ReadFile(f); err == nil {
			quoteSeeds = append(quoteSeeds, b)
		}
	}
}

func genQuoteCase(r *prng.R) Case {
	c := Case{Kind: "quote", Trailing: r.Chance(25)}
	x := r.Intn(100)
	switch {
	case x < 6 && len(quoteSeeds) > 0: // real quotes from testdata (large: few)
		b := quoteSeeds[r.Intn(len(quoteSeeds))]
		c.Origin = "testdata"
		if r.Chance(50) {
			b, _ = mutate(r, b)
			c.Origin = "testdata-mut"
		}
		c.Data = hex.EncodeToString(b)
	case x < 30:
		l := buildQuote(r)
		c.Data, c.Origin = hex.EncodeToString(l.b), "valid:"+l.origin
	case x < 60:
		l := buildQuote(r)
		f := l.fields[r.Intn(len(l.fields))]
		m, name := setLE(r, l.b, f.off, f.width, f.val)
		c.Data, c.Origin = hex.EncodeToString(m), fmt.Sprintf("field@%d/%d:%s:%s", f.off, f.width, name, l.origin)
	case x < 80:
		l := buildQuote(r)
		cut := l.cuts[r.Intn(len(l.cuts))] + r.Intn(3) - 1
		if cut < 0 || cut > len(l.b) {
			cut = len(l.b) - 1
		}
		c.Data, c.Origin = hex.EncodeToString(l.b[:cut]), "trunc:"+l.origin
	case x < 95:
		l := buildQuote(r)
		m, name := mutate(r, l.b)
		c.Data, c.Origin = hex.EncodeToString(m), "mut:"+name+":"+l.origin
	default:
		n := []int{0, 1, 47, 48, 435, 436, 437, 1019, 1020}[r.Intn(9)]
		b := r.Bytes(n)
		if n >= 2 {
			b[0], b[1] = byte(3+r.Intn(2)), 0
		}
		c.Data, c.Origin = hex.EncodeToString(b), "random"
	}
	return c
}

// quoteBoundaries returns the structural offsets of a (well-formed) quote computed from its bytes:
// header end, report body end, signature length field, signature / key, the v4 certification tuple,
// QE report, QE signature, authentication data size and data, certification data type / size / end.
func quoteBoundaries(b []byte) []int {
	cuts := []int{0, 2, 4, 12, 28, 48}
	if len(b) < 48 {
		return cuts
	}
	ver := binary.LittleEndian.Uint16(b)
	off := 48 + 384
	if ver == 4 && binary.LittleEndian.Uint32(b[4:]) == 0x81 {
		off = 48 + 584
		cuts = append(cuts, 48+120, 48+128)
	}
	cuts = append(cuts, off, off+4)
	off += 4
	cuts = append(cuts, off+64, off+128)
	off += 128
	if ver == 4 {
		cuts = append(cuts, off+2, off+6)
		off += 6
	}
	cuts = append(cuts, off+384, off+448, off+450)
	off += 448
	if off+2 <= len(b) {
		auth := int(binary.LittleEndian.Uint16(b[off:]))
		off += 2 + auth
		cuts = append(cuts, off, off+2, off+6)
		if off+6 <= len(b) {
			cds := int(binary.LittleEndian.Uint32(b[off+2:]))
			cuts = append(cuts, off+6+cds)
		}
	}
	return append(cuts, len(b))
}

// quoteBoundaryCases: DETERMINISTIC truncations of synthetic quotes of every form and of the
// shipped test vectors: every prefix length within +-w bytes of every structural boundary.
func quoteBoundaryCases() []Case {
	var out []Case
	r := prng.New(0xb0d) // fixed: the set does not depend on the run's seed
	add := func(b []byte, cuts []int, w int, origin string) {
		// offset of the signature data (just past the 4-byte signature length field)
		sigStart := 48 + 384 + 4
		v4 := len(b) >= 2 && binary.LittleEndian.Uint16(b) == 4
		if v4 && len(b) >= 8 && binary.LittleEndian.Uint32(b[4:]) == 0x81 {
			sigStart = 48 + 584 + 4
		}
		seen := map[int]bool{}
		for _, c := range cuts {
			ww := w
			if c < 430 || (c > sigStart+8 && c < sigStart+576) {
				// below the minimum quote length / minimum signature length every prefix is refused
				// by the first check of that layer: the boundary itself is enough
				ww = 0
			}
			for d := -ww; d <= ww; d++ {
				n := c + d
				if n < 0 || n > len(b) || seen[n] {
					continue
				}
				seen[n] = true
				if n <= sigStart || d == 0 {
					out = append(out, Case{Kind: "quote", Data: hex.EncodeToString(b[:n]), Trailing: n%2 == 1, Origin: "boundary:" + origin})
				}
				if n > sigStart {
					// consistent truncation: the declared signature length (and the v4 certification
					// tuple size) are rewritten to what is left, so that the parsers behind the
					// length check see the truncated signature
					t := append([]byte{}, b[:n]...)
					binary.LittleEndian.PutUint32(t[sigStart-4:], uint32(n-sigStart))
					if v4 && n >= sigStart+134 {
						binary.LittleEndian.PutUint32(t[sigStart+130:], uint32(n-sigStart-134))
					}
					out = append(out, Case{Kind: "quote", Data: hex.EncodeToString(t), Origin: "boundary-consistent:" + origin})
				}
			}
		}
	}
	for _, v := range []struct {
		v4, tdx bool
		cd      int
	}{{false, false, 0}, {false, false, 2}, {true, false, 4}, {true, true, 0}, {true, true, 2}} {
		l := buildQuoteOpt(r, v.v4, v.tdx, v.cd)
		add(l.b, append(l.cuts, quoteBoundaries(l.b)...), 4, l.origin)
	}
	// the shipped vectors: the structural boundaries all lie in the first ~1.2 KiB
	loadQuoteSeeds()
	for i, b := range quoteSeeds {
		if i >= 3 {
			break
		}
		cuts := quoteBoundaries(b)
		var early []int
		for _, c := range cuts {
			if c <= 1400 {
				early = append(early, c)
			}
		}
		add(b, early, 2, fmt.Sprintf("testdata%d", i))
	}
	return out
}
