package main

import (
	"context"

	"github.com/oasisprotocol/oasis-core/go/common"
	"github.com/oasisprotocol/oasis-core/go/common/cbor"
	"github.com/oasisprotocol/oasis-core/go/common/crypto/hash"
	"github.com/oasisprotocol/oasis-core/go/runtime/transaction"
	"github.com/oasisprotocol/oasis-core/go/storage/mkvs"
	"github.com/oasisprotocol/oasis-core/go/storage/mkvs/node"
)

// searchTargetIOTree: the runtime IO tree (produced by the runtime, fetched
// and verified against the I/O root) read back through transaction.Tree.
// `b` is a KEY of the IO tree; the tree also holds one well-formed input
// transaction.  The readers decode every key they iterate over with
// keyformat.KeyFormat.Decode.
func searchTargetIOTree() searchTarget {
	ctx := context.Background()
	h := hash.NewFromBytes([]byte("tx"))
	inputVal := cbor.Marshal([]any{[]byte("tx"), uint32(0)}) // inputArtifacts (toarray)
	outputVal := cbor.Marshal([]any{[]byte("out")})          // outputArtifacts (toarray)
	keyIn := append(append([]byte{'T'}, h[:]...), 1)
	keyOut := append(append([]byte{'T'}, h[:]...), 2)
	keyTag := append(append([]byte{'E'}, []byte("tag")...), h[:]...)
	return searchTarget{
		name:  "runtime.IOTree",
		// the last four are the regression inputs of the fixed finding
		// C16:io-tree-short-key-keyformat-decode-panic (they must be skipped, not panic)
		seeds: [][]byte{keyIn, keyOut, keyTag, []byte("T"), []byte("E"), []byte("Tshort"), append([]byte("E"), make([]byte, 10)...)},
		fn: func(b []byte) error {
			src := mkvs.New(nil, nil, node.RootTypeIO)
			defer src.Close()
			_ = src.Insert(ctx, keyIn, inputVal)
			val := []byte("v")
			switch {
			case len(b) > 0 && b[0] == 'T' && len(b) == len(keyIn) && b[len(b)-1] == 2:
				val = outputVal
			case len(b) > 0 && b[0] == 'T':
				val = inputVal
			}
			if err := src.Insert(ctx, b, val); err != nil {
				return err
			}
			var ns common.Namespace
			_, rh, err := src.Commit(ctx, ns, 1)
			if err != nil {
				return err
			}
			t := transaction.NewTree(src, node.Root{Namespace: ns, Version: 1, Type: node.RootTypeIO, Hash: rh})
			defer t.Close()
			if _, err = t.GetInputBatch(ctx, 100, 1<<20); err != nil {
				return err
			}
			if _, err = t.GetTransactions(ctx); err != nil {
				return err
			}
			_, err = t.GetTags(ctx)
			return err
		},
	}
}
