package main

// Search-only stream: untrusted-bytes entry points of oasis-core.
//
// Every target feeds an arbitrary byte string to the real decoder (and to the
// cheap, state-free validation that production code runs right after it) and
// returns the error of that pipeline.  Seeds are real encodings produced with
// the real encoders/signers at start-up (or read from the package testdata).
//
// All helpers in this file are prefixed "srch".  Nothing in here recovers
// panics: the caller does that.  Besides panics of the code under test, a fn
// panics with a message starting "search-oracle:" when two real entry points
// that must agree on the same input do not (VerifyProof vs
// VerifyProofToWriteLog, strict vs lenient quote parsing), and with "search:"
// on a harness failure (e.g. the scratch NodeDB refusing a multipart bracket).
//
// Process-global state touched ONCE, in searchTargets():
//   - signature.SetChainContext (only if no chain context is set yet),
//   - one memory-only badger NodeDB kept open for the checkpoint.chunk target
//     (badger owns background goroutines for as long as the DB is open).
// Nothing global is mutated per call.

import (
	"bytes"
	"context"
	"encoding/base64"
	"encoding/binary"
	"encoding/json"
	"fmt"
	"os"
	"path/filepath"
	"sort"
	"strings"
	"sync"
	"time"

	"github.com/oasisprotocol/oasis-core/go/common"
	"github.com/oasisprotocol/oasis-core/go/common/cbor"
	"github.com/oasisprotocol/oasis-core/go/common/crypto/hash"
	"github.com/oasisprotocol/oasis-core/go/common/crypto/signature"
	memorySigner "github.com/oasisprotocol/oasis-core/go/common/crypto/signature/signers/memory"
	"github.com/oasisprotocol/oasis-core/go/common/entity"
	cmnNode "github.com/oasisprotocol/oasis-core/go/common/node"
	"github.com/oasisprotocol/oasis-core/go/common/quantity"
	"github.com/oasisprotocol/oasis-core/go/common/sgx/ias"
	"github.com/oasisprotocol/oasis-core/go/common/sgx/pcs"
	"github.com/oasisprotocol/oasis-core/go/common/version"
	"github.com/oasisprotocol/oasis-core/go/consensus/api/transaction"
	registry "github.com/oasisprotocol/oasis-core/go/registry/api"
	"github.com/oasisprotocol/oasis-core/go/roothash/api/commitment"
	"github.com/oasisprotocol/oasis-core/go/roothash/api/message"
	scheduler "github.com/oasisprotocol/oasis-core/go/scheduler/api"
	staking "github.com/oasisprotocol/oasis-core/go/staking/api"
	"github.com/oasisprotocol/oasis-core/go/storage/mkvs"
	"github.com/oasisprotocol/oasis-core/go/storage/mkvs/checkpoint"
	nodedbApi "github.com/oasisprotocol/oasis-core/go/storage/mkvs/db/api"
	nodedbBadger "github.com/oasisprotocol/oasis-core/go/storage/mkvs/db/badger"
	mkvsNode "github.com/oasisprotocol/oasis-core/go/storage/mkvs/node"
	"github.com/oasisprotocol/oasis-core/go/storage/mkvs/syncer"
	"github.com/oasisprotocol/oasis-core/go/storage/mkvs/writelog"
)

// searchTarget is one untrusted-bytes entry point of oasis-core exercised by the search-only stream.
type searchTarget struct {
	name  string               // short stable name, e.g. "cbor.SignedTransaction"
	seeds [][]byte             // at least one VALID encoding that the entry point accepts (err == nil), more is better
	fn    func(b []byte) error // feeds b to the real entry point(s); stateless/idempotent; returns the decode error (nil = accepted); does NOT recover panics
}

// srchChainContext is the chain domain separation context used when none is set yet.
const srchChainContext = "verif: decode search stream"

// searchTargets builds all targets (seeds included).  It panics if a seed cannot be built.
func searchTargets() []searchTarget {
	srchEnsureChainContext()

	var ts []searchTarget
	ts = append(ts, srchTxTargets()...)
	ts = append(ts, srchRoothashTargets()...)
	ts = append(ts, srchRegistryTargets()...)
	ts = append(ts, srchProofTarget())
	ts = append(ts, srchWriteLogTarget())
	ts = append(ts, srchCheckpointTarget())
	ts = append(ts, srchPCSTargets()...)
	ts = append(ts, srchIASTargets()...)
	return ts
}

// ---------------------------------------------------------------- generic helpers

func srchMust(err error, what string) {
	if err != nil {
		panic(fmt.Sprintf("search: %s: %v", what, err))
	}
}

// srchEnsureChainContext sets the chain context unless one is already set.
//
// signature.SetChainContext panics when a different context is already set; in that case the
// existing one is kept (all seeds are signed and verified under whatever context is active).
func srchEnsureChainContext() {
	defer func() { _ = recover() }()
	signature.SetChainContext(srchChainContext)
}

func srchSigner(name string) signature.Signer {
	return memorySigner.NewTestSigner("verif search: " + name)
}

func srchHash(s string) hash.Hash {
	return hash.NewFromBytes([]byte(s))
}

func srchHashPtr(s string) *hash.Hash {
	h := srchHash(s)
	return &h
}

func srchRepoPath(elem ...string) string {
	root := os.Getenv("VERIF_REPO")
	if root == "" {
		root = "/repo"
	}
	return filepath.Join(append([]string{root}, elem...)...)
}

func srchReadFile(path string) []byte {
	b, err := os.ReadFile(path)
	srchMust(err, "read "+path)
	return b
}

// srchGlob returns the sorted matches of pattern (at least one, or panic).
func srchGlob(pattern string) []string {
	m, err := filepath.Glob(pattern)
	srchMust(err, "glob "+pattern)
	if len(m) == 0 {
		panic("search: no files match " + pattern)
	}
	sort.Strings(m)
	return m
}

// ---------------------------------------------------------------- 1, 2: consensus transactions

func srchTxTargets() []searchTarget {
	alice := srchSigner("alice")
	bob := srchSigner("bob")

	var txs []*transaction.Transaction

	// Staking transfer.
	xfer := &staking.Transfer{To: staking.NewAddress(bob.Public())}
	srchMust(xfer.Amount.FromUint64(1000), "transfer amount")
	fee := &transaction.Fee{Gas: 10000}
	srchMust(fee.Amount.FromUint64(10), "fee amount")
	txs = append(txs, staking.NewTransferTx(7, fee, xfer))

	// Staking burn without a fee.
	burn := &staking.Burn{}
	srchMust(burn.Amount.FromUint64(5), "burn amount")
	txs = append(txs, staking.NewBurnTx(0, nil, burn))

	// Add escrow.
	esc := &staking.Escrow{Account: staking.NewAddress(alice.Public())}
	srchMust(esc.Amount.FromUint64(123456789), "escrow amount")
	txs = append(txs, staking.NewAddEscrowTx(1<<40, fee, esc))

	// Registry: register entity (the body is itself a signed blob).
	ent := &entity.Entity{Versioned: cbor.NewVersioned(entity.LatestDescriptorVersion), ID: alice.Public(), Nodes: []signature.PublicKey{bob.Public()}}
	sigEnt, err := entity.SignEntity(alice, registry.RegisterEntitySignatureContext, ent)
	srchMust(err, "sign entity")
	txs = append(txs, registry.NewRegisterEntityTx(3, fee, sigEnt))

	var signedSeeds, plainSeeds [][]byte
	for i, tx := range txs {
		srchMust(tx.SanityCheck(), fmt.Sprintf("tx %d sanity", i))
		plainSeeds = append(plainSeeds, cbor.Marshal(tx))
		sigTx, err := transaction.Sign(alice, tx)
		srchMust(err, fmt.Sprintf("sign tx %d", i))
		signedSeeds = append(signedSeeds, cbor.Marshal(sigTx))
	}

	return []searchTarget{
		{
			name:  "cbor.SignedTransaction",
			seeds: signedSeeds,
			// Same steps as abciMux.decodeTx (minus the size limit, which needs state).
			fn: func(b []byte) error {
				var sigTx transaction.SignedTransaction
				if err := cbor.Unmarshal(b, &sigTx); err != nil {
					return err
				}
				var tx transaction.Transaction
				if err := sigTx.Open(&tx); err != nil {
					return err
				}
				return tx.SanityCheck()
			},
		},
		{
			name:  "cbor.Transaction",
			seeds: plainSeeds,
			fn: func(b []byte) error {
				var tx transaction.Transaction
				if err := cbor.Unmarshal(b, &tx); err != nil {
					return err
				}
				return tx.SanityCheck()
			},
		},
	}
}

// ---------------------------------------------------------------- 3, 4: roothash commitments and proposals

func srchRoothashTargets() []searchTarget {
	node1 := srchSigner("compute node 1")
	sched := srchSigner("scheduler node")
	rak := srchSigner("rak")
	runtimeID := common.NewTestNamespaceFromSeed([]byte("verif search runtime"), 0)

	// --- executor commitments
	xfer := &staking.Transfer{To: staking.NewAddress(sched.Public())}
	srchMust(xfer.Amount.FromUint64(42), "msg amount")
	msgs := []message.Message{
		{Staking: &message.StakingMessage{Transfer: xfer}},
		{Registry: &message.RegistryMessage{UpdateRuntime: srchRuntime()}},
	}
	msgsHash := message.MessagesHash(msgs)

	okEC := commitment.ExecutorCommitment{
		NodeID: node1.Public(),
		Header: commitment.ExecutorCommitmentHeader{
			SchedulerID: sched.Public(),
			Header: commitment.ComputeResultsHeader{
				Round:           11,
				PreviousHash:    srchHash("previous block"),
				IORoot:          srchHashPtr("io root"),
				StateRoot:       srchHashPtr("state root"),
				MessagesHash:    &msgsHash,
				InMessagesHash:  srchHashPtr("in msgs"),
				InMessagesCount: 3,
			},
		},
		Messages: msgs,
	}
	rakSig, err := signature.SignRaw(rak, commitment.ComputeResultsHeaderSignatureContext, cbor.Marshal(okEC.Header.Header))
	srchMust(err, "RAK sign")
	okEC.Header.RAKSignature = rakSig
	srchMust(okEC.Sign(node1, runtimeID), "sign executor commitment")

	// Same without messages and without RAK signature (equivocation-evidence shape).
	bareEC := okEC
	bareEC.Messages = nil
	bareEC.Header.RAKSignature = nil
	emptyHash := message.MessagesHash(nil)
	bareEC.Header.Header.MessagesHash = &emptyHash
	srchMust(bareEC.Sign(node1, runtimeID), "sign bare executor commitment")

	// Failure-indicating commitment.
	failEC := commitment.ExecutorCommitment{
		NodeID: node1.Public(),
		Header: commitment.ExecutorCommitmentHeader{
			SchedulerID: sched.Public(),
			Header: commitment.ComputeResultsHeader{
				Round:        11,
				PreviousHash: srchHash("previous block"),
			},
		},
	}
	failEC.Header.SetFailure(commitment.FailureStateUnavailable)
	srchMust(failEC.Sign(node1, runtimeID), "sign failure commitment")

	var ecSeeds [][]byte
	for i, ec := range []*commitment.ExecutorCommitment{&okEC, &bareEC, &failEC} {
		srchMust(ec.ValidateBasic(), fmt.Sprintf("executor commitment %d ValidateBasic", i))
		srchMust(ec.Verify(runtimeID), fmt.Sprintf("executor commitment %d Verify", i))
		ecSeeds = append(ecSeeds, cbor.Marshal(ec))
	}

	// --- proposals
	fullProp := commitment.Proposal{
		NodeID: sched.Public(),
		Header: commitment.ProposalHeader{
			Round:        11,
			PreviousHash: srchHash("previous block"),
			BatchHash:    srchHash("batch"),
		},
		Batch: []hash.Hash{srchHash("tx1"), srchHash("tx2"), srchHash("tx3")},
	}
	srchMust(fullProp.Sign(sched, runtimeID), "sign proposal")

	// Proposal carrying a batch signature (Proposal.Sign does not produce one yet).
	batchProp := fullProp
	batchCtx, err := commitment.ProposalBatchSignatureContext.WithSuffix(runtimeID.String())
	srchMust(err, "batch signature context")
	batchSig, err := signature.SignRaw(sched, batchCtx, cbor.Marshal(batchProp.Batch))
	srchMust(err, "sign batch")
	batchProp.BatchSignature = batchSig

	// Header-only proposal (equivocation-evidence shape).
	bareProp := fullProp
	bareProp.Batch = nil

	var propSeeds [][]byte
	for i, p := range []*commitment.Proposal{&fullProp, &batchProp, &bareProp} {
		srchMust(p.Verify(runtimeID), fmt.Sprintf("proposal %d Verify", i))
		propSeeds = append(propSeeds, cbor.Marshal(p))
	}

	return []searchTarget{
		{
			name:  "cbor.ExecutorCommitment",
			seeds: ecSeeds,
			// Decode, then the state-free checks the roothash app / commitment pool run on a
			// received commitment: ValidateBasic, header signature (the runtime ID is known
			// to the verifier), RAK signature if present, and the derived hashes.
			fn: func(b []byte) error {
				var ec commitment.ExecutorCommitment
				if err := cbor.Unmarshal(b, &ec); err != nil {
					return err
				}
				if err := ec.ValidateBasic(); err != nil {
					return err
				}
				if err := ec.Verify(runtimeID); err != nil {
					return err
				}
				if ec.Header.RAKSignature != nil {
					if err := ec.Header.VerifyRAK(rak.Public()); err != nil {
						return err
					}
				}
				_ = ec.ToVote()
				_ = ec.ToDDResult()
				_ = ec.IsIndicatingFailure()
				_ = message.MessagesHash(ec.Messages)
				return nil
			},
		},
		{
			name:  "cbor.Proposal",
			seeds: propSeeds,
			fn: func(b []byte) error {
				var p commitment.Proposal
				if err := cbor.Unmarshal(b, &p); err != nil {
					return err
				}
				if err := p.Verify(runtimeID); err != nil {
					return err
				}
				_ = p.Header.Equal(&fullProp.Header)
				return nil
			},
		},
	}
}

// ---------------------------------------------------------------- 5, 6, 7: registry descriptors

// srchRuntime returns a valid compute runtime descriptor (after registry/api TestVerifyRuntime).
func srchRuntime() *registry.Runtime {
	var keymanagerID common.Namespace
	srchMust(keymanagerID.UnmarshalHex("c000000000000000000000000000000000000000000000000000000000000001"), "keymanager id")
	owner := srchSigner("runtime owner").Public()

	minFee := quantity.NewQuantity()
	srchMust(minFee.FromUint64(1), "min in-message fee")
	threshold := quantity.NewQuantity()
	srchMust(threshold.FromUint64(1000), "threshold")

	return &registry.Runtime{
		Versioned: cbor.NewVersioned(registry.LatestRuntimeDescriptorVersion),
		ID:        common.NewTestNamespaceFromSeed([]byte("verif search runtime"), 0),
		EntityID:  owner,
		Genesis: registry.RuntimeGenesis{
			Round:     43,
			StateRoot: srchHash("stateroot hash"),
		},
		Kind:        registry.KindCompute,
		TEEHardware: cmnNode.TEEHardwareInvalid,
		Deployments: []*registry.VersionInfo{
			{
				Version: version.Version{Major: 44, Minor: 0, Patch: 1},
			},
			{
				Version:        version.Version{Major: 44, Minor: 1, Patch: 0},
				ValidFrom:      100,
				BundleChecksum: bytes.Repeat([]byte{0x01}, 32),
			},
		},
		KeyManager: &keymanagerID,
		Executor: registry.ExecutorParameters{
			GroupSize:                  9,
			GroupBackupSize:            8,
			AllowedStragglers:          7,
			RoundTimeout:               6,
			MaxMessages:                5,
			MinLiveRoundsPercent:       4,
			MaxMissedProposalsPercent:  3,
			MinLiveRoundsForEvaluation: 2,
			MaxLivenessFailures:        1,
		},
		TxnScheduler: registry.TxnSchedulerParameters{
			BatchFlushTimeout: time.Second,
			MaxBatchSize:      10_000,
			MaxBatchSizeBytes: 10_000_000,
			MaxInMessages:     32,
			ProposerTimeout:   2 * time.Second,
		},
		Storage: registry.StorageParameters{
			CheckpointInterval:  33,
			CheckpointNumKept:   6,
			CheckpointChunkSize: 1_000_000_000,
		},
		AdmissionPolicy: registry.RuntimeAdmissionPolicy{
			EntityWhitelist: &registry.EntityWhitelistRuntimeAdmissionPolicy{
				Entities: map[signature.PublicKey]registry.EntityWhitelistConfig{
					owner: {
						MaxNodes: map[cmnNode.RolesMask]uint16{
							cmnNode.RoleComputeWorker: 3,
							cmnNode.RoleObserver:      1,
						},
					},
				},
			},
		},
		Constraints: map[scheduler.CommitteeKind]map[scheduler.Role]registry.SchedulingConstraints{
			scheduler.KindComputeExecutor: {
				scheduler.RoleWorker: {
					MaxNodes:     &registry.MaxNodesConstraint{Limit: 10},
					MinPoolSize:  &registry.MinPoolSizeConstraint{Limit: 5},
					ValidatorSet: &registry.ValidatorSetConstraint{},
				},
			},
		},
		GovernanceModel: registry.GovernanceEntity,
		Staking: registry.RuntimeStakingParameters{
			Thresholds: map[staking.ThresholdKind]quantity.Quantity{
				staking.KindNodeCompute: *threshold,
			},
			RewardSlashBadResultsRuntimePercent: 10,
			MinInMessageFee:                     *minFee,
		},
	}
}

func srchRegistryTargets() []searchTarget {
	entSigner := srchSigner("entity")
	nodeSigner := srchSigner("node identity")
	p2pSigner := srchSigner("node p2p")
	tlsSigner := srchSigner("node tls")
	consSigner := srchSigner("node consensus")
	vrfSigner := srchSigner("node vrf")

	// --- node descriptors
	var addr4, addr6 cmnNode.Address
	srchMust(addr4.UnmarshalText([]byte("192.0.2.17:9200")), "addr4")
	srchMust(addr6.UnmarshalText([]byte("[2001:db8::1]:26656")), "addr6")

	rt := srchRuntime()
	nd := &cmnNode.Node{
		Versioned:  cbor.NewVersioned(cmnNode.LatestNodeDescriptorVersion),
		ID:         nodeSigner.Public(),
		EntityID:   entSigner.Public(),
		Expiration: 1234,
		TLS:        cmnNode.TLSInfo{PubKey: tlsSigner.Public()},
		P2P:        cmnNode.P2PInfo{ID: p2pSigner.Public(), Addresses: []cmnNode.Address{addr4, addr6}},
		Consensus: cmnNode.ConsensusInfo{
			ID:        consSigner.Public(),
			Addresses: []cmnNode.ConsensusAddress{{ID: p2pSigner.Public(), Address: addr6}},
		},
		VRF: cmnNode.VRFInfo{ID: vrfSigner.Public()},
		Runtimes: []*cmnNode.Runtime{
			{
				ID:        rt.ID,
				Version:   version.Version{Major: 44, Minor: 0, Patch: 1},
				ExtraInfo: []byte("extra"),
			},
		},
		Roles:           cmnNode.RoleComputeWorker | cmnNode.RoleValidator,
		SoftwareVersion: cmnNode.SoftwareVersion(version.SoftwareVersion),
	}
	srchMust(nd.ValidateBasic(false), "node ValidateBasic")
	nodeSigners := []signature.Signer{nodeSigner, p2pSigner, tlsSigner, consSigner, vrfSigner}
	msn, err := cmnNode.MultiSignNode(nodeSigners, registry.RegisterNodeSignatureContext, nd)
	srchMust(err, "multi-sign node")

	// Minimal validator-only descriptor signed by the identity key alone.
	ndMin := &cmnNode.Node{
		Versioned:  cbor.NewVersioned(cmnNode.LatestNodeDescriptorVersion),
		ID:         nodeSigner.Public(),
		EntityID:   entSigner.Public(),
		Expiration: 1,
		TLS:        cmnNode.TLSInfo{PubKey: tlsSigner.Public()},
		P2P:        cmnNode.P2PInfo{ID: p2pSigner.Public()},
		Consensus:  cmnNode.ConsensusInfo{ID: consSigner.Public()},
		VRF:        cmnNode.VRFInfo{ID: vrfSigner.Public()},
		Roles:      cmnNode.RoleValidator,
	}
	msnMin, err := cmnNode.MultiSignNode(nodeSigners[:1], registry.RegisterNodeSignatureContext, ndMin)
	srchMust(err, "multi-sign minimal node")

	// --- entity descriptors
	ent := &entity.Entity{
		Versioned: cbor.NewVersioned(entity.LatestDescriptorVersion),
		ID:        entSigner.Public(),
		Nodes:     []signature.PublicKey{nodeSigner.Public(), p2pSigner.Public()},
	}
	sigEnt, err := entity.SignEntity(entSigner, registry.RegisterEntitySignatureContext, ent)
	srchMust(err, "sign entity")
	entNoNodes := &entity.Entity{Versioned: cbor.NewVersioned(entity.LatestDescriptorVersion), ID: entSigner.Public()}
	sigEntNoNodes, err := entity.SignEntity(entSigner, registry.RegisterEntitySignatureContext, entNoNodes)
	srchMust(err, "sign entity (no nodes)")

	// --- runtime descriptors
	srchMust(rt.ValidateBasic(true), "runtime ValidateBasic")
	rtAny := srchRuntime()
	rtAny.AdmissionPolicy = registry.RuntimeAdmissionPolicy{AnyNode: &registry.AnyNodeRuntimeAdmissionPolicy{}}
	rtAny.Constraints = nil
	rtAny.KeyManager = nil
	rtAny.Staking = registry.RuntimeStakingParameters{}
	rtAny.GovernanceModel = registry.GovernanceConsensus
	srchMust(rtAny.ValidateBasic(true), "runtime (any node) ValidateBasic")

	return []searchTarget{
		{
			name:  "cbor.MultiSignedNode",
			seeds: [][]byte{cbor.Marshal(msn), cbor.Marshal(msnMin)},
			// As registry.VerifyRegisterNodeArgs does before touching state.
			fn: func(b []byte) error {
				var sn cmnNode.MultiSignedNode
				if err := cbor.Unmarshal(b, &sn); err != nil {
					return err
				}
				var n cmnNode.Node
				if err := sn.Open(registry.RegisterNodeSignatureContext, &n); err != nil {
					return err
				}
				return n.ValidateBasic(false)
			},
		},
		{
			name:  "cbor.SignedEntity",
			seeds: [][]byte{cbor.Marshal(sigEnt), cbor.Marshal(sigEntNoNodes)},
			// As registry.VerifyRegisterEntityArgs does before touching state.
			fn: func(b []byte) error {
				var se entity.SignedEntity
				if err := cbor.Unmarshal(b, &se); err != nil {
					return err
				}
				var e entity.Entity
				if err := se.Open(registry.RegisterEntitySignatureContext, &e); err != nil {
					return err
				}
				return e.ValidateBasic(false)
			},
		},
		{
			name:  "cbor.Runtime",
			seeds: [][]byte{cbor.Marshal(rt), cbor.Marshal(rtAny)},
			fn: func(b []byte) error {
				var r registry.Runtime
				if err := cbor.Unmarshal(b, &r); err != nil {
					return err
				}
				return r.ValidateBasic(false)
			},
		},
	}
}

// ---------------------------------------------------------------- 8: MKVS proofs

// srchBuildTree fills a fresh MKVS tree over ndb (may be nil) with n deterministic keys and commits it.
func srchBuildTree(ctx context.Context, ndb nodedbApi.NodeDB, ns common.Namespace, n int) (mkvs.Tree, mkvsNode.Root) {
	tree := mkvs.New(nil, ndb, mkvsNode.RootTypeState)
	for i := 0; i < n; i++ {
		var k, v []byte
		switch i % 4 {
		case 0:
			k = []byte(fmt.Sprintf("key %d", i))
		case 1:
			k = []byte(fmt.Sprintf("key %d/with/a/longer/suffix", i))
		case 2:
			k = append([]byte("pfx/"), byte(i), byte(i*7))
		default:
			h := srchHash(fmt.Sprintf("hashed key %d", i))
			k = h[:]
		}
		if i%5 == 0 {
			v = bytes.Repeat([]byte{byte(i)}, 100+i)
		} else {
			v = []byte(fmt.Sprintf("value %d", i))
		}
		srchMust(tree.Insert(ctx, k, v), "mkvs insert")
	}
	_, rootHash, err := tree.Commit(ctx, ns, 1)
	srchMust(err, "mkvs commit")
	return tree, mkvsNode.Root{Namespace: ns, Version: 1, Type: mkvsNode.RootTypeState, Hash: rootHash}
}

func srchProofTarget() searchTarget {
	ctx := context.Background()
	ns := common.NewTestNamespaceFromSeed([]byte("verif search mkvs"), 0)
	tree, root := srchBuildTree(ctx, nil, ns, 24)
	defer tree.Close()

	rs, ok := tree.(syncer.ReadSyncer)
	if !ok {
		panic("search: mkvs tree is not a ReadSyncer")
	}
	tid := syncer.TreeID{Root: root, Position: root.Hash}

	var seeds [][]byte
	add := func(what string, rsp *syncer.ProofResponse, err error) {
		srchMust(err, what)
		seeds = append(seeds, cbor.Marshal(&rsp.Proof))
	}
	for _, pv := range []uint16{0, 1} {
		// Existing key, absent key, with and without siblings.
		for _, key := range [][]byte{[]byte("key 0"), []byte("key 4"), []byte("pfx/"), []byte("no such key")} {
			for _, sib := range []bool{false, true} {
				rsp, err := rs.SyncGet(ctx, &syncer.GetRequest{Tree: tid, Key: key, IncludeSiblings: sib, ProofVersion: pv})
				add(fmt.Sprintf("SyncGet(%q, sib=%v, v%d)", key, sib, pv), rsp, err)
			}
		}
		// Iteration from the start and from the middle.
		for _, it := range []struct {
			key      []byte
			prefetch uint16
		}{{nil, 3}, {[]byte("key 2"), 10}, {nil, 100}} {
			rsp, err := rs.SyncIterate(ctx, &syncer.IterateRequest{Tree: tid, Key: it.key, Prefetch: it.prefetch, ProofVersion: pv})
			add(fmt.Sprintf("SyncIterate(%q, %d, v%d)", it.key, it.prefetch, pv), rsp, err)
		}
		// Prefixes.
		rsp, err := rs.SyncGetPrefixes(ctx, &syncer.GetPrefixesRequest{Tree: tid, Prefixes: [][]byte{[]byte("pfx/"), []byte("key 1")}, Limit: 10, ProofVersion: pv})
		add(fmt.Sprintf("SyncGetPrefixes(v%d)", pv), rsp, err)
	}

	return searchTarget{
		name:  "cbor.Proof+VerifyProof",
		seeds: seeds,
		// The verifier is run against the root the proof itself claims (UntrustedRoot), i.e.
		// the attacker also chooses the root; this only removes the trivial early exit.
		fn: func(b []byte) error {
			var proof syncer.Proof
			if err := cbor.Unmarshal(b, &proof); err != nil {
				return err
			}
			var pv syncer.ProofVerifier
			_, err := pv.VerifyProof(ctx, proof.UntrustedRoot, &proof)
			_, errWl := pv.VerifyProofToWriteLog(ctx, proof.UntrustedRoot, &proof)
			if (err == nil) != (errWl == nil) {
				panic(fmt.Sprintf("search-oracle: VerifyProof and VerifyProofToWriteLog disagree: %v vs %v", err, errWl))
			}
			return err
		},
	}
}

// ---------------------------------------------------------------- 9: write logs

func srchWriteLogTarget() searchTarget {
	wl := writelog.WriteLog{
		{Key: []byte("key 1"), Value: []byte("value 1")},
		{Key: []byte("key 2"), Value: bytes.Repeat([]byte{0xAB}, 300)},
		{Key: []byte("deleted key"), Value: nil},
		{Key: []byte{}, Value: []byte{}},
		{Key: bytes.Repeat([]byte{0xFF}, 64), Value: []byte("v")},
	}
	return searchTarget{
		name:  "cbor.WriteLog",
		seeds: [][]byte{cbor.Marshal(wl), cbor.Marshal(writelog.WriteLog{}), cbor.Marshal(wl[:1])},
		fn: func(b []byte) error {
			var w writelog.WriteLog
			if err := cbor.Unmarshal(b, &w); err != nil {
				return err
			}
			for i := range w {
				_ = w[i].Type()
			}
			return nil
		},
	}
}

// ---------------------------------------------------------------- 10: checkpoint chunks

// srchCheckpointTarget restores untrusted chunk bytes through the exported Restorer API
// (checkpoint.NewRestorer / StartRestore / RestoreChunk, which calls the package-private
// restoreChunk: snappy stream -> CBOR stream of proof entries -> digest check -> proof
// verification against the checkpoint root -> node import).  No hook file is needed.
//
// The chunk digest listed in the checkpoint metadata is supplied by the same untrusted peer
// as the chunk, so fn sets it to the digest of b; otherwise every mutant would stop at the
// digest comparison.  The root is the (trusted) root of the source tree.
//
// One memory-only badger NodeDB is opened at start-up and reused: every call brackets the
// restore with StartMultipartInsert / AbortMultipartInsert, which removes whatever the call
// imported, so calls are independent.  The DB is never closed (process lifetime).
func srchCheckpointTarget() searchTarget {
	ctx := context.Background()
	ns := common.NewTestNamespaceFromSeed([]byte("verif search checkpoint"), 0)

	dir, err := os.MkdirTemp("", "verif-search-checkpoint")
	srchMust(err, "MkdirTemp")
	defer os.RemoveAll(dir)

	// Source database + tree.
	srcDB, err := nodedbBadger.New(&nodedbApi.Config{
		DB:           filepath.Join(dir, "src"),
		Namespace:    ns,
		MaxCacheSize: 16 * 1024 * 1024,
		NoFsync:      true,
		MemoryOnly:   true,
	})
	srchMust(err, "open source NodeDB")
	defer srcDB.Close()
	tree, root := srchBuildTree(ctx, srcDB, ns, 60)
	tree.Close()
	srchMust(srcDB.Finalize([]mkvsNode.Root{root}), "finalize source root")

	// Real chunks: one checkpoint with a single chunk, one split into several chunks.
	var seeds [][]byte
	for i, chunkSize := range []uint64{1 << 20, 1024} {
		fc, err := checkpoint.NewFileCreator(filepath.Join(dir, fmt.Sprintf("checkpoints%d", i)), srcDB)
		srchMust(err, "NewFileCreator")
		cp, err := fc.CreateCheckpoint(ctx, root, chunkSize, 0)
		srchMust(err, "CreateCheckpoint")
		for idx := range cp.Chunks {
			cm, err := cp.GetChunkMetadata(uint64(idx))
			srchMust(err, "GetChunkMetadata")
			var buf bytes.Buffer
			srchMust(fc.GetCheckpointChunk(ctx, cm, &buf), "GetCheckpointChunk")
			seeds = append(seeds, append([]byte(nil), buf.Bytes()...))
		}
	}

	// Destination database (kept for the process lifetime; memory only, nothing on disk).
	dstDB, err := nodedbBadger.New(&nodedbApi.Config{
		DB:           filepath.Join(dir, "dst"),
		Namespace:    ns,
		MaxCacheSize: 16 * 1024 * 1024,
		NoFsync:      true,
		MemoryOnly:   true,
	})
	srchMust(err, "open destination NodeDB")

	var mu sync.Mutex // The multipart bracket is per database.
	return searchTarget{
		name:  "checkpoint.chunk",
		seeds: seeds,
		fn: func(b []byte) error {
			mu.Lock()
			defer mu.Unlock()

			if err := dstDB.StartMultipartInsert(root.Version); err != nil {
				panic(fmt.Sprintf("search: StartMultipartInsert: %v", err))
			}
			defer func() {
				if err := dstDB.AbortMultipartInsert(); err != nil {
					panic(fmt.Sprintf("search: AbortMultipartInsert: %v", err))
				}
			}()

			rs, err := checkpoint.NewRestorer(dstDB)
			if err != nil {
				panic(fmt.Sprintf("search: NewRestorer: %v", err))
			}
			meta := &checkpoint.Metadata{
				Version: 1,
				Root:    root,
				Chunks:  []hash.Hash{hash.NewFromBytes(b)},
			}
			if err := rs.StartRestore(ctx, meta); err != nil {
				panic(fmt.Sprintf("search: StartRestore: %v", err))
			}
			_, err = rs.RestoreChunk(ctx, 0, bytes.NewReader(b))
			_ = rs.AbortRestore(ctx)
			return err
		},
	}
}

// ---------------------------------------------------------------- 11, 12: PCS quotes and collateral

// srchPCSContext is one consistent (quote, collateral, verification time, policy) tuple of the
// pcs package testdata, plus the values Quote.Verify extracts from the quote and hands to
// TCBBundle.Verify (so that the bundle can be verified without re-verifying the quote).
type srchPCSContext struct {
	name     string
	rawQuote []byte
	tcbInfo  []byte // JSON of SignedTCBInfo
	qeID     []byte // JSON of SignedQEIdentity
	certs    []byte // TCB info issuer chain (PEM)
	ts       time.Time
	policy   *pcs.QuotePolicy

	teeType    pcs.TeeType
	pck        *pcs.PCKInfo
	tdxCompSvn *[16]byte
	qeReport   *pcs.SgxReport
}

const (
	srchQuoteHeaderLen    = 48
	srchReportBodySgxLen  = 384
	srchReportBodyTdLen   = 584
	srchQuoteSigPrefixLen = 64 + 64 // quote signature || attestation public key
)

func (c *srchPCSContext) bundle() pcs.TCBBundle {
	var b pcs.TCBBundle
	srchMust(json.Unmarshal(c.tcbInfo, &b.TCBInfo), c.name+": parse TCB info")
	srchMust(json.Unmarshal(c.qeID, &b.QEIdentity), c.name+": parse QE identity")
	b.Certificates = c.certs
	return b
}

// init derives the quote-dependent inputs of TCBBundle.Verify from the raw quote.
func (c *srchPCSContext) init() {
	var q pcs.Quote
	srchMust(q.UnmarshalBinary(c.rawQuote), c.name+": parse quote")
	c.teeType = q.Header().TeeType()

	sig, ok := q.Signature().(*pcs.QuoteSignatureECDSA_P256)
	if !ok {
		panic("search: " + c.name + ": unexpected quote signature type")
	}
	pck, err := sig.VerifyPCK(c.ts)
	srchMust(err, c.name+": VerifyPCK")
	c.pck = pck

	// Locate the QE report inside the signature data (the parsed one is not exported).
	off := srchQuoteHeaderLen
	switch c.teeType {
	case pcs.TeeTypeSGX:
		off += srchReportBodySgxLen
	case pcs.TeeTypeTDX:
		var svn [16]byte
		copy(svn[:], c.rawQuote[off:off+16]) // TdReport.teeTcbSvn
		c.tdxCompSvn = &svn
		off += srchReportBodyTdLen
	default:
		panic("search: " + c.name + ": unexpected TEE type")
	}
	off += 4 // signature data length
	off += srchQuoteSigPrefixLen
	if binary.LittleEndian.Uint16(c.rawQuote[0:]) == 4 {
		off += 6 // v4: certification data type + size envelope
	}
	var qe pcs.SgxReport
	srchMust(qe.UnmarshalBinary(c.rawQuote[off:off+srchReportBodySgxLen]), c.name+": parse QE report")
	c.qeReport = &qe
}

// verifyBundle is what Quote.Verify does with the collateral once the quote itself checked out.
func (c *srchPCSContext) verifyBundle(b *pcs.TCBBundle) error {
	return b.Verify(c.teeType, c.ts, c.policy, c.pck.FMSPC, c.pck.TCBCompSVN, c.tdxCompSvn, c.pck.PCESVN, c.qeReport)
}

func srchPCSTargets() []searchTarget {
	td := srchRepoPath("go", "common", "sgx", "pcs", "testdata")
	rd := func(name string) []byte { return srchReadFile(filepath.Join(td, name)) }
	certs := rd("tcb_info_v3_fmspc_00606A000000_certs.pem")

	// The default policy Quote.Verify uses for policy == nil (needed explicitly for TCBBundle.Verify).
	sgxPolicy := &pcs.QuotePolicy{
		TCBValidityPeriod:          30,
		MinTCBEvaluationDataNumber: pcs.DefaultMinTCBEvaluationDataNumber,
		FMSPCWhitelist:             make([]string, 0),
		FMSPCBlacklist:             make([]string, 0),
	}
	tdxPolicy := &pcs.QuotePolicy{
		TCBValidityPeriod:          30,
		MinTCBEvaluationDataNumber: 12,
		TDX:                        &pcs.TdxQuotePolicy{},
	}

	// Exactly the tuples of quote_test.go.
	sgx := &srchPCSContext{
		name:     "sgx",
		rawQuote: rd("quote_v3_ecdsa_p256_pck_chain.bin"),
		tcbInfo:  rd("tcb_info_v3_fmspc_00606A000000.json"),
		qeID:     rd("qe_identity_v2.json"),
		certs:    certs,
		ts:       time.Unix(1671497404, 0),
		policy:   sgxPolicy,
	}
	tdx := &srchPCSContext{
		name:     "tdx",
		rawQuote: rd("quote_v4_tdx_ecdsa_p256.bin"),
		tcbInfo:  rd("tcb_info_v3_tdx_fmspc_C0806F000000.json"),
		qeID:     rd("qe_identity_v2_tdx2.json"),
		certs:    certs,
		ts:       time.Unix(1725263032, 0),
		policy:   tdxPolicy,
	}
	// Out-of-date platform: everything verifies up to the very last step (TCB level match),
	// which fails with "TCB level not supported".
	tdxOld := &srchPCSContext{
		name:     "tdx out-of-date",
		rawQuote: rd("quote_v4_tdx_ecdsa_p256_out_of_date.bin"),
		tcbInfo:  rd("tcb_info_v3_tdx_fmspc_50806F000000.json"),
		qeID:     rd("qe_identity_v2_tdx.json"),
		certs:    certs,
		ts:       time.Unix(1687091776, 0),
		policy:   tdxPolicy,
	}
	ctxs := []*srchPCSContext{sgx, tdx, tdxOld}
	for _, c := range ctxs {
		c.init()
	}

	// --- pcs.Quote
	var quoteSeeds [][]byte
	for _, f := range srchGlob(filepath.Join(td, "quote_*.bin")) {
		quoteSeeds = append(quoteSeeds, srchReadFile(f))
	}

	// --- pcs.QuoteBundle
	var bundleSeeds [][]byte
	for _, c := range []*srchPCSContext{sgx, tdx} {
		bundleSeeds = append(bundleSeeds, cbor.Marshal(pcs.QuoteBundle{Quote: c.rawQuote, TCB: c.bundle()}))
	}

	// --- json.TCBInfo / json.QEIdentity
	//
	// SignedTCBInfo.open / SignedQEIdentity.open are package-private; they are reached through
	// the exported TCBBundle.Verify with the fuzzed document put into an otherwise valid bundle.
	// The context (which quote the collateral is for) is picked from the decoded body.
	pickCtx := func(id, fmspc string) *srchPCSContext {
		switch {
		case strings.EqualFold(fmspc, "50806F000000"):
			return tdxOld
		case id == "TDX" || id == "TD_QE":
			return tdx
		default:
			return sgx
		}
	}
	var tcbInfoSeeds, qeIDSeeds [][]byte
	for _, c := range ctxs {
		tcbInfoSeeds = append(tcbInfoSeeds, c.tcbInfo)
		qeIDSeeds = append(qeIDSeeds, c.qeID)
	}
	sgxBundle, tdxBundle, tdxOldBundle := sgx.bundle(), tdx.bundle(), tdxOld.bundle()
	baseBundle := map[*srchPCSContext]*pcs.TCBBundle{sgx: &sgxBundle, tdx: &tdxBundle, tdxOld: &tdxOldBundle}

	return []searchTarget{
		{
			name:  "pcs.Quote",
			seeds: quoteSeeds,
			fn: func(b []byte) error {
				var q pcs.Quote
				err := q.UnmarshalBinary(b)
				var qt pcs.Quote
				n, errT := qt.UnmarshalBinaryWithTrailing(b, true)
				if err == nil && (errT != nil || n != len(b)) {
					panic(fmt.Sprintf("search-oracle: strict quote parse accepted but lenient parse says n=%d/%d err=%v", n, len(b), errT))
				}
				if errT == nil && (n < 0 || n > len(b)) {
					panic(fmt.Sprintf("search-oracle: quote parse consumed %d of %d bytes", n, len(b)))
				}
				return err
			},
		},
		{
			name:  "pcs.QuoteBundle",
			seeds: bundleSeeds,
			// QuoteBundle.Verify at the fixed time / policy of the matching test vector (no
			// network, no wall clock).  The quote is parsed once more up front only to pick
			// between the SGX and the TDX (time, policy) pair.
			fn: func(b []byte) error {
				var qb pcs.QuoteBundle
				if err := cbor.Unmarshal(b, &qb); err != nil {
					return err
				}
				var q pcs.Quote
				if err := q.UnmarshalBinary(qb.Quote); err != nil {
					return err
				}
				c := sgx
				if q.Header().TeeType() == pcs.TeeTypeTDX {
					c = tdx
				}
				_, err := qb.Verify(c.policy, c.ts)
				return err
			},
		},
		{
			name:  "json.TCBInfo",
			seeds: tcbInfoSeeds,
			fn: func(b []byte) error {
				var st pcs.SignedTCBInfo
				if err := json.Unmarshal(b, &st); err != nil {
					return err
				}
				// Body decoding as in SignedTCBInfo.open (there it runs after the signature check;
				// doing it unconditionally lets mutants reach the body decoder too).
				var ti pcs.TCBInfo
				if err := json.Unmarshal(st.TCBInfo, &ti); err != nil {
					return err
				}
				c := pickCtx(ti.ID, ti.FMSPC)
				bnd := *baseBundle[c]
				bnd.TCBInfo = st
				return c.verifyBundle(&bnd)
			},
		},
		{
			name:  "json.QEIdentity",
			seeds: qeIDSeeds,
			fn: func(b []byte) error {
				var sq pcs.SignedQEIdentity
				if err := json.Unmarshal(b, &sq); err != nil {
					return err
				}
				var qi pcs.QEIdentity
				if err := json.Unmarshal(sq.EnclaveIdentity, &qi); err != nil {
					return err
				}
				c := sgx
				if qi.ID == "TD_QE" {
					// Both TDX vectors carry a TD_QE identity; they differ in issue date only.
					c = tdx
					if err := c.verifyWithQE(baseBundle[c], sq); err == nil {
						return nil
					}
					c = tdxOld
				}
				return c.verifyWithQE(baseBundle[c], sq)
			},
		},
	}
}

// verifyWithQE verifies base with its QE identity replaced by sq.
//
// TCBBundle.Verify checks the QE identity first and the TCB info second; an error that stems
// from the (unmodified, known) TCB info of the out-of-date vector is not a verdict on the QE
// identity, so it is not reported.
func (c *srchPCSContext) verifyWithQE(base *pcs.TCBBundle, sq pcs.SignedQEIdentity) error {
	bnd := *base
	bnd.QEIdentity = sq
	err := c.verifyBundle(&bnd)
	if err != nil && strings.Contains(err.Error(), "failed to verify TCB info") {
		return nil
	}
	return err
}

// ---------------------------------------------------------------- 13: IAS attestation verification reports

// srchClearAVRDebugBit returns the AVR body with the DEBUG attribute of the embedded quote
// cleared, so that it is accepted in production mode (ias.unsafeAllowDebugEnclaves == false)
// without flipping the process-global debug switch.  Only usable where the AVR signature is
// not checked.
func srchClearAVRDebugBit(raw []byte) []byte {
	var m map[string]json.RawMessage
	srchMust(json.Unmarshal(raw, &m), "AVR body JSON")
	var body []byte
	srchMust(json.Unmarshal(m["isvEnclaveQuoteBody"], &body), "AVR isvEnclaveQuoteBody")
	const attrFlagsOff = 48 + 48 // quote body (48) || report: cpusvn(16) miscselect(4) reserved(28) attributes...
	if len(body) < attrFlagsOff+8 {
		panic("search: AVR quote body too short")
	}
	flags := binary.LittleEndian.Uint64(body[attrFlagsOff:])
	flags &^= 0x2 // sgx.AttributeDebug
	binary.LittleEndian.PutUint64(body[attrFlagsOff:], flags)
	enc, err := json.Marshal(base64.StdEncoding.EncodeToString(body))
	srchMust(err, "re-encode quote body")

	// Patch in place to keep the rest of the document byte-identical.
	old := []byte(m["isvEnclaveQuoteBody"])
	if bytes.Count(raw, old) != 1 {
		panic("search: cannot locate isvEnclaveQuoteBody in AVR")
	}
	return bytes.Replace(append([]byte(nil), raw...), old, enc, 1)
}

func srchIASTargets() []searchTarget {
	td := srchRepoPath("go", "common", "sgx", "ias", "testdata")
	certChain := srchReadFile(filepath.Join(td, "avr_certificates_urlencoded.pem"))

	var avrSeeds, bundleSeeds [][]byte
	for _, f := range srchGlob(filepath.Join(td, "*.json")) {
		raw := srchReadFile(f)
		// Production-mode acceptable variant first, the original (debug enclave) second.
		avrSeeds = append(avrSeeds, srchClearAVRDebugBit(raw), raw)

		sig := srchReadFile(strings.TrimSuffix(f, ".json") + ".sig")
		bundleSeeds = append(bundleSeeds, cbor.Marshal(ias.AVRBundle{Body: raw, CertificateChain: certChain, Signature: sig}))
	}

	// The testdata AVRs were issued in May 2020 / later; the signing chain is checked at this
	// fixed instant instead of the wall clock.
	bundleTime := time.Date(2021, time.June, 1, 0, 0, 0, 0, time.UTC)

	return []searchTarget{
		{
			name:  "ias.AVR",
			seeds: avrSeeds,
			// JSON decoding + validation of the AVR body (DecodeAVR minus the signature check,
			// which no mutant of the body can pass), then decoding of the embedded quote.
			fn: func(b []byte) error {
				avr, err := ias.UnsafeDecodeAVR(b)
				if err != nil {
					return err
				}
				if len(avr.ISVEnclaveQuoteBody) > 0 {
					q, err := avr.Quote()
					if err != nil {
						return err
					}
					if _, err = q.MarshalBinary(); err != nil {
						return err
					}
				}
				return nil
			},
		},
		{
			name:  "cbor.AVRBundle",
			seeds: bundleSeeds,
			// The on-the-wire form (node.CapabilityTEE attestation): certificate chain and
			// signature are attacker-supplied too.  The testdata reports are for DEBUG enclaves,
			// which production mode rejects as the last step of body validation that concerns
			// them; that single verdict is mapped to "accepted" rather than switching the
			// process-global debug mode on.
			fn: func(b []byte) error {
				var ab ias.AVRBundle
				if err := cbor.Unmarshal(b, &ab); err != nil {
					return err
				}
				_, err := ab.Open(nil, ias.IntelTrustRoots, bundleTime)
				if err != nil && strings.HasSuffix(err.Error(), "disallowed debug enclave since we are in production mode") {
					return nil
				}
				return err
			},
		},
	}
}
