package main

// Search-only stream, second part: untrusted-bytes entry points that need a
// little more scaffolding than a single decoder call.
//
//   A. Runtime Host Protocol (go/runtime/host/protocol, framing in
//      go/common/cbor/codec.go; the same codec frames the libp2p RPC streams
//      of go/p2p/rpc):
//        rhp.frame            the byte stream of a socket, decoded synchronously
//                             with the real MessageCodec (all bytes available)
//        rhp.frame.trickle    the same, but the reader hands the bytes out in
//                             small pieces like a slow peer would.  The stream
//                             decoder (fxamacker/cbor v2.4.0, stream.go) starts
//                             over AND RECURSES one level on every short read
//                             inside an item, 56 bytes of stack each: about
//                             9.6 million one-byte reads inside one frame (a
//                             frame may hold 64 MiB) end in "fatal error: stack
//                             overflow", which no recover() catches.  The target
//                             keeps the number of reads per call below ~1100,
//                             so it exercises the restart logic but cannot
//                             reach that crash.
//        rhp.connection       the real connection state machine (guest side)
//                             fed through a net.Pipe
//        rhp.connection.host  the same on the host side (InitHost handshake
//                             answered by the attacker bytes)
//      The two connection targets are only included when
//      searchExtraIncludeConnection is true: the connection's own workers run
//      in goroutines started by oasis-core, so a panic there cannot be
//      recovered by the caller and terminates the process.
//
//   B. Stateless consensus client (go/consensus/cometbft/stateless): provider
//      responses checked against a trusted light block, through the
//      verif-tagged wrappers of export_verif.go:
//        stateless.Block.Meta, stateless.BlockResults.Meta,
//        stateless.Validators.Meta, stateless.Parameters.Meta,
//        stateless.TxProof, stateless.TxProof.Raw, stateless.Transactions,
//        stateless.MetaTx
//
// All helpers in this file are prefixed "xtr".  Nothing in here recovers
// panics of the code under test (the caller does).  A fn panics with a message
// starting "search:" on a harness failure.
//
// Process-global state touched ONCE, in searchTargetsExtra():
// signature.SetChainContext (only if no chain context is set yet).  Per call
// the codec observes a prometheus summary (as production does).

import (
	"bytes"
	"context"
	"crypto/sha256"
	"encoding/binary"
	"errors"
	"fmt"
	"io"
	"net"
	"time"

	abci "github.com/cometbft/cometbft/abci/types"
	cmted "github.com/cometbft/cometbft/crypto/ed25519"
	cmtmerkle "github.com/cometbft/cometbft/crypto/merkle"
	cmtsecp "github.com/cometbft/cometbft/crypto/secp256k1"
	cmtcrypto "github.com/cometbft/cometbft/proto/tendermint/crypto"
	cmtproto "github.com/cometbft/cometbft/proto/tendermint/types"
	cmtversion "github.com/cometbft/cometbft/proto/tendermint/version"
	cmtcoretypes "github.com/cometbft/cometbft/rpc/core/types"
	cmttypes "github.com/cometbft/cometbft/types"

	beacon "github.com/oasisprotocol/oasis-core/go/beacon/api"
	"github.com/oasisprotocol/oasis-core/go/common"
	"github.com/oasisprotocol/oasis-core/go/common/cbor"
	"github.com/oasisprotocol/oasis-core/go/common/crypto/hash"
	"github.com/oasisprotocol/oasis-core/go/common/crypto/signature"
	memorySigner "github.com/oasisprotocol/oasis-core/go/common/crypto/signature/signers/memory"
	"github.com/oasisprotocol/oasis-core/go/common/logging"
	cmnNode "github.com/oasisprotocol/oasis-core/go/common/node"
	"github.com/oasisprotocol/oasis-core/go/common/quantity"
	"github.com/oasisprotocol/oasis-core/go/common/sgx/ias"
	"github.com/oasisprotocol/oasis-core/go/common/sgx/pcs"
	"github.com/oasisprotocol/oasis-core/go/common/sgx/quote"
	"github.com/oasisprotocol/oasis-core/go/common/version"
	consensus "github.com/oasisprotocol/oasis-core/go/consensus/api"
	"github.com/oasisprotocol/oasis-core/go/consensus/api/transaction"
	consensusResults "github.com/oasisprotocol/oasis-core/go/consensus/api/transaction/results"
	cmtapi "github.com/oasisprotocol/oasis-core/go/consensus/cometbft/api"
	cmtconsensus "github.com/oasisprotocol/oasis-core/go/consensus/cometbft/consensus"
	"github.com/oasisprotocol/oasis-core/go/consensus/cometbft/light"
	"github.com/oasisprotocol/oasis-core/go/consensus/cometbft/stateless"
	consensusGenesis "github.com/oasisprotocol/oasis-core/go/consensus/genesis"
	"github.com/oasisprotocol/oasis-core/go/keymanager/secrets"
	roothash "github.com/oasisprotocol/oasis-core/go/roothash/api"
	"github.com/oasisprotocol/oasis-core/go/roothash/api/block"
	"github.com/oasisprotocol/oasis-core/go/roothash/api/commitment"
	"github.com/oasisprotocol/oasis-core/go/roothash/api/message"
	enclaverpc "github.com/oasisprotocol/oasis-core/go/runtime/enclaverpc/api"
	"github.com/oasisprotocol/oasis-core/go/runtime/host/protocol"
	staking "github.com/oasisprotocol/oasis-core/go/staking/api"
	mkvsNode "github.com/oasisprotocol/oasis-core/go/storage/mkvs/node"
	"github.com/oasisprotocol/oasis-core/go/storage/mkvs/syncer"
	"github.com/oasisprotocol/oasis-core/go/storage/mkvs/writelog"
)

// searchExtraIncludeConnection gates the rhp.connection* targets.
//
// A panic in a goroutine started by the connection (workerIncoming, the
// per-message handleMessage goroutines, workerOutgoing) cannot be recovered by
// the caller of fn and kills the process.  No such crash was observed in
// 50 000 mutants per target, and every decoder panic that a frame could cause
// there is reachable (recoverably) through rhp.frame first, so the default is
// true; set it to false to leave those targets out.
var searchExtraIncludeConnection = true

// xtrConnDeadline bounds the time fn spends writing the attacker bytes into the pipe.
const xtrConnDeadline = 200 * time.Millisecond

// xtrMaxFrames is the number of frames one rhp.frame call decodes at most.
const xtrMaxFrames = 64

// xtrChainContext is the chain domain separation context used when none is set yet.
const xtrChainContext = "verif: decode search stream"

// searchTargetsExtra builds the targets of this file (seeds included).  It panics if a seed
// cannot be built.
func searchTargetsExtra() []searchTarget {
	xtrEnsureChainContext()

	var ts []searchTarget
	ts = append(ts, xtrFrameTargets()...)
	if searchExtraIncludeConnection {
		ts = append(ts, xtrConnectionTargets()...)
	}
	ts = append(ts, xtrStatelessTargets()...)
	return ts
}

// ---------------------------------------------------------------- generic helpers

func xtrMust(err error, what string) {
	if err != nil {
		panic(fmt.Sprintf("search: %s: %v", what, err))
	}
}

func xtrMustV[T any](v T, err error) T {
	xtrMust(err, "seed construction")
	return v
}

// xtrEnsureChainContext sets the chain context unless one is already set (SetChainContext panics
// when a different one is set; the existing one is kept then).
func xtrEnsureChainContext() {
	defer func() { _ = recover() }()
	signature.SetChainContext(xtrChainContext)
}

// xtrRand is a deterministic byte source (SHA-256 in counter mode).
type xtrRand struct {
	tag string
	ctr uint64
}

func (r *xtrRand) bytes(n int) []byte {
	out := make([]byte, 0, n+sha256.Size)
	for len(out) < n {
		h := sha256.Sum256([]byte(fmt.Sprintf("verif xtr %s/%d", r.tag, r.ctr)))
		r.ctr++
		out = append(out, h[:]...)
	}
	return out[:n:n]
}

func (r *xtrRand) intn(n int) int {
	return int(binary.BigEndian.Uint32(r.bytes(4)) % uint32(n))
}

func xtrHash(s string) hash.Hash {
	return hash.NewFromBytes([]byte(s))
}

func xtrHashPtr(s string) *hash.Hash {
	h := xtrHash(s)
	return &h
}

func xtrSigner(name string) signature.Signer {
	return memorySigner.NewTestSigner("verif search extra: " + name)
}

// ---------------------------------------------------------------- A. runtime host protocol

// xtrFrame is the wire form of one message: 32-bit big-endian length, then the CBOR item.
func xtrFrame(msg *protocol.Message) []byte {
	return xtrRawFrame(cbor.Marshal(msg))
}

func xtrRawFrame(body []byte) []byte {
	out := make([]byte, 4, 4+len(body))
	binary.BigEndian.PutUint32(out, uint32(len(body)))
	return append(out, body...)
}

// xtrSliceRW is the in-memory "socket": reads come from the attacker bytes, at most chunk bytes
// per Read (0 = no limit), writes are discarded.
type xtrSliceRW struct {
	r     *bytes.Reader
	chunk int
}

func (x *xtrSliceRW) Read(p []byte) (int, error) {
	if x.chunk > 0 && len(p) > x.chunk {
		p = p[:x.chunk]
	}
	return x.r.Read(p)
}

func (x *xtrSliceRW) Write(p []byte) (int, error) { return len(p), nil }

// xtrDecodeStream decodes frames from b with the real codec until the stream ends, a frame is
// rejected or xtrMaxFrames frames were accepted.  A stream that ends exactly on a frame boundary
// is accepted (nil); anything else returns the codec's error.
func xtrDecodeStream(b []byte, chunk int) error {
	rd := bytes.NewReader(b)
	codec := cbor.NewMessageCodec(&xtrSliceRW{r: rd, chunk: chunk}, "verif")
	for n := 0; n < xtrMaxFrames; n++ {
		if rd.Len() == 0 {
			return nil
		}
		var msg protocol.Message
		if err := codec.Read(&msg); err != nil {
			return err
		}
		// What the connection does with every decoded message before any handler sees it.
		_ = msg.Body.Type() // metrics label
		if msg.MessageType != protocol.MessageRequest && msg.MessageType != protocol.MessageResponse {
			_ = fmt.Sprintf("%+v", &msg) // handleMessage logs malformed messages like this
		}
	}
	return nil
}

// xtrTrickleChunk is the read size of the trickle target: one byte at a time for short inputs,
// at most ~1024 reads for long ones (every short read costs one restart of the decoder).
func xtrTrickleChunk(n int) int {
	return n/1024 + 1
}

func xtrFrameTargets() []searchTarget {
	seeds := xtrFrameSeeds()
	return []searchTarget{
		{
			name:  "rhp.frame",
			seeds: seeds,
			fn:    func(b []byte) error { return xtrDecodeStream(b, 0) },
		},
		{
			name:  "rhp.frame.trickle",
			seeds: seeds,
			fn:    func(b []byte) error { return xtrDecodeStream(b, xtrTrickleChunk(len(b))) },
		},
	}
}

// xtrRuntimeID is the runtime identifier used in the seeds and by the connection targets.
var xtrRuntimeID = common.NewTestNamespaceFromSeed([]byte("verif search extra: runtime"), 0)

// xtrBodies returns populated request and response bodies of many kinds.
func xtrBodies() (reqs, rsps []protocol.Body) {
	pk := xtrSigner("node").Public()
	pk2 := xtrSigner("node 2").Public()
	addr, addr2 := staking.NewAddress(pk), staking.NewAddress(pk2)
	lb := consensus.LightBlock{Height: 7, Meta: xtrTuple().header}
	blk := block.NewGenesisBlock(xtrRuntimeID, 1_700_000_000)
	blk.Header.Round = 41
	blk.Header.HeaderType = block.Normal
	blk.Header.IORoot = xtrHash("io")
	blk.Header.StateRoot = xtrHash("state")
	rawSig := func(s string) (r signature.RawSignature) {
		copy(r[:], (&xtrRand{tag: s}).bytes(len(r)))
		return r
	}
	sig := signature.Signature{PublicKey: pk, Signature: rawSig("sig")}
	inputs := [][]byte{[]byte("tx one"), []byte("tx two"), {}}
	wl := writelog.WriteLog{{Key: []byte("k1"), Value: []byte("v1")}, {Key: []byte("k2")}}
	tree := syncer.TreeID{
		Root:     mkvsNode.Root{Namespace: xtrRuntimeID, Version: 41, Type: mkvsNode.RootTypeState, Hash: xtrHash("state")},
		Position: xtrHash("state"),
	}
	proof := syncer.Proof{UntrustedRoot: xtrHash("state"), Entries: [][]byte{{0x01, 0x00}, nil, {0x02}}}
	avr := ias.AVRBundle{Body: []byte(`{"id":"1","version":4}`), CertificateChain: []byte("-----BEGIN CERTIFICATE-----"), Signature: []byte("c2ln")}
	tp := xtrTuple()
	sigTx := tp.sigTxs[len(tp.sigTxs)-1]
	txProof := &transaction.Proof{Height: tp.height, RawProof: tp.proofs[len(tp.proofs)-1]}
	var blob [32]byte
	copy(blob[:], "freshness blob freshness blob 32")

	reqs = []protocol.Body{
		{RuntimeInfoRequest: &protocol.RuntimeInfoRequest{
			RuntimeID: xtrRuntimeID, ConsensusBackend: "cometbft", ConsensusProtocolVersion: version.ConsensusProtocol,
			ConsensusChainContext: xtrChainContext, LocalConfig: map[string]any{"a": uint64(1), "b": map[string]any{"c": "d"}},
		}},
		{RuntimePingRequest: &protocol.Empty{}},
		{RuntimeShutdownRequest: &protocol.Empty{}},
		{RuntimeAbortRequest: &protocol.Empty{}},
		{RuntimeCapabilityTEERakInitRequest: &protocol.RuntimeCapabilityTEERakInitRequest{TargetInfo: make([]byte, 512)}},
		{RuntimeCapabilityTEERakReportRequest: &protocol.Empty{}},
		{RuntimeCapabilityTEERakAvrRequest: &protocol.RuntimeCapabilityTEERakAvrRequest{AVR: avr}},
		{RuntimeCapabilityTEERakQuoteRequest: &protocol.RuntimeCapabilityTEERakQuoteRequest{Quote: quote.Quote{IAS: &avr}}},
		{RuntimeCapabilityTEERakQuoteRequest: &protocol.RuntimeCapabilityTEERakQuoteRequest{Quote: quote.Quote{PCS: &pcs.QuoteBundle{
			Quote: []byte{3, 0, 2, 0},
			TCB: pcs.TCBBundle{
				TCBInfo:      pcs.SignedTCBInfo{TCBInfo: []byte(`{"version":3}`), Signature: "00"},
				QEIdentity:   pcs.SignedQEIdentity{EnclaveIdentity: []byte(`{"id":"QE"}`), Signature: "00"},
				Certificates: []byte("-----BEGIN CERTIFICATE-----"),
			},
		}}}},
		{RuntimeCapabilityTEEUpdateEndorsementRequest: &protocol.RuntimeCapabilityTEEUpdateEndorsementRequest{
			EndorsedCapabilityTEE: cmnNode.EndorsedCapabilityTEE{
				CapabilityTEE:   cmnNode.CapabilityTEE{Hardware: cmnNode.TEEHardwareIntelSGX, RAK: pk, Attestation: []byte{0xa0}},
				NodeEndorsement: sig,
			},
		}},
		{RuntimeRPCCallRequest: &protocol.RuntimeRPCCallRequest{Request: []byte("rpc"), Kind: enclaverpc.KindInsecureQuery, PeerID: []byte("peer")}},
		{RuntimeLocalRPCCallRequest: &protocol.RuntimeLocalRPCCallRequest{Request: []byte("local rpc")}},
		{RuntimeCheckTxBatchRequest: &protocol.RuntimeCheckTxBatchRequest{
			ConsensusBlock: lb, Inputs: inputs, Block: *blk, Epoch: beacon.EpochTime(12), MaxMessages: 32,
		}},
		{RuntimeExecuteTxBatchRequest: &protocol.RuntimeExecuteTxBatchRequest{
			Mode: protocol.ExecutionModeSchedule, ConsensusBlock: lb,
			RoundResults: &roothash.RoundResults{
				Messages:            []*roothash.MessageEvent{{Module: "staking", Code: 1, Index: 0}, {Index: 1, Result: cbor.Marshal("ok")}},
				GoodComputeEntities: []signature.PublicKey{pk}, BadComputeEntities: []signature.PublicKey{pk2},
			},
			IORoot: xtrHash("io"), Inputs: inputs,
			InMessages: []*message.IncomingMessage{{ID: 1, Caller: addr, Tag: 2, Fee: *quantity.NewFromUint64(3), Tokens: *quantity.NewFromUint64(4), Data: []byte("in")}},
			Block:      *blk, Epoch: 12, MaxMessages: 32,
		}},
		{RuntimeKeyManagerStatusUpdateRequest: &protocol.RuntimeKeyManagerStatusUpdateRequest{Status: secrets.Status{
			ID: xtrRuntimeID, IsInitialized: true, IsSecure: true, Generation: 2, RotationEpoch: 9, Checksum: make([]byte, 32),
			Nodes: []signature.PublicKey{pk, pk2},
			Policy: &secrets.SignedPolicySGX{
				Policy:     secrets.PolicySGX{Serial: 1, ID: xtrRuntimeID, MasterSecretRotationInterval: 5},
				Signatures: []signature.Signature{sig},
			},
			RSK: &pk2,
		}}},
		{RuntimeKeyManagerQuotePolicyUpdateRequest: &protocol.RuntimeKeyManagerQuotePolicyUpdateRequest{Policy: quote.Policy{
			IAS: &ias.QuotePolicy{AllowedQuoteStatuses: []ias.ISVEnclaveQuoteStatus{ias.QuoteOK}, GIDBlacklist: []uint32{1, 2}},
			PCS: &pcs.QuotePolicy{TCBValidityPeriod: 30, MinTCBEvaluationDataNumber: 12, FMSPCBlacklist: []string{"00606A000000"}},
		}}},
		{RuntimeQueryRequest: &protocol.RuntimeQueryRequest{
			ConsensusBlock: lb, Header: blk.Header, Epoch: 12, MaxMessages: 32, Method: "core.EstimateGas", Args: cbor.Marshal(map[string]any{"x": 1}),
		}},
		{RuntimeConsensusSyncRequest: &protocol.RuntimeConsensusSyncRequest{Height: 1234567}},
		{RuntimeNotifyRequest: &protocol.RuntimeNotifyRequest{
			RuntimeBlock: &roothash.AnnotatedBlock{Height: 7, Block: blk},
			RuntimeEvent: &protocol.RuntimeNotifyEvent{Block: &roothash.AnnotatedBlock{Height: 7, Block: blk}, Tags: [][]byte{[]byte("tag")}},
		}},
		// Host interface.
		{HostRPCCallRequest: &protocol.HostRPCCallRequest{
			Endpoint: "key-manager", RequestID: 3, Request: []byte("km"), Kind: enclaverpc.KindNoiseSession,
			Nodes: []signature.PublicKey{pk}, PeerFeedback: func() *enclaverpc.PeerFeedback { f := enclaverpc.PeerFeedbackBadPeer; return &f }(),
		}},
		{HostSubmitPeerFeedbackRequest: &protocol.HostSubmitPeerFeedbackRequest{Endpoint: "key-manager", RequestID: 3, PeerFeedback: enclaverpc.PeerFeedbackFailure}},
		{HostStorageSyncRequest: &protocol.HostStorageSyncRequest{
			Endpoint: protocol.HostStorageEndpointConsensus, SyncGet: &syncer.GetRequest{Tree: tree, Key: []byte("key"), IncludeSiblings: true, ProofVersion: 1},
		}},
		{HostStorageSyncRequest: &protocol.HostStorageSyncRequest{
			SyncGetPrefixes: &syncer.GetPrefixesRequest{Tree: tree, Prefixes: [][]byte{[]byte("a"), []byte("b")}, Limit: 10},
		}},
		{HostStorageSyncRequest: &protocol.HostStorageSyncRequest{SyncIterate: &syncer.IterateRequest{Tree: tree, Key: []byte("k"), Prefetch: 5}}},
		{HostLocalStorageGetRequest: &protocol.HostLocalStorageGetRequest{Key: []byte("local key")}},
		{HostLocalStorageSetRequest: &protocol.HostLocalStorageSetRequest{Key: []byte("local key"), Value: []byte("value")}},
		{HostFetchConsensusBlockRequest: &protocol.HostFetchConsensusBlockRequest{Height: 7}},
		{HostFetchConsensusValidatorsRequest: &protocol.HostFetchConsensusValidatorsRequest{Height: 8}},
		{HostFetchConsensusEventsRequest: &protocol.HostFetchConsensusEventsRequest{Height: 7, Kind: protocol.EventKindStaking}},
		{HostFetchTxBatchRequest: &protocol.HostFetchTxBatchRequest{Offset: xtrHashPtr("offset"), Limit: 100}},
		{HostFetchGenesisHeightRequest: &protocol.HostFetchGenesisHeightRequest{}},
		{HostFetchBlockMetadataTxRequest: &protocol.HostFetchBlockMetadataTxRequest{Height: 7}},
		{HostProveFreshnessRequest: &protocol.HostProveFreshnessRequest{Blob: blob}},
		{HostIdentityRequest: &protocol.HostIdentityRequest{}},
		{HostSubmitTxRequest: &protocol.HostSubmitTxRequest{RuntimeID: xtrRuntimeID, Data: []byte("runtime tx"), Wait: true, Prove: true}},
		{HostRegisterNotifyRequest: &protocol.HostRegisterNotifyRequest{RuntimeBlock: true, RuntimeEvent: &struct {
			Tags [][]byte `json:"tags,omitempty"`
		}{Tags: [][]byte{[]byte("t")}}}},
		// Not a request, but nothing stops a peer from sending these as one.
		{Empty: &protocol.Empty{}},
		{Error: &protocol.Error{Module: "rhp/internal", Code: 1, Message: "rhp: not ready"}},
		{},
	}

	rsps = []protocol.Body{
		{Empty: &protocol.Empty{}},
		{Error: &protocol.Error{Module: "dispatcher", Code: 2, Message: "method not found"}},
		{RuntimeInfoResponse: &protocol.RuntimeInfoResponse{
			ProtocolVersion: version.RuntimeHostProtocol, RuntimeVersion: version.Version{Major: 1, Minor: 2, Patch: 3},
			Features: protocol.Features{
				ScheduleControl: &protocol.FeatureScheduleControl{InitialBatchSize: 50}, KeyManagerQuotePolicyUpdates: true,
				KeyManagerStatusUpdates: true, EndorsedCapabilityTEE: true,
			},
		}},
		{RuntimeCapabilityTEERakInitResponse: &protocol.Empty{}},
		{RuntimeCapabilityTEERakReportResponse: &protocol.RuntimeCapabilityTEERakReportResponse{RakPub: pk, Report: make([]byte, 432), Nonce: "nonce"}},
		{RuntimeCapabilityTEERakAvrResponse: &protocol.Empty{}},
		{RuntimeCapabilityTEERakQuoteResponse: &protocol.RuntimeCapabilityTEERakQuoteResponse{Height: 7, Signature: rawSig("quote")}},
		{RuntimeCapabilityTEEUpdateEndorsementResponse: &protocol.Empty{}},
		{RuntimeRPCCallResponse: &protocol.RuntimeRPCCallResponse{Response: []byte("rpc response")}},
		{RuntimeLocalRPCCallResponse: &protocol.RuntimeLocalRPCCallResponse{Response: []byte("local rpc response")}},
		{RuntimeCheckTxBatchResponse: &protocol.RuntimeCheckTxBatchResponse{Results: []protocol.CheckTxResult{
			{Meta: &protocol.CheckTxMetadata{Priority: 10, Sender: []byte("sender"), SenderSeq: 4, SenderStateSeq: 3}},
			{Error: protocol.Error{Module: "core", Code: 3, Message: "bad nonce"}},
		}}},
		{RuntimeExecuteTxBatchResponse: &protocol.RuntimeExecuteTxBatchResponse{
			Batch: protocol.ComputedBatch{
				Header: commitment.ComputeResultsHeader{
					Round: 42, PreviousHash: xtrHash("prev"), IORoot: xtrHashPtr("io"), StateRoot: xtrHashPtr("state"),
					MessagesHash: xtrHashPtr("msgs"), InMessagesHash: xtrHashPtr("in"), InMessagesCount: 1,
				},
				IOWriteLog: wl, StateWriteLog: wl, RakSig: rawSig("rak"),
				Messages: []message.Message{{Staking: &message.StakingMessage{Transfer: &staking.Transfer{To: addr2, Amount: *quantity.NewFromUint64(5)}}}},
			},
			TxHashes: []hash.Hash{xtrHash("tx one")}, TxRejectHashes: []hash.Hash{xtrHash("tx two")},
			TxInputRoot: xtrHash("input"), TxInputWriteLog: wl, Deprecated1: cbor.Marshal(map[string]uint64{"w": 1}),
		}},
		{RuntimeAbortResponse: &protocol.Empty{}},
		{RuntimeKeyManagerStatusUpdateResponse: &protocol.Empty{}},
		{RuntimeKeyManagerQuotePolicyUpdateResponse: &protocol.Empty{}},
		{RuntimeQueryResponse: &protocol.RuntimeQueryResponse{Data: cbor.Marshal(uint64(21000))}},
		{RuntimeConsensusSyncResponse: &protocol.Empty{}},
		{RuntimeNotifyResponse: &protocol.Empty{}},
		// Host interface.
		{HostRPCCallResponse: &protocol.HostRPCCallResponse{Response: []byte("km response"), Node: pk}},
		{HostSubmitPeerFeedbackResponse: &protocol.Empty{}},
		{HostStorageSyncResponse: &protocol.HostStorageSyncResponse{ProofResponse: &syncer.ProofResponse{Proof: proof}}},
		{HostLocalStorageGetResponse: &protocol.HostLocalStorageGetResponse{Value: []byte("value")}},
		{HostLocalStorageSetResponse: &protocol.Empty{}},
		{HostFetchConsensusBlockResponse: &protocol.HostFetchConsensusBlockResponse{Block: lb}},
		{HostFetchConsensusValidatorsResponse: &protocol.HostFetchConsensusValidatorsResponse{Validators: *tp.validators}},
		{HostFetchConsensusEventsResponse: &protocol.HostFetchConsensusEventsResponse{Events: []*consensusResults.Event{
			{Staking: &staking.Event{Height: 7, TxHash: xtrHash("tx"), Transfer: &staking.TransferEvent{From: addr, To: addr2, Amount: *quantity.NewFromUint64(9)}}},
		}}},
		{HostFetchTxBatchResponse: &protocol.HostFetchTxBatchResponse{Batch: inputs}},
		{HostFetchGenesisHeightResponse: &protocol.HostFetchGenesisHeightResponse{Height: 1}},
		{HostFetchBlockMetadataTxResponse: &protocol.HostFetchBlockMetadataTxResponse{SignedTx: sigTx, Proof: txProof}},
		{HostProveFreshnessResponse: &protocol.HostProveFreshnessResponse{SignedTx: sigTx, Proof: txProof}},
		{HostIdentityResponse: &protocol.HostIdentityResponse{NodeID: pk}},
		{HostSubmitTxResponse: &protocol.HostSubmitTxResponse{Output: []byte("out"), Round: 42, BatchOrder: 1, Proof: &proof}},
		{HostRegisterNotifyResponse: &protocol.Empty{}},
		{},
	}
	return reqs, rsps
}

// xtrFrameSeeds returns socket streams: single frames of every populated body kind (requests and
// responses), a few multi-frame streams, messages with odd envelopes, and frames whose declared
// length is out of range.
func xtrFrameSeeds() [][]byte {
	reqs, rsps := xtrBodies()
	var seeds [][]byte
	var frames [][]byte
	for i, b := range reqs {
		frames = append(frames, xtrFrame(&protocol.Message{ID: uint64(i), MessageType: protocol.MessageRequest, Body: b}))
	}
	for i, b := range rsps {
		frames = append(frames, xtrFrame(&protocol.Message{ID: uint64(i), MessageType: protocol.MessageResponse, Body: b}))
	}
	seeds = append(seeds, frames...)
	// Streams of two and three frames.
	for i := 0; i+2 < len(frames); i += 7 {
		seeds = append(seeds, bytes.Join([][]byte{frames[i], frames[i+1]}, nil))
		seeds = append(seeds, bytes.Join([][]byte{frames[i+2], frames[i], frames[i+1]}, nil))
	}
	// The host-side handshake answer followed by a request and a duplicate response.
	info := xtrFrame(&protocol.Message{ID: 0, MessageType: protocol.MessageResponse, Body: rsps[2]})
	seeds = append(seeds, bytes.Join([][]byte{info, frames[1], info}, nil))
	// Odd envelopes: invalid / unknown message types, huge IDs, a body with two members set.
	seeds = append(seeds,
		xtrFrame(&protocol.Message{ID: 1, MessageType: protocol.MessageInvalid, Body: reqs[1]}),
		xtrFrame(&protocol.Message{ID: 1, MessageType: 3, Body: reqs[12]}),
		xtrFrame(&protocol.Message{ID: 1, MessageType: 255, Body: rsps[11]}),
		xtrFrame(&protocol.Message{ID: ^uint64(0), MessageType: protocol.MessageResponse, Body: rsps[0]}),
		xtrFrame(&protocol.Message{ID: 5, MessageType: protocol.MessageRequest, Body: protocol.Body{
			Empty: &protocol.Empty{}, Error: &protocol.Error{Message: "both"}, RuntimePingRequest: &protocol.Empty{},
		}}),
		xtrRawFrame(cbor.Marshal(map[string]any{"id": 1, "message_type": 1, "body": map[string]any{"RuntimePingRequest": nil}})),
		xtrRawFrame(cbor.Marshal(map[string]any{"id": 1, "message_type": 1, "body": map[string]any{}})),
		xtrRawFrame(cbor.Marshal(map[string]any{})),
	)
	// Out-of-range and lying length prefixes (rejected; kept as starting points for mutation).
	short := cbor.Marshal(&protocol.Message{ID: 9, MessageType: protocol.MessageRequest, Body: reqs[1]})
	withLen := func(n uint32, body []byte) []byte {
		out := make([]byte, 4, 4+len(body))
		binary.BigEndian.PutUint32(out, n)
		return append(out, body...)
	}
	seeds = append(seeds,
		withLen(0xFFFFFFFF, short),
		withLen(64*1024*1024+1, short),
		withLen(64*1024*1024, short),                                            // exactly the maximum, short body
		withLen(uint32(len(short))+1, short),                                    // one byte missing
		withLen(uint32(len(short))-1, short),                                    // item cut short by the limit
		withLen(uint32(len(short))+1, append(append([]byte{}, short...), 0x00)), // trailing byte inside the frame
		withLen(0, nil),                                                         // empty frame
		withLen(64*1024*1024, []byte{0x5a, 0x03, 0xff, 0xff, 0xf0}),             // a byte string that claims the whole frame
		[]byte{0x00, 0x00},                                                      // cut inside the prefix
	)
	return seeds
}

// ---------------------------------------------------------------- rhp.connection

// xtrHandler is the trivial protocol handler of the connection targets.
type xtrHandler struct{}

var errXtrUnsupported = errors.New("verif: method not supported")

// Handle implements protocol.Handler.
func (xtrHandler) Handle(_ context.Context, body *protocol.Body) (*protocol.Body, error) {
	switch {
	case body.RuntimeInfoRequest != nil:
		return &protocol.Body{RuntimeInfoResponse: &protocol.RuntimeInfoResponse{ProtocolVersion: version.RuntimeHostProtocol}}, nil
	case body.Type() == "", body.Error != nil, body.HostRPCCallRequest != nil:
		return nil, errXtrUnsupported
	default:
		return &protocol.Body{Empty: &protocol.Empty{}}, nil
	}
}

var xtrConnLogger = logging.GetLogger("verif/rhp")

// xtrPrediction is what the synchronous codec says about a stream: the connection must behave
// the same way, because its reader is the same codec.
type xtrPrediction struct {
	err       error // first error of the codec (nil: every byte belongs to an accepted frame)
	wantsMore bool  // err is only "the stream ended inside a frame": the connection keeps waiting
	handshake bool  // a response with ID 0 is decoded before err (host side: answers InitHost)
}

// xtrEOFSpy records whether the reader was asked for more bytes than the stream holds.
type xtrEOFSpy struct {
	xtrSliceRW
	hitEnd bool
}

func (x *xtrEOFSpy) Read(p []byte) (int, error) {
	n, err := x.xtrSliceRW.Read(p)
	if err == io.EOF {
		x.hitEnd = true
	}
	return n, err
}

func xtrPredict(b []byte) (p xtrPrediction) {
	rd := bytes.NewReader(b)
	spy := &xtrEOFSpy{xtrSliceRW: xtrSliceRW{r: rd}}
	codec := cbor.NewMessageCodec(spy, "verif")
	for rd.Len() > 0 {
		var msg protocol.Message
		if err := codec.Read(&msg); err != nil {
			p.err, p.wantsMore = err, spy.hitEnd
			return p
		}
		if msg.MessageType == protocol.MessageResponse && msg.ID == 0 {
			p.handshake = true
		}
	}
	return p
}

// xtrPipeWrite writes b into w before the deadline.  It returns io.ErrClosedPipe when the other
// end was closed (by the connection) before or while writing.
func xtrPipeWrite(w net.Conn, b []byte, deadline time.Time) error {
	if len(b) == 0 {
		return nil
	}
	_ = w.SetWriteDeadline(deadline)
	_, err := w.Write(b)
	_ = w.SetWriteDeadline(time.Time{}) // stops the deadline timer
	return err
}

// xtrAwait waits for a helper goroutine (or for the connection to close the pipe).
func xtrAwait(done <-chan error, what string) error {
	t := time.NewTimer(2 * time.Second)
	defer t.Stop()
	select {
	case err := <-done:
		return err
	case <-t.C:
		panic("search-oracle: rhp.connection: " + what + " within 2 s")
	}
}

// xtrConnFinish is the common tail of both connection targets, entered once b was written (or
// the write failed with werr): it checks that the connection did with the stream what the codec
// predicts, closes everything and waits for the drain goroutine.
//
// Result: nil when the connection was still reading when we closed it, otherwise the error the
// connection ran into (the connection itself only logs it).
func xtrConnFinish(conn protocol.Connection, ours, theirs net.Conn, drained <-chan error, pred xtrPrediction, werr error) error {
	rejected := pred.err != nil && !pred.wantsMore
	var derr error
	gotDrain := false
	if rejected && (werr == nil || errors.Is(werr, io.ErrClosedPipe)) {
		// The connection must close its end on its own.
		derr, gotDrain = xtrAwait(drained, "the connection did not close a stream its codec rejects"), true
	}
	conn.Close()
	_ = ours.Close()
	_ = theirs.Close()
	if !gotDrain {
		derr = xtrAwait(drained, "the drain goroutine did not exit")
	}
	switch {
	case rejected && gotDrain:
		if derr != io.EOF {
			panic(fmt.Sprintf("search: rhp.connection: drain ended with %v", derr))
		}
		return pred.err
	case errors.Is(werr, io.ErrClosedPipe):
		panic(fmt.Sprintf("search-oracle: rhp.connection: the connection closed a stream its codec accepts (codec: %v)", pred.err))
	case werr != nil:
		return fmt.Errorf("rhp: connection stopped reading: %w", werr)
	default:
		return nil
	}
}

// xtrDrain starts THE helper goroutine of a guest call: it only reads from c until c is closed
// (it runs no oasis-core code) and reports the error that ended the reads (io.EOF: the other end
// closed; io.ErrClosedPipe: we did).
func xtrDrain(c net.Conn) <-chan error {
	done := make(chan error, 1)
	go func() {
		_, err := io.Copy(io.Discard, c)
		if err == nil {
			err = io.EOF // io.Copy swallows EOF
		}
		done <- err
	}()
	return done
}

// xtrConnGuest runs a guest-side connection over a pipe and feeds it b.
//
// The calling goroutine creates and initialises the connection, writes b and closes everything;
// one helper goroutine drains what the connection writes back.  The connection's workers run in
// goroutines started by oasis-core.
func xtrConnGuest(b []byte) error {
	pred := xtrPredict(b)
	ours, theirs := net.Pipe()
	conn, err := protocol.NewConnection(xtrConnLogger, xtrRuntimeID, xtrHandler{})
	xtrMust(err, "NewConnection")
	drained := xtrDrain(ours)
	xtrMust(conn.InitGuest(theirs), "InitGuest")
	werr := xtrPipeWrite(ours, b, time.Now().Add(xtrConnDeadline))
	return xtrConnFinish(conn, ours, theirs, drained, pred, werr)
}

// xtrConnHost runs a host-side connection: InitHost sends a RuntimeInfoRequest and waits for the
// answer, which (like everything else) comes from b.
//
// InitHost blocks the calling goroutine, so here a second helper goroutine writes b into the pipe
// (once the first byte of the request was seen, as a runtime would); like the drain goroutine it
// runs no oasis-core code.  When b holds no answer to the handshake the helper cancels InitHost's
// context as soon as b is written, otherwise InitHost would wait for the whole deadline.
func xtrConnHost(b []byte) error {
	pred := xtrPredict(b)
	ours, theirs := net.Pipe()
	conn, err := protocol.NewConnection(xtrConnLogger, xtrRuntimeID, xtrHandler{})
	xtrMust(err, "NewConnection")

	deadline := time.Now().Add(xtrConnDeadline)
	ctx, cancel := context.WithDeadline(context.Background(), deadline)
	defer cancel()

	first := make(chan struct{})
	drained := make(chan error, 1)
	go func() { // reader: signals the first byte, then drains
		var one [1]byte
		_, err := io.ReadFull(ours, one[:])
		close(first)
		if err == nil {
			if _, err = io.Copy(io.Discard, ours); err == nil {
				err = io.EOF
			}
		} else if err == io.ErrUnexpectedEOF {
			err = io.EOF
		}
		drained <- err
	}()
	written := make(chan error, 1)
	go func() { // writer
		<-first
		err := xtrPipeWrite(ours, b, deadline)
		if !pred.handshake {
			cancel()
		}
		written <- err
	}()

	_, ierr := conn.InitHost(ctx, theirs, &protocol.HostInfo{
		ConsensusBackend: "cometbft", ConsensusProtocolVersion: version.ConsensusProtocol, ConsensusChainContext: xtrChainContext,
	})
	if ierr != nil {
		conn.Close()
		_ = ours.Close()
		_ = theirs.Close()
		_ = xtrAwait(written, "the write goroutine did not exit")
		_ = xtrAwait(drained, "the drain goroutine did not exit")
		return ierr
	}
	werr := xtrAwait(written, "the write goroutine did not exit")
	return xtrConnFinish(conn, ours, theirs, drained, pred, werr)
}

func xtrConnectionTargets() []searchTarget {
	reqs, rsps := xtrBodies()
	var guest, host [][]byte
	// Guest side: the host sends requests (and responses to calls the guest never made).
	var stream []byte
	for i, b := range reqs {
		f := xtrFrame(&protocol.Message{ID: uint64(i), MessageType: protocol.MessageRequest, Body: b})
		stream = append(stream, f...)
		if i%3 == 2 {
			guest = append(guest, stream)
			stream = nil
		}
	}
	guest = append(guest, stream)
	guest = append(guest,
		xtrFrame(&protocol.Message{ID: 0, MessageType: protocol.MessageResponse, Body: rsps[2]}),                                // response to nothing
		bytes.Repeat(xtrFrame(&protocol.Message{ID: 7, MessageType: protocol.MessageRequest, Body: reqs[1]}), 20),               // same ID twenty times
		xtrFrame(&protocol.Message{ID: 1, MessageType: protocol.MessageInvalid, Body: reqs[1]}),                                 // invalid type
		xtrFrame(&protocol.Message{ID: 1, MessageType: 77, Body: rsps[11]}),                                                     // unknown type
		xtrFrame(&protocol.Message{ID: 1, MessageType: protocol.MessageRequest}),                                                // request without a body
		xtrFrame(&protocol.Message{ID: 1, MessageType: protocol.MessageResponse}),                                               // response without a body
		xtrFrame(&protocol.Message{ID: 1, MessageType: protocol.MessageRequest, Body: reqs[1]})[:9],                             // cut frame
		append(xtrFrame(&protocol.Message{ID: 1, MessageType: protocol.MessageRequest, Body: reqs[1]}), 0xff, 0xff, 0xff, 0xff), // then an oversized one
		append(xtrFrame(&protocol.Message{ID: 1, MessageType: protocol.MessageRequest, Body: reqs[1]}), 0, 0, 0, 1, 0xff),       // then a malformed one
	)
	// Host side: the stream starts with the answer to the handshake (request ID 0).
	info := xtrFrame(&protocol.Message{ID: 0, MessageType: protocol.MessageResponse, Body: rsps[2]})
	hostReq := func(i int, id uint64) []byte {
		return xtrFrame(&protocol.Message{ID: id, MessageType: protocol.MessageRequest, Body: reqs[i]})
	}
	host = append(host,
		info,
		bytes.Join([][]byte{info, hostReq(20, 1), hostReq(25, 2), hostReq(33, 3)}, nil),
		bytes.Join([][]byte{info, info, info}, nil),                                                                               // duplicate responses
		bytes.Join([][]byte{info, xtrFrame(&protocol.Message{ID: 1, MessageType: protocol.MessageResponse, Body: rsps[0]})}, nil), // response to an unknown ID
		bytes.Join([][]byte{hostReq(20, 1), info}, nil),                                                                           // request before the handshake is done
		xtrFrame(&protocol.Message{ID: 0, MessageType: protocol.MessageResponse, Body: rsps[1]}),                                  // handshake answered with an error
		xtrFrame(&protocol.Message{ID: 0, MessageType: protocol.MessageResponse, Body: rsps[0]}),                                  // ... with the wrong body
		xtrFrame(&protocol.Message{ID: 0, MessageType: protocol.MessageResponse}),                                                 // ... with no body
		xtrFrame(&protocol.Message{ID: 0, MessageType: protocol.MessageResponse, Body: protocol.Body{
			RuntimeInfoResponse: &protocol.RuntimeInfoResponse{ProtocolVersion: version.Version{Major: 99}},
		}}), // ... with an incompatible version
		bytes.Join([][]byte{info, {0xff, 0xff, 0xff, 0xff}}, nil),
	)
	return []searchTarget{
		{name: "rhp.connection", seeds: guest, fn: xtrConnGuest},
		{name: "rhp.connection.host", seeds: host, fn: xtrConnHost},
	}
}

// ---------------------------------------------------------------- B. stateless consensus client

// xtrTup is one consistent (trusted light block, provider responses) tuple.
type xtrTup struct {
	height      int64
	header      []byte // protobuf of the trusted header
	lb          *cmttypes.LightBlock
	block       *consensus.Block
	txs         [][]byte
	sigTxs      []*transaction.SignedTransaction
	proofs      [][]byte // raw inclusion proofs, one per transaction
	results     *consensus.BlockResults
	resultsHash []byte
	txResults   []*abci.ResponseDeliverTx
	validators  *consensus.Validators
	nextVals    *cmttypes.ValidatorSet
	params      *consensus.Parameters
	cmtParams   cmtproto.ConsensusParams
	stateParams *consensusGenesis.Parameters
	commit      *cmttypes.Commit
}

var xtrTupleCache *xtrTup

// xtrTuple builds (once) the tuple all stateless targets share.  Same construction as
// harness/cmd/stateless (mkTupleAt), with a fixed shape.
func xtrTuple() *xtrTup {
	if xtrTupleCache != nil {
		return xtrTupleCache
	}
	xtrEnsureChainContext()
	r := &xtrRand{tag: "tuple"}
	const height = 7
	var root hash.Hash
	copy(root[:], r.bytes(32))

	var sigTxs []*transaction.SignedTransaction
	for i := 0; i < 4; i++ {
		tx := transaction.NewTransaction(uint64(i), nil, transaction.MethodName("staking.Transfer"), r.bytes(5+i))
		sigTxs = append(sigTxs, xtrMustV(transaction.Sign(xtrSigner(fmt.Sprintf("account %d", i)), tx)))
	}
	metaTx := consensus.NewBlockMetadataTx(&consensus.BlockMetadata{StateRoot: root, EventsRoot: r.bytes(32)})
	sigTxs = append(sigTxs, xtrMustV(transaction.Sign(xtrSigner("proposer"), metaTx)))
	var txs cmttypes.Txs
	var raw [][]byte
	for _, s := range sigTxs {
		b := cbor.Marshal(s)
		raw = append(raw, b)
		txs = append(txs, b)
	}

	mkVals := func(n int) *cmttypes.ValidatorSet {
		vals := make([]*cmttypes.Validator, n)
		for i := range vals {
			vals[i] = cmttypes.NewValidator(cmted.GenPrivKeyFromSecret(r.bytes(16)).PubKey(), int64(1+r.intn(1000)))
		}
		return cmttypes.NewValidatorSet(vals)
	}
	vals, nextVals := mkVals(3), mkVals(4)
	cp := cmttypes.DefaultConsensusParams()
	cp.Block.MaxBytes = 1024 * 2500
	cp.Block.MaxGas = 999
	cp.Version.App = 3
	ts := time.Unix(1_700_000_123, 456_789_000).UTC()
	lastBlockID := cmttypes.BlockID{Hash: r.bytes(32), PartSetHeader: cmttypes.PartSetHeader{Total: 1, Hash: r.bytes(32)}}
	commit := &cmttypes.Commit{Height: height - 1, Round: 1, BlockID: lastBlockID}
	for i := 0; i < 3; i++ {
		if i == 1 {
			commit.Signatures = append(commit.Signatures, cmttypes.NewCommitSigAbsent())
			continue
		}
		commit.Signatures = append(commit.Signatures, cmttypes.CommitSig{
			BlockIDFlag: cmttypes.BlockIDFlagCommit, ValidatorAddress: r.bytes(20), Timestamp: ts.Add(-time.Duration(i) * time.Millisecond), Signature: r.bytes(64),
		})
	}
	data := cmttypes.Data{Txs: txs}
	hdr := cmttypes.Header{
		Version: cmtversion.Consensus{Block: 11, App: cp.Version.App}, ChainID: "verif-chain", Height: height, Time: ts,
		LastBlockID: lastBlockID, LastCommitHash: commit.Hash(), DataHash: data.Hash(), ValidatorsHash: vals.Hash(),
		NextValidatorsHash: nextVals.Hash(), ConsensusHash: cp.Hash(), AppHash: r.bytes(32), LastResultsHash: r.bytes(32),
		EvidenceHash: (&cmttypes.EvidenceData{}).Hash(), ProposerAddress: vals.Validators[0].Address,
	}
	cblk := xtrMustV(cmtapi.NewBlock(&cmttypes.Block{Header: hdr, Data: data, LastCommit: commit}))

	var txr []*abci.ResponseDeliverTx
	for i := range sigTxs {
		txr = append(txr, &abci.ResponseDeliverTx{
			Code: uint32(i % 3), Data: r.bytes(i * 3), Log: fmt.Sprintf("log %d", i), GasWanted: int64(1000 + i), GasUsed: int64(900 + i),
			Codespace: []string{"", "staking"}[i%2],
			Events:    []abci.Event{{Type: "staking", Attributes: []abci.EventAttribute{{Key: "k", Value: fmt.Sprint(i), Index: true}}}},
		})
	}
	results := cmtapi.NewBlockResults(&cmtcoretypes.ResultBlockResults{
		Height: height, TxsResults: txr, BeginBlockEvents: []abci.Event{{Type: "begin"}}, EndBlockEvents: []abci.Event{{Type: "end"}},
	})

	sp := &consensusGenesis.Parameters{
		TimeoutCommit: time.Second, MaxTxSize: 32768, MaxBlockSize: uint64(cp.Block.MaxBytes), MaxBlockGas: 1000, MaxEvidenceSize: 51200, MinGasPrice: 2,
	}
	pbp := cp.ToProto()
	params := &consensus.Parameters{Height: height, Parameters: *sp, Meta: xtrMustV(pbp.Marshal())}
	header := xtrMustV(hdr.ToProto().Marshal())
	h := hdr
	_, proofs := xtrMerkleProofs(raw)

	xtrTupleCache = &xtrTup{
		height: height, header: header, lb: &cmttypes.LightBlock{SignedHeader: &cmttypes.SignedHeader{Header: &h}},
		block: cblk, txs: raw, sigTxs: sigTxs, proofs: proofs, results: results, resultsHash: cmttypes.NewResults(txr).Hash(), txResults: txr,
		validators: xtrMustV(light.EncodeValidators(nextVals, height+1)), nextVals: nextVals,
		params: params, cmtParams: pbp, stateParams: sp, commit: commit,
	}
	return xtrTupleCache
}

// xtrMerkleProofs returns the raw inclusion proofs the real code produces for txs.
func xtrMerkleProofs(txs [][]byte) ([][]byte, [][]byte) {
	twp := stateless.VerifTransactionsWithProofs(txs)
	return twp.Transactions, twp.Proofs
}

// xtrQueryFactory is the consensus state querier of the parameters target: it returns the
// (trusted) parameters of the tuple whatever height is asked for.
type xtrQueryFactory struct {
	p *consensusGenesis.Parameters
}

func (f *xtrQueryFactory) QueryAt(context.Context, int64) (cmtconsensus.Query, error) { return f, nil }
func (f *xtrQueryFactory) ChainContext(context.Context) (string, error)               { return xtrChainContext, nil }
func (f *xtrQueryFactory) ConsensusParameters(context.Context) (*consensusGenesis.Parameters, error) {
	return f.p, nil
}

// xtrTryMarshal marshals a protobuf message; messages the generated code cannot marshal (nil
// elements of repeated fields) are skipped.
func xtrTryMarshal(m interface{ Marshal() ([]byte, error) }) (out []byte) {
	defer func() {
		if recover() != nil {
			out = nil
		}
	}()
	b, err := m.Marshal()
	if err != nil {
		return nil
	}
	if b == nil {
		b = []byte{}
	}
	return b
}

func xtrAppendSeed(seeds [][]byte, b []byte) [][]byte {
	if b == nil {
		return seeds
	}
	return append(seeds, b)
}

func xtrStatelessTargets() []searchTarget {
	tp := xtrTuple()
	return []searchTarget{
		xtrBlockMetaTarget(tp),
		xtrBlockResultsTarget(tp),
		xtrValidatorsTarget(tp),
		xtrParametersTarget(tp),
		xtrTxProofTarget(tp),
		xtrTxProofRawTarget(tp),
		xtrTransactionsTarget(tp),
		xtrMetaTxTarget(tp),
	}
}

// ---- stateless.Block.Meta

func xtrBlockMetaTarget(tp *xtrTup) searchTarget {
	var meta cmtapi.BlockMeta
	xtrMust(cbor.Unmarshal(tp.block.Meta, &meta), "block meta")
	seeds := [][]byte{tp.block.Meta}

	withCommit := func(f func(c *cmtproto.Commit)) {
		pc := tp.commit.ToProto()
		f(pc)
		if lc := xtrTryMarshal(pc); lc != nil {
			seeds = append(seeds, cbor.Marshal(cmtapi.BlockMeta{Header: meta.Header, LastCommit: lc}))
		}
	}
	// Missing parts at the CBOR level.
	seeds = append(seeds,
		cbor.Marshal(cmtapi.BlockMeta{Header: meta.Header}),                                  // nil LastCommit
		cbor.Marshal(cmtapi.BlockMeta{LastCommit: meta.LastCommit}),                          // nil Header
		cbor.Marshal(cmtapi.BlockMeta{Header: meta.Header, LastCommit: []byte{}}),            // empty LastCommit
		cbor.Marshal(cmtapi.BlockMeta{Header: []byte{}, LastCommit: meta.LastCommit}),        // empty Header
		cbor.Marshal(cmtapi.BlockMeta{}),                                                     // both nil
		cbor.Marshal(map[string]any{}),                                                       // no fields
		cbor.Marshal(map[string]any{"header": meta.Header}),                                  // field absent
		cbor.Marshal(map[string]any{"header": meta.Header, "last_commit": nil}),              // explicit null
		cbor.Marshal(cmtapi.BlockMeta{Header: meta.LastCommit, LastCommit: meta.Header}),     // swapped
		cbor.Marshal(cmtapi.BlockMeta{Header: meta.Header, LastCommit: meta.LastCommit[:9]}), // cut commit
	)
	// Commits with parts removed or out of range (protobuf level).
	withCommit(func(c *cmtproto.Commit) { c.Signatures = nil })
	withCommit(func(c *cmtproto.Commit) { c.BlockID = cmtproto.BlockID{} })
	withCommit(func(c *cmtproto.Commit) { c.BlockID.Hash = []byte{} })
	withCommit(func(c *cmtproto.Commit) { c.BlockID.Hash = c.BlockID.Hash[:31] })
	withCommit(func(c *cmtproto.Commit) { c.BlockID.PartSetHeader = cmtproto.PartSetHeader{} })
	withCommit(func(c *cmtproto.Commit) { c.Height = -1 })
	withCommit(func(c *cmtproto.Commit) { c.Round = -1 })
	withCommit(func(c *cmtproto.Commit) { c.Signatures[0].BlockIdFlag = 0 })
	withCommit(func(c *cmtproto.Commit) { c.Signatures[0].BlockIdFlag = 9 })
	withCommit(func(c *cmtproto.Commit) { c.Signatures[0].ValidatorAddress = nil })
	withCommit(func(c *cmtproto.Commit) { c.Signatures[0].Signature = nil })
	withCommit(func(c *cmtproto.Commit) { c.Signatures[0].Signature = make([]byte, 65) })
	withCommit(func(c *cmtproto.Commit) { c.Signatures[1].ValidatorAddress = make([]byte, 20) })
	withCommit(func(c *cmtproto.Commit) { c.Signatures[0].Timestamp = time.Time{} })
	withCommit(func(c *cmtproto.Commit) { c.Signatures = append(c.Signatures, cmtproto.CommitSig{}) })
	withCommit(func(c *cmtproto.Commit) { *c = cmtproto.Commit{} })

	return searchTarget{
		name:  "stateless.Block.Meta",
		seeds: seeds,
		fn: func(b []byte) error {
			blk := *tp.block
			blk.Meta = b
			return stateless.VerifVerifyBlock(&blk, tp.lb)
		},
	}
}

// ---- stateless.BlockResults.Meta

func xtrBlockResultsTarget(tp *xtrTup) searchTarget {
	seeds := [][]byte{tp.results.Meta}
	add := func(m any) { seeds = append(seeds, cbor.Marshal(m)) }
	ev := []abci.Event{{Type: "begin"}}
	clone := func() []*abci.ResponseDeliverTx { return append([]*abci.ResponseDeliverTx{}, tp.txResults...) }

	add(cmtapi.BlockResultsMeta{TxsResults: tp.txResults})                                                              // no events (still verifies)
	add(cmtapi.BlockResultsMeta{})                                                                                      // nothing
	add(map[string]any{})                                                                                               // no fields
	add(cmtapi.BlockResultsMeta{BeginBlockEvents: ev, EndBlockEvents: ev})                                              // nil TxsResults
	add(cmtapi.BlockResultsMeta{TxsResults: []*abci.ResponseDeliverTx{}})                                               // empty TxsResults
	add(cmtapi.BlockResultsMeta{TxsResults: []*abci.ResponseDeliverTx{nil}})                                            // one null result
	add(cmtapi.BlockResultsMeta{TxsResults: append(clone(), nil)})                                                      // trailing null result
	add(cmtapi.BlockResultsMeta{TxsResults: func() []*abci.ResponseDeliverTx { c := clone(); c[2] = nil; return c }()}) // null in the middle
	add(cmtapi.BlockResultsMeta{TxsResults: []*abci.ResponseDeliverTx{{}}})                                             // empty result
	add(cmtapi.BlockResultsMeta{TxsResults: clone()[:len(tp.txResults)-1]})                                             // one dropped
	add(cmtapi.BlockResultsMeta{TxsResults: func() []*abci.ResponseDeliverTx {
		c := clone()
		x := *c[0]
		x.Events = nil
		x.Data = nil
		c[0] = &x
		return c
	}()})
	add(cmtapi.BlockResultsMeta{TxsResults: func() []*abci.ResponseDeliverTx {
		c := clone()
		x := *c[0]
		x.Events = []abci.Event{{}, {Type: "t", Attributes: []abci.EventAttribute{{}}}}
		x.GasUsed = -1
		x.GasWanted = -1 << 63
		c[0] = &x
		return c
	}()})
	add(map[string]any{"txs_results": nil, "begin_block_events": nil, "end_block_events": nil})
	add(map[string]any{"txs_results": []any{map[string]any{"events": []any{nil}}}})
	add(map[string]any{"txs_results": []any{map[string]any{"events": []any{map[string]any{"attributes": []any{nil}}}}}})

	return searchTarget{
		name:  "stateless.BlockResults.Meta",
		seeds: seeds,
		fn: func(b []byte) error {
			rs := &consensus.BlockResults{Height: tp.height, Meta: b}
			_, err := stateless.VerifVerifyBlockResults(rs, tp.resultsHash, tp.lb)
			return err
		},
	}
}

// ---- stateless.Validators.Meta

func xtrValidatorsTarget(tp *xtrTup) searchTarget {
	seeds := [][]byte{tp.validators.Meta}
	base := func() *cmtproto.ValidatorSet {
		var pvs cmtproto.ValidatorSet
		xtrMust(pvs.Unmarshal(tp.validators.Meta), "validator set")
		return &pvs
	}
	with := func(f func(vs *cmtproto.ValidatorSet)) {
		vs := base()
		f(vs)
		seeds = xtrAppendSeed(seeds, xtrTryMarshal(vs))
	}
	secp := xtrMustV(xtrSecpProto())

	with(func(vs *cmtproto.ValidatorSet) { vs.Proposer = nil })
	with(func(vs *cmtproto.ValidatorSet) { vs.Validators = nil })
	with(func(vs *cmtproto.ValidatorSet) { vs.Validators = nil; vs.Proposer = nil })
	with(func(vs *cmtproto.ValidatorSet) { *vs = cmtproto.ValidatorSet{} })
	with(func(vs *cmtproto.ValidatorSet) { vs.Validators[1] = nil })
	with(func(vs *cmtproto.ValidatorSet) { vs.Validators[1] = &cmtproto.Validator{} })
	with(func(vs *cmtproto.ValidatorSet) { vs.Validators[0].PubKey = cmtcrypto.PublicKey{} })
	with(func(vs *cmtproto.ValidatorSet) { vs.Proposer.PubKey = cmtcrypto.PublicKey{} })
	with(func(vs *cmtproto.ValidatorSet) {
		vs.Validators[0].PubKey = cmtcrypto.PublicKey{Sum: &cmtcrypto.PublicKey_Ed25519{}}
	})
	with(func(vs *cmtproto.ValidatorSet) {
		vs.Validators[0].PubKey = cmtcrypto.PublicKey{Sum: &cmtcrypto.PublicKey_Ed25519{Ed25519: make([]byte, 31)}}
	})
	with(func(vs *cmtproto.ValidatorSet) { vs.Validators[0].PubKey = secp })
	with(func(vs *cmtproto.ValidatorSet) {
		vs.Validators[0].PubKey = cmtcrypto.PublicKey{Sum: &cmtcrypto.PublicKey_Secp256K1{}}
	})
	with(func(vs *cmtproto.ValidatorSet) { vs.Validators[0].Address = nil })
	with(func(vs *cmtproto.ValidatorSet) { vs.Validators[0].Address = vs.Validators[0].Address[:19] })
	with(func(vs *cmtproto.ValidatorSet) { vs.Proposer.Address = nil })
	with(func(vs *cmtproto.ValidatorSet) { vs.Validators[0].VotingPower = 0 })
	with(func(vs *cmtproto.ValidatorSet) { vs.Validators[0].VotingPower = -1 })
	with(func(vs *cmtproto.ValidatorSet) { vs.Validators[0].VotingPower = 1<<63 - 1 })
	with(func(vs *cmtproto.ValidatorSet) {
		for _, v := range vs.Validators {
			v.VotingPower = (1<<63 - 1) / 8
		}
	})
	with(func(vs *cmtproto.ValidatorSet) { vs.Validators[0].ProposerPriority = -1 << 63 })
	with(func(vs *cmtproto.ValidatorSet) { vs.TotalVotingPower = 0 })
	with(func(vs *cmtproto.ValidatorSet) { vs.TotalVotingPower = -5 })
	with(func(vs *cmtproto.ValidatorSet) { vs.Validators = append(vs.Validators, vs.Validators[0]) })
	with(func(vs *cmtproto.ValidatorSet) { vs.Validators = vs.Validators[:1] })
	with(func(vs *cmtproto.ValidatorSet) {
		vs.Validators[0], vs.Validators[1] = vs.Validators[1], vs.Validators[0]
	})
	with(func(vs *cmtproto.ValidatorSet) {
		p := *vs.Proposer
		p.Address = make([]byte, 20)
		vs.Proposer = &p
	})
	seeds = append(seeds, []byte{})

	return searchTarget{
		name:  "stateless.Validators.Meta",
		seeds: seeds,
		fn: func(b []byte) error {
			return stateless.VerifVerifyNextValidators(&consensus.Validators{Height: tp.height + 1, Meta: b}, tp.lb)
		},
	}
}

func xtrSecpProto() (cmtcrypto.PublicKey, error) {
	pk := cmtsecp.GenPrivKeySecp256k1([]byte("verif xtr secp")).PubKey()
	return cmtcrypto.PublicKey{Sum: &cmtcrypto.PublicKey_Secp256K1{Secp256K1: pk.Bytes()}}, nil
}

// ---- stateless.Parameters.Meta

func xtrParametersTarget(tp *xtrTup) searchTarget {
	seeds := [][]byte{tp.params.Meta}
	with := func(f func(p *cmtproto.ConsensusParams)) {
		var p cmtproto.ConsensusParams
		xtrMust(p.Unmarshal(tp.params.Meta), "consensus params")
		f(&p)
		seeds = xtrAppendSeed(seeds, xtrTryMarshal(&p))
	}
	with(func(p *cmtproto.ConsensusParams) { p.Block = nil })
	with(func(p *cmtproto.ConsensusParams) { p.Evidence = nil })
	with(func(p *cmtproto.ConsensusParams) { p.Validator = nil })
	with(func(p *cmtproto.ConsensusParams) { p.Version = nil })
	with(func(p *cmtproto.ConsensusParams) { p.Block, p.Evidence = nil, nil })
	with(func(p *cmtproto.ConsensusParams) { p.Validator, p.Version = nil, nil })
	with(func(p *cmtproto.ConsensusParams) { *p = cmtproto.ConsensusParams{} })
	with(func(p *cmtproto.ConsensusParams) { p.Block = &cmtproto.BlockParams{} })
	with(func(p *cmtproto.ConsensusParams) { p.Evidence = &cmtproto.EvidenceParams{} })
	with(func(p *cmtproto.ConsensusParams) { p.Validator = &cmtproto.ValidatorParams{} })
	with(func(p *cmtproto.ConsensusParams) { p.Version = &cmtproto.VersionParams{} })
	with(func(p *cmtproto.ConsensusParams) { p.Validator.PubKeyTypes = []string{""} })
	with(func(p *cmtproto.ConsensusParams) { p.Validator.PubKeyTypes = []string{"ed25519", "nope"} })
	with(func(p *cmtproto.ConsensusParams) { p.Block.MaxBytes = 0 })
	with(func(p *cmtproto.ConsensusParams) { p.Block.MaxBytes = -1 })
	with(func(p *cmtproto.ConsensusParams) { p.Block.MaxBytes = 1<<63 - 1 })
	with(func(p *cmtproto.ConsensusParams) { p.Block.MaxGas = -2 })
	with(func(p *cmtproto.ConsensusParams) { p.Evidence.MaxAgeNumBlocks = 0 })
	with(func(p *cmtproto.ConsensusParams) { p.Evidence.MaxAgeDuration = -1 })
	with(func(p *cmtproto.ConsensusParams) { p.Evidence.MaxBytes = 1<<63 - 1 })
	with(func(p *cmtproto.ConsensusParams) { p.Version.App++ })
	seeds = append(seeds, []byte{})

	qf := &xtrQueryFactory{p: tp.stateParams}
	ctx := context.Background()
	return searchTarget{
		name:  "stateless.Parameters.Meta",
		seeds: seeds,
		fn: func(b []byte) error {
			params := &consensus.Parameters{Height: tp.height, Parameters: tp.params.Parameters, Meta: b}
			return stateless.VerifVerifyParameters(ctx, qf, params, tp.lb)
		},
	}
}

// ---- stateless.TxProof / stateless.TxProof.Raw

// xtrProofIndex is the transaction the proof targets verify inclusion of.
const xtrProofIndex = 2

func xtrRawProofSeeds(tp *xtrTup) [][]byte {
	seeds := [][]byte{tp.proofs[xtrProofIndex]}
	for i, p := range tp.proofs {
		if i != xtrProofIndex {
			seeds = append(seeds, p) // proofs of the other transactions
		}
	}
	with := func(f func(p *cmtmerkle.Proof)) {
		var p cmtmerkle.Proof
		xtrMust(cbor.Unmarshal(tp.proofs[xtrProofIndex], &p), "merkle proof")
		f(&p)
		seeds = append(seeds, cbor.Marshal(&p))
	}
	with(func(p *cmtmerkle.Proof) { p.Aunts = nil })
	with(func(p *cmtmerkle.Proof) { p.Aunts = [][]byte{} })
	with(func(p *cmtmerkle.Proof) { p.Aunts[0] = nil })
	with(func(p *cmtmerkle.Proof) { p.Aunts[0] = []byte{} })
	with(func(p *cmtmerkle.Proof) { p.Aunts[0] = p.Aunts[0][:31] })
	with(func(p *cmtmerkle.Proof) { p.Aunts = append(p.Aunts, p.Aunts[0]) })
	with(func(p *cmtmerkle.Proof) { p.Aunts = p.Aunts[:len(p.Aunts)-1] })
	with(func(p *cmtmerkle.Proof) {
		for len(p.Aunts) < 101 {
			p.Aunts = append(p.Aunts, p.Aunts[0])
		}
	})
	with(func(p *cmtmerkle.Proof) { p.LeafHash = nil })
	with(func(p *cmtmerkle.Proof) { p.LeafHash = p.LeafHash[:31] })
	with(func(p *cmtmerkle.Proof) { p.Total = 0 })
	with(func(p *cmtmerkle.Proof) { p.Total = -1 })
	with(func(p *cmtmerkle.Proof) { p.Total = 1<<63 - 1 })
	with(func(p *cmtmerkle.Proof) { p.Total = 1 })
	with(func(p *cmtmerkle.Proof) { p.Index = -1 })
	with(func(p *cmtmerkle.Proof) { p.Index = p.Total })
	with(func(p *cmtmerkle.Proof) { p.Index = 1<<63 - 1 })
	with(func(p *cmtmerkle.Proof) { p.Index, p.Total = 0, 1; p.Aunts = nil })
	with(func(p *cmtmerkle.Proof) { *p = cmtmerkle.Proof{} })
	seeds = append(seeds, cbor.Marshal(map[string]any{}), []byte{})
	return seeds
}

func xtrTxProofTarget(tp *xtrTup) searchTarget {
	var seeds [][]byte
	for _, rp := range xtrRawProofSeeds(tp) {
		seeds = append(seeds, cbor.Marshal(transaction.Proof{Height: tp.height, RawProof: rp}))
	}
	seeds = append(seeds,
		cbor.Marshal(transaction.Proof{Height: tp.height}),                              // nil raw proof
		cbor.Marshal(transaction.Proof{Height: -1, RawProof: tp.proofs[xtrProofIndex]}), // (the height is not checked here)
		cbor.Marshal(map[string]any{"raw_proof": tp.proofs[xtrProofIndex]}),             // no height
		cbor.Marshal(map[string]any{}),
	)
	tx := tp.sigTxs[xtrProofIndex]
	return searchTarget{
		name:  "stateless.TxProof",
		seeds: seeds,
		fn: func(b []byte) error {
			var proof transaction.Proof
			if err := cbor.Unmarshal(b, &proof); err != nil {
				return err
			}
			return stateless.VerifVerifyTransactionProof(&proof, tx, tp.lb)
		},
	}
}

func xtrTxProofRawTarget(tp *xtrTup) searchTarget {
	tx := tp.sigTxs[xtrProofIndex]
	return searchTarget{
		name:  "stateless.TxProof.Raw",
		seeds: xtrRawProofSeeds(tp),
		fn: func(b []byte) error {
			return stateless.VerifVerifyTransactionProof(&transaction.Proof{Height: tp.height, RawProof: b}, tx, tp.lb)
		},
	}
}

// ---- stateless.Transactions

func xtrTransactionsTarget(tp *xtrTup) searchTarget {
	seeds := [][]byte{cbor.Marshal(tp.txs)}
	n := len(tp.txs)
	seeds = append(seeds,
		cbor.Marshal(tp.txs[:n-1]),
		cbor.Marshal(append(append([][]byte{}, tp.txs...), tp.txs[0])),
		cbor.Marshal([][]byte{tp.txs[1], tp.txs[0], tp.txs[2], tp.txs[3], tp.txs[4]}),
		cbor.Marshal([][]byte{}),
		cbor.Marshal([][]byte{nil}),
		cbor.Marshal([][]byte{{}}),
		cbor.Marshal([]any{nil, nil}),
		cbor.Marshal(tp.txs[n-1:]),
	)
	return searchTarget{
		name:  "stateless.Transactions",
		seeds: seeds,
		fn: func(b []byte) error {
			var txs [][]byte
			if err := cbor.Unmarshal(b, &txs); err != nil {
				return err
			}
			if err := stateless.VerifVerifyTransactions(txs, tp.lb); err != nil {
				return err
			}
			// What the backend derives from a verified list.
			_ = stateless.VerifTransactionsWithProofs(txs)
			_, err := stateless.VerifStateRootFromBlockTxs(txs)
			return err
		},
	}
}

// ---- stateless.MetaTx

// xtrMetaTxTarget decodes a block metadata transaction (the last transaction of a block) the way
// the state root fallback of the stateless backend does.  In production the bytes are only decoded
// after the transaction list was verified against the trusted header.
func xtrMetaTxTarget(tp *xtrTup) searchTarget {
	n := len(tp.txs)
	seeds := [][]byte{tp.txs[n-1], tp.txs[0]}
	sig := *tp.sigTxs[n-1]
	sig.Blob = nil
	seeds = append(seeds, cbor.Marshal(&sig))
	sig.Blob = cbor.Marshal(map[string]any{})
	seeds = append(seeds, cbor.Marshal(&sig))
	sig.Blob = cbor.Marshal(transaction.Transaction{Method: consensus.MethodMeta})
	seeds = append(seeds, cbor.Marshal(&sig))
	sig.Blob = cbor.Marshal(transaction.Transaction{Method: consensus.MethodMeta, Body: cbor.Marshal(map[string]any{})})
	seeds = append(seeds, cbor.Marshal(&sig))
	return searchTarget{
		name:  "stateless.MetaTx",
		seeds: seeds,
		fn: func(b []byte) error {
			_, err := stateless.VerifStateRootFromMetaTx(b)
			return err
		},
	}
}
