package main

import (
	"bytes"
	"encoding/base64"
	"encoding/binary"
	"encoding/hex"
	"encoding/json"
	"errors"
	"fmt"
	"io"
	"strings"

	"github.com/oasisprotocol/oasis-core/go/common"
	"github.com/oasisprotocol/oasis-core/go/common/cbor"
	"github.com/oasisprotocol/oasis-core/go/common/crypto/hash"
	"github.com/oasisprotocol/oasis-core/go/common/crypto/signature"
	"github.com/oasisprotocol/oasis-core/go/common/quantity"
	"github.com/oasisprotocol/oasis-core/go/common/sgx"
	"github.com/oasisprotocol/oasis-core/go/common/sgx/aesm"
	"github.com/oasisprotocol/oasis-core/go/common/sgx/pcs"
	"github.com/oasisprotocol/oasis-core/go/common/sgx/sigstruct"
	governance "github.com/oasisprotocol/oasis-core/go/governance/api"
	"github.com/oasisprotocol/oasis-core/go/runtime/host/protocol"
	scheduler "github.com/oasisprotocol/oasis-core/go/scheduler/api"
	staking "github.com/oasisprotocol/oasis-core/go/staking/api"
	dbApi "github.com/oasisprotocol/oasis-core/go/storage/mkvs/db/api"
	"github.com/oasisprotocol/oasis-core/go/storage/mkvs/db/pathbadger"
	"github.com/oasisprotocol/oasis-core/go/storage/mkvs/node"

	"verifharness/internal/prng"
)

// ---------- hex / text unmarshalers ----------
func textErrCode(err error) int {
	var ib hex.InvalidByteError
	var ci base64.CorruptInputError
	switch {
	case errors.As(err, &ib):
		return 71
	case errors.Is(err, hex.ErrLength):
		return 72
	case errors.As(err, &ci):
		return 73
	}
	return 70
}

var hexKinds = []struct {
	name       string
	size, kind int
	fn         func(string) ([]byte, error)
}{
	{"hash.Hash", 32, 0, func(s string) ([]byte, error) { var x hash.Hash; err := x.UnmarshalHex(s); return x[:], err }},
	{"signature.PublicKey", 32, 0, func(s string) ([]byte, error) { var x signature.PublicKey; err := x.UnmarshalHex(s); return x[:], err }},
	{"common.Namespace", 32, 1, func(s string) ([]byte, error) { var x common.Namespace; err := x.UnmarshalHex(s); return x[:], err }},
	{"dbApi.TypedHash", 33, 0, func(s string) ([]byte, error) { var x dbApi.TypedHash; err := x.UnmarshalHex(s); return x[:], err }},
	{"sgx.MrEnclave", 32, 0, func(s string) ([]byte, error) { var x sgx.MrEnclave; err := x.UnmarshalHex(s); return x[:], err }},
	{"sgx.MrSigner", 32, 0, func(s string) ([]byte, error) { var x sgx.MrSigner; err := x.UnmarshalHex(s); return x[:], err }},
	{"pcs.SignatureECDSA_P256", 64, 0, func(s string) ([]byte, error) {
		var x pcs.SignatureECDSA_P256
		err := x.UnmarshalHex(s)
		return x[:], err
	}},
}

var textKinds = []struct {
	name             string
	mode, size, kind int
	fn               func([]byte) ([]byte, error)
}{
	{"signature.PublicKey", 0, 32, 0, func(t []byte) ([]byte, error) { var x signature.PublicKey; err := x.UnmarshalText(t); return x[:], err }},
	{"signature.RawSignature", 0, 64, 0, func(t []byte) ([]byte, error) {
		var x signature.RawSignature
		err := x.UnmarshalText(t)
		return x[:], err
	}},
	{"signature.RawProof", 0, signature.ProofSize, 0, func(t []byte) ([]byte, error) {
		var x signature.RawProof
		err := x.UnmarshalText(t)
		return x[:], err
	}},
	{"dbApi.TypedHash", 0, 33, 0, func(t []byte) ([]byte, error) { var x dbApi.TypedHash; err := x.UnmarshalText(t); return x[:], err }},
	{"common.Namespace.Base64", 0, 32, 1, func(t []byte) ([]byte, error) {
		var x common.Namespace
		err := x.UnmarshalBase64(t)
		return x[:], err
	}},
	{"hash.Hash", 1, 32, 0, func(t []byte) ([]byte, error) { var x hash.Hash; err := x.UnmarshalText(t); return x[:], err }},
	{"common.Namespace", 1, 32, 1, func(t []byte) ([]byte, error) { var x common.Namespace; err := x.UnmarshalText(t); return x[:], err }},
}

func coqOptB64(t []byte) string {
	b, err := base64.StdEncoding.DecodeString(string(t))
	if err != nil {
		return "None"
	}
	return "(Some " + cb(b) + ")"
}

func genTextBytes(r *prng.R, size int, kind int, hexMode bool) []byte {
	raw := r.Bytes(size + []int{0, 0, 0, 0, -1, 1, -size}[r.Intn(7)])
	if kind == 1 && len(raw) >= 8 && r.Chance(70) {
		copy(raw[0:8], []byte{byte(r.Intn(4)) << 6, 0, 0, 0, 0, 0, 0, 0})
	}
	var t []byte
	if hexMode {
		t = []byte(hex.EncodeToString(raw))
		if r.Chance(30) {
			t = []byte(strings.ToUpper(string(t)))
		}
	} else {
		t = []byte(base64.StdEncoding.EncodeToString(raw))
	}
	switch r.Intn(10) {
	case 0:
		if len(t) > 0 {
			t = t[:len(t)-1]
		}
	case 1:
		if len(t) > 0 {
			t[r.Intn(len(t))] = []byte("gG/zZ=-_ \n\x00\xff")[r.Intn(12)]
		}
	case 2:
		t = append(t, []byte("0aZ=\n")[r.Intn(5)])
	case 3:
		t, _ = mutate(r, t)
	}
	return t
}

func runHexCase(c Case) (o outcome) {
	hk := hexKinds[c.Fmt]
	text := unhex(c.Data)
	var out []byte
	var err error
	g := guarded(func() { out, err = hk.fn(string(text)) })
	in := fmt.Sprintf("CHex %d %d %s", hk.size, hk.kind, cb(text))
	o = fixedOutcome(g, err, out, in)
	return o
}

func fixedOutcome(g guardResult, err error, out []byte, in string) (o outcome) {
	var ot string
	switch {
	case g.panicked:
		ot, o.class = "OFixed Panic", "panic"
	case err != nil:
		ot, o.class = fmt.Sprintf("OFixed (Err %d)", textErrCode(err)), fmt.Sprintf("err%d", textErrCode(err))
	default:
		ot, o.class, o.ok = "OFixed (Ok "+cb(out)+")", "ok", true
	}
	o.g = g
	o.term = "(" + in + ", " + ot + ")"
	if v := g.violation(); v != "" {
		o.violation = "text decoder: " + v
	}
	return o
}

func runTextCase(c Case) (o outcome) {
	tk := textKinds[c.Fmt]
	text := unhex(c.Data)
	var out []byte
	var err error
	g := guarded(func() { out, err = tk.fn(text) })
	in := fmt.Sprintf("CText %d %d %d %s %s", tk.mode, tk.size, tk.kind, coqOptB64(text), cb(text))
	return fixedOutcome(g, err, out, in)
}

func runEncIDCase(c Case) (o outcome) {
	text := unhex(c.Data)
	var id sgx.EnclaveIdentity
	var err error
	var in string
	var g guardResult
	if c.Mode == 0 {
		g = guarded(func() { err = id.UnmarshalHex(string(text)) })
		in = "CEncIdHex " + cb(text)
	} else {
		g = guarded(func() { err = id.UnmarshalText(text) })
		in = "CEncIdB64 " + coqOptB64(text)
	}
	var ot string
	switch {
	case g.panicked:
		ot, o.class = "OPair Panic", "panic"
	case err != nil:
		code := 74
		if e := errors.Unwrap(err); e != nil {
			code = textErrCode(e)
		}
		ot, o.class = fmt.Sprintf("OPair (Err %d)", code), fmt.Sprintf("err%d", code)
	default:
		ot, o.class, o.ok = fmt.Sprintf("OPair (Ok (%s, %s))", cb(id.MrEnclave[:]), cb(id.MrSigner[:])), "ok", true
	}
	o.g = g
	o.term = "(" + in + ", " + ot + ")"
	if v := g.violation(); v != "" {
		o.violation = "enclave identity: " + v
	}
	return o
}

func runAkidCase(c Case) (o outcome) {
	data := unhex(c.Data)
	var ak aesm.AttestationKeyID
	var err error
	g := guarded(func() { err = ak.UnmarshalBinary(data) })
	var ot string
	switch {
	case g.panicked:
		ot, o.class = "OAkid Panic", "panic"
	case err != nil:
		code := 9999
		switch s := err.Error(); {
		case strings.HasPrefix(s, "malformed attestation key ID"):
			code = 75
		case strings.HasPrefix(s, "unsupported MRSIGNER size"):
			code = 76
		case strings.HasPrefix(s, "unsupported key algorithm"):
			code = 77
		}
		ot, o.class = fmt.Sprintf("OAkid (Err %d)", code), fmt.Sprintf("err%d", code)
	default:
		ot, o.class, o.ok = fmt.Sprintf("OAkid (Ok (%d, %s))", uint32(ak.Type), cb(ak.MrSigner[:])), "ok", true
	}
	o.g = g
	o.term = "(CAkid " + cb(data) + ", " + ot + ")"
	if v := g.violation(); v != "" {
		o.violation = "akid: " + v
	}
	return o
}

func genAkid(r *prng.R) []byte {
	b := r.Bytes(158 + r.Intn(3))
	binary.LittleEndian.PutUint16(b[4:], 32)
	binary.LittleEndian.PutUint32(b[154:], uint32(r.Intn(3)))
	switch r.Intn(8) {
	case 0:
		b = b[:r.Intn(len(b))]
	case 1:
		binary.LittleEndian.PutUint16(b[4:], uint16([]int{0, 31, 33, 200, 65535}[r.Intn(5)]))
	case 2:
		binary.LittleEndian.PutUint32(b[154:], uint32(3+r.Intn(5)))
	case 3:
		b = b[:157]
	}
	return b
}

// QE identity masks: the four hex fields of a QEIdentity checked by verify.
var qeSeed *pcs.QEIdentity
var qeSeedReport *pcs.SgxReport

func qeInit() {
	if qeSeed != nil {
		return
	}
	files := srchGlob(srchRepoPath("go/common/sgx/pcs/testdata", "qe_identity_v2.json"))
	inner, _ := jsonInner(srchReadFile(files[0]), "enclaveIdentity")
	var qe pcs.QEIdentity
	if err := json.Unmarshal(inner, &qe); err != nil {
		panic(err)
	}
	raw := make([]byte, 384)
	sg, _ := hex.DecodeString(qe.MRSIGNER)
	copy(raw[128:160], sg)
	raw[256], raw[257] = byte(qe.ISVProdID), byte(qe.ISVProdID>>8)
	raw[258], raw[259] = 0xff, 0x7f
	var rep pcs.SgxReport
	_ = rep.UnmarshalBinary(raw)
	qeSeed, qeSeedReport = &qe, &rep
}

func runQeMasksCase(c Case) (o outcome) {
	qeInit()
	f := strings.Split(string(unhex(c.Data)), "|")
	for len(f) < 4 {
		f = append(f, "")
	}
	qe := *qeSeed
	qe.MiscSelect, qe.MiscSelectMask, qe.Attributes, qe.AttributesMask = f[0], f[1], f[2], f[3]
	var err error
	g := guarded(func() { err = pcs.VerifQEIdentityVerify(&qe, qeSeedReport) })
	malformed := err != nil && (strings.Contains(err.Error(), "malformed miscselect") || strings.Contains(err.Error(), "malformed attributes"))
	mismatch := err != nil && (strings.Contains(err.Error(), "invalid QE miscselect") || strings.Contains(err.Error(), "invalid QE attributes"))
	var ot string
	switch {
	case g.panicked:
		ot, o.class = "OClass Panic", "panic"
	case malformed:
		ot, o.class = "OClass (Err 1)", "malformed"
	case mismatch:
		ot, o.class = "OClass (Err 2)", "mismatch"
	default:
		ot, o.class, o.ok = "OClass (Ok tt)", "parsed", true
	}
	o.g = g
	o.term = fmt.Sprintf("(CQeMasks 0 0 0 %s %s %s %s, %s)", cb([]byte(f[0])), cb([]byte(f[1])), cb([]byte(f[2])), cb([]byte(f[3])), ot)
	if v := g.violation(); v != "" {
		o.violation = "qe masks: " + v
	}
	return o
}

func genQeMasks(r *prng.R) []byte {
	mk := func(n int) string {
		raw := r.Bytes(n + []int{0, 0, 0, 0, 0, -1, 1}[r.Intn(7)])
		if r.Chance(70) { // the seed report has MISCSELECT = ATTRIBUTES = 0: a zero expectation matches
			raw = make([]byte, len(raw))
		}
		s := hex.EncodeToString(raw)
		switch r.Intn(12) {
		case 0:
			s = s[:len(s)/2*2-1+0] // odd length
		case 1:
			if len(s) > 0 {
				s = s[:len(s)-1] + "g"
			}
		case 2:
			s = ""
		}
		return s
	}
	return []byte(mk(4) + "|" + mk(4) + "|" + mk(16) + "|" + mk(16))
}

func runQuantityCase(c Case) (o outcome) {
	data := unhex(c.Data)
	var q quantity.Quantity
	var err error
	g := guarded(func() { err = q.UnmarshalBinary(data) })
	var ot string
	switch {
	case g.panicked:
		ot, o.class = "ONum Panic", "panic"
	case err != nil:
		ot, o.class = "ONum (Err 9999)", "err"
	default:
		ot, o.class, o.ok = "ONum (Ok "+q.String()+")", "ok", true
	}
	o.g = g
	o.term = "(CQuantity " + cb(data) + ", " + ot + ")"
	if v := g.violation(); v != "" {
		o.violation = "quantity: " + v
	}
	return o
}

// ---------- pathbadger node format ----------
func pbErrCode(err error) int {
	s := err.Error()
	base := 0
	for p, b := range map[string]int{
		"failed to unmarshal key: ": 500, "failed to unmarshal label size: ": 500, "failed to unmarshal leaf node size: ": 500,
		"failed to unmarshal label bit length: ": 600, "failed to unmarshal hash: ": 700,
	} {
		if strings.HasPrefix(s, p) {
			base, s = b, s[len(p):]
		}
	}
	switch {
	case strings.HasPrefix(s, "malformed pointer (not enough bytes)"):
		return 78
	case strings.HasPrefix(s, "serialized empty hash"):
		return 79
	case strings.HasPrefix(s, "malformed node"):
		return 86
	case strings.HasPrefix(s, "mkvs: unsupported node kind"):
		return 87
	case s == node.ErrMalformedNode.Error():
		return base + 1
	case s == node.ErrMalformedKey.Error():
		return base + 2
	case s == hash.ErrMalformed.Error():
		return base + 3
	}
	return 9999
}

func coqPbPtr(p *node.Pointer) string {
	if p == nil {
		return "None"
	}
	v, i, _ := pathbadger.VerifDbPtr(p)
	return fmt.Sprintf("(Some (%s, %d, %d))", cb(p.Hash[:]), v, i)
}

func runPbNodeCase(c Case) (o outcome) {
	data := unhex(c.Data)
	var n node.Node
	var err error
	g := guarded(func() { n, err = pathbadger.VerifNodeFromDb(data) })
	var ot string
	switch {
	case g.panicked:
		ot, o.class = "OPb Panic", "panic"
	case err != nil:
		ot, o.class = fmt.Sprintf("OPb (Err %d)", pbErrCode(err)), fmt.Sprintf("err%d", pbErrCode(err))
	default:
		o.class, o.ok = "ok", true
		switch x := n.(type) {
		case *node.LeafNode:
			ot = fmt.Sprintf("OPb (Ok (PbLeaf %s %s))", cb(x.Key), cb(x.Value))
		case *node.InternalNode:
			leaf := "None"
			if x.LeafNode != nil {
				l := x.LeafNode.Node.(*node.LeafNode)
				leaf = fmt.Sprintf("(Some (%s, %s))", cb(l.Key), cb(l.Value))
			}
			ot = fmt.Sprintf("OPb (Ok (PbInternal %s %d %s %s %s))", cb(x.Label), x.LabelBitLength, coqPbPtr(x.Left), coqPbPtr(x.Right), leaf)
		}
	}
	o.g = g
	o.term = "(CPbNode " + cb(data) + ", " + ot + ")"
	if v := g.violation(); v != "" {
		o.violation = "pathbadger node: " + v
	}
	return o
}

func genPbNode(r *prng.R) ([]byte, []int) {
	key := func() []byte { k := node.Key(r.Bytes(r.Intn(6))); b, _ := k.MarshalBinary(); return b }
	ptr := func() []byte {
		b := r.Bytes(32)
		if r.Chance(5) {
			var e hash.Hash
			e.Empty()
			b = e[:]
		}
		b = binary.BigEndian.AppendUint64(b, r.U64()%1000)
		return binary.BigEndian.AppendUint32(b, uint32(r.Intn(1000)))
	}
	var out []byte
	var cuts []int
	mark := func() { cuts = append(cuts, len(out)) }
	if r.Chance(35) {
		out = append(out, 1)
		mark()
		out = append(out, key()...)
		mark()
		out = append(out, r.Bytes(r.Intn(12))...)
	} else {
		kind := byte(2 + r.Intn(3))
		out = append(out, kind)
		mark()
		out = append(out, key()...)
		mark()
		out = binary.LittleEndian.AppendUint16(out, uint16(r.Intn(48)))
		mark()
		if kind == 2 || kind == 4 {
			out = append(out, ptr()...)
			mark()
		}
		if kind == 3 || kind == 4 {
			out = append(out, ptr()...)
			mark()
		}
		if r.Chance(50) {
			out = append(out, key()...)
			mark()
			out = append(out, r.Bytes(r.Intn(10))...)
		}
	}
	mark()
	return out, cuts
}

// ---------- message codec frame ----------
type countingReader struct {
	r *bytes.Reader
}

func (c *countingReader) Read(p []byte) (int, error)  { return c.r.Read(p) }
func (c *countingReader) Write(p []byte) (int, error) { return len(p), nil }

func runFrameCase(c Case) (o outcome) {
	stream := unhex(c.Data)
	rd := &countingReader{bytes.NewReader(stream)}
	codec := cbor.NewMessageCodec(rd, "verif")
	var msg protocol.Message
	var err error
	g := guarded(func() { err = codec.Read(&msg) })
	// oracle: outcome of the CBOR item decoder on the frame body
	dec := "None"
	var length uint32
	if len(stream) >= 4 {
		length = binary.BigEndian.Uint32(stream)
	}
	var ot string
	switch {
	case g.panicked:
		ot, o.class = "ONum Panic", "panic"
	case err == nil:
		dec, ot, o.class, o.ok = "(Some 0)", fmt.Sprintf("ONum (Ok %d)", length), "ok", true
	case err.Error() == "codec: message too large":
		ot, o.class = "ONum (Err 89)", "err89"
	case err.Error() == "codec: message is malformed":
		dec, ot, o.class = "(Some 1)", "ONum (Err 65)", "err65"
	case len(stream) < 4 && (err == io.EOF || err == io.ErrUnexpectedEOF):
		ot, o.class = "ONum (Err 88)", "err88"
	default:
		ot, o.class = "ONum (Err 64)", "err64"
	}
	o.g = g
	o.term = fmt.Sprintf("(CFrame %s %s, %s)", cb(stream), dec, ot)
	if v := g.violation(); v != "" {
		o.violation = "frame: " + v
	}
	return o
}

func genFrame(r *prng.R) []byte {
	body := cbor.Marshal(&protocol.Message{ID: r.U64() % 100, MessageType: protocol.MessageRequest, Body: protocol.Body{Empty: &protocol.Empty{}}})
	if r.Chance(30) {
		var b []byte
		genCborValue(r, 2, &b)
		body = b
	}
	out := binary.BigEndian.AppendUint32(nil, uint32(len(body)))
	out = append(out, body...)
	switch r.Intn(10) {
	case 0:
		out = out[:r.Intn(len(out)+1)]
	case 1:
		binary.BigEndian.PutUint32(out, interesting32[r.Intn(len(interesting32))])
	case 2:
		binary.BigEndian.PutUint32(out, uint32(len(body)+1+r.Intn(3)))
		out = append(out, r.Bytes(4)...)
	case 3:
		binary.BigEndian.PutUint32(out, uint32(max(0, len(body)-1-r.Intn(2))))
	case 4:
		binary.BigEndian.PutUint32(out, 64<<20+uint32(r.Intn(2)))
	case 5:
		out, _ = mutate(r, out)
	}
	return out
}

// ---------- enum UnmarshalText ----------
type enumSpec struct {
	name  string
	table [][2]any // name, value
	fn    func([]byte) (uint64, error)
}

var enumSpecs []enumSpec

func enumInit() {
	if enumSpecs != nil {
		return
	}
	add := func(name string, marshal func(v uint64) (string, bool), un func([]byte) (uint64, error)) {
		sp := enumSpec{name: name, fn: un}
		for v := uint64(0); v < 40; v++ {
			if s, ok := marshal(v); ok {
				// keep only names that map back to this value (tables are the inverse of MarshalText)
				if back, err := un([]byte(s)); err == nil && back == v {
					sp.table = append(sp.table, [2]any{s, v})
				}
			}
		}
		enumSpecs = append(enumSpecs, sp)
	}
	add("signature.SignerRole", func(v uint64) (string, bool) { b, err := signature.SignerRole(v).MarshalText(); return string(b), err == nil },
		func(t []byte) (uint64, error) { var x signature.SignerRole; err := x.UnmarshalText(t); return uint64(x), err })
	add("staking.ThresholdKind", func(v uint64) (string, bool) { b, err := staking.ThresholdKind(v).MarshalText(); return string(b), err == nil },
		func(t []byte) (uint64, error) { var x staking.ThresholdKind; err := x.UnmarshalText(t); return uint64(x), err })
	add("staking.SlashReason", func(v uint64) (string, bool) { b, err := staking.SlashReason(v).MarshalText(); return string(b), err == nil },
		func(t []byte) (uint64, error) { var x staking.SlashReason; err := x.UnmarshalText(t); return uint64(x), err })
	add("scheduler.Role", func(v uint64) (string, bool) { b, err := scheduler.Role(v).MarshalText(); return string(b), err == nil },
		func(t []byte) (uint64, error) { var x scheduler.Role; err := x.UnmarshalText(t); return uint64(x), err })
	add("scheduler.CommitteeKind", func(v uint64) (string, bool) { b, err := scheduler.CommitteeKind(v).MarshalText(); return string(b), err == nil },
		func(t []byte) (uint64, error) { var x scheduler.CommitteeKind; err := x.UnmarshalText(t); return uint64(x), err })
	add("governance.Vote", func(v uint64) (string, bool) { b, err := governance.Vote(v).MarshalText(); return string(b), err == nil },
		func(t []byte) (uint64, error) { var x governance.Vote; err := x.UnmarshalText(t); return uint64(x), err })
	add("governance.ProposalState", func(v uint64) (string, bool) { b, err := governance.ProposalState(v).MarshalText(); return string(b), err == nil },
		func(t []byte) (uint64, error) { var x governance.ProposalState; err := x.UnmarshalText(t); return uint64(x), err })
	add("pcs.TCBStatus", func(v uint64) (string, bool) { x := pcs.TCBStatus(v); b, err := x.MarshalText(); return string(b), err == nil },
		func(t []byte) (uint64, error) { var x pcs.TCBStatus; err := x.UnmarshalText(t); return uint64(x), err })
}

func runEnumCase(c Case) (o outcome) {
	enumInit()
	sp := enumSpecs[c.Fmt]
	text := unhex(c.Data)
	var v uint64
	var err error
	g := guarded(func() { v, err = sp.fn(text) })
	items := make([]string, len(sp.table))
	for i, e := range sp.table {
		items[i] = fmt.Sprintf("(%s, %d)", cb([]byte(e[0].(string))), e[1].(uint64))
	}
	var ot string
	switch {
	case g.panicked:
		ot, o.class = "ONum Panic", "panic"
	case err != nil:
		ot, o.class = "ONum (Err 66)", "err66"
	default:
		ot, o.class, o.ok = fmt.Sprintf("ONum (Ok %d)", v), "ok", true
	}
	o.g = g
	o.term = fmt.Sprintf("(CEnum [%s] %s, %s)", strings.Join(items, "; "), cb(text), ot)
	if vv := g.violation(); vv != "" {
		o.violation = "enum text: " + vv
	}
	return o
}

// ---------- sigstruct ----------
func runSigstructCase(c Case) (o outcome) {
	data := unhex(c.Data)
	var err error
	g := guarded(func() { _, _, err = sigstruct.Verify(data) })
	var ot string
	switch {
	case g.panicked:
		ot, o.class = "OClass Panic", "panic"
	case err != nil && strings.Contains(err.Error(), "buffer is not"):
		ot, o.class = "OClass (Err 1)", "length-rejected"
	default:
		ot, o.class, o.ok = "OClass (Ok tt)", "length-accepted", true
	}
	o.g = g
	o.term = "(CSigstruct " + cb(data) + ", " + ot + ")"
	if v := g.violation(); v != "" {
		o.violation = "sigstruct: " + v
	}
	return o
}

// ---------- generation ----------
func genMoreCase(r *prng.R) Case {
	switch r.Intn(11) {
	case 0, 1:
		fi := r.Intn(len(hexKinds))
		return Case{Kind: "hex", Fmt: fi, Data: hex.EncodeToString(genTextBytes(r, hexKinds[fi].size, hexKinds[fi].kind, true))}
	case 2, 3:
		fi := r.Intn(len(textKinds))
		return Case{Kind: "text", Fmt: fi, Data: hex.EncodeToString(genTextBytes(r, textKinds[fi].size, textKinds[fi].kind, textKinds[fi].mode == 1 && r.Chance(60)))}
	case 4:
		m := r.Intn(2)
		return Case{Kind: "encid", Mode: m, Data: hex.EncodeToString(genTextBytes(r, 64, 0, m == 0))}
	case 5:
		return Case{Kind: "akid", Data: hex.EncodeToString(genAkid(r))}
	case 6:
		return Case{Kind: "qemasks", Data: hex.EncodeToString(genQeMasks(r))}
	case 7:
		return Case{Kind: "quantity", Data: hex.EncodeToString(r.Bytes(r.Intn(40)))}
	case 8:
		b, cuts := genPbNode(r)
		origin := "valid"
		switch r.Intn(5) {
		case 0:
			cut := cuts[r.Intn(len(cuts))] + r.Intn(3) - 1
			b = b[:min(max(cut, 0), len(b))]
			origin = "trunc"
		case 1:
			b, _ = mutate(r, b)
			origin = "mut"
		case 2:
			if len(b) > 0 {
				b[0] = byte(r.Intn(7))
			}
			origin = "kind"
		}
		return Case{Kind: "pbnode", Data: hex.EncodeToString(b), Origin: origin}
	case 9:
		return Case{Kind: "frame", Data: hex.EncodeToString(genFrame(r))}
	default:
		if r.Chance(15) {
			n := 1808 + []int{0, 0, -1, 1, -1808}[r.Intn(5)]
			return Case{Kind: "sigstruct", Data: hex.EncodeToString(r.Bytes(n))}
		}
		enumInit()
		fi := r.Intn(len(enumSpecs))
		sp := enumSpecs[fi]
		var t []byte
		if len(sp.table) > 0 && r.Chance(70) {
			t = []byte(sp.table[r.Intn(len(sp.table))][0].(string))
			switch r.Intn(6) {
			case 0:
				t = []byte(strings.ToUpper(string(t)))
			case 1:
				t = append(t, ' ')
			case 2:
				if len(t) > 0 {
					t = t[:len(t)-1]
				}
			}
		} else {
			t = r.Bytes(r.Intn(8))
		}
		return Case{Kind: "enum", Fmt: fi, Data: hex.EncodeToString(t)}
	}
}

// every prefix of one small valid pathbadger node of each kind, and every hex string prefix
func morePrefixCases(r *prng.R) []Case {
	var out []Case
	for i := 0; i < 3; i++ {
		b, _ := genPbNode(r)
		if len(b) > 120 {
			continue
		}
		for cut := 0; cut <= len(b); cut++ {
			out = append(out, Case{Kind: "pbnode", Data: hex.EncodeToString(b[:cut]), Origin: "prefix"})
		}
	}
	t := []byte(hex.EncodeToString(r.Bytes(32)))
	for cut := 0; cut <= len(t); cut += 3 {
		out = append(out, Case{Kind: "hex", Fmt: 0, Data: hex.EncodeToString(t[:cut]), Origin: "prefix"})
	}
	return out
}

// boundaryCases: DETERMINISTIC exact-boundary truncations of the other length-prefixed
// decoders (independent of the run's seed): every prefix of a valid key of every key format,
// every prefix of every entry of a small version-1 proof, every prefix of a message frame.
func boundaryCases() []Case {
	var out []Case
	r := prng.New(0xb0d)
	for fi, sp := range kfSpecs {
		b := []byte{sp.prefix}
		for _, sz := range sp.sizes {
			if sz < 0 {
				sz = 3
			}
			b = append(b, r.Bytes(sz)...)
		}
		if fi == 2 {
			copy(b[9:17], []byte{0x80, 0, 0, 0, 0, 0, 0, 0})
		}
		for cut := 0; cut <= len(b); cut++ {
			for _, nv := range []int{len(sp.sizes), len(sp.sizes) / 2} {
				out = append(out, Case{Kind: "keyformat", Fmt: fi, NVals: nv, Data: hex.EncodeToString(b[:cut]), Origin: "boundary"})
			}
		}
	}
	// a small version-1 proof: internal node (leaf, left = hash, right = nil); each entry cut at every length
	leaf := &node.LeafNode{Key: r.Bytes(2), Value: r.Bytes(3)}
	lb, _ := leaf.CompactMarshalBinaryV1()
	in := &node.InternalNode{LabelBitLength: 12, Label: r.Bytes(2), Clean: true}
	ib, _ := in.CompactMarshalBinaryV1()
	es := [][]byte{append([]byte{1}, ib...), append([]byte{1}, lb...), append([]byte{2}, r.Bytes(32)...), nil}
	for i, e := range es {
		for cut := 0; cut < len(e); cut++ {
			mod := make([][]byte, len(es))
			copy(mod, es)
			mod[i] = e[:cut]
			for _, k := range []string{"walk", "proof"} {
				out = append(out, Case{Kind: k, V: 1, Entries: hexEntries(mod), Origin: "boundary"})
			}
		}
	}
	body := cbor.Marshal(&protocol.Message{ID: 1, MessageType: protocol.MessageRequest, Body: protocol.Body{Empty: &protocol.Empty{}}})
	fr := append(binary.BigEndian.AppendUint32(nil, uint32(len(body))), body...)
	for cut := 0; cut <= len(fr); cut++ {
		out = append(out, Case{Kind: "frame", Data: hex.EncodeToString(fr[:cut]), Origin: "boundary"})
	}
	for _, d := range []int{-1, 1} { // declared length one off
		f2 := append([]byte{}, fr...)
		binary.BigEndian.PutUint32(f2, uint32(len(body)+d))
		out = append(out, Case{Kind: "frame", Data: hex.EncodeToString(f2), Origin: "boundary"})
	}
	return out
}
