package main

import (
	"context"
	"encoding/binary"
	"fmt"
	"io"
	"net"
	"runtime"
	"strings"
	"sync"
	"time"

	"github.com/oasisprotocol/oasis-core/go/common/cbor"
	"github.com/oasisprotocol/oasis-core/go/runtime/host/protocol"

	"verifharness/internal/coqout"
	"verifharness/internal/prng"
)

// connOp is one step of a scripted session with the REAL protocol.Connection
// (guest side: same handleMessage / workerIncoming / call code as the host
// side, without the handshake) over net.Pipe, the harness playing an
// adversarial peer.
type connOp struct {
	Op   string `json:"op"` // call | resp | req | other | bad | close | stall | unstall (the peer stops / resumes reading after the next frame header: calls stay registered but unsent)
	ID   uint64 `json:"id,omitempty"`
	N    int    `json:"n,omitempty"`    // resp: number of copies
	Kind string `json:"kind,omitempty"` // bad: trunc | oversize | garbage
}

type connObs struct {
	calls        []bool // per Call(): did it return a response
	closeReturns bool
	leaked       int
	note         string
}

func connCoq(ops []connOp) string {
	var evs []string
	for _, o := range ops {
		switch o.Op {
		case "call":
			evs = append(evs, "Conn.ECall")
		case "resp":
			for i := 0; i < o.N; i++ {
				evs = append(evs, fmt.Sprintf("Conn.EFrame (Conn.IResponse %d)", o.ID))
			}
		case "req":
			evs = append(evs, fmt.Sprintf("Conn.EFrame (Conn.IRequest %d)", o.ID))
		case "other":
			evs = append(evs, "Conn.EFrame Conn.IOther")
		case "bad":
			evs = append(evs, "Conn.EFrame Conn.IMalformed")
		case "close":
			evs = append(evs, "Conn.EClose")
		}
	}
	return "[" + strings.Join(evs, "; ") + "]"
}

// runConnScript plays the script once.  budget is the watchdog for Close()
// and for a Call that must return.
type callRec struct {
	done chan struct{}
	ok   bool
}

func runConnScript(ops []connOp, budget time.Duration) (obs connObs) {
	g0 := runtime.NumGoroutine()
	ours, theirs := net.Pipe()
	conn, err := protocol.NewConnection(xtrConnLogger, xtrRuntimeID, xtrHandler{})
	if err != nil {
		panic(err)
	}
	if err = conn.InitGuest(theirs); err != nil {
		panic(err)
	}
	peer := cbor.NewMessageCodec(ours, "verif-peer")
	// drain what the connection writes (requests of its calls, responses to our requests)
	seenReq := make(chan uint64, 1024)
	var drainWg sync.WaitGroup
	drainWg.Add(1)
	var gateMu sync.Mutex
	gate := sync.NewCond(&gateMu)
	stalled := false
	go func() {
		defer drainWg.Done()
		for {
			var hdr [4]byte
			if _, err := io.ReadFull(ours, hdr[:]); err != nil {
				return
			}
			gateMu.Lock()
			for stalled { // an uncooperative peer: it has read the length prefix only
				gate.Wait()
			}
			gateMu.Unlock()
			body := make([]byte, binary.BigEndian.Uint32(hdr[:]))
			if _, err := io.ReadFull(ours, body); err != nil {
				return
			}
			var m protocol.Message
			if cbor.Unmarshal(body, &m) == nil && m.MessageType == protocol.MessageRequest {
				seenReq <- m.ID
			}
		}
	}()
	setStall := func(v bool) {
		gateMu.Lock()
		stalled = v
		gateMu.Unlock()
		gate.Broadcast()
	}
	defer setStall(false)
	var answered []*callRec // calls whose response was written while the peer was stalled
	var wmu sync.Mutex
	write := func(m *protocol.Message) {
		wmu.Lock()
		defer wmu.Unlock()
		_ = ours.SetWriteDeadline(time.Now().Add(200 * time.Millisecond))
		_ = peer.Write(m)
	}
	raw := func(b []byte) {
		wmu.Lock()
		defer wmu.Unlock()
		_ = ours.SetWriteDeadline(time.Now().Add(200 * time.Millisecond))
		_, _ = ours.Write(b)
	}
	settle := func() { time.Sleep(8 * time.Millisecond) }

	var calls []*callRec
	pending := map[uint64]*callRec{} // the harness' own view, only used to wait for deliveries
	var nextID uint64
	closedByError, closeCalled, isStalled := false, false, false
	obs.closeReturns = true

	for _, o := range ops {
		switch o.Op {
		case "call":
			rec := &callRec{done: make(chan struct{})}
			calls = append(calls, rec)
			id := nextID
			if !closeCalled {
				nextID++ // Call after Close() returns ErrNotReady without taking an id
			}
			go func() {
				ctx, cancel := context.WithTimeout(context.Background(), 4*budget)
				defer cancel()
				_, cerr := conn.Call(ctx, &protocol.Body{Empty: &protocol.Empty{}})
				rec.ok = cerr == nil
				close(rec.done)
			}()
			if closedByError || closeCalled {
				select {
				case <-rec.done:
				case <-time.After(budget):
					obs.note = "a Call on a closed connection did not return"
				}
			} else if isStalled {
				pending[id] = rec
				time.Sleep(30 * time.Millisecond) // registered in pendingRequests, blocked in sendMessage
			} else {
				pending[id] = rec
				// wait until the request with THIS id has reached the peer (requests of calls
				// made while the peer was stalled arrive late and are skipped)
				deadline := time.After(budget)
				for got := false; !got; {
					select {
					case sid := <-seenReq:
						got = sid == id
					case <-deadline:
						obs.note = "the request of a Call never reached the peer"
						got = true
					}
				}
			}
		case "resp":
			for i := 0; i < o.N; i++ {
				write(&protocol.Message{ID: o.ID, MessageType: protocol.MessageResponse, Body: protocol.Body{Empty: &protocol.Empty{}}})
			}
			if rec, ok := pending[o.ID]; ok && !closedByError && !closeCalled && o.N > 0 && isStalled {
				delete(pending, o.ID)
				answered = append(answered, rec) // its caller cannot have read it yet
			} else if ok && !closedByError && !closeCalled && o.N > 0 {
				delete(pending, o.ID)
				select { // the response must be delivered: wait for the call to return
				case <-rec.done:
				case <-time.After(budget):
					obs.note = fmt.Sprintf("response for pending id %d was not delivered", o.ID)
				}
			}
			settle()
		case "req":
			write(&protocol.Message{ID: o.ID, MessageType: protocol.MessageRequest, Body: protocol.Body{Empty: &protocol.Empty{}}})
			settle()
		case "other":
			write(&protocol.Message{ID: o.ID, MessageType: protocol.MessageType(7), Body: protocol.Body{Empty: &protocol.Empty{}}})
			settle()
		case "bad":
			if isStalled { // the peer resumes reading before it misbehaves (see "close")
				setStall(false)
				isStalled = false
				for _, rec := range answered {
					select {
					case <-rec.done:
					case <-time.After(budget):
						obs.note = "a call answered while its request was unsent did not return"
					}
				}
				answered = nil
			}
			switch o.Kind {
			case "oversize":
				raw(binary.BigEndian.AppendUint32(nil, 0xffffffff))
			case "garbage":
				raw([]byte{0, 0, 0, 3, 0xff, 0xff, 0xff})
			default: // truncated frame: the peer goes away in the middle of it
				raw([]byte{0, 0, 0, 10, 0xa1, 0x62})
				_ = ours.Close()
			}
			closedByError = true
			pending = map[uint64]*callRec{}
			settle()
			settle()
		case "stall":
			setStall(true)
			isStalled = true
		case "unstall":
			setStall(false)
			isStalled = false
			for _, rec := range answered {
				select {
				case <-rec.done:
				case <-time.After(budget):
					obs.note = "a call answered while its request was unsent did not return"
				}
			}
			answered = nil
			settle()
		case "close":
			// a peer that resumes reading first: calls that were answered while their request was
			// unsent complete before Close (otherwise call() may legitimately return "connection
			// closed" from sendMessage although its response is already buffered)
			setStall(false)
			isStalled = false
			for _, rec := range answered {
				select {
				case <-rec.done:
				case <-time.After(budget):
					obs.note = "a call answered while its request was unsent did not return"
				}
			}
			answered = nil
			done := make(chan struct{})
			go func() { conn.Close(); close(done) }()
			select {
			case <-done:
			case <-time.After(budget):
				obs.closeReturns = false
			}
			closeCalled = true
			pending = map[uint64]*callRec{}
		}
	}
	_ = ours.Close()
	for _, rec := range calls {
		select {
		case <-rec.done:
			obs.calls = append(obs.calls, rec.ok)
		case <-time.After(budget):
			obs.calls = append(obs.calls, false)
			obs.note = "a Call did not return after Close"
		}
	}
	drainWg.Wait()
	// leak oracle with a settle loop
	for i := 0; i < 100; i++ {
		if obs.leaked = runtime.NumGoroutine() - g0; obs.leaked <= 0 {
			break
		}
		time.Sleep(10 * time.Millisecond)
	}
	return obs
}

func connScripts(r *prng.R, n int) [][]connOp {
	c := connOp{Op: "call"}
	cl := connOp{Op: "close"}
	resp := func(id uint64, n int) connOp { return connOp{Op: "resp", ID: id, N: n} }
	req := func(id uint64) connOp { return connOp{Op: "req", ID: id} }
	bad := func(k string) connOp { return connOp{Op: "bad", Kind: k} }
	scripts := [][]connOp{
		{c, resp(0, 1), cl},
		{c, resp(0, 2), cl},
		{c, resp(0, 3), cl}, // three copies for one pending id
		{c, resp(0, 10), cl},
		{c, c, resp(1, 3), resp(0, 3), cl}, // two concurrent calls, duplicates for both
		{c, c, resp(0, 1), req(5), resp(0, 2), resp(1, 1), resp(1, 10), cl},
		{resp(0, 3), c, cl},              // responses before the request was written
		{resp(0, 1), c, resp(0, 2), cl},  // ... then real ones
		{c, resp(7, 3), resp(1, 10), cl}, // ids never issued
		{c, resp(0, 1), c, resp(0, 3), resp(1, 1), cl},
		{req(1), req(2), c, connOp{Op: "other", ID: 0}, resp(0, 3), req(3), cl},
		{c, bad("oversize"), c, cl},
		{c, bad("garbage"), resp(0, 3), cl},
		{c, c, resp(0, 2), bad("trunc"), c, cl},
		{cl, c},
		// the peer reads only the length prefix of A: B is registered but unsent when its responses arrive
		{connOp{Op: "stall"}, c, c, resp(1, 3), connOp{Op: "unstall"}, resp(0, 1), cl},
		{connOp{Op: "stall"}, c, c, c, resp(2, 10), resp(1, 2), connOp{Op: "unstall"}, resp(0, 3), cl},
		{c, resp(0, 1), connOp{Op: "stall"}, c, c, resp(2, 3), resp(1, 3), resp(7, 2), connOp{Op: "unstall"}, req(4), cl},
		{c, cl, resp(0, 3), c},
	}
	for i := 0; i < n; i++ {
		var s []connOp
		issued, closed := uint64(0), false
		stall := r.Chance(30)
		if stall {
			s = append(s, connOp{Op: "stall"})
		}
		for k := 0; k < 3+r.Intn(8); k++ {
			if stall && k == 4 {
				s = append(s, connOp{Op: "unstall"})
				stall = false
			}
			switch x := r.Intn(100); {
			case x < 25 && issued < 4:
				s = append(s, c)
				issued++
			case x < 65:
				id := uint64(r.Intn(int(issued) + 2))
				s = append(s, resp(id, []int{1, 2, 3, 3, 10}[r.Intn(5)]))
			case x < 80:
				s = append(s, req(uint64(r.Intn(50))))
			case x < 88:
				s = append(s, connOp{Op: "other", ID: uint64(r.Intn(5))})
			case x < 94 && !closed:
				s = append(s, bad([]string{"trunc", "oversize", "garbage"}[r.Intn(3)]))
				closed = true
			}
		}
		scripts = append(scripts, append(s, cl))
	}
	return scripts
}

// runConn is the correspondence + hang/leak oracle stream for the connection state machine.
func runConn(seed uint64, n int, out string, rc *Case) {
	hdr := "From Verif Require Import Lib.Base Decode.GoSlice Decode.Node Decode.ProofEntries Decode.Quote Decode.KeyFormat Decode.Misc Decode.Cbor Decode.More Decode.StreamDepth Decode.Cases.\nFrom Verif Require Decode.Conn.\n"
	wb := coqout.NewWriter(out, hdr, "run_case", "cout_eqb", 100)
	sum := coqout.NewSummary("scripted sessions with the real protocol.Connection (guest side) over net.Pipe against an adversarial peer: 1/2/3/10 copies of a response for pending, already answered, not yet issued and never issued ids, two concurrent Call()s, peer requests and unknown message types interleaved, truncated frame / oversize prefix / garbage CBOR, Call after close, then Close() under a watchdog; observables = which calls got a response, whether Close returned, goroutines leaked (settle loop); a timeout is confirmed by 3 re-runs with a doubled budget. distinct = scripts; non-trivial = scripts in which at least one call got a response")
	var scripts [][]connOp
	if rc != nil {
		scripts = [][]connOp{rc.Script}
	} else {
		scripts = connScripts(prng.New(seed^0xc011), n)
	}
	const budget = 1500 * time.Millisecond
	for _, ops := range scripts {
		obs := runConnScript(ops, budget)
		if !obs.closeReturns || obs.leaked > 0 || obs.note != "" {
			// confirm: three more runs with a doubled budget must all fail the same way
			confirmed := true
			for i := 0; i < 3 && confirmed; i++ {
				o2 := runConnScript(ops, 2*budget)
				if o2.closeReturns && o2.leaked <= 0 && o2.note == "" {
					confirmed, obs = false, o2
				}
			}
		}
		sum.Evaluations++
		got := false
		items := make([]string, len(obs.calls))
		for i, b := range obs.calls {
			items[i] = fmt.Sprint(b)
			got = got || b
		}
		if got {
			sum.DistinctNontrivial++
		}
		cs := Case{Kind: "conn", Script: ops}
		wb.Add(fmt.Sprintf("(CConn %s, OConn [%s] %v)", connCoq(ops), strings.Join(items, "; "), obs.closeReturns), map[string]any{"case": cs})
		for _, o := range ops {
			sum.Count("conn-op", o.Op)
			if o.Op == "resp" {
				sum.Count("conn-resp-copies", fmt.Sprint(o.N))
			}
		}
		switch {
		case !obs.closeReturns:
			sum.Violations = append(sum.Violations, map[string]any{"what": fmt.Sprintf("conn: HANG: Connection.Close() did not return within %v (confirmed by 3 re-runs with a doubled budget); %d goroutines leaked; frame sequence in the case", 2*budget, obs.leaked), "case": cs})
		case obs.note != "":
			sum.Violations = append(sum.Violations, map[string]any{"what": "conn: HANG: " + obs.note, "case": cs})
		case obs.leaked > 0:
			sum.Violations = append(sum.Violations, map[string]any{"what": fmt.Sprintf("conn: %d goroutines leaked after Close()", obs.leaked), "case": cs})
		}
	}
	sum.Extra["label"] = "state machine modelled (Decode/Conn.v); the goroutine scheduling of the real connection is not: observables are compared after each step has settled"
	wb.Close()
	sum.Write(out)
}
