package main

// Structure-aware JSON mutator.  Mutants stay syntactically valid (except for
// the explicit "syntax:" family, 5% of calls) so that they pass the syntax
// layer of encoding/json and reach the semantic decoders behind it (PCS TCB
// info / QE identity, IAS AVR).
//
// The document is held in an ORDERED representation (objects are slices of
// (key, value) pairs) so key order, duplicated keys and alternative spellings
// of the same key/string ("tcbInfo") can be expressed.
//
// Names: every applied mutation has a name "<family>:<variant>", families are
// num, str, type, obj, arr, nest, doc, syntax.  The name returned by
// jsonMutate is the "+"-joined list; jmIsSyntax(name) tells whether the
// output may be syntactically invalid.

import (
	"bytes"
	"encoding/json"
	"io"
	"math/big"
	"strings"
	"time"
	"unicode/utf16"
	"unicode/utf8"

	"verifharness/internal/prng"
)

// jmMaxOut is the strict upper bound of the size of a mutant.
const jmMaxOut = 4 << 20

// jmMaxDepth is the nesting limit of encoding/json (containers only).
const jmMaxDepth = 10000

// jmBudget is what the "big" mutations (repeat, long strings, deep nesting)
// aim for, leaving head room for the rest of the document.
const jmBudget = 3 << 20

type jmKind uint8

const (
	jmNull jmKind = iota
	jmBool
	jmNum
	jmStr
	jmArr
	jmObj
	jmWrap // inner wrapped in depth levels of arrays/objects (kept symbolic)
)

type jmNode struct {
	kind jmKind
	b    bool
	num  string // jmNum: the literal
	str  string // jmStr: the decoded value
	raw  string // jmStr: if non-empty, the literal to emit (with quotes)
	arr  []*jmNode
	obj  []jmField
	// jmWrap
	depth int
	mode  int // 0 arrays, 1 objects, 2 alternating
	inner *jmNode
}

type jmField struct {
	key    string
	rawKey string // if non-empty, the literal to emit (with quotes)
	val    *jmNode
}

// jmSlot designates a place in the tree holding a value: the root, an array
// element or an object field.
type jmSlot struct {
	parent *jmNode // nil: root
	idx    int
	key    string // if parent is an object
	depth  int
}

type jmDoc struct {
	root *jmNode
	big  bool // a size-inflating mutation was applied: stop mutating
	deep bool // a nest-limit mutation was applied: the depth limit may be exceeded
}

var jmInteresting = func() map[string]bool {
	m := map[string]bool{}
	for _, k := range []string{
		"version", "id", "issueDate", "nextUpdate", "tcbEvaluationDataNumber", "tcbType", "fmspc", "pceId",
		"tcbLevels", "tcb", "sgxtcbcomponents", "tdxtcbcomponents", "pcesvn", "svn", "tcbDate", "tcbStatus",
		"advisoryIDs", "tdxModule", "tdxModuleIdentities", "mrsigner", "attributes", "attributesMask",
		"miscselect", "miscselectMask", "isvprodid", "signature", "tcbInfo", "enclaveIdentity",
		"isvEnclaveQuoteStatus", "isvEnclaveQuoteBody", "timestamp", "nonce", "advisoryURL", "platformInfoBlob",
		"revocationReason", "pseManifestStatus", "epidPseudonym",
	} {
		m[strings.ToLower(k)] = true
	}
	return m
}()

// jmIsSyntax tells whether a mutant with this name may be invalid JSON.
func jmIsSyntax(name string) bool { return strings.Contains(name, "syntax:") }

// jsonMutate parses seed as JSON (key order and duplicated keys preserved),
// applies 1-3 structural mutations chosen with r, and re-serialises (compact
// form).  ok=false if seed is not valid JSON.  The output is always
// accepted by json.Valid and shorter than 4 MiB, unless jmIsSyntax(name): the
// explicit syntax-breaking family (5% of calls; the result is usually, not
// always, invalid) and the rare "syntax:over-depth" marker (nesting of 10001
// containers: valid grammar, but over the depth limit of encoding/json).
func jsonMutate(r *prng.R, seed []byte) (out []byte, name string, ok bool) {
	root, ok := jmParse(seed)
	if !ok {
		return nil, "", false
	}
	d := &jmDoc{root: root}
	var names []string

	syntax := r.Chance(5)
	switch {
	case !syntax && r.Chance(2):
		names = append(names, jmWholeDoc(r, d))
	default:
		n := r.Range(1, 3)
		if syntax {
			n = r.Range(0, 1)
		}
		for i := 0; i < n && !d.big; i++ {
			names = append(names, jmMutateOnce(r, d))
		}
	}
	if d.deep && jmHeight(d.root) > jmMaxDepth {
		// Grammatically valid, but rejected by the scanner of encoding/json
		// (and so by json.Valid): flagged like the syntax family.
		names = append(names, "syntax:over-depth")
	}
	out = jmSerialize(d.root)
	if len(out) >= jmMaxOut {
		// Cannot happen for seeds well below the budget; keep the contract anyway.
		root, _ = jmParse(seed)
		out = jmSerialize(root)
		names = []string{"capped"}
	}
	if syntax {
		var sn string
		out, sn = jmSyntax(r, out)
		names = append(names, sn)
	}
	return out, strings.Join(names, "+"), true
}

// jsonInner returns the raw bytes of the value of top-level key `key` exactly
// as they appear in doc.  Like encoding/json decoding into a struct field it
// matches the key case-insensitively and the LAST occurrence wins.
func jsonInner(doc []byte, key string) (inner []byte, ok bool) {
	s, e, _, ok := jmFindInner(doc, key)
	if !ok {
		return nil, false
	}
	return doc[s:e:e], true
}

// jsonReplaceInner rebuilds doc with the value of top-level key `key` (same
// matching as jsonInner) replaced by inner.  It is a byte splice: inner is
// inserted verbatim (signatures cover its raw bytes) and every other byte of
// doc is preserved, so a compact doc stays compact.  If the key is absent it
// is appended; if doc is not a JSON object the result is {"key":inner}.
func jsonReplaceInner(doc []byte, key string, inner []byte) []byte {
	s, e, end, ok := jmFindInner(doc, key)
	var out []byte
	switch {
	case ok:
		out = append(out, doc[:s]...)
		out = append(out, inner...)
		out = append(out, doc[e:]...)
	case end > 0:
		// Object without the key: insert before the closing brace.
		out = append(out, doc[:end]...)
		if len(bytes.TrimSpace(doc[:end])) > 1 {
			out = append(out, ',')
		}
		out = jmAppendString(out, key)
		out = append(out, ':')
		out = append(out, inner...)
		out = append(out, doc[end:]...)
	default:
		out = append(out, '{')
		out = jmAppendString(out, key)
		out = append(out, ':')
		out = append(out, inner...)
		out = append(out, '}')
	}
	return out
}

// jmFindInner locates the span [s,e) of the value of the last top-level key
// matching key; end is the offset of the closing brace of the top-level
// object (0 if doc is not a well-formed object).
func jmFindInner(doc []byte, key string) (s, e, end int, ok bool) {
	dec := json.NewDecoder(bytes.NewReader(doc))
	dec.UseNumber()
	t, err := dec.Token()
	if err != nil {
		return 0, 0, 0, false
	}
	if dl, isDelim := t.(json.Delim); !isDelim || dl != '{' {
		return 0, 0, 0, false
	}
	for dec.More() {
		kt, err := dec.Token()
		if err != nil {
			return 0, 0, 0, false
		}
		k, _ := kt.(string)
		var raw json.RawMessage
		if err := dec.Decode(&raw); err != nil {
			return 0, 0, 0, false
		}
		if k == key || strings.EqualFold(k, key) {
			e = int(dec.InputOffset())
			s = e - len(raw)
			ok = true
		}
	}
	if _, err := dec.Token(); err != nil {
		return 0, 0, 0, false
	}
	end = int(dec.InputOffset()) - 1
	return s, e, end, ok
}

// ---------------------------------------------------------------------------
// Parsing / serialisation.

func jmParse(seed []byte) (*jmNode, bool) {
	if !json.Valid(seed) {
		return nil, false
	}
	dec := json.NewDecoder(bytes.NewReader(seed))
	dec.UseNumber()
	n, ok := jmParseValue(dec)
	if !ok {
		return nil, false
	}
	if _, err := dec.Token(); err != io.EOF {
		return nil, false
	}
	return n, true
}

func jmParseValue(dec *json.Decoder) (*jmNode, bool) {
	t, err := dec.Token()
	if err != nil {
		return nil, false
	}
	return jmParseFrom(dec, t)
}

func jmParseFrom(dec *json.Decoder, t json.Token) (*jmNode, bool) {
	switch v := t.(type) {
	case nil:
		return &jmNode{kind: jmNull}, true
	case bool:
		return &jmNode{kind: jmBool, b: v}, true
	case json.Number:
		return &jmNode{kind: jmNum, num: string(v)}, true
	case string:
		return &jmNode{kind: jmStr, str: v}, true
	case json.Delim:
		switch v {
		case '[':
			n := &jmNode{kind: jmArr}
			for dec.More() {
				c, ok := jmParseValue(dec)
				if !ok {
					return nil, false
				}
				n.arr = append(n.arr, c)
			}
			if _, err := dec.Token(); err != nil {
				return nil, false
			}
			return n, true
		case '{':
			n := &jmNode{kind: jmObj}
			for dec.More() {
				kt, err := dec.Token()
				if err != nil {
					return nil, false
				}
				k, isStr := kt.(string)
				if !isStr {
					return nil, false
				}
				c, ok := jmParseValue(dec)
				if !ok {
					return nil, false
				}
				n.obj = append(n.obj, jmField{key: k, val: c})
			}
			if _, err := dec.Token(); err != nil {
				return nil, false
			}
			return n, true
		}
	}
	return nil, false
}

const jmHexDigits = "0123456789abcdef"

// jmAppendString appends s as a JSON string literal.  Invalid UTF-8 is
// replaced by U+FFFD so the result is always valid.
func jmAppendString(b []byte, s string) []byte {
	b = append(b, '"')
	for i := 0; i < len(s); {
		c := s[i]
		if c < utf8.RuneSelf {
			switch {
			case c == '"' || c == '\\':
				b = append(b, '\\', c)
			case c == '\n':
				b = append(b, '\\', 'n')
			case c == '\r':
				b = append(b, '\\', 'r')
			case c == '\t':
				b = append(b, '\\', 't')
			case c < 0x20 || c == 0x7f:
				b = append(b, '\\', 'u', '0', '0', jmHexDigits[c>>4], jmHexDigits[c&15])
			default:
				b = append(b, c)
			}
			i++
			continue
		}
		rn, sz := utf8.DecodeRuneInString(s[i:])
		if rn == utf8.RuneError && sz == 1 {
			b = append(b, `\ufffd`...)
		} else {
			b = append(b, s[i:i+sz]...)
		}
		i += sz
	}
	return append(b, '"')
}

// jmEscapeAll returns the literal of s with every character written as a
// \uXXXX escape (same value, different bytes).
func jmEscapeAll(s string) string {
	var b []byte
	b = append(b, '"')
	for _, rn := range s {
		if rn >= 0x10000 {
			hi, lo := utf16.EncodeRune(rn)
			b = jmAppendU(b, uint16(hi))
			b = jmAppendU(b, uint16(lo))
		} else {
			b = jmAppendU(b, uint16(rn))
		}
	}
	return string(append(b, '"'))
}

// jmEscapeOne returns the literal of s with the character at rune index i
// written as a \uXXXX escape.
func jmEscapeOne(s string, i int) string {
	var b []byte
	j := 0
	for off, rn := range s {
		if j == i && rn < 0x10000 {
			lit := jmAppendString(nil, s[:off])
			b = append(b, lit[:len(lit)-1]...)
			b = jmAppendU(b, uint16(rn))
			rest := jmAppendString(nil, s[off+utf8.RuneLen(rn):])
			b = append(b, rest[1:]...)
			return string(b)
		}
		j++
	}
	return string(jmAppendString(nil, s))
}

func jmAppendU(b []byte, u uint16) []byte {
	return append(b, '\\', 'u', jmHexDigits[u>>12], jmHexDigits[u>>8&15], jmHexDigits[u>>4&15], jmHexDigits[u&15])
}

func jmSerialize(n *jmNode) []byte {
	return jmAppendNode(make([]byte, 0, 1024), n)
}

func jmAppendNode(b []byte, n *jmNode) []byte {
	switch n.kind {
	case jmNull:
		return append(b, "null"...)
	case jmBool:
		if n.b {
			return append(b, "true"...)
		}
		return append(b, "false"...)
	case jmNum:
		return append(b, n.num...)
	case jmStr:
		if n.raw != "" {
			return append(b, n.raw...)
		}
		return jmAppendString(b, n.str)
	case jmArr:
		b = append(b, '[')
		for i, c := range n.arr {
			if i > 0 {
				b = append(b, ',')
			}
			b = jmAppendNode(b, c)
		}
		return append(b, ']')
	case jmObj:
		b = append(b, '{')
		for i, f := range n.obj {
			if i > 0 {
				b = append(b, ',')
			}
			if f.rawKey != "" {
				b = append(b, f.rawKey...)
			} else {
				b = jmAppendString(b, f.key)
			}
			b = append(b, ':')
			b = jmAppendNode(b, f.val)
		}
		return append(b, '}')
	case jmWrap:
		for i := 0; i < n.depth; i++ {
			if jmWrapObj(n.mode, i) {
				b = append(b, `{"a":`...)
			} else {
				b = append(b, '[')
			}
		}
		b = jmAppendNode(b, n.inner)
		for i := n.depth - 1; i >= 0; i-- {
			if jmWrapObj(n.mode, i) {
				b = append(b, '}')
			} else {
				b = append(b, ']')
			}
		}
		return b
	}
	return b
}

func jmWrapObj(mode, level int) bool {
	return mode == 1 || (mode == 2 && level&1 == 1)
}

// jmSize is the serialised size of n.
func jmSize(n *jmNode) int {
	switch n.kind {
	case jmNull:
		return 4
	case jmBool:
		return 5
	case jmNum:
		return len(n.num)
	case jmStr:
		if n.raw != "" {
			return len(n.raw)
		}
		return len(jmAppendString(nil, n.str))
	case jmArr:
		s := 2
		for _, c := range n.arr {
			s += jmSize(c) + 1
		}
		return s
	case jmObj:
		s := 2
		for _, f := range n.obj {
			if f.rawKey != "" {
				s += len(f.rawKey)
			} else {
				s += len(jmAppendString(nil, f.key))
			}
			s += jmSize(f.val) + 2
		}
		return s
	case jmWrap:
		return jmSize(n.inner) + 6*n.depth
	}
	return 0
}

// jmHeight is the number of nested containers in n.
func jmHeight(n *jmNode) int {
	h := 0
	switch n.kind {
	case jmArr:
		for _, c := range n.arr {
			if x := jmHeight(c); x > h {
				h = x
			}
		}
		return h + 1
	case jmObj:
		for _, f := range n.obj {
			if x := jmHeight(f.val); x > h {
				h = x
			}
		}
		return h + 1
	case jmWrap:
		return n.depth + jmHeight(n.inner)
	}
	return 0
}

func jmClone(n *jmNode) *jmNode {
	c := *n
	switch n.kind {
	case jmArr:
		c.arr = make([]*jmNode, len(n.arr))
		for i, e := range n.arr {
			c.arr[i] = jmClone(e)
		}
	case jmObj:
		c.obj = make([]jmField, len(n.obj))
		for i, f := range n.obj {
			c.obj[i] = jmField{key: f.key, rawKey: f.rawKey, val: jmClone(f.val)}
		}
	case jmWrap:
		c.inner = jmClone(n.inner)
	}
	return &c
}

// ---------------------------------------------------------------------------
// Node selection.

const jmMaxSlots = 1 << 14

func jmCollect(d *jmDoc) []jmSlot {
	slots := []jmSlot{{parent: nil}}
	var walk func(n *jmNode, depth int)
	walk = func(n *jmNode, depth int) {
		switch n.kind {
		case jmArr:
			for i, c := range n.arr {
				if len(slots) >= jmMaxSlots {
					return
				}
				slots = append(slots, jmSlot{parent: n, idx: i, depth: depth + 1})
				walk(c, depth+1)
			}
		case jmObj:
			for i, f := range n.obj {
				if len(slots) >= jmMaxSlots {
					return
				}
				slots = append(slots, jmSlot{parent: n, idx: i, key: f.key, depth: depth + 1})
				walk(f.val, depth+1)
			}
		case jmWrap:
			if len(slots) >= jmMaxSlots {
				return
			}
			slots = append(slots, jmSlot{parent: n, depth: depth + n.depth})
			walk(n.inner, depth+n.depth)
		}
	}
	walk(d.root, 0)
	return slots
}

func (d *jmDoc) get(s jmSlot) *jmNode {
	switch {
	case s.parent == nil:
		return d.root
	case s.parent.kind == jmArr:
		return s.parent.arr[s.idx]
	case s.parent.kind == jmObj:
		return s.parent.obj[s.idx].val
	default:
		return s.parent.inner
	}
}

func (d *jmDoc) set(s jmSlot, n *jmNode) {
	switch {
	case s.parent == nil:
		d.root = n
	case s.parent.kind == jmArr:
		s.parent.arr[s.idx] = n
	case s.parent.kind == jmObj:
		s.parent.obj[s.idx].val = n
	default:
		s.parent.inner = n
	}
}

// jmPick picks a slot uniformly over all nodes, with a 30% bias towards the
// nodes whose key is in the interesting list.
func jmPick(r *prng.R, d *jmDoc) jmSlot {
	slots := jmCollect(d)
	if r.Chance(30) {
		var hot []int
		for i, s := range slots {
			if s.parent != nil && s.parent.kind == jmObj && jmInteresting[strings.ToLower(s.key)] {
				hot = append(hot, i)
			}
		}
		if len(hot) > 0 {
			return slots[hot[r.Intn(len(hot))]]
		}
	}
	return slots[r.Intn(len(slots))]
}

// ---------------------------------------------------------------------------
// One structural mutation.

func jmMutateOnce(r *prng.R, d *jmDoc) string {
	for try := 0; try < 8; try++ {
		s := jmPick(r, d)
		n := d.get(s)

		// Weighted choice among the families applicable to this slot.
		const (
			fKind = iota // by the kind of the node itself
			fType
			fNest
			fParent // operate on the parent at this index (field / element)
		)
		w := [4]int{0, 15, 6, 0}
		switch n.kind {
		case jmNum, jmStr:
			w[fKind] = 55
		case jmArr, jmObj:
			w[fKind] = 45
		}
		if s.parent != nil && (s.parent.kind == jmObj || s.parent.kind == jmArr) {
			w[fParent] = 25
		}
		x := r.Intn(w[0] + w[1] + w[2] + w[3])
		f := 0
		for x >= w[f] {
			x -= w[f]
			f++
		}

		var name string
		switch f {
		case fKind:
			switch n.kind {
			case jmNum:
				name = jmNumOp(r, d, s, n)
			case jmStr:
				name = jmStrOp(r, d, s, n)
			case jmArr:
				name = jmArrOp(r, d, n, r.Intn(len(n.arr)))
			case jmObj:
				name = jmObjOp(r, d, n, r.Intn(len(n.obj)))
			}
		case fType:
			name = jmTypeOp(r, d, s, n)
		case fNest:
			name = jmNestOp(r, d, s, n)
		case fParent:
			if s.parent.kind == jmObj {
				name = jmObjOp(r, d, s.parent, s.idx)
			} else {
				name = jmArrOp(r, d, s.parent, s.idx)
			}
		}
		if name != "" {
			return name
		}
	}
	// Nothing applicable (cannot happen: type confusion always applies).
	d.root = &jmNode{kind: jmNull}
	return "doc:null"
}

// --- numbers ---------------------------------------------------------------

var jmBoundaryNums = []struct{ name, lit string }{
	{"0", "0"}, {"-1", "-1"}, {"1", "1"}, {"255", "255"}, {"256", "256"}, {"65535", "65535"}, {"65536", "65536"},
	{"2^31-1", "2147483647"}, {"2^31", "2147483648"}, {"-2^31", "-2147483648"}, {"-2^31-1", "-2147483649"},
	{"2^32-1", "4294967295"}, {"2^32", "4294967296"}, {"2^53", "9007199254740992"}, {"2^53plus1", "9007199254740993"},
	{"2^63-1", "9223372036854775807"}, {"2^63", "9223372036854775808"}, {"-2^63", "-9223372036854775808"},
	{"-2^63-1", "-9223372036854775809"}, {"2^64-1", "18446744073709551615"}, {"2^64", "18446744073709551616"},
	{"1e19", "1e19"}, {"1e400", "1e400"}, {"-1e400", "-1e400"}, {"1e-400", "1e-400"}, {"-0", "-0"}, {"-0.0", "-0.0"},
	{"0.5", "0.5"}, {"1.0", "1.0"}, {"1e2", "1e2"}, {"1E2", "1E2"}, {"1e-plus-2", "1e+2"}, {"0e0", "0e0"},
	{"127", "127"}, {"128", "128"}, {"-128", "-128"}, {"-129", "-129"}, {"32767", "32767"}, {"32768", "32768"},
	{"15", "15"}, {"16", "16"}, {"17", "17"},
}

func jmRandomNum(r *prng.R) (lit, name string) {
	b := jmBoundaryNums[r.Intn(len(jmBoundaryNums))]
	return b.lit, b.name
}

func jmNumOp(r *prng.R, d *jmDoc, s jmSlot, n *jmNode) string {
	switch x := r.Intn(100); {
	case x < 50:
		lit, name := jmRandomNum(r)
		n.num = lit
		return "num:" + name
	case x < 62:
		// Same integer written as a float / with an exponent.
		v, isInt := new(big.Int).SetString(n.num, 10)
		if !isInt {
			n.num = "1.0"
			return "num:1.0"
		}
		switch r.Intn(5) {
		case 0:
			n.num = v.String() + ".0"
			return "num:asfloat"
		case 1:
			n.num = v.String() + "e0"
			return "num:exp0"
		case 2:
			n.num = v.String() + "0e-1"
			if v.Sign() == 0 {
				n.num = "0e-1"
			}
			return "num:exp-1"
		case 3:
			n.num = v.String() + ".000000000000000000000000000000000000000000001"
			return "num:epsilon"
		default:
			n.num = v.String() + "E+0"
			return "num:exp-plus-0"
		}
	case x < 74:
		// Off by one.
		v, isInt := new(big.Int).SetString(n.num, 10)
		if !isInt {
			n.num = "0"
			return "num:0"
		}
		if r.Chance(50) {
			n.num = v.Add(v, big.NewInt(1)).String()
			return "num:inc"
		}
		n.num = v.Sub(v, big.NewInt(1)).String()
		return "num:dec"
	case x < 80:
		v, isInt := new(big.Int).SetString(n.num, 10)
		if !isInt {
			n.num = "-1"
			return "num:-1"
		}
		n.num = v.Neg(v).String()
		if n.num == "0" {
			n.num = "-0"
		}
		return "num:neg"
	case x < 88:
		switch r.Intn(4) {
		case 0:
			n.num = strings.Repeat("9", 1000)
			return "num:long9"
		case 1:
			n.num = "1" + strings.Repeat("0", 1000)
			return "num:long10"
		case 2:
			n.num = "0." + strings.Repeat("0", 999) + "1"
			return "num:longfrac"
		default:
			n.num = "1e" + strings.Repeat("0", 996) + "1"
			return "num:longexp"
		}
	default:
		d.set(s, &jmNode{kind: jmStr, str: n.num})
		return "num:tostring"
	}
}

// --- strings ---------------------------------------------------------------

var jmTimes = []string{
	"0000-00-00T00:00:00Z", "9999-12-31T23:59:59Z", "2024-13-45T99:99:99Z", "0001-01-01T00:00:00Z",
	"0000-01-01T00:00:00Z", "1970-01-01T00:00:00Z", "1969-12-31T23:59:59Z", "2038-01-19T03:14:08Z",
	"2262-04-11T23:47:16.854775807Z", "2262-04-11T23:47:16.854775808Z", "1677-09-21T00:12:43Z",
	"2024-02-30T00:00:00Z", "2023-02-29T00:00:00Z", "2016-12-31T23:59:60Z", "2024-01-01T24:00:00Z",
	"2024-01-01T00:00:00+25:00", "2024-01-01T00:00:00+00:00", "2024-01-01T00:00:00-23:59",
	"2024-01-01T00:00:00.999999999999999999Z", "2024-01-01T00:00:00,5Z", "2024-01-01 00:00:00Z",
	"2024-01-01t00:00:00z", "-2024-01-01T00:00:00Z", "10000-01-01T00:00:00Z", "2024-1-1T0:0:0Z",
	"2024-01-01T00:00Z", "2024-01-01", "2024-01-01T00:00:00", "2024-01-01T00:00:00.000000",
	"20240101T000000Z", "1700000000", "now", "Mon Jan  2 15:04:05 2006",
}

var jmDict = []string{
	"SGX", "TDX", "QE", "TD_QE", "QVE", "UpToDate", "SWHardeningNeeded", "ConfigurationNeeded",
	"ConfigurationAndSWHardeningNeeded", "OutOfDate", "OutOfDateConfigurationNeeded", "Revoked",
	"uptodate", "UPTODATE", "OK", "SIGNATURE_INVALID", "GROUP_REVOKED", "SIGNATURE_REVOKED", "KEY_REVOKED",
	"SIGRL_VERSION_MISMATCH", "GROUP_OUT_OF_DATE", "CONFIGURATION_NEEDED", "SW_HARDENING_NEEDED",
	"CONFIGURATION_AND_SW_HARDENING_NEEDED", "ok", "INVALID", "UNKNOWN", "TDX_01", "TDX_03", "TDX_FF",
	"INTEL-SA-00000", "null", "true", "0", "-1", "{}", "[]",
}

func jmIsHex(s string) bool {
	if s == "" {
		return false
	}
	for i := 0; i < len(s); i++ {
		c := s[i]
		if !(c >= '0' && c <= '9' || c >= 'a' && c <= 'f' || c >= 'A' && c <= 'F') {
			return false
		}
	}
	return true
}

func jmIsBase64(s string) bool {
	if len(s) < 8 {
		return false
	}
	for i := 0; i < len(s); i++ {
		c := s[i]
		if !(c >= '0' && c <= '9' || c >= 'a' && c <= 'z' || c >= 'A' && c <= 'Z' || c == '+' || c == '/' || c == '=') {
			return false
		}
	}
	return true
}

func jmIsTime(s string) bool {
	if len(s) < 19 || len(s) > 40 || s[4] != '-' || s[10] != 'T' {
		return false
	}
	if _, err := time.Parse(time.RFC3339, s); err == nil {
		return true
	}
	_, err := time.Parse("2006-01-02T15:04:05.999999999", s)
	return err == nil
}

func jmIsNumLit(s string) bool {
	if s == "" || !(s[0] == '-' || s[0] >= '0' && s[0] <= '9') {
		return false
	}
	return json.Valid([]byte(s))
}

func jmStrOp(r *prng.R, d *jmDoc, s jmSlot, n *jmNode) string {
	v := n.str
	n.raw = ""
	// Shape-specific mutations first (most valuable), generic otherwise.
	if jmIsTime(v) && r.Chance(70) {
		return jmTimeOp(r, n)
	}
	if jmIsHex(v) && r.Chance(70) {
		return jmHexOp(r, n)
	}
	if jmIsBase64(v) && r.Chance(60) {
		return jmB64Op(r, n)
	}
	if jmIsNumLit(v) && r.Chance(50) {
		d.set(s, &jmNode{kind: jmNum, num: v})
		return "str:tonumber"
	}
	switch x := r.Intn(100); {
	case x < 12:
		n.str = ""
		return "str:empty"
	case x < 18:
		n.str = strings.Repeat("A", 64<<10)
		d.big = true
		return "str:long64k"
	case x < 26:
		// Embedded NUL.
		p := r.Intn(len(v) + 1)
		if r.Chance(30) {
			p = len(v)
		}
		n.str = v[:p] + "\x00" + v[p:]
		return "str:nul"
	case x < 40:
		return jmUnicodeOp(r, n)
	case x < 50:
		n.str = jmDict[r.Intn(len(jmDict))]
		return "str:dict"
	case x < 58:
		return jmTimeOp(r, n)
	case x < 66:
		return jmHexOp(r, n)
	case x < 72:
		return jmB64Op(r, n)
	case x < 80:
		switch r.Intn(4) {
		case 0:
			n.str = " " + v
		case 1:
			n.str = v + " "
		case 2:
			n.str = v + "\n"
		default:
			n.str = "\t" + v + "\r\n"
		}
		return "str:space"
	case x < 86:
		if r.Chance(50) {
			n.str = strings.ToUpper(v)
		} else {
			n.str = strings.ToLower(v)
		}
		return "str:case"
	case x < 92:
		if len(v) > 1 {
			n.str = v[:r.Range(1, len(v)-1)]
		} else {
			n.str = v + v + "x"
		}
		return "str:trunc"
	default:
		lit, _ := jmRandomNum(r)
		if r.Chance(50) {
			n.str = lit
			return "str:numeric"
		}
		d.set(s, &jmNode{kind: jmNum, num: lit})
		return "str:tonumber"
	}
}

func jmTimeOp(r *prng.R, n *jmNode) string {
	v := n.str
	if jmIsTime(v) && r.Chance(35) {
		switch r.Intn(6) {
		case 0:
			if strings.HasSuffix(v, "Z") {
				n.str = v[:len(v)-1]
				return "str:time-noz"
			}
			n.str = v + "Z"
			return "str:time-addz"
		case 1:
			n.str = "9999" + v[4:]
			return "str:time-y9999"
		case 2:
			n.str = "0000" + v[4:]
			return "str:time-y0000"
		case 3:
			n.str = v[:5] + "13" + v[7:]
			return "str:time-m13"
		case 4:
			n.str = v[:11] + "24:00:00" + v[19:]
			return "str:time-h24"
		default:
			n.str = v[:19] + ".123456789123" + v[19:]
			return "str:time-frac"
		}
	}
	n.str = jmTimes[r.Intn(len(jmTimes))]
	return "str:time"
}

func jmHexOp(r *prng.R, n *jmNode) string {
	v := n.str
	if !jmIsHex(v) {
		// Make it a (possibly ill-formed) hex string of a typical length.
		l := []int{2, 4, 8, 12, 16, 32, 64, 128}[r.Intn(8)]
		v = strings.Repeat("0", l)
		n.str = v
		if r.Chance(50) {
			return "str:hex-zero"
		}
	}
	switch r.Intn(11) {
	case 0:
		n.str = v[:len(v)-1]
		return "str:hex-odd-short"
	case 1:
		n.str = v + "0"
		return "str:hex-odd-long"
	case 2:
		p := r.Intn(len(v))
		n.str = v[:p] + string("GgxZ -+\x00"[r.Intn(8)]) + v[p+1:]
		return "str:hex-nonhex"
	case 3:
		n.str = v + "00"
		return "str:hex-len-plus2"
	case 4:
		if len(v) > 2 {
			n.str = v[2:]
		} else {
			n.str = v + "FFFF"
		}
		return "str:hex-len-minus2"
	case 5:
		if v != strings.ToLower(v) {
			n.str = strings.ToLower(v)
		} else {
			n.str = strings.ToUpper(v)
		}
		return "str:hex-case"
	case 6:
		n.str = strings.Repeat("0", len(v))
		return "str:hex-zero"
	case 7:
		n.str = strings.Repeat("F", len(v))
		return "str:hex-ones"
	case 8:
		n.str = "0x" + v
		return "str:hex-0x"
	case 9:
		// Flip one nibble (keeps the shape, changes the value).
		p := r.Intn(len(v))
		c := jmHexDigits[r.Intn(16)]
		if v == strings.ToUpper(v) {
			c = strings.ToUpper(string(c))[0]
		}
		n.str = v[:p] + string(c) + v[p+1:]
		return "str:hex-nibble"
	default:
		n.str = v + v
		return "str:hex-double"
	}
}

func jmB64Op(r *prng.R, n *jmNode) string {
	v := n.str
	if v == "" {
		v = "AAAA"
	}
	switch r.Intn(9) {
	case 0:
		n.str = strings.TrimRight(v, "=")
		if n.str == v {
			n.str = v[:len(v)-1]
		}
		return "str:b64-nopad"
	case 1:
		n.str = v + "="
		return "str:b64-padextra"
	case 2:
		p := r.Intn(len(v))
		n.str = v[:p] + "=" + v[p:]
		return "str:b64-padmid"
	case 3:
		p := r.Intn(len(v))
		n.str = v[:p] + string("-_!*"[r.Intn(4)]) + v[p+1:]
		return "str:b64-alphabet"
	case 4:
		p := r.Intn(len(v) + 1)
		n.str = v[:p] + []string{"\n", "\r\n", " ", "\r"}[r.Intn(4)] + v[p:]
		return "str:b64-newline"
	case 5:
		n.str = v[:len(v)-1]
		return "str:b64-trunc1"
	case 6:
		n.str = v + "A"
		return "str:b64-extra1"
	case 7:
		n.str = "===="
		return "str:b64-onlypad"
	default:
		// Non-canonical trailing bits: "QQ==" vs "QR==".
		n.str = "QR=="
		return "str:b64-noncanon"
	}
}

func jmUnicodeOp(r *prng.R, n *jmNode) string {
	v := n.str
	switch r.Intn(8) {
	case 0:
		if len(v) > 0 && len(v) <= 4096 && utf8.ValidString(v) {
			n.raw = jmEscapeAll(v)
			return "str:uesc-all"
		}
		n.raw = `"A"`
		n.str = "A"
		return "str:uesc-all"
	case 1:
		if len(v) > 0 && utf8.ValidString(v) {
			n.raw = jmEscapeOne(v, r.Intn(utf8.RuneCountInString(v)))
			return "str:uesc-one"
		}
		n.raw = `"A"`
		n.str = "A"
		return "str:uesc-one"
	case 2:
		// Lone surrogate: valid JSON, decodes to U+FFFD.
		lit := jmAppendString(nil, v)
		n.raw = string(lit[:len(lit)-1]) + `\ud800"`
		n.str = v + "\ufffd"
		return "str:surrogate-lone"
	case 3:
		lit := jmAppendString(nil, v)
		n.raw = string(lit[:len(lit)-1]) + `\ud83d\ude00"`
		n.str = v + "\U0001F600"
		return "str:surrogate-pair"
	case 4:
		n.str = v + "\u202e\u200b\ufeff"
		return "str:bidi"
	case 5:
		// Fullwidth digits / letters that some parsers fold.
		var b strings.Builder
		for _, rn := range v {
			if rn > 0x20 && rn < 0x7f {
				rn += 0xfee0
			}
			b.WriteRune(rn)
		}
		n.str = b.String()
		return "str:fullwidth"
	case 6:
		// Solidus escape: same value, different bytes.
		lit := jmAppendString(nil, v)
		n.raw = strings.ReplaceAll(string(lit), "/", `\/`)
		if n.raw == string(lit) {
			n.raw = string(lit[:len(lit)-1]) + `\/"`
			n.str = v + "/"
		}
		return "str:solidus"
	default:
		n.str = v + "\u00e9\u2028\x7f"
		return "str:nonascii"
	}
}

// --- type confusion --------------------------------------------------------

func jmTypeOp(r *prng.R, d *jmDoc, s jmSlot, n *jmNode) string {
	var repl *jmNode
	var name string
	switch r.Intn(12) {
	case 0, 1:
		repl, name = &jmNode{kind: jmNull}, "type:null"
	case 2:
		repl, name = &jmNode{kind: jmBool, b: true}, "type:true"
	case 3:
		repl, name = &jmNode{kind: jmBool, b: false}, "type:false"
	case 4:
		repl, name = &jmNode{kind: jmObj}, "type:{}"
	case 5:
		repl, name = &jmNode{kind: jmArr}, "type:[]"
	case 6:
		lit, _ := jmRandomNum(r)
		repl, name = &jmNode{kind: jmNum, num: lit}, "type:number"
	case 7:
		// The value itself, as a string (scalars: their text; else its JSON).
		str := ""
		switch n.kind {
		case jmStr:
			str = jmDict[r.Intn(len(jmDict))]
		case jmNum:
			str = n.num
		default:
			if jmSize(n) <= 1<<16 {
				str = string(jmSerialize(n))
			}
		}
		repl, name = &jmNode{kind: jmStr, str: str}, "type:string"
	case 8:
		repl, name = &jmNode{kind: jmArr, arr: []*jmNode{n}}, "type:[self]"
	case 9:
		repl = &jmNode{kind: jmArr, arr: []*jmNode{{kind: jmArr, arr: []*jmNode{jmClone(n)}}, n}}
		name = "type:[[self],self]"
	case 10:
		key := s.key
		if key == "" {
			key = "value"
		}
		repl, name = &jmNode{kind: jmObj, obj: []jmField{{key: key, val: n}}}, "type:{self}"
	default:
		// Unwrap: a container replaced by its first child.
		switch {
		case n.kind == jmArr && len(n.arr) > 0:
			repl, name = n.arr[0], "type:unwrap"
		case n.kind == jmObj && len(n.obj) > 0:
			repl, name = n.obj[0].val, "type:unwrap"
		default:
			repl, name = &jmNode{kind: jmStr, str: ""}, "type:string"
		}
	}
	d.set(s, repl)
	return name
}

// --- objects ---------------------------------------------------------------

func jmRandomScalar(r *prng.R) *jmNode {
	switch r.Intn(5) {
	case 0:
		return &jmNode{kind: jmNull}
	case 1:
		return &jmNode{kind: jmBool, b: r.Chance(50)}
	case 2:
		lit, _ := jmRandomNum(r)
		return &jmNode{kind: jmNum, num: lit}
	case 3:
		return &jmNode{kind: jmStr, str: jmDict[r.Intn(len(jmDict))]}
	default:
		return &jmNode{kind: jmStr, str: ""}
	}
}

// jmPerturb returns a value different from (but shaped like) n: used for the
// second copy of a duplicated key.
func jmPerturb(r *prng.R, n *jmNode) *jmNode {
	c := jmClone(n)
	switch c.kind {
	case jmNum:
		if v, isInt := new(big.Int).SetString(c.num, 10); isInt {
			c.num = v.Add(v, big.NewInt(int64(r.Range(1, 3)))).String()
		} else {
			c.num = "0"
		}
	case jmStr:
		c.raw = ""
		switch {
		case jmIsTime(c.str):
			c.str = []string{"1970-01-01T00:00:00Z", "9999-12-31T23:59:59Z"}[r.Intn(2)]
		case jmIsHex(c.str):
			c.str = strings.Repeat([]string{"0", "F"}[r.Intn(2)], len(c.str))
		default:
			c.str = jmDict[r.Intn(len(jmDict))]
		}
	case jmBool:
		c.b = !c.b
	case jmArr:
		if len(c.arr) > 0 && r.Chance(50) {
			c.arr = c.arr[:len(c.arr)-1]
		} else {
			c.arr = nil
		}
	case jmObj:
		if len(c.obj) > 0 && r.Chance(50) {
			c.obj = c.obj[1:]
		} else {
			c.obj = nil
		}
	default:
		return jmRandomScalar(r)
	}
	return c
}

func jmCaseVariant(r *prng.R, k string) (string, string) {
	switch r.Intn(6) {
	case 0:
		return strings.ToUpper(k), "upper"
	case 1:
		return strings.ToLower(k), "lower"
	case 2:
		// Flip the first letter.
		if k != "" {
			c := k[0]
			switch {
			case c >= 'a' && c <= 'z':
				return string(c-32) + k[1:], "first"
			case c >= 'A' && c <= 'Z':
				return string(c+32) + k[1:], "first"
			}
		}
		return strings.ToUpper(k), "upper"
	case 3:
		b := []byte(k)
		for i, c := range b {
			if r.Chance(50) {
				switch {
				case c >= 'a' && c <= 'z':
					b[i] = c - 32
				case c >= 'A' && c <= 'Z':
					b[i] = c + 32
				}
			}
		}
		return string(b), "random"
	case 4:
		// Unicode simple folding: K (Kelvin sign) ~ k, long s ~ s.  encoding/json
		// folds those when matching struct fields.
		var b strings.Builder
		done := false
		for _, rn := range k {
			if !done {
				switch rn {
				case 'k', 'K':
					rn, done = 0x212a, true
				case 's', 'S':
					rn, done = 0x17f, true
				}
			}
			b.WriteRune(rn)
		}
		if done {
			return b.String(), "fold"
		}
		return strings.ToUpper(k), "upper"
	default:
		// Near misses that must NOT match.
		switch r.Intn(4) {
		case 0:
			return k + " ", "near"
		case 1:
			return " " + k, "near"
		case 2:
			return k + "\x00", "near"
		default:
			return strings.ReplaceAll(k, "I", "\u0131") + "_", "near"
		}
	}
}

func jmInsertField(o *jmNode, at int, f jmField) {
	o.obj = append(o.obj, jmField{})
	copy(o.obj[at+1:], o.obj[at:])
	o.obj[at] = f
}

// jmObjOp mutates object o; idx designates the field of interest (ignored if
// the object is empty).
func jmObjOp(r *prng.R, d *jmDoc, o *jmNode, idx int) string {
	if len(o.obj) == 0 || idx >= len(o.obj) {
		switch r.Intn(3) {
		case 0:
			o.obj = append(o.obj, jmField{key: "", val: jmRandomScalar(r)})
			return "obj:emptykey"
		default:
			o.obj = append(o.obj, jmField{key: "unknownField", val: jmRandomScalar(r)})
			return "obj:add"
		}
	}
	f := o.obj[idx]
	switch x := r.Intn(100); {
	case x < 18:
		o.obj = append(o.obj[:idx:idx], o.obj[idx+1:]...)
		return "obj:del"
	case x < 40:
		// Same key twice with different values.
		nf := jmField{key: f.key, val: jmPerturb(r, f.val)}
		switch r.Intn(5) {
		case 0:
			o.obj = append(o.obj, nf)
			return "obj:dup-last"
		case 1:
			jmInsertField(o, 0, nf)
			return "obj:dup-first"
		case 2:
			jmInsertField(o, idx+1, nf)
			return "obj:dup-after"
		case 3:
			nf.val = &jmNode{kind: jmNull}
			o.obj = append(o.obj, nf)
			return "obj:dup-null"
		default:
			// The duplicate differs in case: both match the same struct field.
			nf.key, _ = jmCaseVariant(r, f.key)
			if r.Chance(50) {
				o.obj = append(o.obj, nf)
			} else {
				jmInsertField(o, 0, nf)
			}
			return "obj:dup-case"
		}
	case x < 52:
		var val *jmNode
		if r.Chance(50) {
			val = jmRandomScalar(r)
		} else {
			val = jmClone(o.obj[r.Intn(len(o.obj))].val)
		}
		key := []string{"unknownField", "extra", "__proto__", "signature", "tcbInfo", "$schema", "a.b", "version2"}[r.Intn(8)]
		jmInsertField(o, r.Intn(len(o.obj)+1), jmField{key: key, val: val})
		return "obj:add"
	case x < 72:
		k, how := jmCaseVariant(r, f.key)
		o.obj[idx].key = k
		o.obj[idx].rawKey = ""
		return "obj:case-" + how
	case x < 78:
		if f.key != "" && len(f.key) <= 256 && utf8.ValidString(f.key) {
			if r.Chance(50) {
				o.obj[idx].rawKey = jmEscapeAll(f.key)
			} else {
				o.obj[idx].rawKey = jmEscapeOne(f.key, r.Intn(utf8.RuneCountInString(f.key)))
			}
			return "obj:key-escape"
		}
		o.obj[idx].key = "\x00"
		o.obj[idx].rawKey = ""
		return "obj:key-nul"
	case x < 90:
		if len(o.obj) < 2 {
			o.obj = append(o.obj, jmField{key: "unknownField", val: jmRandomScalar(r)})
			return "obj:add"
		}
		switch r.Intn(4) {
		case 0:
			for i, j := 0, len(o.obj)-1; i < j; i, j = i+1, j-1 {
				o.obj[i], o.obj[j] = o.obj[j], o.obj[i]
			}
			return "obj:reorder-reverse"
		case 1:
			for i := len(o.obj) - 1; i > 0; i-- {
				j := r.Intn(i + 1)
				o.obj[i], o.obj[j] = o.obj[j], o.obj[i]
			}
			return "obj:reorder-shuffle"
		case 2:
			o.obj = append(o.obj[:idx:idx], o.obj[idx+1:]...)
			jmInsertField(o, 0, f)
			return "obj:reorder-front"
		default:
			o.obj = append(o.obj[:idx:idx], o.obj[idx+1:]...)
			o.obj = append(o.obj, f)
			return "obj:reorder-back"
		}
	case x < 96:
		if r.Chance(50) {
			o.obj[idx].key = ""
			o.obj[idx].rawKey = ""
			return "obj:emptykey-rename"
		}
		jmInsertField(o, r.Intn(len(o.obj)+1), jmField{key: "", val: jmClone(f.val)})
		return "obj:emptykey"
	default:
		o.obj = nil
		return "obj:empty"
	}
}

// --- arrays ----------------------------------------------------------------

func jmSetLen(a *jmNode, n int) {
	for len(a.arr) > n {
		a.arr = a.arr[:len(a.arr)-1]
	}
	for len(a.arr) < n {
		if len(a.arr) == 0 {
			a.arr = append(a.arr, &jmNode{kind: jmNum, num: "0"})
			continue
		}
		a.arr = append(a.arr, jmClone(a.arr[len(a.arr)-1]))
	}
}

// jmArrOp mutates array a; idx designates the element of interest.
func jmArrOp(r *prng.R, d *jmDoc, a *jmNode, idx int) string {
	if len(a.arr) == 0 || idx >= len(a.arr) {
		switch r.Intn(3) {
		case 0:
			a.arr = append(a.arr, jmRandomScalar(r))
			return "arr:add"
		case 1:
			jmSetLen(a, 16)
			return "arr:len16"
		default:
			a.arr = append(a.arr, &jmNode{kind: jmArr})
			return "arr:add"
		}
	}
	// The fixed-length case: sgxtcbcomponents / tdxtcbcomponents.
	if len(a.arr) == 16 && r.Chance(40) {
		switch r.Intn(4) {
		case 0:
			a.arr = a.arr[:15]
			return "arr:len15"
		case 1:
			a.arr = append(a.arr[:idx:idx], a.arr[idx+1:]...)
			return "arr:len15"
		case 2:
			a.arr = append(a.arr, jmClone(a.arr[15]))
			return "arr:len17"
		default:
			a.arr = append(a.arr, jmRandomScalar(r))
			return "arr:len17"
		}
	}
	switch x := r.Intn(100); {
	case x < 12:
		a.arr = nil
		return "arr:empty"
	case x < 28:
		c := jmClone(a.arr[idx])
		if r.Chance(50) {
			a.arr = append(a.arr, c)
		} else {
			a.arr = append(a.arr, nil)
			copy(a.arr[idx+1:], a.arr[idx:])
			a.arr[idx] = c
		}
		return "arr:dup"
	case x < 44:
		a.arr = append(a.arr[:idx:idx], a.arr[idx+1:]...)
		return "arr:drop"
	case x < 56:
		// Repeat one element many times (shared pointers: this is the last
		// mutation applied).
		want := []int{100, 100, 1000, 1000, 10000, 10000, 10000, 65537}[r.Intn(8)]
		es := jmSize(a.arr[idx]) + 1
		room := jmBudget - jmSize(d.root)
		if room < 0 {
			room = 0
		}
		if want > room/es {
			want = room / es
		}
		if want < 2 {
			want = 2
		}
		e := a.arr[idx]
		rep := make([]*jmNode, 0, len(a.arr)+want)
		rep = append(rep, a.arr[:idx]...)
		for i := 0; i < want; i++ {
			rep = append(rep, e)
		}
		rep = append(rep, a.arr[idx+1:]...)
		a.arr = rep
		d.big = true
		return "arr:repeat"
	case x < 70:
		if len(a.arr) < 2 {
			a.arr = append(a.arr, jmClone(a.arr[0]))
			return "arr:dup"
		}
		j := r.Intn(len(a.arr) - 1)
		if j >= idx {
			j++
		}
		a.arr[idx], a.arr[j] = a.arr[j], a.arr[idx]
		return "arr:swap"
	case x < 76:
		for i, j := 0, len(a.arr)-1; i < j; i, j = i+1, j-1 {
			a.arr[i], a.arr[j] = a.arr[j], a.arr[i]
		}
		return "arr:reverse"
	case x < 82:
		jmSetLen(a, 15)
		return "arr:len15"
	case x < 88:
		if len(a.arr) == 16 {
			jmSetLen(a, 17)
			return "arr:len17"
		}
		jmSetLen(a, 16)
		return "arr:len16"
	case x < 94:
		jmSetLen(a, 17)
		return "arr:len17"
	default:
		// Heterogeneous element.
		a.arr[idx] = jmRandomScalar(r)
		return "arr:hetero"
	}
}

// --- nesting ---------------------------------------------------------------

func jmNestOp(r *prng.R, d *jmDoc, s jmSlot, n *jmNode) string {
	var depth int
	name := "nest"
	switch x := r.Intn(100); {
	case x < 40:
		depth = r.Range(1, 8)
	case x < 94:
		depth = r.Range(9, 2000)
	default:
		// Total depth exactly around the limit of encoding/json: 9999 and
		// 10000 are accepted, 10001 is not (then the name gets the
		// "syntax:over-depth" marker).  Half of the time at the root.
		if r.Chance(50) {
			s, n = jmSlot{}, d.root
		}
		target := jmMaxDepth + r.Range(-1, 1)
		depth = target - s.depth - jmHeight(n)
		if depth < 1 {
			depth = 1
		}
		name = "nest-limit"
		d.deep = true
	}
	mode := r.Intn(3)
	// At most 6 bytes per level: far below the budget even for 10001 levels.
	d.set(s, &jmNode{kind: jmWrap, depth: depth, mode: mode, inner: n})
	return name + ":" + []string{"arr", "obj", "mixed"}[mode]
}

// --- whole document --------------------------------------------------------

func jmWholeDoc(r *prng.R, d *jmDoc) string {
	switch r.Intn(7) {
	case 0:
		d.root = &jmNode{kind: jmNull}
		return "doc:null"
	case 1:
		d.root = &jmNode{kind: jmArr}
		return "doc:[]"
	case 2:
		d.root = &jmNode{kind: jmObj}
		return "doc:{}"
	case 3:
		d.root = &jmNode{kind: jmStr, str: ""}
		return "doc:\"\""
	case 4:
		d.root = &jmNode{kind: jmNum, num: "0"}
		return "doc:0"
	case 5:
		d.root = &jmNode{kind: jmBool, b: true}
		return "doc:true"
	default:
		// The document as a JSON string (double encoding).
		if jmSize(d.root) < 1<<20 {
			d.root = &jmNode{kind: jmStr, str: string(jmSerialize(d.root))}
			return "doc:stringified"
		}
		d.root = &jmNode{kind: jmNull}
		return "doc:null"
	}
}

// ---------------------------------------------------------------------------
// Syntax-breaking mutations (on the serialised form).

// jmScan returns offsets strictly inside string literals and inside numbers.
func jmScan(b []byte) (inStr, inNum, brackets []int) {
	const maxOffsets = 4096
	for i := 0; i < len(b); i++ {
		c := b[i]
		switch {
		case c == '"':
			j := i + 1
			for j < len(b) && b[j] != '"' {
				if b[j] == '\\' {
					j++
				}
				if len(inStr) < maxOffsets {
					inStr = append(inStr, j)
				}
				j++
			}
			if len(inStr) < maxOffsets {
				inStr = append(inStr, i+1)
			}
			i = j
		case c == '-' || c >= '0' && c <= '9':
			j := i
			for j < len(b) && (b[j] == '-' || b[j] == '+' || b[j] == '.' || b[j] == 'e' || b[j] == 'E' || b[j] >= '0' && b[j] <= '9') {
				j++
			}
			if j-i >= 2 && len(inNum) < maxOffsets {
				inNum = append(inNum, i+1+(j-i-2)/2)
			}
			if len(inNum) < maxOffsets {
				inNum = append(inNum, i)
			}
			i = j - 1
		case c == '{' || c == '}' || c == '[' || c == ']':
			if len(brackets) < maxOffsets {
				brackets = append(brackets, i)
			}
		}
	}
	return
}

func jmSplice(b []byte, at int, ins []byte, del int) []byte {
	out := make([]byte, 0, len(b)+len(ins))
	out = append(out, b[:at]...)
	out = append(out, ins...)
	return append(out, b[at+del:]...)
}

func jmSyntax(r *prng.R, b []byte) ([]byte, string) {
	inStr, inNum, brackets := jmScan(b)
	for try := 0; try < 8; try++ {
		switch r.Intn(13) {
		case 0:
			if len(inStr) > 0 {
				return append([]byte(nil), b[:inStr[r.Intn(len(inStr))]]...), "syntax:trunc-string"
			}
		case 1:
			if len(inNum) > 0 {
				p := inNum[r.Intn(len(inNum))]
				// Cut in the middle of a number: keep a dangling '-' or 'e' if any.
				return append([]byte(nil), b[:p+1]...), "syntax:trunc-number"
			}
		case 2:
			return append([]byte(nil), b[:r.Intn(len(b)+1)]...), "syntax:trunc-any"
		case 3:
			if len(brackets) > 0 {
				p := brackets[r.Intn(len(brackets))]
				switch r.Intn(4) {
				case 0:
					return jmSplice(b, p, nil, 1), "syntax:bracket-del"
				case 1:
					return jmSplice(b, p, []byte{b[p]}, 0), "syntax:bracket-dup"
				case 2:
					return jmSplice(b, p, []byte{"{}[]"[r.Intn(4)]}, 1), "syntax:bracket-swap"
				default:
					return append(append([]byte(nil), b...), "]}"[r.Intn(2)]), "syntax:bracket-extra"
				}
			}
		case 4:
			g := []string{"x", " {}", "\x00", ",", "null", "\n[]", "}", "//", "\xff"}[r.Intn(9)]
			return append(append([]byte(nil), b...), g...), "syntax:trailing"
		case 5:
			if len(inStr) > 0 {
				return jmSplice(b, inStr[r.Intn(len(inStr))], []byte{0}, 0), "syntax:raw-nul"
			}
		case 6:
			if len(inStr) > 0 {
				g := []string{"\xff", "\xc0\x80", "\xe2\x82", "\xed\xa0\x80", "\xf4\x90\x80\x80", "\x80"}[r.Intn(6)]
				return jmSplice(b, inStr[r.Intn(len(inStr))], []byte(g), 0), "syntax:bad-utf8"
			}
		case 7:
			return append([]byte("\xef\xbb\xbf"), b...), "syntax:bom"
		case 8:
			if len(inStr) > 0 {
				g := []string{`\x41`, `\u12`, `\u12G4`, `\'`, "\n", "\t", `\`}[r.Intn(7)]
				return jmSplice(b, inStr[r.Intn(len(inStr))], []byte(g), 0), "syntax:bad-escape"
			}
		case 9:
			if len(inNum) > 0 {
				p := inNum[r.Intn(len(inNum))]
				g := []string{"0", "+", ".", "0x", "-", "1_", "Infinity", "NaN"}[r.Intn(8)]
				return jmSplice(b, p, []byte(g), 0), "syntax:bad-number"
			}
		case 10:
			if len(brackets) > 0 {
				p := brackets[r.Intn(len(brackets))]
				if b[p] == '}' || b[p] == ']' {
					return jmSplice(b, p, []byte{','}, 0), "syntax:trailing-comma"
				}
				return jmSplice(b, p+1, []byte{','}, 0), "syntax:leading-comma"
			}
		case 11:
			g := []string{"/**/", "//x\n", "\x0b", "\x0c", "\u00a0", "\u2028", "\x00"}[r.Intn(7)]
			p := 0
			if len(brackets) > 0 {
				p = brackets[r.Intn(len(brackets))]
			}
			return jmSplice(b, p, []byte(g), 0), "syntax:bad-space"
		default:
			// Alternative literals / quoting.
			for _, rep := range [][2]string{{"null", "NULL"}, {"true", "True"}, {"false", "FALSE"}, {`"`, `'`}, {":", "="}, {",", ";"}, {",", ",,"}} {
				if r.Chance(30) && bytes.Contains(b, []byte(rep[0])) {
					return bytes.Replace(b, []byte(rep[0]), []byte(rep[1]), 1+r.Intn(2)), "syntax:bad-literal"
				}
			}
		}
	}
	return append([]byte(nil), b[:len(b)/2]...), "syntax:trunc-any"
}
