package main

import (
	"encoding/binary"
	"encoding/hex"
	"errors"
	"fmt"
	"io"
	"math"

	fxcbor "github.com/fxamacker/cbor/v2"

	"github.com/oasisprotocol/oasis-core/go/common/cbor"

	"verifharness/internal/prng"
)

// cborMirror is a DecMode with the options of go/common/cbor/cbor.go:40-48
// (decOptions, the mode used for untrusted input).  The oasis package does not
// export its mode; the values are cross-checked against the regenerated
// constants by theorem gen_cbor_profile_expected and, at run time, against
// cbor.Unmarshal (an input the mirror rejects must be rejected by the package).
var cborMirror fxcbor.DecMode

func cborInit() {
	if cborMirror != nil {
		return
	}
	dm, err := fxcbor.DecOptions{
		DupMapKey:         fxcbor.DupMapKeyEnforcedAPF,
		IndefLength:       fxcbor.IndefLengthForbidden,
		TagsMd:            fxcbor.TagsForbidden,
		ExtraReturnErrors: fxcbor.ExtraDecErrorUnknownField,
		MaxArrayElements:  10_000_000,
		MaxMapPairs:       10_000_000,
	}.DecMode()
	if err != nil {
		panic(err)
	}
	cborMirror = dm
}

func cborValidClass(err error) int {
	var (
		e1 *fxcbor.IndefiniteLengthError
		e2 *fxcbor.TagsMdError
		e3 *fxcbor.MaxNestedLevelError
		e4 *fxcbor.MaxArrayElementsError
		e5 *fxcbor.MaxMapPairsError
		e6 *fxcbor.SyntaxError
	)
	switch {
	case err == nil:
		return 0
	case err == io.EOF:
		return 90
	case err == io.ErrUnexpectedEOF:
		return 91
	case errors.As(err, &e1):
		return 92
	case errors.As(err, &e2):
		return 93
	case errors.As(err, &e3):
		return 94
	case errors.As(err, &e4):
		return 95
	case errors.As(err, &e5):
		return 96
	case errors.As(err, &e6):
		return 97
	}
	return 98
}

func runCborCase(c Case) (o outcome) {
	cborInit()
	data := unhex(c.Data)
	var verr, uerr error
	g := guarded(func() {
		verr = cborMirror.Valid(data)
		var v any
		uerr = cbor.Unmarshal(data, &v)
	})
	cls := cborValidClass(verr)
	acc := uerr == nil && !g.panicked
	o.g = g
	o.term = fmt.Sprintf("(CCbor %s, OCbor %d (Some %v))", cb(data), cls, acc)
	o.class = fmt.Sprintf("valid%d/unmarshal-%v", cls, acc)
	o.ok = acc
	if v := g.violation(); v != "" {
		o.violation = "cbor: " + v
	} else if verr != nil && uerr == nil {
		o.violation = fmt.Sprintf("cbor: cbor.Unmarshal accepted an input that the strict-profile validity pass rejects (%v): the harness mirror of decOptions is out of date or the package no longer uses the strict mode", verr)
	}
	return o
}

// genCborValue writes a random CBOR item (definite lengths, no tags).
func genCborValue(r *prng.R, depth int, out *[]byte) {
	head := func(major byte, v uint64) {
		// sometimes a non-minimal head
		switch {
		case v < 24 && !r.Chance(10):
			*out = append(*out, major<<5|byte(v))
		case v <= 0xff && !r.Chance(10):
			*out = append(*out, major<<5|24, byte(v))
		case v <= 0xffff && !r.Chance(10):
			*out = binary.BigEndian.AppendUint16(append(*out, major<<5|25), uint16(v))
		case v <= 0xffffffff && !r.Chance(10):
			*out = binary.BigEndian.AppendUint32(append(*out, major<<5|26), uint32(v))
		default:
			*out = binary.BigEndian.AppendUint64(append(*out, major<<5|27), v)
		}
	}
	x := r.Intn(100)
	if depth <= 0 && x >= 60 {
		x = r.Intn(60)
	}
	switch {
	case x < 15:
		head(0, []uint64{0, 1, 23, 24, 255, 256, 65535, 65536, math.MaxUint32, math.MaxUint64, r.U64()}[r.Intn(11)])
	case x < 25:
		head(1, []uint64{0, 23, 24, math.MaxInt64, math.MaxUint64, r.U64() % 1000}[r.Intn(6)])
	case x < 35:
		b := r.Bytes(r.Intn(12))
		head(2, uint64(len(b)))
		*out = append(*out, b...)
	case x < 47:
		s := []string{"", "a", "key", "nonce", "héllo", "\xff\xfe", "body"}[r.Intn(7)]
		head(3, uint64(len(s)))
		*out = append(*out, s...)
	case x < 55:
		*out = append(*out, []byte{0xf4, 0xf5, 0xf6, 0xf7, 0xe0, 0xf3}[r.Intn(6)])
		if r.Chance(20) {
			*out = append(*out, 0xf8, byte(32+r.Intn(200)))
		}
	case x < 60:
		switch r.Intn(3) {
		case 0:
			*out = append(*out, 0xf9, 0x7e, 0x00)
		case 1:
			*out = binary.BigEndian.AppendUint32(append(*out, 0xfa), math.Float32bits(float32(r.Intn(100))/3))
		default:
			*out = binary.BigEndian.AppendUint64(append(*out, 0xfb), math.Float64bits(float64(r.Intn(100))/7))
		}
	case x < 80:
		n := r.Intn(5)
		head(4, uint64(n))
		for i := 0; i < n; i++ {
			genCborValue(r, depth-1, out)
		}
	default:
		n := r.Intn(4)
		head(5, uint64(n))
		for i := 0; i < n; i++ {
			if r.Chance(80) { // string / int keys mostly; sometimes a duplicate
				if r.Chance(15) {
					*out = append(*out, 0x61, 'a')
				} else {
					k := r.Intn(30)
					head(0, uint64(k))
				}
			} else {
				genCborValue(r, depth-1, out)
			}
			genCborValue(r, depth-1, out)
		}
	}
}

func genCborCase(r *prng.R) Case {
	var b []byte
	c := Case{Kind: "cbor", Origin: "valid"}
	switch x := r.Intn(100); {
	case x < 6: // nesting around the limit
		n := []int{31, 32, 33, 34, 64}[r.Intn(5)]
		for i := 0; i < n; i++ {
			if r.Chance(50) {
				b = append(b, 0x81)
			} else {
				b = append(b, 0xa1, 0x00)
			}
		}
		b = append(b, 0x00)
		c.Origin = fmt.Sprintf("nest%d", n)
	case x < 12:
		bomb := cborBombs[r.Intn(len(cborBombs))]
		b = append(b, bomb...)
		if r.Chance(50) {
			genCborValue(r, 2, &b)
		}
		c.Origin = "bomb"
	case x < 40:
		genCborValue(r, 4, &b)
	case x < 50:
		genCborValue(r, 3, &b)
		b = append(b, r.Bytes(1+r.Intn(4))...)
		c.Origin = "trailing"
	case x < 65:
		genCborValue(r, 4, &b)
		b = b[:r.Intn(len(b)+1)]
		c.Origin = "trunc"
	case x < 90:
		genCborValue(r, 4, &b)
		var name string
		b, name = mutate(r, b)
		c.Origin = "mut:" + name
	default:
		b = r.Bytes(r.Intn(12))
		c.Origin = "random"
	}
	if len(b) > 1500 {
		b = b[:1500]
	}
	c.Data = hex.EncodeToString(b)
	return c
}
