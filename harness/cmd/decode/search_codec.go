package main

import (
	"bytes"
	"io"

	"github.com/golang/snappy"
)

// payloadCodec lets the search stream mutate the payload underneath a framing
// layer (compression) instead of only the framed bytes, so that mutants reach
// the decoders behind the framing.
type payloadCodec struct {
	unwrap func([]byte) ([]byte, bool)
	wrap   func([]byte) []byte
}

// searchCodecs: checkpoint chunks are snappy streams of CBOR items.
var searchCodecs = map[string]payloadCodec{
	"checkpoint.chunk": {
		unwrap: func(b []byte) ([]byte, bool) {
			out, err := io.ReadAll(snappy.NewReader(bytes.NewReader(b)))
			return out, err == nil
		},
		wrap: func(b []byte) []byte {
			var buf bytes.Buffer
			w := snappy.NewBufferedWriter(&buf)
			_, _ = w.Write(b)
			_ = w.Close()
			return buf.Bytes()
		},
	},
}
