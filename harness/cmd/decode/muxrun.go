package main

import (
	"encoding/hex"
	"fmt"
	"math"
	"strings"
	"os"
	"runtime"
	"time"

	"github.com/oasisprotocol/oasis-core/go/common/crypto/hash"
	"github.com/oasisprotocol/oasis-core/go/common/crypto/signature"
	roothash "github.com/oasisprotocol/oasis-core/go/roothash/api"
	"github.com/oasisprotocol/oasis-core/go/roothash/api/commitment"

	"verifharness/internal/coqout"
	"verifharness/internal/muxdrv"
	"verifharness/internal/prng"
)

// runMux is the SEARCH-ONLY stream over CheckTx and DeliverTx of a live ABCI
// multiplexer with all real applications (verifharness/internal/muxdrv):
// byte-mutated, truncated, oversized and properly re-signed transactions with
// mutated bodies / fees / nonces / method names for every consensus method.
// Failure = a panic escaping the multiplexer, a call over budget, a block after
// which a plain transfer no longer works ("corrupts subsequent processing"),
// or resources that grow with the number of CheckTx calls.
func runMux(seed uint64, n int, out string, rc *Case) {
	sum := coqout.NewSummary("SEARCH ONLY (no model): live ABCI multiplexer with all apps; CheckTx on 50% byte-level mutants of 33 valid signed transactions (every consensus method), 35% correctly re-signed transactions with mutated CBOR bodies / fees / nonces / method names, 5% oversized and truncated, 10% fresh valid; then blocks of 20 such transactions through PrepareProposal + a second execution outside the proposal phase (DeliverTx, EndBlock, Commit) with a health probe (a plain transfer must still succeed) every 10 blocks; a deterministic probe of 100 signed ExecutorCommit transactions naming unregistered runtimes measures goroutine growth. distinct = calls; non-trivial = transactions accepted (code 0)")
	m := newMuxFuzzer(seed)
	defer m.close()
	r := prng.New(seed ^ 0x6d7578)
	seeds := m.seeds()
	sum.Extra["label"] = "search, not proof: the consensus applications and the CometBFT/protobuf layers are not modelled"
	sum.Extra["methods"] = len(seeds)
	sum.Extra["setup_failures"] = m.setupFail
	viol := func(what string, c Case) {
		sum.Violations = append(sum.Violations, map[string]any{"what": what, "case": c})
	}
	checkOne := func(raw []byte, origin string) bool {
		var acc bool
		var err error
		g := guardedOnce(func() { acc, err = m.check(raw, r.Chance(10)) })
		sum.Evaluations++
		cls := "rejected"
		if acc {
			cls = "accepted"
			sum.DistinctNontrivial++
		}
		sum.Count("mux:checktx", cls)
		if strings.HasPrefix(origin, "fee:") {
			sum.Count("mux:fee-edge", origin+" "+cls)
		}
		cs := Case{Kind: "mux", Target: "check", Data: hex.EncodeToString(raw), Origin: origin}
		if err != nil {
			viol(fmt.Sprintf("mux CheckTx: panic escaped the multiplexer: %v", err), cs)
		} else if v := g.violation(); v != "" {
			viol("mux CheckTx: "+v, cs)
		}
		return acc
	}
	deliverOne := func(raws [][]byte, origin string) {
		var codes []uint32
		var err error
		g := guardedOnce(func() { codes, err = m.deliver(raws) })
		sum.Evaluations += len(raws)
		for _, c := range codes {
			if c == 0 {
				sum.Count("mux:delivertx", "code0")
				sum.DistinctNontrivial++
			} else {
				sum.Count("mux:delivertx", "rejected")
			}
		}
		cs := Case{Kind: "mux", Target: "deliver", Entries: hexEntries(raws), Origin: origin}
		if m.lastOffender != nil {
			cs.Entries = hexEntries([][]byte{m.lastOffender})
		}
		switch {
		case err != nil && muxIsBlockRejection(err):
			sum.Count("mux:delivertx", "block-rejected-by-design")
		case err != nil:
			viol(fmt.Sprintf("mux DeliverTx/EndBlock: %v", err), cs)
		default:
			if v := g.violation(); v != "" {
				viol("mux block: "+v, cs)
			}
		}
	}
	probe := func() {
		g0 := runtime.NumGoroutine()
		acc, err := m.muxBrokerProbe("p", 100)
		time.Sleep(50 * time.Millisecond)
		g1 := runtime.NumGoroutine()
		sum.Extra["probe_unregistered_runtime_commits"] = map[string]int{"sent": 100, "accepted_by_checktx": acc, "goroutines_before": g0, "goroutines_after": g1}
		cs := Case{Kind: "mux", Target: "notifiers"}
		if err != nil {
			viol(fmt.Sprintf("mux CheckTx probe: %v", err), cs)
		} else if g1-g0 > 100 {
			// regression case of the fixed finding C16:checktx-executorcommit-unbounded-runtime-notifiers
			viol(fmt.Sprintf("unbounded resources through CheckTx: %d signed roothash.ExecutorCommit transactions naming distinct unregistered runtimes (accepted by CheckTx: %d) left %d new goroutines that are never released (apps/roothash/transactions.go:49-55 -> roothash.go getRuntimeNotifiers)", 100, acc, g1-g0), cs)
		}
	}
	if rc != nil {
		switch rc.Target {
		case "check":
			checkOne(unhex(rc.Data), "replay")
		case "deliver":
			deliverOne(entriesOf(*rc), "replay")
		default:
			probe()
		}
		finishMux(sum, out)
		return
	}
	probe() // first: the check state still equals the committed state
	// structured roothash evidence through CheckTx (submitEvidence -> Evidence.ValidateBasic runs
	// before any signature or state check): every combination of absent optional header fields in
	// both commitments, plus random failure / non-failure / equal / unequal variants
	{
		evr := prng.New(seed ^ 0xe71d)
		cs := evidenceSystematic()
		for i := 0; i < 150; i++ {
			cs = append(cs, genEvidenceCase(evr.Fork()))
		}
		k := m.g.Accounts[15].Key
		for _, c := range cs {
			ev := &roothash.Evidence{ID: m.rt1, EquivocationExecutor: &roothash.EquivocationExecutorEvidence{CommitA: c.Ev[0].build(), CommitB: c.Ev[1].build()}}
			raw := muxdrv.Sign(k, roothash.NewEvidenceTx(m.muxNonce(k.Address()), muxdrv.Fee(10, muxBigGas), ev))
			checkOne(raw, "evidence:"+c.Origin)
			m.muxResync()
		}
		// proposal equivocation evidence: optional batch signature / batch present or not, equal or
		// unequal headers, same or different node
		for mask := 0; mask < 64; mask++ {
			mkp := func(m int, bh byte) commitment.Proposal {
				p := commitment.Proposal{NodeID: evKey(1), Header: commitment.ProposalHeader{Round: 5, PreviousHash: evHash(9), BatchHash: evHash(bh)}}
				if m&1 != 0 {
					p.BatchSignature = &signature.RawSignature{}
				}
				if m&2 != 0 {
					p.Batch = []hash.Hash{evHash(1)}
				}
				if m&4 != 0 {
					p.Header.Round = 6
				}
				return p
			}
			pa, pb := mkp(mask&7, 3), mkp(mask>>3, 4)
			if mask%5 == 0 {
				pb.Header = pa.Header
			}
			ev := &roothash.Evidence{ID: m.rt1, EquivocationProposal: &roothash.EquivocationProposalEvidence{ProposalA: pa, ProposalB: pb}}
			if mask%7 == 0 { // both kinds set / none set
				ev.EquivocationExecutor = &roothash.EquivocationExecutorEvidence{}
			}
			raw := muxdrv.Sign(k, roothash.NewEvidenceTx(m.muxNonce(k.Address()), muxdrv.Fee(10, muxBigGas), ev))
			checkOne(raw, "evidence:proposal")
			m.muxResync()
		}
		checkOne(muxdrv.Sign(k, roothash.NewEvidenceTx(m.muxNonce(k.Address()), muxdrv.Fee(10, muxBigGas), &roothash.Evidence{ID: m.rt1})), "evidence:empty")
		// fee edge cases on a plain transfer, deterministically: (amount, gas) in {0, 1, max}^2 and a nil fee
		// (an accepted CheckTx advances the account's nonce in the check state)
		nonce := m.muxNonce(k.Address())
		m.muxResync()
		for _, amt := range []uint64{0, 1, 1000, math.MaxUint64} {
			for _, gas := range []uint64{0, 1, muxdrv.DefaultGas, math.MaxUint64} {
				tx := muxdrv.TxTransfer(nonce, muxdrv.Fee(amt, gas), m.g.Accounts[1].Address, 1)
				if checkOne(muxdrv.Sign(k, tx), fmt.Sprintf("fee:%d/%d", amt, gas)) {
					nonce++
				}
			}
		}
		checkOne(muxdrv.Sign(k, muxdrv.TxTransfer(nonce, nil, m.g.Accounts[1].Address, 1)), "fee:nil")
		sum.Count("mux:structured", "roothash.Evidence")
	}
	g0 := runtime.NumGoroutine()
	over, maxTx := m.oversize()
	sum.Extra["max_tx_size"] = maxTx
	genTx := func(rr *prng.R) ([]byte, string) {
		x := rr.Intn(100)
		switch {
		case x < 50:
			s := seeds[rr.Intn(len(seeds))]
			b, name := mutate(rr, s.raw)
			return b, "mut:" + name + ":" + s.name
		case x < 85:
			b, name := m.resignedMutant(rr, "")
			return b, "resigned:" + name
		case x < 90:
			switch rr.Intn(4) {
			case 0:
				return over, "oversize"
			case 1:
				return append(append([]byte{}, over...), rr.Bytes(rr.Intn(100))...), "oversize+tail"
			case 2:
				return over[:int(maxTx)+rr.Intn(3)-1], "oversize-cut-at-limit"
			default:
				s := seeds[rr.Intn(len(seeds))]
				return s.raw[:rr.Intn(len(s.raw)+1)], "trunc:" + s.name
			}
		default:
			s := seeds[rr.Intn(len(seeds))]
			return m.fresh(s.name), "fresh:" + s.name
		}
	}
	for _, s := range seeds {
		checkOne(s.raw, "seed:"+s.name)
	}
	for i := 0; i < n; i++ {
		raw, origin := genTx(r.Fork())
		checkOne(raw, origin)
		if i%200 == 199 {
			m.muxResync()
		}
	}
	g1 := runtime.NumGoroutine()
	sum.Extra["goroutines_checktx_phase"] = []int{g0, g1}
	blocks := max(6, n/150)
	for b := 0; b < blocks; b++ {
		var raws [][]byte
		for i := 0; i < 20; i++ {
			raw, _ := genTx(r.Fork())
			raws = append(raws, raw)
		}
		deliverOne(raws, fmt.Sprintf("block%d", b))
		if b%10 == 9 || b == blocks-1 {
			if err := m.healthy(); err != nil {
				viol(fmt.Sprintf("mux: after block %d a plain transfer no longer works (subsequent processing corrupted): %v", b, err),
					Case{Kind: "mux", Target: "deliver", Entries: hexEntries(raws), Origin: "health"})
			}
		}
	}
	sum.Extra["replica_reboots"] = m.reboots
	finishMux(sum, out)
}

func finishMux(sum *coqout.Summary, out string) {
	sum.Extra["budget"] = fmt.Sprintf("panic escaping the mux, > %v or > %d bytes allocated per call, failed health probe, goroutine growth", budgetTime, budgetAlloc)
	_ = os.MkdirAll(out, 0o755)
	_ = os.WriteFile(out+"/shards.json", []byte(`{"shards":0,"per_shard":1,"total":0,"header":"","run":""}`), 0o644)
	sum.Write(out)
}
