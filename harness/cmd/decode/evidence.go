package main

import (
	"fmt"
	"strings"

	"github.com/oasisprotocol/oasis-core/go/common"
	"github.com/oasisprotocol/oasis-core/go/common/cbor"
	"github.com/oasisprotocol/oasis-core/go/common/crypto/hash"
	"github.com/oasisprotocol/oasis-core/go/common/crypto/signature"
	roothash "github.com/oasisprotocol/oasis-core/go/roothash/api"
	"github.com/oasisprotocol/oasis-core/go/roothash/api/commitment"
	"github.com/oasisprotocol/oasis-core/go/roothash/api/message"

	"verifharness/internal/prng"
)

// evCommit describes one executor commitment of an equivocation evidence by
// the fields that matter for stateless validation; optional (pointer-typed)
// wire fields are present or absent independently.
type evCommit struct {
	Node    byte   `json:"node"`
	Sched   byte   `json:"sched"`
	Failure uint8  `json:"failure,omitempty"`
	Round   uint64 `json:"round"`
	Prev    byte   `json:"prev"`
	IO      *byte  `json:"io,omitempty"` // nil = field absent, else the hash is hash(byte)
	State   *byte  `json:"state,omitempty"`
	Msgs    *byte  `json:"msgs,omitempty"`
	InMsgs  *byte  `json:"inmsgs,omitempty"`
	InCount uint32 `json:"incount,omitempty"`
	RAK     bool   `json:"rak,omitempty"`
	NMsgs   int    `json:"nmsgs,omitempty"`
}

func evHash(b byte) hash.Hash { return hash.NewFromBytes([]byte{b}) }
func evOptHash(b *byte) *hash.Hash {
	if b == nil {
		return nil
	}
	h := evHash(*b)
	return &h
}
func evKey(b byte) signature.PublicKey {
	var k signature.PublicKey
	for i := range k {
		k[i] = b
	}
	return k
}

func (c evCommit) build() commitment.ExecutorCommitment {
	ec := commitment.ExecutorCommitment{
		NodeID: evKey(c.Node),
		Header: commitment.ExecutorCommitmentHeader{
			SchedulerID: evKey(c.Sched),
			Failure:     commitment.ExecutorCommitmentFailure(c.Failure),
			Header: commitment.ComputeResultsHeader{
				Round: c.Round, PreviousHash: evHash(c.Prev),
				IORoot: evOptHash(c.IO), StateRoot: evOptHash(c.State), MessagesHash: evOptHash(c.Msgs),
				InMessagesHash: evOptHash(c.InMsgs), InMessagesCount: c.InCount,
			},
		},
	}
	if c.RAK {
		ec.Header.RAKSignature = &signature.RawSignature{}
	}
	for i := 0; i < c.NMsgs; i++ {
		ec.Messages = append(ec.Messages, message.Message{})
	}
	return ec
}

func (c evCommit) coq() string {
	oh := func(b *byte) string {
		if b == nil {
			return "None"
		}
		h := evHash(*b)
		return "(Some " + cb(h[:]) + ")"
	}
	n, s, p := evKey(c.Node), evKey(c.Sched), evHash(c.Prev)
	return fmt.Sprintf("(Evidence.mkEc %s %s %d (Evidence.mkCrh %d %s %s %s %s %s %d) %v %d true)", cb(n[:]), cb(s[:]), c.Failure,
		c.Round, cb(p[:]), oh(c.IO), oh(c.State), oh(c.Msgs), oh(c.InMsgs), c.InCount, c.RAK, c.NMsgs)
}

var evErrPrefixes = []struct {
	p string
	c int
}{
	{"commits are equal", 120}, {"equivocation executor evidence signature public keys don't match", 121},
	{"equivocation evidence scheduler IDs don't match", 122}, {"equivocation evidence commit headers not for same round", 123},
	{"messages should be empty", 124}, {"equivocation evidence commit A not valid", 125}, {"equivocation evidence commit B not valid", 126},
	{"equivocation evidence commit headers match", 127}, {"equivocation evidence failure indication fields match", 127},
	{"invalid signature for commit", 128},
}

func evErrCode(err error) int {
	for _, e := range evErrPrefixes {
		if strings.HasPrefix(err.Error(), e.p) {
			return e.c
		}
	}
	return 9999
}

// evidenceBytes is the wire form: a roothash.Evidence CBOR value.
func evidenceBytes(a, b evCommit) []byte {
	return cbor.Marshal(&roothash.Evidence{
		ID:                   common.NewTestNamespaceFromSeed([]byte("verif evidence"), common.NamespaceTest),
		EquivocationExecutor: &roothash.EquivocationExecutorEvidence{CommitA: a.build(), CommitB: b.build()},
	})
}

func runEvidenceCase(c Case) (o outcome) {
	a, b := c.Ev[0], c.Ev[1]
	raw := evidenceBytes(a, b)
	var err error
	g := guarded(func() {
		var ev roothash.Evidence
		if err = cbor.Unmarshal(raw, &ev); err != nil {
			return
		}
		err = ev.ValidateBasic()
	})
	sigsOK := !(err != nil && evErrCode(err) == 128)
	var ot string
	switch {
	case g.panicked:
		ot, o.class = "OClass Panic", "panic"
	case err != nil:
		ot, o.class = fmt.Sprintf("OClass (Err %d)", evErrCode(err)), fmt.Sprintf("err%d", evErrCode(err))
	default:
		ot, o.class, o.ok = "OClass (Ok tt)", "ok", true
	}
	o.g = g
	o.term = fmt.Sprintf("(CEvidence %v %s %s, %s)", sigsOK, a.coq(), b.coq(), ot)
	if v := g.violation(); v != "" {
		o.violation = fmt.Sprintf("evidence: %s; roothash.Evidence CBOR bytes: %x", v, raw)
	}
	return o
}

func bp(b byte) *byte { return &b }

// evidenceSystematic: two non-failure commitments of the same node / scheduler /
// round / previous hash with every combination of absent optional fields.
func evidenceSystematic() []Case {
	var out []Case
	for mask := 0; mask < 256; mask++ {
		mk := func(m int, io byte) evCommit {
			c := evCommit{Node: 1, Sched: 2, Round: 5, Prev: 9}
			if m&1 == 0 {
				c.IO = bp(io)
			}
			if m&2 == 0 {
				c.State = bp(3)
			}
			if m&4 == 0 {
				c.Msgs = bp(4)
			}
			if m&8 == 0 {
				c.InMsgs = bp(5)
			}
			return c
		}
		out = append(out, Case{Kind: "evidence", Ev: []evCommit{mk(mask&15, 6), mk(mask>>4, 7)}, Origin: "systematic"})
	}
	return out
}

func genEvidenceCase(r *prng.R) Case {
	opt := func(v byte) *byte {
		if r.Chance(25) {
			return nil
		}
		return bp(v + byte(r.Intn(2)))
	}
	mk := func() evCommit {
		c := evCommit{Node: 1, Sched: 2, Round: 5, Prev: 9, IO: opt(6), State: opt(3), Msgs: opt(4), InMsgs: opt(5)}
		switch r.Intn(10) {
		case 0:
			c.Node = 8
		case 1:
			c.Sched = 8
		case 2:
			c.Round = 6
		case 3:
			c.Prev = 10
		case 4:
			c.NMsgs = 1
		}
		if r.Chance(35) { // failure-indicating (or invalid) commitment: swap failure / non-failure
			c.Failure = uint8([]int{1, 2, 2, 3}[r.Intn(4)])
			if r.Chance(70) {
				c.IO, c.State, c.Msgs, c.InMsgs = nil, nil, nil, nil
			}
			c.RAK = r.Chance(15)
			if r.Chance(15) {
				c.InCount = 1
			}
		}
		return c
	}
	a := mk()
	b := mk()
	if r.Chance(10) {
		b = a // equal headers
	}
	return Case{Kind: "evidence", Ev: []evCommit{a, b}, Origin: "random"}
}
