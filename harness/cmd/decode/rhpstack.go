package main

import (
	"bytes"
	"fmt"
	"math/bits"
	"os"
	"os/exec"
	"runtime/debug"
	"strings"
	"time"

	"github.com/oasisprotocol/oasis-core/go/common/cbor"
	"github.com/oasisprotocol/oasis-core/go/runtime/host/protocol"

	"verifharness/internal/coqout"
)

// trickleReader delivers a 64 MiB frame holding one huge byte string one byte
// per Read call, without materialising it, for at most max reads.
type trickleReader struct {
	head []byte
	pos  int
	max  int
}

func (t *trickleReader) Read(p []byte) (int, error) {
	if len(p) == 0 {
		return 0, nil
	}
	if t.pos >= t.max {
		return 0, fmt.Errorf("trickle: done")
	}
	if t.pos < len(t.head) {
		p[0] = t.head[t.pos]
	} else {
		p[0] = 0
	}
	t.pos++
	return 1, nil
}

func (t *trickleReader) Write(p []byte) (int, error) { return len(p), nil }

// rhpStackChild runs in a CHILD process: with the goroutine stack capped at
// maxStack bytes it reads one fragmented frame (reads one-byte reads) through
// the runtime-host message codec.  The third-party stream decoder keeps one
// activation per short read, so beyond a computable number of reads the child
// dies with the fatal (unrecoverable) "stack overflow".
func rhpStackChild(maxStack, reads int) {
	debug.SetMaxStack(maxStack)
	// length prefix 0x04000000 (64 MiB), then a byte string head declaring 0x03fffff0 bytes
	r := &trickleReader{head: []byte{0x04, 0x00, 0x00, 0x00, 0x5a, 0x03, 0xff, 0xff, 0xf0}, max: reads}
	codec := cbor.NewMessageCodec(r, "verif")
	var msg protocol.Message
	err := codec.Read(&msg)
	fmt.Println("child: survived; codec.Read returned:", err)
}

// childDies runs the child and reports whether it died of a stack overflow.
func childDies(maxStack, reads int) (bool, string) {
	cmd := exec.Command(os.Args[0], "-mode", "rhpstack-child", "-maxstack", fmt.Sprint(maxStack), "-reads", fmt.Sprint(reads), "-out", os.TempDir())
	var buf bytes.Buffer
	cmd.Stdout, cmd.Stderr = &buf, &buf
	done := make(chan error, 1)
	if err := cmd.Start(); err != nil {
		panic(err)
	}
	go func() { done <- cmd.Wait() }()
	select {
	case <-done:
	case <-time.After(180 * time.Second):
		_ = cmd.Process.Kill()
		return false, "child timed out"
	}
	o := buf.String()
	if strings.Contains(o, "goroutine stack exceeds") || strings.Contains(o, "stack overflow") {
		i := strings.Index(o, "goroutine stack exceeds")
		if i < 0 {
			i = 0
		}
		return true, strings.SplitN(o[i:], "\n", 2)[0]
	}
	if !strings.Contains(o, "child: survived") {
		return false, "child neither survived nor overflowed: " + o[max(0, len(o)-300):]
	}
	return false, ""
}

// runRhpStack (thorough tier only): the depth at which the decoder dies is
// COMPUTED by the model (Decode/StreamDepth.v) from the stack limit and the
// measured activation size, and checked against the real decoder:
//  1. calibration: binary search of the exact death depth under an 8 MiB limit
//     gives the bytes of stack per activation;
//  2. prediction: for 32 MiB and 64 MiB limits the model's death depth D is
//     tested from both sides (0.995 D must survive, 1.005 D must die);
//  3. the death at the predicted depth is reported under the known-finding key.
func runRhpStack(n int, out string) {
	hdr := "From Verif Require Import Lib.Base Decode.GoSlice Decode.Node Decode.ProofEntries Decode.Quote Decode.KeyFormat Decode.Misc Decode.Cbor Decode.More Decode.StreamDepth Decode.Cases.\n"
	wb := coqout.NewWriter(out, hdr, "run_case", "cout_eqb", 50)
	sum := coqout.NewSummary("runtime-host frame delivered one byte per read to cbor.MessageCodec.Read in child processes with reduced goroutine stack limits: death depth computed by the model (usable stack = largest power of two <= limit; one activation of measured size per read) and checked from both sides (thorough tier only)")
	if n > 0 {
		const cal = 8 << 20
		lo, hi := 1000, cal/8 // survives at lo, dies at hi
		for hi-lo > 1 {
			mid := (lo + hi) / 2
			if d, _ := childDies(cal, mid); d {
				hi = mid
			} else {
				lo = mid
			}
			sum.Evaluations++
		}
		// hi = first number of reads that dies; frames at death = hi - 3
		usable := func(m int) int { return 1 << (bits.Len(uint(m)) - 1) }
		framesAtDeath := hi - 3
		frame := (usable(cal) + framesAtDeath/2) / framesAtDeath
		base := usable(cal) - frame*(framesAtDeath-1)
		if base < 0 {
			base = 0
		}
		sum.Extra["calibration"] = map[string]int{"limit": cal, "first_dying_reads": hi, "frame_bytes": frame, "base_bytes": base}
		add := func(limit, reads int) (bool, string) {
			d, msg := childDies(limit, reads)
			sum.Evaluations++
			term := fmt.Sprintf("(CStreamDepth %d %d %d %d, ODies %v)", limit, frame, base, reads, d)
			wb.Add(term, map[string]any{"case": Case{Kind: "rhpstack", Mode: limit, NVals: reads}})
			if !d && msg != "" {
				sum.Violations = append(sum.Violations, map[string]any{"what": "rhpstack: " + msg, "case": Case{Kind: "rhpstack", Mode: limit, NVals: reads}})
			}
			return d, msg
		}
		// the exact boundary moves by a few activations from run to run (signal frames,
		// stack scanning): test 0.1% to either side of the measured boundary
		add(cal, lo*999/1000)
		add(cal, hi*1001/1000)
		predicted := map[string]int{}
		for _, limit := range []int{32 << 20, 64 << 20, 100_000_000} {
			d := (usable(limit) - base) / frame // model: death_depth
			predicted[fmt.Sprint(limit)] = d
			add(limit, d*995/1000+3)
			if died, msg := add(limit, d*1005/1000+3); died && limit == 64<<20 {
				sum.Findings = append(sum.Findings, coqout.Finding{Key: "C16:rhp-cbor-stream-decoder-stack-overflow-on-fragmented-frame",
					What:   fmt.Sprintf("runtime-host frame delivered in one-byte fragments: the CBOR stream decoder keeps one activation (%d bytes of stack) per short read (fxamacker/cbor stream.go Decode); with a %d-byte stack limit the model predicts death after %d reads and the process dies there with the unrecoverable %q; with the default 1 GB limit the computed depth is %d reads, below the 64 MiB a single frame may hold", frame, limit, d, msg, (usable(1000000000)-base)/frame),
					Replay: map[string]any{"case": Case{Kind: "rhpstack"}}})
			}
		}
		sum.Extra["predicted_death_depth"] = predicted
		sum.DistinctNontrivial = wb.Total
	}
	sum.Extra["label"] = "search + depth model: the decoder library is not verified; its nesting behaviour is modelled and the prediction is tested"
	wb.Close()
	sum.Write(out)
}
