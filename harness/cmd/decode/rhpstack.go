package main

import (
	"bytes"
	"fmt"
	"os"
	"os/exec"
	"runtime/debug"
	"strings"
	"time"

	"github.com/oasisprotocol/oasis-core/go/common/cbor"
	"github.com/oasisprotocol/oasis-core/go/runtime/host/protocol"

	"verifharness/internal/coqout"
)

// trickleReader delivers a 64 MiB frame holding one huge byte string one byte
// per Read call, without materialising it.
type trickleReader struct {
	head []byte
	pos  int
	max  int
}

func (t *trickleReader) Read(p []byte) (int, error) {
	if len(p) == 0 {
		return 0, nil
	}
	if t.pos >= t.max {
		return 0, fmt.Errorf("trickle: done")
	}
	if t.pos < len(t.head) {
		p[0] = t.head[t.pos]
	} else {
		p[0] = 0
	}
	t.pos++
	return 1, nil
}

func (t *trickleReader) Write(p []byte) (int, error) { return len(p), nil }

// rhpStackChild runs in a CHILD process: with the goroutine stack capped at
// 64 MiB it reads one fragmented frame through the runtime-host message codec.
// The third-party stream decoder recurses once per short read, so the child
// dies with a fatal (unrecoverable) stack overflow after about a million reads.
func rhpStackChild() {
	debug.SetMaxStack(64 << 20)
	// length prefix 0x04000000 (64 MiB), then a byte string head declaring 0x03fffff0 bytes
	r := &trickleReader{head: []byte{0x04, 0x00, 0x00, 0x00, 0x5a, 0x03, 0xff, 0xff, 0xf0}, max: 8 << 20}
	codec := cbor.NewMessageCodec(r, "verif")
	var msg protocol.Message
	err := codec.Read(&msg)
	fmt.Println("child: codec.Read returned:", err)
}

// runRhpStack (thorough tier only) spawns the child and reports the known
// finding when it dies of a stack overflow.
func runRhpStack(n int, out string) {
	sum := coqout.NewSummary("SEARCH ONLY: one fragmented 64 MiB runtime-host frame delivered one byte per read to cbor.MessageCodec.Read in a child process with a 64 MiB goroutine stack limit (thorough tier only)")
	sum.Extra["label"] = "search, not proof"
	if n > 0 {
		cmd := exec.Command(os.Args[0], "-mode", "rhpstack-child", "-out", out)
		var buf bytes.Buffer
		cmd.Stdout, cmd.Stderr = &buf, &buf
		t0 := time.Now()
		done := make(chan error, 1)
		if err := cmd.Start(); err != nil {
			panic(err)
		}
		go func() { done <- cmd.Wait() }()
		var err error
		select {
		case err = <-done:
		case <-time.After(120 * time.Second):
			_ = cmd.Process.Kill()
			err = fmt.Errorf("child timed out")
		}
		sum.Evaluations = 1
		o := buf.String()
		sum.Extra["child_seconds"] = time.Since(t0).Seconds()
		sum.Extra["child_exit"] = fmt.Sprint(err)
		if strings.Contains(o, "stack overflow") || strings.Contains(o, "goroutine stack exceeds") {
			i := strings.Index(o, "goroutine stack exceeds")
			if i < 0 {
				i = 0
			}
			sum.Findings = append(sum.Findings, coqout.Finding{Key: "C16:rhp-cbor-stream-decoder-stack-overflow-on-fragmented-frame",
				What:   "runtime-host frame delivered in one-byte fragments: the CBOR stream decoder recurses once per short read (fxamacker/cbor stream.go Decode) and the process dies with an unrecoverable stack overflow: " + strings.SplitN(o[i:], "\n", 2)[0],
				Replay: map[string]any{"case": Case{Kind: "rhpstack"}}})
		} else if err != nil {
			sum.Violations = append(sum.Violations, map[string]any{"what": "rhpstack child failed: " + fmt.Sprint(err) + ": " + o[max(0, len(o)-400):], "case": Case{Kind: "rhpstack"}})
		} else {
			sum.DistinctNontrivial = 1
		}
	}
	_ = os.MkdirAll(out, 0o755)
	_ = os.WriteFile(out+"/shards.json", []byte(`{"shards":0,"per_shard":1,"total":0,"header":"","run":""}`), 0o644)
	sum.Write(out)
}
