package main

// search_mux.go: the consensus-transaction part of the search-only stream.
//
// A muxFuzzer owns one genesis and one live in-process replica of the REAL ABCI
// multiplexer with all real apps (verifharness/internal/muxdrv).  Arbitrary bytes
// are fed to CheckTx (check) and to DeliverTx inside real blocks (deliver); valid
// signed seed transactions exist for every consensus method (seeds, fresh) and
// resignedMutant produces transactions whose ENVELOPE verifies (correct signer,
// signature and usually nonce) while the method body / fee / method name / nonce
// are mutated, so that the mutated bytes reach the method handlers of the apps.
//
// Block execution: PrepareProposal does not filter its candidates, it executes all
// of them through DeliverTx and appends the proposer's block-metadata system
// transaction, whose state root commits to the results.  A metadata transaction
// obtained for an EMPTY candidate list is therefore only valid when none of the
// inserted transactions changes state (any authenticated transaction changes nonce
// and balance), and EndBlock panics by design on the mismatch.  deliver() therefore
// runs Propose(raws) (garbage reaches DeliverTx in the proposal phase, where the
// mux recovers panics and answers with an empty proposal) and then Replay() of the
// returned list (block hash differs from the proposal phase, so the whole block is
// executed AGAIN through BeginBlock/DeliverTx/EndBlock/Commit without
// ProcessProposal; panics propagate; EndBlock cross-checks the state root of the
// first execution, i.e. determinism).  A swallowed proposal-phase panic is
// re-surfaced by replaying the minimal failing prefix.
//
// NOTE: muxdrv.NewGenesis resets the process-wide signature chain context; build
// the other search targets (srchEnsureChainContext keeps an existing context)
// after newMuxFuzzer, or accept that they run under this genesis' context.
//
// NOTE: transactions naming a system method ("consensus.Meta") make DeliverTx
// panic BY DESIGN (that is how the mux rejects a block: ProcessProposal recovers
// and answers REJECT).  resignedMutant never produces them; muxIsBlockRejection
// recognises such panics if a caller feeds them anyway.

import (
	"bytes"
	"context"
	"fmt"
	"math"
	"sort"
	"strings"
	"time"

	"github.com/oasisprotocol/curve25519-voi/primitives/x25519"

	beacon "github.com/oasisprotocol/oasis-core/go/beacon/api"
	"github.com/oasisprotocol/oasis-core/go/common"
	"github.com/oasisprotocol/oasis-core/go/common/cbor"
	"github.com/oasisprotocol/oasis-core/go/common/crypto/hash"
	"github.com/oasisprotocol/oasis-core/go/common/crypto/signature"
	"github.com/oasisprotocol/oasis-core/go/common/entity"
	"github.com/oasisprotocol/oasis-core/go/common/node"
	"github.com/oasisprotocol/oasis-core/go/common/quantity"
	"github.com/oasisprotocol/oasis-core/go/common/sgx"
	"github.com/oasisprotocol/oasis-core/go/common/version"
	"github.com/oasisprotocol/oasis-core/go/consensus/api/transaction"
	secretsState "github.com/oasisprotocol/oasis-core/go/consensus/cometbft/apps/keymanager/secrets/state"
	roothashState "github.com/oasisprotocol/oasis-core/go/consensus/cometbft/apps/roothash/state"
	vaultState "github.com/oasisprotocol/oasis-core/go/consensus/cometbft/apps/vault/state"
	genesis "github.com/oasisprotocol/oasis-core/go/genesis/api"
	governance "github.com/oasisprotocol/oasis-core/go/governance/api"
	churp "github.com/oasisprotocol/oasis-core/go/keymanager/churp"
	secrets "github.com/oasisprotocol/oasis-core/go/keymanager/secrets"
	registry "github.com/oasisprotocol/oasis-core/go/registry/api"
	roothash "github.com/oasisprotocol/oasis-core/go/roothash/api"
	"github.com/oasisprotocol/oasis-core/go/roothash/api/commitment"
	"github.com/oasisprotocol/oasis-core/go/roothash/api/message"
	scheduler "github.com/oasisprotocol/oasis-core/go/scheduler/api"
	staking "github.com/oasisprotocol/oasis-core/go/staking/api"
	upgrade "github.com/oasisprotocol/oasis-core/go/upgrade/api"
	vault "github.com/oasisprotocol/oasis-core/go/vault/api"

	"verifharness/internal/muxdrv"
	"verifharness/internal/prng"
)

const (
	// muxAccounts is the number of funded genesis accounts (one signer per method, so that
	// seeds and fresh transactions of different methods never compete for a nonce).
	muxAccounts = 32
	// muxWarmupBlocks: with the default epoch interval of 5 the epoch-2 transition (committee
	// election for the compute runtime) happens in block 10.
	muxWarmupBlocks = 11
	// muxSanityInterval: run the supplementarysanity app every block, so that a transaction
	// which leaves the state inconsistent makes the block panic (and is reported).
	muxSanityInterval = 1
	muxBigGas         = 4 * muxdrv.DefaultGas
)

// muxSeed is one valid signed transaction; name is the method name (variants of one method
// carry a "#variant" suffix).
type muxSeed struct {
	name string
	raw  []byte
}

// muxMethod knows how to build a currently plausible transaction for one method.
type muxMethod struct {
	name  string
	key   *muxdrv.Key
	gas   uint64
	build func(nonce uint64, fee *transaction.Fee) *transaction.Transaction
	// For bodies which are themselves signed blobs (entity / node descriptors): innerBlob
	// returns the descriptor CBOR, innerWrap signs an arbitrary blob properly and returns
	// the body.  Lets mutated DESCRIPTORS pass the inner signature check.
	innerBlob func() []byte
	innerWrap func(blob []byte) any
}

// muxFuzzer owns one genesis, one live replica (memory-only storage) and its chain bookkeeping.
type muxFuzzer struct {
	seed uint64
	g    *muxdrv.Genesis
	r    *muxdrv.Replica
	c    *muxdrv.Chain
	prop int

	methods []*muxMethod
	byName  map[string]*muxMethod
	// pending holds nonces handed out since the last commit (cleared by every commit).
	pending  map[staking.Address]uint64
	seedList []muxSeed

	// fresh1 owns rt1 and the compute node; fresh2 is the entity to deregister; fresh3 owns rt2;
	// fresh4/5/6 own the key manager runtimes km1 (policy, secrets), km2 (churp create) and
	// km3 (churp instance 1 exists: update / apply / confirm).
	fresh1, fresh2, fresh3, fresh4, fresh5, fresh6 *muxdrv.Validator
	rt1, rt2, km1, km2, km3                        common.Namespace
	vaultAddr                                      staking.Address
	voteID                                         uint64 // cached id of an active proposal (0 = not looked up)

	lastHash []byte
	// setupFail lists warm-up transactions which did not succeed (diagnostics).
	setupFail []string
	// reboots counts how often the replica had to be replaced after a panic.
	reboots int
	// lastOffender is the transaction (and lastPrefix the block prefix ending with it) which
	// made the last failed deliver() panic, when it could be isolated.
	lastOffender []byte
	lastPrefix   [][]byte
}

func muxQ(v uint64) quantity.Quantity { return *quantity.NewFromUint64(v) }

func muxHash(s string) hash.Hash { return hash.NewFromBytes([]byte(s)) }

func muxHashPtr(s string) *hash.Hash {
	h := muxHash(s)
	return &h
}

// newMuxFuzzer boots the multiplexer, advances it muxWarmupBlocks blocks (state initialised,
// epoch 2, a compute runtime with an elected committee, a vault, an active proposal, an
// allowance) and builds the seed transactions.  It panics if the boot fails.
func newMuxFuzzer(seed uint64) *muxFuzzer {
	opts := muxdrv.GenesisOpts{Accounts: muxAccounts}
	opts.Mutate = func(doc *genesis.Document) {
		// Long voting period: the warm-up proposal stays open for 1000 blocks.
		doc.Governance.Parameters.VotingPeriod = 200
		doc.Governance.Parameters.UpgradeMinEpochDiff = 300
		doc.Governance.Parameters.UpgradeCancelMinEpochDiff = 300
		doc.RootHash.Parameters.GasCosts = transaction.Costs{
			roothash.GasOpSubmitMsg: 1500, roothash.GasOpComputeCommit: 1800, roothash.GasOpEvidence: 1900,
		}
		doc.RootHash.Parameters.MaxEvidenceAge = 100
	}
	g, err := muxdrv.NewGenesis(seed, opts)
	if err != nil {
		panic(fmt.Sprintf("mux fuzzer: genesis: %v", err))
	}
	m := &muxFuzzer{seed: seed, g: g, prop: 0, byName: map[string]*muxMethod{}, pending: map[staking.Address]uint64{}}
	m.fresh1 = muxdrv.NewValidator(seed, 0)
	m.fresh2 = muxdrv.NewValidator(seed, 1)
	m.fresh3 = muxdrv.NewValidator(seed, 2)
	m.fresh4 = muxdrv.NewValidator(seed, 3)
	m.fresh5 = muxdrv.NewValidator(seed, 4)
	m.fresh6 = muxdrv.NewValidator(seed, 5)
	m.rt1 = common.NewTestNamespaceFromSeed([]byte(fmt.Sprintf("verif/%d/mux/rt1", seed)), common.NamespaceTest)
	m.rt2 = common.NewTestNamespaceFromSeed([]byte(fmt.Sprintf("verif/%d/mux/rt2", seed)), common.NamespaceTest)
	m.km1 = common.NewTestNamespaceFromSeed([]byte(fmt.Sprintf("verif/%d/mux/km1", seed)), common.NamespaceTest|common.NamespaceKeyManager)
	m.km2 = common.NewTestNamespaceFromSeed([]byte(fmt.Sprintf("verif/%d/mux/km2", seed)), common.NamespaceTest|common.NamespaceKeyManager)
	m.km3 = common.NewTestNamespaceFromSeed([]byte(fmt.Sprintf("verif/%d/mux/km3", seed)), common.NamespaceTest|common.NamespaceKeyManager)
	m.muxBuildMethods()
	if err := m.muxStart(); err != nil {
		m.close()
		panic(fmt.Sprintf("mux fuzzer: boot: %v", err))
	}
	for _, md := range m.methods {
		m.seedList = append(m.seedList, muxSeed{name: md.name, raw: m.fresh(md.name)})
	}
	m.muxResync()
	return m
}

func (m *muxFuzzer) close() {
	if m.r != nil {
		m.r.Close() // removes the replica's temp dir
		m.r = nil
	}
}

// seeds returns the valid signed transactions captured right after the warm-up (one per
// method / variant).  After one of them has been delivered its nonce is stale.
func (m *muxFuzzer) seeds() []muxSeed { return m.seedList }

// ---------------------------------------------------------------- boot / warm-up

func (m *muxFuzzer) muxStart() error {
	r, err := muxdrv.NewReplica(m.g, muxdrv.ReplicaConfig{
		Name: "muxfuzz", Identity: m.g.Validators[m.prop].Identity, SanityInterval: muxSanityInterval,
	})
	if err != nil {
		return err
	}
	m.r, m.c = r, muxdrv.NewChain(m.g)
	m.pending = map[staking.Address]uint64{}
	m.voteID, m.lastHash = 0, nil

	acc, f := m.g.Accounts, muxdrv.Fee(10, muxBigGas)
	sign := func(k *muxdrv.Key, b func(n uint64) *transaction.Transaction) []byte {
		a := k.Address()
		n := m.muxNonce(a)
		m.pending[a] = n + 1
		return muxdrv.Sign(k, b(n))
	}
	for h := 1; h <= muxWarmupBlocks; h++ {
		var txs [][]byte
		switch h {
		case 1:
			for _, k := range []*muxdrv.Key{m.fresh1.Entity, m.fresh1.Node, m.fresh2.Entity, m.fresh3.Entity, m.fresh4.Entity, m.fresh5.Entity, m.fresh6.Entity, m.g.Validators[3].Node} {
				to := k.Address()
				txs = append(txs, sign(acc[28].Key, func(n uint64) *transaction.Transaction { return muxdrv.TxTransfer(n, f, to, 100_000) }))
			}
			for i, k := range []*muxdrv.Key{m.fresh1.Entity, m.fresh2.Entity, m.fresh3.Entity, m.fresh4.Entity, m.fresh5.Entity, m.fresh6.Entity} {
				to, amt := k.Address(), []uint64{50_000, 2_000, 50_000, 50_000, 200_000, 50_000}[i]
				txs = append(txs, sign(acc[29].Key, func(n uint64) *transaction.Transaction { return muxdrv.TxAddEscrow(n, f, to, amt) }))
			}
			txs = append(txs, sign(acc[4].Key, func(n uint64) *transaction.Transaction {
				return muxdrv.TxAllow(n, f, acc[5].Address, false, 500_000)
			}))
			txs = append(txs, sign(acc[10].Key, func(n uint64) *transaction.Transaction {
				// The handler sees the nonce after authentication incremented it.
				m.vaultAddr = vault.NewVaultAddress(acc[10].Address, n+1)
				return vault.NewCreateTx(n, f, &vault.Create{
					AdminAuthority:   vault.Authority{Addresses: []staking.Address{acc[11].Address, acc[27].Address}, Threshold: 2},
					SuspendAuthority: vault.Authority{Addresses: []staking.Address{acc[11].Address}, Threshold: 1},
				})
			}))
			txs = append(txs, sign(acc[6].Key, func(n uint64) *transaction.Transaction { return muxdrv.TxSubmitChangeParams(n, f, 12) }))
		case 2:
			txs = append(txs, sign(m.fresh1.Entity, func(n uint64) *transaction.Transaction {
				return muxdrv.TxRegisterEntity(n, f, m.fresh1.Entity, []signature.PublicKey{m.fresh1.Node.Public()})
			}))
			txs = append(txs, sign(m.fresh2.Entity, func(n uint64) *transaction.Transaction { return muxdrv.TxRegisterEntity(n, f, m.fresh2.Entity, nil) }))
			for _, fv := range []*muxdrv.Validator{m.fresh3, m.fresh4, m.fresh5, m.fresh6} {
				txs = append(txs, sign(fv.Entity, func(n uint64) *transaction.Transaction { return muxdrv.TxRegisterEntity(n, f, fv.Entity, nil) }))
			}
			txs = append(txs, sign(acc[10].Key, func(n uint64) *transaction.Transaction { return muxdrv.TxTransfer(n, f, m.vaultAddr, 5000) }))
		case 3:
			txs = append(txs, sign(m.fresh1.Entity, func(n uint64) *transaction.Transaction {
				return registry.NewRegisterRuntimeTx(n, f, m.muxRuntimeDesc(m.rt1, m.fresh1.Entity.Public()))
			}))
			txs = append(txs, sign(m.fresh3.Entity, func(n uint64) *transaction.Transaction {
				return registry.NewRegisterRuntimeTx(n, f, m.muxRuntimeDesc(m.rt2, m.fresh3.Entity.Public()))
			}))
			for i, fv := range []*muxdrv.Validator{m.fresh4, m.fresh5, m.fresh6} {
				id := []common.Namespace{m.km1, m.km2, m.km3}[i]
				txs = append(txs, sign(fv.Entity, func(n uint64) *transaction.Transaction {
					return registry.NewRegisterRuntimeTx(n, f, m.muxKMRuntimeDesc(id, fv.Entity.Public()))
				}))
			}
		case 4:
			txs = append(txs, sign(m.fresh6.Entity, func(n uint64) *transaction.Transaction {
				return churp.NewCreateTx(n, f, m.muxChurpCreate(m.km3, 1))
			}))
			txs = append(txs, sign(m.fresh1.Node, func(n uint64) *transaction.Transaction {
				return muxdrv.TxRegisterNode(n, f, m.fresh1, m.muxNodeDesc())
			}))
		}
		res, err := m.muxExecBlock(txs)
		if err != nil {
			return fmt.Errorf("warm-up block %d: %w", h, err)
		}
		for i := range txs {
			if t := res.TxResults[i]; t.Code != 0 {
				m.setupFail = append(m.setupFail, fmt.Sprintf("h=%d tx=%d: %s/%d %s", h, i, t.Codespace, t.Code, t.Log))
			}
		}
	}
	return nil
}

// muxReboot replaces the replica after a panic by a fresh one brought to the same warm-up
// state (the captured seeds are valid again afterwards).
func (m *muxFuzzer) muxReboot() {
	m.close()
	m.reboots++
	if err := m.muxStart(); err != nil {
		panic(fmt.Sprintf("mux fuzzer: reboot: %v", err))
	}
}

// muxRuntimeDesc is a minimal compute runtime: one executor worker, 32 incoming messages.
func (m *muxFuzzer) muxRuntimeDesc(id common.Namespace, ent signature.PublicKey) *registry.Runtime {
	rt := &registry.Runtime{
		Versioned: cbor.NewVersioned(registry.LatestRuntimeDescriptorVersion),
		ID:        id,
		EntityID:  ent,
		Kind:      registry.KindCompute,
		Executor:  registry.ExecutorParameters{GroupSize: 1, RoundTimeout: 20, MaxMessages: 32},
		TxnScheduler: registry.TxnSchedulerParameters{
			BatchFlushTimeout: time.Second, MaxBatchSize: 1, MaxBatchSizeBytes: 1024, ProposerTimeout: 2 * time.Second,
			MaxInMessages: 32,
		},
		AdmissionPolicy: registry.RuntimeAdmissionPolicy{AnyNode: &registry.AnyNodeRuntimeAdmissionPolicy{}},
		Constraints: map[scheduler.CommitteeKind]map[scheduler.Role]registry.SchedulingConstraints{
			scheduler.KindComputeExecutor: {
				scheduler.RoleWorker:       {MinPoolSize: &registry.MinPoolSizeConstraint{Limit: 1}},
				scheduler.RoleBackupWorker: {MinPoolSize: &registry.MinPoolSizeConstraint{Limit: 0}},
			},
		},
		GovernanceModel: registry.GovernanceEntity,
		Staking: registry.RuntimeStakingParameters{
			MinInMessageFee: muxQ(100),
			Slashing:        map[staking.SlashReason]staking.Slash{staking.SlashRuntimeEquivocation: {Amount: muxQ(10)}},
		},
		Deployments: []*registry.VersionInfo{{}},
	}
	rt.Genesis.StateRoot.Empty()
	return rt
}

// muxKMRuntimeDesc is a minimal (test, non-SGX) key manager runtime.
func (m *muxFuzzer) muxKMRuntimeDesc(id common.Namespace, ent signature.PublicKey) *registry.Runtime {
	rt := m.muxRuntimeDesc(id, ent)
	rt.Kind = registry.KindKeyManager
	rt.Executor, rt.TxnScheduler, rt.Constraints = registry.ExecutorParameters{}, registry.TxnSchedulerParameters{}, nil
	rt.Staking = registry.RuntimeStakingParameters{}
	return rt
}

func muxEnclave() sgx.EnclaveIdentity {
	var e sgx.EnclaveIdentity
	copy(e.MrEnclave[:], "verif mrenclave")
	copy(e.MrSigner[:], "verif mrsigner")
	return e
}

func (m *muxFuzzer) muxChurpCreate(rt common.Namespace, id uint8) *churp.CreateRequest {
	cid := churp.Identity{ID: id, RuntimeID: rt}
	e := muxEnclave()
	return &churp.CreateRequest{
		Identity: cid, Threshold: 1, ExtraShares: 1, HandoffInterval: 2,
		Policy: churp.SignedPolicySGX{Policy: churp.PolicySGX{Identity: cid, MayShare: []sgx.EnclaveIdentity{e}, MayJoin: []sgx.EnclaveIdentity{e}}},
	}
}

// muxPolicySerial is the serial the next key manager policy of km1 must carry.
func (m *muxFuzzer) muxPolicySerial() uint32 {
	if m.r == nil || m.r.Height == 0 {
		return 1
	}
	tree, cl, err := m.r.TreeAt(0)
	if err != nil {
		return 1
	}
	defer cl()
	st, err := secretsState.NewImmutableState(tree).Status(context.Background(), m.km1)
	if err != nil || st == nil {
		return 1
	}
	switch {
	case st.NextPolicy != nil:
		return st.NextPolicy.Policy.Serial + 1
	case st.Policy != nil:
		return st.Policy.Policy.Serial + 1
	}
	return 1
}

// muxVaultNonce is the current action nonce of the warm-up vault.
func (m *muxFuzzer) muxVaultNonce() uint64 {
	if m.r == nil || m.r.Height == 0 {
		return 0
	}
	tree, cl, err := m.r.TreeAt(0)
	if err != nil {
		return 0
	}
	defer cl()
	v, err := vaultState.NewImmutableState(tree).Vault(context.Background(), m.vaultAddr)
	if err != nil || v == nil {
		return 0
	}
	return v.Nonce
}

// muxNodeDesc is the descriptor of fresh1's node: compute worker of rt1.
func (m *muxFuzzer) muxNodeDesc() *node.Node {
	nd := muxdrv.NodeDescriptor(m.fresh1, 100_000, node.RoleComputeWorker)
	nd.Runtimes = []*node.Runtime{{ID: m.rt1}}
	return nd
}

// ---------------------------------------------------------------- state lookups

// muxNonce is the next nonce of an account: what was handed out since the last commit, or
// the committed nonce.
func (m *muxFuzzer) muxNonce(a staking.Address) uint64 {
	if n, ok := m.pending[a]; ok {
		return n
	}
	if m.r == nil || m.r.Height == 0 {
		return 0
	}
	acc, err := m.r.Account(0, a)
	if err != nil || acc == nil {
		return 0
	}
	return acc.General.Nonce
}

// muxResync forgets the nonces handed out since the last commit (use after a CheckTx-only
// stream; every deliver() does it).
func (m *muxFuzzer) muxResync() {
	m.pending = map[staking.Address]uint64{}
	m.voteID = 0
}

func (m *muxFuzzer) muxEpoch() uint64 {
	if m.r == nil || m.r.Height == 0 {
		return 1
	}
	e, _, err := m.r.Epoch(0)
	if err != nil {
		return 1
	}
	return uint64(e)
}

// muxActiveProposal is the id of the newest active proposal (1 if none can be found).
func (m *muxFuzzer) muxActiveProposal() uint64 {
	if m.voteID != 0 {
		return m.voteID
	}
	m.voteID = 1
	if ps, err := m.r.Proposals(0); err == nil {
		for _, p := range ps {
			if p.State == governance.StateActive && p.ID >= m.voteID {
				m.voteID = p.ID
			}
		}
	}
	return m.voteID
}

func (m *muxFuzzer) muxRuntimeState(id common.Namespace) *roothash.RuntimeState {
	if m.r == nil || m.r.Height == 0 {
		return nil
	}
	tree, cl, err := m.r.TreeAt(0)
	if err != nil {
		return nil
	}
	defer cl()
	st, err := roothashState.NewImmutableState(tree).RuntimeState(context.Background(), id)
	if err != nil {
		return nil
	}
	return st
}

// ---------------------------------------------------------------- method table

func (m *muxFuzzer) muxAdd(name string, key *muxdrv.Key, gas uint64, build func(n uint64, f *transaction.Fee) *transaction.Transaction) *muxMethod {
	md := &muxMethod{name: name, key: key, gas: gas, build: build}
	m.methods = append(m.methods, md)
	m.byName[name] = md
	return md
}

// muxInQueue returns the queued incoming messages of a runtime.
func (m *muxFuzzer) muxInQueue(id common.Namespace) []*message.IncomingMessage {
	if m.r == nil || m.r.Height == 0 {
		return nil
	}
	tree, cl, err := m.r.TreeAt(0)
	if err != nil {
		return nil
	}
	defer cl()
	q, err := roothashState.NewImmutableState(tree).IncomingMessageQueue(context.Background(), id, 0, 32)
	if err != nil {
		return nil
	}
	return q
}

// muxCommit builds an executor commitment of fresh1's node (the only worker and hence the
// scheduler of rt1) on top of the runtime's current block.
func (m *muxFuzzer) muxCommit(ioRoot string, msgs []message.Message, takeIn bool) commitment.ExecutorCommitment {
	round, prev := uint64(1), muxHash("no previous block")
	if rs := m.muxRuntimeState(m.rt1); rs != nil && rs.LastBlock != nil {
		round, prev = rs.LastBlock.Header.Round+1, rs.LastBlock.Header.EncodedHash()
	}
	var in []*message.IncomingMessage
	if takeIn {
		in = m.muxInQueue(m.rt1)
	}
	mh, ih := message.MessagesHash(msgs), message.InMessagesHash(in)
	ec := commitment.ExecutorCommitment{
		NodeID: m.fresh1.Node.Public(),
		Header: commitment.ExecutorCommitmentHeader{
			SchedulerID: m.fresh1.Node.Public(),
			Header: commitment.ComputeResultsHeader{
				Round: round, PreviousHash: prev,
				IORoot: muxHashPtr(ioRoot), StateRoot: muxHashPtr("mux state root"),
				MessagesHash: &mh, InMessagesHash: &ih, InMessagesCount: uint32(len(in)),
			},
		},
		Messages: msgs,
	}
	if err := ec.Sign(m.fresh1.Node.Signer, m.rt1); err != nil {
		panic(err)
	}
	return ec
}

func (m *muxFuzzer) muxBuildMethods() {
	g := m.g
	acc, v := g.Accounts, g.Validators
	tx := transaction.NewTransaction

	// ---- staking
	m.muxAdd(string(staking.MethodTransfer), acc[0].Key, muxdrv.DefaultGas, func(n uint64, f *transaction.Fee) *transaction.Transaction {
		return muxdrv.TxTransfer(n, f, acc[1].Address, 100)
	})
	m.muxAdd(string(staking.MethodBurn), acc[1].Key, muxdrv.DefaultGas, func(n uint64, f *transaction.Fee) *transaction.Transaction {
		return muxdrv.TxBurn(n, f, 10)
	})
	m.muxAdd(string(staking.MethodAddEscrow), acc[2].Key, muxdrv.DefaultGas, func(n uint64, f *transaction.Fee) *transaction.Transaction {
		return muxdrv.TxAddEscrow(n, f, v[3].EntityAddress(), 20)
	})
	// Account 3 delegates to validator 3 in the genesis document.
	m.muxAdd(string(staking.MethodReclaimEscrow), acc[3].Key, muxdrv.DefaultGas, func(n uint64, f *transaction.Fee) *transaction.Transaction {
		return muxdrv.TxReclaimEscrow(n, f, v[3].EntityAddress(), 1)
	})
	m.muxAdd(string(staking.MethodAllow), acc[4].Key, muxdrv.DefaultGas, func(n uint64, f *transaction.Fee) *transaction.Transaction {
		return muxdrv.TxAllow(n, f, acc[5].Address, false, 10)
	})
	m.muxAdd(string(staking.MethodWithdraw), acc[5].Key, muxdrv.DefaultGas, func(n uint64, f *transaction.Fee) *transaction.Transaction {
		return muxdrv.TxWithdraw(n, f, acc[4].Address, 10)
	})
	m.muxAdd(string(staking.MethodAmendCommissionSchedule), v[1].Entity, muxdrv.DefaultGas, func(n uint64, f *transaction.Fee) *transaction.Transaction {
		return muxdrv.TxAmendCommission(n, f, m.muxEpoch()+3, 7000+n%1000, 0, 0, 0)
	})

	// ---- governance
	m.muxAdd(string(governance.MethodSubmitProposal), acc[6].Key, muxdrv.DefaultGas, func(n uint64, f *transaction.Fee) *transaction.Transaction {
		return muxdrv.TxSubmitChangeParams(n, f, 10+n%50)
	})
	m.muxAdd(string(governance.MethodSubmitProposal)+"#cancel", acc[7].Key, muxdrv.DefaultGas, func(n uint64, f *transaction.Fee) *transaction.Transaction {
		return muxdrv.TxSubmitCancelUpgrade(n, f, 1)
	})
	m.muxAdd(string(governance.MethodSubmitProposal)+"#upgrade", acc[8].Key, muxdrv.DefaultGas, func(n uint64, f *transaction.Fee) *transaction.Transaction {
		return governance.NewSubmitProposalTx(n, f, &governance.ProposalContent{
			Metadata: &governance.ProposalMetadata{Title: "verif upgrade"},
			Upgrade: &governance.UpgradeProposal{Descriptor: upgrade.Descriptor{
				Versioned: cbor.NewVersioned(upgrade.LatestDescriptorVersion), Handler: "verif-handler",
				Target: version.Versions, Epoch: beacon.EpochTime(m.muxEpoch() + 400 + n%7),
			}},
		})
	})
	m.muxAdd(string(governance.MethodCastVote), v[2].Entity, muxdrv.DefaultGas, func(n uint64, f *transaction.Fee) *transaction.Transaction {
		return muxdrv.TxCastVote(n, f, m.muxActiveProposal(), governance.VoteYes)
	})

	// ---- registry
	re := m.muxAdd(string(registry.MethodRegisterEntity), m.fresh1.Entity, muxdrv.DefaultGas, func(n uint64, f *transaction.Fee) *transaction.Transaction {
		return muxdrv.TxRegisterEntity(n, f, m.fresh1.Entity, []signature.PublicKey{m.fresh1.Node.Public()})
	})
	re.innerBlob = func() []byte {
		return cbor.Marshal(&entity.Entity{
			Versioned: cbor.NewVersioned(entity.LatestDescriptorVersion),
			ID:        m.fresh1.Entity.Public(),
			Nodes:     []signature.PublicKey{m.fresh1.Node.Public()},
		})
	}
	re.innerWrap = func(blob []byte) any {
		sig, err := signature.Sign(m.fresh1.Entity.Signer, registry.RegisterEntitySignatureContext, blob)
		if err != nil {
			panic(err)
		}
		return &entity.SignedEntity{Signed: signature.Signed{Blob: blob, Signature: *sig}}
	}
	rn := m.muxAdd(string(registry.MethodRegisterNode), m.fresh1.Node, muxBigGas, func(n uint64, f *transaction.Fee) *transaction.Transaction {
		return muxdrv.TxRegisterNode(n, f, m.fresh1, m.muxNodeDesc())
	})
	rn.innerBlob = func() []byte { return cbor.Marshal(m.muxNodeDesc()) }
	rn.innerWrap = func(blob []byte) any {
		ms := &node.MultiSignedNode{MultiSigned: signature.MultiSigned{Blob: blob}}
		for _, k := range []*muxdrv.Key{m.fresh1.Node, m.fresh1.P2P, m.fresh1.Cons, m.fresh1.VRF, m.fresh1.TLS} {
			sig, err := signature.Sign(k.Signer, registry.RegisterNodeSignatureContext, blob)
			if err != nil {
				panic(err)
			}
			ms.Signatures = append(ms.Signatures, *sig)
		}
		return ms
	}
	m.muxAdd(string(registry.MethodDeregisterEntity), m.fresh2.Entity, muxdrv.DefaultGas, func(n uint64, f *transaction.Fee) *transaction.Transaction {
		return registry.NewDeregisterEntityTx(n, f)
	})
	m.muxAdd(string(registry.MethodUnfreezeNode), v[3].Entity, muxdrv.DefaultGas, func(n uint64, f *transaction.Fee) *transaction.Transaction {
		return registry.NewUnfreezeNodeTx(n, f, &registry.UnfreezeNode{NodeID: v[3].Node.Public()})
	})
	m.muxAdd(string(registry.MethodRegisterRuntime), m.fresh3.Entity, muxBigGas, func(n uint64, f *transaction.Fee) *transaction.Transaction {
		return registry.NewRegisterRuntimeTx(n, f, m.muxRuntimeDesc(m.rt2, m.fresh3.Entity.Public()))
	})
	m.muxAdd(string(registry.MethodProveFreshness), v[3].Node, muxdrv.DefaultGas, func(n uint64, f *transaction.Fee) *transaction.Transaction {
		var blob [32]byte
		copy(blob[:], "verif freshness proof")
		return registry.NewProveFreshnessTx(n, f, blob)
	})

	// ---- roothash
	m.muxAdd(string(roothash.MethodSubmitMsg), acc[9].Key, muxdrv.DefaultGas, func(n uint64, f *transaction.Fee) *transaction.Transaction {
		return roothash.NewSubmitMsgTx(n, f, &roothash.SubmitMsg{ID: m.rt1, Tag: n, Fee: muxQ(100), Tokens: muxQ(50), Data: []byte("verif incoming message")})
	})
	m.muxAdd(string(roothash.MethodExecutorCommit), acc[14].Key, muxBigGas, func(n uint64, f *transaction.Fee) *transaction.Transaction {
		return roothash.NewExecutorCommitTx(n, f, m.rt1, []commitment.ExecutorCommitment{m.muxCommit("mux io root", nil, true)})
	})
	m.muxAdd(string(roothash.MethodExecutorCommit)+"#msgs", acc[15].Key, muxBigGas, func(n uint64, f *transaction.Fee) *transaction.Transaction {
		msgs := []message.Message{
			{Staking: &message.StakingMessage{Transfer: &staking.Transfer{To: acc[0].Address, Amount: muxQ(1)}}},
			{Registry: &message.RegistryMessage{UpdateRuntime: m.muxRuntimeDesc(m.rt1, m.fresh1.Entity.Public())}},
		}
		return roothash.NewExecutorCommitTx(n, f, m.rt1, []commitment.ExecutorCommitment{m.muxCommit("mux io root", msgs, false)})
	})
	m.muxAdd(string(roothash.MethodEvidence), acc[16].Key, muxBigGas, func(n uint64, f *transaction.Fee) *transaction.Transaction {
		return roothash.NewEvidenceTx(n, f, &roothash.Evidence{
			ID: m.rt1,
			EquivocationExecutor: &roothash.EquivocationExecutorEvidence{
				CommitA: m.muxCommit("mux io root A", nil, false),
				CommitB: m.muxCommit("mux io root B", nil, false),
			},
		})
	})

	// ---- beacon (the insecure backend rejects both after decoding them)
	m.muxAdd(string(beacon.MethodVRFProve), acc[17].Key, muxdrv.DefaultGas, func(n uint64, f *transaction.Fee) *transaction.Transaction {
		return tx(n, f, beacon.MethodVRFProve, &beacon.VRFProve{Epoch: beacon.EpochTime(m.muxEpoch()), Pi: bytes.Repeat([]byte{0x42}, 80)})
	})
	m.muxAdd(string(beacon.MethodSetEpoch), acc[18].Key, muxdrv.DefaultGas, func(n uint64, f *transaction.Fee) *transaction.Transaction {
		return muxdrv.TxSetEpoch(n, f, m.muxEpoch()+1)
	})

	// ---- key manager: km1/km2/km3 are registered (test, non-SGX) key manager runtimes without
	// nodes, so policy updates and churp create/update work and the node-side methods are
	// rejected after the lookups.
	enclave := muxEnclave()
	var rek x25519.PublicKey
	copy(rek[:], "verif runtime encryption key")
	secret := secrets.EncryptedSecret{
		Checksum:    bytes.Repeat([]byte{7}, 32),
		PubKey:      rek,
		Ciphertexts: map[x25519.PublicKey][]byte{rek: bytes.Repeat([]byte{9}, 48)},
	}
	m.muxAdd(string(secrets.MethodUpdatePolicy), m.fresh4.Entity, muxdrv.DefaultGas, func(n uint64, f *transaction.Fee) *transaction.Transaction {
		pol := secrets.PolicySGX{
			Serial: m.muxPolicySerial(), ID: m.km1,
			Enclaves: map[sgx.EnclaveIdentity]*secrets.EnclavePolicySGX{enclave: {
				MayQuery:     map[common.Namespace][]sgx.EnclaveIdentity{m.rt1: {enclave}},
				MayReplicate: []sgx.EnclaveIdentity{enclave},
			}},
			MasterSecretRotationInterval: 3, MaxEphemeralSecretAge: 5,
		}
		sig, err := signature.Sign(m.fresh4.Entity.Signer, secrets.PolicySGXSignatureContext, cbor.Marshal(pol))
		if err != nil {
			panic(err)
		}
		return secrets.NewUpdatePolicyTx(n, f, &secrets.SignedPolicySGX{Policy: pol, Signatures: []signature.Signature{*sig}})
	})
	m.muxAdd(string(secrets.MethodPublishMasterSecret), acc[20].Key, muxdrv.DefaultGas, func(n uint64, f *transaction.Fee) *transaction.Transaction {
		s := secrets.EncryptedMasterSecret{ID: m.km1, Generation: 0, Epoch: beacon.EpochTime(m.muxEpoch()), Secret: secret}
		sig, err := signature.SignRaw(acc[20].Key.Signer, secrets.EncryptedMasterSecretSignatureContext, cbor.Marshal(s))
		if err != nil {
			panic(err)
		}
		return secrets.NewPublishMasterSecretTx(n, f, &secrets.SignedEncryptedMasterSecret{Secret: s, Signature: *sig})
	})
	m.muxAdd(string(secrets.MethodPublishEphemeralSecret), acc[21].Key, muxdrv.DefaultGas, func(n uint64, f *transaction.Fee) *transaction.Transaction {
		s := secrets.EncryptedEphemeralSecret{ID: m.km1, Epoch: beacon.EpochTime(m.muxEpoch() + 1), Secret: secret}
		sig, err := signature.SignRaw(acc[21].Key.Signer, secrets.EncryptedEphemeralSecretSignatureContext, cbor.Marshal(s))
		if err != nil {
			panic(err)
		}
		return secrets.NewPublishEphemeralSecretTx(n, f, &secrets.SignedEncryptedEphemeralSecret{Secret: s, Signature: *sig})
	})
	m.muxAdd(string(churp.MethodCreate), m.fresh5.Entity, muxdrv.DefaultGas, func(n uint64, f *transaction.Fee) *transaction.Transaction {
		return churp.NewCreateTx(n, f, m.muxChurpCreate(m.km2, uint8(n%250)+1))
	})
	m.muxAdd(string(churp.MethodUpdate), m.fresh6.Entity, muxdrv.DefaultGas, func(n uint64, f *transaction.Fee) *transaction.Transaction {
		es, hi := uint8(1+n%3), beacon.EpochTime(2+n%5)
		return churp.NewUpdateTx(n, f, &churp.UpdateRequest{Identity: churp.Identity{ID: 1, RuntimeID: m.km3}, ExtraShares: &es, HandoffInterval: &hi})
	})
	m.muxAdd(string(churp.MethodApply), acc[25].Key, muxdrv.DefaultGas, func(n uint64, f *transaction.Fee) *transaction.Transaction {
		a := churp.ApplicationRequest{Identity: churp.Identity{ID: 1, RuntimeID: m.km3}, Epoch: beacon.EpochTime(m.muxEpoch() + 1), Checksum: muxHash("verif churp matrix")}
		sig, err := signature.SignRaw(acc[25].Key.Signer, churp.ApplicationRequestSignatureContext, cbor.Marshal(a))
		if err != nil {
			panic(err)
		}
		return churp.NewApplyTx(n, f, &churp.SignedApplicationRequest{Application: a, Signature: *sig})
	})
	m.muxAdd(string(churp.MethodConfirm), acc[26].Key, muxdrv.DefaultGas, func(n uint64, f *transaction.Fee) *transaction.Transaction {
		c := churp.ConfirmationRequest{Identity: churp.Identity{ID: 1, RuntimeID: m.km3}, Epoch: beacon.EpochTime(m.muxEpoch() + 1), Checksum: muxHash("verif churp matrix")}
		sig, err := signature.SignRaw(acc[26].Key.Signer, churp.ConfirmationRequestSignatureContext, cbor.Marshal(c))
		if err != nil {
			panic(err)
		}
		return churp.NewConfirmTx(n, f, &churp.SignedConfirmationRequest{Confirmation: c, Signature: *sig})
	})

	// ---- vault (the warm-up vault has a 2-of-2 admin authority, so actions stay pending)
	m.muxAdd(string(vault.MethodCreate), acc[10].Key, muxBigGas, func(n uint64, f *transaction.Fee) *transaction.Transaction {
		au := vault.Authority{Addresses: []staking.Address{acc[10].Address, acc[11].Address}, Threshold: 1}
		return vault.NewCreateTx(n, f, &vault.Create{AdminAuthority: au, SuspendAuthority: au})
	})
	m.muxAdd(string(vault.MethodAuthorizeAction), acc[11].Key, muxBigGas, func(n uint64, f *transaction.Fee) *transaction.Transaction {
		body := cbor.Marshal(&staking.Transfer{To: acc[11].Address, Amount: muxQ(10)})
		return vault.NewAuthorizeActionTx(n, f, &vault.AuthorizeAction{Vault: m.vaultAddr, Nonce: m.muxVaultNonce(), Action: vault.Action{
			ExecuteMessage: &vault.ActionExecuteMessage{Method: staking.MethodTransfer, Body: body},
		}})
	})
	m.muxAdd(string(vault.MethodCancelAction), acc[27].Key, muxBigGas, func(n uint64, f *transaction.Fee) *transaction.Transaction {
		return vault.NewCancelActionTx(n, f, &vault.CancelAction{Vault: m.vaultAddr, Nonce: m.muxVaultNonce()})
	})
}

// ---------------------------------------------------------------- transactions

// muxSign signs under recover (cbor.Marshal panics on an unencodable value); nil on failure.
func muxSign(k *muxdrv.Key, tx *transaction.Transaction) (raw []byte) {
	defer func() {
		if recover() != nil {
			raw = nil
		}
	}()
	return muxdrv.Sign(k, tx)
}

// fresh returns a currently valid signed transaction for the method (nonce = the account's
// current nonce, counting transactions handed out since the last commit).  Unknown name: nil.
func (m *muxFuzzer) fresh(name string) []byte {
	md := m.byName[name]
	if md == nil {
		return nil
	}
	a := md.key.Address()
	n := m.muxNonce(a)
	m.pending[a] = n + 1
	return muxdrv.Sign(md.key, md.build(n, muxdrv.Fee(10, md.gas)))
}

// muxReaches reports whether a transaction with this body survives the envelope decoding
// unchanged (i.e. the body is exactly one well-formed CBOR item), so that it reaches a handler.
func muxReaches(tx *transaction.Transaction) (ok bool) {
	defer func() {
		if recover() != nil {
			ok = false
		}
	}()
	var t2 transaction.Transaction
	if err := cbor.Unmarshal(cbor.Marshal(tx), &t2); err != nil {
		return false
	}
	return bytes.Equal(t2.Body, tx.Body) && t2.Method == tx.Method
}

var muxBogusMethods = []string{
	"staking.Nope", "staking", "staking.", ".Transfer", "Staking.Transfer", "staking.Transfer ", "staking.Transfer\x00",
	"registry.RegisterEntity2", "consensus.Nope", "supplementarysanity.Check", "000_state", "\xff\xfe", "",
}

// resignedMutant builds the transaction for name with the account's current nonce, mutates
// its CBOR body (byte-level with mutate, structurally, by re-signing a mutated inner
// descriptor, or by swapping in another method's body) and/or fee / method / nonce, and then
// signs it properly: the envelope verifies and the mutated fields reach authentication and
// the method handlers.  Unknown name: a random method.
func (m *muxFuzzer) resignedMutant(r *prng.R, name string) ([]byte, string) {
	md := m.byName[name]
	if md == nil {
		md = m.methods[r.Intn(len(m.methods))]
	}
	addr := md.key.Address()
	nonce := m.muxNonce(addr)
	tx := md.build(nonce, muxdrv.Fee(10, md.gas))
	authOK := true // predicted: nonce gets consumed
	var ops []string
	n := 1
	if r.Chance(30) {
		n = 2
	}
	for i := 0; i < n; i++ {
		switch k := r.Intn(100); {
		case k < 30: // byte-level body mutation, kept only if the body stays one CBOR item
			done := false
			for try := 0; try < 8 && !done; try++ {
				b, op := mutate(r, tx.Body)
				t2 := *tx
				t2.Body = b
				if muxReaches(&t2) {
					tx.Body, done = b, true
					ops = append(ops, "body:"+op)
				}
			}
			if !done {
				b, op := muxMutateCBOR(r, tx.Body)
				tx.Body = b
				ops = append(ops, "cbor:"+op)
			}
		case k < 62:
			b, op := muxMutateCBOR(r, tx.Body)
			tx.Body = b
			ops = append(ops, "cbor:"+op)
		case k < 72 && md.innerBlob != nil: // mutated descriptor, valid inner signature(s)
			blob, op := muxMutateCBOR(r, md.innerBlob())
			tx.Body = cbor.Marshal(md.innerWrap(blob))
			ops = append(ops, "inner:"+op)
		case k < 72: // another method's body under this method (type confusion)
			o := m.methods[r.Intn(len(m.methods))]
			tx.Body = o.build(nonce, nil).Body
			ops = append(ops, "bodyof:"+o.name)
		case k < 80: // this body under another method name
			if r.Chance(50) {
				o := m.methods[r.Intn(len(m.methods))]
				tx.Method = o.build(nonce, nil).Method
			} else {
				tx.Method = transaction.MethodName(muxBogusMethods[r.Intn(len(muxBogusMethods))])
				if r.Chance(10) {
					tx.Method = transaction.MethodName(strings.Repeat("A", 1+r.Intn(20000)))
				}
			}
			ops = append(ops, "method")
		case k < 90:
			if tx.Fee == nil {
				tx.Fee = muxdrv.Fee(10, md.gas)
			}
			switch r.Intn(8) {
			case 0:
				tx.Fee = nil
				ops = append(ops, "fee:nil")
			case 1:
				tx.Fee.Gas = math.MaxUint64
				ops = append(ops, "gas:max")
			case 2:
				tx.Fee.Gas = transaction.Gas(r.Intn(3))
				ops = append(ops, "gas:tiny")
			case 3:
				tx.Fee.Gas = math.MaxInt64 + transaction.Gas(r.Intn(3))
				ops = append(ops, "gas:2^63")
			case 4:
				tx.Fee.Amount = muxQ(math.MaxUint64)
				authOK = false
				ops = append(ops, "fee:max64")
			case 5:
				var q quantity.Quantity
				_ = q.UnmarshalBinary(bytes.Repeat([]byte{0xff}, 1+r.Intn(64)))
				tx.Fee.Amount = q
				authOK = false
				ops = append(ops, "fee:huge")
			case 6:
				tx.Fee.Amount = muxQ(0)
				tx.Fee.Gas = math.MaxUint64
				ops = append(ops, "fee:0/gas:max")
			default:
				tx.Fee.Amount = muxQ(uint64(r.Intn(3)))
				ops = append(ops, "fee:tiny")
			}
		case k < 96:
			switch r.Intn(4) {
			case 0:
				tx.Nonce = math.MaxUint64
			case 1:
				tx.Nonce = nonce + 1
			case 2:
				tx.Nonce = nonce - 1
			default:
				tx.Nonce = r.U64()
			}
			authOK = authOK && tx.Nonce == nonce
			ops = append(ops, "nonce")
		default: // degenerate bodies
			switch r.Intn(4) {
			case 0:
				tx.Body = nil
			case 1:
				tx.Body = cbor.Marshal(bytes.Repeat([]byte{0xa5}, 1+r.Intn(30000)))
			case 2:
				tx.Body = cbor.Marshal(map[string]any{})
			default:
				tx.Body = cbor.Marshal([]any{})
			}
			ops = append(ops, "body:degenerate")
		}
	}
	if _, known := m.muxKnownMethod(tx.Method); !known {
		authOK = false // unknown methods are rejected before authentication
	}
	raw := muxSign(md.key, tx)
	if raw == nil {
		return m.fresh(md.name), md.name + ":unencodable"
	}
	if authOK {
		m.pending[addr] = nonce + 1
	}
	return raw, md.name + ":" + strings.Join(ops, "+")
}

func (m *muxFuzzer) muxKnownMethod(name transaction.MethodName) (*muxMethod, bool) {
	for _, md := range m.methods {
		if i := strings.IndexByte(md.name, '#'); i < 0 && md.name == string(name) {
			return md, true
		}
	}
	return nil, false
}

// ---------------------------------------------------------------- structural CBOR mutation

var muxInterestingU64 = []uint64{
	0, 1, 2, 23, 24, 255, 256, 65535, 65536, 1<<31 - 1, 1 << 31, 1<<32 - 1, 1 << 32,
	1<<53 + 1, 1<<63 - 1, 1 << 63, math.MaxUint64 - 1, math.MaxUint64,
}

// muxMutateCBOR decodes one CBOR item generically, mutates one random node of the tree and
// re-encodes it (canonically): the result is always a single well-formed item.  Items that
// cannot be decoded generically (e.g. maps with byte-string keys) are wrapped / replaced.
func muxMutateCBOR(r *prng.R, b []byte) (out []byte, op string) {
	var v any
	if len(b) == 0 || cbor.Unmarshal(b, &v) != nil {
		switch r.Intn(3) {
		case 0:
			return cbor.Marshal([]any{cbor.RawMessage(muxOneItem(b))}), "wrap-array"
		case 1:
			return cbor.Marshal(map[string]any{"v": cbor.RawMessage(muxOneItem(b))}), "wrap-map"
		default:
			return cbor.Marshal(muxRandomValue(r, 0)), "replace"
		}
	}
	defer func() {
		if recover() != nil {
			out, op = cbor.Marshal(nil), "unencodable"
		}
	}()
	k := r.Intn(muxCountNodes(v))
	v = muxApply(r, v, &k, &op)
	return cbor.Marshal(v), op
}

// muxOneItem returns b if it is exactly one well-formed CBOR item, a null otherwise.
func muxOneItem(b []byte) []byte {
	t := transaction.Transaction{Method: "x", Body: b}
	if len(b) > 0 && muxReaches(&t) {
		return b
	}
	return []byte{0xf6}
}

func muxSortedKeys(mm map[any]any) []any {
	keys := make([]any, 0, len(mm))
	for k := range mm {
		keys = append(keys, k)
	}
	sort.Slice(keys, func(i, j int) bool {
		return fmt.Sprintf("%T:%v", keys[i], keys[i]) < fmt.Sprintf("%T:%v", keys[j], keys[j])
	})
	return keys
}

func muxCountNodes(v any) int {
	n := 1
	switch t := v.(type) {
	case []any:
		for _, e := range t {
			n += muxCountNodes(e)
		}
	case map[any]any:
		for _, e := range t {
			n += muxCountNodes(e)
		}
	}
	return n
}

// muxApply mutates the k-th node (pre-order, map keys in sorted order).
func muxApply(r *prng.R, v any, k *int, op *string) any {
	if *k == 0 {
		*k = -1
		nv, o := muxMutNode(r, v)
		*op = o
		return nv
	}
	*k--
	switch t := v.(type) {
	case []any:
		for i := range t {
			if *k < 0 {
				break
			}
			t[i] = muxApply(r, t[i], k, op)
		}
	case map[any]any:
		for _, key := range muxSortedKeys(t) {
			if *k < 0 {
				break
			}
			t[key] = muxApply(r, t[key], k, op)
		}
	}
	return v
}

func muxRandomValue(r *prng.R, depth int) any {
	switch r.Intn(9) {
	case 0:
		return nil
	case 1:
		return r.Chance(50)
	case 2:
		return muxInterestingU64[r.Intn(len(muxInterestingU64))]
	case 3:
		return -int64(r.U64() >> uint(1+r.Intn(62)))
	case 4:
		return r.Bytes(r.Intn(70))
	case 5:
		return strings.Repeat("x", r.Intn(40))
	case 6:
		return math.Float64frombits(r.U64())
	case 7:
		if depth < 3 {
			return []any{muxRandomValue(r, depth+1), muxRandomValue(r, depth+1)}
		}
		return []any{}
	default:
		if depth < 3 {
			return map[any]any{"a": muxRandomValue(r, depth+1), uint64(r.Intn(5)): muxRandomValue(r, depth+1)}
		}
		return map[any]any{}
	}
}

func muxMutNode(r *prng.R, v any) (any, string) {
	// Type-independent replacements.
	switch r.Intn(12) {
	case 0:
		return nil, "null"
	case 1:
		return muxRandomValue(r, 0), "retype"
	case 2: // deep nesting around the value
		d := 1 + r.Intn(40)
		for i := 0; i < d; i++ {
			v = []any{v}
		}
		return v, "nest"
	}
	switch t := v.(type) {
	case uint64:
		switch r.Intn(5) {
		case 0:
			return t + 1, "u+1"
		case 1:
			return t - 1, "u-1"
		case 2:
			return -int64(t>>1) - 1, "u-neg"
		default:
			return muxInterestingU64[r.Intn(len(muxInterestingU64))], "u-interesting"
		}
	case int64:
		return uint64(-t), "i-abs"
	case bool:
		return !t, "flip"
	case float64:
		return uint64(t), "f-int"
	case string:
		switch r.Intn(5) {
		case 0:
			return "", "s-empty"
		case 1:
			return t + t, "s-double"
		case 2:
			return strings.Repeat("A", 1+r.Intn(5000)), "s-long"
		case 3:
			return []byte(t), "s-bytes"
		default:
			b, _ := mutate(r, []byte(t))
			return strings.ToValidUTF8(string(b), "?"), "s-mut"
		}
	case []byte:
		b := append([]byte{}, t...)
		switch r.Intn(10) {
		case 0:
			return []byte{}, "b-empty"
		case 1:
			if len(b) > 0 {
				b = b[:len(b)-1]
			}
			return b, "b-short1"
		case 2:
			return append(b, 0), "b-long1"
		case 3:
			return append([]byte{0}, b...), "b-lead0" // non-canonical quantity
		case 4:
			return bytes.Repeat([]byte{0xff}, len(b)), "b-ff"
		case 5:
			return make([]byte, len(b)), "b-zero"
		case 6:
			return bytes.Repeat([]byte{0xff}, 1+r.Intn(600)), "b-huge"
		case 7:
			return string(b), "b-text"
		case 8:
			if len(b) > 0 {
				b[r.Intn(len(b))] ^= 1 << uint(r.Intn(8))
			}
			return b, "b-flip"
		default:
			b, _ = mutate(r, b)
			return b, "b-mut"
		}
	case []any:
		switch r.Intn(6) {
		case 0:
			return []any{}, "a-empty"
		case 1:
			if len(t) > 0 {
				i := r.Intn(len(t))
				return append(append([]any{}, t[:i]...), t[i+1:]...), "a-drop"
			}
			return []any{nil}, "a-null"
		case 2:
			if len(t) > 0 {
				e := t[r.Intn(len(t))]
				n := 1 + r.Intn(4)
				if r.Chance(20) {
					n = 200 + r.Intn(1800)
				}
				o := append([]any{}, t...)
				for i := 0; i < n; i++ {
					o = append(o, e)
				}
				return o, "a-dup"
			}
			return []any{[]any{}}, "a-nested"
		case 3:
			return append(append([]any{}, t...), muxRandomValue(r, 0)), "a-append"
		case 4:
			o := append([]any{}, t...)
			for i, j := 0, len(o)-1; i < j; i, j = i+1, j-1 {
				o[i], o[j] = o[j], o[i]
			}
			return o, "a-reverse"
		default:
			mm := map[any]any{}
			for i, e := range t {
				mm[uint64(i)] = e
			}
			return mm, "a-map"
		}
	case map[any]any:
		keys := muxSortedKeys(t)
		switch r.Intn(6) {
		case 0:
			return map[any]any{}, "m-empty"
		case 1:
			if len(keys) > 0 {
				delete(t, keys[r.Intn(len(keys))])
			}
			return t, "m-drop"
		case 2:
			t["verif_unknown_field"] = muxRandomValue(r, 0)
			return t, "m-unknown"
		case 3:
			if len(keys) > 1 {
				a, b := keys[r.Intn(len(keys))], keys[r.Intn(len(keys))]
				t[a], t[b] = t[b], t[a]
			}
			return t, "m-swap"
		case 4:
			if len(keys) > 0 {
				t[keys[r.Intn(len(keys))]] = muxRandomValue(r, 0)
			}
			return t, "m-retype"
		default:
			var arr []any
			for _, k := range keys {
				arr = append(arr, t[k])
			}
			return arr, "m-array"
		}
	}
	return muxRandomValue(r, 0), "retype"
}

// ---------------------------------------------------------------- CheckTx / blocks

// check feeds raw to CheckTx as a new transaction and, if recheck is set, once more as a
// recheck.  err is non-nil ONLY if the mux panicked (*muxdrv.PanicError; the replica is
// replaced); a rejection is not an error.  accepted: code 0 (of the new check).
func (m *muxFuzzer) check(raw []byte, recheck bool) (accepted bool, err error) {
	resp, err := m.r.CheckTx(raw, false)
	if err == nil && recheck {
		_, err = m.r.CheckTx(raw, true)
	}
	if err != nil {
		m.lastOffender = append([]byte{}, raw...)
		m.muxReboot()
		return false, err
	}
	return resp.Code == 0, nil
}

// muxIsBlockRejection recognises the panics by which the mux rejects a BLOCK by design
// (system transactions smuggled into a block; inconsistent block metadata).
func muxIsBlockRejection(err error) bool {
	pe, ok := err.(*muxdrv.PanicError)
	if !ok {
		return false
	}
	for _, s := range []string{
		"system transaction included during proposal phase",
		"malformed system transaction in block",
		"system transaction not signed by block proposer",
		"proposed block has invalid system transactions",
	} {
		if strings.Contains(pe.Value, s) {
			return true
		}
	}
	return false
}

// muxExecBlock executes and commits one block with exactly the transactions raws plus the
// proposer's metadata transaction (see the file comment).  It does not replace the replica.
func (m *muxFuzzer) muxExecBlock(raws [][]byte) (*muxdrv.BlockResult, error) {
	in := m.c.NewBlock(m.g.Validators[m.prop].ConsAddr, muxdrv.VotesAll, nil)
	txs, err := m.r.Propose(in, raws)
	if err != nil {
		return nil, err
	}
	if len(txs) != len(raws)+1 {
		return nil, m.muxDiagnose(in, raws, len(txs))
	}
	res, err := m.r.Replay(in, txs)
	if err != nil {
		return nil, err
	}
	if len(res.TxResults) != len(txs) {
		return nil, fmt.Errorf("mux fuzzer: %d results for %d transactions", len(res.TxResults), len(txs))
	}
	m.c.Applied(res)
	m.lastHash = res.AppHash
	m.muxResync()
	return res, nil
}

// muxDiagnose is called when PrepareProposal did not return raws+metadata: the proposal
// execution panicked (the mux recovers that and proposes nothing) or failed.  It isolates
// the minimal failing prefix with further PrepareProposal calls (which do not touch committed
// state) and then replays that prefix outside the proposal phase to obtain the panic.
func (m *muxFuzzer) muxDiagnose(in *muxdrv.BlockInput, raws [][]byte, got int) error {
	k := len(raws)
	for i := 1; i <= len(raws); i++ {
		txs, err := m.r.Propose(in, raws[:i])
		if err != nil {
			return err
		}
		if len(txs) != i+1 {
			k = i
			break
		}
	}
	m.lastPrefix = append([][]byte{}, raws[:k]...)
	m.lastOffender = append([]byte{}, raws[k-1]...)
	where := fmt.Sprintf("PrepareProposal/DeliverTx (height %d, tx %d of %d; proposal had %d txs)", in.Height, k-1, len(raws), got)
	meta, err := m.r.Propose(in, nil)
	if err != nil || len(meta) != 1 {
		return &muxdrv.PanicError{Where: where, Value: fmt.Sprintf("proposal execution failed and an empty proposal fails too (%v)", err)}
	}
	_, err = m.r.Replay(in, append(append([][]byte{}, raws[:k]...), meta[0]))
	if pe, ok := err.(*muxdrv.PanicError); ok {
		if strings.Contains(pe.Value, "invalid system transactions") {
			// The transactions themselves went through; only the (deliberately wrong) metadata failed.
			return &muxdrv.PanicError{Where: where, Value: "proposal execution failed but the replay of the same prefix did not panic in DeliverTx", Stack: pe.Stack}
		}
		return &muxdrv.PanicError{Where: where, Value: pe.Value, Stack: pe.Stack}
	}
	return &muxdrv.PanicError{Where: where, Value: fmt.Sprintf("proposal execution failed; replay of the prefix returned %v", err)}
}

// deliver executes ONE block whose transaction list is exactly raws (plus the proposer's
// block-metadata transaction), commits it and updates the chain bookkeeping.  codes are the
// per-transaction result codes.  err is non-nil ONLY if something panicked or the mux failed
// internally (never for per-transaction rejections); in that case the replica is replaced by
// a fresh one in the warm-up state, lastOffender/lastPrefix hold the isolated input when it
// could be isolated, and the fuzzer stays usable.
func (m *muxFuzzer) deliver(raws [][]byte) (codes []uint32, err error) {
	m.lastOffender, m.lastPrefix = nil, nil
	res, err := m.muxExecBlock(raws)
	if err != nil {
		if m.lastOffender == nil && len(raws) == 1 {
			m.lastOffender = append([]byte{}, raws[0]...)
		}
		m.muxReboot()
		return nil, err
	}
	for i := range raws {
		codes = append(codes, res.TxResults[i].Code)
	}
	return codes, nil
}

// muxBrokerProbe sends n correctly signed roothash.ExecutorCommit transactions naming n distinct
// UNREGISTERED runtime ids through CheckTx and reports how many were accepted.  (In check mode
// the roothash app hands every commitment to the service client's per-runtime notifier before
// looking the runtime up; compare runtime.NumGoroutine() / heap around the call.)
func (m *muxFuzzer) muxBrokerProbe(tag string, n int) (accepted int, err error) {
	m.muxResync()
	defer m.muxResync()
	k := m.g.Accounts[14].Key
	base := m.muxNonce(k.Address())
	ec := m.muxCommit("probe", nil, false)
	for i := 0; i < n; i++ {
		id := common.NewTestNamespaceFromSeed([]byte(fmt.Sprintf("verif/%d/mux/probe/%s/%d", m.seed, tag, i)), common.NamespaceTest)
		tx := roothash.NewExecutorCommitTx(base+uint64(accepted), muxdrv.Fee(10, muxBigGas), id, []commitment.ExecutorCommitment{ec})
		ok, err := m.check(muxdrv.Sign(k, tx), false)
		if err != nil {
			return accepted, err
		}
		if ok {
			accepted++
		}
	}
	return accepted, nil
}

// oversize returns a correctly signed transfer whose body is one CBOR byte string of
// MaxTxSize bytes (so the whole transaction exceeds the limit) and MaxTxSize itself.
func (m *muxFuzzer) oversize() (raw []byte, maxTxSize uint64) {
	maxTxSize = m.g.Doc.Consensus.Parameters.MaxTxSize
	k := m.g.Accounts[0].Key
	tx := muxdrv.TxTransfer(m.muxNonce(k.Address()), muxdrv.Fee(10, math.MaxUint64), m.g.Accounts[1].Address, 100)
	tx.Body = cbor.Marshal(make([]byte, maxTxSize))
	return muxdrv.Sign(k, tx), maxTxSize
}

// healthy delivers one fresh valid transfer in a block of its own and reports whether it
// succeeded with code 0, the app hash changed and the recipient's balance grew by the amount.
func (m *muxFuzzer) healthy() error {
	from, to := m.g.Accounts[12], m.g.Accounts[13]
	bal := func() *quantity.Quantity {
		a, err := m.r.Account(0, to.Address)
		if err != nil || a == nil {
			return quantity.NewQuantity()
		}
		return a.General.Balance.Clone()
	}
	m.muxResync()
	before, prev := bal(), append([]byte{}, m.lastHash...)
	raw := muxdrv.Sign(from.Key, muxdrv.TxTransfer(m.muxNonce(from.Address), muxdrv.Fee(10, muxdrv.DefaultGas), to.Address, 100))
	if ok, err := m.check(raw, false); err != nil {
		return err
	} else if !ok {
		return fmt.Errorf("healthy: CheckTx rejected a valid transfer")
	}
	codes, err := m.deliver([][]byte{raw})
	if err != nil {
		return err
	}
	if codes[0] != 0 {
		return fmt.Errorf("healthy: valid transfer failed with code %d", codes[0])
	}
	if bytes.Equal(prev, m.lastHash) {
		return fmt.Errorf("healthy: app hash did not change")
	}
	_ = before.Add(quantity.NewFromUint64(100))
	if after := bal(); after.Cmp(before) != 0 {
		return fmt.Errorf("healthy: recipient balance %s, expected %s", after, before)
	}
	return nil
}
