package main

import (
	"encoding/hex"
	"encoding/json"
	"time"

	"github.com/oasisprotocol/oasis-core/go/common/sgx/pcs"
)

// searchTargetsJSON: the semantic checks that run on PCS TCB-info / QE-identity
// bodies AFTER Intel's signature has been verified, reached directly through
// the verif hook (VerifTCBInfoSemantics / VerifQEIdentitySemantics) so that
// structure-aware JSON mutants (jsonMutate) get past the signature.  In
// production these bodies are Intel-signed; the targets measure robustness of
// the semantic layer, they are not an untrusted boundary by themselves.
func searchTargetsJSON() []searchTarget {
	policy := &pcs.QuotePolicy{TCBValidityPeriod: 30, MinTCBEvaluationDataNumber: 12, TDX: &pcs.TdxQuotePolicy{}}
	var tcbSeeds, qeSeeds [][]byte
	type tctx struct {
		tee    pcs.TeeType
		ts     time.Time
		fmspc  []byte
		sgx    [16]int32
		tdx    [16]byte
		pcesvn uint16
	}
	ctxOf := map[string]*tctx{} // by TCB info ID+FMSPC
	for _, f := range srchGlob(srchRepoPath("go/common/sgx/pcs/testdata", "tcb_info_v3_*.json")) {
		inner, ok := jsonInner(srchReadFile(f), "tcbInfo")
		if !ok {
			continue
		}
		var ti pcs.TCBInfo
		if json.Unmarshal(inner, &ti) != nil || len(ti.TCBLevels) == 0 {
			continue
		}
		c := &tctx{tee: pcs.TeeTypeSGX}
		if ti.ID == "TDX" {
			c.tee = pcs.TeeTypeTDX
		}
		issue, _ := time.Parse(pcs.TimestampFormat, ti.IssueDate)
		c.ts = issue.Add(time.Hour)
		c.fmspc, _ = hex.DecodeString(ti.FMSPC)
		for i := 0; i < 16; i++ {
			c.sgx[i] = ti.TCBLevels[0].TCB.SGXComponents[i].SVN
			c.tdx[i] = byte(ti.TCBLevels[0].TCB.TDXComponents[i].SVN)
		}
		c.pcesvn = ti.TCBLevels[0].TCB.PCESVN
		ctxOf[ti.ID+ti.FMSPC] = c
		ctxOf[ti.ID] = c
		tcbSeeds = append(tcbSeeds, inner)
	}
	// a QE report that satisfies the identity of each seed (MRSIGNER, attributes, MISCSELECT, ISVPRODID)
	qeReports := map[string]*pcs.SgxReport{}
	for _, f := range srchGlob(srchRepoPath("go/common/sgx/pcs/testdata", "qe_identity_v2*.json")) {
		inner, ok := jsonInner(srchReadFile(f), "enclaveIdentity")
		if !ok {
			continue
		}
		qeSeeds = append(qeSeeds, inner)
		var qe pcs.QEIdentity
		if json.Unmarshal(inner, &qe) != nil {
			continue
		}
		raw := make([]byte, 384)
		ms, _ := hex.DecodeString(qe.MiscSelect)
		at, _ := hex.DecodeString(qe.Attributes)
		sg, _ := hex.DecodeString(qe.MRSIGNER)
		copy(raw[16:20], ms)
		copy(raw[48:64], at)
		copy(raw[128:160], sg)
		raw[256], raw[257] = byte(qe.ISVProdID), byte(qe.ISVProdID>>8)
		raw[258], raw[259] = 0xff, 0x7f // ISVSVN high enough for the newest TCB level
		var rep pcs.SgxReport
		_ = rep.UnmarshalBinary(raw)
		qeReports[qe.ID] = &rep
	}
	var zeroReport pcs.SgxReport
	_ = zeroReport.UnmarshalBinary(make([]byte, 384))
	return []searchTarget{
		{
			name:  "json.TCBInfo.body",
			seeds: tcbSeeds,
			fn: func(b []byte) error {
				var ti pcs.TCBInfo
				if err := json.Unmarshal(b, &ti); err != nil {
					return err
				}
				c := ctxOf[ti.ID+ti.FMSPC]
				if c == nil {
					c = ctxOf[ti.ID]
				}
				if c == nil {
					c = ctxOf["SGX"]
				}
				return pcs.VerifTCBInfoSemantics(&ti, c.tee, c.ts, policy, c.fmspc, c.sgx, &c.tdx, c.pcesvn)
			},
		},
		{
			name:  "json.QEIdentity.body",
			seeds: qeSeeds,
			fn: func(b []byte) error {
				var qe pcs.QEIdentity
				if err := json.Unmarshal(b, &qe); err != nil {
					return err
				}
				tee := pcs.TeeTypeSGX
				if qe.ID == "TD_QE" {
					tee = pcs.TeeTypeTDX
				}
				issue, _ := time.Parse(pcs.TimestampFormat, qe.IssueDate)
				rep := qeReports[qe.ID]
				if rep == nil {
					rep = &zeroReport
				}
				return pcs.VerifQEIdentitySemantics(&qe, tee, issue.Add(time.Hour), policy, rep)
			},
		},
	}
}

// jsonTargets lists the search targets whose inputs are JSON documents: for
// these, most mutants are produced by the structure-aware mutator.
var jsonTargets = map[string]bool{
	"json.TCBInfo": true, "json.QEIdentity": true, "ias.AVR": true,
	"json.TCBInfo.body": true, "json.QEIdentity.body": true,
}
