// Command decode drives the hand-written binary decoders of oasis-core
// (MKVS keys, depths, leaf/internal nodes, node dispatch, the Merkle proof
// verifier) on valid encodings, structured mutants and random bytes, records
// what the REAL functions return as Coq correspondence cases for
// Verif.Decode.Cases (-mode model), and runs a SEARCH-ONLY stream (-mode
// search, no model, not part of the proof) over the other untrusted entry
// points (CBOR transactions, commitments, descriptors, proofs, write logs,
// checkpoint chunks, PCS quotes and collateral, IAS reports).  In both modes
// every call runs under recover with a wall-clock and an allocation budget;
// a panic, a call longer than 2 s or more than 256 MiB allocated is a
// violation of C16 with the input bytes as the replay.
package main

import (
	"context"
	"encoding/hex"
	"encoding/json"
	"errors"
	"flag"
	"fmt"
	"bytes"
	"os"
	"os/exec"
	"runtime"
	"runtime/debug"
	"sort"
	"strings"
	"time"

	"github.com/oasisprotocol/oasis-core/go/common/crypto/hash"
	"github.com/oasisprotocol/oasis-core/go/storage/mkvs/node"
	"github.com/oasisprotocol/oasis-core/go/storage/mkvs/syncer"

	"verifharness/internal/coqout"
	"verifharness/internal/prng"
)

const (
	budgetTime  = 2 * time.Second
	budgetAlloc = 256 << 20
)

// Case is the replayable description of one input.
type Case struct {
	Kind    string    `json:"kind"`
	Data    string    `json:"data,omitempty"` // hex
	V       uint16    `json:"v,omitempty"`
	BadRoot bool      `json:"bad_root,omitempty"`
	Entries []*string `json:"entries,omitempty"` // hex or null
	// encoder cases
	Key     string  `json:"key,omitempty"`
	Value   string  `json:"value,omitempty"`
	Label   string  `json:"label,omitempty"`
	Lbl     uint16  `json:"lbl,omitempty"`
	HasLeaf bool    `json:"has_leaf,omitempty"`
	Left    *string `json:"left,omitempty"`
	Right   *string `json:"right,omitempty"`
	Mode    int     `json:"mode,omitempty"`
	// quote cases
	Trailing bool `json:"trailing,omitempty"`
	// key format / fixed-size helper cases: index of the format, number of values
	Fmt   int `json:"fmt,omitempty"`
	NVals int `json:"nvals,omitempty"`
	// roothash evidence cases: the two commitments
	Ev []evCommit `json:"ev,omitempty"`
	// connection state machine stream
	Script []connOp `json:"script,omitempty"`
	// search stream
	Target string `json:"target,omitempty"`
	// provenance (not needed for replay)
	Origin string `json:"origin,omitempty"`
}

// cb renders a byte string as a Coq term; long strings are split into 32-byte
// chunks because the [bs len 0xHEX] literal is quadratic in its length.
func cb(b []byte) string {
	if len(b) <= 48 {
		return coqout.Bytes(b)
	}
	var parts []string
	for i := 0; i < len(b); i += 32 {
		parts = append(parts, coqout.Bytes(b[i:min(i+32, len(b))]))
	}
	return "(" + strings.Join(parts, " ++ ") + ")"
}

// unhex returns a slice whose capacity equals its length, so that a re-slice
// past the end panics in the implementation instead of silently reading the
// spare capacity of the buffer.
func unhex(s string) []byte {
	b, _ := hex.DecodeString(s)
	return exact(b)
}

func exact(b []byte) []byte {
	out := make([]byte, len(b))
	copy(out, b)
	return out[:len(b):len(b)]
}

// ---------- guarded execution ----------
type guardResult struct {
	panicked bool
	panicVal string
	dur      time.Duration
	alloc    uint64
}

// guarded runs fn under recover and measures it.  A time or allocation budget
// excess is confirmed by re-running the (idempotent) call: only an input that
// is over budget three times in a row counts, so that a scheduling or GC stall
// of a loaded machine is not mistaken for a slow input.
func guarded(fn func()) (g guardResult) {
	g = guardedOnce(fn)
	for i := 0; i < 2 && !g.panicked && (g.dur > budgetTime || g.alloc > budgetAlloc); i++ {
		g2 := guardedOnce(fn)
		if g2.panicked {
			return g2
		}
		if g2.dur < g.dur {
			g.dur = g2.dur
		}
		if g2.alloc < g.alloc {
			g.alloc = g2.alloc
		}
	}
	return g
}

func guardedOnce(fn func()) (g guardResult) {
	var m0, m1 runtime.MemStats
	runtime.ReadMemStats(&m0)
	t0 := time.Now()
	func() {
		defer func() {
			if e := recover(); e != nil {
				g.panicked = true
				g.panicVal = fmt.Sprint(e)
			}
		}()
		fn()
	}()
	g.dur = time.Since(t0)
	runtime.ReadMemStats(&m1)
	g.alloc = m1.TotalAlloc - m0.TotalAlloc
	return g
}

func (g guardResult) violation() string {
	switch {
	case g.panicked:
		return "implementation panicked: " + g.panicVal
	case g.dur > budgetTime:
		return fmt.Sprintf("call took %v (budget %v)", g.dur, budgetTime)
	case g.alloc > budgetAlloc:
		return fmt.Sprintf("call allocated %d bytes (budget %d)", g.alloc, budgetAlloc)
	}
	return ""
}

// ---------- error classes (mirrors the codes of coq/Decode/Node.v, ProofEntries.v) ----------
func errCode(err error) int {
	s := err.Error()
	base := 0
	switch {
	case strings.HasPrefix(s, "mkvs: failed to unmarshal LabelBitLength: "):
		base = 100
	case strings.HasPrefix(s, "mkvs: failed to unmarshal leaf node: "):
		base = 200
	case strings.HasPrefix(s, "mkvs: failed to unmarshal left hash: "):
		base = 300
	case strings.HasPrefix(s, "mkvs: failed to unmarshal right hash: "):
		base = 400
	}
	switch {
	case errors.Is(err, node.ErrMalformedNode):
		return base + 1
	case errors.Is(err, node.ErrMalformedKey):
		return base + 2
	case errors.Is(err, hash.ErrMalformed):
		return base + 3
	case s == "verifier: malformed proof":
		return 20
	case s == "verifier: max proof depth exceeded":
		return 21
	case strings.HasPrefix(s, "verifier: unexpected entry in proof"):
		return 22
	case strings.HasPrefix(s, "verifier: unsupported proof version"):
		return 23
	case strings.HasPrefix(s, "verifier: got proof for unexpected root"):
		return 24
	case s == "verifier: empty proof":
		return 25
	case s == "verifier: unused entries in proof":
		return 26
	}
	return 9999
}

func coqRes(g guardResult, err error, okTerm string) string {
	switch {
	case g.panicked:
		return "Panic"
	case err != nil:
		return fmt.Sprintf("(Err %d)", errCode(err))
	}
	return "(Ok " + okTerm + ")"
}

func coqLeaf(l *node.LeafNode) string {
	return fmt.Sprintf("(mkLeaf %s %s)", cb(l.Key), cb(l.Value))
}

func coqOptHash(p *node.Pointer) string {
	if p == nil {
		return "None"
	}
	return "(Some " + cb(p.Hash[:]) + ")"
}

func coqOptLeaf(p *node.Pointer) string {
	if p == nil {
		return "None"
	}
	if l, ok := p.Node.(*node.LeafNode); ok {
		return "(Some " + coqLeaf(l) + ")"
	}
	return "(Some (mkLeaf [999] [999]))" // never: the decoder only stores leaf nodes here
}

func coqInode(n *node.InternalNode) string {
	return fmt.Sprintf("(mkInode %d %s %s %s %s)", n.LabelBitLength, cb(n.Label), coqOptLeaf(n.LeafNode), coqOptHash(n.Left), coqOptHash(n.Right))
}

func coqPtr(p *node.Pointer) string {
	if p == nil {
		return "PNil"
	}
	switch n := p.Node.(type) {
	case nil:
		return "(PHash " + cb(p.Hash[:]) + ")"
	case *node.LeafNode:
		return "(PLeaf " + coqLeaf(n) + ")"
	case *node.InternalNode:
		return fmt.Sprintf("(PInt %d %s %s %s %s)", n.LabelBitLength, cb(n.Label), coqPtr(n.LeafNode), coqPtr(n.Left), coqPtr(n.Right))
	}
	return "PNil"
}

func coqEntries(es [][]byte) string {
	items := make([]string, len(es))
	for i, e := range es {
		if e == nil {
			items[i] = "None"
		} else {
			items[i] = "(Some " + cb(e) + ")"
		}
	}
	return coqout.List(items)
}

func entriesOf(c Case) [][]byte {
	es := make([][]byte, len(c.Entries))
	for i, e := range c.Entries {
		if e != nil {
			es[i] = unhex(*e)
		}
	}
	return es
}

func hexEntries(es [][]byte) []*string {
	out := make([]*string, len(es))
	for i, e := range es {
		if e != nil {
			s := hex.EncodeToString(e)
			out[i] = &s
		}
	}
	return out
}

// ---------- running one modelled case on the implementation ----------
type outcome struct {
	term      string // "(input, expected)" Coq term
	class     string // histogram key
	ok        bool
	violation string
	g         guardResult
}

func runModelCase(c Case) (o outcome) {
	switch c.Kind {
	case "quote":
		return runQuoteCase(c)
	case "keyformat":
		return runKeyFormatCase(c)
	case "fixed":
		return runFixedCase(c)
	case "iasquote":
		return runIasQuoteCase(c)
	case "chunk":
		return runChunkCase(c)
	case "cbor":
		return runCborCase(c)
	case "hex":
		return runHexCase(c)
	case "text":
		return runTextCase(c)
	case "encid":
		return runEncIDCase(c)
	case "akid":
		return runAkidCase(c)
	case "qemasks":
		return runQeMasksCase(c)
	case "quantity":
		return runQuantityCase(c)
	case "pbnode":
		return runPbNodeCase(c)
	case "frame":
		return runFrameCase(c)
	case "enum":
		return runEnumCase(c)
	case "sigstruct":
		return runSigstructCase(c)
	case "evidence":
		return runEvidenceCase(c)
	}
	data := unhex(c.Data)
	var in, out string
	var err error
	var g guardResult
	expectPanic := false
	switch c.Kind {
	case "depth":
		var d node.Depth
		var n int
		g = guarded(func() { n, err = d.UnmarshalBinary(data) })
		in = "CDepth " + cb(data)
		out = "ODepth " + coqRes(g, err, fmt.Sprintf("(%d, %d)", d, n))
	case "key":
		var k node.Key
		var n int
		g = guarded(func() { n, err = k.SizedUnmarshalBinary(data) })
		in = "CKey " + cb(data)
		out = "OKey " + coqRes(g, err, fmt.Sprintf("(%s, %d)", cb(k), n))
	case "leaf":
		var l node.LeafNode
		var n int
		g = guarded(func() { n, err = l.SizedUnmarshalBinary(data) })
		in = "CLeaf " + cb(data)
		out = "OLeaf " + coqRes(g, err, fmt.Sprintf("(%s, %d)", coqLeaf(&l), n))
	case "inode":
		var nd node.InternalNode
		var n int
		g = guarded(func() { n, err = nd.SizedUnmarshalBinary(data) })
		in = "CInode " + cb(data)
		okT := ""
		if err == nil && !g.panicked {
			okT = fmt.Sprintf("(%s, %d)", coqInode(&nd), n)
		}
		out = "OInode " + coqRes(g, err, okT)
	case "node":
		var nd node.Node
		g = guarded(func() { nd, err = node.UnmarshalBinary(data) })
		in = "CNode " + cb(data)
		okT := ""
		if err == nil && !g.panicked {
			switch x := nd.(type) {
			case *node.LeafNode:
				okT = "(NLeaf " + coqLeaf(x) + ")"
			case *node.InternalNode:
				okT = "(NInternal " + coqInode(x) + ")"
			}
		}
		out = "ONode " + coqRes(g, err, okT)
	case "walk":
		es := entriesOf(c)
		var idx int
		var ptr *node.Pointer
		var wl []syncerLogEntry
		g = guarded(func() {
			var w []syncerLogEntry
			idx, ptr, w, err = walkHook(&syncer.Proof{V: c.V, Entries: es})
			wl = w
		})
		// The walk itself panics on versions its caller never lets through;
		// this is an internal function reached through the hook, so that
		// panic is expected behaviour that the model must reproduce.
		expectPanic = c.V > syncer.LatestProofVersion
		if err == nil && !g.panicked && ptrNesting(ptr) > specMaxNesting {
			o.violation = fmt.Sprintf("walk: proof walk accepted a subtree nested %d levels deep (bound %d): recursion depth not bounded by maxProofDepth", ptrNesting(ptr), specMaxNesting)
		}
		in = fmt.Sprintf("CWalk %d %s", c.V, coqEntries(es))
		okT, wlT := "", "[]"
		if err == nil && !g.panicked {
			okT = fmt.Sprintf("(%d, %s)", idx, coqPtr(ptr))
			items := make([]string, len(wl))
			for i, e := range wl {
				items[i] = fmt.Sprintf("(%s, %s)", cb(e.k), cb(e.v))
			}
			wlT = coqout.List(items)
		}
		out = fmt.Sprintf("OWalk %s %s", coqRes(g, err, okT), wlT)
	case "proof":
		es := entriesOf(c)
		// root := the hash the walk arrives at (so that the final comparison,
		// which the model does not cover, succeeds whenever it is reached)
		var root hash.Hash
		root.FromBytes([]byte("no root"))
		func() {
			defer func() { _ = recover() }()
			idx, ptr, _, werr := walkHook(&syncer.Proof{V: c.V, Entries: es})
			if werr == nil && idx == len(es) {
				root = ptr.GetHash()
			}
		}()
		untrusted := root
		if c.BadRoot {
			untrusted.FromBytes([]byte("another root"))
		}
		var pv syncer.ProofVerifier
		var rootPtr *node.Pointer
		g = guarded(func() {
			rootPtr, err = pv.VerifyProof(context.Background(), root, &syncer.Proof{V: c.V, UntrustedRoot: untrusted, Entries: es})
		})
		if err == nil && !g.panicked && ptrNesting(rootPtr) > specMaxNesting {
			o.violation = fmt.Sprintf("proof: VerifyProof accepted a proof nested %d levels deep (bound %d): recursion depth not bounded by maxProofDepth", ptrNesting(rootPtr), specMaxNesting)
		}
		if err == nil && !g.panicked {
			// the write-log variant must agree
			var err2 error
			g2 := guarded(func() {
				_, err2 = pv.VerifyProofToWriteLog(context.Background(), root, &syncer.Proof{V: c.V, UntrustedRoot: untrusted, Entries: es})
			})
			if g2.panicked || err2 != nil {
				o.violation = fmt.Sprintf("VerifyProof accepted but VerifyProofToWriteLog failed: %v %v", g2.panicVal, err2)
			}
		}
		in = fmt.Sprintf("COpts %d %s %s", c.V, coqout.Bool(!c.BadRoot), coqEntries(es))
		out = "OOpts " + coqRes(g, err, "tt")
	case "enc_key":
		var b []byte
		k := node.Key(unhex(c.Key))
		g = guarded(func() { b, err = k.MarshalBinary() })
		in = "CEncKey " + cb(k)
		out = "OBytes " + cb(b)
	case "enc_leaf":
		l := &node.LeafNode{Key: unhex(c.Key), Value: unhex(c.Value)}
		var b []byte
		g = guarded(func() { b, err = l.MarshalBinary() })
		in = "CEncLeaf " + coqLeaf(l)
		out = "OBytes " + cb(b)
	case "enc_inode":
		nd := inodeOf(c)
		var b []byte
		g = guarded(func() {
			switch c.Mode {
			case 0:
				b, err = nd.MarshalBinary()
			case 1:
				b, err = nd.CompactMarshalBinaryV0()
			default:
				b, err = nd.CompactMarshalBinaryV1()
			}
		})
		in = fmt.Sprintf("CEncInode %d %s", c.Mode, coqInode(nd))
		out = "OBytes " + cb(b)
	default:
		panic("unknown case kind " + c.Kind)
	}
	o.g = g
	o.term = "(" + in + ", " + out + ")"
	o.ok = err == nil && !g.panicked
	switch {
	case g.panicked:
		o.class = "panic"
	case err != nil:
		o.class = fmt.Sprintf("err%d", errCode(err))
	default:
		o.class = "ok"
	}
	if v := g.violation(); v != "" && o.violation == "" && !(g.panicked && expectPanic) {
		o.violation = c.Kind + ": " + v
	}
	if err != nil && errCode(err) == 9999 && o.violation == "" && !strings.HasPrefix(c.Kind, "enc_") {
		// an error outside the documented classes is not a C16 violation; it
		// shows up as a model mismatch (Err 9999) so that it gets looked at.
		o.class = "err-unclassified"
	}
	return o
}

// specMaxNesting is the bound of the property on the nesting of a verified
// proof: maxProofDepth (128, pinned by theorem gen_proof_consts_expected) + 1
// levels of pointers below the root.
const specMaxNesting = 129

func ptrNesting(p *node.Pointer) int {
	if p == nil {
		return 0
	}
	if n, ok := p.Node.(*node.InternalNode); ok {
		return 1 + max(ptrNesting(n.LeafNode), ptrNesting(n.Left), ptrNesting(n.Right))
	}
	return 0
}

type syncerLogEntry struct{ k, v []byte }

func walkHook(p *syncer.Proof) (int, *node.Pointer, []syncerLogEntry, error) {
	idx, ptr, wl, err := syncer.VerifWalk(p, true)
	out := make([]syncerLogEntry, len(wl))
	for i, e := range wl {
		out[i] = syncerLogEntry{e.Key, e.Value}
	}
	return idx, ptr, out, err
}

func inodeOf(c Case) *node.InternalNode {
	nd := &node.InternalNode{Label: unhex(c.Label), LabelBitLength: node.Depth(c.Lbl), Clean: true}
	if c.HasLeaf {
		l := &node.LeafNode{Key: unhex(c.Key), Value: unhex(c.Value), Clean: true}
		l.UpdateHash()
		nd.LeafNode = &node.Pointer{Clean: true, Hash: l.Hash, Node: l}
	}
	mk := func(h *string) *node.Pointer {
		if h == nil {
			return nil
		}
		p := &node.Pointer{Clean: true}
		copy(p.Hash[:], unhex(*h))
		return p
	}
	nd.Left, nd.Right = mk(c.Left), mk(c.Right)
	return nd
}

// ---------- generators ----------
func genKeyBytes(r *prng.R) []byte {
	switch r.Intn(10) {
	case 0:
		return []byte{}
	case 1:
		return r.Bytes(1)
	case 2:
		return r.Bytes(255 + r.Intn(3))
	case 3:
		return r.Bytes(600)
	default:
		return r.Bytes(1 + r.Intn(40))
	}
}

func genValue(r *prng.R) []byte {
	switch r.Intn(10) {
	case 0:
		return []byte{}
	case 1: // (kept below 2 KiB: the Coq byte-string literal is quadratic in its length)
		return r.Bytes(1500 + r.Intn(3))
	case 2:
		return r.Bytes(255 + r.Intn(3))
	default:
		return r.Bytes(r.Intn(120))
	}
}

func genHashPtr(r *prng.R) *string {
	switch r.Intn(5) {
	case 0:
		return nil
	case 1: // the empty hash: encodes like nil
		var h hash.Hash
		h.Empty()
		s := hex.EncodeToString(h[:])
		return &s
	default:
		s := hex.EncodeToString(r.Bytes(32))
		return &s
	}
}

func genInodeCase(r *prng.R) Case {
	lbl := r.Intn(200)
	if r.Chance(10) {
		lbl = []int{0, 1, 7, 8, 9, 2047, 2048, 4096}[r.Intn(8)]
	}
	c := Case{Lbl: uint16(lbl), Label: hex.EncodeToString(r.Bytes(node.Depth(lbl).ToBytes()))}
	if r.Chance(60) {
		c.HasLeaf = true
		c.Key = hex.EncodeToString(genKeyBytes(r))
		c.Value = hex.EncodeToString(genValue(r))
	}
	c.Left, c.Right = genHashPtr(r), genHashPtr(r)
	return c
}

// validEncoding returns a valid encoding for the decoder kind and the offsets
// of its length fields (offset, width, actual value).
type field struct {
	off, width int
	val        uint64
}

// structural boundaries of an encoding: every offset at which a component starts or ends
func boundaries(b []byte, fs []field, extra ...int) []int {
	cuts := []int{0, 1, len(b)}
	for _, f := range fs {
		cuts = append(cuts, f.off, f.off+f.width)
	}
	return append(cuts, extra...)
}

func validEncoding(r *prng.R, kind string) ([]byte, []field, string) {
	b, fs, _, origin := validEncodingCuts(r, kind)
	return b, fs, origin
}

func validEncodingCuts(r *prng.R, kind string) ([]byte, []field, []int, string) {
	switch kind {
	case "depth":
		d := node.Depth(r.Intn(65536))
		fs := []field{{0, 2, uint64(d)}}
		return d.MarshalBinary(), fs, boundaries(d.MarshalBinary(), fs), "depth"
	case "key":
		k := node.Key(genKeyBytes(r))
		b, _ := k.MarshalBinary()
		fs := []field{{0, 2, uint64(len(k))}}
		return b, fs, boundaries(b, fs), "key"
	case "leaf":
		l := &node.LeafNode{Key: genKeyBytes(r), Value: genValue(r)}
		b, _ := l.MarshalBinary()
		fs := []field{{1, 2, uint64(len(l.Key))}, {3 + len(l.Key), 4, uint64(len(l.Value))}}
		return b, fs, boundaries(b, fs), "leaf"
	case "inode":
		c := genInodeCase(r)
		nd := inodeOf(c)
		var b []byte
		origin := "inode-full"
		switch r.Intn(4) {
		case 0:
			b, _ = nd.CompactMarshalBinaryV0()
			origin = "inode-compact-v0"
		case 1:
			b, _ = nd.CompactMarshalBinaryV1()
			origin = "inode-compact-v1"
		default:
			b, _ = nd.MarshalBinary()
		}
		fs := []field{{1, 2, uint64(c.Lbl)}}
		lo := 3 + len(nd.Label)
		extra := []int{lo, lo + 1}
		if c.HasLeaf && origin != "inode-compact-v1" {
			k := len(nd.LeafNode.Node.(*node.LeafNode).Key)
			v := len(nd.LeafNode.Node.(*node.LeafNode).Value)
			fs = append(fs, field{lo + 1, 2, uint64(k)}, field{lo + 3 + k, 4, uint64(v)})
			extra = append(extra, lo+3+k, lo+7+k+v)
		}
		if origin == "inode-full" {
			extra = append(extra, len(b)-64, len(b)-32)
		}
		return b, fs, boundaries(b, fs, extra...), origin
	default: // node
		if r.Chance(50) {
			return validEncodingCuts(r, "leaf")
		}
		return validEncodingCuts(r, "inode")
	}
}

func genDecodeCase(r *prng.R, kind string) Case {
	x := r.Intn(100)
	switch {
	case x < 30:
		b, _, origin := validEncoding(r, kind)
		return Case{Kind: kind, Data: hex.EncodeToString(b), Origin: "valid:" + origin}
	case x < 55: // length-field mutants
		b, fs, origin := validEncoding(r, kind)
		f := fs[r.Intn(len(fs))]
		m, name := setLE(r, b, f.off, f.width, f.val)
		if r.Chance(25) {
			m = m[:r.Intn(len(m)+1)]
			name += "+trunc"
		}
		return Case{Kind: kind, Data: hex.EncodeToString(m), Origin: fmt.Sprintf("field@%d/%d:%s:%s", f.off, f.width, name, origin)}
	case x < 70: // truncated tails at every structural boundary, -1 / 0 / +1
		b, _, cuts, origin := validEncodingCuts(r, kind)
		cut := r.Intn(len(b) + 1)
		if r.Chance(80) {
			cut = cuts[r.Intn(len(cuts))] + r.Intn(3) - 1
			if cut < 0 || cut > len(b) {
				cut = len(b) / 2
			}
		}
		return Case{Kind: kind, Data: hex.EncodeToString(b[:cut]), Origin: "trunc:" + origin}
	case x < 88: // generic mutations (incl. flipped kind bytes, appended garbage >= 64 bytes)
		b, _, origin := validEncoding(r, kind)
		m, name := mutate(r, b)
		return Case{Kind: kind, Data: hex.EncodeToString(m), Origin: "mut:" + name + ":" + origin}
	default:
		n := r.Intn(12)
		if r.Chance(30) {
			n = r.Intn(120)
		}
		b := r.Bytes(n)
		if n > 0 && r.Chance(70) {
			b[0] = byte(r.Intn(3)) // plausible kind byte
		}
		return Case{Kind: kind, Data: hex.EncodeToString(b), Origin: "random"}
	}
}

type smallEnc struct {
	kind, origin string
	b            []byte
}

// smallEncodings returns small valid encodings of every form, all of whose
// prefixes are fed to the decoders.
func smallEncodings(r *prng.R) []smallEnc {
	var out []smallEnc
	k := node.Key(r.Bytes(3))
	kb, _ := k.MarshalBinary()
	out = append(out, smallEnc{"key", "key", kb})
	l := &node.LeafNode{Key: r.Bytes(2), Value: r.Bytes(3)}
	lb, _ := l.MarshalBinary()
	out = append(out, smallEnc{"leaf", "leaf", lb}, smallEnc{"node", "leaf", lb})
	for i, lbl := range []uint16{0, 12, 17} {
		c := Case{Lbl: lbl, Label: hex.EncodeToString(r.Bytes(node.Depth(lbl).ToBytes()))}
		if i != 1 {
			c.HasLeaf, c.Key, c.Value = true, hex.EncodeToString(r.Bytes(2)), hex.EncodeToString(r.Bytes(2))
		}
		h := hex.EncodeToString(r.Bytes(32))
		c.Left = &h
		nd := inodeOf(c)
		full, _ := nd.MarshalBinary()
		c0, _ := nd.CompactMarshalBinaryV0()
		c1, _ := nd.CompactMarshalBinaryV1()
		out = append(out, smallEnc{"inode", "inode-full", full}, smallEnc{"inode", "inode-compact-v0", c0}, smallEnc{"inode", "inode-compact-v1", c1})
		if i == 2 {
			out = append(out, smallEnc{"node", "inode-full", full})
		}
	}
	return out
}

// proof entries: a random subtree in pre-order for the given version
func genSubtree(r *prng.R, v uint16, depth, maxDepth int, out *[][]byte) {
	x := r.Intn(100)
	if depth >= maxDepth {
		x = r.Intn(55)
	}
	switch {
	case x < 20:
		*out = append(*out, nil)
	case x < 40:
		*out = append(*out, append([]byte{0x02}, r.Bytes(32)...))
	case x < 55:
		l := &node.LeafNode{Key: r.Bytes(1 + r.Intn(6)), Value: r.Bytes(r.Intn(10))}
		b, _ := l.CompactMarshalBinaryV1()
		*out = append(*out, append([]byte{0x01}, b...))
	default:
		c := genInodeCase(r)
		if len(c.Value) > 200 {
			c.Value = c.Value[:40]
		}
		nd := inodeOf(c)
		var b []byte
		switch {
		case r.Chance(8): // a full (non-compact) encoding inside a proof
			b, _ = nd.MarshalBinary()
		case v == 0 || r.Chance(10):
			b, _ = nd.CompactMarshalBinaryV0()
		default:
			b, _ = nd.CompactMarshalBinaryV1()
		}
		*out = append(*out, append([]byte{0x01}, b...))
		if v != 0 {
			genSubtree(r, v, depth+1, min(maxDepth, depth+1), out) // leaf position
		}
		genSubtree(r, v, depth+1, maxDepth, out)
		genSubtree(r, v, depth+1, maxDepth, out)
	}
}

func chain(v uint16, n int) [][]byte {
	nd := &node.InternalNode{LabelBitLength: 0, Clean: true}
	b, _ := nd.CompactMarshalBinaryV1()
	e := append([]byte{0x01}, b...)
	var out [][]byte
	for i := 0; i < n; i++ {
		out = append(out, e)
		if v != 0 {
			out = append(out, nil)
		}
	}
	out = append(out, nil, nil)
	for i := 0; i < n-1; i++ {
		out = append(out, nil)
	}
	return out
}

// chainPos: n internal nodes (empty label) nested through ONE child position
// (0 leaf -- version 1 only --, 1 left, 2 right); every other position holds a
// nil entry.  Mirrors Decode/ProofEntries.v chain_pos.
func chainPos(v uint16, pos, n int) [][]byte {
	nd := &node.InternalNode{LabelBitLength: 0, Clean: true}
	b, _ := nd.CompactMarshalBinaryV1()
	e := append([]byte{0x01}, b...)
	out := make([][]byte, 0, 3*n+1)
	tail := 0
	for i := 0; i < n; i++ {
		out = append(out, e)
		switch {
		case v == 0 && pos == 2:
			out = append(out, nil)
		case v == 0:
			tail++
		case pos == 0:
			tail += 2
		case pos == 1:
			out = append(out, nil)
			tail++
		default:
			out = append(out, nil, nil)
		}
	}
	out = append(out, nil)
	for i := 0; i < tail; i++ {
		out = append(out, nil)
	}
	return out
}

var chainPositions = [][2]int{{1, 0}, {1, 1}, {1, 2}, {0, 1}, {0, 2}} // (version, position)

// proofDepthChild runs in a CHILD process with a lowered stack limit: a very
// deep chain must be refused with the depth error long before the stack matters.
func proofDepthChild(maxStack, v, pos, n int) {
	debug.SetMaxStack(maxStack)
	es := chainPos(uint16(v), pos, n)
	var root hash.Hash
	root.FromBytes([]byte("root"))
	var pv syncer.ProofVerifier
	_, err := pv.VerifyProof(context.Background(), root, &syncer.Proof{V: uint16(v), UntrustedRoot: root, Entries: es})
	fmt.Println("child: VerifyProof returned:", err)
}

// proofDepthCheck spawns the child and classifies the outcome.
func proofDepthCheck(v, pos, n int) string {
	cmd := exec.Command(os.Args[0], "-mode", "proofdepth-child", "-maxstack", fmt.Sprint(32<<20), "-pdv", fmt.Sprint(v), "-pdpos", fmt.Sprint(pos), "-reads", fmt.Sprint(n), "-out", os.TempDir())
	var buf bytes.Buffer
	cmd.Stdout, cmd.Stderr = &buf, &buf
	done := make(chan error, 1)
	if err := cmd.Start(); err != nil {
		panic(err)
	}
	go func() { done <- cmd.Wait() }()
	select {
	case <-done:
	case <-time.After(120 * time.Second):
		_ = cmd.Process.Kill()
		return "child timed out (hang)"
	}
	o := buf.String()
	switch {
	case strings.Contains(o, "goroutine stack exceeds") || strings.Contains(o, "stack overflow"):
		return "UNRECOVERABLE stack overflow (the process dies): recursion depth of the proof walk is not bounded by maxProofDepth"
	case strings.Contains(o, "max proof depth exceeded"):
		return ""
	case strings.Contains(o, "child: VerifyProof returned:"):
		return "not refused with the depth error: " + strings.TrimSpace(o[strings.Index(o, "child: VerifyProof returned:"):])
	}
	return "child failed: " + o[max(0, len(o)-300):]
}

func genProofCase(r *prng.R, kind string) Case {
	v := uint16(r.Intn(2))
	var es [][]byte
	origin := "tree"
	x := r.Intn(100)
	switch {
	case x < 8: // chains around the depth limit
		n := []int{126, 127, 128, 129, 130, 131, 200}[r.Intn(7)]
		es = chain(v, n)
		origin = fmt.Sprintf("chain%d", n)
	default:
		genSubtree(r, v, 0, 1+r.Intn(6), &es)
	}
	// mutations of the entry list
	if r.Chance(45) {
		switch r.Intn(9) {
		case 0:
			if len(es) > 0 {
				es = es[:len(es)-1]
			}
			origin += "+droplast"
		case 1:
			es = append(es, nil)
			origin += "+extra"
		case 2:
			if len(es) > 0 {
				es[r.Intn(len(es))] = []byte{}
			}
			origin += "+empty"
		case 3:
			if len(es) > 0 {
				i := r.Intn(len(es))
				if len(es[i]) > 0 {
					es[i] = append([]byte{}, es[i]...)
					es[i][0] = byte(r.Intn(5))
				}
			}
			origin += "+kind"
		case 4:
			if len(es) > 0 {
				i := r.Intn(len(es))
				if len(es[i]) > 0 {
					es[i], _ = mutate(r, es[i])
					if es[i] == nil {
						es[i] = []byte{}
					}
				}
			}
			origin += "+mut"
		case 5:
			if len(es) > 0 {
				i := r.Intn(len(es))
				if len(es[i]) > 1 {
					es[i] = es[i][:1+r.Intn(len(es[i])-1)]
				}
			}
			origin += "+trunc"
		case 6:
			v = uint16([]int{2, 3, 255, 65535}[r.Intn(4)])
			origin += "+version"
		case 7:
			es = nil
			origin += "+noentries"
		default:
			if len(es) > 1 {
				i := r.Intn(len(es) - 1)
				es[i], es[i+1] = es[i+1], es[i]
			}
			origin += "+swap"
		}
	}
	c := Case{Kind: kind, V: v, Entries: hexEntries(es), Origin: origin}
	if kind == "proof" && r.Chance(5) {
		c.BadRoot = true
	}
	return c
}

func genEncCase(r *prng.R) Case {
	switch r.Intn(4) {
	case 0:
		return Case{Kind: "enc_key", Key: hex.EncodeToString(genKeyBytes(r))}
	case 1:
		return Case{Kind: "enc_leaf", Key: hex.EncodeToString(genKeyBytes(r)), Value: hex.EncodeToString(genValue(r))}
	default:
		c := genInodeCase(r)
		c.Kind = "enc_inode"
		c.Mode = r.Intn(3)
		return c
	}
}

// ---------- shrinking (greedy truncation / zeroing of the failing input) ----------
func shrinkBytes(b []byte, fails func([]byte) bool) []byte {
	for changed := true; changed; {
		changed = false
		for _, cut := range []int{len(b) / 2, len(b) / 4, 8, 1} {
			for cut > 0 && len(b) > cut {
				cand := b[:len(b)-cut]
				if fails(cand) {
					b = cand
					changed = true
				} else {
					break
				}
			}
		}
	}
	return b
}

func main() {
	seed := flag.Uint64("seed", 1, "seed")
	n := flag.Int("cases", 3000, "number of generated cases")
	out := flag.String("out", "", "output directory")
	mode := flag.String("mode", "model", "model | search | mux")
	replay := flag.String("replay", "", "replay a case description (JSON file)")
	maxStack := flag.Int("maxstack", 64<<20, "rhpstack-child: goroutine stack limit")
	reads := flag.Int("reads", 8<<20, "rhpstack-child: number of one-byte reads; proofdepth-child: chain length")
	pdv := flag.Int("pdv", 1, "proofdepth-child: proof version")
	pdpos := flag.Int("pdpos", 0, "proofdepth-child: nesting position")
	flag.Parse()
	if *out == "" {
		fmt.Fprintln(os.Stderr, "need -out")
		os.Exit(2)
	}
	var rc *Case
	if *replay != "" {
		b, err := os.ReadFile(*replay)
		if err != nil {
			panic(err)
		}
		var wrap struct {
			Case *Case `json:"case"`
		}
		var c Case
		if json.Unmarshal(b, &wrap) == nil && wrap.Case != nil {
			c = *wrap.Case
		} else if err := json.Unmarshal(b, &c); err != nil {
			panic(err)
		}
		rc = &c
		if c.Kind == "search" {
			*mode = "search"
		} else if c.Kind == "mux" {
			*mode = "mux"
		} else if c.Kind == "conn" {
			*mode = "conn"
		} else if c.Kind == "rhpstack" {
			*mode = "rhpstack"
			*n = 1
		} else {
			*mode = "model"
		}
	}
	if *mode == "search" {
		runSearch(*seed, *n, *out, rc)
		return
	}
	if *mode == "mux" {
		runMux(*seed, *n, *out, rc)
		return
	}
	if *mode == "conn" {
		runConn(*seed, *n, *out, rc)
		return
	}
	if *mode == "proofdepth-child" {
		proofDepthChild(*maxStack, *pdv, *pdpos, *reads)
		return
	}
	if *mode == "rhpstack-child" {
		rhpStackChild(*maxStack, *reads)
		return
	}
	if *mode == "rhpstack" {
		runRhpStack(*n, *out)
		return
	}
	runModel(*seed, *n, *out, rc)
}

func runModel(seed uint64, n int, out string, rc *Case) {
	initKeyFormats()
	hdr := "From Verif Require Import Lib.Base Decode.GoSlice Decode.Node Decode.ProofEntries Decode.Quote Decode.KeyFormat Decode.Misc Decode.Cbor Decode.More Decode.Cases.\nFrom Verif Require Decode.Evidence.\n"
	wb := coqout.NewWriter(out, hdr, "run_case", "cout_eqb", 150)
	sum := coqout.NewSummary("per decoder (Depth/Key/LeafNode/InternalNode.SizedUnmarshalBinary, node.UnmarshalBinary, verifyProof walk via hook, VerifyProof): 30% valid encodings made by the real marshalers (full, compact v0, compact v1), 25% length-field mutants (0, +-1, max, len, +k, 2^31, random), 15% truncations at field boundaries, 18% generic mutations (bit flips, kind bytes, splices, appended garbage), 12% random bytes; proof entry lists: random pre-order subtrees for v0/v1, chains of depth 126..200, list mutations (drop/extra/empty/kind/truncate/swap/unsupported version); encoders on random nodes. distinct = distinct (kind, input); non-trivial = the real decoder accepted the input (Ok) or the real encoder produced bytes")
	var cases []Case
	if rc != nil && rc.Kind == "proofdepth" {
		cases = nil
	} else if rc != nil {
		cases = []Case{*rc}
	} else {
		r := prng.New(seed)
		kinds := []string{"depth", "key", "leaf", "leaf", "inode", "inode", "inode", "node", "node", "walk", "walk", "proof", "proof", "enc", "quote", "quote", "quote", "keyformat", "keyformat", "fixed", "iasquote", "chunk", "cbor", "cbor", "cbor", "more", "more", "more", "more", "more", "evidence", "evidence"}
		loadQuoteSeeds()
		// fixed boundary cases first
		for _, h := range []string{"", "00", "01", "0140", "014000aabb", "01000002", "0100000200", "00010007ffffffff0102", "000000000000", "0000000000000000"} {
			for _, k := range []string{"depth", "key", "leaf", "inode", "node"} {
				cases = append(cases, Case{Kind: k, Data: h, Origin: "fixed"})
			}
		}
		for _, v := range []uint16{0, 1, 2} {
			for _, d := range []int{127, 128, 129, 130} {
				cases = append(cases, Case{Kind: "walk", V: v, Entries: hexEntries(chain(v, d)), Origin: fmt.Sprintf("fixed-chain%d", d)})
				cases = append(cases, Case{Kind: "proof", V: v, Entries: hexEntries(chain(v, d)), Origin: fmt.Sprintf("fixed-chain%d", d)})
			}
		}
		// every prefix of a few small valid encodings (systematic truncation)
		for _, e := range smallEncodings(prng.New(0xb0d)) {
			for cut := 0; cut <= len(e.b); cut++ {
				cases = append(cases, Case{Kind: e.kind, Data: hex.EncodeToString(e.b[:cut]), Origin: "prefix:" + e.origin})
			}
		}
		cases = append(cases, morePrefixCases(prng.New(0xb0d))...)
		cases = append(cases, quoteBoundaryCases()...)
		cases = append(cases, boundaryCases()...)
		cases = append(cases, chunkRawCases()...)
		cases = append(cases, evidenceSystematic()...)
		// chains nested through EACH child position (leaf / left / right) around and beyond the limit
		depths := []int{127, 128, 129, 512}
		if n >= 5000 { // thorough tier
			depths = append(depths, 5000)
		}
		for _, vp := range chainPositions {
			for _, d := range depths {
				es := hexEntries(chainPos(uint16(vp[0]), vp[1], d))
				cases = append(cases, Case{Kind: "walk", V: uint16(vp[0]), Entries: es, Origin: fmt.Sprintf("fixed-chainpos%d-%d", vp[1], d)})
				if d <= 129 {
					cases = append(cases, Case{Kind: "proof", V: uint16(vp[0]), Entries: es, Origin: fmt.Sprintf("fixed-chainpos%d-%d", vp[1], d)})
				}
			}
		}
		for i := 0; i < n; i++ {
			rr := r.Fork()
			k := kinds[rr.Intn(len(kinds))]
			switch k {
			case "walk", "proof":
				cases = append(cases, genProofCase(rr, k))
			case "enc":
				cases = append(cases, genEncCase(rr))
			case "quote":
				cases = append(cases, genQuoteCase(rr))
			case "keyformat":
				cases = append(cases, genKeyFormatCase(rr))
			case "fixed":
				cases = append(cases, genFixedCase(rr))
			case "iasquote":
				cases = append(cases, genIasQuoteCase(rr))
			case "chunk":
				cases = append(cases, genChunkCase(rr))
			case "cbor":
				cases = append(cases, genCborCase(rr))
			case "more":
				cases = append(cases, genMoreCase(rr))
			case "evidence":
				cases = append(cases, genEvidenceCase(rr))
			default:
				cases = append(cases, genDecodeCase(rr, k))
			}
		}
	}
	seen := map[string]bool{}
	var maxRatio float64
	for _, c := range cases {
		o := runModelCase(c)
		sum.Evaluations++
		evj, _ := json.Marshal(c.Ev)
		key := c.Kind + ":" + c.Data + string(evj) + fmt.Sprint(len(c.Ev), c.Mode, c.Fmt, c.NVals, c.Trailing, c.V, c.BadRoot, c.Key, c.Value, c.Label, c.Lbl, c.Mode) + strings.Join(func() []string {
			var s []string
			for _, e := range c.Entries {
				if e == nil {
					s = append(s, "-")
				} else {
					s = append(s, *e)
				}
			}
			return s
		}(), ",")
		if !seen[key] && o.ok {
			sum.DistinctNontrivial++
		}
		seen[key] = true
		sum.Count("outcome:"+c.Kind, o.class)
		og := c.Origin
		if i := strings.IndexAny(og, ":@+0123456789"); i >= 0 {
			og = og[:i]
		}
		if og == "" {
			og = "constructed"
		}
		sum.Count("origin", og)
		if i := strings.Index(c.Origin, "+"); i >= 0 && (c.Kind == "walk" || c.Kind == "proof") {
			sum.Count("proof-list-mutation", c.Origin[i+1:])
		}
		if strings.HasPrefix(c.Origin, "field@") {
			if parts := strings.Split(c.Origin, ":"); len(parts) > 1 {
				sum.Count("field-mutation", parts[1])
			}
		}
		if l := len(c.Data) / 2; l > 0 && !strings.HasPrefix(c.Kind, "enc") {
			if ratio := float64(o.g.alloc) / float64(l+64); ratio > maxRatio {
				maxRatio = ratio
			}
		}
		sum.Sample(c, 3)
		wb.Add(o.term, map[string]any{"case": c})
		if o.violation != "" {
			sum.Violations = append(sum.Violations, map[string]any{"what": o.violation, "case": shrinkModel(c)})
		}
	}
	// very deep chains in a child process with a 32 MiB stack limit: refused, never a crash
	if rc == nil || rc.Kind == "proofdepth" {
		todo := chainPositions
		depth := 300000
		if rc != nil {
			todo, depth = [][2]int{{int(rc.V), rc.Mode}}, rc.NVals
		}
		for _, vp := range todo {
			sum.Evaluations++
			sum.Count("proofdepth-child", fmt.Sprintf("v%d-pos%d", vp[0], vp[1]))
			if msg := proofDepthCheck(vp[0], vp[1], depth); msg != "" {
				sum.Violations = append(sum.Violations, map[string]any{
					"what": fmt.Sprintf("proof walk: version-%d proof of %d internal nodes (5-byte entries 0101000002) nested through child position %d (0 leaf, 1 left, 2 right), all other positions nil, under a 32 MiB stack limit: %s", vp[0], depth, vp[1], msg),
					"case": Case{Kind: "proofdepth", V: uint16(vp[0]), Mode: vp[1], NVals: depth}})
			}
		}
	}
	sum.Extra["max_alloc_bytes_per_input_byte_plus_64"] = maxRatio
	sum.Extra["budget"] = fmt.Sprintf("panic, > %v or > %d bytes allocated per call", budgetTime, budgetAlloc)
	wb.Close()
	sum.Write(out)
}

func shrinkModel(c Case) Case {
	if c.Data == "" {
		return c
	}
	b := shrinkBytes(unhex(c.Data), func(x []byte) bool {
		cc := c
		cc.Data = hex.EncodeToString(x)
		return runModelCase(cc).violation != ""
	})
	c.Data = hex.EncodeToString(b)
	return c
}

// ---------- search-only stream ----------
func runSearch(seed uint64, n int, out string, rc *Case) {
	sum := coqout.NewSummary("SEARCH ONLY (no model, not part of the proof): per entry point, valid seeds plus 1-3 stacked mutations (truncate, extend, bit flip, 16/32-bit length fields set to 0/+-1/max, kind byte, delete/duplicate chunk, CBOR heads declaring huge arrays/maps/strings, indefinite lengths, tags, nesting up to 300, splices) and some pure random inputs; failure = panic, > 2 s, or > 256 MiB allocated in one call. distinct = distinct (target, input); non-trivial = the entry point accepted the input")
	targets := append(searchTargets(), searchTargetsExtra()...)
	targets = append(targets, searchTargetsJSON()...)
	targets = append(targets, searchTargetIOTree())
	sort.Slice(targets, func(i, j int) bool { return targets[i].name < targets[j].name })
	byName := map[string]searchTarget{}
	for _, t := range targets {
		byName[t.name] = t
	}
	runOne := func(t searchTarget, b []byte) (guardResult, error) {
		var err error
		in := exact(b)
		g := guarded(func() { err = t.fn(in) })
		return g, err
	}
	seen := map[string]bool{}
	handle := func(t searchTarget, b []byte, origin string) {
		g, err := runOne(t, b)
		sum.Evaluations++
		cls := "rejected"
		if g.panicked {
			cls = "panic"
		} else if err == nil {
			cls = "accepted"
		}
		sum.Count("search:"+t.name, cls)
		k := t.name + ":" + string(b)
		if !seen[k] && cls == "accepted" {
			sum.DistinctNontrivial++
		}
		seen[k] = true
		if v := g.violation(); v != "" {
			small := shrinkBytes(b, func(x []byte) bool { gg, _ := runOne(t, x); return gg.violation() != "" })
			cs := Case{Kind: "search", Target: t.name, Data: hex.EncodeToString(small), Origin: origin}
			what := "search " + t.name + ": " + v
			sum.Violations = append(sum.Violations, map[string]any{"what": what, "case": cs})
		}
	}
	if rc != nil {
		t, ok := byName[rc.Target]
		if !ok {
			panic("unknown search target " + rc.Target)
		}
		handle(t, unhex(rc.Data), "replay")
	} else {
		r := prng.New(seed ^ 0x5eac)
		seedsOK := map[string]int{}
		for _, t := range targets {
			for _, s := range t.seeds {
				g, err := runOne(t, s)
				if err == nil && !g.panicked {
					seedsOK[t.name]++
				}
				handle(t, s, "seed")
			}
		}
		per := n / max(len(targets), 1)
		for _, t := range targets {
			for i := 0; i < per; i++ {
				rr := r.Fork()
				var b []byte
				origin := "random"
				if codec, ok := searchCodecs[t.name]; ok && rr.Chance(70) && len(t.seeds) > 0 {
					// mutate the payload underneath the framing layer
					if inner, ok := codec.unwrap(t.seeds[rr.Intn(len(t.seeds))]); ok {
						m, name := mutate(rr, inner)
						b, origin = codec.wrap(m), "payload:"+name
					}
				} else if jsonTargets[t.name] && rr.Chance(75) && len(t.seeds) > 0 {
					// structure-aware JSON mutation (survives the syntax layer)
					if m, name, ok := jsonMutate(rr, t.seeds[rr.Intn(len(t.seeds))]); ok {
						b, origin = m, "json:"+name
						sum.Count("json-mutation", strings.SplitN(name, ":", 2)[0])
					}
				} else if rr.Chance(95) && len(t.seeds) > 0 {
					b, origin = mutate(rr, t.seeds[rr.Intn(len(t.seeds))])
				} else {
					b = rr.Bytes(rr.Intn(200))
				}
				handle(t, b, origin)
			}
		}
		names := []string{}
		for _, t := range targets {
			names = append(names, fmt.Sprintf("%s(seeds %d, accepted %d)", t.name, len(t.seeds), seedsOK[t.name]))
		}
		sum.Extra["targets"] = names
	}
	sum.Extra["label"] = "search, not proof: the third-party CBOR/JSON/X.509/snappy decoders behind these entry points are not modelled"
	sum.Extra["budget"] = fmt.Sprintf("panic, > %v or > %d bytes allocated per call", budgetTime, budgetAlloc)
	_ = os.MkdirAll(out, 0o755)
	// no correspondence cases in this stream
	meta, _ := json.Marshal(map[string]any{"shards": 0, "per_shard": 1, "total": 0, "header": "", "run": ""})
	_ = os.WriteFile(out+"/shards.json", meta, 0o644)
	sum.Write(out)
}
