// Command auth is the C09 harness: it drives the REAL ABCI multiplexer
// (through verifharness/internal/muxdrv, all consensus apps registered, the
// staking app as transaction authentication handler) with histories of blocks
// that mix fresh, replayed, reordered, bit-flipped, cross-chain, cross-domain,
// re-attributed, truncated and otherwise malformed signed transactions from
// several signers, on an in-memory proposer and an on-disk replica that is
// restarted between blocks.
//
//	-mode deliver  K: every block becomes one correspondence case for
//	               Verif.Auth.Corr.run_block (pre nonces/balances, envelopes
//	               abstracted with the harness' own decoders and an
//	               independent signature check, observed result classes and
//	               post nonces/balances).
//	               S: an independent Go reference (ref) decides which byte
//	               strings may take effect; the implementation's nonces,
//	               balances and OK codes are checked against it.
//	-mode ctx      K: PrepareSignerContext / WithSuffix for every context of the
//	               regenerated list against Verif.Auth.Model.prepare;
//	               S: PrepareSignerMessage = SHA-512/256(context || message),
//	               and a signature made under one registered context verifies
//	               under no other (all ordered pairs).
package main

import (
	"bytes"
	"context"
	"crypto/ed25519"
	"crypto/sha512"
	"encoding/hex"
	"encoding/json"
	"flag"
	"fmt"
	"math"
	"math/big"
	"os"
	"path/filepath"
	"sort"
	"strconv"
	"strings"
	"time"

	voicurve "github.com/oasisprotocol/curve25519-voi/curve"
	voied "github.com/oasisprotocol/curve25519-voi/primitives/ed25519"

	"github.com/oasisprotocol/oasis-core/go/common/cbor"
	"github.com/oasisprotocol/oasis-core/go/common/crypto/signature"
	"github.com/oasisprotocol/oasis-core/go/common/quantity"
	consensus "github.com/oasisprotocol/oasis-core/go/consensus/api"
	abciAPI "github.com/oasisprotocol/oasis-core/go/consensus/cometbft/api"
	stakingState "github.com/oasisprotocol/oasis-core/go/consensus/cometbft/apps/staking/state"
	"github.com/oasisprotocol/oasis-core/go/consensus/api/transaction"
	genesis "github.com/oasisprotocol/oasis-core/go/genesis/api"
	staking "github.com/oasisprotocol/oasis-core/go/staking/api"

	// packages that register signature contexts (so that -mode ctx finds them registered)
	_ "github.com/oasisprotocol/oasis-core/go/common/node"
	_ "github.com/oasisprotocol/oasis-core/go/consensus/cometbft/crypto"
	_ "github.com/oasisprotocol/oasis-core/go/keymanager/churp"
	_ "github.com/oasisprotocol/oasis-core/go/keymanager/secrets"
	_ "github.com/oasisprotocol/oasis-core/go/p2p/api"
	_ "github.com/oasisprotocol/oasis-core/go/registry/api"
	_ "github.com/oasisprotocol/oasis-core/go/roothash/api/commitment"
	_ "github.com/oasisprotocol/oasis-core/go/runtime/rofl/api"

	"verifharness/internal/coqout"
	"verifharness/internal/muxdrv"
	"verifharness/internal/prng"
)

// ---------------------------------------------------------------------------
// case descriptions (replayable)
// ---------------------------------------------------------------------------

// Desc identifies one block of one generated history. The history is a pure
// function of (Seed, Blocks, Txs): the generator never looks at what the
// implementation answered. Drop removes generated transactions (shrinking).
type Desc struct {
	Mode   string   `json:"mode"`
	Seed   uint64   `json:"seed"`
	Blocks int      `json:"blocks"`
	Txs    int      `json:"txs"`
	Block  int      `json:"block"`
	Drop   [][2]int `json:"drop,omitempty"`
	// informational
	Kinds []string `json:"kinds,omitempty"`
	TxHex []string `json:"tx_hex,omitempty"`
}

type genTx struct {
	Raw    []byte
	Kind   string
	NoExec bool // must never take effect whatever the state (forged / foreign-domain / altered)
	Orig   []byte // the unaltered byte string an altered one was derived from
	// PreCheck: genuine byte strings that are only CheckTx'ed on both replicas
	// before this block (never delivered): the source of a spliced envelope.
	PreCheck [][]byte
}

type plan struct {
	seed        uint64
	minTransact uint64
	minGasPrice uint64
	maxTxSize   uint64
	initNonce   map[int]uint64 // account index -> genesis nonce
	blocks      [][]genTx
	restart     []bool
	abandoned   [][][]byte // per block: the transactions of a proposal that is executed but NOT decided
	warm        bool // CheckTx every byte string of a block on both replicas before it is delivered
}

// ---------------------------------------------------------------------------
// independent Go reference
// ---------------------------------------------------------------------------

type absTx struct {
	Len      int
	Env      bool
	Addr     string // staking address (hex) of the claimed signer
	SigValid bool // the verdict the property needs: equation holds, A and R not of small order
	EqValid  bool // the Ed25519 equation alone (small orders, non-canonical encodings tolerated)
	SmallA   bool // the public key bytes decode to a small-order point
	SmallR   bool // the R half of the signature decodes to a small-order point
	Black    bool // the claimed public key is blacklisted
	TxOK     bool
	Nonce    uint64
	HasFee   bool
	FeeAmt   *quantity.Quantity
	FeeGas   uint64
	Method   int // 0 empty 1 system 2 unknown 3 transfer 4 burn
	To       string
	Amount   *quantity.Quantity
	BodyOK   bool
}

const (
	gasTransfer = 1000
	gasBurn     = 1000
	gasEscrow   = 1300
	gasAllow    = 1100
	gasWithdraw = 1200
	minDeleg    = 10
	maxAllow    = 8
	gasByte     = 1
	minTransfer = 10
)

// Process-wide registrations (the blacklist and the reserved-address set are
// globals of oasis-core): one harness key whose public key is blacklisted and
// one whose staking address is reserved (the public key stays usable, so the
// reserved-address branch of AuthenticateAndPayFees is reached with a valid signature).
var (
	blackKey = muxdrv.NewKey("verif-auth/blacklisted")
	resvKey  = muxdrv.NewKey("verif-auth/reserved")
)

func init() {
	if err := blackKey.Public().Blacklist(); err != nil {
		panic(err)
	}
	if err := resvKey.Address().Reserve(); err != nil {
		panic(err)
	}
}

type ref struct {
	nonce map[string]uint64
	bal   map[string]uint64
	alw   map[string]map[string]uint64 // owner -> beneficiary -> allowance (no zero entries)
	supply uint64                      // staking total supply (genesis, lowered by burns)
	p     *plan
}

func qU64(q *quantity.Quantity) (uint64, bool) {
	if q == nil {
		return 0, true
	}
	b := q.ToBigInt()
	if !b.IsUint64() {
		return 0, false
	}
	return b.Uint64(), true
}

// apply returns (authenticated, ok): whether the byte string passes
// authentication in the reference state (nonce consumed, fee paid) and whether
// it executes successfully.
func (r *ref) apply(a *absTx) (bool, bool) {
	if r.p.maxTxSize > 0 && uint64(a.Len) > r.p.maxTxSize {
		return false, false
	}
	if !a.Env || !a.SigValid || a.Black || !a.TxOK || a.Method < 3 || a.Method > 8 {
		return false, false
	}
	if a.Addr == resvKey.Address().String() {
		return false, false
	}
	if r.nonce[a.Addr] != a.Nonce {
		return false, false
	}
	fee, fits := qU64(a.FeeAmt)
	if !a.HasFee {
		fee, fits = 0, true
	}
	if !fits || fee > math.MaxUint64-r.p.minTransact || r.bal[a.Addr] < fee+r.p.minTransact {
		return false, false
	}
	r.bal[a.Addr] -= fee
	r.nonce[a.Addr]++ // uint64 wrap-around intended
	gasLimit := a.FeeGas
	if !a.HasFee {
		gasLimit = 0
	}
	used := uint64(a.Len) * gasByte
	if used > gasLimit {
		return true, false
	}
	if r.p.minGasPrice > 0 {
		if !a.HasFee {
			return true, false
		}
		var price uint64
		if fee != 0 && a.FeeGas != 0 {
			price = fee / a.FeeGas
		}
		if price < r.p.minGasPrice {
			return true, false
		}
	}
	if !a.BodyOK {
		return true, false
	}
	op := map[int]uint64{3: gasTransfer, 4: gasBurn, 5: gasEscrow, 6: gasAllow, 8: gasAllow, 7: gasWithdraw}[a.Method]
	if used+op > gasLimit {
		return true, false
	}
	amt, fits := qU64(a.Amount)
	resv := resvKey.Address().String()
	switch a.Method {
	case 5: // AddEscrow: only the delegator's general balance is tracked
		if !fits || amt < minDeleg || (a.To != a.Addr && a.To == resv) || r.bal[a.Addr] < amt || r.bal[a.Addr]-amt < r.p.minTransact {
			return true, false
		}
		r.bal[a.Addr] -= amt
		return true, true
	case 6, 8: // Allow
		if !fits || a.To == resv || a.To == a.Addr {
			return true, false
		}
		cur := r.alw[a.Addr][a.To]
		nw := cur + amt
		if nw < cur {
			nw = math.MaxUint64 // saturate: certainly above the supply
		}
		if a.Method == 8 {
			nw = 0
			if cur > amt {
				nw = cur - amt
			}
		}
		if nw > r.supply {
			return true, false // ErrAllowanceGreaterThanSupply
		}
		n := len(r.alw[a.Addr])
		if cur == 0 && nw != 0 {
			n++
		}
		if cur != 0 && nw == 0 {
			n--
		}
		if n > maxAllow {
			return true, false
		}
		if r.alw[a.Addr] == nil {
			r.alw[a.Addr] = map[string]uint64{}
		}
		if nw == 0 {
			delete(r.alw[a.Addr], a.To)
		} else {
			r.alw[a.Addr][a.To] = nw
		}
		return true, true
	case 7: // Withdraw: the signer takes amt out of a.To
		src := a.To
		if !fits || amt < minTransfer || src == resv || src == a.Addr {
			return true, false
		}
		cur := r.alw[src][a.Addr]
		if cur == 0 || cur < amt || r.bal[src] < amt || r.bal[src]-amt < r.p.minTransact || r.bal[a.Addr]+amt < r.p.minTransact {
			return true, false
		}
		if cur == amt {
			delete(r.alw[src], a.Addr)
		} else {
			r.alw[src][a.Addr] = cur - amt
		}
		r.bal[src] -= amt
		r.bal[a.Addr] += amt
		return true, true
	}
	if !fits || amt < minTransfer || r.bal[a.Addr] < amt {
		return true, false
	}
	if a.Method == 3 && a.To == a.Addr {
		return true, true
	}
	if a.Method == 3 && a.To == resvKey.Address().String() {
		return true, false // state.Account(reserved address) fails (transactions.go:118)
	}
	if r.bal[a.Addr]-amt < r.p.minTransact {
		return true, false
	}
	if a.Method == 3 {
		if r.bal[a.To]+amt < r.p.minTransact {
			return true, false
		}
		r.bal[a.To] += amt
	} else {
		r.supply -= amt // Burn
	}
	r.bal[a.Addr] -= amt
	return true, true
}

// ---------------------------------------------------------------------------
// abstraction of raw bytes (harness-side decoders, independent signature check)
// ---------------------------------------------------------------------------

// The independent verdict. Nothing of go/common/crypto/signature is used: the digest
// SHA-512/256("oasis-core/consensus: tx for chain <chain>" || blob) is built here and
// the acceptance rules are the harness' OWN, fixed ones -- those the property needs:
//
//	valid  :=  Ed25519 equation holds (cofactored, non-canonical encodings tolerated)
//	           AND the public key A is not of small order
//	           AND the commitment R is not of small order
//
// (with a small-order A the equation holds for every message once [8][S]B = [8]R:
// such a "signature" proves nothing). The three components are computed separately
// (curve25519-voi curve arithmetic / verification with everything tolerated) and are
// also handed to the Coq model; the combination is cross-checked against one voi call
// with the literal options below. The repository's defaultOptions are NOT imported:
// a change of that literal must not change this oracle. Differences to the standard
// library's crypto/ed25519 (no small-order rejection) are only counted.
var (
	ownOptions = &voied.Options{Verify: &voied.VerifyOptions{
		AllowSmallOrderA: false, AllowSmallOrderR: false, AllowNonCanonicalA: true, AllowNonCanonicalR: true}}
	permissiveOptions = &voied.Options{Verify: &voied.VerifyOptions{
		AllowSmallOrderA: true, AllowSmallOrderR: true, AllowNonCanonicalA: true, AllowNonCanonicalR: true}}
)

var stdlibDiffers int

func isSmallOrder(enc []byte) bool {
	var c voicurve.CompressedEdwardsY
	if _, err := c.SetBytes(enc); err != nil {
		return false
	}
	p := voicurve.NewEdwardsPoint()
	if _, err := p.SetCompressedY(&c); err != nil {
		return false
	}
	return p.IsSmallOrder()
}

func indepValid(pk signature.PublicKey, blob, sig []byte, chain string) (valid, eq, smallA, smallR bool) {
	h := sha512.New512_256()
	h.Write(muxdrv.TxRawContext(chain))
	h.Write(blob)
	d := h.Sum(nil)
	eq = voied.VerifyWithOptions(voied.PublicKey(pk[:]), d, sig, permissiveOptions)
	smallA = isSmallOrder(pk[:])
	smallR = len(sig) == 64 && isSmallOrder(sig[:32])
	valid = eq && !smallA && !smallR
	if voied.VerifyWithOptions(voied.PublicKey(pk[:]), d, sig, ownOptions) != valid {
		panic(fmt.Sprintf("harness: the composed verdict differs from voi with the harness' own options (pk %x sig %x)", pk[:], sig))
	}
	if ed25519.Verify(ed25519.PublicKey(pk[:]), d, sig) != valid {
		stdlibDiffers++
	}
	return
}

// The eight points of small order of edwards25519 and the non-canonical encodings of
// those that have one (y >= p, or x = 0 with the sign bit set).
var smallOrderEncodings = func() [][]byte {
	hx := []string{
		"0100000000000000000000000000000000000000000000000000000000000000", // identity (order 1)
		"ecffffffffffffffffffffffffffffffffffffffffffffffffffffffffffff7f", // (0,-1) order 2
		"0000000000000000000000000000000000000000000000000000000000000000", // order 4
		"0000000000000000000000000000000000000000000000000000000000000080", // order 4
		"26e8958fc2b227b045c3f489f2ef98f0d5dfac05d3c63339b13802886d53fc05", // order 8
		"26e8958fc2b227b045c3f489f2ef98f0d5dfac05d3c63339b13802886d53fc85", // order 8
		"c7176a703d4dd84fba3c0b760d10670f2a2053fa2c39ccc64ec7fd7792ac037a", // order 8
		"c7176a703d4dd84fba3c0b760d10670f2a2053fa2c39ccc64ec7fd7792ac03fa", // order 8
		// non-canonical encodings
		"0100000000000000000000000000000000000000000000000000000000000080", // identity, sign bit set
		"ecffffffffffffffffffffffffffffffffffffffffffffffffffffffffffffff", // (0,-1), sign bit set
		"edffffffffffffffffffffffffffffffffffffffffffffffffffffffffffff7f", // y = p (= 0)
		"edffffffffffffffffffffffffffffffffffffffffffffffffffffffffffffff", // y = p, sign bit set
		"eeffffffffffffffffffffffffffffffffffffffffffffffffffffffffffff7f", // y = p+1 (= 1)
		"eeffffffffffffffffffffffffffffffffffffffffffffffffffffffffffffff", // y = p+1, sign bit set
	}
	var out [][]byte
	for _, h := range hx {
		b, err := hex.DecodeString(h)
		if err != nil || len(b) != 32 {
			panic("bad small-order constant " + h)
		}
		if !isSmallOrder(b) {
			panic("not a small-order encoding: " + h)
		}
		out = append(out, b)
	}
	return out
}()

// forgedSig returns a signature that satisfies the verification equation for EVERY
// message under any small-order public key: S = s (0 or 1), R = [s]B + T, T = the
// small-order point encoded by smallOrderEncodings[t] (T = identity and s = 1: R = B).
func forgedSig(sVal int, t int) []byte {
	var c voicurve.CompressedEdwardsY
	if _, err := c.SetBytes(smallOrderEncodings[t]); err != nil {
		panic(err)
	}
	T := voicurve.NewEdwardsPoint()
	if _, err := T.SetCompressedY(&c); err != nil {
		panic(err)
	}
	R := T
	if sVal == 1 {
		R = voicurve.NewEdwardsPoint().Add(voicurve.ED25519_BASEPOINT_POINT, T)
	}
	var rc voicurve.CompressedEdwardsY
	rc.SetEdwardsPoint(R)
	sig := make([]byte, 64)
	copy(sig, rc[:])
	if sVal == 0 && t >= 8 {
		copy(sig, smallOrderEncodings[t]) // keep the non-canonical encoding of R
	}
	sig[32] = byte(sVal)
	return sig
}

// envelope builds the raw bytes of (blob, pk, sig) without any signing.
func envelope(blob, pk, sig []byte) []byte {
	var st transaction.SignedTransaction
	st.Blob = blob
	copy(st.Signature.PublicKey[:], pk)
	copy(st.Signature.Signature[:], sig)
	return cbor.Marshal(&st)
}

// plusL replaces S by S + L (the group order): same residue, non-canonical scalar.
func plusL(raw []byte) []byte {
	var st transaction.SignedTransaction
	if err := cbor.Unmarshal(raw, &st); err != nil {
		return raw
	}
	le := st.Signature.Signature[32:]
	be := make([]byte, 32)
	for i := range le {
		be[31-i] = le[i]
	}
	L, _ := new(big.Int).SetString("7237005577332262213973186563042994240857116359379907606001950938285454250989", 10)
	v := new(big.Int).Add(new(big.Int).SetBytes(be), L)
	if v.BitLen() > 256 {
		return raw
	}
	nb := v.FillBytes(make([]byte, 32))
	for i := range nb {
		st.Signature.Signature[32+i] = nb[31-i]
	}
	return cbor.Marshal(&st)
}

func abstract(raw []byte, chain string) (*absTx, bool) {
	a := &absTx{Len: len(raw)}
	var st transaction.SignedTransaction
	if err := cbor.Unmarshal(raw, &st); err != nil {
		return a, true
	}
	a.Env = true
	a.Addr = staking.NewAddress(st.Signature.PublicKey).String()
	a.SigValid, a.EqValid, a.SmallA, a.SmallR = indepValid(st.Signature.PublicKey, st.Blob, st.Signature.Signature[:], chain)
	a.Black = st.Signature.PublicKey.Equal(blackKey.Public())
	real := st.Signature.Verify(transaction.SignatureContext, st.Blob)
	agree := real == (a.SigValid && !a.Black) && a.Black == st.Signature.PublicKey.IsBlacklisted()
	var tx transaction.Transaction
	if err := cbor.Unmarshal(st.Blob, &tx); err != nil {
		return a, agree
	}
	a.TxOK = true
	a.Nonce = tx.Nonce
	if tx.Fee != nil {
		a.HasFee = true
		a.FeeAmt = tx.Fee.Amount.Clone()
		a.FeeGas = uint64(tx.Fee.Gas)
	}
	switch tx.Method {
	case "":
		a.Method = 0
	case "consensus.Meta":
		a.Method = 1
	case staking.MethodTransfer:
		a.Method = 3
		var x staking.Transfer
		if err := cbor.Unmarshal(tx.Body, &x); err == nil {
			a.BodyOK = true
			a.To = x.To.String()
			a.Amount = x.Amount.Clone()
		}
	case staking.MethodAddEscrow:
		a.Method = 5
		var x staking.Escrow
		if err := cbor.Unmarshal(tx.Body, &x); err == nil {
			a.BodyOK = true
			a.To = x.Account.String()
			a.Amount = x.Amount.Clone()
		}
	case staking.MethodAllow:
		a.Method = 6
		var x staking.Allow
		if err := cbor.Unmarshal(tx.Body, &x); err == nil {
			a.BodyOK = true
			a.To = x.Beneficiary.String()
			a.Amount = x.AmountChange.Clone()
			if x.Negative {
				a.Method = 8
			}
		}
	case staking.MethodWithdraw:
		a.Method = 7
		var x staking.Withdraw
		if err := cbor.Unmarshal(tx.Body, &x); err == nil {
			a.BodyOK = true
			a.To = x.From.String()
			a.Amount = x.Amount.Clone()
		}
	case staking.MethodBurn:
		a.Method = 4
		var x staking.Burn
		if err := cbor.Unmarshal(tx.Body, &x); err == nil {
			a.BodyOK = true
			a.Amount = x.Amount.Clone()
		}
	default:
		a.Method = 2
	}
	return a, agree
}

// classify maps a DeliverTx response to the observable class of Verif.Auth.Corr.obs.
func classify(t *muxdrv.TxResult) int {
	if t.Code == 0 {
		return 0
	}
	l := t.Log
	switch {
	case t.Codespace == "consensus" && t.Code == 2:
		return 1
	case strings.Contains(l, "signature verification failed"):
		return 3
	case strings.Contains(l, "empty method"):
		return 5
	case strings.Contains(l, "mux: unknown method"):
		return 7
	case t.Codespace == "consensus/transaction" && t.Code == 1:
		return 8
	case t.Codespace == "consensus/transaction" && t.Code == 3:
		return 12
	case strings.Contains(l, "reserved account"):
		return 13
	case t.Codespace == "staking":
		return 20
	case strings.Contains(l, "out of gas") || l == "insufficient balance" || strings.Contains(l, "invalid account address"):
		return 20
	case strings.Contains(l, "cbor") || strings.Contains(l, "EOF") || strings.Contains(l, "malformed") || strings.Contains(l, "unexpected"):
		return 2
	}
	return 99
}

// ---------------------------------------------------------------------------
// generator
// ---------------------------------------------------------------------------

type signer struct {
	key  *muxdrv.Key
	addr staking.Address
	idx  int // genesis account index, -1 if not in genesis
}

func signBlob(k *muxdrv.Key, blob, rawContext []byte) []byte {
	h := sha512.New512_256()
	h.Write(rawContext)
	h.Write(blob)
	sig := ed25519.Sign(k.Priv, h.Sum(nil))
	var st transaction.SignedTransaction
	st.Blob = blob
	st.Signature.PublicKey = k.Public()
	copy(st.Signature.Signature[:], sig)
	return cbor.Marshal(&st)
}

func u64q(v uint64) quantity.Quantity { return *quantity.NewFromUint64(v) }

const nAccounts = 10

func planParams(seed uint64) *plan {
	r := prng.New(seed ^ 0xa0761d6478bd642f)
	p := &plan{seed: seed, initNonce: map[int]uint64{}}
	p.minTransact = []uint64{0, 0, 100}[r.Intn(3)]
	p.minGasPrice = []uint64{0, 0, 0, 2}[r.Intn(4)]
	p.maxTxSize = []uint64{32768, 32768, 420}[r.Intn(3)]
	p.initNonce[4] = math.MaxUint64 - uint64(r.Intn(3)) // wraps during the history
	p.initNonce[5] = []uint64{1<<63 - 1, 1 << 32, 7}[r.Intn(3)]
	p.warm = r.Chance(50)
	return p
}

func newGenesis(p *plan) (*muxdrv.Genesis, error) {
	return muxdrv.NewGenesis(p.seed, muxdrv.GenesisOpts{
		Validators: 4, Accounts: nAccounts,
		ConsensusMinGasPrice: p.minGasPrice, MaxTxSize: p.maxTxSize,
		Mutate: func(doc *genesis.Document) {
			doc.Staking.Parameters.MinTransactBalance = u64q(p.minTransact)
			// fund the addresses of the small-order "public keys" (every encoding): a forged
			// envelope in their name would have something to spend
			for _, enc := range smallOrderEncodings {
				var pk signature.PublicKey
				copy(pk[:], enc)
				addr := staking.NewAddress(pk)
				if doc.Staking.Ledger[addr] == nil {
					doc.Staking.Ledger[addr] = &staking.Account{General: staking.GeneralAccount{Balance: u64q(500_000)}}
					_ = doc.Staking.TotalSupply.Add(quantity.NewFromUint64(500_000))
				}
			}
			for i := 0; i < nAccounts; i++ {
				if n, ok := p.initNonce[i]; ok {
					k := muxdrv.NewKey(fmt.Sprintf("verif/%d/acct/%d", p.seed, i))
					if acc := doc.Staking.Ledger[k.Address()]; acc != nil {
						acc.General.Nonce = n
					}
				}
			}
		},
	})
}

// foreign raw contexts (other registered domains) for cross-domain envelopes
func foreignContexts(chain string) [][]byte {
	rt := strings.Repeat("8", 64)
	return [][]byte{
		[]byte("oasis-core/registry: register entity"),
		[]byte("oasis-core/registry: register node"),
		[]byte("oasis-core/tendermint"),
		[]byte("oasis-core/roothash: proposal for runtime " + rt + " for chain " + chain),
		[]byte("oasis-core/roothash: executor commitment for runtime " + rt + " for chain " + chain),
		[]byte("oasis-core/consensus: tx"),               // without chain separation
		[]byte("oasis-core/consensus: tx for chain "),    // empty chain
		[]byte("oasis-core/consensus: tx for chain " + chain + " "),
	}
}

func otherChains(chain string) []string {
	b := []byte(chain)
	b[len(b)-1] ^= 1
	c := []byte(chain)
	c[0] ^= 2
	return []string{string(b), string(c), "deadbeef", chain[:len(chain)-1], strings.ToUpper(chain)}
}

// buildPlan generates the whole history. It uses only the reference state.
func buildPlan(seed uint64, nblocks, ntx int, g *muxdrv.Genesis, p *plan) {
	r := prng.New(seed)
	chain := g.ChainContext
	var signers []*signer
	for i := 0; i < 6; i++ {
		signers = append(signers, &signer{key: g.Accounts[i].Key, addr: g.Accounts[i].Address, idx: i})
	}
	signers = append(signers, &signer{key: g.Accounts[nAccounts-1].Key, addr: g.Accounts[nAccounts-1].Address, idx: nAccounts - 1}) // balance 50
	for i := 0; i < 2; i++ {
		k := muxdrv.NewKey(fmt.Sprintf("verif-auth/%d/unfunded/%d", seed, i))
		signers = append(signers, &signer{key: k, addr: k.Address(), idx: -1})
	}
	signers = append(signers, &signer{key: blackKey, addr: blackKey.Address(), idx: -1}, &signer{key: resvKey, addr: resvKey.Address(), idx: -1})
	rf := newRef(g, p)
	var pool [][]byte // byte strings that passed authentication in the reference at some point
	// every correctly signed byte string generated so far (whatever became of it), with its signer
	type vsrc struct {
		raw []byte
		s   *signer
	}
	var validPool []vsrc
	byAddr := map[string]*signer{}
	for _, s := range signers {
		byAddr[s.addr.String()] = s
	}
	fee := func() *transaction.Fee {
		gas := uint64(muxdrv.DefaultGas)
		amt := uint64(10)
		if p.minGasPrice > 0 {
			gas = 2500
			amt = gas * p.minGasPrice
		}
		switch r.Intn(14) {
		case 0:
			return nil
		case 1:
			return muxdrv.Fee(0, gas)
		case 2:
			return muxdrv.Fee(amt, 0)
		case 3:
			return muxdrv.Fee(amt, 900) // not enough for the operation
		case 4:
			return muxdrv.Fee(1<<62, gas) // not payable
		case 5:
			return muxdrv.Fee(amt, 150) // not enough for the size
		case 6:
			return muxdrv.Fee(1, gas) // low price
		}
		return muxdrv.Fee(amt, gas)
	}
	okFee := func() *transaction.Fee {
		if p.minGasPrice > 0 {
			return muxdrv.Fee(2500*p.minGasPrice, 2500)
		}
		return muxdrv.Fee(10, muxdrv.DefaultGas)
	}
	freshTx := func(s *signer, nonce uint64) *transaction.Transaction {
		to := signers[r.Intn(6)].addr
		amt := uint64(r.Range(10, 900))
		switch r.Intn(14) {
		case 12:
			to = resvKey.Address() // a reserved address as recipient
		case 0:
			amt = uint64(r.Intn(10)) // under the minimum
		case 1:
			amt = 1 << 60 // more than the balance
		case 2:
			to = s.addr // self
		}
		f := fee()
		if s.key == resvKey || s.key == blackKey {
			f = muxdrv.Fee(0, muxdrv.DefaultGas)
		} else if s.idx < 0 || s.idx == nAccounts-1 {
			if r.Chance(70) {
				f = muxdrv.Fee(0, muxdrv.DefaultGas)
			}
		}
		switch r.Intn(24) {
		case 0, 1:
			return muxdrv.TxAddEscrow(nonce, f, g.Validators[r.Intn(len(g.Validators))].EntityAddress(), amt)
		case 2, 3:
			return muxdrv.TxAllow(nonce, f, to, false, amt)
		case 4:
			return muxdrv.TxAllow(nonce, f, to, true, amt/2)
		case 5, 6:
			return muxdrv.TxWithdraw(nonce, f, to, amt/2+5)
		}
		if r.Chance(25) {
			return muxdrv.TxBurn(nonce, f, amt)
		}
		return muxdrv.TxTransfer(nonce, f, to, amt)
	}
	refNonce := func(s *signer) uint64 { return rf.nonce[s.addr.String()] }
	attacker := signers[8]
	// ---- drain / re-fund / replay-everything machine (needs MinTransactBalance = 0) ----
	// three funded accounts used for nothing else: a few ordinary transactions, then a Transfer or
	// Burn of EXACTLY the remaining balance (fee zero or not), later a re-funding by somebody else
	// with no transaction of the drained signer in between, then a replay of every transaction of
	// that signer that ever executed.
	type drainer struct {
		s     *signer
		phase int
		left  int
	}
	var drainers []*drainer
	for i := 6; i <= 8; i++ {
		drainers = append(drainers, &drainer{s: &signer{key: g.Accounts[i].Key, addr: g.Accounts[i].Address, idx: i}, left: 1 + r.Intn(2)})
	}
	executedBy := map[string][][]byte{} // per signer address: byte strings that executed (reference)
	var allExecuted [][]byte
	var after func()
	drainStep := func() []genTx {
		d := drainers[r.Intn(len(drainers))]
		da := d.s.addr.String()
		switch d.phase {
		case 0:
			d.left--
			if d.left <= 0 {
				d.phase = 1
			}
			return []genTx{{Raw: muxdrv.Sign(d.s.key, muxdrv.TxTransfer(refNonce(d.s), okFee(), signers[r.Intn(6)].addr, uint64(r.Range(10, 900)))), Kind: "fresh"}}
		case 1:
			f := okFee()
			if p.minGasPrice == 0 && r.Chance(50) {
				f = muxdrv.Fee(0, muxdrv.DefaultGas)
			}
			fa, _ := qU64(&f.Amount)
			bal := rf.bal[da]
			if bal < fa+minTransfer {
				d.phase = 2
				return nil
			}
			var tx *transaction.Transaction
			kind := "drain-to-zero"
			after = func() {
				if rf.bal[da] == 0 {
					d.phase = 2
				}
			}
			switch r.Intn(10) {
			case 0, 1, 2:
				tx = muxdrv.TxBurn(refNonce(d.s), f, bal-fa)
			case 3, 4:
				// emptied through the escrow path
				kind = "drain-by-escrow"
				tx = muxdrv.TxAddEscrow(refNonce(d.s), f, g.Validators[r.Intn(len(g.Validators))].EntityAddress(), bal-fa)
			case 5, 6:
				// emptied through the allowance path: the owner allows exactly what will be left,
				// a beneficiary withdraws it (the allowance entry disappears with it)
				ben := signers[r.Intn(4)]
				return []genTx{
					{Raw: muxdrv.Sign(d.s.key, muxdrv.TxAllow(refNonce(d.s), f, ben.addr, false, bal-fa)), Kind: "drain-allow"},
					{Raw: muxdrv.Sign(ben.key, muxdrv.TxWithdraw(refNonce(ben), okFee(), d.s.addr, bal-fa)), Kind: "drain-by-withdraw"},
				}
			default:
				tx = muxdrv.TxTransfer(refNonce(d.s), f, signers[r.Intn(6)].addr, bal-fa)
			}
			return []genTx{{Raw: muxdrv.Sign(d.s.key, tx), Kind: kind}}
		case 2:
			fu := signers[r.Intn(4)]
			after = func() {
				if rf.bal[da] > 0 {
					d.phase = 3
				}
			}
			return []genTx{{Raw: muxdrv.Sign(fu.key, muxdrv.TxTransfer(refNonce(fu), okFee(), d.s.addr, uint64(60_000+r.Intn(1000)))), Kind: "refund-drained"}}
		default:
			var out []genTx
			for _, raw := range executedBy[da] {
				out = append(out, genTx{Raw: raw, Kind: "replay-after-drain"})
			}
			d.phase, d.left = 0, 1+r.Intn(2)
			return out
		}
	}
	// splice: (blob', pk, sig) -- public key and signature of a genuine envelope of
	// signer src on a different, never-signed, well-formed body carrying src's current nonce
	splice := func(srcRaw []byte, src *signer) []byte {
		var st transaction.SignedTransaction
		if err := cbor.Unmarshal(srcRaw, &st); err != nil {
			panic(err)
		}
		var tx *transaction.Transaction
		n := refNonce(src)
		switch r.Intn(4) {
		case 0:
			tx = muxdrv.TxTransfer(n, okFee(), attacker.addr, uint64(r.Range(100, 5000)))
		case 1:
			tx = muxdrv.TxBurn(n, okFee(), uint64(r.Range(100, 5000)))
		case 2:
			tx = muxdrv.TxTransfer(n, okFee(), signers[r.Intn(6)].addr, uint64(r.Range(10, 900)))
		default:
			tx = muxdrv.TxTransfer(n, muxdrv.Fee(0, muxdrv.DefaultGas), attacker.addr, 1000)
		}
		st.Blob = cbor.Marshal(tx)
		return cbor.Marshal(&st)
	}
	for b := 0; b < nblocks; b++ {
		var blk []genTx
		// a failed consensus round: a proposal that replicas execute (PrepareProposal on the
		// proposer, ProcessProposal on the others) but that is never decided. Its transactions
		// are valid in the state at the start of the block and are NOT applied to the reference;
		// the decided block starts with the same signers' NEXT nonces, which must be rejected.
		var ab [][]byte
		if r.Chance(35) {
			for j, na := 0, r.Range(1, 3); j < na; j++ {
				s := signers[r.Intn(4)]
				n0 := refNonce(s)
				ab = append(ab, muxdrv.Sign(s.key, muxdrv.TxTransfer(n0, okFee(), attacker.addr, uint64(r.Range(100, 900)))))
				t := genTx{Raw: muxdrv.Sign(s.key, muxdrv.TxTransfer(n0+1, okFee(), attacker.addr, uint64(r.Range(100, 900)))), Kind: "next-nonce-after-abandoned-round"}
				a, _ := abstract(t.Raw, chain)
				rf.apply(a)
				blk = append(blk, t)
			}
		}
		p.abandoned = append(p.abandoned, ab)
		n := r.Range(ntx/2+1, ntx)
		for len(blk) < n {
			s := signers[r.Intn(len(signers))]
			if r.Chance(35) { // concentrate on the wrap-around and busy accounts
				s = signers[[]int{0, 1, 4, 5}[r.Intn(4)]]
			}
			var add []genTx
			k := r.Intn(100)
			if dr := r.Intn(100); dr < 14 && p.minTransact == 0 {
				k = -3
				add = drainStep()
			} else if sp := r.Intn(100); sp >= 10 && sp < 18 {
				k = -2 // Ed25519 edge cases: small-order keys / commitments, non-canonical scalars
				switch {
				case sp < 15:
					// universal forgery: small-order "public key" (funded in genesis), S in {0,1},
					// R = [S]B + T for a small-order T -- the equation holds for every message
					pkEnc := smallOrderEncodings[r.Intn(len(smallOrderEncodings))]
					var pk signature.PublicKey
					copy(pk[:], pkEnc)
					addr := staking.NewAddress(pk)
					tx := muxdrv.TxTransfer(rf.nonce[addr.String()], okFee(), attacker.addr, uint64(r.Range(100, 5000)))
					sVal, t := r.Intn(2), r.Intn(len(smallOrderEncodings))
					if r.Chance(40) {
						sVal, t = 1, 0 // R = basepoint, S = 1
					}
					add = []genTx{{Raw: envelope(cbor.Marshal(tx), pkEnc, forgedSig(sVal, t)), Kind: fmt.Sprintf("smallorder-forged-S%d", sVal), NoExec: true}}
				case sp < 16:
					// genuine signature with S replaced by S + L
					g0 := muxdrv.Sign(s.key, freshTx(s, refNonce(s)))
					add = []genTx{{Raw: plusL(g0), Kind: "sig-S-plus-L", NoExec: true}}
				case sp < 17:
					// honest key, universal-forgery signature
					pkb := s.key.Public()
					add = []genTx{{Raw: envelope(cbor.Marshal(freshTx(s, refNonce(s))), pkb[:], forgedSig(1, r.Intn(8))), Kind: "forged-sig-honest-key", NoExec: true}}
				default:
					// genuine envelope whose R is replaced by a small-order encoding
					g0 := muxdrv.Sign(s.key, freshTx(s, refNonce(s)))
					var st transaction.SignedTransaction
					_ = cbor.Unmarshal(g0, &st)
					copy(st.Signature.Signature[:32], smallOrderEncodings[r.Intn(len(smallOrderEncodings))])
					add = []genTx{{Raw: cbor.Marshal(&st), Kind: "small-order-R", NoExec: true}}
				}
			} else if sp < 10 {
				k = -1 // spliced envelopes
				switch {
				case sp < 5 && len(validPool) > 0:
					// source: a genuine envelope seen earlier (often just before, in this block)
					v := validPool[r.Intn(len(validPool))]
					if r.Chance(50) {
						v = validPool[len(validPool)-1-r.Intn(min(3, len(validPool)))]
					}
					add = []genTx{{Raw: splice(v.raw, v.s), Kind: "spliced", NoExec: true}}
				case sp < 7:
					// genuine envelope delivered right before its spliced copy
					g0 := muxdrv.Sign(s.key, freshTx(s, refNonce(s)+uint64(r.Intn(2)))) // sometimes fails on the nonce
					add = []genTx{{Raw: g0, Kind: "fresh"}}
					validPool = append(validPool, vsrc{g0, s})
				case sp < 9:
					// source only CheckTx'ed, never delivered
					g0 := muxdrv.Sign(s.key, muxdrv.TxTransfer(refNonce(s), okFee(), signers[r.Intn(6)].addr, 50))
					add = []genTx{{Raw: splice(g0, s), Kind: "spliced-checked", NoExec: true, PreCheck: [][]byte{g0}}}
				case len(validPool) > 0:
					// (blob, pk', sig): somebody else's key on a genuine blob and signature
					v := validPool[r.Intn(len(validPool))]
					o := signers[r.Intn(len(signers))]
					if o != v.s {
						add = []genTx{{Raw: muxdrv.WithSigner(v.raw, o.key.Public()), Kind: "spliced-key", NoExec: true}}
					}
				}
			}
			switch {
			case k < 0:
			case k < 34:
				add = []genTx{{Raw: muxdrv.Sign(s.key, freshTx(s, refNonce(s))), Kind: "fresh"}}
			case k < 39: // a run of consecutive nonces, possibly reordered
				n0 := refNonce(s)
				a := muxdrv.Sign(s.key, freshTx(s, n0))
				c := muxdrv.Sign(s.key, freshTx(s, n0+1))
				d := muxdrv.Sign(s.key, freshTx(s, n0+2))
				if r.Chance(50) {
					add = []genTx{{Raw: a, Kind: "fresh"}, {Raw: c, Kind: "fresh"}, {Raw: d, Kind: "fresh"}}
				} else {
					add = []genTx{{Raw: c, Kind: "future"}, {Raw: a, Kind: "fresh"}, {Raw: d, Kind: "future"}, {Raw: c, Kind: "reordered"}}
				}
			case k < 46: // replay in the same block
				raw := muxdrv.Sign(s.key, freshTx(s, refNonce(s)))
				add = []genTx{{Raw: raw, Kind: "fresh"}, {Raw: raw, Kind: "replay-same-block"}}
				if r.Chance(30) {
					add = append(add, genTx{Raw: raw, Kind: "replay-same-block"})
				}
			case k < 54: // replay of something from an earlier point of the history
				if len(pool) > 0 {
					add = []genTx{{Raw: pool[r.Intn(len(pool))], Kind: "replay-later"}}
				}
			case k < 58:
				add = []genTx{{Raw: muxdrv.Sign(s.key, freshTx(s, refNonce(s)+uint64(r.Range(1, 3)))), Kind: "future"}}
			case k < 62:
				add = []genTx{{Raw: muxdrv.Sign(s.key, freshTx(s, refNonce(s)-uint64(r.Range(1, 2)))), Kind: "past"}}
			case k < 72: // altered: one bit, then (sometimes) the original
				orig := muxdrv.Sign(s.key, muxdrv.TxTransfer(refNonce(s), okFee(), signers[r.Intn(6)].addr, 100))
				bit := r.Intn(8 * len(orig))
				add = []genTx{{Raw: muxdrv.FlipBit(orig, bit), Kind: "bitflip", NoExec: true, Orig: orig}}
				if r.Chance(40) {
					add = append(add, genTx{Raw: muxdrv.FlipBit(orig, r.Intn(8*len(orig))), Kind: "bitflip", NoExec: true, Orig: orig})
				}
				if r.Chance(50) {
					add = append(add, genTx{Raw: orig, Kind: "fresh"})
				}
			case k < 78:
				oc := otherChains(chain)
				add = []genTx{{Raw: muxdrv.SignRaw(s.key, freshTx(s, refNonce(s)), muxdrv.TxRawContext(oc[r.Intn(len(oc))])), Kind: "crosschain", NoExec: true}}
			case k < 85:
				fc := foreignContexts(chain)
				add = []genTx{{Raw: muxdrv.SignRaw(s.key, freshTx(s, refNonce(s)), fc[r.Intn(len(fc))]), Kind: "crossdomain", NoExec: true}}
			case k < 89: // somebody else's valid transaction re-attributed
				o := signers[r.Intn(len(signers))]
				if o != s {
					add = []genTx{{Raw: muxdrv.WithSigner(muxdrv.Sign(o.key, freshTx(s, refNonce(s))), s.key.Public()), Kind: "wrongsigner", NoExec: true}}
				}
			case k < 93:
				raw := muxdrv.Sign(s.key, freshTx(s, refNonce(s)))
				if r.Chance(50) {
					add = []genTx{{Raw: muxdrv.Truncate(raw, r.Range(1, len(raw)-1)), Kind: "truncated", NoExec: true, Orig: raw}}
				} else {
					add = []genTx{{Raw: append(append([]byte{}, raw...), r.Bytes(r.Range(1, 3))...), Kind: "extended", NoExec: true, Orig: raw}}
				}
			case k < 95:
				m := []transaction.MethodName{"", "foo.Bar", "staking.Nope"}[r.Intn(3)]
				add = []genTx{{Raw: muxdrv.Sign(s.key, transaction.NewTransaction(refNonce(s), fee(), m, nil)), Kind: "badmethod"}}
			case k < 97: // correctly signed garbage
				blob := r.Bytes(r.Range(1, 40))
				add = []genTx{{Raw: signBlob(s.key, blob, muxdrv.TxRawContext(chain)), Kind: "signed-garbage"}}
			case k < 98: // valid envelope, body of the wrong shape
				tx := transaction.NewTransaction(refNonce(s), fee(), staking.MethodTransfer, "not a transfer")
				add = []genTx{{Raw: muxdrv.Sign(s.key, tx), Kind: "badbody"}}
			default: // around the size limit: exactly MaxTxSize, MaxTxSize+1, or just long
				target := int(p.maxTxSize) + r.Intn(2)
				kind := []string{"size-max", "size-max+1"}[target-int(p.maxTxSize)]
				pad := 500
				if p.maxTxSize > 2000 && r.Chance(50) {
					kind = "long"
				} else {
					pad = target - 300
				}
				var raw []byte
				f := okFee()
				n0 := refNonce(s)
				for tries := 0; tries < 40; tries++ {
					raw = muxdrv.Sign(s.key, transaction.NewTransaction(n0, f, transaction.MethodName("foo."+strings.Repeat("x", pad)), nil))
					if kind == "long" || len(raw) == target {
						break
					}
					pad += target - len(raw)
				}
				if kind != "long" && len(raw) != target {
					kind = "long"
				}
				add = []genTx{{Raw: raw, Kind: kind}}
			}
			for _, t := range add {
				a, _ := abstract(t.Raw, chain)
				if a.Env && a.SigValid {
					if sg := byAddr[a.Addr]; sg != nil {
						validPool = append(validPool, vsrc{t.Raw, sg})
					}
				}
				au, ok := rf.apply(a)
				if au {
					pool = append(pool, t.Raw)
				}
				if ok {
					executedBy[a.Addr] = append(executedBy[a.Addr], t.Raw)
					allExecuted = append(allExecuted, t.Raw)
				}
				blk = append(blk, t)
			}
			if after != nil {
				after()
				after = nil
			}
			if k == -1 && len(add) == 1 && add[0].Kind == "fresh" && r.Chance(80) {
				// ... and now its spliced copy, in the same block
				v := validPool[len(validPool)-1]
				t := genTx{Raw: splice(v.raw, v.s), Kind: "spliced", NoExec: true}
				a, _ := abstract(t.Raw, chain)
				rf.apply(a)
				blk = append(blk, t)
			}
		}
		// systematic replays: a sample of ALL envelopes that ever executed, at the end of every block
		for j := 0; j < 2 && len(allExecuted) > 0; j++ {
			t := genTx{Raw: allExecuted[r.Intn(len(allExecuted))], Kind: "replay-systematic"}
			a, _ := abstract(t.Raw, chain)
			rf.apply(a)
			blk = append(blk, t)
		}
		p.blocks = append(p.blocks, blk)
		p.restart = append(p.restart, b > 0 && r.Chance(40))
	}
}

func newRef(g *muxdrv.Genesis, p *plan) *ref {
	rf := &ref{nonce: map[string]uint64{}, bal: map[string]uint64{}, alw: map[string]map[string]uint64{}, p: p}
	rf.supply, _ = qU64(&g.Doc.Staking.TotalSupply)
	for addr, acc := range g.Doc.Staking.Ledger {
		b, _ := qU64(&acc.General.Balance)
		rf.bal[addr.String()] = b
		rf.nonce[addr.String()] = acc.General.Nonce
	}
	return rf
}

// ---------------------------------------------------------------------------
// execution of one history
// ---------------------------------------------------------------------------

type blockOut struct {
	desc    Desc
	coq     string
	nontriv bool
	stats   []string
}

type runOut struct {
	blocks     []blockOut
	violations []map[string]any
	findings   []map[string]any // same shape plus "key"
	stats      []string
}

// KeyMalleable: an altered byte string decodes to the SAME (blob, public key,
// signature) as the original and takes effect in its place.
const KeyMalleable = "C09:altered-envelope-bytes-same-signed-content-executes"

// envelopeID identifies the decoded envelope of a byte string ("" if it does not decode).
func envelopeID(raw []byte) string {
	var st transaction.SignedTransaction
	if err := cbor.Unmarshal(raw, &st); err != nil {
		return ""
	}
	h := sha512.New512_256()
	h.Write(st.Signature.PublicKey[:])
	h.Write(st.Signature.Signature[:])
	h.Write(st.Blob)
	return hex.EncodeToString(h.Sum(nil))
}

func dropped(d [][2]int, b, i int) bool {
	for _, x := range d {
		if x[0] == b && x[1] == i {
			return true
		}
	}
	return false
}

func runHistory(seed uint64, nblocks, ntx, upto int, drop [][2]int) (out *runOut) {
	out = &runOut{}
	viol := func(block int, what string, extra map[string]any) {
		v := map[string]any{"what": what, "case": Desc{Mode: "deliver", Seed: seed, Blocks: nblocks, Txs: ntx, Block: block, Drop: drop}}
		for k, x := range extra {
			v[k] = x
		}
		out.violations = append(out.violations, v)
	}
	defer func() {
		if e := recover(); e != nil {
			viol(upto, fmt.Sprintf("harness or implementation panic: %v", e), nil)
		}
	}()
	p := planParams(seed)
	g, err := newGenesis(p)
	if err != nil {
		panic(err)
	}
	buildPlan(seed, nblocks, ntx, g, p)
	prop, err := muxdrv.NewReplica(g, muxdrv.ReplicaConfig{Name: "p", Identity: g.Validators[0].Identity})
	if err != nil {
		panic(err)
	}
	defer prop.Close()
	disk, err := muxdrv.NewReplica(g, muxdrv.ReplicaConfig{Name: "d", OnDisk: true, Backend: "badger"})
	if err != nil {
		panic(err)
	}
	defer disk.Close()
	c := muxdrv.NewChain(g)
	rf := newRef(g, p)
	chain := g.ChainContext
	okSeen := map[string]int{}
	okEnv := map[string]int{}
	ids := map[string]int{}
	addrOf := map[string]staking.Address{}
	for addr := range g.Doc.Staking.Ledger {
		addrOf[addr.String()] = addr
	}
	idOf := func(a string) int {
		if v, ok := ids[a]; ok {
			return v
		}
		ids[a] = len(ids) + 1
		return ids[a]
	}
	var lastPost map[string][2]string
	for b := 0; b < nblocks && b <= upto; b++ {
		var raws [][]byte
		var gts []genTx
		for i, t := range p.blocks[b] {
			if !dropped(drop, b, i) {
				raws = append(raws, t.Raw)
				gts = append(gts, t)
			}
		}
		if p.restart[b] {
			if _, err := dl("Restart", func() (bool, error) { return true, disk.Restart(nil) }); err != nil {
				viol(b, "restart failed: "+err.Error(), nil)
				return
			}
		}
		// mempool checks on the executing replicas before delivery (results are not
		// observables of the property; a verification cache would be warm afterwards)
		for _, t := range gts {
			for _, pc := range t.PreCheck {
				pc := pc
				_, _ = dl("CheckTx", func() (bool, error) { _, e := disk.CheckTx(pc, false); return true, e })
				_, _ = dl("CheckTx", func() (bool, error) { _, e := prop.CheckTx(pc, false); return true, e })
			}
		}
		if p.warm {
			for _, raw := range raws {
				raw := raw
				_, _ = dl("CheckTx", func() (bool, error) { _, e := disk.CheckTx(raw, false); return true, e })
				_, _ = dl("CheckTx", func() (bool, error) { _, e := prop.CheckTx(raw, false); return true, e })
			}
		}
		// abstraction + tracked addresses
		var abs []*absTx
		tracked := map[string]bool{}
		for _, a := range g.Accounts[:6] {
			tracked[a.Address.String()] = true
		}
		for i, raw := range raws {
			a, agree := abstract(raw, chain)
			if !agree {
				viol(b, fmt.Sprintf("tx %d (%s): the real verifier disagrees with the independent verdict (harness rules: equation over SHA-512/256(tx context for this chain || blob) holds=%v, public key of small order=%v, R of small order=%v, key blacklisted=%v => valid=%v)", i, gts[i].Kind, a.EqValid, a.SmallA, a.SmallR, a.Black, a.SigValid && !a.Black), map[string]any{"tx": hex.EncodeToString(raw)})
			}
			abs = append(abs, a)
			if a.Env {
				tracked[a.Addr] = true
				var st transaction.SignedTransaction
				_ = cbor.Unmarshal(raw, &st)
				addrOf[a.Addr] = staking.NewAddress(st.Signature.PublicKey)
			}
			if a.BodyOK && (a.Method == 3 || a.Method >= 6) {
				tracked[a.To] = true
				var ad staking.Address
				if err := ad.UnmarshalText([]byte(a.To)); err != nil {
					panic(err)
				}
				addrOf[a.To] = ad
			}
		}
		delete(tracked, resvKey.Address().String()) // reserved accounts cannot be queried (invalid account address)
		var tl []string
		for a := range tracked {
			tl = append(tl, a)
		}
		sort.Strings(tl)
		query := func(rp *muxdrv.Replica) map[string][2]string {
			m := map[string][2]string{}
			for _, a := range tl {
				acc, err := rp.Account(0, addrOf[a])
				if err != nil && strings.Contains(err.Error(), "no committed blocks") {
					// before the first block: the genesis ledger
					acc, err = g.Doc.Staking.Ledger[addrOf[a]], nil
					if acc == nil {
						acc = &staking.Account{}
					}
				}
				if err != nil {
					panic(err)
				}
				m[a] = [2]string{strconv.FormatUint(acc.General.Nonce, 10), acc.General.Balance.String()}
			}
			return m
		}
		pre := query(disk)
		preSupply := totalSupply(disk, g)
		var preAlw [][3]string
		for _, a := range tl {
			if acc, err := disk.Account(0, addrOf[a]); err == nil {
				var bens []string
				for bn := range acc.General.Allowances {
					bens = append(bens, bn.String())
				}
				sort.Strings(bens)
				for _, bn := range bens {
					var ad staking.Address
					_ = ad.UnmarshalText([]byte(bn))
					q := acc.General.Allowances[ad]
					preAlw = append(preAlw, [3]string{a, bn, q.String()})
				}
			}
		}
		// the state a restarted replica serves is the state the last block left
		for a, v := range pre {
			if lp, ok := lastPost[a]; ok && lp != v {
				viol(b, fmt.Sprintf("account %s changed between blocks (restart=%v): after previous block nonce/balance %v, before this block %v", a, p.restart[b], lp, v), nil)
			}
		}
		in := c.NewBlock(g.Validators[0].ConsAddr, muxdrv.VotesAll, nil)
		if ab := p.abandoned[b]; len(ab) > 0 {
			// round 0: executed everywhere, decided nowhere
			listA, err := dl("PrepareProposal (abandoned round)", func() ([][]byte, error) { return prop.Propose(in, ab) })
			if err != nil {
				viol(b, "PrepareProposal of the abandoned round: "+err.Error(), nil)
				return
			}
			acc, err := dl("ProcessProposal (abandoned round)", func() (bool, error) { return disk.ProcessProposal(in, listA) })
			if err != nil {
				viol(b, "ProcessProposal of the abandoned round: "+err.Error(), nil)
				return
			}
			out.stats = append(out.stats, fmt.Sprintf("abandoned-round:%d txs, accepted=%v", len(ab), acc))
		}
		list, err := dl("PrepareProposal", func() ([][]byte, error) { return prop.Propose(in, raws) })
		if err != nil {
			viol(b, "PrepareProposal: "+err.Error(), nil)
			return
		}
		if len(list) != len(raws)+1 {
			viol(b, fmt.Sprintf("PrepareProposal returned %d transactions for %d candidates", len(list), len(raws)), nil)
			return
		}
		r1, err := dl("block execution (proposer)", func() (*muxdrv.BlockResult, error) { return prop.Process(in, list) })
		if err != nil {
			viol(b, "proposer block execution: "+err.Error(), nil)
			return
		}
		r2, err := dl("block execution (replica)", func() (*muxdrv.BlockResult, error) {
			if len(p.abandoned[b]) > 0 {
				return disk.Process(in, list) // ProcessProposal of the decided block, then delivery
			}
			return disk.Replay(in, list)
		})
		if err != nil {
			viol(b, "replica block execution: "+err.Error(), nil)
			return
		}
		c.Applied(r1)
		if !bytes.Equal(r1.AppHash, r2.AppHash) {
			viol(b, "proposer and replaying replica disagree on the application hash", nil)
		}
		post := query(disk)
		postP := query(prop)
		lastPost = post
		// ---- S: reference
		var classes []string
		var stats []string
		nontriv := false
		nAuth := 0
		for i, a := range abs {
			cl := classify(&r2.TxResults[i])
			if c1 := classify(&r1.TxResults[i]); c1 != cl {
				viol(b, fmt.Sprintf("tx %d: proposer and replica disagree on the result class (%d vs %d)", i, c1, cl), nil)
			}
			classes = append(classes, strconv.Itoa(cl))
			au, ok := rf.apply(a)
			if au {
				nAuth++
			}
			stats = append(stats, "response:"+strconv.Itoa(cl)+" "+r2.TxResults[i].Codespace+"/"+strconv.Itoa(int(r2.TxResults[i].Code))+" "+normLog(r2.TxResults[i].Log))
			stats = append(stats, "kind:"+gts[i].Kind, "class:"+strconv.Itoa(cl), "kind-class:"+gts[i].Kind+"/"+strconv.Itoa(cl))
			hx := hex.EncodeToString(raws[i])
			if gts[i].NoExec && au {
				// an altered / foreign-domain byte string consumed the nonce (and possibly executed)
				if id := envelopeID(raws[i]); id != "" && gts[i].Orig != nil && id == envelopeID(gts[i].Orig) {
					out.findings = append(out.findings, map[string]any{"key": KeyMalleable,
						"what": fmt.Sprintf("tx %d: a %s byte string (differs from the signed original in the envelope framing only: same blob, public key and signature after decoding) passed authentication and took effect, result class %d", i, gts[i].Kind, cl),
						"case": Desc{Mode: "deliver", Seed: seed, Blocks: nblocks, Txs: ntx, Block: b, Drop: drop}, "tx": hx, "orig": hex.EncodeToString(gts[i].Orig)})
				} else {
					viol(b, fmt.Sprintf("tx %d: a %s byte string passed authentication (class %d)", i, gts[i].Kind, cl), map[string]any{"tx": hx})
				}
			}
			if id := envelopeID(raws[i]); cl == 0 && id != "" {
				if prev, dup := okEnv[id]; dup {
					viol(b, fmt.Sprintf("tx %d (%s): the same signed content (blob, key, signature) executed twice (first in block %d)", i, gts[i].Kind, prev), map[string]any{"tx": hx})
				}
				okEnv[id] = b
			}
			if cl == 0 {
				if !a.SigValid {
					viol(b, fmt.Sprintf("tx %d (%s): executed although its signature is not valid under the transaction context of this chain", i, gts[i].Kind), map[string]any{"tx": hx})
				}
				if !ok {
					viol(b, fmt.Sprintf("tx %d (%s): executed (code 0) although the reference rejects it (authenticated=%v)", i, gts[i].Kind, au), map[string]any{"tx": hx})
				}
				if prev, dup := okSeen[hx]; dup {
					viol(b, fmt.Sprintf("tx %d (%s): the same signed bytes executed twice (first in block %d)", i, gts[i].Kind, prev), map[string]any{"tx": hx})
				}
				okSeen[hx] = b
			} else if ok {
				viol(b, fmt.Sprintf("tx %d (%s): rejected with class %d (%s) although it is fresh, correctly signed and payable", i, gts[i].Kind, cl, r2.TxResults[i].Log), map[string]any{"tx": hx})
			}
			if cl == 99 {
				viol(b, fmt.Sprintf("tx %d (%s): unclassified response %s/%d %q", i, gts[i].Kind, r2.TxResults[i].Codespace, r2.TxResults[i].Code, r2.TxResults[i].Log), nil)
			}
		}
		for _, a := range tl {
			want := [2]string{strconv.FormatUint(rf.nonce[a], 10), strconv.FormatUint(rf.bal[a], 10)}
			if post[a] != want {
				note := ""
				if len(p.abandoned[b]) > 0 {
					note = "; this height had a proposal that was executed (PrepareProposal / ProcessProposal) but never decided: only the transactions of the DECIDED block may take effect"
				}
				viol(b, fmt.Sprintf("account %s after block %d: implementation nonce/balance %v, reference %v (a transaction took effect that should not have, or did not although it should%s)", a, b, post[a], want, note), nil)
			}
			if postP[a] != post[a] {
				viol(b, fmt.Sprintf("account %s: proposer %v and replica %v disagree", a, postP[a], post[a]), nil)
			}
		}
		if nAuth >= 2 && len(abs) > nAuth {
			nontriv = true
		}
		// ---- K: the case for the Coq model
		coq := coqBlock(p, tl, pre, post, abs, classes, idOf, preAlw, preSupply)
		d := Desc{Mode: "deliver", Seed: seed, Blocks: nblocks, Txs: ntx, Block: b, Drop: drop}
		for i, t := range gts {
			d.Kinds = append(d.Kinds, t.Kind+"/"+classes[i])
		}
		stats = append(stats, fmt.Sprintf("checktx-before-delivery:%v", p.warm))
		stats = append(stats, fmt.Sprintf("params:minTransact=%d,minGasPrice=%d,maxTxSize=%d", p.minTransact, p.minGasPrice, p.maxTxSize))
		if p.restart[b] {
			stats = append(stats, "restart:before-block")
		} else {
			stats = append(stats, "restart:none")
		}
		out.blocks = append(out.blocks, blockOut{desc: d, coq: coq, nontriv: nontriv, stats: stats})
	}
	// ---- the system (block metadata) method submitted by a user: never through the
	// mempool, and a proposal containing it is rejected; no account effect either way
	if upto >= nblocks-1 && len(drop) == 0 {
		a0 := g.Accounts[0]
		um := muxdrv.Sign(a0.Key, consensus.NewBlockMetadataTx(&consensus.BlockMetadata{EventsRoot: make([]byte, 32)}))
		for _, rp := range []*muxdrv.Replica{disk, prop} {
			resp, err := rp.CheckTx(um, false)
			if err != nil {
				viol(nblocks-1, "CheckTx of a user-signed consensus.Meta transaction panicked: "+err.Error(), nil)
			} else if resp.Code == 0 {
				viol(nblocks-1, "CheckTx accepted a user-signed consensus.Meta (system) transaction", map[string]any{"tx": hex.EncodeToString(um)})
			} else {
				out.stats = append(out.stats, "system-method:checktx-rejected")
			}
		}
		in := c.NewBlock(g.Validators[0].ConsAddr, muxdrv.VotesAll, nil)
		ok, err := disk.ProcessProposal(in, [][]byte{um})
		switch {
		case err != nil:
			viol(nblocks-1, "ProcessProposal with a user-signed consensus.Meta transaction let a panic escape: "+err.Error(), nil)
		case ok:
			viol(nblocks-1, "a proposal containing a user-signed consensus.Meta transaction was accepted", map[string]any{"tx": hex.EncodeToString(um)})
		default:
			out.stats = append(out.stats, "system-method:proposal-rejected")
		}
		acc, err := disk.Account(0, a0.Address)
		if err != nil {
			panic(err)
		}
		if acc.General.Nonce != rf.nonce[a0.Address.String()] {
			viol(nblocks-1, "a user-signed system transaction changed the signer's nonce", nil)
		}
	}
	return out
}

// totalSupply reads the staking total supply of the latest committed state (the genesis
// value before the first block).
func totalSupply(rp *muxdrv.Replica, g *muxdrv.Genesis) string {
	ist, err := abciAPI.NewImmutableStateAt(context.Background(), rp.Srv.State(), 0)
	if err != nil {
		return g.Doc.Staking.TotalSupply.String()
	}
	defer ist.Close()
	ts, err := stakingState.NewImmutableState(ist).TotalSupply(context.Background())
	if err != nil {
		panic(err)
	}
	return ts.String()
}

// ---- deadlines: every call into the implementation gets 60 s; a call that does not
// return is reported as a violation and the run ends (the stuck goroutine may hold the
// ABCI mutex, so nothing more can be done in this process).
var onHang func(where string)

func dl[T any](where string, f func() (T, error)) (T, error) {
	type res struct {
		v   T
		err error
	}
	ch := make(chan res, 1)
	go func() {
		v, err := f()
		ch <- res{v, err}
	}()
	select {
	case r := <-ch:
		return r.v, r.err
	case <-time.After(60 * time.Second):
		if onHang != nil {
			onHang(where)
		}
		var z T
		return z, fmt.Errorf("%s did not return within 60 s", where)
	}
}

// coqBlock renders one block as a case of Verif.Auth.Corr.run_block.
func coqBlock(p *plan, tl []string, pre, post map[string][2]string, abs []*absTx, classes []string, idOf func(string) int, preAlw [][3]string, supply string) string {
	var idl, pn, pb, qn, qb, ks []string
	pb = append(pb, fmt.Sprintf("(%d, %s)", uint64(1)<<41, supply)) // staking total supply before the block
	// allowances of the tracked accounts before the block: key 2^40 + owner*2^20 + beneficiary
	for _, e := range preAlw {
		pb = append(pb, fmt.Sprintf("(%d, %s)", (1<<40)+idOf(e[0])*(1<<20)+idOf(e[1]), e[2]))
	}
	for _, a := range tl {
		id := idOf(a)
		idl = append(idl, strconv.Itoa(id))
		pn = append(pn, fmt.Sprintf("(%d, %s)", id, pre[a][0]))
		pb = append(pb, fmt.Sprintf("(%d, %s)", id, pre[a][1]))
		qn = append(qn, post[a][0])
		qb = append(qb, post[a][1])
	}
	for _, a := range abs {
		txs := "None"
		if a.TxOK {
			feeS := "None"
			if a.HasFee {
				feeS = fmt.Sprintf("(Some (%s, %d))", a.FeeAmt.String(), a.FeeGas)
			}
			to, amt := 0, "0"
			if a.BodyOK {
				if a.Method != 4 {
					to = idOf(a.To)
				}
				amt = a.Amount.String()
			}
			txs = fmt.Sprintf("(Some {| kt_nonce := %d; kt_fee := %s; kt_method := %d; kt_to := %d; kt_amount := %s; kt_body_ok := %s |})",
				a.Nonce, feeS, a.Method, to, amt, coqout.Bool(a.BodyOK))
		}
		pk := 0
		if a.Env {
			pk = idOf(a.Addr)
		}
		ks = append(ks, fmt.Sprintf("{| k_len := %d; k_env := %s; k_pk := %d; k_black := %s; k_small_a := %s; k_small_r := %s; k_sigvalid := %s; k_tx := %s |}", a.Len, coqout.Bool(a.Env), pk, coqout.Bool(a.Black), coqout.Bool(a.SmallA), coqout.Bool(a.SmallR), coqout.Bool(a.EqValid), txs))
	}
	params := fmt.Sprintf("{| p_max_tx_size := %d; p_min_transact := %d; p_min_transfer := %d; p_gas_byte := %d; p_gas_transfer := %d; p_gas_burn := %d; p_min_gas_price := %d; p_gas_escrow := %d; p_gas_allow := %d; p_gas_withdraw := %d; p_min_deleg := %d; p_max_allow := %d; p_reserved := [%d] |}",
		p.maxTxSize, p.minTransact, minTransfer, gasByte, gasTransfer, gasBurn, p.minGasPrice, gasEscrow, gasAllow, gasWithdraw, minDeleg, maxAllow, idOf(resvKey.Address().String()))
	return fmt.Sprintf("((%s, %s, %s, %s, %s), (%s, %s, %s))", params, coqout.List(idl), coqout.List(pn), coqout.List(pb), coqout.List(ks),
		coqout.List(classes), coqout.List(qn), coqout.List(qb))
}

// ---------------------------------------------------------------------------
// -mode sweep: every bit position of one short signed transfer
// ---------------------------------------------------------------------------

// SweepDesc: the bit positions of the swept envelope delivered in one block of a fresh chain.
type SweepDesc struct {
	Mode string `json:"mode"`
	Seed uint64 `json:"seed"`
	Bits []int  `json:"bits"`
	// WithOrig: the unaltered envelope follows the altered ones in the same block
	WithOrig bool `json:"with_orig"`
}

func sweepPlan(seed uint64) *plan {
	return &plan{seed: seed, maxTxSize: 32768, initNonce: map[int]uint64{}}
}

// sweepBlock delivers the altered envelopes (and optionally the original) as the first
// block of a fresh chain and returns the K case, the per-flip classes and the effects.
func sweepBlock(d SweepDesc, sum *coqout.Summary) (coq string, viols []map[string]any, finds []map[string]any) {
	viol := func(what string) {
		viols = append(viols, map[string]any{"what": what, "case": d})
	}
	defer func() {
		if e := recover(); e != nil {
			viol(fmt.Sprintf("harness or implementation panic: %v", e))
		}
	}()
	p := sweepPlan(d.Seed)
	g, err := newGenesis(p)
	if err != nil {
		panic(err)
	}
	prop, err := muxdrv.NewReplica(g, muxdrv.ReplicaConfig{Name: "p", Identity: g.Validators[0].Identity})
	if err != nil {
		panic(err)
	}
	defer prop.Close()
	a0, a1 := g.Accounts[0], g.Accounts[1]
	orig := muxdrv.Sign(a0.Key, muxdrv.TxTransfer(0, muxdrv.Fee(10, muxdrv.DefaultGas), a1.Address, 100))
	origID := envelopeID(orig)
	var raws [][]byte
	for _, b := range d.Bits {
		raws = append(raws, muxdrv.FlipBit(orig, b))
	}
	if d.WithOrig {
		raws = append(raws, orig)
	}
	rf := newRef(g, p)
	chain := g.ChainContext
	ids := map[string]int{}
	idOf := func(a string) int {
		if v, ok := ids[a]; ok {
			return v
		}
		ids[a] = len(ids) + 1
		return ids[a]
	}
	addrOf := map[string]staking.Address{a0.Address.String(): a0.Address, a1.Address.String(): a1.Address}
	tracked := map[string]bool{a0.Address.String(): true, a1.Address.String(): true}
	var abs []*absTx
	for i, raw := range raws {
		a, agree := abstract(raw, chain)
		if !agree {
			viol(fmt.Sprintf("tx %d (bit %d): real verifier and independent recomputation (same primitive and options) disagree", i, bitOf(d, i)))
		}
		abs = append(abs, a)
		if a.Env && a.Addr != resvKey.Address().String() {
			var st transaction.SignedTransaction
			_ = cbor.Unmarshal(raw, &st)
			tracked[a.Addr] = true
			addrOf[a.Addr] = staking.NewAddress(st.Signature.PublicKey)
		}
		if a.BodyOK && a.Method == 3 && a.To != resvKey.Address().String() {
			var st transaction.SignedTransaction
			var tx transaction.Transaction
			var x staking.Transfer
			_ = cbor.Unmarshal(raw, &st)
			_ = cbor.Unmarshal(st.Blob, &tx)
			_ = cbor.Unmarshal(tx.Body, &x)
			if staking.Address(x.To).IsValid() {
				tracked[a.To] = true
				addrOf[a.To] = x.To
			}
		}
	}
	var tl []string
	for a := range tracked {
		tl = append(tl, a)
	}
	sort.Strings(tl)
	pre := map[string][2]string{}
	for _, a := range tl {
		acc := g.Doc.Staking.Ledger[addrOf[a]]
		if acc == nil {
			acc = &staking.Account{}
		}
		pre[a] = [2]string{strconv.FormatUint(acc.General.Nonce, 10), acc.General.Balance.String()}
	}
	c := muxdrv.NewChain(g)
	in := c.NewBlock(g.Validators[0].ConsAddr, muxdrv.VotesAll, nil)
	list, err := dl("PrepareProposal", func() ([][]byte, error) { return prop.Propose(in, raws) })
	if err != nil || len(list) != len(raws)+1 {
		viol(fmt.Sprintf("PrepareProposal failed: %v (%d of %d)", err, len(list), len(raws)))
		return
	}
	res, err := dl("block execution", func() (*muxdrv.BlockResult, error) { return prop.Process(in, list) })
	if err != nil {
		viol("block execution: " + err.Error())
		return
	}
	post := map[string][2]string{}
	for _, a := range tl {
		acc, err := prop.Account(0, addrOf[a])
		if err != nil {
			panic(err)
		}
		post[a] = [2]string{strconv.FormatUint(acc.General.Nonce, 10), acc.General.Balance.String()}
	}
	var classes []string
	for i, a := range abs {
		cl := classify(&res.TxResults[i])
		classes = append(classes, strconv.Itoa(cl))
		au, ok := rf.apply(a)
		isOrig := d.WithOrig && i == len(raws)-1
		if isOrig {
			sum.Count("sweep-original", "class-"+strconv.Itoa(cl))
			continue
		}
		same := envelopeID(raws[i]) == origID
		switch {
		case cl == 99:
			viol(fmt.Sprintf("bit %d: unclassified response %q", d.Bits[i], res.TxResults[i].Log))
		case cl == 0 && same || au && same:
			sum.Count("sweep", "same-decoded-envelope-took-effect")
			finds = append(finds, map[string]any{"key": KeyMalleable,
				"what": fmt.Sprintf("bit %d of the swept transfer envelope flipped: decodes to the same (blob, public key, signature) and took effect (class %d)", d.Bits[i], cl),
				"case": d, "tx": hex.EncodeToString(raws[i]), "orig": hex.EncodeToString(orig)})
		case cl == 0 || au || ok:
			sum.Count("sweep", "VIOLATION")
			viol(fmt.Sprintf("bit %d of the swept transfer envelope flipped: took effect (class %d, reference authenticated=%v) although it does not decode to the signed content", d.Bits[i], cl, au))
		default:
			sum.Count("sweep", "rejected-class-"+strconv.Itoa(cl))
		}
	}
	for _, a := range tl {
		want := [2]string{strconv.FormatUint(rf.nonce[a], 10), strconv.FormatUint(rf.bal[a], 10)}
		if post[a] != want {
			viol(fmt.Sprintf("account %s after the block: implementation nonce/balance %v, reference %v", a, post[a], want))
		}
	}
	coq = coqBlock(p, tl, pre, post, abs, classes, idOf, nil, g.Doc.Staking.TotalSupply.String())
	return
}

func bitOf(d SweepDesc, i int) int {
	if i < len(d.Bits) {
		return d.Bits[i]
	}
	return -1
}

func sweepMain(seed uint64, out string, stride, batch int, replay *SweepDesc) {
	hdr := "From Verif Require Import Lib.Base Auth.Model Auth.Corr Gen.SigContexts Gen.SigOptions.\n"
	w := coqout.NewWriter(out, hdr, "run_block chain_separator tx_context allow_small_order_A allow_small_order_R", "kout_eqb", 4)
	sum := coqout.NewSummary("one case = one block of a fresh chain holding single-bit alterations of ONE signed staking.Transfer envelope (every stride-th bit position; stride 1 = all), optionally followed by the original; alterations that the harness' decoder maps to a different or no envelope are batched, those it maps to the same (blob, key, signature) get a chain of their own; non-trivial = the block contains at least one alteration; distinct = distinct bit sets")
	t0 := time.Now()
	var descs []SweepDesc
	if replay != nil {
		descs = []SweepDesc{*replay}
	} else {
		p := sweepPlan(seed)
		g, err := newGenesis(p)
		if err != nil {
			panic(err)
		}
		orig := muxdrv.Sign(g.Accounts[0].Key, muxdrv.TxTransfer(0, muxdrv.Fee(10, muxdrv.DefaultGas), g.Accounts[1].Address, 100))
		origID := envelopeID(orig)
		sum.Extra["envelope_bytes"] = len(orig)
		var cur []int
		nbits := 0
		for b := int(seed % uint64(stride)); b < 8*len(orig); b += stride {
			nbits++
			if envelopeID(muxdrv.FlipBit(orig, b)) == origID {
				descs = append(descs, SweepDesc{Mode: "sweep", Seed: seed, Bits: []int{b}, WithOrig: true})
				continue
			}
			cur = append(cur, b)
			if len(cur) == batch {
				descs = append(descs, SweepDesc{Mode: "sweep", Seed: seed, Bits: cur, WithOrig: true})
				cur = nil
			}
		}
		if len(cur) > 0 {
			descs = append(descs, SweepDesc{Mode: "sweep", Seed: seed, Bits: cur, WithOrig: true})
		}
		sum.Extra["bit_positions"] = nbits
	}
	nf := 0
	for _, d := range descs {
		d := d
		onHang = func(where string) {
			sum.Violations = append(sum.Violations, map[string]any{"what": where + " did not return within 60 s: the implementation hangs on this block", "case": d})
			w.Close()
			sum.Write(out)
			os.Exit(0)
		}
		coq, viols, finds := sweepBlock(d, sum)
		sum.Evaluations++
		sum.DistinctNontrivial++
		if coq != "" {
			w.Add(coq, map[string]any{"case": d})
		}
		sum.Sample(d, 2)
		for _, v := range viols {
			if len(sum.Violations) < 5 {
				sum.Violations = append(sum.Violations, v)
			}
		}
		nf += len(finds)
		if len(finds) > 0 && len(sum.Findings) == 0 {
			f := finds[0]
			sum.Findings = append(sum.Findings, coqout.Finding{Key: f["key"].(string), What: f["what"].(string),
				Replay: map[string]any{"case": f["case"], "tx": f["tx"], "orig": f["orig"]}})
		}
	}
	sum.Extra["findings_seen"] = nf
	sum.Extra["sweep_seconds"] = int(time.Since(t0).Seconds())
	sum.Extra["stdlib_ed25519_verdict_differs"] = stdlibDiffers
	w.Close()
	sum.Write(out)
}

func pick(o *runOut, key string) map[string]any {
	if key == "" {
		// prefer the most specific statement: something executed twice
		for _, v := range o.violations {
			if w, _ := v["what"].(string); strings.Contains(w, "executed twice") {
				return v
			}
		}
		if len(o.violations) > 0 {
			return o.violations[0]
		}
		return nil
	}
	for _, f := range o.findings {
		if f["key"] == key {
			return f
		}
	}
	return nil
}

// shrink greedily drops transactions while a violation (key "") or a finding with the key remains.
func shrink(v map[string]any, key string) map[string]any {
	d, ok := v["case"].(Desc)
	if !ok {
		return v
	}
	p := planParams(d.Seed)
	g, err := newGenesis(p)
	if err != nil {
		return v
	}
	buildPlan(d.Seed, d.Blocks, d.Txs, g, p)
	best := v
	drop := append([][2]int{}, d.Drop...)
	deadline := time.Now().Add(20 * time.Second)
	w0, _ := v["what"].(string)
	needTwice := strings.Contains(w0, "executed twice")
	try := func(extra [][2]int) bool {
		if time.Now().After(deadline) {
			return false
		}
		t := append(append([][2]int{}, drop...), extra...)
		o := runHistory(d.Seed, d.Blocks, d.Txs, d.Block, t)
		if x := pick(o, key); x != nil {
			if w, _ := x["what"].(string); needTwice && !strings.Contains(w, "executed twice") {
				return false
			}
			drop = t
			best = x
			return true
		}
		return false
	}
	all := func(b int) [][2]int {
		var e [][2]int
		for i := range p.blocks[b] {
			if !dropped(drop, b, i) {
				e = append(e, [2]int{b, i})
			}
		}
		return e
	}
	// whole earlier blocks first, then single transactions (the violating block first)
	for b := d.Block - 1; b >= 0; b-- {
		if e := all(b); len(e) > 0 {
			try(e)
		}
	}
	for b := d.Block; b >= 0; b-- {
		for i := len(p.blocks[b]) - 1; i >= 0; i-- {
			if !dropped(drop, b, i) {
				try([][2]int{{b, i}})
			}
		}
	}
	// attach the remaining transactions of the violating block for the reader
	if bd, ok := best["case"].(Desc); ok {
		for i, t := range p.blocks[bd.Block] {
			if !dropped(bd.Drop, bd.Block, i) {
				bd.Kinds = append(bd.Kinds, t.Kind)
				bd.TxHex = append(bd.TxHex, hex.EncodeToString(t.Raw))
			}
		}
		best["case"] = bd
	}
	return best
}

// ---------------------------------------------------------------------------
// -mode ctx
// ---------------------------------------------------------------------------

type jctx struct {
	Base   string `json:"base"`
	Chain  bool   `json:"chain"`
	HasDyn bool   `json:"has_dyn"`
	Suffix string `json:"suffix"`
	MaxLen int    `json:"max_len"`
	Where  string `json:"where"`
}

type CtxDesc struct {
	Mode   string  `json:"mode"`
	Index  int     `json:"index"`
	Base   string  `json:"base"`
	Suffix *string `json:"suffix"` // WithSuffix argument (nil: none)
	Chain  string  `json:"chain"`  // "" = chain context not set
}

func loadContexts() ([]jctx, error) {
	root := os.Getenv("VERIF_ROOT")
	if root == "" {
		root = "/verif"
	}
	b, err := os.ReadFile(filepath.Join(root, "coq", "Gen", "SigContexts.json"))
	if err != nil {
		return nil, err
	}
	var f struct {
		Contexts []jctx `json:"contexts"`
	}
	if err := json.Unmarshal(b, &f); err != nil {
		return nil, err
	}
	return f.Contexts, nil
}

func setChain(c string) {
	signature.UnsafeResetChainContext()
	if c != "" {
		signature.SetChainContext(c)
	}
}

// realPrepare runs WithSuffix (when suffix != nil) and PrepareSignerContext.
func realPrepare(d *CtxDesc) (raw []byte, ok bool, unregistered bool) {
	setChain(d.Chain)
	ctx := signature.Context(d.Base)
	if d.Suffix != nil {
		nc, err := ctx.WithSuffix(*d.Suffix)
		if err != nil {
			return nil, false, strings.Contains(err.Error(), "unregistered")
		}
		ctx = nc
	}
	raw, err := signature.PrepareSignerContext(ctx)
	if err != nil {
		return nil, false, strings.Contains(err.Error(), "unregistered")
	}
	return raw, true, false
}

func ctxMain(seed uint64, out string, n int, replay *CtxDesc) {
	if replay != nil && replay.Index < 0 {
		replay = nil // a registry cross-check finding: run the whole stream again
	}
	hdr := "From Verif Require Import Lib.Base Auth.Model Auth.Corr Gen.SigContexts Gen.SigOptions.\n"
	w := coqout.NewWriter(out, hdr, "run_ctx chain_separator contexts", "obytes_eqb", 400)
	sum := coqout.NewSummary("one case = (registered context of the regenerated list, optional WithSuffix argument of length 0/1/64/max/max+1/random, chain context unset or of length 1..64); non-trivial = PrepareSignerContext returned bytes; distinct = distinct (context, suffix, chain) triples")
	ctxs, err := loadContexts()
	if err != nil {
		panic(err)
	}
	// cross-check of the go/ast list with the registry of the running process
	// (hook go/common/crypto/signature/export_verif.go), taken before any WithSuffix call
	if replay == nil {
		byBase := map[string]jctx{}
		for _, c := range ctxs {
			byBase[c.Base] = c
		}
		seenRT := map[string]bool{}
		for _, rc := range signature.VerifRegisteredContexts() {
			seenRT[rc.Context] = true
			c, ok := byBase[rc.Context]
			switch {
			case !ok:
				sum.Violations = append(sum.Violations, map[string]any{
					"what": fmt.Sprintf("context %q is registered at run time but was not found by the source walk (generator blind spot: its prefix-freeness is not covered by the proof)", rc.Context),
					"case": CtxDesc{Mode: "ctx", Index: -1, Base: rc.Context}})
			case c.Chain != rc.ChainSeparation || c.HasDyn != (rc.DynamicSuffix != "") || (c.HasDyn && (c.Suffix != rc.DynamicSuffix || c.MaxLen != rc.DynamicSuffixMaxLen)):
				sum.Violations = append(sum.Violations, map[string]any{
					"what": fmt.Sprintf("context %q: options at run time %+v differ from the source walk %+v", rc.Context, rc, c),
					"case": CtxDesc{Mode: "ctx", Index: -1, Base: rc.Context}})
			default:
				sum.Count("registry", "run-time = source walk")
			}
		}
		for _, c := range ctxs {
			if !seenRT[c.Base] {
				sum.Count("registry", "source walk only (package not linked into the harness)")
			}
		}
	}
	r := prng.New(seed)
	var descs []CtxDesc
	if replay != nil {
		descs = []CtxDesc{*replay}
	} else {
		chains := []string{"", "a", strings.Repeat("c", 64), "4d1b0f1e5c0e4b5f8f3f9f6b1f0a5c7d2e8b9a6c3d0e1f2a4b5c6d7e8f901234"}
		for i, c := range ctxs {
			for _, ch := range chains {
				descs = append(descs, CtxDesc{Mode: "ctx", Index: i, Base: c.Base, Chain: ch})
				for _, l := range []int{0, 1, 64, c.MaxLen, c.MaxLen + 1} {
					s := strings.Repeat("e", l)
					descs = append(descs, CtxDesc{Mode: "ctx", Index: i, Base: c.Base, Suffix: &s, Chain: ch})
				}
			}
		}
		for k := 0; k < n; k++ {
			i := r.Intn(len(ctxs))
			d := CtxDesc{Mode: "ctx", Index: i, Base: ctxs[i].Base, Chain: hex.EncodeToString(r.Bytes(r.Range(1, 32)))}
			if r.Chance(50) {
				s := hex.EncodeToString(r.Bytes(r.Range(0, 34)))
				d.Suffix = &s
			}
			descs = append(descs, d)
		}
	}
	seen := map[string]bool{}
	for _, d := range descs {
		d := d
		raw, ok, unreg := realPrepare(&d)
		if unreg {
			sum.Count("ctx", "not-registered-at-run-time(skipped)")
			continue
		}
		key, _ := json.Marshal(d)
		if ok && !seen[string(key)] {
			sum.DistinctNontrivial++
		}
		seen[string(key)] = true
		sum.Evaluations++
		sfx := "None"
		if d.Suffix != nil {
			sfx = "(Some " + coqout.Bytes([]byte(*d.Suffix)) + ")"
			sum.Count("ctx", fmt.Sprintf("suffix-len-%d", bucket(len(*d.Suffix))))
		} else {
			sum.Count("ctx", "no-suffix")
		}
		sum.Count("ctx", fmt.Sprintf("chain-len-%d", bucket(len(d.Chain))))
		sum.Count("result", map[bool]string{true: "bytes", false: "error"}[ok])
		w.Add(fmt.Sprintf("((%d, %s, %s), %s)", d.Index, sfx, coqout.Bytes([]byte(d.Chain)), coqout.OptBytes(raw, ok)), map[string]any{"case": d})
		sum.Sample(d, 3)
		// S: the digest is SHA-512/256(raw context || message)
		if ok {
			ctx := signature.Context(d.Base)
			if d.Suffix != nil {
				ctx, _ = ctx.WithSuffix(*d.Suffix)
			}
			msg := r.Bytes(r.Range(0, 50))
			dg, err := signature.PrepareSignerMessage(ctx, msg)
			h := sha512.New512_256()
			h.Write(raw)
			h.Write(msg)
			if err != nil || !bytes.Equal(dg, h.Sum(nil)) {
				sum.Violations = append(sum.Violations, map[string]any{"what": "PrepareSignerMessage is not SHA-512/256(PrepareSignerContext || message)", "case": d})
			}
		}
	}
	// S: all ordered pairs of usable contexts: a signature under one verifies under no other
	if replay == nil {
		chain := strings.Repeat("5", 64)
		setChain(chain)
		k := muxdrv.NewKey(fmt.Sprintf("verif-auth/%d/ctxpairs", seed))
		rt := strings.Repeat("7", 64)
		var use []signature.Context
		for _, c := range ctxs {
			ctx := signature.Context(c.Base)
			if c.HasDyn {
				nc, err := ctx.WithSuffix(rt)
				if err != nil {
					continue
				}
				ctx = nc
			}
			if _, err := signature.PrepareSignerContext(ctx); err != nil {
				continue
			}
			use = append(use, ctx)
		}
		msg := []byte("verif C09 pairwise message")
		// concrete non-injectivity: the raw context of one registered context is a proper
		// prefix of another's, so a signature for (cj, m) is a signature for (ci, rest || m)
		for i, ci := range use {
			for j, cj := range use {
				ri, _ := signature.PrepareSignerContext(ci)
				rj, _ := signature.PrepareSignerContext(cj)
				if i == j || !bytes.HasPrefix(rj, ri) {
					continue
				}
				sig, err := k.Signer.ContextSign(cj, msg)
				if err != nil {
					panic(err)
				}
				other := append(append([]byte{}, rj[len(ri):]...), msg...)
				if k.Public().Verify(ci, other, sig) {
					sum.Violations = append(sum.Violations, map[string]any{
						"what": fmt.Sprintf("domain separation broken: a signature made under context %q for message %q verifies under context %q for message %q (the first context is a prefix of the second and the preimage has no length field)", cj, msg, ci, other),
						"case": CtxDesc{Mode: "ctx", Index: i, Base: string(ci), Chain: chain}})
				}
			}
		}
		for i, ci := range use {
			sig, err := k.Signer.ContextSign(ci, msg)
			if err != nil {
				panic(err)
			}
			for j, cj := range use {
				v := k.Public().Verify(cj, msg, sig)
				sum.Count("pairs", map[bool]string{true: "verifies", false: "rejected"}[v])
				if v != (i == j) {
					sum.Violations = append(sum.Violations, map[string]any{"what": fmt.Sprintf("signature under context %q verifies=%v under context %q", ci, v, cj), "case": CtxDesc{Mode: "ctx", Index: i, Base: string(ci), Chain: chain}})
				}
			}
			// other chain, same context
			setChain(strings.Repeat("6", 64))
			if k.Public().Verify(ci, msg, sig) {
				rc, _ := signature.PrepareSignerContext(ci)
				if bytes.Contains(rc, []byte(" for chain ")) {
					sum.Violations = append(sum.Violations, map[string]any{"what": fmt.Sprintf("chain-separated signature under %q verifies on another chain", ci), "case": CtxDesc{Mode: "ctx", Index: i, Base: string(ci), Chain: chain}})
				}
			}
			setChain(chain)
		}
	}
	w.Close()
	sum.Write(out)
}

// normLog removes the variable parts of an error message (digits, quoted text).
func normLog(l string) string {
	var sb strings.Builder
	for _, c := range l {
		if c >= '0' && c <= '9' {
			continue
		}
		sb.WriteRune(c)
	}
	o := sb.String()
	if len(o) > 70 {
		o = o[:70]
	}
	return o
}

func bucket(n int) int {
	switch {
	case n <= 1:
		return n
	case n < 64:
		return 2
	case n == 64:
		return 64
	}
	return 65
}

// ---------------------------------------------------------------------------

func main() {
	seed := flag.Uint64("seed", 1, "seed")
	out := flag.String("out", "", "output directory")
	mode := flag.String("mode", "deliver", "deliver | ctx")
	runs := flag.Int("runs", 6, "histories (deliver)")
	blocks := flag.Int("blocks", 8, "blocks per history (deliver)")
	txs := flag.Int("txs", 12, "maximum transactions per block (deliver)")
	cases := flag.Int("cases", 200, "random cases (ctx)")
	stride := flag.Int("stride", 1, "every stride-th bit position (sweep)")
	batch := flag.Int("batch", 120, "alterations per block (sweep)")
	replay := flag.String("replay", "", "replay a case description (JSON file)")
	flag.Parse()
	if *out == "" {
		fmt.Fprintln(os.Stderr, "need -out")
		os.Exit(2)
	}
	var rd *Desc
	var rc *CtxDesc
	var rs *SweepDesc
	if *replay != "" {
		b, err := os.ReadFile(*replay)
		if err != nil {
			panic(err)
		}
		var wrap struct {
			Case json.RawMessage `json:"case"`
		}
		if json.Unmarshal(b, &wrap) == nil && len(wrap.Case) > 0 {
			b = wrap.Case
		}
		var probe struct {
			Mode string `json:"mode"`
		}
		_ = json.Unmarshal(b, &probe)
		if probe.Mode == "sweep" {
			rs = &SweepDesc{}
			if err := json.Unmarshal(b, rs); err != nil {
				panic(err)
			}
			*mode = "sweep"
		} else if probe.Mode == "ctx" {
			rc = &CtxDesc{}
			if err := json.Unmarshal(b, rc); err != nil {
				panic(err)
			}
			*mode = "ctx"
		} else {
			rd = &Desc{}
			if err := json.Unmarshal(b, rd); err != nil {
				panic(err)
			}
			*mode = "deliver"
		}
	}
	if *mode == "ctx" {
		ctxMain(*seed, *out, *cases, rc)
		return
	}
	if *mode == "sweep" {
		sweepMain(*seed, *out, *stride, *batch, rs)
		return
	}
	hdr := "From Verif Require Import Lib.Base Auth.Model Auth.Corr Gen.SigContexts Gen.SigOptions.\n"
	w := coqout.NewWriter(*out, hdr, "run_block chain_separator tx_context allow_small_order_A allow_small_order_R", "kout_eqb", 12)
	sum := coqout.NewSummary("one case = one block of a generated history (pre nonces/balances of the tracked accounts, every byte string of the block abstracted by the harness, observed result classes and post nonces/balances); histories of -blocks blocks over 9 signers (6 funded, 1 nearly empty, 2 unfunded; genesis nonces incl. 2^64-1-k and 2^63-1) with parameters MinTransactBalance {0,100}, MinGasPrice {0,2}, MaxTxSize {32768,420} restarts of the on-disk replica, and failed consensus rounds (a proposal executed by proposer and replica but not decided, followed by the decided block at the same height); non-trivial = at least two transactions of the block passed authentication and at least one did not; distinct = distinct (seed, block)")
	type job struct {
		seed          uint64
		blocks, txs   int
		upto          int
		drop          [][2]int
	}
	sum.Extra["findings_seen"] = 0
	var primaries, others []map[string]any
	var jobs []job
	if rd != nil {
		jobs = []job{{rd.Seed, rd.Blocks, rd.Txs, rd.Block, rd.Drop}}
	} else {
		r := prng.New(*seed)
		for i := 0; i < *runs; i++ {
			jobs = append(jobs, job{r.U64() % 1000000007, *blocks, *txs, *blocks - 1, nil})
		}
	}
	for _, j := range jobs {
		j := j
		onHang = func(where string) {
			sum.Violations = append(sum.Violations, map[string]any{
				"what": where + " did not return within 60 s: the implementation hangs (or deadlocks) on this history",
				"case": Desc{Mode: "deliver", Seed: j.seed, Blocks: j.blocks, Txs: j.txs, Block: j.upto, Drop: j.drop}})
			w.Close()
			sum.Write(*out)
			os.Exit(0)
		}
		o := runHistory(j.seed, j.blocks, j.txs, j.upto, j.drop)
		for _, b := range o.blocks {
			if rd != nil && b.desc.Block != rd.Block {
				continue
			}
			sum.Evaluations++
			if b.nontriv {
				sum.DistinctNontrivial++
			}
			for _, s := range b.stats {
				parts := strings.SplitN(s, ":", 2)
				sum.Count(parts[0], parts[1])
			}
			w.Add(b.coq, map[string]any{"case": b.desc})
			sum.Sample(b.desc, 3)
		}
		sum.Extra["findings_seen"] = sum.Extra["findings_seen"].(int) + len(o.findings)
		for _, st := range o.stats {
			parts := strings.SplitN(st, ":", 2)
			sum.Count(parts[0], parts[1])
		}
		if len(o.findings) > 0 && len(sum.Findings) == 0 {
			addFinding(sum, o.findings[0], rd == nil)
		}
		if len(o.violations) > 0 {
			primaries = append(primaries, pick(o, ""))
			for _, x := range o.violations {
				if len(others) < 4 {
					others = append(others, x)
				}
			}
		}
	}
	// the reported violation: the most specific one of the whole run (some byte string or signed
	// content executed twice, if any history shows it), shrunk; the others follow unshrunk
	if len(primaries) > 0 {
		best := primaries[0]
		for _, v := range primaries {
			if w, _ := v["what"].(string); strings.Contains(w, "executed twice") {
				best = v
				break
			}
		}
		if rd == nil {
			best = shrink(best, "")
		}
		sum.Violations = append(sum.Violations, best)
		for _, x := range others {
			sum.Violations = append(sum.Violations, x)
		}
	}
	sum.Extra["stdlib_ed25519_verdict_differs"] = stdlibDiffers
	w.Close()
	sum.Write(*out)
}

func addFinding(sum *coqout.Summary, f map[string]any, doShrink bool) {
	if doShrink {
		f = shrink(f, f["key"].(string))
	}
	sum.Findings = append(sum.Findings, coqout.Finding{Key: f["key"].(string), What: f["what"].(string),
		Replay: map[string]any{"case": f["case"], "tx": f["tx"], "orig": f["orig"]}})
}
