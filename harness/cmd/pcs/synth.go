package main

// Synthetic bundles: the harness owns a P-256 trust root (added next to Intel's
// in pcs.IntelTrustRoots, an exported variable), a platform CA, PCK leaves with
// the SGX extension, a TCB signing certificate and the attestation key, so it
// can produce validly signed quotes and collateral with arbitrary field values
// and reach every check behind the signatures.  All keys are fixed scalars and
// all signatures RFC 6979 (rand = nil), so the bases are reproducible.

import (
	"crypto"
	"crypto/ecdsa"
	"crypto/elliptic"
	"crypto/sha256"
	"crypto/x509"
	"crypto/x509/pkix"
	"encoding/asn1"
	"encoding/binary"
	"encoding/hex"
	"encoding/pem"
	"fmt"
	"math/big"
	"strings"
	"time"

	"github.com/oasisprotocol/oasis-core/go/common/sgx/pcs"

	"verifharness/internal/prng"
)

func fixedKey(tag byte) *ecdsa.PrivateKey {
	d := sha256.Sum256([]byte{'v', 'e', 'r', 'i', 'f', tag})
	k, err := ecdsa.ParseRawPrivateKey(elliptic.P256(), d[:])
	if err != nil {
		panic(err)
	}
	return k
}

func signRS(k *ecdsa.PrivateKey, msg []byte) []byte {
	h := sha256.Sum256(msg)
	der, err := k.Sign(nil, h[:], crypto.SHA256)
	if err != nil {
		panic(err)
	}
	var rs struct{ R, S *big.Int }
	if _, err := asn1.Unmarshal(der, &rs); err != nil {
		panic(err)
	}
	out := make([]byte, 64)
	rs.R.FillBytes(out[:32])
	rs.S.FillBytes(out[32:])
	return out
}

var (
	kRoot, kInter, kPck, kTcb, kAtt, kEvil *ecdsa.PrivateKey
	synthRootCert                          *x509.Certificate
	synthPckChain                          map[string][]byte // name -> PEM chain leaf,inter,root
	synthTcbChain                          []byte
	synthPckSvn                            = [16]int64{5, 5, 5, 5, 5, 5, 5, 5, 0, 0, 0, 0, 0, 0, 0, 0}
	synthPceSvn                            = 10
	synthFmspc                             = []byte{0xAB, 0xCD, 0xEF, 0x00, 0x00, 0x01}
	synthT0                                = time.Date(2023, 3, 1, 12, 0, 0, 0, time.UTC) // reference verification time
)

func pemOf(der []byte) []byte {
	return pem.EncodeToMemory(&pem.Block{Type: "CERTIFICATE", Bytes: der})
}

func mustCert(tmpl, parent *x509.Certificate, pub *ecdsa.PublicKey, signer *ecdsa.PrivateKey) (*x509.Certificate, []byte) {
	der, err := x509.CreateCertificate(nil, tmpl, parent, pub, signer)
	if err != nil {
		panic(err)
	}
	c, err := x509.ParseCertificate(der)
	if err != nil {
		panic(err)
	}
	return c, der
}

func sgxExtension(fmspc []byte, svn [16]int64, pcesvn int, withFmspc bool) pkix.Extension {
	base := asn1.ObjectIdentifier{1, 2, 840, 113741, 1, 13, 1}
	oid := func(s ...int) asn1.ObjectIdentifier { return append(append(asn1.ObjectIdentifier{}, base...), s...) }
	type extInt struct {
		ID asn1.ObjectIdentifier
		V  int64
	}
	type extOct struct {
		ID asn1.ObjectIdentifier
		V  []byte
	}
	type extRaw struct {
		ID asn1.ObjectIdentifier
		V  asn1.RawValue
	}
	var tcb []byte
	for i := 0; i < 16; i++ {
		b, _ := asn1.Marshal(extInt{oid(2, i+1), svn[i]})
		tcb = append(tcb, b...)
	}
	b, _ := asn1.Marshal(extInt{oid(2, 17), int64(pcesvn)})
	tcb = append(tcb, b...)
	b, _ = asn1.Marshal(extOct{oid(2, 18), make([]byte, 16)})
	tcb = append(tcb, b...)
	var items []byte
	b, _ = asn1.Marshal(extRaw{oid(2), asn1.RawValue{Class: 0, Tag: 16, IsCompound: true, Bytes: tcb}})
	items = append(items, b...)
	if withFmspc {
		b, _ = asn1.Marshal(extOct{oid(4), fmspc})
		items = append(items, b...)
	}
	val, _ := asn1.Marshal(asn1.RawValue{Class: 0, Tag: 16, IsCompound: true, Bytes: items})
	return pkix.Extension{Id: base, Value: val}
}

func synthInit() {
	kRoot, kInter, kPck, kTcb, kAtt, kEvil = fixedKey(1), fixedKey(2), fixedKey(3), fixedKey(4), fixedKey(5), fixedKey(6)
	d := func(y int) time.Time { return time.Date(y, 1, 1, 0, 0, 0, 0, time.UTC) }
	rootT := &x509.Certificate{SerialNumber: big.NewInt(1), Subject: pkix.Name{CommonName: "Verif Synthetic Root CA"},
		NotBefore: d(2020), NotAfter: d(2040), IsCA: true, BasicConstraintsValid: true, KeyUsage: x509.KeyUsageCertSign | x509.KeyUsageCRLSign}
	root, rootDer := mustCert(rootT, rootT, &kRoot.PublicKey, kRoot)
	synthRootCert = root
	interT := &x509.Certificate{SerialNumber: big.NewInt(2), Subject: pkix.Name{CommonName: "Verif Synthetic Platform CA"},
		NotBefore: d(2021), NotAfter: d(2035), IsCA: true, BasicConstraintsValid: true, KeyUsage: x509.KeyUsageCertSign}
	inter, interDer := mustCert(interT, root, &kInter.PublicKey, kRoot)
	synthPckChain = map[string][]byte{}
	mk := func(name string, ext pkix.Extension, nb, na time.Time) {
		t := &x509.Certificate{SerialNumber: big.NewInt(int64(10 + len(synthPckChain))), Subject: pkix.Name{CommonName: "Verif Synthetic PCK " + name},
			NotBefore: nb, NotAfter: na, KeyUsage: x509.KeyUsageDigitalSignature, ExtraExtensions: []pkix.Extension{ext}}
		_, der := mustCert(t, inter, &kPck.PublicKey, kInter)
		synthPckChain[name] = append(append(pemOf(der), pemOf(interDer)...), pemOf(rootDer)...)
		addBase("synth_pck_"+name, synthPckChain[name])
	}
	mk("main", sgxExtension(synthFmspc, synthPckSvn, synthPceSvn, true), d(2022), d(2028))
	mk("nofmspc", sgxExtension(synthFmspc, synthPckSvn, synthPceSvn, false), d(2022), d(2028))
	mk("short", sgxExtension(synthFmspc, synthPckSvn, synthPceSvn, true), synthT0.Add(-time.Hour), synthT0.Add(time.Hour))
	tcbT := &x509.Certificate{SerialNumber: big.NewInt(3), Subject: pkix.Name{CommonName: "Verif Synthetic TCB Signing"},
		NotBefore: d(2021), NotAfter: d(2030), KeyUsage: x509.KeyUsageDigitalSignature}
	_, tcbDer := mustCert(tcbT, root, &kTcb.PublicKey, kRoot)
	synthTcbChain = append(pemOf(tcbDer), pemOf(rootDer)...)
	addBase("synth_tcb_chain", synthTcbChain)
	_ = inter

	pool := pcs.IntelTrustRoots.Clone()
	pool.AddCert(root)
	pcs.IntelTrustRoots = pool
	intelRoots, synthRoots = pool, pool
}

// ---- quote synthesis

type synthQuote struct {
	version, tee int
	body         []byte
	qeReport     []byte
	auth         []byte
	chain        string
	attKey       *ecdsa.PrivateKey // signs header||body
	boundKey     *ecdsa.PrivateKey // key committed to by the QE report data
	qeSigner     *ecdsa.PrivateKey // signs the QE report
	slack        int
}

func qeReportBytes(mrsigner []byte, prodid, isvsvn uint16, misc uint32, flags, xfrm uint64) []byte {
	r := make([]byte, 384)
	binary.LittleEndian.PutUint32(r[16:], misc)
	binary.LittleEndian.PutUint64(r[48:], flags)
	binary.LittleEndian.PutUint64(r[56:], xfrm)
	copy(r[128:], mrsigner)
	binary.LittleEndian.PutUint16(r[256:], prodid)
	binary.LittleEndian.PutUint16(r[258:], isvsvn)
	return r
}

// build returns the quote up to (excluding) the certification data; the chain and the slack follow.
func (s synthQuote) build() []byte {
	h := make([]byte, 48)
	binary.LittleEndian.PutUint16(h[0:], uint16(s.version))
	binary.LittleEndian.PutUint16(h[2:], 2)
	if s.version == 4 {
		binary.LittleEndian.PutUint32(h[4:], uint32(s.tee))
	} else {
		binary.LittleEndian.PutUint16(h[8:], 9)
		binary.LittleEndian.PutUint16(h[10:], 13)
	}
	copy(h[12:], pcs.QEVendorID_Intel)
	copy(h[28:], []byte("verif-user-data-20by"))
	ak, _ := s.boundKey.PublicKey.Bytes()
	sk, _ := s.attKey.PublicKey.Bytes()
	qe := append([]byte{}, s.qeReport...)
	rd := sha256.Sum256(append(append([]byte{}, ak[1:]...), s.auth...))
	copy(qe[320:], rd[:])
	var sd []byte
	sd = append(sd, signRS(s.attKey, append(append([]byte{}, h...), s.body...))...)
	sd = append(sd, sk[1:]...)
	var inner []byte
	inner = append(inner, qe...)
	inner = append(inner, signRS(s.qeSigner, qe)...)
	inner = binary.LittleEndian.AppendUint16(inner, uint16(len(s.auth)))
	inner = append(inner, s.auth...)
	cd := synthPckChain[s.chain]
	inner = binary.LittleEndian.AppendUint16(inner, 5)
	inner = binary.LittleEndian.AppendUint32(inner, uint32(len(cd)))
	total := len(inner) + len(cd) + s.slack
	if s.version == 4 {
		sd = binary.LittleEndian.AppendUint16(sd, 6)
		sd = binary.LittleEndian.AppendUint32(sd, uint32(total))
	}
	sd = append(sd, inner...)
	out := append(append([]byte{}, h...), s.body...)
	out = binary.LittleEndian.AppendUint32(out, uint32(len(sd)+len(cd)+s.slack))
	return append(out, sd...)
}

// ---- collateral synthesis

type lvl struct {
	sgx    [16]int64
	pcesvn int
	tdx    [16]int64
	status string // "" = field omitted
}
type elvl struct {
	isvsvn int
	status string
}
type synthTI struct {
	id, issue, next, fmspc string
	version, eval          int
	levels                 []lvl
	mods                   map[string][]elvl
	modOrder               []string
}
type synthQI struct {
	id, issue, next                             string
	version, eval, prodid                       int
	misc, miscMask, attrs, attrMask, mrsigner   string
	levels                                      []elvl
}

func comps(v [16]int64) string {
	var s []string
	n := 16
	for n > 1 && v[n-1] == 0 {
		n--
	}
	for _, x := range v[:n] {
		s = append(s, fmt.Sprintf(`{"svn":%d}`, x))
	}
	return "[" + strings.Join(s, ",") + "]"
}
func elvls(l []elvl) string {
	var s []string
	for _, x := range l {
		st := ""
		if x.status != "" {
			st = fmt.Sprintf(`,"tcbStatus":"%s"`, x.status)
		}
		s = append(s, fmt.Sprintf(`{"tcb":{"isvsvn":%d}%s}`, x.isvsvn, st))
	}
	return "[" + strings.Join(s, ",") + "]"
}

func (t synthTI) json() []byte {
	var ls, ms []string
	for _, l := range t.levels {
		st := ""
		if l.status != "" {
			st = fmt.Sprintf(`,"tcbStatus":"%s"`, l.status)
		}
		ls = append(ls, fmt.Sprintf(`{"tcb":{"sgxtcbcomponents":%s,"pcesvn":%d,"tdxtcbcomponents":%s}%s}`, comps(l.sgx), l.pcesvn, comps(l.tdx), st))
	}
	for _, id := range t.modOrder {
		ms = append(ms, fmt.Sprintf(`{"id":"%s","mrsigner":"","attributes":"","attributesMask":"","tcbLevels":%s}`, id, elvls(t.mods[id])))
	}
	seam := ""
	if t.id == "TDX" {
		seam = `"tdxModule":{"mrsigner":"` + strings.Repeat("00", 48) + `","attributes":"0000000000000000","attributesMask":"FFFFFFFFFFFFFFFF"},`
	}
	return []byte(fmt.Sprintf(`{"id":"%s","version":%d,"issueDate":"%s","nextUpdate":"%s","fmspc":"%s","pceId":"0000","tcbType":0,"tcbEvaluationDataNumber":%d,%s"tdxModuleIdentities":[%s],"tcbLevels":[%s]}`,
		t.id, t.version, t.issue, t.next, t.fmspc, t.eval, seam, strings.Join(ms, ","), strings.Join(ls, ",")))
}

func (q synthQI) json() []byte {
	return []byte(fmt.Sprintf(`{"id":"%s","version":%d,"issueDate":"%s","nextUpdate":"%s","tcbEvaluationDataNumber":%d,"miscselect":"%s","miscselectMask":"%s","attributes":"%s","attributesMask":"%s","mrsigner":"%s","isvprodid":%d,"tcbLevels":%s}`,
		q.id, q.version, q.issue, q.next, q.eval, q.misc, q.miscMask, q.attrs, q.attrMask, q.mrsigner, q.prodid, elvls(q.levels)))
}

var statuses = []string{"UpToDate", "SWHardeningNeeded", "ConfigurationNeeded", "ConfigurationAndSWHardeningNeeded", "OutOfDate", "OutOfDateConfigurationNeeded", "Revoked"}

const tsFmt = "2006-01-02T15:04:05Z"

var synthQeMrSigner = sha256.Sum256([]byte("verif synthetic QE signer"))

func addSvn(v [16]int64, d int64, idx int) [16]int64 { v[idx] += d; return v }

// genSynth: one mostly-valid bundle per case with a few seeded deviations.
func genSynth(rng *prng.R, n int) []CaseD {
	var cs []CaseD
	for i := 0; i < n; i++ {
		r := rng.Fork()
		var notes []string
		dev := func(pct int, name string) bool {
			if r.Chance(pct) {
				notes = append(notes, name)
				return true
			}
			return false
		}
		kind := r.Intn(3) // 0 sgx v3, 1 sgx v4, 2 tdx v4
		sq := synthQuote{version: 3, tee: 0, chain: "main", attKey: kAtt, boundKey: kAtt, qeSigner: kPck, auth: r.Bytes(r.Range(0, 40))}
		if kind > 0 {
			sq.version = 4
		}
		if dev(15, "auth-empty") {
			sq.auth = nil
		}
		env := EnvD{}
		if dev(12, "lax") {
			env.Lax = true
		}
		debug := dev(4, "debug-body")
		if dev(4, "debug-mode") {
			env.AllowDebug = true
		}
		tdxSvn := [16]int64{3, 0, 4, 4, 4, 4, 4, 4, 0, 0, 0, 0, 0, 0, 0, 0}
		if kind == 2 {
			sq.tee = 0x81
			b := make([]byte, 584)
			tdxSvn[1] = int64([]int{0, 0, 1, 2, 3, 12, 101}[r.Intn(7)])
			tdxSvn[0] = int64(r.Intn(5))
			for j := range tdxSvn {
				b[j] = byte(tdxSvn[j])
			}
			copy(b[16:], r.Bytes(48)) // mrseam
			if dev(10, "seam-signer-nonzero") {
				b[64] = 1
			}
			if dev(12, "seam-attributes-nonzero") {
				b[112+r.Intn(8)] = byte(1 + r.Intn(255))
			}
			attrs := uint64(1 << 28)
			if debug {
				attrs |= 1
			}
			binary.LittleEndian.PutUint64(b[120:], attrs)
			copy(b[136:], r.Bytes(48))
			copy(b[328:], r.Bytes(192))
			copy(b[520:], r.Bytes(64))
			sq.body = b
		} else {
			b := make([]byte, 384)
			flags := uint64(5)
			if debug {
				flags |= 2
			}
			binary.LittleEndian.PutUint64(b[48:], flags)
			binary.LittleEndian.PutUint64(b[56:], 3)
			copy(b[64:], r.Bytes(32))
			copy(b[128:], r.Bytes(32))
			copy(b[320:], r.Bytes(64))
			sq.body = b
		}
		// QE report and identity
		qeSvn := uint16(r.Range(2, 8))
		qeFlags, qeXfrm, qeMisc := uint64(0x15), uint64(0xe7), uint32(0)
		if dev(5, "qe-misc") {
			qeMisc = 1
		}
		if dev(5, "qe-flags") {
			qeFlags |= 2
		}
		if dev(5, "qe-xfrm-high") {
			qeXfrm |= 1 << 40
		}
		prod := 1
		if dev(5, "qe-prodid") {
			prod = 2
		}
		ms := synthQeMrSigner[:]
		if dev(5, "qe-mrsigner") {
			ms = r.Bytes(32)
		}
		sq.qeReport = qeReportBytes(ms, uint16(prod), qeSvn, qeMisc, qeFlags, qeXfrm)
		ts := synthT0.Add(time.Duration(r.Intn(86400)) * time.Second)
		qi := synthQI{id: map[bool]string{false: "QE", true: "TD_QE"}[kind == 2], version: 2, eval: 14, prodid: 1,
			misc: "00000000", miscMask: "FFFFFFFF", attrs: "11000000000000000000000000000000", attrMask: "FBFFFFFFFFFFFFFF0000000000000000",
			mrsigner: strings.ToUpper(hex.EncodeToString(synthQeMrSigner[:])),
			issue:    ts.Add(-time.Duration(r.Range(1, 20*86400)) * time.Second).Format(tsFmt)}
		sv0 := int(qeSvn) - r.Intn(2)
		if r.Chance(25) {
			sv0 = int(qeSvn) + r.Range(1, 2)
		}
		for k, sv := 0, sv0; k < r.Range(1, 3) && sv >= 0; k, sv = k+1, sv-r.Range(1, 2) {
			st := "UpToDate"
			if k > 0 && r.Chance(70) || r.Chance(10) {
				st = statuses[r.Intn(len(statuses))]
			}
			if r.Chance(3) {
				st = ""
			}
			qi.levels = append(qi.levels, elvl{sv, st})
		}
		qi.next = ts.Add(10 * 24 * time.Hour).Format(tsFmt)
		switch {
		case dev(3, "qi-id"):
			qi.id = map[bool]string{true: "QE", false: "TD_QE"}[kind == 2]
		case dev(3, "qi-version"):
			qi.version = 3
		case dev(3, "qi-eval-low"):
			qi.eval = 11
		case dev(3, "qi-issue-future"):
			qi.issue = ts.Add(time.Duration(r.Range(1, 3)) * time.Second).Format(tsFmt)
		case dev(3, "qi-issue-fraction"):
			qi.issue = ts.Add(-time.Second).Format("2006-01-02T15:04:05") + ".5Z"
		case dev(3, "qi-issue-old"):
			qi.issue = ts.Add(-time.Duration(r.Range(29, 32)) * 24 * time.Hour).Format(tsFmt)
		case dev(2, "qi-date-malformed"):
			qi.next = "2023-13-01T00:00:00Z"
		case dev(2, "qi-mask-malformed"):
			qi.miscMask = "FFFFFFF"
		case dev(2, "qi-attrs-short"):
			qi.attrs = "1100"
		case dev(2, "qi-mrsigner-lower"):
			qi.mrsigner = strings.ToLower(qi.mrsigner)
		}
		// TCB info
		ti := synthTI{id: map[bool]string{false: "SGX", true: "TDX"}[kind == 2], version: 3, eval: 14,
			fmspc: strings.ToUpper(hex.EncodeToString(synthFmspc)), issue: ts.Add(-time.Duration(r.Range(1, 20*86400)) * time.Second).Format(tsFmt),
			next: ts.Add(5 * 24 * time.Hour).Format(tsFmt), mods: map[string][]elvl{}}
		nl := r.Range(1, 4)
		for k := 0; k < nl; k++ {
			l := lvl{sgx: synthPckSvn, pcesvn: synthPceSvn, status: "UpToDate"}
			if kind == 2 {
				l.tdx = [16]int64{3, 0, 4, 4, 4, 4, 4, 4, 0, 0, 0, 0, 0, 0, 0, 0}
			}
			// earlier levels tend to be too high (not matched), later ones lower
			if k < nl-1 && r.Chance(70) || r.Chance(10) {
				switch r.Intn(3) {
				case 0:
					l.sgx = addSvn(l.sgx, 1, r.Intn(16))
				case 1:
					l.pcesvn++
				default:
					if kind == 2 {
						l.tdx = addSvn(l.tdx, int64(r.Range(1, 2)), r.Intn(16))
					} else {
						l.sgx = addSvn(l.sgx, 1, r.Intn(8))
					}
				}
			} else if r.Chance(50) {
				l.sgx = addSvn(l.sgx, -1, r.Intn(8))
				l.pcesvn -= r.Intn(2)
			}
			if k > 0 && r.Chance(60) || r.Chance(30) {
				l.status = statuses[r.Intn(len(statuses))]
			}
			if r.Chance(3) {
				l.status = ""
			}
			ti.levels = append(ti.levels, l)
		}
		if kind == 2 {
			for _, id := range []string{"TDX_01", "TDX_02", "TDX_03", "TDX_12", "TDX_101"} {
				if r.Chance(70) {
					var ls []elvl
					for k, sv := 0, r.Range(1, 5); k < r.Range(1, 2) && sv >= 0; k, sv = k+1, sv-r.Range(1, 3) {
						st := "UpToDate"
						if r.Chance(25) {
							st = statuses[r.Intn(len(statuses))]
						}
						ls = append(ls, elvl{sv, st})
					}
					ti.mods[id] = ls
					ti.modOrder = append(ti.modOrder, id)
				}
			}
		}
		switch {
		case dev(3, "ti-id"):
			ti.id = map[bool]string{true: "SGX", false: "TDX"}[kind == 2]
		case dev(3, "ti-version"):
			ti.version = 2
		case dev(3, "ti-eval-low"):
			ti.eval = 11
		case dev(3, "ti-issue-future"):
			ti.issue = ts.Add(time.Second).Format(tsFmt)
		case dev(3, "ti-issue-old"):
			ti.issue = ts.Add(-time.Duration(r.Range(29, 32)) * 24 * time.Hour).Format(tsFmt)
		case dev(3, "ti-fmspc-other"):
			ti.fmspc = "ABCDEF000002"
		case dev(3, "ti-fmspc-lower"):
			ti.fmspc = strings.ToLower(ti.fmspc)
		case dev(2, "ti-fmspc-odd"):
			ti.fmspc = ti.fmspc[:11]
		case dev(2, "ti-fmspc-nonhex"):
			ti.fmspc = "ABCDEF00000G"
		case dev(2, "ti-date-malformed"):
			ti.issue = "yesterday"
		case dev(2, "ti-next-past"):
			ti.next = ts.Add(-time.Hour).Format(tsFmt)
		}
		// quote-level deviations
		switch {
		case dev(3, "chain-nofmspc"):
			sq.chain = "nofmspc"
		case dev(3, "chain-short-validity"):
			sq.chain = "short"
			ts = synthT0.Add(time.Duration(r.Range(-3700, 3700)) * time.Second)
		case dev(3, "attacker-key-unbound"): // body signed by another key, QE report still commits to the genuine one
			sq.attKey = kEvil
		case dev(3, "attacker-key-bound-qe-forged"): // QE report commits to the attacker key but is signed by the attacker
			sq.attKey, sq.boundKey, sq.qeSigner = kEvil, kEvil, kEvil
		case dev(3, "qe-signed-by-tcb-key"):
			sq.qeSigner = kTcb
		case dev(4, "slack"):
			sq.slack = r.Range(1, 30)
		}
		raw := sq.build()
		tiRaw, qiRaw := ti.json(), qi.json()
		tiSig, qiSig := hex.EncodeToString(signRS(kTcb, tiRaw)), hex.EncodeToString(signRS(kTcb, qiRaw))
		switch {
		case dev(3, "ti-signed-by-pck-key"):
			tiSig = hex.EncodeToString(signRS(kPck, tiRaw))
		case dev(3, "qi-sig-is-ti-sig"):
			qiSig = tiSig
		case dev(2, "sig-upper"):
			tiSig = strings.ToUpper(tiSig)
		}
		if dev(4, "post-sign-body-edit") { // change a signed byte after signing
			o := 48 + r.Intn(len(sq.body))
			raw[o] ^= 1 << r.Intn(8)
		}
		pol := PolicyD{Period: 30, MinEval: 12, TDX: kind == 2 || r.Chance(30)}
		switch {
		case dev(3, "pol-blacklist"):
			pol.BL = []string{ti.fmspc}
		case dev(3, "pol-whitelist-other"):
			pol.WL = []string{"00906ED50000"}
		case dev(3, "pol-whitelist"):
			pol.WL = []string{"00906ED50000", ti.fmspc}
		case dev(3, "pol-min-eval"):
			pol.MinEval = uint32(r.Range(13, 16))
		case dev(3, "pol-period-short"):
			pol.Period = uint16(r.Range(0, 12))
		case dev(2, "pol-tdx-nil"):
			pol.TDX = false
		case dev(2, "pol-disabled"):
			pol.Disabled = true
		}
		if kind == 2 && pol.TDX && dev(45, "tdx-mods") {
			seam, signer := hex.EncodeToString(sq.body[16:64]), hex.EncodeToString(sq.body[64:112])
			w1, w2 := hex.EncodeToString(r.Bytes(48)), hex.EncodeToString(r.Bytes(48))
			shapes := [][]ModD{
				{{nil, signer}}, {{&seam, signer}}, {{nil, w1}}, {{&w1, signer}}, {{&seam, w1}}, {{&w1, w2}},
				{{&w1, signer}, {&seam, w2}}, {{&w1, signer}, {&w2, signer}}, {{nil, w1}, {&w1, signer}, {&seam, signer}},
				{{&seam, signer}, {&w1, w2}}, {{&w1, signer}, {nil, signer}}, {},
			}
			k := r.Intn(len(shapes))
			pol.Mods = shapes[k]
			notes = append(notes, fmt.Sprintf("shape%d", k))
		}
		certs := "synth_tcb_chain"
		if dev(2, "tcb-chain-is-pck-chain") {
			certs = "synth_pck_main"
		}
		quote := Blob{Parts: []Blob{lit(raw), base("synth_pck_" + sq.chain)}}
		if sq.slack > 0 {
			quote.Parts = append(quote.Parts, lit(r.Bytes(sq.slack)))
		}
		c := CaseD{Fam: "synthetic", Quote: quote, TI: lit(tiRaw), TISig: lit([]byte(tiSig)), QI: lit(qiRaw), QISig: lit([]byte(qiSig)),
			Certs: base(certs), TsNs: ts.UnixNano(), Policy: pol, Env: env, Synth: true,
			Note: fmt.Sprintf("kind=%d %s", kind, strings.Join(notes, ","))}
		cs = append(cs, c)
	}
	return cs
}
