package main

// Node stream: drives the real node.CapabilityTEE.Verify (go/common/node) with
// registrations built around synthetic, validly signed PCS bundles whose report
// data the harness chooses, and records the cases for Verif.Pcs.Node.

import (
	"bytes"
	"crypto/sha512"
	"encoding/binary"
	"encoding/hex"
	"encoding/json"
	"fmt"
	"os"
	"strings"
	"time"

	"github.com/oasisprotocol/curve25519-voi/primitives/x25519"

	"github.com/oasisprotocol/oasis-core/go/common/cbor"
	"github.com/oasisprotocol/oasis-core/go/common/crypto/signature"
	memorySigner "github.com/oasisprotocol/oasis-core/go/common/crypto/signature/signers/memory"
	"github.com/oasisprotocol/oasis-core/go/common/crypto/tuplehash"
	"github.com/oasisprotocol/oasis-core/go/common/logging"
	"github.com/oasisprotocol/oasis-core/go/common/version"
	registry "github.com/oasisprotocol/oasis-core/go/registry/api"
	"github.com/oasisprotocol/oasis-core/go/common/node"
	"github.com/oasisprotocol/oasis-core/go/common/sgx"
	"github.com/oasisprotocol/oasis-core/go/common/sgx/ias"
	"github.com/oasisprotocol/oasis-core/go/common/sgx/pcs"
	"github.com/oasisprotocol/oasis-core/go/common/sgx/quote"

	"verifharness/internal/coqout"
	"verifharness/internal/prng"
)

type CfgD struct {
	Nil       bool     `json:"nil,omitempty"`
	PCS       bool     `json:"pcs"`
	Signed    bool     `json:"signed"`
	DefPolicy *PolicyD `json:"def_policy,omitempty"` // default PCS policy (a default quote.Policy is present iff HasDef)
	HasDef    bool     `json:"has_def,omitempty"`
	DefIAS    bool     `json:"def_ias,omitempty"` // the default quote.Policy has an IAS part
	DefMaxAge uint64   `json:"def_max_age"`
	TDX       bool     `json:"tdx,omitempty"`
}
type ConsD struct {
	Malformed bool        `json:"malformed,omitempty"`
	V         uint16      `json:"v"`
	Enclaves  [][2]string `json:"enclaves"`
	HasPolicy bool        `json:"has_policy,omitempty"`
	IAS       bool        `json:"ias,omitempty"` // the policy object has an IAS part
	Policy    *PolicyD    `json:"policy,omitempty"` // PCS part
	MaxAge    uint64      `json:"max_age"`
}
type CapD struct {
	Hardware     uint8   `json:"hardware"`
	RAK          string  `json:"rak"`
	REK          *string `json:"rek,omitempty"`
	AttMalformed bool    `json:"att_malformed,omitempty"`
	AttV         uint16  `json:"att_v"`
	QuoteKind    string  `json:"quote_kind"` // pcs | none
	AttHeight    uint64  `json:"att_height"`
	Sig          string  `json:"sig"`
}
type DepD struct {
	Version [3]uint16 `json:"version"`
	Kind    string    `json:"kind"` // case: the case's constraints; other: same policy, foreign enclave list; malformed; nil: no TEE field
}
type RegD struct {
	RtHW        uint8     `json:"rt_hw"`
	NodeVersion [3]uint16 `json:"node_version"`
	Deps        []DepD    `json:"deps"`
	NoTEE       bool      `json:"no_tee,omitempty"`
}
type NodeD struct {
	Reg         RegD   `json:"reg"`
	Fam         string `json:"fam"`
	Note        string `json:"note,omitempty"`
	Inner       CaseD  `json:"inner"` // the PCS bundle, verification time and process switches
	Cfg         CfgD   `json:"cfg"`
	Height      uint64 `json:"height"`
	Constraints ConsD  `json:"constraints"`
	NodeID      string `json:"node_id"`
	Is261       bool   `json:"is261"`
	Cap         CapD   `json:"cap"`
}

func isNodeReplay(path string) bool {
	b, err := os.ReadFile(path)
	return err == nil && bytes.Contains(b, []byte(`"cap"`)) && bytes.Contains(b, []byte(`"inner"`))
}

func unhex(s string) []byte { b, _ := hex.DecodeString(s); return b }

// effective PCS policy, recomputed independently of tee.go (for the S oracle only)
func effPolicy(cfg CfgD, sc ConsD) PolicyD {
	var p *PolicyD
	if sc.HasPolicy {
		p = sc.Policy
	}
	if !cfg.Nil && cfg.HasDef && p == nil && cfg.PCS {
		p = cfg.DefPolicy
	}
	if p == nil {
		return PolicyD{Nil: true}
	}
	return *p
}

func optPolicyCoq(has, hasIAS bool, p *PolicyD) string {
	if !has {
		return "None"
	}
	if p == nil {
		return "(Some (mkQP " + coqout.Bool(hasIAS) + " None))"
	}
	return "(Some (mkQP " + coqout.Bool(hasIAS) + " (Some " + p.coq() + ")))"
}

type nodeResult struct {
	rcode  int
	rerr   string
	code   int
	errStr string
	term   string
	viol   string
	inner  result
}

func classifyNode(err error) int {
	e := err.Error()
	switch {
	case has(e, "node: invalid TEE implementation"):
		return 100
	case has(e, "node: malformed SGX attestation"):
		return 101
	case has(e, "node: malformed SGX constraints"):
		return 102
	case has(e, "exactly one quote kind must be set"):
		return 103
	case has(e, "node: bad TEE enclave identity"):
		return 104
	case has(e, "node: RAK hash mismatch"):
		return 105
	case has(e, "node: invalid TEE attestation signature"):
		return 106
	case has(e, "node: TEE attestation from the future"):
		return 107
	case has(e, "not fresh enough"):
		return 108
	}
	return classify(err)
}

const teeHashCtx = "oasis-core/node: TEE RAK binding"

func attTuple(rd, nodeID []byte, h uint64, rek []byte) [][]byte {
	var hb [8]byte
	binary.LittleEndian.PutUint64(hb[:], h)
	t := [][]byte{rd, nodeID, hb[:]}
	if rek != nil {
		t = append(t, rek)
	}
	return t
}

func flatTuple(t [][]byte) []byte {
	var out []byte
	for _, x := range t {
		out = append(out, byte(len(x)))
		out = append(out, x...)
	}
	return out
}

func tupleHash(t [][]byte) []byte {
	h := tuplehash.New256(32, []byte(node.AttestationSignatureContext))
	for _, x := range t {
		_, _ = h.Write(x)
	}
	return h.Sum(nil)
}

// buildCons serialises constraints with the real CBOR code.
func buildCons(cd ConsD) []byte {
	if cd.Malformed {
		return []byte{0xff, 0x01}
	}
	sc := node.SGXConstraints{Versioned: cbor.NewVersioned(cd.V), MaxAttestationAge: cd.MaxAge}
	for _, e := range cd.Enclaves {
		var id sgx.EnclaveIdentity
		copy(id.MrEnclave[:], unhex(e[0]))
		copy(id.MrSigner[:], unhex(e[1]))
		sc.Enclaves = append(sc.Enclaves, id)
	}
	if cd.HasPolicy {
		sc.Policy = &quote.Policy{}
		if cd.IAS {
			sc.Policy.IAS = &ias.QuotePolicy{}
		}
		if cd.Policy != nil {
			sc.Policy.PCS = cd.Policy.real()
		}
	}
	return cbor.Marshal(sc)
}

// consTerm renders what the real CBOR decoder delivers for the serialised constraints (the model's input).
func consTerm(scBytes []byte, cd ConsD) string {
	var sc2 node.SGXConstraints
	if cbor.Unmarshal(scBytes, &sc2) != nil { // note: nil input decodes to the zero value (cbor.go:98-101)
		return "None"
	}
	var encl []string
	for _, id := range sc2.Enclaves {
		encl = append(encl, fmt.Sprintf("(%s, %s)", hxBytes(id.MrEnclave[:]), hxBytes(id.MrSigner[:])))
	}
	pol := "None"
	if sc2.Policy != nil {
		pp := "None"
		if sc2.Policy.PCS != nil {
			pp = "(Some " + cd.Policy.coq() + ")"
		}
		pol = fmt.Sprintf("(Some (mkQP %s %s))", coqout.Bool(sc2.Policy.IAS != nil), pp)
	}
	return fmt.Sprintf("(Some (mkSC %d [%s] %s %d))", sc2.V, strings.Join(encl, "; "), pol, sc2.MaxAttestationAge)
}

func depCons(n NodeD, d DepD) (ConsD, []byte) {
	cd := n.Constraints
	switch d.Kind {
	case "other":
		cd.Malformed = false
		cd.Enclaves = [][2]string{{strings.Repeat("ab", 32), strings.Repeat("cd", 32)}}
	case "malformed":
		cd.Malformed = true
	case "nil":
		return cd, nil
	}
	return cd, buildCons(cd)
}

var regLogger = logging.GetLogger("verif/pcs")

func evalNode(n NodeD) (res nodeResult) {
	defer func() {
		if e := recover(); e != nil {
			res.viol, res.code = fmt.Sprintf("implementation panicked: %v", e), 998
		}
	}()
	in := n.Inner
	in.Policy = effPolicy(n.Cfg, n.Constraints)
	res.inner = evaluate(in) // tables of the PCS primitives + the bundle's own verdict under the effective policy
	raw := in.Quote.bytes()
	ts := time.Unix(0, in.TsNs)

	// ---- build the real structures
	var rak, nodeID signature.PublicKey
	copy(rak[:], unhex(n.Cap.RAK))
	copy(nodeID[:], unhex(n.NodeID))
	var rek *x25519.PublicKey
	var rekB []byte
	if n.Cap.REK != nil {
		var k x25519.PublicKey
		copy(k[:], unhex(*n.Cap.REK))
		rek, rekB = &k, k[:]
	}
	var attBytes []byte
	if n.Cap.AttMalformed {
		attBytes = []byte{0xff, 0x00, 0x13}
	} else {
		sa := node.SGXAttestation{Versioned: cbor.NewVersioned(n.Cap.AttV), Height: n.Cap.AttHeight}
		copy(sa.Signature[:], unhex(n.Cap.Sig))
		if n.Cap.QuoteKind == "pcs" {
			sa.Quote.PCS = &pcs.QuoteBundle{Quote: raw, TCB: pcs.TCBBundle{
				TCBInfo:      pcs.SignedTCBInfo{TCBInfo: in.TI.bytes(), Signature: string(in.TISig.bytes())},
				QEIdentity:   pcs.SignedQEIdentity{EnclaveIdentity: in.QI.bytes(), Signature: string(in.QISig.bytes())},
				Certificates: in.Certs.bytes(),
			}}
		}
		attBytes = cbor.Marshal(sa)
	}
	scBytes := buildCons(n.Constraints)
	var cfg *node.TEEFeatures
	cfgTerm := "None"
	if !n.Cfg.Nil {
		cfg = &node.TEEFeatures{SGX: node.TEEFeaturesSGX{PCS: n.Cfg.PCS, SignedAttestations: n.Cfg.Signed, DefaultMaxAttestationAge: n.Cfg.DefMaxAge, TDX: n.Cfg.TDX}}
		if n.Cfg.HasDef {
			cfg.SGX.DefaultPolicy = &quote.Policy{}
			if n.Cfg.DefIAS {
				cfg.SGX.DefaultPolicy.IAS = &ias.QuotePolicy{}
			}
			if n.Cfg.DefPolicy != nil {
				cfg.SGX.DefaultPolicy.PCS = n.Cfg.DefPolicy.real()
			}
		}
		cfgTerm = fmt.Sprintf("(Some (mkCfg %s %s %s %d %s))", coqout.Bool(n.Cfg.PCS), coqout.Bool(n.Cfg.Signed),
			optPolicyCoq(n.Cfg.HasDef, n.Cfg.DefIAS, n.Cfg.DefPolicy), n.Cfg.DefMaxAge, coqout.Bool(n.Cfg.TDX))
	}
	capTEE := node.CapabilityTEE{Hardware: node.TEEHardware(n.Cap.Hardware), RAK: rak, REK: rek, Attestation: attBytes}

	// ---- the implementation
	err := capTEE.Verify(cfg, ts, n.Height, scBytes, nodeID, n.Is261)
	if err != nil {
		res.code, res.errStr = classifyNode(err), err.Error()
	}

	// ---- what the decoders deliver (the model's input): decode with the real CBOR code
	attTerm := "None"
	var sa2 node.SGXAttestation
	if cbor.Unmarshal(attBytes, &sa2) == nil {
		kind := "QKNone"
		switch {
		case sa2.Quote.PCS != nil && sa2.Quote.IAS != nil:
			kind = "QKBoth"
		case sa2.Quote.IAS != nil:
			kind = "QKIas"
		case sa2.Quote.PCS != nil:
			kind = fmt.Sprintf("(QKPcs %s %s)", res.inner.quoteTerm, res.inner.collTerm)
		}
		attTerm = fmt.Sprintf("(Some (mkAtt %d %s %d %s))", sa2.V, kind, sa2.Height, coqBytes(sa2.Signature[:]))
	}
	scTerm := consTerm(scBytes, n.Constraints)

	// ---- primitives of the node layer
	hin := append([]byte(teeHashCtx), rak[:]...)
	hd := sha512.Sum512_256(hin)
	if hr := node.HashRAK(rak); !bytes.Equal(hr[:], hd[:]) {
		res.viol = "HashRAK is not SHA-512/256(\"" + teeHashCtx + "\" || RAK): the model's tee_hash_context is stale"
	}
	hashT := fmt.Sprintf("[(%d, %s)]", fp(hin), hxBytes(hd[:]))
	var tupT, rakT string
	var rd []byte
	sigOK := false
	r := locate(raw)
	if r.ok {
		if r.tee == 0x81 {
			rd = r.body[520:584]
		} else {
			rd = r.body[320:384]
		}
		t := attTuple(rd, nodeID[:], n.Cap.AttHeight, rekB)
		msg := tupleHash(t)
		if real := node.HashAttestation(rd, nodeID, n.Cap.AttHeight, rek); !bytes.Equal(real, msg) {
			res.viol = "HashAttestation differs from TupleHash(report data, node id, height, [rek])"
		}
		tupT = fmt.Sprintf("(%d, %s)", fp(flatTuple(t)), hxBytes(msg))
		sig := unhex(n.Cap.Sig)
		if sigOK = rak.Verify(node.AttestationSignatureContext, msg, sig); sigOK {
			rakT = fmt.Sprint(fp(append(append(append([]byte{}, rak[:]...), msg...), sig...)))
		}
	}
	tables := fmt.Sprintf("(mkNTables %s %s [%s] [%s])", res.inner.tablesTerm, hashT, tupT, rakT)
	rekTerm := "None"
	if rekB != nil {
		rekTerm = "(Some " + hxBytes(rekB) + ")"
	}
	capTerm := fmt.Sprintf("(mkCap %d %s %s %s)", n.Cap.Hardware, hxBytes(rak[:]), rekTerm, attTerm)
	ncase := fmt.Sprintf("(mkNCase (mkEnv %s %s []) %s (%d)%%Z %d %s %s %s %s %s)", coqout.Bool(in.Env.AllowDebug), coqout.Bool(in.Env.Lax),
		cfgTerm, in.TsNs, n.Height, scTerm, hxBytes(nodeID[:]), coqout.Bool(n.Is261), capTerm, tables)

	// ---- the registry's entry point (consensus: RegisterNode with block time / last height; key manager app)
	ver := func(v [3]uint16) version.Version { return version.Version{Major: v[0], Minor: v[1], Patch: v[2]} }
	nrt := &node.Runtime{Version: ver(n.Reg.NodeVersion)}
	if !n.Reg.NoTEE {
		nrt.Capabilities.TEE = &capTEE
	}
	regRt := &registry.Runtime{TEEHardware: node.TEEHardware(n.Reg.RtHW)}
	var depTerms []string
	firstKind := ""
	for _, d := range n.Reg.Deps {
		cd, b := depCons(n, d)
		regRt.Deployments = append(regRt.Deployments, &registry.VersionInfo{Version: ver(d.Version), TEE: b})
		depTerms = append(depTerms, fmt.Sprintf("mkDep (%d, %d, %d) %s", d.Version[0], d.Version[1], d.Version[2], consTerm(b, cd)))
		if firstKind == "" && d.Version == n.Reg.NodeVersion {
			firstKind = d.Kind
		}
	}
	rerr := registry.VerifyNodeRuntimeEnclaveIDs(regLogger, nodeID, nrt, regRt, cfg, ts, n.Height, n.Is261)
	rerr2 := registry.VerifyNodeRuntimeEnclaveIDs(regLogger, nodeID, nrt, regRt, cfg, ts, n.Height, n.Is261)
	res.rcode = 0
	if rerr != nil {
		res.rerr = rerr.Error()
		switch {
		case has(res.rerr, "runtime TEE.Hardware mismatches"):
			res.rcode = 110
		case has(res.rerr, "unknown runtime enclave version"):
			res.rcode = 111
		default:
			res.rcode = classifyNode(rerr)
		}
	}
	if (rerr == nil) != (rerr2 == nil) || rerr != nil && rerr.Error() != rerr2.Error() {
		res.viol = "VerifyNodeRuntimeEnclaveIDs gave two different verdicts on identical arguments"
	}
	res.term = fmt.Sprintf("((mkRCase %s %d (%d, %d, %d) [%s] %s), %d)", ncase, n.Reg.RtHW, n.Reg.NodeVersion[0], n.Reg.NodeVersion[1],
		n.Reg.NodeVersion[2], strings.Join(depTerms, "; "), coqout.Bool(n.Reg.NoTEE), res.rcode)
	if res.rcode == 999 {
		res.viol = "unclassified error: " + res.rerr
	}
	// registry-level S: what acceptance through the registry must mean
	if res.rcode == 0 {
		switch {
		case n.Reg.NoTEE:
			if n.Reg.RtHW != 0 {
				res.viol = "node without TEE capability accepted for a runtime that requires TEE hardware"
			}
		case n.Cap.Hardware != n.Reg.RtHW:
			res.viol = "capability hardware differs from the runtime's and was accepted"
		case firstKind != "case":
			res.viol = fmt.Sprintf("accepted although the first deployment with the node's runtime version is %q", firstKind)
		case res.code != 0:
			res.viol = "accepted by the registry but CapabilityTEE.Verify rejects under the same deployment: " + res.errStr
		}
	} else if !n.Reg.NoTEE && n.Cap.Hardware == n.Reg.RtHW && firstKind == "case" && res.rcode != res.code {
		res.viol = fmt.Sprintf("registry verdict %d differs from CapabilityTEE.Verify verdict %d under the selected deployment", res.rcode, res.code)
	}
	if res.code == 999 {
		res.viol = "unclassified error: " + res.errStr
	}

	// ---- S: the binding predicates on the implementation, independent of the Coq model
	if res.code == 0 {
		v := func(f string, a ...any) {
			if res.viol == "" {
				res.viol = fmt.Sprintf(f, a...)
			}
		}
		if n.Cap.Hardware != 1 {
			v("registration accepted with TEE hardware %d", n.Cap.Hardware)
		}
		if n.Cap.QuoteKind != "pcs" || n.Cap.AttMalformed || n.Constraints.Malformed {
			v("registration accepted without a PCS quote / with malformed input")
		}
		if res.inner.code != 0 {
			pf, _ := json.Marshal(in.Policy)
			v("registration accepted although the quote is rejected under the PCS policy in force (runtime's PCS policy if set, else the consensus default, else the built-in fallback) %s: %s", pf, res.inner.errStr)
		}
		if res.inner.viol != "" {
			v("quote layer: %s", res.inner.viol)
		}
		if rd == nil || !bytes.Equal(rd[:32], hd[:]) {
			v("registration accepted although the report data does not commit to the node's RAK")
		}
		inSet := false
		for _, e := range n.Constraints.Enclaves {
			inSet = inSet || bytes.Equal(unhex(e[0]), res.inner.out[0]) && bytes.Equal(unhex(e[1]), res.inner.out[1])
		}
		if !inSet {
			v("registration accepted although the enclave identity is not in the runtime's allowed set")
		}
		if !n.Cfg.Nil && n.Cfg.Signed {
			maxAge := n.Constraints.MaxAge
			if maxAge == 0 {
				maxAge = n.Cfg.DefMaxAge
			}
			if !sigOK {
				v("registration accepted although the attestation signature by the RAK over (report data, node id, height, rek) is invalid")
			}
			if n.Cap.AttHeight > n.Height || n.Height-n.Cap.AttHeight > maxAge {
				v("registration accepted with attestation height %d at height %d (max age %d)", n.Cap.AttHeight, n.Height, maxAge)
			}
		}
	}
	return res
}

// ---------------------------------------------------------------- generation

type minted struct {
	c        CaseD
	mre, mrs []byte
}

// mint builds a valid synthetic bundle whose report body carries the given report data.
func mint(r *prng.R, rd []byte, tdx bool) minted {
	sq := synthQuote{version: 3 + r.Intn(2), tee: 0, chain: "main", attKey: kAtt, boundKey: kAtt, qeSigner: kPck, auth: []byte("verif-auth")}
	var m minted
	if tdx {
		sq.version, sq.tee = 4, 0x81
		b := make([]byte, 584)
		copy(b[0:], []byte{3, 0, 4, 4, 4, 4, 4, 4})
		binary.LittleEndian.PutUint64(b[120:], 1<<28)
		copy(b[136:], r.Bytes(48))
		copy(b[328:], r.Bytes(192))
		copy(b[520:], rd)
		sq.body = b
		h := tuplehash.New256(32, []byte(pcs.TdEnclaveIdentityContext))
		_, _ = h.Write(b[136:184])
		for i := 0; i < 4; i++ {
			_, _ = h.Write(b[328+48*i : 376+48*i])
		}
		m.mre, m.mrs = h.Sum(nil), make([]byte, 32)
	} else {
		b := make([]byte, 384)
		binary.LittleEndian.PutUint64(b[48:], 5)
		binary.LittleEndian.PutUint64(b[56:], 3)
		m.mre, m.mrs = r.Bytes(32), r.Bytes(32)
		copy(b[64:], m.mre)
		copy(b[128:], m.mrs)
		copy(b[320:], rd)
		sq.body = b
	}
	sq.qeReport = qeReportBytes(synthQeMrSigner[:], 1, 5, 0, 0x15, 0xe7)
	ts := synthT0
	qi := synthQI{id: map[bool]string{false: "QE", true: "TD_QE"}[tdx], version: 2, eval: 14, prodid: 1,
		misc: "00000000", miscMask: "FFFFFFFF", attrs: "11000000000000000000000000000000", attrMask: "FBFFFFFFFFFFFFFF0000000000000000",
		mrsigner: strings.ToUpper(hex.EncodeToString(synthQeMrSigner[:])), issue: ts.Add(-24 * time.Hour).Format(tsFmt), next: ts.Add(240 * time.Hour).Format(tsFmt),
		levels: []elvl{{5, "UpToDate"}}}
	l := lvl{sgx: synthPckSvn, pcesvn: synthPceSvn, status: "UpToDate"}
	if tdx {
		l.tdx = [16]int64{3, 0, 4, 4, 4, 4, 4, 4}
	}
	ti := synthTI{id: map[bool]string{false: "SGX", true: "TDX"}[tdx], version: 3, eval: 14, fmspc: strings.ToUpper(hex.EncodeToString(synthFmspc)),
		issue: ts.Add(-48 * time.Hour).Format(tsFmt), next: ts.Add(120 * time.Hour).Format(tsFmt), levels: []lvl{l}, mods: map[string][]elvl{}}
	tiRaw, qiRaw := ti.json(), qi.json()
	// everything but header || body || length || signature is the same for all minted bundles of one shape: named bases
	suffix := map[bool]string{false: "sgx", true: "tdx"}[tdx]
	reg := func(name string, b []byte) string {
		if old, ok := bases[name]; !ok {
			addBase(name, b)
		} else if !bytes.Equal(old, b) {
			panic("minted base " + name + " is not constant")
		}
		return name
	}
	pre := sq.build()
	cut := 48 + len(sq.body) + 4 + 64
	mid := reg(fmt.Sprintf("synth_mid_v%d", sq.version), pre[cut:])
	m.c = CaseD{Fam: "node", Quote: Blob{Parts: []Blob{lit(pre[:cut]), base(mid), base("synth_pck_main")}},
		TI: base(reg("synth_ti_"+suffix, tiRaw)), TISig: base(reg("synth_ti_"+suffix+"_sig", []byte(hex.EncodeToString(signRS(kTcb, tiRaw))))),
		QI: base(reg("synth_qi_"+suffix, qiRaw)), QISig: base(reg("synth_qi_"+suffix+"_sig", []byte(hex.EncodeToString(signRS(kTcb, qiRaw))))),
		Certs: base("synth_tcb_chain"), TsNs: ts.UnixNano(), Synth: true}
	return m
}

// mintInit registers the constant parts (needed before a replayed description can be resolved).
func mintInit() {
	r := prng.New(7)
	for i := 0; i < 16; i++ {
		mint(r, make([]byte, 64), i%2 == 0)
	}
}

func hashRAK(rak []byte) []byte {
	d := sha512.Sum512_256(append([]byte(teeHashCtx), rak...))
	return d[:]
}

func genNode(rng *prng.R, n int) []NodeD {
	var out []NodeD
	for i := 0; i < n; i++ {
		r := rng.Fork()
		var notes []string
		dev := func(pct int, name string) bool {
			if r.Chance(pct) {
				notes = append(notes, name)
				return true
			}
			return false
		}
		rakS, _ := memorySigner.NewFromSeed(r.Bytes(32))
		otherS, _ := memorySigner.NewFromSeed(r.Bytes(32))
		rak := rakS.Public()
		nodeID := r.Bytes(32)
		tdx := r.Chance(20)
		// report data: SHA-512/256(ctx || RAK) || arbitrary 32 bytes (the code ignores the second half)
		rd := append(hashRAK(rak[:]), r.Bytes(32)...)
		switch {
		case dev(6, "quote-for-other-rak"):
			o := otherS.Public()
			rd = append(hashRAK(o[:]), rd[32:]...)
		case dev(3, "rd-is-raw-rak"):
			copy(rd, rak[:])
		case dev(3, "rd-one-bit-off"):
			rd[r.Intn(32)] ^= 1 << r.Intn(8)
		case dev(2, "rd-hash-in-second-half"):
			rd = append(r.Bytes(32), hashRAK(rak[:])...)
		}
		m := mint(r, rd, tdx)
		pol := &PolicyD{Period: 30, MinEval: 12, TDX: tdx}
		cfg := CfgD{PCS: true, Signed: !dev(12, "unsigned-feature-off"), DefMaxAge: uint64(r.Range(0, 200)), TDX: tdx || r.Chance(30)}
		sc := ConsD{V: 1, HasPolicy: true, Policy: pol, MaxAge: uint64(r.Range(0, 300))}
		if r.Chance(25) {
			sc.MaxAge = 0 // falls back to the consensus default
		}
		// where the policy comes from
		switch {
		case dev(8, "policy-from-consensus-default"):
			sc.HasPolicy, sc.Policy = false, nil
			cfg.HasDef, cfg.DefPolicy = true, pol
		case dev(5, "empty-policy-and-default"):
			sc.Policy = nil
			cfg.HasDef, cfg.DefPolicy = true, pol
		case dev(5, "no-policy-anywhere"):
			sc.HasPolicy, sc.Policy = false, nil // built-in default: no TDX, min eval 12
		case dev(3, "default-present-but-pcs-off"):
			sc.HasPolicy, sc.Policy = false, nil
			cfg.HasDef, cfg.DefPolicy, cfg.PCS = true, pol, false
		case dev(3, "policy-disabled"):
			p := *pol
			p.Disabled = true
			sc.Policy = &p
		case dev(3, "policy-min-eval-high"):
			p := *pol
			p.MinEval = 15
			sc.Policy = &p
		case dev(3, "policy-whitelist"):
			p := *pol
			p.WL = []string{strings.ToUpper(hex.EncodeToString(synthFmspc))}
			sc.Policy = &p
		}
		is261 := !dev(15, "pre-26.1")
		// allowed enclave identities
		sc.Enclaves = [][2]string{{hex.EncodeToString(r.Bytes(32)), hex.EncodeToString(r.Bytes(32))}}
		pair := [2]string{hex.EncodeToString(m.mre), hex.EncodeToString(m.mrs)}
		switch {
		case dev(5, "identity-not-listed"):
		case dev(3, "identity-mrsigner-differs"):
			sc.Enclaves = append(sc.Enclaves, [2]string{pair[0], hex.EncodeToString(r.Bytes(32))})
		case dev(3, "identity-mrenclave-differs"):
			sc.Enclaves = append(sc.Enclaves, [2]string{hex.EncodeToString(r.Bytes(32)), pair[1]})
		case dev(2, "no-enclaves"):
			sc.Enclaves = nil
		default:
			if r.Chance(50) {
				sc.Enclaves = append(sc.Enclaves, pair)
			} else {
				sc.Enclaves = append([][2]string{pair}, sc.Enclaves...)
			}
		}
		height := uint64(r.Range(1000, 100000))
		maxAge := sc.MaxAge
		if maxAge == 0 {
			maxAge = cfg.DefMaxAge
		}
		attH := height - uint64(r.Intn(int(maxAge)+1))
		switch {
		case dev(5, "stale-by-one"):
			attH = height - maxAge - 1
		case dev(3, "stale"):
			attH = height - maxAge - uint64(r.Range(2, 500))
		case dev(4, "future-by-one"):
			attH = height + 1
		case dev(2, "future"):
			attH = height + uint64(r.Range(2, 1000))
		case dev(3, "exactly-max-age"):
			attH = height - maxAge
		case dev(2, "same-height"):
			attH = height
		}
		var rekB []byte
		var rekS *string
		if !dev(15, "no-rek") {
			rekB = r.Bytes(32)
			s := hex.EncodeToString(rekB)
			rekS = &s
		}
		// the attestation signature
		signer, sNode, sH, sRek, sRd := rakS, nodeID, attH, rekB, rd
		switch {
		case dev(4, "sig-by-other-key"):
			signer = otherS
		case dev(4, "sig-for-other-node"):
			sNode = r.Bytes(32)
		case dev(4, "sig-for-other-height"):
			sH = attH + 1
		case dev(3, "sig-without-rek"):
			sRek = nil
		case dev(3, "sig-for-other-rek"):
			sRek = r.Bytes(32)
		case dev(3, "sig-over-other-report-data"):
			sRd = r.Bytes(64)
		}
		sig, _ := signer.ContextSign(node.AttestationSignatureContext, tupleHash(attTuple(sRd, sNode, sH, sRek)))
		if dev(2, "sig-zero") {
			sig = make([]byte, 64)
		}
		cp := CapD{Hardware: 1, RAK: hex.EncodeToString(rak[:]), REK: rekS, AttV: 1, QuoteKind: "pcs", AttHeight: attH, Sig: hex.EncodeToString(sig)}
		switch {
		case dev(3, "hardware-invalid"):
			cp.Hardware = 0
		case dev(2, "hardware-reserved"):
			cp.Hardware = uint8(r.Range(2, 255))
		case dev(2, "attestation-malformed"):
			cp.AttMalformed = true
		case dev(2, "attestation-without-quote"):
			cp.QuoteKind = "none"
		case dev(2, "constraints-malformed"):
			sc.Malformed = true
		case dev(2, "cfg-nil"):
			cfg = CfgD{Nil: true}
		case dev(2, "cfg-pcs-off"):
			cfg.PCS = false
		case dev(2, "constraints-v0"):
			sc.V = 0 // v0 serialisation carries only enclaves: the PCS policy is lost
			sc.Policy, sc.HasPolicy = nil, true
		case dev(2, "tdx-policy-but-feature-off"):
			cfg.TDX = false
			p := *pol
			p.TDX = true
			sc.Policy, sc.HasPolicy = &p, true
		}
		if cp.Hardware != 1 && r.Chance(50) {
			cp.AttMalformed = true // must still be reported as invalid hardware
		}
		in := m.c
		switch {
		case dev(3, "quote-expired"):
			in.TsNs += int64(40 * 24 * time.Hour)
		case dev(3, "quote-body-bit-flipped"):
			p0 := in.Quote.Parts[0].bytes()
			p0[48+320+r.Intn(64)] ^= 1
			in.Quote.Parts[0] = lit(p0)
		}
		nv := [3]uint16{uint16(r.Range(0, 3)), uint16(r.Range(0, 9)), uint16(r.Range(0, 9))}
		ov := [3]uint16{nv[0], nv[1], nv[2] + 1}
		reg := RegD{RtHW: 1, NodeVersion: nv, Deps: []DepD{{ov, "other"}, {nv, "case"}}}
		if cp.Hardware != 1 && r.Chance(60) {
			reg.RtHW = cp.Hardware // so that CapabilityTEE.Verify itself reports the invalid hardware
		}
		switch {
		case dev(3, "runtime-requires-no-tee"):
			reg.RtHW = 0
		case dev(3, "unknown-runtime-version"):
			reg.Deps = []DepD{{ov, "case"}}
		case dev(2, "no-deployments"):
			reg.Deps = nil
		case dev(3, "first-deployment-of-version-is-foreign"):
			reg.Deps = []DepD{{nv, "other"}, {nv, "case"}}
		case dev(3, "second-deployment-of-version-is-foreign"):
			reg.Deps = []DepD{{nv, "case"}, {nv, "other"}}
		case dev(2, "deployment-tee-malformed"):
			reg.Deps = []DepD{{nv, "malformed"}, {nv, "case"}}
		case dev(2, "deployment-without-tee-field"):
			reg.Deps = []DepD{{nv, "nil"}}
		case dev(2, "node-without-tee-capability"):
			reg.NoTEE = true
		case dev(2, "no-tee-anywhere"):
			reg.NoTEE, reg.RtHW = true, 0
		}
		out = append(out, NodeD{Fam: "node", Note: strings.Join(notes, ","), Inner: in, Cfg: cfg, Height: height, Constraints: sc,
			NodeID: hex.EncodeToString(nodeID), Is261: is261, Cap: cp, Reg: reg})
	}
	return out
}

// genNodeReal: registrations around the repository's own SGX / TDX vectors.  Their report data is not the hash of a
// key the harness knows, so the furthest they can get is the RAK comparison; every earlier check is perturbed.
func genNodeReal(vs []vector, rng *prng.R) []NodeD {
	var out []NodeD
	for _, v := range vs {
		if !v.accept {
			continue
		}
		o := origOut[v.quote]
		raw := bases[v.quote]
		pol := v.policy.eff()
		tdx := pol.TDX
		add := func(note string, f func(n *NodeD)) {
			r := rng.Fork()
			p := pol
			n := NodeD{Fam: "node-real", Note: "real:" + v.name + ":" + note, Inner: v.kase("node-real"), Height: 5000, Is261: true,
				Cfg:         CfgD{PCS: true, Signed: r.Chance(50), DefMaxAge: 100, TDX: tdx},
				Constraints: ConsD{V: 1, HasPolicy: true, Policy: &p, MaxAge: 50, Enclaves: [][2]string{{hex.EncodeToString(o[0]), hex.EncodeToString(o[1])}}},
				NodeID:      hex.EncodeToString(r.Bytes(32)),
				Cap:         CapD{Hardware: 1, RAK: hex.EncodeToString(r.Bytes(32)), AttV: 1, QuoteKind: "pcs", AttHeight: 4990, Sig: hex.EncodeToString(r.Bytes(64))},
				Reg:         RegD{RtHW: 1, NodeVersion: [3]uint16{1, 0, 0}, Deps: []DepD{{[3]uint16{1, 0, 0}, "case"}}}}
			n.Inner.Orig = ""
			f(&n)
			out = append(out, n)
		}
		add("as-is", func(n *NodeD) {})
		add("identity-unlisted", func(n *NodeD) { n.Constraints.Enclaves = [][2]string{{strings.Repeat("00", 32), strings.Repeat("00", 32)}} })
		add("mrsigner-differs", func(n *NodeD) { n.Constraints.Enclaves[0][1] = strings.Repeat("11", 32) })
		add("mrenclave-differs", func(n *NodeD) { n.Constraints.Enclaves[0][0] = strings.Repeat("11", 32) })
		add("expired", func(n *NodeD) { n.Inner.TsNs += int64(45 * 24 * time.Hour) })
		add("before-issue", func(n *NodeD) { n.Inner.TsNs -= int64(45 * 24 * time.Hour) })
		add("min-eval-high", func(n *NodeD) { n.Constraints.Policy.MinEval = 1000 })
		add("disabled", func(n *NodeD) { n.Constraints.Policy.Disabled = true })
		add("no-policy", func(n *NodeD) { n.Constraints.HasPolicy, n.Constraints.Policy = false, nil })
		add("policy-from-default", func(n *NodeD) {
			p := *n.Constraints.Policy
			n.Constraints.HasPolicy, n.Constraints.Policy = false, nil
			n.Cfg.HasDef, n.Cfg.DefPolicy = true, &p
		})
		add("blacklisted", func(n *NodeD) { n.Constraints.Policy.BL = []string{parseTCBInfo(bases[v.ti]).fmspc} })
		add("debug-mode-process", func(n *NodeD) { n.Inner.Env.AllowDebug = true })
		add("hardware-invalid", func(n *NodeD) { n.Cap.Hardware = 0 })
		add("runtime-no-tee", func(n *NodeD) { n.Reg.RtHW = 0 })
		add("other-version", func(n *NodeD) { n.Reg.NodeVersion = [3]uint16{2, 0, 0} })
		if tdx {
			add("tdx-feature-off", func(n *NodeD) { n.Cfg.TDX = false })
			add("tdx-policy-missing", func(n *NodeD) { n.Constraints.Policy.TDX = false })
		}
		sp := spans(raw)
		for _, s := range sp { // one flipped bit in every region of the quote
			off := s.off + rng.Intn(max(1, s.len))
			add("bitflip:"+s.name, func(n *NodeD) { n.Inner.Quote = patched(v.quote, P(off, 1, []byte{raw[off] ^ (1 << rng.Intn(8))})) })
		}
	}
	return out
}

// genPolicySource: where the PCS policy comes from.  Constraint shapes {no policy object, {}, IAS only, PCS only, both}
// x consensus defaults {none, lenient, strict minimum evaluation number, disabled, FMSPC blacklist, short validity}
// x PCS feature on/off, on otherwise fully valid registrations (so that only the policy decides).
func genPolicySource(rng *prng.R) []NodeD {
	var out []NodeD
	fm := strings.ToUpper(hex.EncodeToString(synthFmspc))
	for _, tdx := range []bool{false, true} {
		lenient := PolicyD{Period: 30, MinEval: 12, TDX: tdx}
		mk := func(f func(p *PolicyD)) *PolicyD { p := lenient; f(&p); return &p }
		defaults := []struct {
			n   string
			has bool
			ias bool
			p   *PolicyD
		}{
			{"none", false, false, nil}, {"default-without-pcs", true, true, nil}, {"lenient", true, false, &lenient},
			{"strict-min-eval", true, true, mk(func(p *PolicyD) { p.MinEval = 15 })},
			{"disabled", true, false, mk(func(p *PolicyD) { p.Disabled = true })},
			{"fmspc-blacklist", true, true, mk(func(p *PolicyD) { p.BL = []string{fm} })},
			{"short-validity", true, false, mk(func(p *PolicyD) { p.Period = 0 })},
		}
		shapes := []struct {
			n        string
			has, ias bool
			p        *PolicyD
		}{
			{"no-policy", false, false, nil}, {"policy-{}", true, false, nil}, {"ias-only", true, true, nil},
			{"pcs-only", true, false, &lenient}, {"ias+pcs", true, true, &lenient},
			{"pcs-only-strict", true, false, mk(func(p *PolicyD) { p.MinEval = 15 })},
		}
		for _, d := range defaults {
			for _, sh := range shapes {
				for _, pcsOn := range []bool{true, false} {
					if !pcsOn && (tdx || d.n == "lenient" || sh.n == "ias+pcs") {
						continue
					}
					if tdx && (d.n == "default-without-pcs" || sh.n == "pcs-only-strict") {
						continue
					}
					r := rng.Fork()
					rakS, _ := memorySigner.NewFromSeed(r.Bytes(32))
					rak := rakS.Public()
					nodeID, rek := r.Bytes(32), r.Bytes(32)
					rd := append(hashRAK(rak[:]), r.Bytes(32)...)
					m := mint(r, rd, tdx)
					sig, _ := rakS.ContextSign(node.AttestationSignatureContext, tupleHash(attTuple(rd, nodeID, 990, rek)))
					rekS := hex.EncodeToString(rek)
					attV, scV := uint16(1), uint16(1)
					if !pcsOn {
						scV = 1 // rejected as malformed (feature off): the verdict must not depend on the defaults then
					}
					n := NodeD{Fam: "policy-source", Note: fmt.Sprintf("tdx=%v default=%s shape=%s pcs=%v", tdx, d.n, sh.n, pcsOn), Inner: m.c, Height: 1000, Is261: true,
						Cfg:         CfgD{PCS: pcsOn, Signed: true, HasDef: d.has, DefIAS: d.ias, DefPolicy: d.p, DefMaxAge: 100, TDX: tdx},
						Constraints: ConsD{V: scV, HasPolicy: sh.has, IAS: sh.ias, Policy: sh.p, MaxAge: 50, Enclaves: [][2]string{{hex.EncodeToString(m.mre), hex.EncodeToString(m.mrs)}}},
						NodeID:      hex.EncodeToString(nodeID),
						Cap:         CapD{Hardware: 1, RAK: hex.EncodeToString(rak[:]), REK: &rekS, AttV: attV, QuoteKind: "pcs", AttHeight: 990, Sig: hex.EncodeToString(sig)},
						Reg:         RegD{RtHW: 1, NodeVersion: [3]uint16{1, 0, 0}, Deps: []DepD{{[3]uint16{1, 0, 0}, "case"}}}}
					out = append(out, n)
				}
			}
		}
	}
	return out
}

func nodeMain(vs []vector, seed uint64, out, replay string, n int) {
	mintInit()
	var cases []NodeD
	if replay != "" {
		b, err := os.ReadFile(replay)
		if err != nil {
			panic(err)
		}
		var wrap struct {
			Case *NodeD `json:"case"`
		}
		var c NodeD
		if json.Unmarshal(b, &wrap) == nil && wrap.Case != nil {
			c = *wrap.Case
		} else if err := json.Unmarshal(b, &c); err != nil {
			panic(err)
		}
		cases = []NodeD{c}
	} else {
		rng := prng.New(seed ^ 0x6e6f6465)
		cases = genNode(rng.Fork(), n)
		cases = append(cases, genNodeReal(vs, rng.Fork())...)
		cases = append(cases, genPolicySource(rng.Fork())...)
	}
	results := make([]nodeResult, len(cases))
	for _, dbg := range []bool{false, true} { // process switch phases
		setEnv(EnvD{AllowDebug: dbg})
		for i, c := range cases {
			if c.Inner.Env.AllowDebug == dbg {
				results[i] = evalNode(c)
			}
		}
	}
	setEnv(EnvD{})
	internMin = max(3, len(cases)/200)
	names, defs := map[string]string{}, []string{}
	for i := range results {
		results[i].term = resolveInterned(results[i].term, names, &defs)
	}
	hdr := resolveInterned(headerText(), names, &defs)
	hdr = strings.Replace(hdr, "\n", "\n"+strings.Join(defs, ""), 1)
	wb := coqout.NewWriter(out, hdr, "run_rcase", "N.eqb", min(250, max(20, (len(cases)+11)/12)))
	sum := coqout.NewSummary("node registrations (node.CapabilityTEE.Verify) around synthetic validly-signed SGX/TDX bundles whose report data the harness chooses: report data for this / another RAK / one bit off / hash in the ignored half, enclave identity listed / not listed / half-matching, attestation height fresh / exactly max age / stale / future, RAK signature valid / by another key / over another node id, height, REK or report data, REK present / absent, signed-attestation feature on / off, policy from the runtime constraints / consensus default / nowhere, v0 constraints, malformed CBOR, wrong hardware, feature flags, expired or tampered quote; non-trivial = the embedded quote verifies (the decision is made by the node layer); distinct = distinct case descriptions")
	seen := map[string]bool{}
	for i, c := range cases {
		r := results[i]
		key, _ := json.Marshal(c)
		if r.inner.code == 0 && !seen[string(key)] {
			sum.DistinctNontrivial++
		}
		seen[string(key)] = true
		sum.Evaluations++
		st := "accept"
		if r.rcode != 0 {
			st = fmt.Sprintf("reject-%d", r.rcode)
		}
		sum.Count("family", c.Fam)
		sum.Count("verdict", st)
		for _, nt := range strings.Split(c.Note, ",") {
			if nt == "" {
				nt = "(valid)"
			}
			sum.Count("deviation", nt)
			sum.Count("deviation/verdict", nt+"/"+st)
		}
		if i%41 == 0 {
			sum.Sample(map[string]any{"note": c.Note, "verdict": st}, 6)
		}
		if r.code != 998 {
			wb.Add(r.term, map[string]any{"case": c})
		}
		if r.viol != "" {
			sum.Violations = append(sum.Violations, map[string]any{"what": r.viol, "case": c, "error": r.errStr})
		}
	}
	wb.Close()
	sum.Extra["fingerprints"] = map[string]any{"distinct": len(fpSeen), "collisions": 0}
	sum.Write(out)
	checkFpCollision()
}
