package main

// Family "resign": quotes rebuilt from the genuine Intel vectors and from valid synthetic bundles with a FRESH
// attestation key and/or a different QE authentication data field (which, like its size, is unsigned and
// sender-controlled).  The QE report, its PCK signature and the PCK chain are kept, so the only thing standing
// between these quotes and acceptance is QEReport.ReportData[:32] == SHA-256(attestation key || auth data).

import (
	"crypto/ecdsa"
	"crypto/sha256"
	"encoding/binary"
	"fmt"
	"sort"

	"verifharness/internal/prng"
)

type resignOpt struct {
	body   []byte            // nil: keep
	signer *ecdsa.PrivateKey // nil: keep key and signature
	auth   *[]byte           // nil: keep
	rebind bool              // recompute the QE report data and re-sign the QE report with the (synthetic) PCK key
}

// resign returns the rebuilt quote and the patches (highest offset first) that turn the original into it.
func resign(raw []byte, o resignOpt) ([]byte, []Patch) {
	r := locate(raw)
	if !r.ok {
		panic("resign: quote does not split")
	}
	var ps []Patch
	body := r.body
	if o.body != nil {
		body = o.body
		ps = append(ps, P(r.offBody, len(r.body), body))
	}
	attkey, sig := r.attkey, r.sig
	if o.signer != nil {
		pk, _ := o.signer.PublicKey.Bytes()
		attkey = pk[1:]
		sig = signRS(o.signer, append(append([]byte{}, r.header...), body...))
		ps = append(ps, P(r.offSig, 128, append(append([]byte{}, sig...), attkey...)))
	}
	auth := r.auth
	if o.auth != nil {
		auth = *o.auth
	}
	qe, qeSig := r.qeReport, r.qeSig
	if o.rebind {
		q := append([]byte{}, r.qeReport...)
		d := sha256.Sum256(append(append([]byte{}, attkey...), auth...))
		copy(q[320:352], d[:])
		copy(q[352:384], make([]byte, 32))
		qe, qeSig = q, signRS(kPck, q)
		ps = append(ps, P(r.offQE, 448, append(append([]byte{}, qe...), qeSig...)))
	}
	delta := len(auth) - len(r.auth)
	if o.auth != nil {
		ps = append(ps, P(r.offQE+448, 2+len(r.auth), append(binary.LittleEndian.AppendUint16(nil, uint16(len(auth))), auth...)))
	}
	if delta != 0 {
		ps = append(ps, P(r.offSigLen, 4, binary.LittleEndian.AppendUint32(nil, uint32(int(binary.LittleEndian.Uint32(raw[r.offSigLen:]))+delta))))
		if r.version == 4 {
			ps = append(ps, P(r.offSig+130, 4, binary.LittleEndian.AppendUint32(nil, uint32(int(binary.LittleEndian.Uint32(raw[r.offSig+130:]))+delta))))
		}
	}
	sort.Slice(ps, func(i, j int) bool { return ps[i].Off > ps[j].Off })
	out := Blob{Lit: nil}
	_ = out
	cur := append([]byte{}, raw...)
	for _, p := range ps {
		ins := unhexS(p.Ins)
		n := append([]byte{}, cur[:p.Off]...)
		n = append(n, ins...)
		cur = append(n, cur[p.Off+p.Del:]...)
	}
	return cur, ps
}

func unhexS(s string) []byte {
	b := make([]byte, len(s)/2)
	for i := range b {
		fmt.Sscanf(s[2*i:2*i+2], "%02x", &b[i])
	}
	return b
}

func forgedBody(body []byte, tdx bool) []byte {
	b := append([]byte{}, body...)
	if tdx {
		for i := 136; i < 184; i++ { // MRTD
			b[i] = 0xAA
		}
		for i := 520; i < 584; i++ {
			b[i] = 0xBB
		}
	} else {
		for i := 64; i < 96; i++ { // MRENCLAVE
			b[i] = 0xAA
		}
		for i := 320; i < 384; i++ {
			b[i] = 0xBB
		}
	}
	return b
}

func genResign(vs []vector, rng *prng.R) []CaseD {
	var cs []CaseD
	type variant struct {
		name string
		o    func(r regions) resignOpt
	}
	bp := func(b []byte) *[]byte { return &b }
	common := []variant{
		{"fresh-key,auth-empty,forged-body", func(r regions) resignOpt { return resignOpt{body: forgedBody(r.body, r.tee == 0x81), signer: kEvil, auth: bp(nil)} }},
		{"fresh-key,auth-empty,same-body", func(r regions) resignOpt { return resignOpt{signer: kEvil, auth: bp(nil)} }},
		{"fresh-key,auth-original,forged-body", func(r regions) resignOpt { return resignOpt{body: forgedBody(r.body, r.tee == 0x81), signer: kEvil} }},
		{"fresh-key,auth-one-byte", func(r regions) resignOpt { return resignOpt{body: forgedBody(r.body, r.tee == 0x81), signer: kEvil, auth: bp([]byte{0})} }},
		{"fresh-key,auth-shorter", func(r regions) resignOpt { return resignOpt{signer: kEvil, auth: bp(r.auth[:len(r.auth)/2])} }},
		{"fresh-key,auth-longer", func(r regions) resignOpt {
			return resignOpt{body: forgedBody(r.body, r.tee == 0x81), signer: kEvil, auth: bp(append(append([]byte{}, r.auth...), 1, 2, 3, 4, 5, 6, 7))}
		}},
		{"genuine-key,auth-empty", func(r regions) resignOpt { return resignOpt{auth: bp(nil)} }},
		{"genuine-key,auth-shorter", func(r regions) resignOpt { return resignOpt{auth: bp(r.auth[:max(0, len(r.auth)-1)])} }},
		{"genuine-key,auth-longer", func(r regions) resignOpt { return resignOpt{auth: bp(append(append([]byte{}, r.auth...), 0))} }},
		{"genuine-key,auth-changed-same-length", func(r regions) resignOpt {
			a := append([]byte{}, r.auth...)
			if len(a) == 0 {
				a = []byte{9}
			} else {
				a[0] ^= 1
			}
			return resignOpt{auth: &a}
		}},
		{"genuine-key,forged-body", func(r regions) resignOpt { return resignOpt{body: forgedBody(r.body, r.tee == 0x81)} }},
	}
	for _, v := range vs {
		if !v.accept {
			continue
		}
		raw := bases[v.quote]
		r := locate(raw)
		for _, va := range common {
			_, ps := resign(raw, va.o(r))
			c := v.kase("resign")
			c.Orig = "" // a re-signed body is a different quote; S relies on the primitive checks
			c.Quote = patched(v.quote, ps...)
			c.Note = v.name + ":" + va.name
			cs = append(cs, c)
		}
	}
	// synthetic bundles (the harness owns the PCK key, so the QE report can also be re-issued)
	synth := append(append([]variant{}, common...),
		variant{"fresh-key,auth-empty,rebound", func(r regions) resignOpt {
			return resignOpt{body: forgedBody(r.body, r.tee == 0x81), signer: kEvil, auth: bp(nil), rebind: true}
		}},
		variant{"fresh-key,auth-changed,rebound", func(r regions) resignOpt { return resignOpt{signer: kEvil, auth: bp([]byte("other auth data")), rebind: true} }},
		variant{"genuine-key,auth-empty,rebound", func(r regions) resignOpt { return resignOpt{auth: bp(nil), rebind: true} }},
		variant{"genuine-key,auth-changed,rebound", func(r regions) resignOpt { return resignOpt{auth: bp([]byte{1, 2, 3}), rebind: true} }},
		variant{"genuine-key,auth-changed,not-rebound", func(r regions) resignOpt { return resignOpt{auth: bp([]byte{1, 2, 3})} }},
	)
	for _, tdx := range []bool{false, true} {
		for _, va := range synth {
			m := mint(rng.Fork(), rng.Bytes(64), tdx)
			raw := m.c.Quote.bytes()
			nw, _ := resign(raw, va.o(locate(raw)))
			nr := locate(nw)
			c := m.c
			c.Fam = "resign"
			c.Policy = PolicyD{Period: 30, MinEval: 12, TDX: tdx}
			c.Quote = Blob{Parts: []Blob{lit(nw[:nr.offCert]), base("synth_pck_main")}}
			c.Note = map[bool]string{false: "synth-sgx:", true: "synth-tdx:"}[tdx] + va.name
			cs = append(cs, c)
		}
	}
	return cs
}
