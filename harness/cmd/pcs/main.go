// Command pcs drives the real go/common/sgx/pcs quote verification
// (QuoteBundle.Verify) with the known-good SGX and TDX vectors of the package's
// testdata, with mutants of the quote / collateral / verification time / policy
// and with synthetic bundles signed under a harness-generated trust root, and
// records for each case (a) the implementation's verdict, (b) the graph of the
// real primitives (SHA-256, ECDSA, X.509 path validation, JSON parsing, ...)
// on the arguments of that case, as the finite tables that instantiate the
// abstract primitives of Verif.Pcs.Model.  The Coq model must predict the same
// verdict, rejection reason and verified (identity, report data).
//
// Independently of the model (S) the harness checks on the implementation:
// an accepted mutant returns exactly the original's identity/report data;
// nothing is accepted outside the collateral/certificate validity window or
// under a policy that must reject, or with collateral of a foreign platform.
package main

import (
	"bytes"
	"crypto/ecdsa"
	"crypto/elliptic"
	"crypto/sha256"
	"crypto/x509"
	"encoding/binary"
	"encoding/hex"
	"encoding/json"
	"flag"
	"fmt"
	"math/big"
	"os"
	"path/filepath"
	"regexp"
	"runtime"
	"sort"
	"strings"
	"sync"
	"time"

	"github.com/oasisprotocol/oasis-core/go/common/crypto/tuplehash"
	"github.com/oasisprotocol/oasis-core/go/common/sgx/pcs"

	"verifharness/internal/coqout"
	"verifharness/internal/prng"
)

// ---------------------------------------------------------------- case description (replayable)

type Patch struct {
	Off int    `json:"off"`
	Del int    `json:"del"`
	Ins string `json:"ins"` // hex
}

// Blob is a byte string: a named base vector, optionally patched, or a literal.
type Blob struct {
	Base  string  `json:"base,omitempty"`
	Patch []Patch `json:"patch,omitempty"`
	Lit   *string `json:"lit,omitempty"` // hex
	Parts []Blob  `json:"parts,omitempty"` // concatenation
}

type ModD struct {
	MrSeam   *string `json:"mr_seam,omitempty"`
	MrSigner string  `json:"mr_signer"`
}
type PolicyD struct {
	Nil      bool     `json:"nil,omitempty"`
	Disabled bool     `json:"disabled,omitempty"`
	Period   uint16   `json:"period"`
	MinEval  uint32   `json:"min_eval"`
	WL       []string `json:"wl,omitempty"`
	BL       []string `json:"bl,omitempty"`
	TDX      bool     `json:"tdx,omitempty"`
	Mods     []ModD   `json:"mods,omitempty"`
}
type EnvD struct {
	AllowDebug bool `json:"allow_debug,omitempty"`
	Lax        bool `json:"lax,omitempty"`
}
type CaseD struct {
	Fam    string  `json:"fam"`
	Orig   string  `json:"orig,omitempty"` // base quote whose verified output is the reference for S
	Quote  Blob    `json:"quote"`
	TI     Blob    `json:"ti"`
	TISig  Blob    `json:"ti_sig"`
	QI     Blob    `json:"qi"`
	QISig  Blob    `json:"qi_sig"`
	Certs  Blob    `json:"certs"`
	TsNs   int64   `json:"ts_ns"`
	Policy PolicyD `json:"policy"`
	Env    EnvD    `json:"env"`
	Synth  bool    `json:"synth,omitempty"` // verified under the synthetic trust root
	Note   string  `json:"note,omitempty"`
}

// ---------------------------------------------------------------- bases

var (
	bases     = map[string][]byte{}
	baseOrder []string
)

func addBase(name string, b []byte) {
	if _, ok := bases[name]; !ok {
		baseOrder = append(baseOrder, name)
	}
	bases[name] = b
}

func (b Blob) bytes() []byte {
	if len(b.Parts) > 0 {
		var out []byte
		for _, p := range b.Parts {
			out = append(out, p.bytes()...)
		}
		return out
	}
	if b.Lit != nil {
		x, _ := hex.DecodeString(*b.Lit)
		return x
	}
	cur := append([]byte{}, bases[b.Base]...)
	for _, p := range b.Patch {
		ins, _ := hex.DecodeString(p.Ins)
		off, del := p.Off, p.Del
		if off > len(cur) {
			off = len(cur)
		}
		if off+del > len(cur) {
			del = len(cur) - off
		}
		n := append([]byte{}, cur[:off]...)
		n = append(n, ins...)
		n = append(n, cur[off+del:]...)
		cur = n
	}
	return cur
}

func lit(b []byte) Blob { s := hex.EncodeToString(b); return Blob{Lit: &s} }
func base(n string) Blob { return Blob{Base: n} }
func patched(n string, ps ...Patch) Blob { return Blob{Base: n, Patch: ps} }
func P(off, del int, ins []byte) Patch { return Patch{off, del, hex.EncodeToString(ins)} }

// Byte strings of 16..64 bytes recur in many cases (digests, keys): they are emitted as tokens and, once all
// cases are known, either named in the shard header (3 or more uses) or inlined.  Parsing a numeral costs Coq
// about 0.1 ms per byte, which dominated the evaluation time.
// internMin: a byte string is named in the shard headers only if it is used at least this often
// (grows with the run so that thorough runs do not put thousands of definitions into every header).
var internMin = 3

var (
	internMu    sync.Mutex
	internCount = map[string]int{}
	internRe    = regexp.MustCompile(`@@([0-9a-f]+)@@`)
)

func hxLit(h string) string { return fmt.Sprintf("(hx %d 0x%s)", len(h)/2, h) }

func hxBytes(b []byte) string {
	if len(b) == 0 {
		return "(hx 0 0)"
	}
	h := hex.EncodeToString(b)
	if len(b) < 16 {
		return hxLit(h)
	}
	internMu.Lock()
	internCount[h]++
	internMu.Unlock()
	return "@@" + h + "@@"
}

// resolveInterned replaces the tokens; named constants are appended to defs in first-use order.
func resolveInterned(s string, names map[string]string, defs *[]string) string {
	return internRe.ReplaceAllStringFunc(s, func(t string) string {
		h := t[2 : len(t)-2]
		if internCount[h] < internMin {
			return hxLit(h)
		}
		n, ok := names[h]
		if !ok {
			n = fmt.Sprintf("i_%d", len(names))
			names[h] = n
			*defs = append(*defs, fmt.Sprintf("Definition %s : bytes := Eval vm_compute in %s.\n", n, hxLit(h)))
		}
		return n
	})
}

func coqBytes(b []byte) string {
	if len(b) <= 64 {
		return hxBytes(b)
	}
	var ws []string
	for i := 0; i < len(b); i += 8 {
		var w [8]byte
		copy(w[:], b[i:min(i+8, len(b))])
		ws = append(ws, "0x"+hex.EncodeToString(w[:]))
	}
	return fmt.Sprintf("(unwords %d [%s])", len(b), strings.Join(ws, "; "))
}

func (b Blob) coq() string {
	if len(b.Parts) > 0 {
		var ps []string
		for _, p := range b.Parts {
			ps = append(ps, p.coq())
		}
		return "(" + strings.Join(ps, " ++ ") + ")"
	}
	if b.Lit != nil {
		return coqBytes(b.bytes())
	}
	if len(b.Patch) == 0 {
		return "b_" + b.Base
	}
	var ps []string
	for _, p := range b.Patch {
		ins, _ := hex.DecodeString(p.Ins)
		ps = append(ps, fmt.Sprintf("(%d, %d, %s)", p.Off, p.Del, coqBytes(ins)))
	}
	return fmt.Sprintf("(patch b_%s [%s])", b.Base, strings.Join(ps, "; "))
}

// ---------------------------------------------------------------- fingerprint (= Verif.Pcs.Model.fp)

// Every fingerprint handed to the model is registered with the SHA-256 of its argument: two different
// arguments with the same fingerprint would make a table lookup ambiguous, so that is a fatal harness error.
var (
	fpMu        sync.Mutex
	fpSeen      = map[uint64][32]byte{}
	fpCollision string
)

func fp(b []byte) uint64 {
	f := fpRaw(b)
	d := sha256.Sum256(b)
	fpMu.Lock()
	if o, ok := fpSeen[f]; ok && o != d {
		fpCollision = fmt.Sprintf("fingerprint %d is shared by two different arguments (sha256 %x and %x)", f, o, d)
	}
	fpSeen[f] = d
	fpMu.Unlock()
	return f
}

func checkFpCollision() {
	if fpCollision != "" {
		fmt.Fprintln(os.Stderr, "FATAL: "+fpCollision)
		os.Exit(4)
	}
}

func fpRaw(b []byte) uint64 {
	const mask = uint64(1)<<63 - 1
	acc := uint64(len(b))
	for _, x := range b {
		acc = (acc*257 + uint64(x) + 1) & mask
	}
	return acc
}

// ---------------------------------------------------------------- independent location of the quote's regions

type regions struct {
	ok                               bool
	version, tee                     int
	header, body                     []byte
	sig, attkey, qeReport, qeSig     []byte
	auth, certData, slack            []byte
	certType                         int
	offBody, offSigLen, offSig       int
	offQE, offAuth, offCert, offSlak int
}

// locate splits a raw quote without judging it (only bounds are respected).
func locate(raw []byte) (r regions) {
	if len(raw) < 436 {
		return
	}
	r.version = int(binary.LittleEndian.Uint16(raw))
	r.tee = 0
	if r.version == 4 {
		r.tee = int(binary.LittleEndian.Uint32(raw[4:]))
	}
	bl := 384
	if r.tee == 0x81 {
		bl = 584
	}
	if len(raw) < 48+bl+4 {
		return
	}
	r.header, r.body = raw[:48], raw[48:48+bl]
	r.offBody, r.offSigLen, r.offSig = 48, 48+bl, 48+bl+4
	sd := raw[r.offSig:]
	if len(sd) < 584 {
		return
	}
	r.sig, r.attkey = sd[:64], sd[64:128]
	o := 128
	if r.version == 4 {
		o = 134
	}
	r.offQE = r.offSig + o
	d := sd[o:]
	if len(d) < 450 {
		return
	}
	r.qeReport, r.qeSig = d[:384], d[384:448]
	as := int(binary.LittleEndian.Uint16(d[448:]))
	if len(d) < 450+as+6 {
		return
	}
	r.auth = d[450 : 450+as]
	r.offAuth = r.offQE + 450
	r.certType = int(binary.LittleEndian.Uint16(d[450+as:]))
	cs := int(binary.LittleEndian.Uint32(d[452+as:]))
	if cs < 0 || len(d) < 456+as+cs {
		return
	}
	r.certData = d[456+as : 456+as+cs]
	r.offCert = r.offQE + 456 + as
	r.slack = d[456+as+cs:]
	r.offSlak = r.offCert + cs
	r.ok = true
	return
}

// ---------------------------------------------------------------- real primitives

var (
	intelRoots = pcs.IntelTrustRoots
	synthRoots *x509.CertPool
)

func parsePEMChain(data []byte) ([]*x509.Certificate, bool) {
	var certs []*x509.Certificate
	for len(data) > 0 {
		cert, rest, err := pcs.CertFromPEM(data)
		if err != nil {
			return nil, false
		}
		if cert == nil {
			break
		}
		certs = append(certs, cert)
		data = rest
	}
	return certs, true
}

func pckChainOK(certs []*x509.Certificate, ts time.Time, roots *x509.CertPool) bool {
	if len(certs) != 3 {
		return false
	}
	inter := x509.NewCertPool()
	inter.AddCert(certs[1])
	chains, err := certs[0].Verify(x509.VerifyOptions{Roots: roots, Intermediates: inter, CurrentTime: ts})
	if err != nil || len(chains) != 1 {
		return false
	}
	ch := chains[0]
	return ch[len(ch)-1].Equal(certs[2])
}

func tcbChainOK(certs []*x509.Certificate, ts time.Time, roots *x509.CertPool) bool {
	if len(certs) != 2 {
		return false
	}
	chains, err := certs[0].Verify(x509.VerifyOptions{Roots: roots, CurrentTime: ts})
	if err != nil || len(chains) != 1 {
		return false
	}
	ch := chains[0]
	return ch[len(ch)-1].Equal(certs[1])
}

func pkBytes(pk *ecdsa.PublicKey) []byte {
	b, err := pk.Bytes()
	if err != nil || len(b) != 65 {
		return nil
	}
	return b[1:]
}

func ecdsaOK(pk *ecdsa.PublicKey, digest, sig []byte) bool {
	if pk == nil || len(sig) != 64 {
		return false
	}
	var r, s big.Int
	r.SetBytes(sig[:32])
	s.SetBytes(sig[32:])
	return ecdsa.Verify(pk, digest, &r, &s)
}

func parseTime(s string) (string, bool, *time.Time) {
	t, err := time.Parse(pcs.TimestampFormat, s)
	if err != nil {
		return "None", false, nil
	}
	ns := new(big.Int).Mul(big.NewInt(t.Unix()), big.NewInt(1000000000))
	ns.Add(ns, big.NewInt(int64(t.Nanosecond())))
	return "(Some (" + ns.String() + ")%Z)", true, &t
}

func zlist(xs []int64) string {
	var s []string
	for _, x := range xs {
		s = append(s, fmt.Sprintf("(%d)%%Z", x))
	}
	return "[" + strings.Join(s, "; ") + "]"
}

func enclaveLevels(ls []pcs.EnclaveTCBLevel) string {
	var s []string
	for _, l := range ls {
		s = append(s, fmt.Sprintf("mkEL %d %d", l.TCB.ISVSVN, int(l.Status)))
	}
	return "[" + strings.Join(s, "; ") + "]"
}

type tiFacts struct {
	raw         pcs.TCBInfo
	ok          bool
	coq         string
	id, fmspc   string
	issue, next *time.Time
	eval        uint32
}

func parseTCBInfo(raw []byte) (f tiFacts) {
	var ti pcs.TCBInfo
	if err := json.Unmarshal(raw, &ti); err != nil {
		f.coq = "None"
		return
	}
	f.raw = ti
	f.ok, f.id, f.fmspc, f.eval = true, ti.ID, ti.FMSPC, ti.TCBEvaluationDataNumber
	is, _, it := parseTime(ti.IssueDate)
	ns, _, nt := parseTime(ti.NextUpdate)
	f.issue, f.next = it, nt
	var mods, lvls []string
	for _, m := range ti.TDXModuleIdentities {
		mods = append(mods, fmt.Sprintf("mkTM %s %s", coqBytes([]byte(m.ID)), enclaveLevels(m.TCBLevels)))
	}
	for _, l := range ti.TCBLevels {
		var sg, td []int64
		for i := 0; i < 16; i++ {
			sg = append(sg, int64(l.TCB.SGXComponents[i].SVN))
			td = append(td, int64(l.TCB.TDXComponents[i].SVN))
		}
		lvls = append(lvls, fmt.Sprintf("mkTL %s %d %s %d", zlist(sg), l.TCB.PCESVN, zlist(td), int(l.Status)))
	}
	f.coq = fmt.Sprintf("(Some (mkTI %s (%d)%%Z %s %s %s %d [%s] [%s] %s %s %s))", coqBytes([]byte(ti.ID)), ti.Version, is, ns,
		coqBytes([]byte(ti.FMSPC)), ti.TCBEvaluationDataNumber, strings.Join(mods, "; "), strings.Join(lvls, "; "),
		coqBytes([]byte(ti.TDXModule.MRSIGNER)), coqBytes([]byte(ti.TDXModule.Attributes)), coqBytes([]byte(ti.TDXModule.AttributesMask)))
	return
}

type qiFacts struct {
	ok          bool
	coq         string
	id          string
	issue, next *time.Time
	eval        uint32
}

func parseQEID(raw []byte) (f qiFacts) {
	var qi pcs.QEIdentity
	if err := json.Unmarshal(raw, &qi); err != nil {
		f.coq = "None"
		return
	}
	f.ok, f.id, f.eval = true, qi.ID, qi.TCBEvaluationDataNumber
	is, _, it := parseTime(qi.IssueDate)
	ns, _, nt := parseTime(qi.NextUpdate)
	f.issue, f.next = it, nt
	f.coq = fmt.Sprintf("(Some (mkQI %s (%d)%%Z %s %s %d %s %s %s %s %s %d %s))", coqBytes([]byte(qi.ID)), qi.Version, is, ns,
		qi.TCBEvaluationDataNumber, coqBytes([]byte(qi.MiscSelect)), coqBytes([]byte(qi.MiscSelectMask)),
		coqBytes([]byte(qi.Attributes)), coqBytes([]byte(qi.AttributesMask)), coqBytes([]byte(qi.MRSIGNER)),
		qi.ISVProdID, enclaveLevels(qi.TCBLevels))
	return
}

// ---------------------------------------------------------------- error classification (= reason_code)

func has(s string, subs ...string) bool {
	for _, x := range subs {
		if strings.Contains(s, x) {
			return true
		}
	}
	return false
}

func classify(err error) int {
	e := err.Error()
	switch {
	case has(e, "failed to verify QE identity"):
		switch {
		case has(e, "invalid QE identity: pcs/tcb: TCB signature verification failed", "invalid QE identity: encoding/hex", "invalid QE identity: malformed signature"):
			return 50
		case has(e, "malformed QE identity body"):
			return 51
		case has(e, "unexpected QE identity ID"):
			return 52
		case has(e, "unexpected QE identity version"):
			return 53
		case has(e, "invalid issue date", "invalid next update date"):
			return 54
		case has(e, "issue date in the future"):
			return 55
		case has(e, "QE identity expired"):
			return 56
		case has(e, "invalid QE evaluation data number"):
			return 57
		case has(e, "malformed QE MRSIGNER", "malformed miscselect", "malformed attributes"):
			return 58
		case has(e, "invalid QE MRSIGNER"):
			return 59
		case has(e, "invalid QE ISVProdID"):
			return 60
		case has(e, "invalid QE miscselect"):
			return 61
		case has(e, "invalid QE attributes"):
			return 62
		case has(e, "QE TCB level not supported"):
			return 63
		case has(e, "QE TCB is not up to date"):
			return 64
		}
	case has(e, "pcs/tcb: failed to verify TCB info: "):
		switch {
		case has(e, "invalid TCB info: pcs/tcb: TCB signature verification failed", "invalid TCB info: encoding/hex", "invalid TCB info: malformed signature"):
			return 70
		case has(e, "malformed TCB info body"):
			return 71
		case has(e, "unexpected TCB info identifier"):
			return 72
		case has(e, "unexpected TCB info version"):
			return 73
		case has(e, "invalid issue date", "invalid next update date"):
			return 74
		case has(e, "issue date in the future"):
			return 75
		case has(e, "TCB info expired"):
			return 76
		case has(e, "invalid TCB evaluation data number"):
			return 77
		case has(e, "FMSPC is not whitelisted"):
			return 78
		case has(e, "FMSPC is blacklisted"):
			return 79
		case has(e, "malformed FMSPC"):
			return 80
		case has(e, "FMSPC: mismatch"):
			return 81
		case has(e, "TDX module TCB level not supported"):
			return 85
		case has(e, "TDX module not supported", "missing TDX SVN components"):
			return 84
		case has(e, "pcs/tcb: TCB level not supported"):
			return 82
		case has(e, "missing TCB status"):
			return 83
		case has(e, "QE TCB is not up to date"):
			return 86
		case has(e, "platform TCB is not up to date"):
			return 87
		}
	}
	switch {
	case has(e, "invalid quote length"):
		return 1
	case has(e, "unsupported quote version"):
		return 2
	case has(e, "data in reserved field"):
		return 3
	case has(e, "pcs/quote: unsupported TEE type"):
		return 4
	case has(e, "unsupported QE vendor"):
		return 5
	case has(e, "invalid quote body length"):
		return 6
	case has(e, "malformed TDX attributes"):
		return 7
	case has(e, "unexpected trailing data"):
		return 8
	case has(e, "unsupported attestation key type"):
		return 9
	case has(e, "invalid ECDSA-P256 quote signature length"):
		return 10
	case has(e, "invalid ECDSA-P256 quote signature certification data size"):
		return 11
	case has(e, "unexpected certification data"):
		return 12
	case has(e, "missing report body", "missing report signature", "missing authentication data size", "invalid authentication data size",
		"missing certification data type", "missing certification data size", "invalid certification data size"):
		return 13
	case has(e, "invalid PPID certification data length"):
		return 14
	case has(e, "bad X509 certificate in PCK chain"):
		return 15
	case has(e, "unsupported certification data type"):
		return 16
	case has(e, "PCS quotes are disabled"):
		return 20
	case has(e, "blacklisted MRSIGNER"):
		return 21
	case has(e, "disallowed debug/production"):
		return 22
	case has(e, "TEE type not allowed"):
		return 23
	case has(e, "TDX module not allowed"):
		return 24
	case has(e, "no PCK certificate chain"):
		return 30
	case has(e, "pcs/quote: unexpected certificate chain length"):
		return 31
	case has(e, "failed to verify PCK certificate chain", "pcs/quote: unexpected number of chains", "pcs/quote: unexpected root"):
		return 32
	case has(e, "PCK certificate with non-ECDSA"):
		return 33
	case has(e, "bad X509 SGX extensions", "bad FMSPC", "bad TCB value", "bad TCB component", "bad PCESVN", "bad CPUSVN", "missing FMSPC field"):
		return 34
	case has(e, "failed to verify QE report signature"):
		return 35
	case has(e, "QE report data does not match"):
		return 36
	case has(e, "bad X509 certificate in TCB bundle", "pcs/tcb: unexpected certificate chain length"):
		return 40
	case has(e, "failed to verify TCB info certificate chain", "pcs/tcb: unexpected number of chains", "pcs/tcb: unexpected root"):
		return 41
	case has(e, "TCB certificate with non-ECDSA"):
		return 42
	case has(e, "invalid attestation public key"):
		return 90
	case has(e, "failed to verify quote signature"):
		return 91
	}
	return 999
}

// ---------------------------------------------------------------- evaluation of one case

type result struct {
	code    int
	errStr  string
	out     [3][]byte // mrenclave, mrsigner, report data
	term    string    // Coq "(case, expected)"
	viol    string
	obs     []string // observations (not violations)
	stage   string
	nontriv bool
	// pieces of the Coq case, for the node stream
	quoteTerm, collTerm, tablesTerm string
}

func (p PolicyD) real() *pcs.QuotePolicy {
	if p.Nil {
		return nil
	}
	q := &pcs.QuotePolicy{Disabled: p.Disabled, TCBValidityPeriod: p.Period, MinTCBEvaluationDataNumber: p.MinEval,
		FMSPCWhitelist: p.WL, FMSPCBlacklist: p.BL}
	if p.TDX {
		t := &pcs.TdxQuotePolicy{}
		for _, m := range p.Mods {
			var mp pcs.TdxModulePolicy
			b, _ := hex.DecodeString(m.MrSigner)
			copy(mp.MrSignerSeam[:], b)
			if m.MrSeam != nil {
				var s [48]byte
				b, _ := hex.DecodeString(*m.MrSeam)
				copy(s[:], b)
				mp.MrSeam = &s
			}
			t.AllowedTdxModules = append(t.AllowedTdxModules, mp)
		}
		q.TDX = t
	}
	return q
}

func (p PolicyD) eff() PolicyD {
	if p.Nil {
		return PolicyD{Period: 30, MinEval: pcs.DefaultMinTCBEvaluationDataNumber}
	}
	return p
}

func strList(l []string) string {
	var s []string
	for _, x := range l {
		s = append(s, coqBytes([]byte(x)))
	}
	return "[" + strings.Join(s, "; ") + "]"
}

func (p PolicyD) coq() string {
	if p.Nil {
		return "default_policy"
	}
	tdx := "None"
	if p.TDX {
		var ms []string
		for _, m := range p.Mods {
			seam := "None"
			if m.MrSeam != nil {
				b, _ := hex.DecodeString(*m.MrSeam)
				var s [48]byte
				copy(s[:], b)
				seam = "(Some " + coqBytes(s[:]) + ")"
			}
			b, _ := hex.DecodeString(m.MrSigner)
			var s [48]byte
			copy(s[:], b)
			ms = append(ms, fmt.Sprintf("mkMP %s %s", seam, coqBytes(s[:])))
		}
		tdx = "(Some [" + strings.Join(ms, "; ") + "])"
	}
	return fmt.Sprintf("(mkPolicy %s %d %d %s %s %s)", coqout.Bool(p.Disabled), p.Period, p.MinEval, strList(p.WL), strList(p.BL), tdx)
}

var envMu sync.Mutex // the process-wide switches are set per phase, never concurrently with verification

func evaluate(c CaseD) (res result) {
	defer func() {
		if e := recover(); e != nil {
			res.viol = fmt.Sprintf("implementation panicked: %v", e)
			res.code = 998
		}
	}()
	raw := c.Quote.bytes()
	ti, tiSig, qi, qiSig, certs := c.TI.bytes(), c.TISig.bytes(), c.QI.bytes(), c.QISig.bytes(), c.Certs.bytes()
	ts := time.Unix(0, c.TsNs)
	roots := intelRoots
	if c.Synth {
		roots = synthRoots
	}

	// ---- the implementation
	bnd := pcs.QuoteBundle{Quote: raw, TCB: pcs.TCBBundle{
		TCBInfo:      pcs.SignedTCBInfo{TCBInfo: ti, Signature: string(tiSig)},
		QEIdentity:   pcs.SignedQEIdentity{EnclaveIdentity: qi, Signature: string(qiSig)},
		Certificates: certs,
	}}
	vq, err := bnd.Verify(c.Policy.real(), ts)
	if err != nil {
		res.code, res.errStr = classify(err), err.Error()
	} else {
		res.out = [3][]byte{append([]byte{}, vq.Identity.MrEnclave[:]...), append([]byte{}, vq.Identity.MrSigner[:]...), append([]byte{}, vq.ReportData...)}
	}

	// ---- the primitives on this case's arguments
	var sha, ecd, akv, pck, tdid []string
	addSha := func(b []byte) []byte {
		d := sha256.Sum256(b)
		sha = append(sha, fmt.Sprintf("(%d, %s)", fp(b), hxBytes(d[:])))
		return d[:]
	}
	addEcdsa := func(pk *ecdsa.PublicKey, digest, sig []byte) bool {
		if pk == nil {
			return false
		}
		ok := ecdsaOK(pk, digest, sig)
		if ok {
			ecd = append(ecd, fmt.Sprint(fp(append(append(append([]byte{}, pkBytes(pk)...), digest...), sig...))))
		}
		return ok
	}
	r := locate(raw)
	var pckCerts []*x509.Certificate
	var pckFmspc []byte
	var pckInfo *pcs.PCKInfo
	pckChain := false
	var okQuoteSig, okQeSig, okBind, okTiSig, okQiSig bool
	if r.ok {
		res.nontriv = res.code == 0 || res.code >= 20
		qeDigest := addSha(r.qeReport)
		addSha(append(append([]byte{}, r.attkey...), r.auth...))
		qDigest := addSha(append(append([]byte{}, r.header...), r.body...))
		if apk, err := ecdsa.ParseUncompressedPublicKey(elliptic.P256(), append([]byte{4}, r.attkey...)); err == nil {
			akv = append(akv, fmt.Sprint(fp(r.attkey)))
			okQuoteSig = addEcdsa(apk, qDigest, r.sig)
		}
		bind := sha256.Sum256(append(append([]byte{}, r.attkey...), r.auth...))
		okBind = bytes.Equal(r.qeReport[320:352], bind[:]) && bytes.Equal(r.qeReport[352:384], make([]byte, 32))
		if r.tee == 0x81 && len(r.body) == 584 {
			m := append(append([]byte{}, r.body[136:184]...), r.body[328:520]...)
			h := tuplehash.New256(32, []byte(pcs.TdEnclaveIdentityContext))
			_, _ = h.Write(r.body[136:184])
			for i := 0; i < 4; i++ {
				_, _ = h.Write(r.body[328+48*i : 376+48*i])
			}
			tdid = append(tdid, fmt.Sprintf("(%d, %s)", fp(m), hxBytes(h.Sum(nil))))
		}
		// certification data
		var pemOK bool
		pckCerts, pemOK = parsePEMChain(r.certData)
		info := "PckBadExt"
		if pemOK {
			pckChain = pckChainOK(pckCerts, ts, roots)
			if pckChain {
				// the SGX extension decoder is the code's own (exported VerifyPCK); only consulted when the chain verifies
				var q pcs.Quote
				if q.UnmarshalBinary(raw) == nil {
					if qs, ok := q.Signature().(*pcs.QuoteSignatureECDSA_P256); ok {
						pi, perr := qs.VerifyPCK(ts)
						switch {
						case perr == nil:
							pckFmspc, pckInfo = pi.FMSPC, pi
							var sv []int64
							for _, x := range pi.TCBCompSVN {
								sv = append(sv, int64(x))
							}
							info = fmt.Sprintf("PckOk (mkPck %s %s %s %d)", coqBytes(pkBytes(pi.PublicKey)), hxBytes(pi.FMSPC), zlist(sv), pi.PCESVN)
							okQeSig = addEcdsa(pi.PublicKey, qeDigest, r.qeSig)
						case strings.Contains(perr.Error(), "non-ECDSA"):
							info = "PckBadKey"
						}
					}
				}
			}
		}
		pck = append(pck, fmt.Sprintf("(%d, (%s, %d, %s, %s))", fp(r.certData), coqout.Bool(pemOK), len(pckCerts), coqout.Bool(pckChain), info))
	}
	// TCB signing chain
	tcbCertsTerm := "None"
	tcbChain := false
	var tcbPk *ecdsa.PublicKey
	tcbCerts, tok := parsePEMChain(certs)
	if tok && len(tcbCerts) == 2 {
		tcbChain = tcbChainOK(tcbCerts, ts, roots)
		if pk, ok := tcbCerts[0].PublicKey.(*ecdsa.PublicKey); ok && pkBytes(pk) != nil {
			tcbPk = pk
			tcbCertsTerm = "(Some (Some " + coqBytes(pkBytes(pk)) + "))"
		} else {
			tcbCertsTerm = "(Some None)"
		}
	}
	tiDigest := addSha(ti)
	qiDigest := addSha(qi)
	if s, err := hex.DecodeString(string(tiSig)); err == nil && len(s) == 64 {
		okTiSig = addEcdsa(tcbPk, tiDigest, s)
	}
	if s, err := hex.DecodeString(string(qiSig)); err == nil && len(s) == 64 {
		okQiSig = addEcdsa(tcbPk, qiDigest, s)
	}
	tif := parseTCBInfo(ti)
	qif := parseQEID(qi)
	tiTerm, qiTerm := tif.coq, qif.coq
	if n, ok := parsedConst["ti:"+string(ti)]; ok {
		tiTerm = "(Some " + n + ")"
	}
	if n, ok := parsedConst["qi:"+string(qi)]; ok {
		qiTerm = "(Some " + n + ")"
	}
	tables := fmt.Sprintf("(mkTables [%s] [%s] [%s] [%s] %s %s %s %s [%s])", strings.Join(sha, "; "), strings.Join(ecd, "; "),
		strings.Join(akv, "; "), strings.Join(pck, "; "), tcbCertsTerm, coqout.Bool(tcbChain), tiTerm, qiTerm, strings.Join(tdid, "; "))
	coll := fmt.Sprintf("(mkColl %s %s %s %s %s)", c.TI.coq(), c.TISig.coq(), c.QI.coq(), c.QISig.coq(), c.Certs.coq())
	kase := fmt.Sprintf("(mkCase (mkEnv %s %s []) %s (%d)%%Z %s %s %s)", coqout.Bool(c.Env.AllowDebug), coqout.Bool(c.Env.Lax),
		c.Policy.coq(), c.TsNs, c.Quote.coq(), coll, tables)
	res.quoteTerm, res.collTerm, res.tablesTerm = c.Quote.coq(), coll, tables
	exp := fmt.Sprintf("(%d, (%s, %s, %s))", res.code, hxBytes(res.out[0]), hxBytes(res.out[1]), hxBytes(res.out[2]))
	if res.code != 0 {
		exp = fmt.Sprintf("(%d, (hx 0 0, hx 0 0, hx 0 0))", res.code)
	}
	res.term = "(" + kase + ", " + exp + ")"
	res.stage = stageName(res.code)
	if res.code == 999 {
		res.viol = "unclassified error: " + res.errStr
	}

	// ---- S: property predicates evaluated on the implementation, independent of the Coq model
	if res.code == 0 {
		pol := c.Policy.eff()
		v := func(f string, a ...any) {
			if res.viol == "" {
				res.viol = fmt.Sprintf(f, a...)
			}
		}
		if c.Orig != "" {
			o := origOut[c.Orig]
			if !bytes.Equal(o[0], res.out[0]) || !bytes.Equal(o[1], res.out[1]) || !bytes.Equal(o[2], res.out[2]) {
				v("mutant accepted with identity/report data different from the original's: got (%x,%x,%x)", res.out[0], res.out[1], res.out[2])
			}
		}
		if pol.Disabled {
			v("accepted although the policy is disabled")
		}
		if r.tee == 0x81 && !pol.TDX {
			v("TDX quote accepted without a TDX policy")
		}
		if r.tee == 0x81 && pol.TDX {
			// independent of the model: some allowed entry must match on EVERY field it sets; an empty list admits the zero signer only
			pad := func(h string) []byte { var x [48]byte; b, _ := hex.DecodeString(h); copy(x[:], b); return x[:] }
			seam, signer := r.body[16:64], r.body[64:112]
			admitted := len(pol.Mods) == 0 && bytes.Equal(signer, make([]byte, 48))
			for _, mp := range pol.Mods {
				match := bytes.Equal(pad(mp.MrSigner), signer)
				if mp.MrSeam != nil {
					match = match && bytes.Equal(pad(*mp.MrSeam), seam)
				}
				admitted = admitted || match
			}
			if !admitted {
				v("TDX quote accepted although no allowed TDX module entry matches on every field it sets (MRSEAM %x, MRSIGNERSEAM %x)", seam, signer)
			}
		}
		if !tif.ok || !qif.ok || tif.issue == nil || qif.issue == nil {
			v("accepted although the collateral does not parse")
		} else {
			per := time.Duration(pol.Period) * 24 * time.Hour
			for _, w := range []struct {
				n     string
				issue time.Time
			}{{"TCB info", *tif.issue}, {"QE identity", *qif.issue}} {
				if ts.Before(w.issue) {
					v("accepted before the %s issue date", w.n)
				}
				if ts.After(w.issue.Add(per)) {
					v("accepted after the %s validity period (issueDate + %d days)", w.n, pol.Period)
				}
			}
			if tif.next != nil && !ts.Before(*tif.next) || qif.next != nil && !ts.Before(*qif.next) {
				res.obs = append(res.obs, "accepted-at-or-after-nextUpdate")
			}
			if r.tee == 0x81 {
				// Intel's TDX verification compares SEAMATTRIBUTES with tdxModule.attributes under the mask; the code does not
				a, e1 := hex.DecodeString(tif.raw.TDXModule.Attributes)
				mk, e2 := hex.DecodeString(tif.raw.TDXModule.AttributesMask)
				if e1 == nil && e2 == nil && len(a) == 8 && len(mk) == 8 {
					for i := 0; i < 8; i++ {
						if r.body[112+i]&mk[i] != a[i] {
							res.obs = append(res.obs, "accepted-tdx-quote-whose-seam-attributes-differ-from-the-tcb-info-tdxModule")
							break
						}
					}
				}
			}
			if tif.eval < pol.MinEval || qif.eval < pol.MinEval {
				v("accepted with tcbEvaluationDataNumber below the policy minimum")
			}
			for _, b := range pol.BL {
				if b == tif.fmspc {
					v("accepted although the FMSPC is blacklisted")
				} else if strings.EqualFold(b, tif.fmspc) {
					res.obs = append(res.obs, "accepted-with-blacklist-entry-differing-only-in-case")
				}
			}
			if len(pol.WL) > 0 {
				in := false
				for _, b := range pol.WL {
					in = in || b == tif.fmspc
				}
				if !in {
					v("accepted although the FMSPC is not whitelisted")
				}
			}
			want := map[int]string{0: "SGX", 0x81: "TDX"}[r.tee]
			wantQ := map[int]string{0: "QE", 0x81: "TD_QE"}[r.tee]
			if tif.id != want || qif.id != wantQ {
				v("accepted with collateral of another TEE type (%s/%s)", tif.id, qif.id)
			}
			f, err := hex.DecodeString(tif.fmspc)
			if err != nil || !bytes.Equal(f, pckFmspc) {
				v("accepted with TCB info of a foreign platform (FMSPC %s vs PCK %x)", tif.fmspc, pckFmspc)
			}
		}
		// independent reference for the platform TCB level: first level not above the platform's SVNs
		if tif.ok && pckInfo != nil {
			status := pcs.TCBStatus(-1)
			for _, l := range tif.raw.TCBLevels {
				match := pckInfo.PCESVN >= l.TCB.PCESVN
				for i := 0; i < 16; i++ {
					match = match && pckInfo.TCBCompSVN[i] >= l.TCB.SGXComponents[i].SVN
				}
				if r.tee == 0x81 {
					from := 0
					if r.body[1] != 0 {
						from = 2
					}
					for i := from; i < 16; i++ {
						match = match && int32(r.body[i]) >= l.TCB.TDXComponents[i].SVN
					}
				}
				if match {
					status = l.Status
					break
				}
			}
			okStatus := status == pcs.StatusUpToDate || status == pcs.StatusSWHardeningNeeded ||
				c.Env.Lax && (status == pcs.StatusOutOfDate || status == pcs.StatusConfigurationNeeded || status == pcs.StatusOutOfDateConfigurationNeeded)
			if !okStatus {
				v("accepted although the matched platform TCB level has status %d (%s), which is not allowed", int(status), status)
			}
		}
		for _, cert := range append(append([]*x509.Certificate{}, pckCerts...), tcbCerts...) {
			if ts.Before(cert.NotBefore) || ts.After(cert.NotAfter) {
				v("accepted outside the validity of certificate %q", cert.Subject.CommonName)
			}
		}
		if !pckChain || !tcbChain {
			v("accepted although a certificate chain does not verify at the given time")
		}
		for _, x := range []struct {
			ok bool
			n  string
		}{{okQeSig, "the QE report is not signed by the PCK key"}, {okBind, "the QE report data does not bind the attestation key and authentication data"},
			{okQuoteSig, "header||report body is not signed by the attestation key"}, {okTiSig, "the TCB info is not signed by the TCB signing key"},
			{okQiSig, "the QE identity is not signed by the TCB signing key"}} {
			if !x.ok {
				v("accepted although %s", x.n)
			}
		}
		if want := expectedOutput(r); want != nil && !(bytes.Equal(want[0], res.out[0]) && bytes.Equal(want[1], res.out[1]) && bytes.Equal(want[2], res.out[2])) {
			v("verified identity/report data are not the ones in the signed report body")
		}
	}
	return res
}

// expectedOutput recomputes (MRENCLAVE, MRSIGNER, report data) from the located report body.
func expectedOutput(r regions) *[3][]byte {
	if !r.ok {
		return nil
	}
	if r.tee == 0x81 {
		h := tuplehash.New256(32, []byte(pcs.TdEnclaveIdentityContext))
		_, _ = h.Write(r.body[136:184])
		for i := 0; i < 4; i++ {
			_, _ = h.Write(r.body[328+48*i : 376+48*i])
		}
		return &[3][]byte{h.Sum(nil), make([]byte, 32), r.body[520:584]}
	}
	return &[3][]byte{r.body[64:96], r.body[128:160], r.body[320:384]}
}

func stageName(code int) string {
	switch {
	case code == 0:
		return "accept"
	case code < 20:
		return fmt.Sprintf("parse-%02d", code)
	default:
		return fmt.Sprintf("reject-%02d", code)
	}
}

var (
	parsedConst = map[string]string{} // "ti:"+raw / "qi:"+raw -> Coq constant
	origOut     = map[string][3][]byte{}
)

// ---------------------------------------------------------------- vectors

type vector struct {
	name                        string
	quote, ti, tiSig, qi, qiSig string // base names
	certs                       string
	ts                          int64 // seconds
	policy                      PolicyD
	accept                      bool
	synth                       bool
}

func loadSigned(path, field string) (body, sig []byte) {
	raw, err := os.ReadFile(path)
	if err != nil {
		panic(err)
	}
	var m map[string]json.RawMessage
	if err := json.Unmarshal(raw, &m); err != nil {
		panic(err)
	}
	var s string
	_ = json.Unmarshal(m["signature"], &s)
	return []byte(m[field]), []byte(s)
}

func loadVectors(repo string) []vector {
	td := filepath.Join(repo, "go/common/sgx/pcs/testdata")
	rd := func(n string) []byte {
		b, err := os.ReadFile(filepath.Join(td, n))
		if err != nil {
			panic(err)
		}
		return b
	}
	addBase("q_sgx", rd("quote_v3_ecdsa_p256_pck_chain.bin"))
	addBase("q_tdx", rd("quote_v4_tdx_ecdsa_p256.bin"))
	addBase("q_tdx_ood", rd("quote_v4_tdx_ecdsa_p256_out_of_date.bin"))
	addBase("q_eppid", rd("quote_v3_ecdsa_p256_eppid.bin"))
	addBase("certs", rd("tcb_info_v3_fmspc_00606A000000_certs.pem"))
	for _, x := range []struct{ n, f string }{{"ti_sgx", "tcb_info_v3_fmspc_00606A000000.json"}, {"ti_tdx", "tcb_info_v3_tdx_fmspc_C0806F000000.json"}, {"ti_tdx_ood", "tcb_info_v3_tdx_fmspc_50806F000000.json"}} {
		b, s := loadSigned(filepath.Join(td, x.f), "tcbInfo")
		addBase(x.n, b)
		addBase(x.n+"_sig", s)
	}
	for _, x := range []struct{ n, f string }{{"qi_sgx", "qe_identity_v2.json"}, {"qi_tdx_ood", "qe_identity_v2_tdx.json"}, {"qi_tdx", "qe_identity_v2_tdx2.json"}} {
		b, s := loadSigned(filepath.Join(td, x.f), "enclaveIdentity")
		addBase(x.n, b)
		addBase(x.n+"_sig", s)
	}
	tdxPol := PolicyD{Period: 30, MinEval: 12, TDX: true}
	return []vector{
		{"sgx", "q_sgx", "ti_sgx", "ti_sgx_sig", "qi_sgx", "qi_sgx_sig", "certs", 1671497404, PolicyD{Nil: true}, true, false},
		{"tdx", "q_tdx", "ti_tdx", "ti_tdx_sig", "qi_tdx", "qi_tdx_sig", "certs", 1725263032, tdxPol, true, false},
		{"tdx_ood", "q_tdx_ood", "ti_tdx_ood", "ti_tdx_ood_sig", "qi_tdx_ood", "qi_tdx_ood_sig", "certs", 1687091776, tdxPol, false, false},
		{"eppid", "q_eppid", "ti_sgx", "ti_sgx_sig", "qi_sgx", "qi_sgx_sig", "certs", 1671497404, PolicyD{Nil: true}, false, false},
	}
}

func (v vector) kase(fam string) CaseD {
	c := CaseD{Fam: fam, Quote: base(v.quote), TI: base(v.ti), TISig: base(v.tiSig), QI: base(v.qi), QISig: base(v.qiSig),
		Certs: base(v.certs), TsNs: v.ts * 1e9, Policy: v.policy, Synth: v.synth}
	if v.accept {
		c.Orig = v.quote
	}
	return c
}

// ---------------------------------------------------------------- generators

type regionSpan struct {
	name     string
	off, len int
}

func spans(raw []byte) []regionSpan {
	r := locate(raw)
	if !r.ok {
		return []regionSpan{{"all", 0, len(raw)}}
	}
	s := []regionSpan{{"header", 0, 48}, {"body", 48, len(r.body)}, {"siglen", r.offSigLen, 4}, {"sig", r.offSig, 64}, {"attkey", r.offSig + 64, 64}}
	if r.version == 4 {
		s = append(s, regionSpan{"v4certhdr", r.offSig + 128, 6})
	}
	s = append(s, regionSpan{"qe_report", r.offQE, 384}, regionSpan{"qe_sig", r.offQE + 384, 64}, regionSpan{"authsize", r.offQE + 448, 2},
		regionSpan{"auth", r.offAuth, len(r.auth)}, regionSpan{"certhdr", r.offAuth + len(r.auth), 6}, regionSpan{"certdata", r.offCert, len(r.certData)})
	if len(r.slack) > 0 {
		s = append(s, regionSpan{"slack", r.offSlak, len(r.slack)})
	}
	return s
}

func regionOf(sp []regionSpan, off int) string {
	for _, s := range sp {
		if off >= s.off && off < s.off+s.len {
			return s.name
		}
	}
	return "?"
}

// withSlack appends n unread bytes after the certification data and fixes the enclosing length fields.
func withSlack(raw []byte, n int, fill byte) []byte {
	r := locate(raw)
	out := append([]byte{}, raw...)
	out = append(out, bytes.Repeat([]byte{fill}, n)...)
	binary.LittleEndian.PutUint32(out[r.offSigLen:], binary.LittleEndian.Uint32(out[r.offSigLen:])+uint32(n))
	if r.version == 4 {
		binary.LittleEndian.PutUint32(out[r.offSig+130:], binary.LittleEndian.Uint32(out[r.offSig+130:])+uint32(n))
	}
	return out
}

var certPhase int

func genBitflips(v vector, rng *prng.R, all bool, budget int) []CaseD {
	raw := bases[v.quote]
	sp := spans(raw)
	var cs []CaseD
	add := func(bit int) {
		c := v.kase("bitflip")
		off := bit / 8
		c.Quote = patched(v.quote, P(off, 1, []byte{raw[off] ^ (1 << (bit % 8))}))
		c.Note = regionOf(sp, off)
		cs = append(cs, c)
	}
	if all {
		// every bit of every region; in the certification data (PEM text, > 70 % of the quote, where a flipped bit ends
		// in a PEM / X.509 parse error or a failed path validation) every third bit, the phase chosen by the seed, so
		// that seeds s, s+1, s+2 together cover all of it
		for b := 0; b < len(raw)*8; b++ {
			if regionOf(sp, b/8) == "certdata" && (b+certPhase)%3 != 0 {
				continue
			}
			add(b)
		}
		return cs
	}
	// stratified: every bit of the small fields, a per-region quota elsewhere
	total := 0
	for _, s := range sp {
		total += s.len
	}
	for _, s := range sp {
		bits := s.len * 8
		quota := budget * s.len / total
		if quota < 48 {
			quota = 48
		}
		if s.name == "header" || s.name == "body" {
			quota *= 2
		}
		if quota >= bits {
			for b := 0; b < bits; b++ {
				add(s.off*8 + b)
			}
			continue
		}
		seen := map[int]bool{}
		for len(seen) < quota {
			b := rng.Intn(bits)
			if !seen[b] {
				seen[b] = true
				add(s.off*8 + b)
			}
		}
	}
	return cs
}

func genMulti(v vector, rng *prng.R, n int) []CaseD {
	raw := bases[v.quote]
	sp := spans(raw)
	var cs []CaseD
	for i := 0; i < n; i++ {
		c := v.kase("multibyte")
		switch rng.Intn(8) {
		case 0, 1, 2: // overwrite a span
			s := sp[rng.Intn(len(sp))]
			l := rng.Range(2, min(64, max(2, s.len)))
			off := s.off + rng.Intn(max(1, s.len-l+1))
			var ins []byte
			switch rng.Intn(3) {
			case 0:
				ins = rng.Bytes(l)
			case 1:
				ins = make([]byte, l)
			default:
				ins = bytes.Repeat([]byte{0xff}, l)
			}
			c.Quote = patched(v.quote, P(off, l, ins))
			c.Note = "overwrite:" + s.name
		case 3: // copy one region over another (same length)
			a, b := sp[rng.Intn(len(sp))], sp[rng.Intn(len(sp))]
			l := min(a.len, b.len, 64)
			c.Quote = patched(v.quote, P(a.off, l, raw[b.off:b.off+l]))
			c.Note = "copy:" + b.name + ">" + a.name
		case 4: // truncate
			k := rng.Range(1, 700)
			if rng.Chance(50) {
				k = rng.Range(1, 8)
			}
			c.Quote = patched(v.quote, P(len(raw)-k, k, nil))
			c.Note = "truncate"
		case 5: // append trailing bytes without fixing lengths
			c.Quote = patched(v.quote, P(len(raw), 0, rng.Bytes(rng.Range(1, 16))))
			c.Note = "trailing"
		case 6: // unread slack after the certification data, lengths fixed: must verify with the same output
			ns := rng.Range(1, 40)
			w := withSlack(raw, ns, byte(rng.Intn(256)))
			c.Quote = lit(w)
			if rng.Chance(50) { // and flip a slack bit
				w[len(w)-1-rng.Intn(ns)] ^= 1 << rng.Intn(8)
				c.Quote = lit(w)
			}
			c.Note = "slack"
		default: // two independent single-byte changes
			o1, o2 := rng.Intn(len(raw)), rng.Intn(len(raw))
			c.Quote = patched(v.quote, P(o1, 1, []byte{raw[o1] ^ byte(1+rng.Intn(255))}), P(o2, 1, []byte{raw[o2] ^ byte(1+rng.Intn(255))}))
			c.Note = "twobytes:" + regionOf(sp, o1) + "+" + regionOf(sp, o2)
		}
		cs = append(cs, c)
	}
	return cs
}

var jsonFieldEdits = [][2]string{
	{`"version":3`, `"version":2`}, {`"version":2`, `"version":3`}, {`"id":"SGX"`, `"id":"TDX"`}, {`"id":"TDX"`, `"id":"SGX"`},
	{`"id":"QE"`, `"id":"TD_QE"`}, {`"id":"TD_QE"`, `"id":"QE"`},
	{`"issueDate":"20`, `"issueDate":"19`}, {`"issueDate":"20`, `"issueDate":"21`}, {`"issueDate":"`, `"issueDate":"x`},
	{`"nextUpdate":"20`, `"nextUpdate":"21`}, {`"nextUpdate":"`, `"nextUpdate":"x`},
	{`"tcbEvaluationDataNumber":1`, `"tcbEvaluationDataNumber":9`}, {`"tcbEvaluationDataNumber":`, `"tcbEvaluationDataNumber":-`},
	{`"fmspc":"00606A000000"`, `"fmspc":"00606A000001"`}, {`"fmspc":"c0806f000000"`, `"fmspc":"50806f000000"`}, {`"fmspc":"`, `"fmspc":"zz`},
	{`"tcbStatus":"OutOfDate"`, `"tcbStatus":"UpToDate"`}, {`"tcbStatus":"UpToDate"`, `"tcbStatus":"Revoked"`}, {`"tcbStatus":"UpToDate"`, `"tcbStatus":"Bogus"`},
	{`"tcbStatus":"SWHardeningNeeded"`, `"tcbStatus":"OutOfDate"`}, {`"svn":`, `"svn":1`}, {`"pcesvn":`, `"pcesvn":9`}, {`"isvsvn":`, `"isvsvn":1`},
	{`"isvprodid":1`, `"isvprodid":2`}, {`"mrsigner":"`, `"mrsigner":"0`}, {`"miscselectMask":"F`, `"miscselectMask":"0`}, {`"attributes":"1`, `"attributes":"3`},
	{`"tcbLevels":[`, `"tcbLevels":[],"x":[`}, {`{`, `{"id":"TDX",`}, {`}`, `,"version":7}`},
}

func genCollateral(v vector, vs []vector, rng *prng.R, nflips int) []CaseD {
	var cs []CaseD
	ti, qi, certs := bases[v.ti], bases[v.qi], bases[v.certs]
	// textual field edits (the body is signed: every edit must be rejected at the signature)
	for _, e := range jsonFieldEdits {
		for which, body := range [][]byte{ti, qi} {
			i := bytes.Index(body, []byte(e[0]))
			if i < 0 {
				continue
			}
			if j := bytes.LastIndex(body, []byte(e[0])); j != i && rng.Chance(50) {
				i = j
			}
			c := v.kase("json-field")
			p := P(i, len(e[0]), []byte(e[1]))
			if which == 0 {
				c.TI = patched(v.ti, p)
			} else {
				c.QI = patched(v.qi, p)
			}
			c.Note = e[0] + "->" + e[1]
			cs = append(cs, c)
		}
	}
	// bit flips in the bodies, the signatures and the PEM chain
	for i := 0; i < nflips; i++ {
		c := v.kase("collateral-bitflip")
		switch rng.Intn(5) {
		case 0:
			o := rng.Intn(len(ti))
			c.TI = patched(v.ti, P(o, 1, []byte{ti[o] ^ (1 << rng.Intn(8))}))
			c.Note = "tcbinfo"
		case 1:
			o := rng.Intn(len(qi))
			c.QI = patched(v.qi, P(o, 1, []byte{qi[o] ^ (1 << rng.Intn(8))}))
			c.Note = "qeid"
		case 2:
			s := bases[v.tiSig]
			o := rng.Intn(len(s))
			c.TISig = patched(v.tiSig, P(o, 1, []byte{s[o] ^ (1 << rng.Intn(7))}))
			c.Note = "tcbinfo-sig"
		case 3:
			s := bases[v.qiSig]
			o := rng.Intn(len(s))
			c.QISig = patched(v.qiSig, P(o, 1, []byte{s[o] ^ (1 << rng.Intn(7))}))
			c.Note = "qeid-sig"
		default:
			o := rng.Intn(len(certs))
			c.Certs = patched(v.certs, P(o, 1, []byte{certs[o] ^ (1 << rng.Intn(7))}))
			c.Note = "certs"
		}
		cs = append(cs, c)
	}
	// signature string shapes
	sig := bases[v.tiSig]
	for k, s := range [][]byte{bytes.ToUpper(sig), sig[:len(sig)-1], sig[:len(sig)-2], append(append([]byte{}, sig...), '0', '0'), []byte(""), append([]byte("zz"), sig[2:]...), bases[v.qiSig]} {
		c := v.kase("sig-shape")
		c.TISig = lit(s)
		c.Note = fmt.Sprint("tcbinfo-sig-shape-", k)
		cs = append(cs, c)
		c2 := v.kase("sig-shape")
		s2 := s
		if k == 6 {
			s2 = bases[v.tiSig]
		} else if k == 0 {
			s2 = bytes.ToUpper(bases[v.qiSig])
		}
		c2.QISig = lit(s2)
		c2.Note = fmt.Sprint("qeid-sig-shape-", k)
		cs = append(cs, c2)
	}
	// certificate chain shapes
	blocks := splitPEM(certs)
	r := locate(bases[v.quote])
	var pckBlocks [][]byte
	if r.ok {
		pckBlocks = splitPEM(r.certData)
	}
	shapes := map[string][]byte{"empty": {}, "garbage": []byte("not a pem")}
	if len(blocks) == 2 {
		shapes["swapped"] = append(append([]byte{}, blocks[1]...), blocks[0]...)
		shapes["leaf-only"] = blocks[0]
		shapes["root-only"] = blocks[1]
		shapes["root-twice"] = append(append([]byte{}, blocks[1]...), blocks[1]...)
		shapes["three"] = append(append(append([]byte{}, blocks[0]...), blocks[1]...), blocks[1]...)
		shapes["junk-between"] = append(append(append([]byte{}, blocks[0]...), []byte("junk\n")...), blocks[1]...)
		shapes["wrong-type"] = bytes.ReplaceAll(certs, []byte("CERTIFICATE"), []byte("CERTIFICATF"))
		if len(pckBlocks) == 3 {
			shapes["pck-leaf+root"] = append(append([]byte{}, pckBlocks[0]...), pckBlocks[2]...)
			shapes["platformca+root"] = append(append([]byte{}, pckBlocks[1]...), pckBlocks[2]...)
		}
	}
	for _, n := range coqout.SortedKeys(shapes) {
		c := v.kase("certs-shape")
		c.Certs = lit(shapes[n])
		c.Note = n
		cs = append(cs, c)
	}
	// PCK chain inside the quote: reorder / drop / foreign leaf (certification data rewritten with fixed lengths)
	if len(pckBlocks) == 3 {
		alts := map[string][]byte{
			"pck-swapped-1-2":   bytes.Join([][]byte{pckBlocks[1], pckBlocks[0], pckBlocks[2]}, nil),
			"pck-no-root":       bytes.Join([][]byte{pckBlocks[0], pckBlocks[1]}, nil),
			"pck-root-is-inter": bytes.Join([][]byte{pckBlocks[0], pckBlocks[1], pckBlocks[1]}, nil),
			"pck-four":          bytes.Join([][]byte{pckBlocks[0], pckBlocks[1], pckBlocks[2], pckBlocks[2]}, nil),
			"pck-leaf-is-tcb":   bytes.Join([][]byte{blocks[0], pckBlocks[1], pckBlocks[2]}, nil),
			"pck-none":          {},
		}
		for _, n := range coqout.SortedKeys(alts) {
			c := v.kase("pck-shape")
			c.Quote = lit(withCertData(bases[v.quote], alts[n]))
			c.Note = n
			cs = append(cs, c)
		}
	}
	// collateral of the other vectors (validly signed, foreign)
	for _, o := range vs {
		if o.name == v.name || o.ti == v.ti && o.qi == v.qi {
			continue
		}
		for k := 0; k < 3; k++ {
			c := v.kase("foreign-collateral")
			if k != 1 {
				c.TI, c.TISig = base(o.ti), base(o.tiSig)
			}
			if k != 0 {
				c.QI, c.QISig = base(o.qi), base(o.qiSig)
			}
			c.Policy = v.policy.eff()
			c.Policy.Period = 65535 // so that only the platform binding can reject
			c.Policy.TDX = v.policy.TDX
			c.Note = fmt.Sprintf("%s:%d", o.name, k)
			cs = append(cs, c)
		}
	}
	return cs
}

func splitPEM(b []byte) [][]byte {
	var out [][]byte
	end := []byte("-----END CERTIFICATE-----")
	for {
		i := bytes.Index(b, end)
		if i < 0 {
			break
		}
		j := i + len(end)
		for j < len(b) && (b[j] == '\n' || b[j] == '\r') {
			j++
		}
		blk := append([]byte{}, b[:j]...)
		if !bytes.HasSuffix(blk, []byte("\n")) {
			blk = append(blk, '\n')
		}
		out = append(out, blk)
		b = b[j:]
	}
	return out
}

func withCertData(raw, cd []byte) []byte {
	r := locate(raw)
	out := append([]byte{}, raw[:r.offCert]...)
	out = append(out, cd...)
	delta := len(cd) - len(r.certData)
	binary.LittleEndian.PutUint32(out[r.offCert-4:], uint32(len(cd)))
	binary.LittleEndian.PutUint32(out[r.offSigLen:], uint32(int(binary.LittleEndian.Uint32(raw[r.offSigLen:]))+delta))
	if r.version == 4 {
		binary.LittleEndian.PutUint32(out[r.offSig+130:], uint32(int(binary.LittleEndian.Uint32(raw[r.offSig+130:]))+delta))
	}
	return out
}

func genTimes(v vector) []CaseD {
	var cs []CaseD
	tif, qif := parseTCBInfo(bases[v.ti]), parseQEID(bases[v.qi])
	var certs []*x509.Certificate
	if r := locate(bases[v.quote]); r.ok {
		c, _ := parsePEMChain(r.certData)
		certs = append(certs, c...)
	}
	c, _ := parsePEMChain(bases[v.certs])
	certs = append(certs, c...)
	for _, per := range []uint16{30, 0, 1, 29, 31, 90, 65535} {
		type bd struct {
			n string
			t time.Time
		}
		var bs []bd
		for _, x := range []struct {
			n           string
			issue, next *time.Time
		}{{"ti", tif.issue, tif.next}, {"qi", qif.issue, qif.next}} {
			if x.issue != nil {
				bs = append(bs, bd{x.n + "-issue", *x.issue}, bd{x.n + "-issue+period", x.issue.Add(time.Duration(per) * 24 * time.Hour)})
			}
			if x.next != nil {
				bs = append(bs, bd{x.n + "-next", *x.next})
			}
		}
		if per == 65535 || per == 30 {
			for i, ct := range certs {
				bs = append(bs, bd{fmt.Sprintf("cert%d-notBefore", i), ct.NotBefore}, bd{fmt.Sprintf("cert%d-notAfter", i), ct.NotAfter})
			}
		}
		for _, b := range bs {
			for _, d := range []int64{-1000000000, -1, 0, 1, 1000000000} {
				k := v.kase("time")
				k.Policy = v.policy.eff()
				k.Policy.Period = per
				k.TsNs = b.t.UnixNano() + d
				k.Note = fmt.Sprintf("period=%d %s%+dns", per, b.n, d)
				cs = append(cs, k)
			}
		}
	}
	return cs
}

func genPolicies(v vector, rng *prng.R) []CaseD {
	var cs []CaseD
	tif := parseTCBInfo(bases[v.ti])
	add := func(note string, f func(p *PolicyD, c *CaseD)) {
		c := v.kase("policy")
		c.Policy = v.policy.eff()
		f(&c.Policy, &c)
		c.Note = note
		cs = append(cs, c)
	}
	add("nil", func(p *PolicyD, c *CaseD) { *p = PolicyD{Nil: true} })
	add("disabled", func(p *PolicyD, c *CaseD) { p.Disabled = true })
	for _, d := range []int64{-2, -1, 0, 1, 2} {
		add(fmt.Sprintf("min_eval%+d", d), func(p *PolicyD, c *CaseD) { p.MinEval = uint32(int64(tif.eval) + d) })
	}
	add("min_eval=0", func(p *PolicyD, c *CaseD) { p.MinEval = 0 })
	add("min_eval=max", func(p *PolicyD, c *CaseD) { p.MinEval = 1<<32 - 1 })
	other := "00906ED50000"
	for _, l := range [][]string{{tif.fmspc}, {other}, {other, tif.fmspc}, {strings.ToLower(tif.fmspc)}, {strings.ToUpper(tif.fmspc)}, {}, {""}} {
		add("whitelist="+strings.Join(l, ","), func(p *PolicyD, c *CaseD) { p.WL = l })
		add("blacklist="+strings.Join(l, ","), func(p *PolicyD, c *CaseD) { p.BL = l })
	}
	add("white+black", func(p *PolicyD, c *CaseD) { p.WL, p.BL = []string{tif.fmspc}, []string{tif.fmspc} })
	add("tdx=nil", func(p *PolicyD, c *CaseD) { p.TDX, p.Mods = false, nil })
	add("tdx={}", func(p *PolicyD, c *CaseD) { p.TDX, p.Mods = true, nil })
	r := locate(bases[v.quote])
	if r.ok && r.tee == 0x81 {
		seam, signer := hex.EncodeToString(r.body[16:64]), hex.EncodeToString(r.body[64:112])
		wrong := strings.Repeat("01", 48)
		wrong2 := strings.Repeat("02", 48)
		mods := map[string][]ModD{
			"match-any-seam": {{nil, signer}}, "match-seam": {{&seam, signer}}, "wrong-signer": {{nil, wrong}}, "wrong-seam": {{&wrong, signer}},
			"wrong-then-right": {{nil, wrong}, {&seam, signer}}, "seam-right-signer-wrong": {{&seam, wrong}},
			"seam-wrong-signer-wrong": {{&wrong, wrong}}, "right-then-wrong": {{&seam, signer}, {&wrong, wrong}},
			"two-half-matches": {{&wrong, signer}, {&seam, wrong}}, "three-wrong-seams": {{&wrong, signer}, {&wrong2, signer}, {&wrong, wrong}},
			"wrong-wrong-right": {{&wrong, signer}, {nil, wrong}, {&seam, signer}}, "duplicate-right": {{&seam, signer}, {&seam, signer}},
			"signer-only-right-after-pinned-wrong": {{&wrong, signer}, {nil, signer}}, "seam-is-signer-value": {{&signer, signer}},
		}
		for _, n := range coqout.SortedKeys(mods) {
			add("tdx-mods:"+n, func(p *PolicyD, c *CaseD) { p.TDX, p.Mods = true, mods[n] })
		}
	}
	for _, e := range []EnvD{{AllowDebug: true}, {Lax: true}, {AllowDebug: true, Lax: true}} {
		add(fmt.Sprintf("env:%+v", e), func(p *PolicyD, c *CaseD) { c.Env = e })
	}
	// the debug bit of the report body (signed): flipping it must be caught by the signature even in debug mode
	if r.ok {
		off, bit := 48+48, byte(2)
		if r.tee == 0x81 {
			off, bit = 48+120, 1
		}
		add("debug-bit-flipped-in-debug-mode", func(p *PolicyD, c *CaseD) {
			c.Env = EnvD{AllowDebug: true}
			c.Quote = patched(v.quote, P(off, 1, []byte{bases[v.quote][off] ^ bit}))
		})
	}
	_ = rng
	return cs
}

// ---------------------------------------------------------------- main

func headerText() string {
	var sb strings.Builder
	sb.WriteString("From Verif Require Import Lib.Base Pcs.Model Pcs.Node Gen.PcsVectors.\n")
	for _, n := range baseOrder {
		if !strings.HasPrefix(n, "synth_") {
			continue // the Intel vectors are in coq/Gen/PcsVectors.v (bin/gen pcsvectors)
		}
		sb.WriteString(fmt.Sprintf("Definition b_%s : bytes := Eval vm_compute in %s.\n", n, forceWords(bases[n])))
	}
	keys := make([]string, 0, len(parsedConst))
	for k := range parsedConst {
		keys = append(keys, k)
	}
	sort.Slice(keys, func(i, j int) bool { return parsedConst[keys[i]] < parsedConst[keys[j]] })
	for _, k := range keys {
		var body string
		if strings.HasPrefix(k, "ti:") {
			body = parseTCBInfo([]byte(k[3:])).coq
		} else {
			body = parseQEID([]byte(k[3:])).coq
		}
		body = strings.TrimSuffix(strings.TrimPrefix(body, "(Some "), ")")
		sb.WriteString(fmt.Sprintf("Definition %s := Eval vm_compute in %s.\n", parsedConst[k], body))
	}
	return sb.String()
}

func forceWords(b []byte) string {
	if len(b) == 0 {
		return "(@nil N)"
	}
	return coqBytes(b)
}

func registerParsed() {
	for _, n := range baseOrder {
		switch {
		case strings.HasPrefix(n, "ti_") && !strings.HasSuffix(n, "_sig"):
			if parseTCBInfo(bases[n]).ok {
				parsedConst["ti:"+string(bases[n])] = "p_" + n
			}
		case strings.HasPrefix(n, "qi_") && !strings.HasSuffix(n, "_sig"):
			if parseQEID(bases[n]).ok {
				parsedConst["qi:"+string(bases[n])] = "p_" + n
			}
		}
	}
}

func setEnv(e EnvD) {
	if e.AllowDebug {
		pcs.SetAllowDebugEnclaves()
	} else {
		pcs.UnsetAllowDebugEnclaves()
	}
	if e.Lax {
		pcs.SetUnsafeLaxVerify() // one-way: lax phases run last
	}
}

func shrink(c CaseD, what string) CaseD {
	// greedy: drop patches, then shorten inserted bytes, while the same violation is reported
	same := func(x CaseD) bool { setEnv(x.Env); r := evaluate(x); return r.viol != "" && r.viol[:min(30, len(r.viol))] == what[:min(30, len(what))] }
	for _, bl := range []*Blob{&c.Quote, &c.TI, &c.QI, &c.TISig, &c.QISig, &c.Certs} {
		for i := 0; i < len(bl.Patch); i++ {
			save := bl.Patch
			bl.Patch = append(append([]Patch{}, save[:i]...), save[i+1:]...)
			if same(c) {
				i--
			} else {
				bl.Patch = save
			}
		}
	}
	return c
}

func main() {
	seed := flag.Uint64("seed", 1, "seed")
	out := flag.String("out", "", "output directory")
	replay := flag.String("replay", "", "replay a case description (JSON file)")
	bits := flag.Int("bits", 1500, "single-bit mutants per known-good quote (stratified)")
	allBits := flag.Bool("allbits", false, "every single-bit mutant of the known-good quotes")
	multi := flag.Int("multi", 150, "multi-byte mutants per quote")
	collFlips := flag.Int("collflips", 120, "collateral bit flips per vector")
	synthN := flag.Int("synth", 400, "synthetic bundles under the harness trust root")
	mode := flag.String("mode", "pcs", "pcs: QuoteBundle.Verify; node: node.CapabilityTEE.Verify")
	nodeN := flag.Int("cases", 500, "node mode: number of registrations")
	flag.Parse()
	if *out == "" {
		fmt.Fprintln(os.Stderr, "need -out")
		os.Exit(2)
	}
	repo := os.Getenv("VERIF_REPO")
	if repo == "" {
		repo = "/repo"
	}
	vs := loadVectors(repo)
	rng := prng.New(*seed)
	certPhase = int(*seed % 3)
	synthInit()
	registerParsed()

	// reference outputs of the known-good vectors (and a sanity check that they are what the tests say)
	for _, v := range vs {
		setEnv(EnvD{})
		r := evaluate(v.kase("baseline"))
		if v.accept != (r.code == 0) {
			fmt.Fprintf(os.Stderr, "vector %s: expected accept=%v, got code %d %s\n", v.name, v.accept, r.code, r.errStr)
			os.Exit(3)
		}
		if v.accept {
			origOut[v.quote] = r.out
		}
	}

	if *mode == "node" || *replay != "" && isNodeReplay(*replay) {
		nodeMain(vs, *seed, *out, *replay, *nodeN)
		return
	}
	var cases []CaseD
	if *replay != "" {
		b, err := os.ReadFile(*replay)
		if err != nil {
			panic(err)
		}
		var wrap struct {
			Case *CaseD `json:"case"`
		}
		var c CaseD
		if json.Unmarshal(b, &wrap) == nil && wrap.Case != nil {
			c = *wrap.Case
		} else if err := json.Unmarshal(b, &c); err != nil {
			panic(err)
		}
		cases = []CaseD{c}
	} else {
		for _, v := range vs {
			cases = append(cases, v.kase("baseline"))
			if v.accept {
				cases = append(cases, genBitflips(v, rng.Fork(), *allBits, *bits)...)
				cases = append(cases, genMulti(v, rng.Fork(), *multi)...)
				cases = append(cases, genCollateral(v, vs, rng.Fork(), *collFlips)...)
				cases = append(cases, genTimes(v)...)
				cases = append(cases, genPolicies(v, rng.Fork())...)
			} else {
				cases = append(cases, genBitflips(v, rng.Fork(), false, *bits/6)...)
				cases = append(cases, genMulti(v, rng.Fork(), *multi/5)...)
				cases = append(cases, genPolicies(v, rng.Fork())...)
			}
		}
		cases = append(cases, genSynth(rng.Fork(), *synthN)...)
		cases = append(cases, genResign(vs, rng.Fork())...)
	}

	// phases by process-wide switches (lax cannot be unset, so it comes last)
	phase := func(e EnvD) int {
		k := 0
		if e.AllowDebug {
			k = 1
		}
		if e.Lax {
			k += 2
		}
		return k
	}
	results := make([]result, len(cases))
	for ph := 0; ph < 4; ph++ {
		var idx []int
		for i, c := range cases {
			if phase(c.Env) == ph {
				idx = append(idx, i)
			}
		}
		if len(idx) == 0 {
			continue
		}
		setEnv(cases[idx[0]].Env)
		var wg sync.WaitGroup
		ch := make(chan int, len(idx))
		for _, i := range idx {
			ch <- i
		}
		close(ch)
		for w := 0; w < max(1, min(runtime.NumCPU(), 12)); w++ {
			wg.Add(1)
			go func() {
				defer wg.Done()
				for i := range ch {
					results[i] = evaluate(cases[i])
				}
			}()
		}
		wg.Wait()
	}

	// interleave so that every shard gets the same mix of cheap and expensive cases
	// shards of at most shardCases cases (each shard is one coqc process: bounded time and memory), at least 12
	const shardCases = 400
	nShards := max(12, (len(cases)+shardCases-1)/shardCases)
	internMin = max(3, len(cases)/400)
	order := make([]int, 0, len(cases))
	for s := 0; s < nShards; s++ {
		for i := s; i < len(cases); i += nShards {
			order = append(order, i)
		}
	}
	names, defs := map[string]string{}, []string{}
	for i := range results {
		results[i].term = resolveInterned(results[i].term, names, &defs)
	}
	hdr := resolveInterned(headerText(), names, &defs)
	hdr = strings.Replace(hdr, "\n", "\n"+strings.Join(defs, ""), 1) // after the Require line
	wb := coqout.NewWriter(*out, hdr, "run_obs", "obs_eqb", max(50, (len(cases)+nShards-1)/nShards))
	sum := coqout.NewSummary("known-good SGX (v3) and TDX (v4) quotes with their collateral from go/common/sgx/pcs/testdata plus two rejected vectors: stratified single-bit mutants of the raw quote over every region, multi-byte mutants (overwrite/copy/truncate/trailing/unread slack), textual field edits and bit flips of TCB info / QE identity / signatures / PEM chains, reordered and foreign chains, foreign validly-signed collateral, verification times at and around (+-1ns, +-1s) every issueDate / issueDate+period / nextUpdate / certificate notBefore / notAfter for several validity periods, policy settings (nil, disabled, min evaluation number around the bundle's, white/blacklists incl. case variants, TDX nil/{}/module lists), process switches (debug, lax); synthetic bundles signed under a harness trust root with varied TCB levels/statuses/QE identities/dates; non-trivial = the quote parses and verification proceeds past the policy switch; distinct = distinct case descriptions")
	seen := map[string]bool{}
	obsCount := map[string]int{}
	for n, i := range order {
		c := cases[i]
		r := results[i]
		key, _ := json.Marshal(c)
		if r.nontriv && !seen[string(key)] {
			sum.DistinctNontrivial++
		}
		seen[string(key)] = true
		sum.Evaluations++
		sum.Count("family", c.Fam)
		sum.Count("verdict", r.stage)
		sum.Count("family/verdict", c.Fam+"/"+r.stage)
		if c.Fam == "bitflip" {
			sum.Count("bitflip-region/verdict", c.Quote.Base+":"+c.Note+"/"+r.stage)
		}
		for _, o := range r.obs {
			obsCount[o]++
			if obsCount[o] == 1 {
				sum.Extra["observation:"+o] = map[string]any{"first_case": c}
			}
		}
		if n%97 == 0 {
			sum.Sample(map[string]any{"fam": c.Fam, "note": c.Note, "verdict": r.stage}, 6)
		}
		if r.code != 998 {
			wb.Add(r.term, map[string]any{"case": c})
		}
		if r.viol != "" {
			sc := shrink(c, r.viol)
			setEnv(sc.Env)
			rr := evaluate(sc)
			if rr.viol == "" {
				sc, rr = c, r
			}
			sum.Violations = append(sum.Violations, map[string]any{"what": rr.viol, "case": sc, "error": rr.errStr})
		}
	}
	for o, n := range obsCount {
		sum.Extra["observation-count:"+o] = n
	}
	// the most telling violation first: a forged report body accepted under a fresh key on a genuine Intel vector
	sort.SliceStable(sum.Violations, func(i, j int) bool {
		pr := func(v any) int {
			c, _ := v.(map[string]any)["case"].(CaseD)
			switch {
			case strings.Contains(c.Note, "fresh-key") && strings.Contains(c.Note, "forged-body") && !c.Synth:
				return 0
			case strings.Contains(c.Note, "fresh-key"):
				return 1
			}
			return 2
		}
		return pr(sum.Violations[i]) < pr(sum.Violations[j])
	})
	wb.Close()
	sum.Extra["fingerprints"] = map[string]any{"distinct": len(fpSeen), "collisions": 0}
	sum.Write(*out)
	checkFpCollision()
}
