// Command registry drives the REAL registry code of oasis-core for property
// C17 with seeded operation histories and records what it observes as Coq
// correspondence cases for Verif.Registry.Model.
//
// Layer A ("state"): registryState.MutableState.SetNode / RemoveNode /
// SetEntity / SetRuntimeOwner called directly on an in-memory MKVS tree.
// Layer B ("tx"): RegisterEntity / DeregisterEntity / RegisterNode
// transactions through the registry application's ExecuteTx, and epoch
// transitions through its BeginBlock, on a mock application state.
//
// After every operation the public query API is dumped (all nodes,
// NodeBySubKey and NodeByConsensusAddress for every key of the pool,
// GetEntityNodes / Entity / HasEntityNodes / HasEntityRuntimes and the stake
// claims for every entity of the pool).  An oracle written here, independent
// of the Coq model, recomputes the indexes from the primary records and
// checks the authority rules (S).
package main

import (
	"bytes"
	"encoding/json"
	"errors"
	"flag"
	"fmt"
	"io"
	"os"
	"reflect"
	"sort"
	"strings"
	"time"

	beacon "github.com/oasisprotocol/oasis-core/go/beacon/api"
	"github.com/oasisprotocol/oasis-core/go/common"
	"github.com/oasisprotocol/oasis-core/go/common/cbor"
	"github.com/oasisprotocol/oasis-core/go/common/crypto/signature"
	memorySigner "github.com/oasisprotocol/oasis-core/go/common/crypto/signature/signers/memory"
	"github.com/oasisprotocol/oasis-core/go/common/entity"
	"github.com/oasisprotocol/oasis-core/go/common/logging"
	"github.com/oasisprotocol/oasis-core/go/common/node"
	"github.com/oasisprotocol/oasis-core/go/common/quantity"
	"github.com/oasisprotocol/oasis-core/go/common/version"
	abciAPI "github.com/oasisprotocol/oasis-core/go/consensus/cometbft/api"
	beaconState "github.com/oasisprotocol/oasis-core/go/consensus/cometbft/apps/beacon/state"
	consensusState "github.com/oasisprotocol/oasis-core/go/consensus/cometbft/apps/consensus/state"
	registryApp "github.com/oasisprotocol/oasis-core/go/consensus/cometbft/apps/registry"
	registryState "github.com/oasisprotocol/oasis-core/go/consensus/cometbft/apps/registry/state"
	stakingState "github.com/oasisprotocol/oasis-core/go/consensus/cometbft/apps/staking/state"
	tmcrypto "github.com/oasisprotocol/oasis-core/go/consensus/cometbft/crypto"
	"github.com/oasisprotocol/oasis-core/go/consensus/genesis"
	registry "github.com/oasisprotocol/oasis-core/go/registry/api"
	roothashApi "github.com/oasisprotocol/oasis-core/go/consensus/cometbft/apps/roothash/api"
	"github.com/oasisprotocol/oasis-core/go/roothash/api/message"
	scheduler "github.com/oasisprotocol/oasis-core/go/scheduler/api"
	staking "github.com/oasisprotocol/oasis-core/go/staking/api"

	"github.com/spf13/viper"

	cmdFlags "github.com/oasisprotocol/oasis-core/go/oasis-node/cmd/common/flags"

	"verifharness/internal/coqout"
	"verifharness/internal/prng"
)

const (
	poolSize  = 24 // keys 1..24 (0 = the all-zero public key)
	nEnts     = 3  // pool keys 1..3 act as entities
	maxExp    = 5  // registry MaxNodeExpiration
	debond    = 2  // staking DebondingInterval
	findingKX = "C17:setnode-key-exchange-loses-subkey-index"
)

// ---------- case description (what is replayed) ----------
type NodeD struct {
	ID   int    `json:"id"`
	Ent  int    `json:"ent"`
	Cons int    `json:"cons"`
	P2P  int    `json:"p2p"`
	VRF  int    `json:"vrf"`
	TLS  int    `json:"tls"`
	Exp  uint64 `json:"exp"`
	// Roles is the node roles mask (0 in a case description = validator, for old replays);
	// Rts the runtime pool indices the descriptor lists.
	Roles int   `json:"roles,omitempty"`
	Rts   []int `json:"rts,omitempty"`
}

// RtD describes a runtime descriptor: Kind 1 compute / 2 key manager, Gov 1 entity /
// 2 runtime / 3 consensus, WL nil = any node, else the entity whitelist.
type RtD struct {
	ID   int   `json:"id"`
	Ent  int   `json:"ent"`
	Kind int   `json:"kind"`
	Gov  int   `json:"gov"`
	WL   []int `json:"wl,omitempty"`
	HasWL bool `json:"has_wl,omitempty"`
	KM   int   `json:"km,omitempty"` // key manager runtime referred to (0 = none)
	// WLMax[i] is the role -> max-nodes map of whitelist entity WL[i] as (role, max) pairs sorted by role.
	WLMax [][][2]int `json:"wl_max,omitempty"`
	// PR is the per-role policy: role -> (entity, max nodes) pairs sorted by entity; sorted by role.
	PR []PRole `json:"per_role,omitempty"`
	Gen  int      `json:"genesis,omitempty"` // genesis round
	TEE  int      `json:"tee,omitempty"`     // TEE hardware
	Deps [][3]int `json:"deps,omitempty"`    // (version, valid from, TEE constraint byte); nil = one deployment (0, 1, 0)
}

type PRole struct {
	Role int      `json:"role"`
	Ents [][2]int `json:"ents"`
}

func depsOf(d *RtD) [][3]int {
	if d.Deps == nil {
		return [][3]int{{0, 1, 0}}
	}
	return d.Deps
}

func wlMaxOf(d *RtD, i int) [][2]int {
	if i < len(d.WLMax) {
		return d.WLMax[i]
	}
	return nil
}

type Op struct {
	K       string `json:"k"` // lsetent lsetnode lrmnode lsetrt lrmrt regent deregent regnode epoch
	Txs     int    `json:"txs,omitempty"`
	Node    *NodeD `json:"node,omitempty"`
	Signers []int  `json:"signers,omitempty"`
	SigOK   bool   `json:"sig_ok,omitempty"`
	Ent     int    `json:"ent,omitempty"`
	Nodes   []int  `json:"nodes,omitempty"`
	DSigner int    `json:"dsigner,omitempty"`
	Rt      int    `json:"rt,omitempty"`
	Epoch   uint64 `json:"epoch,omitempty"`
	ID      int    `json:"id,omitempty"`
	Caller  int    `json:"caller,omitempty"` // regrt: staking account, 2*k = key k, 2*r+1 = runtime r
	Runtime *RtD   `json:"runtime,omitempty"`
	Moved   string `json:"moved,omitempty"` // generator annotation (histogram only)
}

type Case struct {
	Layer string `json:"layer"` // "state" or "tx"
	Ops   []Op   `json:"ops"`
}

// ---------- key pool ----------
var (
	pool    []signature.Signer // index 1..poolSize
	pubIdx  = map[signature.PublicKey]int{}
	addrIdx = map[string]int{}
)

func initPool() {
	var ss []signature.Signer
	for i := 0; i < poolSize; i++ {
		ss = append(ss, memorySigner.NewTestSigner(fmt.Sprintf("verif C17 pool key %d", i)))
	}
	sort.Slice(ss, func(i, j int) bool {
		a, b := ss[i].Public(), ss[j].Public()
		return bytes.Compare(a[:], b[:]) < 0
	})
	pool = append([]signature.Signer{nil}, ss...)
	var zero signature.PublicKey
	pubIdx[zero] = 0
	addrIdx[string(addrOf(zero))] = 0
	for i := 1; i <= poolSize; i++ {
		pk := pool[i].Public()
		pubIdx[pk] = i
		a := string(addrOf(pk))
		if _, dup := addrIdx[a]; dup {
			panic("consensus addresses of the pool keys collide; the model instantiates addr := identity")
		}
		addrIdx[a] = i
	}
}

func pub(i int) signature.PublicKey {
	if i <= 0 || i > poolSize {
		return signature.PublicKey{}
	}
	return pool[i].Public()
}

func addrOf(pk signature.PublicKey) []byte {
	return []byte(tmcrypto.PublicKeyToCometBFT(&pk).Address())
}

func idx(pk signature.PublicKey) int {
	if i, ok := pubIdx[pk]; ok {
		return i
	}
	return 777777
}

const nRts = 4 // runtime pool 1..4; 3 and 4 carry the key-manager namespace flag; 5 is never registered

func rtID(i int) common.Namespace {
	var flags common.NamespaceFlag
	if i >= 3 {
		flags = common.NamespaceKeyManager
	}
	return common.NewTestNamespaceFromSeed([]byte(fmt.Sprintf("verif C17 runtime %d", i)), flags)
}

func rtIdx(id common.Namespace) int {
	for i := 1; i <= nRts+1; i++ {
		if rtID(i) == id {
			return i
		}
	}
	return 666666
}

func roles(d *NodeD) int {
	if d.Roles == 0 {
		return 8
	}
	if d.Roles < 0 {
		return 0
	}
	return d.Roles
}

func buildRuntime(d *RtD) *registry.Runtime {
	rt := &registry.Runtime{
		Versioned:       cbor.NewVersioned(registry.LatestRuntimeDescriptorVersion),
		ID:              rtID(d.ID),
		EntityID:        pub(d.Ent),
		Kind:            registry.RuntimeKind(d.Kind),
		GovernanceModel: registry.RuntimeGovernanceModel(d.Gov),
		TEEHardware:     node.TEEHardware(d.TEE),
	}
	for _, x := range depsOf(d) {
		vi := &registry.VersionInfo{Version: version.FromU64(uint64(x[0])), ValidFrom: beacon.EpochTime(x[1])}
		if x[2] != 0 {
			vi.TEE = []byte{byte(x[2])}
		}
		rt.Deployments = append(rt.Deployments, vi)
	}
	rt.Genesis.Round = uint64(d.Gen)
	if d.Kind == 1 {
		rt.Executor = registry.ExecutorParameters{GroupSize: 1, RoundTimeout: 20, MaxMessages: 32}
		rt.TxnScheduler = registry.TxnSchedulerParameters{BatchFlushTimeout: time.Second, MaxBatchSize: 1, MaxBatchSizeBytes: 1024, ProposerTimeout: 2 * time.Second}
		rt.Constraints = map[scheduler.CommitteeKind]map[scheduler.Role]registry.SchedulingConstraints{
			scheduler.KindComputeExecutor: {
				scheduler.RoleWorker:       {MinPoolSize: &registry.MinPoolSizeConstraint{Limit: 1}},
				scheduler.RoleBackupWorker: {MinPoolSize: &registry.MinPoolSizeConstraint{Limit: 0}},
			},
		}
	}
	if d.HasWL {
		wl := map[signature.PublicKey]registry.EntityWhitelistConfig{}
		for i, e := range d.WL {
			cfg := registry.EntityWhitelistConfig{}
			for _, rm := range wlMaxOf(d, i) {
				if cfg.MaxNodes == nil {
					cfg.MaxNodes = map[node.RolesMask]uint16{}
				}
				cfg.MaxNodes[node.RolesMask(rm[0])] = uint16(rm[1])
			}
			wl[pub(e)] = cfg
		}
		rt.AdmissionPolicy.EntityWhitelist = &registry.EntityWhitelistRuntimeAdmissionPolicy{Entities: wl}
	}
	if len(d.PR) > 0 {
		rt.AdmissionPolicy.PerRole = map[node.RolesMask]registry.PerRoleAdmissionPolicy{}
		for _, pr := range d.PR {
			ents := map[signature.PublicKey]registry.EntityWhitelistRoleConfig{}
			for _, em := range pr.Ents {
				ents[pub(em[0])] = registry.EntityWhitelistRoleConfig{MaxNodes: uint16(em[1])}
			}
			rt.AdmissionPolicy.PerRole[node.RolesMask(pr.Role)] = registry.PerRoleAdmissionPolicy{
				EntityWhitelist: &registry.EntityWhitelistRoleAdmissionPolicy{Entities: ents}}
		}
	}
	if !d.HasWL && len(d.PR) == 0 {
		rt.AdmissionPolicy = registry.RuntimeAdmissionPolicy{AnyNode: &registry.AnyNodeRuntimeAdmissionPolicy{}}
	}
	if d.KM != 0 {
		km := rtID(d.KM)
		rt.KeyManager = &km
	}
	rt.Genesis.StateRoot.Empty()
	return rt
}

func sortPairs(l [][2]int) {
	sort.Slice(l, func(i, j int) bool { return l[i][0] < l[j][0] })
}

func rtDescOf(rt *registry.Runtime) RtD {
	d := RtD{ID: rtIdx(rt.ID), Ent: idx(rt.EntityID), Kind: int(rt.Kind), Gov: int(rt.GovernanceModel)}
	if rt.KeyManager != nil {
		d.KM = rtIdx(*rt.KeyManager)
	}
	d.Gen, d.TEE = int(rt.Genesis.Round), int(rt.TEEHardware)
	d.Deps = [][3]int{}
	for _, vi := range rt.Deployments {
		t := 0
		if len(vi.TEE) > 0 {
			t = int(vi.TEE[0])
		}
		d.Deps = append(d.Deps, [3]int{int(vi.Version.ToU64()), int(vi.ValidFrom), t})
	}
	if wl := rt.AdmissionPolicy.EntityWhitelist; wl != nil {
		d.HasWL = true
		d.WL = []int{}
		for e := range wl.Entities {
			d.WL = append(d.WL, idx(e))
		}
		sort.Ints(d.WL)
		for _, e := range d.WL {
			mx := [][2]int{}
			for role, m := range wl.Entities[pub(e)].MaxNodes {
				mx = append(mx, [2]int{int(role), int(m)})
			}
			sortPairs(mx)
			d.WLMax = append(d.WLMax, mx)
		}
	}
	for role, pr := range rt.AdmissionPolicy.PerRole {
		x := PRole{Role: int(role), Ents: [][2]int{}}
		if pr.EntityWhitelist != nil {
			for e, c := range pr.EntityWhitelist.Entities {
				x.Ents = append(x.Ents, [2]int{idx(e), int(c.MaxNodes)})
			}
		}
		sortPairs(x.Ents)
		d.PR = append(d.PR, x)
	}
	sort.Slice(d.PR, func(i, j int) bool { return d.PR[i].Role < d.PR[j].Role })
	return d
}

// ---------- the implementation under test ----------
type world struct {
	cfg      *abciAPI.MockApplicationStateConfig
	appState abciAPI.MockApplicationState
	ctx      *abciAPI.Context
	app      *registryApp.Application
	state    *registryState.MutableState
	stake    *stakingState.MutableState
}

func must(err error) {
	if err != nil {
		panic(err)
	}
}

func newWorld() *world {
	w := &world{cfg: &abciAPI.MockApplicationStateConfig{}}
	w.appState = abciAPI.NewMockApplicationState(w.cfg)
	w.ctx = w.appState.NewContext(abciAPI.ContextEndBlock)
	var md abciAPI.NoopMessageDispatcher
	w.app = registryApp.New(w.appState, &md)
	w.state = registryState.NewMutableState(w.ctx.State())
	w.stake = stakingState.NewMutableState(w.ctx.State())
	zero := *quantity.NewFromUint64(0)
	must(w.stake.SetConsensusParameters(w.ctx, &staking.ConsensusParameters{
		DebondingInterval: debond,
		Thresholds: map[staking.ThresholdKind]quantity.Quantity{
			staking.KindEntity: zero, staking.KindNodeValidator: zero, staking.KindNodeCompute: zero,
			staking.KindNodeKeyManager: zero, staking.KindRuntimeCompute: zero,
			staking.KindRuntimeKeyManager: zero, staking.KindKeyManagerChurp: zero,
		},
	}))
	must(w.state.SetConsensusParameters(w.ctx, &registry.ConsensusParameters{
		MaxNodeExpiration: maxExp, DebugAllowTestRuntimes: true, MaxRuntimeDeployments: 3,
		EnableRuntimeGovernanceModels: map[registry.RuntimeGovernanceModel]bool{registry.GovernanceEntity: true, registry.GovernanceRuntime: true},
	}))
	must(beaconState.NewMutableState(w.ctx.State()).SetConsensusParameters(w.ctx, &beacon.ConsensusParameters{Backend: beacon.BackendInsecure}))
	must(consensusState.NewMutableState(w.ctx.State()).SetConsensusParameters(w.ctx, &genesis.Parameters{FeatureVersion: &version.Version{Major: 100}}))
	return w
}

func (w *world) close() { w.ctx.Close() }

// referenceChecks runs the implementation's own sanity checkers on the current
// state (reference oracles, independent of the Coq model and of the oracle of
// this file): (a) the genesis export of the registry application followed by
// registry Genesis.SanityCheck; (b) the stake-claim cross-check of the
// supplementary sanity checker (registry.AddStakeClaims recomputed from all
// registered entities/nodes/runtimes, compared by staking.SanityCheckStake with
// the claims recorded in the staking accounts).
func (w *world) referenceChecks(stats map[string]int) string {
	ctx := w.ctx
	entities, err := w.state.Entities(ctx)
	must(err)
	nodes, err := w.state.Nodes(ctx)
	must(err)
	// Genesis.SanityCheck demands that every exported (validator) node is STILL in
	// its entity's node list, which the transaction path only demands at
	// registration time: an entity may re-register with a shorter list while
	// the node stays registered.  Such end states are legitimately reachable
	// and rejected by the genesis check; they are counted, not reported.
	dropped := false
	for _, n := range nodes {
		for _, e := range entities {
			if e.ID.Equal(n.EntityID) && !e.HasNode(n.ID) && n.HasRoles(node.RoleValidator) {
				dropped = true
			}
		}
	}
	q := registryApp.NewQuery(registryState.NewImmutableState(ctx.State()), beaconState.NewImmutableState(ctx.State()))
	gen, err := q.Genesis(ctx)
	if err != nil {
		return "registry genesis export failed: " + err.Error()
	}
	err = gen.SanityCheck(ctx.Now(), uint64(ctx.LastHeight()), w.cfg.CurrentEpoch, nil, map[staking.Address]*staking.EscrowAccount{})
	switch {
	case err != nil && dropped && strings.Contains(err.Error(), "node public key not found in entity's node list"):
		stats["misc:genesis_sanity_rejects_node_dropped_from_entity_list"]++
	case err != nil:
		return "registry Genesis.SanityCheck rejects the exported state: " + err.Error()
	default:
		stats["misc:genesis_sanity_accepts"]++
	}
	runtimes, err := w.state.AllRuntimes(ctx)
	must(err)
	accounts := map[staking.Address]*staking.Account{}
	addrs, err := w.stake.Addresses(ctx)
	must(err)
	for _, a := range addrs {
		accounts[a], err = w.stake.Account(ctx, a)
		must(err)
	}
	escrows := map[staking.Address]*staking.EscrowAccount{}
	if err = registry.AddStakeClaims(entities, nodes, runtimes, runtimes, escrows); err != nil {
		return "registry.AddStakeClaims failed: " + err.Error()
	}
	params, err := w.stake.ConsensusParameters(ctx)
	must(err)
	if err = staking.SanityCheckStake(accounts, escrows, params.Thresholds, false); err != nil {
		return "stake claims differ from those implied by the registrations (staking.SanityCheckStake): " + err.Error()
	}
	return ""
}

func buildNode(d *NodeD) *node.Node {
	var address node.Address
	must(address.UnmarshalText([]byte("8.8.8.8:1234")))
	n := &node.Node{
		Versioned:  cbor.NewVersioned(node.LatestNodeDescriptorVersion),
		ID:         pub(d.ID),
		EntityID:   pub(d.Ent),
		Expiration: beacon.EpochTime(d.Exp),
		P2P:        node.P2PInfo{ID: pub(d.P2P), Addresses: []node.Address{address}},
		Consensus: node.ConsensusInfo{ID: pub(d.Cons),
			Addresses: []node.ConsensusAddress{{ID: pub(d.Cons), Address: address}}},
		TLS: node.TLSInfo{PubKey: pub(d.TLS)},
		VRF: node.VRFInfo{ID: pub(d.VRF)},
	}
	n.Roles = node.RolesMask(roles(d))
	for _, r := range d.Rts {
		n.Runtimes = append(n.Runtimes, &node.Runtime{ID: rtID(r)})
	}
	return n
}

func descOf(n *node.Node) NodeD {
	return NodeD{ID: idx(n.ID), Ent: idx(n.EntityID), Cons: idx(n.Consensus.ID), P2P: idx(n.P2P.ID),
		VRF: idx(n.VRF.ID), TLS: idx(n.TLS.PubKey), Exp: uint64(n.Expiration), Roles: int(n.Roles), Rts: nodeRts(n)}
}

func nodeRts(n *node.Node) []int {
	var l []int
	for _, r := range n.Runtimes {
		l = append(l, rtIdx(r.ID))
	}
	return l
}

func signersOf(ixs []int) []signature.Signer {
	var out []signature.Signer
	for _, i := range ixs {
		if i >= 1 && i <= poolSize {
			out = append(out, pool[i])
		}
	}
	return out
}

func errCode(err error) string {
	switch {
	case err == nil:
		return "COk"
	case errors.Is(err, registry.ErrInvalidSignature):
		return "CInvalidSignature"
	case errors.Is(err, registry.ErrIncorrectTxSigner):
		return "CIncorrectTxSigner"
	case errors.Is(err, registry.ErrNoSuchEntity):
		return "CNoSuchEntity"
	case errors.Is(err, registry.ErrNodeExpired):
		return "CNodeExpired"
	case errors.Is(err, registry.ErrNodeUpdateNotAllowed):
		return "CNodeUpdateNotAllowed"
	case errors.Is(err, registry.ErrEntityHasNodes):
		return "CEntityHasNodes"
	case errors.Is(err, registry.ErrEntityHasRuntimes):
		return "CEntityHasRuntimes"
	case errors.Is(err, registry.ErrBadEntityForNode):
		return "CBadEntityForNode"
	case errors.Is(err, registry.ErrNodeCannotBeUnfrozen):
		return "CNodeCannotBeUnfrozen"
	case errors.Is(err, registry.ErrNoSuchNode):
		return "CNoSuchNode"
	case errors.Is(err, registry.ErrNoEnclaveForRuntime):
		return "CNoEnclave"
	case errors.Is(err, registry.ErrForbidden):
		return "CForbidden"
	case errors.Is(err, registry.ErrRuntimeUpdateNotAllowed):
		return "CRuntimeUpdateNotAllowed"
	case errors.Is(err, registry.ErrNoSuchRuntime):
		return "CNoSuchRuntime"
	case errors.Is(err, registry.ErrInvalidArgument):
		return "CInvalidArgument"
	}
	if os.Getenv("C17_DEBUG") != "" {
		fmt.Fprintln(os.Stderr, "COther:", err)
	}
	return "COther"
}

// execTx runs one transaction the way the multiplexer does: in a transaction
// child context that is committed only on success.
func (w *world) execTx(signer int, run func(ctx *abciAPI.Context) error) error {
	base := w.appState.NewContext(abciAPI.ContextDeliverTx)
	defer base.Close()
	base.SetTxSigner(pub(signer))
	txCtx := base.NewTransaction()
	defer txCtx.Close()
	if err := run(txCtx); err != nil {
		return err
	}
	txCtx.Commit()
	return nil
}

// apply executes one operation on the real code and returns the result code
// plus, for the oracle, the previous record of the node the operation is about.
func (w *world) apply(o Op) (code string, info string) {
	switch o.K {
	case "lsetent":
		ent := &entity.Entity{Versioned: cbor.NewVersioned(entity.LatestDescriptorVersion), ID: pub(o.Ent)}
		for _, n := range o.Nodes {
			ent.Nodes = append(ent.Nodes, pub(n))
		}
		sig, err := entity.SignEntity(pool[o.Ent], registry.RegisterEntitySignatureContext, ent)
		must(err)
		return errCode(w.state.SetEntity(w.ctx, ent, sig)), ""
	case "lsetnode":
		n := buildNode(o.Node)
		existing, err := w.state.Node(w.ctx, n.ID)
		if err != nil {
			existing = nil
		}
		sig, err := node.MultiSignNode([]signature.Signer{pool[o.Node.ID]}, registry.RegisterNodeSignatureContext, n)
		must(err)
		return errCode(w.state.SetNode(w.ctx, existing, n, sig)), ""
	case "lrmnode":
		n, err := w.state.Node(w.ctx, pub(o.ID))
		if err != nil {
			return "COk", "absent"
		}
		return errCode(w.state.RemoveNode(w.ctx, n)), ""
	case "lsetrt":
		return errCode(w.state.SetRuntimeOwner(w.ctx, rtID(o.Rt), pub(o.Ent))), ""
	case "lrmrt":
		return errCode(w.state.RemoveRuntimeOwner(w.ctx, rtID(o.Rt), pub(o.Ent))), ""
	case "regent":
		ent := &entity.Entity{Versioned: cbor.NewVersioned(entity.LatestDescriptorVersion), ID: pub(o.Ent)}
		for _, n := range o.Nodes {
			ent.Nodes = append(ent.Nodes, pub(n))
		}
		sig, err := entity.SignEntity(pool[o.DSigner], registry.RegisterEntitySignatureContext, ent)
		must(err)
		if !o.SigOK {
			sig.Signature.Signature[5] ^= 0x40
		}
		tx := registry.NewRegisterEntityTx(0, nil, sig)
		return errCode(w.execTx(o.Txs, func(ctx *abciAPI.Context) error { return w.app.ExecuteTx(ctx, tx) })), ""
	case "deregent":
		tx := registry.NewDeregisterEntityTx(0, nil)
		return errCode(w.execTx(o.Txs, func(ctx *abciAPI.Context) error { return w.app.ExecuteTx(ctx, tx) })), ""
	case "regnode":
		n := buildNode(o.Node)
		sig, err := node.MultiSignNode(signersOf(o.Signers), registry.RegisterNodeSignatureContext, n)
		must(err)
		if !o.SigOK && len(sig.Signatures) > 0 {
			sig.Signatures[len(sig.Signatures)-1].Signature[5] ^= 0x40
		}
		tx := registry.NewRegisterNodeTx(0, nil, sig)
		return errCode(w.execTx(o.Txs, func(ctx *abciAPI.Context) error { return w.app.ExecuteTx(ctx, tx) })), ""
	case "regrt":
		rt := buildRuntime(o.Runtime)
		if o.Caller%2 == 0 {
			tx := registry.NewRegisterRuntimeTx(0, nil, rt)
			return errCode(w.execTx(o.Caller/2, func(ctx *abciAPI.Context) error { return w.app.ExecuteTx(ctx, tx) })), ""
		}
		// a runtime message: the caller is the runtime's own account
		base := w.appState.NewContext(abciAPI.ContextDeliverTx)
		defer base.Close()
		txCtx := base.NewTransaction()
		defer txCtx.Close()
		_, err := w.app.ExecuteMessage(txCtx.WithCallerAddress(staking.NewRuntimeAddress(rtID(o.Caller/2))), abciAPI.Message{
			Kind: roothashApi.RuntimeMessageRegistry, Data: &message.RegistryMessage{UpdateRuntime: rt}})
		if err == nil {
			txCtx.Commit()
		}
		return errCode(err), ""
	case "suspendrt":
		return errCode(w.state.SuspendRuntime(w.ctx, rtID(o.Rt))), ""
	case "unfreeze":
		tx := registry.NewUnfreezeNodeTx(0, nil, &registry.UnfreezeNode{NodeID: pub(o.ID)})
		return errCode(w.execTx(o.Txs, func(ctx *abciAPI.Context) error { return w.app.ExecuteTx(ctx, tx) })), ""
	case "freeze":
		// what the slashing / liveness code of other applications does
		st, err := w.state.NodeStatus(w.ctx, pub(o.ID))
		if err != nil {
			return errCode(err), ""
		}
		st.Freeze(beacon.EpochTime(o.Epoch))
		return errCode(w.state.SetNodeStatus(w.ctx, pub(o.ID), st)), ""
	case "epoch":
		w.cfg.CurrentEpoch = beacon.EpochTime(o.Epoch)
		w.cfg.EpochChanged = true
		ctx := w.appState.NewContext(abciAPI.ContextBeginBlock)
		err := w.app.BeginBlock(ctx)
		ctx.Close()
		w.cfg.EpochChanged = false
		return errCode(err), ""
	}
	panic("unknown op " + o.K)
}

// ---------- dump of the public query API ----------
type dump struct {
	Nodes    []NodeD       // ascending id
	Sub      []int         // per key 0..poolSize: 0 or node id + 1
	Addr     []int         // per key 0..poolSize
	EntNodes map[int][]int // per entity: ids, or [999999] on error
	Ents     map[int][]int // per entity: nil if not registered, else its node list
	EntReg   map[int]bool
	HasNodes map[int]bool
	HasRts   map[int]bool
	Claims   map[int][]int // per entity account: flat [code, #thresholds, kinds...], codes ascending
	RtClaims map[int][]int // per runtime account
	Rts      map[int]*RtD  // registered runtimes (active or suspended)
	RtSusp   map[int]bool
	Epoch    uint64
	Status   [][]int // per key with a status record: [key, expiration processed, freeze end, ineligible]
}

// claimsOf renders the claims of an account: entity claim 0, node claims id+1,
// runtime claims 1000+r, each followed by the number of thresholds and their kinds.
func claimsOf(acct *staking.Account) []int {
	type ent struct {
		code  int
		kinds []int
	}
	var l []ent
	for c, ths := range acct.Escrow.StakeAccumulator.Claims {
		code := 555555
		if c == registry.StakeClaimRegisterEntity {
			code = 0
		}
		for i := 1; i <= poolSize; i++ {
			if c == registry.StakeClaimForNode(pub(i)) {
				code = i + 1
			}
		}
		for r := 1; r <= nRts+1; r++ {
			if c == registry.StakeClaimForRuntime(rtID(r)) {
				code = 1000 + r
			}
		}
		var ks []int
		for _, t := range ths {
			if t.Global != nil {
				ks = append(ks, int(*t.Global))
			} else {
				ks = append(ks, 50)
			}
		}
		l = append(l, ent{code, ks})
	}
	sort.Slice(l, func(i, j int) bool { return l[i].code < l[j].code })
	out := []int{}
	for _, e := range l {
		out = append(out, e.code, len(e.kinds))
		out = append(out, e.kinds...)
	}
	return out
}

func (w *world) dump() *dump {
	d := &dump{EntNodes: map[int][]int{}, Ents: map[int][]int{}, EntReg: map[int]bool{}, HasNodes: map[int]bool{}, HasRts: map[int]bool{}, Claims: map[int][]int{},
		RtClaims: map[int][]int{}, Rts: map[int]*RtD{}, RtSusp: map[int]bool{}}
	ctx := w.ctx
	d.Epoch = uint64(w.cfg.CurrentEpoch)
	nodes, err := w.state.Nodes(ctx)
	must(err)
	for _, n := range nodes {
		d.Nodes = append(d.Nodes, descOf(n))
	}
	sort.Slice(d.Nodes, func(i, j int) bool { return d.Nodes[i].ID < d.Nodes[j].ID })
	look := func(n *node.Node, err error) int {
		switch {
		case err == nil:
			return idx(n.ID) + 1
		case errors.Is(err, registry.ErrNoSuchNode):
			return 0
		}
		return 888888
	}
	for k := 0; k <= poolSize; k++ {
		if st, err := w.state.NodeStatus(ctx, pub(k)); err == nil {
			d.Status = append(d.Status, []int{k, b2i(st.ExpirationProcessed), int(st.FreezeEndTime), b2i(st.ElectionEligibleAfter == beacon.EpochInvalid)})
		} else if !errors.Is(err, registry.ErrNoSuchNode) {
			panic(err)
		}
		d.Sub = append(d.Sub, look(w.state.NodeBySubKey(ctx, pub(k))))
		d.Addr = append(d.Addr, look(w.state.NodeByConsensusAddress(ctx, addrOf(pub(k)))))
	}
	for e := 1; e <= nEnts; e++ {
		ns, err := w.state.GetEntityNodes(ctx, pub(e))
		if err != nil {
			d.EntNodes[e] = []int{999999}
		} else {
			ids := []int{}
			for _, n := range ns {
				ids = append(ids, idx(n.ID))
			}
			sort.Ints(ids)
			d.EntNodes[e] = ids
		}
		ent, err := w.state.Entity(ctx, pub(e))
		if err == nil {
			d.EntReg[e] = true
			l := []int{}
			for _, n := range ent.Nodes {
				l = append(l, idx(n))
			}
			d.Ents[e] = l
		} else if !errors.Is(err, registry.ErrNoSuchEntity) {
			panic(err)
		}
		hn, err := w.state.HasEntityNodes(ctx, pub(e))
		must(err)
		d.HasNodes[e] = hn
		hr, err := w.state.HasEntityRuntimes(ctx, pub(e))
		must(err)
		d.HasRts[e] = hr
		acct, err := w.stake.Account(ctx, staking.NewAddress(pub(e)))
		must(err)
		d.Claims[e] = claimsOf(acct)
	}
	for r := 1; r <= nRts; r++ {
		rt, err := w.state.Runtime(ctx, rtID(r))
		if err == nil {
			x := rtDescOf(rt)
			d.Rts[r] = &x
		} else if errors.Is(err, registry.ErrNoSuchRuntime) {
			if rt, err = w.state.SuspendedRuntime(ctx, rtID(r)); err == nil {
				x := rtDescOf(rt)
				d.Rts[r] = &x
				d.RtSusp[r] = true
			}
		} else {
			panic(err)
		}
		acct, err := w.stake.Account(ctx, staking.NewRuntimeAddress(rtID(r)))
		must(err)
		d.RtClaims[r] = claimsOf(acct)
	}
	return d
}

func ints(l []int) string {
	s := make([]string, len(l))
	for i, x := range l {
		s[i] = fmt.Sprint(x)
	}
	return "[" + strings.Join(s, "; ") + "]"
}

func b2i(b bool) int {
	if b {
		return 1
	}
	return 0
}

// coq renders the dump in the row layout of Verif.Registry.Model.observe.
func (d *dump) coq() string {
	var rows []string
	for _, n := range d.Nodes {
		rows = append(rows, ints(append([]int{n.ID, n.Ent, n.Cons, n.P2P, n.VRF, n.TLS, int(n.Exp), n.Roles}, n.Rts...)))
	}
	rows = append(rows, ints(d.Sub), ints(d.Addr))
	for e := 1; e <= nEnts; e++ {
		rows = append(rows, ints(append([]int{e}, d.EntNodes[e]...)))
	}
	for e := 1; e <= nEnts; e++ {
		if d.EntReg[e] {
			rows = append(rows, ints(append([]int{e, 1}, d.Ents[e]...)))
		} else {
			rows = append(rows, ints([]int{e, 0}))
		}
	}
	var hn, hr []int
	for e := 1; e <= nEnts; e++ {
		hn = append(hn, b2i(d.HasNodes[e]))
		hr = append(hr, b2i(d.HasRts[e]))
	}
	rows = append(rows, ints(hn), ints(hr))
	for e := 1; e <= nEnts; e++ {
		rows = append(rows, ints(append([]int{e}, d.Claims[e]...)))
	}
	for r := 1; r <= nRts; r++ {
		rt := d.Rts[r]
		if rt == nil {
			rows = append(rows, ints([]int{r, 0}))
			continue
		}
		st := 1
		if d.RtSusp[r] {
			st = 2
		}
		row := rtRow(r, st, rt)
		rows = append(rows, ints(row))
	}
	for r := 1; r <= nRts; r++ {
		rows = append(rows, ints(append([]int{2000 + r}, d.RtClaims[r]...)))
	}
	var st []int
	for _, x := range d.Status {
		st = append(st, x...)
	}
	rows = append(rows, ints(st))
	return "[" + strings.Join(rows, "; ") + "]"
}

// rtRow renders a runtime record in the layout of Verif.Registry.Model.runtime_row.
func rtRow(r, st int, rt *RtD) []int {
	row := []int{r, st, rt.Ent, rt.Kind, rt.Gov, rt.KM, rt.Gen, rt.TEE}
	for _, x := range depsOf(rt) {
		row = append(row, x[0], x[1], x[2])
	}
	row = append(row, 7777)
	if rt.HasWL {
		row = append(row, 1)
		for i, e := range rt.WL {
			mx := wlMaxOf(rt, i)
			row = append(row, e, len(mx))
			for _, rm := range mx {
				row = append(row, rm[0], rm[1])
			}
		}
	} else {
		row = append(row, 0)
	}
	row = append(row, 7777)
	for _, pr := range rt.PR {
		row = append(row, pr.Role, len(pr.Ents))
		for _, em := range pr.Ents {
			row = append(row, em[0], em[1])
		}
	}
	return row
}

func pairs(l [][2]int) string {
	var x []string
	for _, p := range l {
		x = append(x, fmt.Sprintf("(%d, %d)", p[0], p[1]))
	}
	return "[" + strings.Join(x, "; ") + "]"
}

// coqRt renders a runtime descriptor as a Verif.Registry.Model.runtime term.
func coqRt(d *RtD) string {
	wl := "None"
	if d.HasWL {
		var x []string
		for i, e := range d.WL {
			x = append(x, fmt.Sprintf("(%d, %s)", e, pairs(wlMaxOf(d, i))))
		}
		wl = "(Some [" + strings.Join(x, "; ") + "])"
	}
	km := "None"
	if d.KM != 0 {
		km = fmt.Sprintf("(Some %d)", d.KM)
	}
	var pr []string
	for _, p := range d.PR {
		pr = append(pr, fmt.Sprintf("(%d, %s)", p.Role, pairs(p.Ents)))
	}
	var deps []string
	for _, x := range depsOf(d) {
		deps = append(deps, fmt.Sprintf("mkDep %d %d %d", x[0], x[1], x[2]))
	}
	return fmt.Sprintf("(mkRt %d %d %d %d %s %s [%s] %d %d [%s])", d.ID, d.Ent, d.Kind, d.Gov, wl, km,
		strings.Join(pr, "; "), d.Gen, d.TEE, strings.Join(deps, "; "))
}

func (d *dump) node(id int) *NodeD {
	for i := range d.Nodes {
		if d.Nodes[i].ID == id {
			return &d.Nodes[i]
		}
	}
	return nil
}

func keysOf(n *NodeD) []int { return []int{n.Cons, n.P2P, n.VRF, n.TLS} }

var kindName = []string{"consensus", "P2P", "VRF", "TLS"}

// ---------- the implementation-side oracle (S) ----------
// indexCheck recomputes the secondary indexes from the primary records.
func indexCheck(d *dump, layerTx bool) string {
	owner := map[int]int{}
	for _, n := range d.Nodes {
		for j, k := range keysOf(&n) {
			if o, dup := owner[k]; dup && o != n.ID {
				return fmt.Sprintf("key %d is held by two registered nodes %d and %d", k, o, n.ID)
			}
			owner[k] = n.ID
			if k < len(d.Sub) && d.Sub[k] != n.ID+1 {
				return fmt.Sprintf("node %d not found under its current %s key %d (NodeBySubKey -> %d)", n.ID, kindName[j], k, d.Sub[k]-1)
			}
		}
		if n.Cons < len(d.Addr) && d.Addr[n.Cons] != n.ID+1 {
			return fmt.Sprintf("node %d not found under its consensus address (key %d)", n.ID, n.Cons)
		}
	}
	for k, v := range d.Sub {
		if v != 0 && owner[k] != v-1 {
			return fmt.Sprintf("NodeBySubKey(%d) resolves to node %d which does not hold that key", k, v-1)
		}
	}
	for k, v := range d.Addr {
		if v != 0 {
			if n := d.node(v - 1); n == nil || n.Cons != k {
				return fmt.Sprintf("NodeByConsensusAddress(addr of key %d) resolves to node %d whose consensus key differs", k, v-1)
			}
		}
	}
	for e := 1; e <= nEnts; e++ {
		want := []int{}
		for _, n := range d.Nodes {
			if n.Ent == e {
				want = append(want, n.ID)
			}
		}
		if ints(want) != ints(d.EntNodes[e]) {
			return fmt.Sprintf("GetEntityNodes(%d) = %v but the node records say %v", e, d.EntNodes[e], want)
		}
		if d.HasNodes[e] != (len(want) > 0) {
			return fmt.Sprintf("HasEntityNodes(%d) = %v but the node records say %v", e, d.HasNodes[e], want)
		}
		if layerTx {
			if len(want) > 0 && !d.EntReg[e] {
				return fmt.Sprintf("entity %d is not registered although it owns nodes %v", e, want)
			}
			cl := []int{}
			if d.EntReg[e] {
				cl = append(cl, 0, 1, 0)
			}
			for _, id := range want {
				ks := impliedNodeKinds(d.node(id))
				cl = append(append(cl, id+1, len(ks)), ks...)
			}
			cl = append(cl, impliedRtClaims(d, 2*e)...)
			if ints(cl) != ints(d.Claims[e]) {
				return fmt.Sprintf("stake claims of entity %d are %v but the registrations imply %v ([claim, #thresholds, kinds...])", e, d.Claims[e], cl)
			}
			// runtime-by-entity index
			owns := false
			for r := 1; r <= nRts; r++ {
				owns = owns || (d.Rts[r] != nil && d.Rts[r].Ent == e)
			}
			if d.HasRts[e] != owns {
				return fmt.Sprintf("HasEntityRuntimes(%d) = %v but the runtime records say %v", e, d.HasRts[e], owns)
			}
		}
	}
	if layerTx {
		has := map[int]bool{}
		for _, x := range d.Status {
			has[x[0]] = true
			if d.node(x[0]) == nil {
				return fmt.Sprintf("status record of %d exists although no such node is registered", x[0])
			}
		}
		for _, n := range d.Nodes {
			if !has[n.ID] {
				return fmt.Sprintf("registered node %d has no status record", n.ID)
			}
		}
		for r := 1; r <= nRts; r++ {
			if want := impliedRtClaims(d, 2*r+1); ints(want) != ints(d.RtClaims[r]) {
				return fmt.Sprintf("stake claims of runtime account %d are %v but the registrations imply %v", r, d.RtClaims[r], want)
			}
		}
	}
	if layerTx {
		for _, n := range d.Nodes {
			if n.Ent < 1 || n.Ent > nEnts {
				return fmt.Sprintf("node %d belongs to %d which is not an entity of the pool", n.ID, n.Ent)
			}
		}
	}
	return ""
}

// impliedNodeKinds: threshold kinds a node registration implies (validator 1,
// compute 2, observer 3, key manager 4; per listed runtime: key manager, compute, observer).
func impliedNodeKinds(n *NodeD) []int {
	ks := []int{}
	if n.Roles&8 != 0 {
		ks = append(ks, 1)
	}
	seen := map[int]bool{}
	for _, r := range n.Rts {
		if seen[r] {
			continue
		}
		seen[r] = true
		if n.Roles&4 != 0 {
			ks = append(ks, 4)
		}
		if n.Roles&1 != 0 {
			ks = append(ks, 2)
		}
		if n.Roles&2 != 0 {
			ks = append(ks, 3)
		}
	}
	return ks
}

// impliedRtClaims: runtime claims of a staking account (2*e entity, 2*r+1 runtime).
func impliedRtClaims(d *dump, acct int) []int {
	out := []int{}
	for r := 1; r <= nRts; r++ {
		rt := d.Rts[r]
		if rt == nil {
			continue
		}
		a := -1
		switch rt.Gov {
		case 1:
			a = 2 * rt.Ent
		case 2:
			a = 2*r + 1
		}
		if a == acct {
			out = append(out, 1000+r, 1, 4+rt.Kind)
		}
	}
	return out
}

func contains(l []int, x int) bool {
	for _, y := range l {
		if y == x {
			return true
		}
	}
	return false
}

// authorityCheck: which records changed between two dumps, and was the
// operation entitled to change them.
func authorityCheck(o Op, code string, before, after *dump) string {
	bj, _ := json.Marshal(before)
	aj, _ := json.Marshal(after)
	if code != "COk" {
		if string(bj) != string(aj) {
			return fmt.Sprintf("operation rejected with %s changed the state", code)
		}
		return ""
	}
	ids := map[int]bool{}
	for _, n := range before.Nodes {
		ids[n.ID] = true
	}
	for _, n := range after.Nodes {
		ids[n.ID] = true
	}
	for id := range ids {
		b, a := before.node(id), after.node(id)
		if (b == nil) == (a == nil) && (b == nil || reflect.DeepEqual(*b, *a)) {
			continue
		}
		if a == nil {
			// removal: only an epoch transition, only after expiry + debonding
			if o.K != "epoch" || !(b.Exp+debond < o.Epoch) {
				return fmt.Sprintf("node %d removed by %s", id, o.K)
			}
			continue
		}
		if o.K != "regnode" || o.Node.ID != id {
			return fmt.Sprintf("node record %d changed by operation %s", id, o.K)
		}
		if o.Txs != id {
			return fmt.Sprintf("node record %d changed by a transaction signed by %d", id, o.Txs)
		}
		for _, k := range []int{a.ID, a.Cons, a.P2P, a.VRF, a.TLS} {
			if !contains(o.Signers, k) {
				return fmt.Sprintf("node record %d changed by a descriptor not signed by its key %d (signers %v)", id, k, o.Signers)
			}
		}
		if !o.SigOK {
			return fmt.Sprintf("node record %d changed by a descriptor with an invalid signature", id)
		}
		if !before.EntReg[a.Ent] || !contains(before.Ents[a.Ent], id) {
			return fmt.Sprintf("node record %d accepted although it is not in the node list of entity %d", id, a.Ent)
		}
		if b != nil && (b.Ent != a.Ent || b.Cons != a.Cons) {
			return fmt.Sprintf("node %d changed its entity or consensus key in an update", id)
		}
		for _, r := range a.Rts {
			rt := before.Rts[r]
			if rt == nil {
				return fmt.Sprintf("node %d registered for runtime %d which does not exist", id, r)
			}
			if rt.HasWL && !contains(rt.WL, a.Ent) {
				return fmt.Sprintf("node %d of entity %d admitted to runtime %d whose whitelist is %v", id, a.Ent, r, rt.WL)
			}
			// per-role limits in force at the time of the registration: the entity's
			// non-expired nodes with that role for that runtime, the new one included
			for _, role := range []int{1, 2, 4, 8, 32} {
				if a.Roles&role == 0 {
					continue
				}
				limit := -1 // no limit
				if rt.HasWL {
					for i, e := range rt.WL {
						if e == a.Ent && len(wlMaxOf(rt, i)) > 0 {
							limit = 0 // a role missing from a non-empty map is not admitted
							for _, rm := range wlMaxOf(rt, i) {
								if rm[0] == role {
									limit = rm[1]
								}
							}
						}
					}
				}
				for _, pr := range rt.PR {
					if pr.Role != role {
						continue
					}
					found := false
					for _, em := range pr.Ents {
						if em[0] == a.Ent {
							found = true
							if em[1] > 0 && (limit < 0 || em[1] < limit) {
								limit = em[1]
							}
						}
					}
					if !found {
						return fmt.Sprintf("node %d of entity %d with role %d admitted to runtime %d whose per-role policy does not list the entity", id, a.Ent, role, r)
					}
				}
				if limit >= 0 {
					cnt := 0
					for _, m := range after.Nodes {
						if m.Ent == a.Ent && m.Exp >= before.Epoch && contains(m.Rts, r) && m.Roles&role != 0 {
							cnt++
						}
					}
					if cnt > limit {
						return fmt.Sprintf("entity %d now has %d non-expired nodes with role %d in runtime %d, limit %d", a.Ent, cnt, role, r, limit)
					}
				}
			}
		}
		if b != nil && b.Exp >= before.Epoch {
			for _, r := range b.Rts {
				if !contains(a.Rts, r) {
					return fmt.Sprintf("active node %d dropped runtime %d in an update", id, r)
				}
			}
		}
	}
	stOf := func(d *dump, id int) []int {
		for _, x := range d.Status {
			if x[0] == id {
				return x
			}
		}
		return nil
	}
	for id := 0; id <= poolSize; id++ {
		b, a := stOf(before, id), stOf(after, id)
		if b == nil || a == nil || b[2] == a[2] {
			continue
		}
		// the freeze end of a persisting status record changed
		switch {
		case o.K == "freeze" && o.ID == id && a[2] == int(o.Epoch):
		case o.K == "unfreeze" && o.ID == id && a[2] == 0:
			n := before.node(id)
			if n == nil || o.Txs != n.Ent {
				return fmt.Sprintf("node %d unfrozen by a transaction signed by %d which is not its entity", id, o.Txs)
			}
			if uint64(b[2]) > before.Epoch {
				return fmt.Sprintf("node %d unfrozen at epoch %d before its freeze end %d", id, before.Epoch, b[2])
			}
		default:
			return fmt.Sprintf("freeze end of node %d changed from %d to %d by operation %s", id, b[2], a[2], o.K)
		}
	}
	for r := 1; r <= nRts; r++ {
		b, a := before.Rts[r], after.Rts[r]
		if reflect.DeepEqual(b, a) {
			if before.RtSusp[r] != after.RtSusp[r] {
				switch {
				case o.K == "suspendrt" && o.Rt == r && after.RtSusp[r]:
				case o.K == "regnode" && contains(o.Node.Rts, r) && !after.RtSusp[r]:
				default:
					return fmt.Sprintf("suspension state of runtime %d changed by operation %s", r, o.K)
				}
			}
			continue
		}
		if a == nil {
			return fmt.Sprintf("runtime record %d removed by operation %s", r, o.K)
		}
		if o.K != "regrt" || o.Runtime.ID != r {
			return fmt.Sprintf("runtime record %d changed by operation %s", r, o.K)
		}
		ctl := a // who controls: the previous descriptor if there was one
		if b != nil {
			ctl = b
		}
		want := -1
		switch ctl.Gov {
		case 1:
			want = 2 * ctl.Ent
		case 2:
			want = 2*r + 1
		}
		if o.Caller != want {
			return fmt.Sprintf("runtime record %d changed by caller account %d, controlling account is %d", r, o.Caller, want)
		}
		if b != nil && (b.Kind != a.Kind || (b.Gov != a.Gov && !(b.Gov == 1 && a.Gov == 2))) {
			return fmt.Sprintf("runtime %d changed its kind or made a forbidden governance transition", r)
		}
		{
			// the stored descriptor's deployments are well formed at the time of the registration
			deps := append([][3]int{}, depsOf(a)...)
			sort.SliceStable(deps, func(i, j int) bool { return deps[i][0] < deps[j][0] })
			future := 0
			for i, x := range deps {
				if i > 0 && (deps[i-1][0] == x[0] || deps[i-1][1] >= x[1]) {
					return fmt.Sprintf("runtime %d accepted with deployments %v: versions / validity windows do not increase together", r, deps)
				}
				if uint64(x[1]) > before.Epoch {
					future++
				}
				if x[2] != 0 && a.TEE == 0 {
					return fmt.Sprintf("runtime %d accepted with TEE constraints but no TEE hardware", r)
				}
			}
			if len(deps) == 0 || len(deps) > 3 || future > 1 {
				return fmt.Sprintf("runtime %d accepted with %d deployments, %d of them in the future (epoch %d)", r, len(deps), future, before.Epoch)
			}
		}
		if b != nil && b.Gen != a.Gen {
			return fmt.Sprintf("runtime %d changed its genesis %d -> %d", r, b.Gen, a.Gen)
		}
		if b != nil {
			// deployments that already started must stay exactly as they are; nothing may start retroactively
			started := func(d *RtD) string {
				var l [][3]int
				for _, x := range depsOf(d) {
					if uint64(x[1]) <= before.Epoch {
						l = append(l, x)
					}
				}
				sort.Slice(l, func(i, j int) bool { return l[i][0] < l[j][0] })
				return fmt.Sprint(l)
			}
			act := func(d *RtD) string {
				best := [3]int{-1, -1, -1}
				for _, x := range depsOf(d) {
					if uint64(x[1]) <= before.Epoch && x[1] > best[1] {
						best = x
					}
				}
				return fmt.Sprint(best)
			}
			if act(b) != act(a) {
				return fmt.Sprintf("runtime %d changed its active deployment %s -> %s at epoch %d", r, act(b), act(a), before.Epoch)
			}
			for _, x := range depsOf(a) {
				if uint64(x[1]) <= before.Epoch && !strings.Contains(started(b), fmt.Sprint(x)) {
					return fmt.Sprintf("runtime %d got deployment %v which starts in the past (epoch %d)", r, x, before.Epoch)
				}
			}
		}
		if b == nil {
			for _, x := range depsOf(a) {
				if uint64(x[1]) <= before.Epoch {
					return fmt.Sprintf("new runtime %d deployed immediately: %v at epoch %d", r, x, before.Epoch)
				}
			}
		}
		if b != nil && b.KM != 0 && a.KM != b.KM {
			return fmt.Sprintf("runtime %d changed or dropped its key manager reference %d -> %d", r, b.KM, a.KM)
		}
		if a.KM != 0 && (before.Rts[a.KM] == nil || before.Rts[a.KM].Kind != 2 || a.Kind != 1) {
			return fmt.Sprintf("runtime %d accepted with key manager reference %d which is not a registered key manager runtime", r, a.KM)
		}
		if before.RtSusp[r] != after.RtSusp[r] {
			return fmt.Sprintf("suspension state of runtime %d changed by its re-registration", r)
		}
	}
	for e := 1; e <= nEnts; e++ {
		if before.EntReg[e] == after.EntReg[e] && ints(before.Ents[e]) == ints(after.Ents[e]) {
			continue
		}
		switch {
		case o.K == "regent" && o.Ent == e && o.Txs == e && o.DSigner == e && o.SigOK:
		case o.K == "deregent" && o.Txs == e && !after.EntReg[e]:
			if before.HasNodes[e] || before.HasRts[e] {
				return fmt.Sprintf("entity %d deregistered while it owns nodes or runtimes", e)
			}
		default:
			return fmt.Sprintf("entity record %d changed by operation %s signed by %d", e, o.K, o.Txs)
		}
	}
	return ""
}

// isExchangeLoss recognises exactly the known call pattern: an UPDATE of a
// node whose new key of an earlier kind (order of SetNode: consensus, P2P,
// VRF, TLS) equals its old, changed key of a later kind, and the reported
// failure is that this key no longer resolves to the node.
func isExchangeLoss(what string, old, new *NodeD) bool {
	if old == nil || new == nil || !strings.Contains(what, "not found under its current") {
		return false
	}
	ok, nk := keysOf(old), keysOf(new)
	for i := 0; i < 4; i++ {
		for j := i + 1; j < 4; j++ {
			if nk[i] == ok[j] && ok[j] != nk[j] &&
				strings.Contains(what, fmt.Sprintf("node %d not found under its current %s key %d ", new.ID, kindName[i], nk[i])) {
				return true
			}
		}
	}
	return false
}

// guardOK: the caller contract of SetNode at the state layer (what
// VerifyRegisterNodeArgs/VerifyNodeUpdate establish before the real call).
func guardOK(d *dump, n *NodeD) bool {
	ks := keysOf(n)
	for i := range ks {
		for j := i + 1; j < len(ks); j++ {
			if ks[i] == ks[j] {
				return false
			}
		}
		if v := d.Sub[ks[i]]; v != 0 && v-1 != n.ID {
			return false
		}
	}
	if ex := d.node(n.ID); ex != nil && ex.Ent != n.Ent {
		return false
	}
	return true
}

// ---------- running one case ----------
type runResult struct {
	coqOps   []string
	coqObs   []string
	violated string
	finding  bool
	stats    map[string]int
	nontriv  bool
	panicked bool
}

func coqNode(n *NodeD) string {
	return fmt.Sprintf("(mkNode %d %d %d %d %d %d %d %d %s)", n.ID, n.Ent, n.Cons, n.P2P, n.VRF, n.TLS, n.Exp, roles(n), ints(n.Rts))
}

func coqOp(o Op) string {
	switch o.K {
	case "lsetent":
		return fmt.Sprintf("LSetEntity (mkEnt %d %s)", o.Ent, ints(o.Nodes))
	case "lsetnode":
		return "LSetNode " + coqNode(o.Node)
	case "lrmnode":
		return fmt.Sprintf("LRemoveNode %d", o.ID)
	case "lsetrt":
		return fmt.Sprintf("LSetRtOwner %d %d", o.Ent, o.Rt)
	case "lrmrt":
		return fmt.Sprintf("LRemoveRtOwner %d %d", o.Ent, o.Rt)
	case "regent":
		return fmt.Sprintf("TRegEntity %d (mkEnt %d %s) %d %s", o.Txs, o.Ent, ints(o.Nodes), o.DSigner, coqout.Bool(o.SigOK))
	case "deregent":
		return fmt.Sprintf("TDeregEntity %d", o.Txs)
	case "regnode":
		return fmt.Sprintf("TRegNode %d %s %s %s", o.Txs, coqNode(o.Node), ints(o.Signers), coqout.Bool(o.SigOK))
	case "epoch":
		return fmt.Sprintf("TEpoch %d", o.Epoch)
	case "regrt":
		return fmt.Sprintf("TRegRuntime %d %s", o.Caller, coqRt(o.Runtime))
	case "suspendrt":
		return fmt.Sprintf("LSuspendRt %d", o.Rt)
	case "unfreeze":
		return fmt.Sprintf("TUnfreeze %d %d", o.Txs, o.ID)
	case "freeze":
		return fmt.Sprintf("LFreeze %d %d", o.ID, o.Epoch)
	}
	panic("unknown op")
}

func updateKind(old, new *NodeD) string {
	if old == nil {
		return "new"
	}
	ok, nk := keysOf(old), keysOf(new)
	changed, reused := 0, 0
	for i := range nk {
		if nk[i] != ok[i] {
			changed++
			if contains(ok, nk[i]) {
				reused++
			}
		}
	}
	switch {
	case changed == 0:
		return "renew"
	case reused == 0:
		return fmt.Sprintf("rotate%d", changed)
	default:
		return fmt.Sprintf("exchange%d_of_%d", reused, changed)
	}
}

func runCase(c Case) (res runResult) {
	res = runResult{stats: map[string]int{}}
	defer func() {
		if e := recover(); e != nil {
			res.violated = fmt.Sprintf("implementation panicked: %v", e)
			res.panicked = true
		}
	}()
	w := newWorld()
	defer w.close()
	layerTx := c.Layer == "tx"
	oracleOn := true
	before := w.dump()
	for i, o := range c.Ops {
		var old *NodeD
		if o.Node != nil {
			if p := before.node(o.Node.ID); p != nil {
				cp := *p
				old = &cp
			}
		}
		if o.K == "lsetnode" && !guardOK(before, o.Node) {
			// outside the caller contract: the state layer is still compared
			// with the model, but index consistency cannot be expected
			oracleOn = false
			res.stats["misc:unguarded_setnode"]++
		}
		code, _ := w.apply(o)
		after := w.dump()
		res.stats["op:"+o.K]++
		res.stats["code:"+o.K+"/"+code]++
		if o.Moved != "" {
			res.stats["reregistration:"+o.Moved+"/"+code]++
		}
		if o.K == "deregent" {
			owns := false
			for _, n := range before.Nodes {
				owns = owns || n.Ent == o.Txs
			}
			if owns && before.EntReg[o.Txs] {
				lst := "lists_them"
				if len(before.Ents[o.Txs]) == 0 {
					lst = "empty_list"
				}
				res.stats["misc:deregister_while_owning_nodes_"+lst+"/"+code]++
			}
		}
		if o.K == "regrt" {
			kind := "new"
			if b := before.Rts[o.Runtime.ID]; b != nil {
				kind = "update_same_deployments"
				if fmt.Sprint(depsOf(b)) != fmt.Sprint(depsOf(o.Runtime)) {
					kind = "update_deployments"
				}
				if fmt.Sprint(b.WL, b.WLMax, b.PR) != fmt.Sprint(o.Runtime.WL, o.Runtime.WLMax, o.Runtime.PR) {
					kind += "+policy"
				}
			}
			res.stats["runtime_op:"+kind+"/"+code]++
		}
		if o.K == "regnode" && code == "COk" && len(o.Node.Rts) > 0 {
			limited := false
			for _, r := range o.Node.Rts {
				if rt := before.Rts[r]; rt != nil && (len(rt.PR) > 0 || fmt.Sprint(rt.WLMax) != fmt.Sprint([][][2]int(nil)) && strings.Contains(fmt.Sprint(rt.WLMax), " ")) {
					limited = true
				}
			}
			if limited {
				res.stats["misc:node_admitted_under_per_role_limits"]++
			}
		}
		if (o.K == "regnode" || o.K == "lsetnode") && code == "COk" {
			uk := updateKind(old, o.Node)
			res.stats["node_write:"+uk]++
			if uk != "new" && uk != "renew" {
				res.nontriv = true
			}
		}
		res.coqOps = append(res.coqOps, coqOp(o))
		res.coqObs = append(res.coqObs, fmt.Sprintf("(%s, %s)", code, after.coq()))
		if oracleOn && res.violated == "" {
			what := ""
			if layerTx {
				what = authorityCheck(o, code, before, after)
			}
			if what == "" {
				what = indexCheck(after, layerTx)
			}
			if what != "" {
				res.violated = fmt.Sprintf("op %d (%s): %s", i, o.K, what)
				res.finding = code == "COk" && isExchangeLoss(what+" ", old, o.Node)
				oracleOn = false // later inconsistencies are consequences of this one
			}
		}
		before = after
	}
	if oracleOn && layerTx && res.violated == "" {
		if what := w.referenceChecks(res.stats); what != "" {
			res.violated = fmt.Sprintf("op %d (end of history): %s", len(c.Ops)-1, what)
		}
		res.stats["misc:reference_sanity_checks_run"]++
	}
	if oracleOn {
		res.stats["misc:oracle_on_to_the_end"]++
	}
	return res
}

// ---------- generation ----------
func pick(r *prng.R, l []int) int { return l[r.Intn(len(l))] }

func pick2(r *prng.R, l [][]int) []int { return append([]int{}, l[r.Intn(len(l))]...) }

func rng(lo, hi int) []int {
	var l []int
	for i := lo; i <= hi; i++ {
		l = append(l, i)
	}
	return l
}

type shadow struct {
	epoch uint64
	nodes map[int]*NodeD
	used  map[int]bool
}

func freshKeys(r *prng.R, sh *shadow, n int, avoid []int) []int {
	var out []int
	for tries := 0; len(out) < n && tries < 200; tries++ {
		k := r.Range(nEnts+5, poolSize)
		if r.Chance(8) {
			k = r.Range(1, poolSize)
		}
		if contains(out, k) || contains(avoid, k) {
			continue
		}
		if sh.used[k] && !r.Chance(3) {
			continue
		}
		out = append(out, k)
	}
	for len(out) < n {
		out = append(out, r.Range(1, poolSize))
	}
	return out
}

// mutateKeys produces the new descriptor of an update: renew, rotate, or
// exchange the P2P/VRF/TLS keys among themselves (swap or 3-cycle), sometimes
// an illegal change of consensus key or entity.
func mutateKeys(r *prng.R, sh *shadow, cur NodeD, allowCons bool) NodeD {
	n := cur
	x := r.Intn(100)
	sub := []*int{&n.P2P, &n.VRF, &n.TLS}
	if allowCons {
		sub = []*int{&n.Cons, &n.P2P, &n.VRF, &n.TLS}
	}
	switch {
	case x < 30: // renew
	case x < 58: // rotate one key
		*sub[r.Intn(len(sub))] = freshKeys(r, sh, 1, keysOf(&cur))[0]
	case x < 66: // rotate two
		f := freshKeys(r, sh, 2, keysOf(&cur))
		i := r.Intn(len(sub))
		j := (i + 1 + r.Intn(len(sub)-1)) % len(sub)
		*sub[i], *sub[j] = f[0], f[1]
	case x < 74: // swap two
		i := r.Intn(len(sub))
		j := (i + 1 + r.Intn(len(sub)-1)) % len(sub)
		*sub[i], *sub[j] = *sub[j], *sub[i]
	case x < 78: // 3-cycle
		a, b, c := *sub[len(sub)-3], *sub[len(sub)-2], *sub[len(sub)-1]
		if r.Chance(50) {
			*sub[len(sub)-3], *sub[len(sub)-2], *sub[len(sub)-1] = b, c, a
		} else {
			*sub[len(sub)-3], *sub[len(sub)-2], *sub[len(sub)-1] = c, a, b
		}
	case x < 84: // take over the old key of another kind and rotate that one away
		i := r.Intn(len(sub))
		j := (i + 1 + r.Intn(len(sub)-1)) % len(sub)
		*sub[i] = *sub[j]
		*sub[j] = freshKeys(r, sh, 1, keysOf(&cur))[0]
	case x < 91: // illegal: consensus key changes
		n.Cons = freshKeys(r, sh, 1, keysOf(&cur))[0]
	case x < 96: // illegal: entity changes
		n.Ent = 1 + (cur.Ent % nEnts)
	default: // two kinds share a key
		*sub[0] = *sub[1]
	}
	return n
}

func genTx(r *prng.R) Case {
	c := Case{Layer: "tx"}
	sh := &shadow{nodes: map[int]*NodeD{}, used: map[int]bool{}}
	nodeIDs := rng(nEnts+1, nEnts+4)
	entLists := map[int][]int{}
	regEnt := func(e int) Op {
		var l []int
		for _, id := range nodeIDs {
			if (id-nEnts-1)%nEnts == e-1 && !r.Chance(10) || r.Chance(12) {
				l = append(l, id)
			}
		}
		if r.Chance(4) && len(l) > 0 {
			l = append(l, l[0])
		}
		o := Op{K: "regent", Txs: e, Ent: e, Nodes: l, DSigner: e, SigOK: true}
		switch x := r.Intn(100); {
		case x < 6:
			o.Txs = r.Range(1, poolSize)
		case x < 10:
			o.DSigner = r.Range(1, nEnts+2)
		case x < 13:
			o.SigOK = false
		case x < 15:
			o.Txs = r.Range(1, nEnts)
			o.DSigner = o.Txs
		}
		if o.Txs == e && o.DSigner == e && o.SigOK && !(len(l) > 1 && l[len(l)-1] == l[0]) {
			entLists[e] = l
		}
		return o
	}
	for e := 1; e <= nEnts; e++ {
		if r.Chance(95) {
			c.Ops = append(c.Ops, regEnt(e))
		}
	}
	shRts := map[int]*RtD{}
	acctOf := func(d *RtD) int {
		switch d.Gov {
		case 1:
			return 2 * d.Ent
		case 2:
			return 2*d.ID + 1
		}
		return -1
	}
	randWL := func(d *RtD) {
		d.HasWL, d.WL, d.WLMax, d.PR = false, nil, nil, nil
		if r.Chance(40) {
			d.HasWL = true
			d.WL = []int{}
			for e := 1; e <= nEnts; e++ {
				if r.Chance(70) {
					d.WL = append(d.WL, e)
					mx := [][2]int{}
					if r.Chance(55) { // per-role limits for this entity
						for _, role := range []int{1, 2, 4} {
							if r.Chance(75) {
								mx = append(mx, [2]int{role, pick(r, []int{1, 1, 1, 2, 2, 0})})
							}
						}
						if r.Chance(3) {
							mx = append(mx, [2]int{pick(r, []int{3, 16}), 1}) // not a single role: invalid policy
						}
					}
					d.WLMax = append(d.WLMax, mx)
				}
			}
		}
		if r.Chance(18) {
			for _, role := range []int{1, 4} {
				if r.Chance(60) {
					pr := PRole{Role: role, Ents: [][2]int{}}
					for e := 1; e <= nEnts; e++ {
						if r.Chance(75) {
							pr.Ents = append(pr.Ents, [2]int{e, pick(r, []int{0, 1, 1, 2})})
						}
					}
					d.PR = append(d.PR, pr)
				}
			}
		}
	}
	// deployments of a new runtime: normally one version starting in the future
	newDeps := func(d *RtD) {
		e := int(sh.epoch)
		v := r.Intn(3)
		d.Deps = [][3]int{{v, e + r.Range(1, 3), 0}}
		switch x := r.Intn(160); {
		case x < 8: // immediate deployment
			d.Deps[0][1] = e - r.Intn(2)
			if d.Deps[0][1] < 0 {
				d.Deps[0][1] = 0
			}
		case x < 12: // two future deployments
			d.Deps = append(d.Deps, [3]int{v + 1, d.Deps[0][1] + 1, 0})
		case x < 15: // duplicate version
			d.Deps = append(d.Deps, [3]int{v, d.Deps[0][1] + 1, 0})
		case x < 18: // TEE constraints without TEE hardware
			d.Deps[0][2] = 7
		case x < 21:
			d.TEE = pick(r, []int{1, 2, 3})
		case x < 23:
			d.Deps = [][3]int{}
		}
	}
	// deployments of an update
	updDeps := func(d *RtD, cur *RtD) {
		e := int(sh.epoch)
		d.Deps = append([][3]int{}, depsOf(cur)...)
		maxV, maxF := 0, 0
		for _, x := range d.Deps {
			if x[0] > maxV {
				maxV = x[0]
			}
			if x[1] > maxF {
				maxF = x[1]
			}
		}
		nf := maxF + 1
		if nf <= e {
			nf = e + 1
		}
		switch x := r.Intn(100); {
		case x < 30: // schedule the next version
			d.Deps = append(d.Deps, [3]int{maxV + 1, nf + r.Intn(2), 0})
		case x < 38: // retroactive deployment
			d.Deps = append(d.Deps, [3]int{maxV + 1, max(e-r.Intn(2), 0), 0})
		case x < 46: // move a deployment
			i := r.Intn(len(d.Deps))
			d.Deps[i][1] += pick(r, []int{-1, 1, 2})
			if d.Deps[i][1] < 0 {
				d.Deps[i][1] = 0
			}
		case x < 54: // drop a deployment
			i := r.Intn(len(d.Deps))
			d.Deps = append(d.Deps[:i:i], d.Deps[i+1:]...)
		case x < 58: // lower version later in time
			d.Deps = append(d.Deps, [3]int{maxV + 1, nf, 0}, [3]int{maxV + 2, nf + 1, 0})
		case x < 61:
			d.Deps = append(d.Deps, [3]int{maxV + 1, nf, 0}, [3]int{maxV + 2, nf + 1, 0}, [3]int{maxV + 3, nf + 2, 0})
		case x < 64: // reorder only
			for i, j := 0, len(d.Deps)-1; i < j; i, j = i+1, j-1 {
				d.Deps[i], d.Deps[j] = d.Deps[j], d.Deps[i]
			}
		}
	}
	regRt := func(id int) Op {
		var d RtD
		caller := 0
		cur := shRts[id]
		clean := cur == nil && r.Chance(70) // a well-formed first registration
		if cur == nil {
			d = RtD{ID: id, Ent: r.Range(1, nEnts), Kind: 1, Gov: 1}
			if id >= 3 {
				d.Kind = 2
			}
			if !clean && r.Chance(6) {
				d.Kind = 3 - d.Kind
			}
			switch x := r.Intn(100); {
			case x < 22:
				d.Gov = 2
			case x < 26:
				d.Gov = 3
			case x < 28:
				d.Gov = pick(r, []int{0, 4})
			}
			randWL(&d)
			newDeps(&d)
			d.Gen = r.Intn(3)
			if d.Kind == 1 && r.Chance(25) {
				d.KM = pick(r, []int{3, 3, 3, 4, 4, 4, 4, 3, 1, 5, id})
			}
			if clean {
				if d.Gov != 1 && !(d.Gov == 2 && d.Kind == 1) {
					d.Gov = 1
				}
				d.TEE, d.Deps = 0, [][3]int{{r.Intn(2), int(sh.epoch) + r.Range(1, 2), 0}}
				if d.KM != 0 && (d.KM < 3 || d.KM > 4 || shRts[d.KM] == nil) {
					d.KM = 0
				}
				for i := range d.WLMax {
					var mx [][2]int
					for _, rm := range d.WLMax[i] {
						if rm[0] == 1 || rm[0] == 2 || rm[0] == 4 {
							mx = append(mx, rm)
						}
					}
					d.WLMax[i] = mx
					if mx == nil {
						d.WLMax[i] = [][2]int{}
					}
				}
			}
			caller = acctOf(&d)
		} else {
			d = *cur
			d.WL = append([]int{}, cur.WL...)
			d.Deps = append([][3]int{}, depsOf(cur)...)
			if r.Chance(45) {
				updDeps(&d, cur)
			}
			if r.Chance(5) {
				d.Gen = cur.Gen + 1
			}
			switch x := r.Intn(100); {
			case x < 25:
				d.Ent = 1 + (cur.Ent-1+r.Range(1, nEnts-1))%nEnts
			case x < 37:
				d.Gov = 2
			case x < 45:
				d.Gov = 3 - cur.Gov
			case x < 48:
				d.Kind = 3 - d.Kind
			case x < 52:
				d.Gov = 3
			case x < 72:
				randWL(&d)
			case x < 84:
				d.KM = pick(r, []int{0, 3, 3, 4, 4, 1, 5})
			}
			caller = acctOf(cur)
		}
		switch x := r.Intn(100); {
		case clean:
		case x < 6:
			caller = 2 * r.Range(1, poolSize)
		case x < 10:
			caller = 2*r.Range(1, nRts) + 1
		case x < 14:
			caller = 2 * d.Ent // the NEW owner signs (wrong when the owner changes)
		}
		if caller < 0 {
			caller = 2 * d.Ent
		}
		depsOK := len(depsOf(&d)) >= 1 && len(depsOf(&d)) <= 3 && d.TEE == 0
		for _, x := range depsOf(&d) {
			depsOK = depsOK && x[2] == 0
			if cur == nil {
				depsOK = depsOK && uint64(x[1]) > sh.epoch
			}
		}
		if cur != nil && fmt.Sprint(depsOf(cur)) != fmt.Sprint(depsOf(&d)) {
			depsOK = false // keep the shadow simple: only unchanged deployments are assumed accepted
			if len(depsOf(&d)) == len(depsOf(cur))+1 && fmt.Sprint(depsOf(&d)[:len(depsOf(cur))]) == fmt.Sprint(depsOf(cur)) {
				last := depsOf(&d)[len(depsOf(cur))]
				prev := depsOf(cur)[len(depsOf(cur))-1]
				depsOK = uint64(last[1]) > sh.epoch && uint64(prev[1]) <= sh.epoch && last[0] > prev[0] && last[1] > prev[1] && len(depsOf(&d)) <= 3
			}
		}
		ok := depsOK && (cur == nil || cur.Gen == d.Gen) &&
			(d.Kind == 1 && id < 3 || d.Kind == 2 && id >= 3) && (d.Gov == 1 || d.Gov == 2 && d.Kind == 1) &&
			(d.KM == 0 || d.Kind == 1 && d.KM >= 3 && shRts[d.KM] != nil) && (cur == nil || cur.KM == 0 || cur.KM == d.KM)
		if cur != nil {
			ok = ok && cur.Kind == d.Kind && (cur.Gov == d.Gov || cur.Gov == 1 && d.Gov == 2) && caller == acctOf(cur)
		} else {
			ok = ok && caller == acctOf(&d)
		}
		if ok {
			nd := d
			shRts[id] = &nd
		}
		return Op{K: "regrt", Caller: caller, Runtime: &d}
	}
	for _, id := range []int{3, 4, 1, 2} {
		if r.Chance(88) {
			c.Ops = append(c.Ops, regRt(id))
		}
	}
	// role / runtime profile of a new node descriptor
	profile := func(d *NodeD) {
		switch x := r.Intn(100); {
		case x < 42:
			d.Roles, d.Rts = 8, nil
		case x < 62:
			d.Roles, d.Rts = 1, pick2(r, [][]int{{1}, {2}, {1, 2}, {2, 1}})
		case x < 70:
			d.Roles, d.Rts = 9, pick2(r, [][]int{{1}, {2}, {1, 2}})
		case x < 75:
			d.Roles, d.Rts = 2, []int{r.Range(1, 2)}
		case x < 83:
			d.Roles, d.Rts = 4, []int{r.Range(3, 4)}
		case x < 86:
			d.Roles, d.Rts = 1, []int{3}
		case x < 89:
			d.Roles, d.Rts = 8, []int{1}
		case x < 92:
			d.Roles, d.Rts = pick(r, []int{1, 2, 4, 32}), nil
		case x < 94:
			d.Roles, d.Rts = 1, []int{1, 1}
		case x < 96:
			d.Roles, d.Rts = -1, nil
		case x < 98:
			d.Roles, d.Rts = 5, []int{1, 3}
		default:
			d.Roles, d.Rts = 1, []int{5}
		}
	}
	liveID := func() int {
		var ids []int
		for _, id := range nodeIDs {
			if sh.nodes[id] != nil {
				ids = append(ids, id)
			}
		}
		if len(ids) > 0 && r.Chance(85) {
			return pick(r, ids)
		}
		return pick(r, nodeIDs)
	}
	n := r.Range(12, 44)
	for len(c.Ops) < n {
		x := r.Intn(100)
		switch {
		case x < 10:
			c.Ops = append(c.Ops, regEnt(r.Range(1, nEnts)))
		case x < 13:
			// an entity UPDATE that empties / shrinks / replaces the node list while nodes of the
			// entity are still registered (live, or expired and held), usually followed by its deregistration
			var owners []int
			for _, id := range nodeIDs {
				if nd := sh.nodes[id]; nd != nil && !contains(owners, nd.Ent) {
					owners = append(owners, nd.Ent)
				}
			}
			e := r.Range(1, nEnts)
			if len(owners) > 0 && r.Chance(85) {
				e = pick(r, owners)
			}
			var l []int
			switch y := r.Intn(100); {
			case y < 50: // empty
			case y < 75: // only nodes that are not registered
				for _, id := range nodeIDs {
					if nd := sh.nodes[id]; nd == nil || nd.Ent != e {
						l = append(l, id)
					}
				}
			default: // drop one registered node
				for _, id := range entLists[e] {
					if len(l) > 0 || sh.nodes[id] == nil {
						l = append(l, id)
					}
				}
			}
			c.Ops = append(c.Ops, Op{K: "regent", Txs: e, Ent: e, Nodes: l, DSigner: e, SigOK: true, Moved: "shrink_list"})
			entLists[e] = l
			if r.Chance(70) {
				c.Ops = append(c.Ops, Op{K: "deregent", Txs: e, Moved: "after_shrink"})
			}
		case x < 16:
			t := r.Range(1, nEnts)
			if r.Chance(10) {
				t = r.Range(1, poolSize)
			}
			c.Ops = append(c.Ops, Op{K: "deregent", Txs: t})
			owns := false
			for _, nd := range sh.nodes {
				owns = owns || nd.Ent == t
			}
			if !owns {
				delete(entLists, t)
			}
		case x < 25:
			c.Ops = append(c.Ops, regRt(r.Range(1, nRts)))
			if r.Chance(45) { // a second update of a registered runtime right away
				var regd []int
				for id := range shRts {
					regd = append(regd, id)
				}
				sort.Ints(regd)
				if len(regd) > 0 {
					c.Ops = append(c.Ops, regRt(pick(r, regd)))
				}
			}
		case x < 28:
			c.Ops = append(c.Ops, Op{K: "suspendrt", Rt: r.Range(1, nRts)})
		case x < 31:
			fid := liveID()
			c.Ops = append(c.Ops, Op{K: "freeze", ID: fid, Epoch: sh.epoch + uint64(r.Intn(3))})
			if nd := sh.nodes[fid]; nd != nil && r.Chance(50) {
				c.Ops = append(c.Ops, Op{K: "unfreeze", Txs: nd.Ent, ID: fid})
			}
		case x < 35:
			id := liveID()
			t := 1 + (id-nEnts-1)%nEnts
			if nd := sh.nodes[id]; nd != nil {
				t = nd.Ent
			}
			if r.Chance(20) {
				t = r.Range(1, poolSize)
			}
			c.Ops = append(c.Ops, Op{K: "unfreeze", Txs: t, ID: id})
		case x < 42:
			sh.epoch += uint64(pick(r, []int{1, 1, 1, 2, 2, 3, 4, 6}))
			c.Ops = append(c.Ops, Op{K: "epoch", Epoch: sh.epoch})
			for id, nd := range sh.nodes {
				if nd.Exp+debond < sh.epoch {
					for _, k := range keysOf(nd) {
						delete(sh.used, k)
					}
					delete(sh.nodes, id)
				}
			}
		default:
			id := pick(r, nodeIDs)
			var d NodeD
			moved := ""
			takes := ""
			if cur := sh.nodes[id]; cur != nil {
				d = mutateKeys(r, sh, *cur, false)
				// re-registration of the same node id under a DIFFERENT entity
				// (which lists the node) and/or with a different consensus key:
				// often for a node that is expired but still held during the
				// debonding interval, sometimes for a live node.  VerifyNodeUpdate
				// must reject all of them.
				expired := cur.Exp < sh.epoch
				if (expired && r.Chance(45)) || (!expired && r.Chance(7)) {
					d = *cur
					if r.Chance(30) {
						d = mutateKeys(r, sh, *cur, false)
						d.Ent, d.Cons = cur.Ent, cur.Cons
					}
					mode := r.Intn(3)
					if mode != 1 {
						d.Ent = 1 + (cur.Ent-1+r.Range(1, nEnts-1))%nEnts
						if !contains(entLists[d.Ent], id) && r.Chance(90) {
							l := append(append([]int{}, entLists[d.Ent]...), id)
							c.Ops = append(c.Ops, Op{K: "regent", Txs: d.Ent, Ent: d.Ent, Nodes: l, DSigner: d.Ent, SigOK: true})
							entLists[d.Ent] = l
						}
					}
					if mode != 0 {
						d.Cons = freshKeys(r, sh, 1, keysOf(cur))[0]
					}
					if expired {
						moved = "expired_" + []string{"entity", "cons", "entity+cons"}[mode]
					} else {
						moved = "live_" + []string{"entity", "cons", "entity+cons"}[mode]
					}
				}
			} else {
				ent := 1 + (id-nEnts-1)%nEnts
				if r.Chance(8) {
					ent = r.Range(1, nEnts)
				}
				if entLists[ent] == nil && r.Chance(75) {
					c.Ops = append(c.Ops, regEnt(ent))
				}
				ks := freshKeys(r, sh, 4, nil)
				// sometimes take a key of another node that is still registered: often one
				// that is expired but still held during the debonding interval (must be refused)
				var held, heldExpired []int
				for _, oid := range nodeIDs {
					if nd := sh.nodes[oid]; nd != nil && oid != id {
						if nd.Exp < sh.epoch {
							heldExpired = append(heldExpired, keysOf(nd)...)
						} else {
							held = append(held, keysOf(nd)...)
						}
					}
				}
				if len(heldExpired) > 0 && r.Chance(35) {
					ks[r.Intn(4)] = pick(r, heldExpired)
					takes = "key_of_expired_held_node"
				} else if len(held) > 0 && r.Chance(6) {
					ks[r.Intn(4)] = pick(r, held)
					takes = "key_of_live_node"
				}
				d = NodeD{ID: id, Ent: ent, Cons: ks[0], P2P: ks[1], VRF: ks[2], TLS: ks[3]}
				profile(&d)
			}
			if cur := sh.nodes[id]; cur != nil {
				d.Roles, d.Rts = cur.Roles, append([]int{}, cur.Rts...)
				switch x := r.Intn(100); {
				case x < 6: // one more runtime
					d.Rts = append(d.Rts, r.Range(1, nRts))
				case x < 11: // drop a runtime (not allowed while the node is active)
					if len(d.Rts) > 0 {
						d.Rts = d.Rts[1:]
					}
				case x < 15: // more roles
					d.Roles |= pick(r, []int{1, 2, 8})
				case x < 19: // disjoint roles (downgrade)
					profile(&d)
				}
			}
			d.Exp = sh.epoch + uint64(pick(r, []int{1, 1, 2, 2, 3, 4, 5}))
			if r.Chance(4) {
				d.Exp = sh.epoch
			}
			if r.Chance(3) {
				d.Exp = sh.epoch + maxExp + 1 + uint64(r.Intn(2))
			}
			full := []int{d.ID, d.P2P, d.Cons, d.TLS, d.VRF}
			o := Op{K: "regnode", Txs: d.ID, Node: &d, Signers: full, SigOK: true}
			variant := "full"
			switch y := r.Intn(100); {
			case y < 10: // one signature missing
				i := r.Intn(len(full))
				o.Signers = append(append([]int{}, full[:i]...), full[i+1:]...)
				variant = "missing_" + []string{"node", "p2p", "cons", "tls", "vrf"}[i]
			case y < 15: // one extra
				o.Signers = append(append([]int{}, full...), r.Range(1, poolSize))
				variant = "extra"
			case y < 18: // one replaced by a wrong key
				o.Signers = append([]int{}, full...)
				o.Signers[r.Intn(len(full))] = r.Range(1, poolSize)
				variant = "wrong"
			case y < 21:
				o.SigOK = false
				variant = "badsig"
			case y < 23: // only the entity signs
				o.Signers = []int{d.Ent}
				variant = "entity_only"
			}
			switch y := r.Intn(100); {
			case y < 5:
				o.Txs = d.Ent
				variant += "+tx_by_entity"
			case y < 9:
				o.Txs = r.Range(1, poolSize)
				variant += "+tx_by_random"
			}
			o.Moved = moved
			if takes != "" {
				o.Moved = takes
				variant += "+" + takes
			}
			c.Ops = append(c.Ops, o)
			// optimistic shadow: assume a fully signed, well-formed registration is accepted
			if cur := sh.nodes[id]; cur != nil && (cur.Ent != d.Ent || cur.Cons != d.Cons) {
				variant += "+illegal_update"
			}
			plausible := roles(&d) != 0
			seenRt := map[int]bool{}
			for _, rt := range d.Rts {
				x := shRts[rt]
				if x == nil || seenRt[rt] || (x.Kind == 1 && roles(&d)&3 == 0) || (x.Kind == 2 && roles(&d)&4 == 0) {
					plausible = false
				} else if x.HasWL && !contains(x.WL, d.Ent) {
					plausible = false
				}
				seenRt[rt] = true
			}
			if len(d.Rts) == 0 && roles(&d)&39 != 0 {
				plausible = false
			}
			if variant == "full" && plausible && contains(entLists[d.Ent], d.ID) && d.Exp > sh.epoch && d.Exp <= sh.epoch+maxExp {
				nd := d
				sh.nodes[id] = &nd
				for _, k := range keysOf(&nd) {
					sh.used[k] = true
				}
			}
		}
	}
	return c
}

func genState(r *prng.R) Case {
	c := Case{Layer: "state"}
	sh := &shadow{nodes: map[int]*NodeD{}, used: map[int]bool{}}
	nodeIDs := rng(nEnts+1, nEnts+4)
	n := r.Range(4, 24)
	for len(c.Ops) < n {
		x := r.Intn(100)
		switch {
		case x < 8:
			e := r.Range(1, nEnts)
			c.Ops = append(c.Ops, Op{K: "lsetent", Ent: e, Nodes: []int{pick(r, nodeIDs)}})
		case x < 12:
			k := "lsetrt"
			if r.Chance(50) {
				k = "lrmrt"
			}
			c.Ops = append(c.Ops, Op{K: k, Ent: r.Range(1, nEnts), Rt: r.Range(1, 2)})
		case x < 30:
			id := pick(r, nodeIDs)
			c.Ops = append(c.Ops, Op{K: "lrmnode", ID: id})
			if nd := sh.nodes[id]; nd != nil {
				for _, k := range keysOf(nd) {
					delete(sh.used, k)
				}
				delete(sh.nodes, id)
			}
		default:
			id := pick(r, nodeIDs)
			var d NodeD
			if cur := sh.nodes[id]; cur != nil {
				d = mutateKeys(r, sh, *cur, true)
			} else {
				ks := freshKeys(r, sh, 4, nil)
				d = NodeD{ID: id, Ent: 1 + (id-nEnts-1)%nEnts, Cons: ks[0], P2P: ks[1], VRF: ks[2], TLS: ks[3]}
				if r.Chance(6) {
					d.VRF = 0 // descriptor without a VRF key: the all-zero key is indexed
				}
			}
			d.Exp = uint64(r.Intn(6))
			c.Ops = append(c.Ops, Op{K: "lsetnode", Node: &d})
			if old := sh.nodes[id]; old != nil {
				for _, k := range keysOf(old) {
					delete(sh.used, k)
				}
			}
			nd := d
			sh.nodes[id] = &nd
			for _, k := range keysOf(&nd) {
				sh.used[k] = true
			}
		}
	}
	return c
}

// the patterns of interest written out
func fixedCases() []Case {
	ent := Op{K: "regent", Txs: 1, Ent: 1, Nodes: []int{4}, DSigner: 1, SigOK: true}
	reg := func(p2p, vrf, tls int, exp uint64) Op {
		d := &NodeD{ID: 4, Ent: 1, Cons: 8, P2P: p2p, VRF: vrf, TLS: tls, Exp: exp}
		return Op{K: "regnode", Txs: 4, Node: d, Signers: []int{4, p2p, 8, tls, vrf}, SigOK: true}
	}
	entB := Op{K: "regent", Txs: 2, Ent: 2, Nodes: []int{4}, DSigner: 2, SigOK: true}
	regAs := func(e, cons int, exp uint64) Op {
		d := &NodeD{ID: 4, Ent: e, Cons: cons, P2P: 9, VRF: 10, TLS: 11, Exp: exp}
		return Op{K: "regnode", Txs: 4, Node: d, Signers: []int{4, 9, cons, 11, 10}, SigOK: true}
	}
	moved := func(second Op, at uint64) Case {
		// node 4 of entity 1 expires at 2; at epoch `at` it is re-registered by `second`;
		// later it expires again and is removed; then both entities try to deregister
		return Case{Layer: "tx", Ops: []Op{ent, entB, reg(9, 10, 11, 2), {K: "epoch", Epoch: at}, second,
			{K: "epoch", Epoch: at + 9}, {K: "deregent", Txs: 1}, {K: "deregent", Txs: 2}}}
	}
	rtop := func(caller, id, e, kind, gov int) Op {
		return Op{K: "regrt", Caller: caller, Runtime: &RtD{ID: id, Ent: e, Kind: kind, Gov: gov}}
	}
	cnode := func(rts []int, exp uint64) Op {
		d := &NodeD{ID: 4, Ent: 1, Cons: 8, P2P: 9, VRF: 10, TLS: 11, Exp: exp, Roles: 1, Rts: rts}
		return Op{K: "regnode", Txs: 4, Node: d, Signers: []int{4, 9, 8, 11, 10}, SigOK: true}
	}
	cnodeOf := func(id, k int, rts []int, exp uint64) Op {
		d := &NodeD{ID: id, Ent: 1, Cons: k, P2P: k + 1, VRF: k + 2, TLS: k + 3, Exp: exp, Roles: 1, Rts: rts}
		return Op{K: "regnode", Txs: id, Node: d, Signers: []int{id, k + 1, k, k + 3, k + 2}, SigOK: true}
	}
	return []Case{
		// freezing: the freeze end survives a renewal and a re-registration after expiry; only the
		// node's entity may unfreeze, and only once the freeze end has passed; removal deletes the status
		{Layer: "tx", Ops: []Op{ent, entB, reg(9, 10, 11, 2), {K: "freeze", ID: 4, Epoch: 3}, {K: "unfreeze", Txs: 1, ID: 4},
			reg(9, 10, 11, 3), {K: "epoch", Epoch: 4}, {K: "unfreeze", Txs: 2, ID: 4}, reg(9, 10, 11, 6), {K: "unfreeze", Txs: 4, ID: 4},
			{K: "unfreeze", Txs: 1, ID: 4}, {K: "freeze", ID: 4, Epoch: 20}, {K: "epoch", Epoch: 12}, {K: "unfreeze", Txs: 1, ID: 4}, {K: "freeze", ID: 4, Epoch: 20}}},
		// runtime owner change: the claim and the runtime-by-entity entry move from entity 1 to entity 2
		{Layer: "tx", Ops: []Op{ent, entB, rtop(2, 1, 1, 1, 1), {K: "deregent", Txs: 1}, rtop(4, 1, 2, 1, 1), rtop(2, 1, 2, 1, 1),
			{K: "deregent", Txs: 1}, {K: "deregent", Txs: 2}}},
		// entity -> runtime governance; afterwards only the runtime itself may update; back is forbidden
		{Layer: "tx", Ops: []Op{ent, rtop(2, 1, 1, 1, 1), rtop(2, 1, 1, 1, 2), rtop(2, 1, 1, 1, 2), rtop(3, 1, 2, 1, 2), rtop(3, 1, 2, 1, 1),
			rtop(7, 3, 1, 2, 2), rtop(2, 3, 1, 2, 1), rtop(2, 2, 1, 1, 3)}},
		// the entity empties its node list while its node is registered (live, then expired and held):
		// deregistration must stay refused until the node is removed
		{Layer: "tx", Ops: []Op{ent, reg(9, 10, 11, 2), {K: "regent", Txs: 1, Ent: 1, Nodes: nil, DSigner: 1, SigOK: true}, {K: "deregent", Txs: 1},
			{K: "epoch", Epoch: 4}, {K: "deregent", Txs: 1}, {K: "epoch", Epoch: 5}, {K: "deregent", Txs: 1}}},
		// a key of an expired node that is still held during debonding cannot be taken; after removal it can
		{Layer: "tx", Ops: []Op{ent, {K: "regent", Txs: 2, Ent: 2, Nodes: []int{5}, DSigner: 2, SigOK: true}, reg(9, 10, 11, 2), {K: "epoch", Epoch: 4},
			{K: "regnode", Txs: 5, Node: &NodeD{ID: 5, Ent: 2, Cons: 8, P2P: 17, VRF: 18, TLS: 19, Exp: 6}, Signers: []int{5, 17, 8, 19, 18}, SigOK: true},
			{K: "regnode", Txs: 5, Node: &NodeD{ID: 5, Ent: 2, Cons: 16, P2P: 17, VRF: 10, TLS: 19, Exp: 6}, Signers: []int{5, 17, 16, 19, 10}, SigOK: true},
			{K: "epoch", Epoch: 5},
			{K: "regnode", Txs: 5, Node: &NodeD{ID: 5, Ent: 2, Cons: 8, P2P: 17, VRF: 18, TLS: 19, Exp: 7}, Signers: []int{5, 17, 8, 19, 18}, SigOK: true}}},
		// per-role limit of the entity whitelist: one compute node of entity 1 in runtime 1; an expired node
		// frees its slot; the limit is not re-checked when the runtime later lowers it
		{Layer: "tx", Ops: []Op{{K: "regent", Txs: 1, Ent: 1, Nodes: []int{4, 7}, DSigner: 1, SigOK: true},
			{K: "regrt", Caller: 2, Runtime: &RtD{ID: 1, Ent: 1, Kind: 1, Gov: 1, HasWL: true, WL: []int{1}, WLMax: [][][2]int{{{1, 1}}}}},
			cnodeOf(4, 8, []int{1}, 2), cnodeOf(7, 12, []int{1}, 4), {K: "epoch", Epoch: 3}, cnodeOf(7, 12, []int{1}, 6), cnodeOf(4, 8, []int{1}, 6),
			{K: "regrt", Caller: 2, Runtime: &RtD{ID: 1, Ent: 1, Kind: 1, Gov: 1, HasWL: true, WL: []int{1}, WLMax: [][][2]int{{{1, 2}}}}},
			cnodeOf(4, 8, []int{1}, 7),
			{K: "regrt", Caller: 2, Runtime: &RtD{ID: 1, Ent: 1, Kind: 1, Gov: 1, HasWL: true, WL: []int{1}, WLMax: [][][2]int{{{1, 1}}}}},
			cnodeOf(7, 12, []int{1}, 8), {K: "epoch", Epoch: 7}, cnodeOf(7, 12, []int{1}, 9)}},
		// per-role policy: entity 1 may have one compute node, entity 2 is not listed, observers are not limited
		{Layer: "tx", Ops: []Op{{K: "regent", Txs: 1, Ent: 1, Nodes: []int{4, 7}, DSigner: 1, SigOK: true}, {K: "regent", Txs: 2, Ent: 2, Nodes: []int{5}, DSigner: 2, SigOK: true},
			{K: "regrt", Caller: 2, Runtime: &RtD{ID: 2, Ent: 1, Kind: 1, Gov: 1, PR: []PRole{{Role: 1, Ents: [][2]int{{1, 1}, {3, 0}}}}}},
			cnodeOf(4, 8, []int{2}, 3), cnodeOf(7, 12, []int{2}, 3),
			{K: "regnode", Txs: 5, Node: &NodeD{ID: 5, Ent: 2, Cons: 16, P2P: 17, VRF: 18, TLS: 19, Exp: 3, Roles: 1, Rts: []int{2}}, Signers: []int{5, 17, 16, 19, 18}, SigOK: true},
			{K: "regnode", Txs: 5, Node: &NodeD{ID: 5, Ent: 2, Cons: 16, P2P: 17, VRF: 18, TLS: 19, Exp: 3, Roles: 2, Rts: []int{2}}, Signers: []int{5, 17, 16, 19, 18}, SigOK: true}}},
		// deployments: scheduling, altering a future deployment, and everything that is refused
		{Layer: "tx", Ops: []Op{ent,
			{K: "regrt", Caller: 2, Runtime: &RtD{ID: 1, Ent: 1, Kind: 1, Gov: 1, Deps: [][3]int{{0, 0, 0}}}},
			{K: "regrt", Caller: 2, Runtime: &RtD{ID: 1, Ent: 1, Kind: 1, Gov: 1, Deps: [][3]int{{0, 2, 0}}}},
			{K: "epoch", Epoch: 3},
			{K: "regrt", Caller: 2, Runtime: &RtD{ID: 1, Ent: 1, Kind: 1, Gov: 1, Deps: [][3]int{{0, 2, 0}, {1, 5, 0}}}},
			{K: "regrt", Caller: 2, Runtime: &RtD{ID: 1, Ent: 1, Kind: 1, Gov: 1, Deps: [][3]int{{0, 1, 0}, {1, 5, 0}}}},
			{K: "regrt", Caller: 2, Runtime: &RtD{ID: 1, Ent: 1, Kind: 1, Gov: 1, Deps: [][3]int{{1, 5, 0}}}},
			{K: "regrt", Caller: 2, Runtime: &RtD{ID: 1, Ent: 1, Kind: 1, Gov: 1, Deps: [][3]int{{0, 2, 0}, {1, 3, 0}}}},
			{K: "regrt", Caller: 2, Runtime: &RtD{ID: 1, Ent: 1, Kind: 1, Gov: 1, Deps: [][3]int{{0, 2, 0}, {1, 6, 0}}}},
			{K: "regrt", Caller: 2, Runtime: &RtD{ID: 1, Ent: 1, Kind: 1, Gov: 1, Deps: [][3]int{{0, 2, 0}, {1, 6, 0}, {2, 7, 0}}}},
			{K: "regrt", Caller: 2, Runtime: &RtD{ID: 1, Ent: 1, Kind: 1, Gov: 1, Gen: 1, Deps: [][3]int{{0, 2, 0}, {1, 6, 0}}}},
			{K: "epoch", Epoch: 7},
			{K: "regrt", Caller: 2, Runtime: &RtD{ID: 1, Ent: 1, Kind: 1, Gov: 1, Deps: [][3]int{{1, 6, 0}}}},
			{K: "regrt", Caller: 2, Runtime: &RtD{ID: 1, Ent: 1, Kind: 1, Gov: 1, Deps: [][3]int{{1, 6, 0}, {0, 8, 0}}}},
			{K: "regrt", Caller: 2, Runtime: &RtD{ID: 1, Ent: 1, Kind: 1, Gov: 1, TEE: 1, Deps: [][3]int{{1, 6, 0}}}},
			{K: "regrt", Caller: 2, Runtime: &RtD{ID: 1, Ent: 1, Kind: 1, Gov: 1, Deps: [][3]int{{1, 6, 0}, {2, 8, 0}, {3, 9, 0}}}},
			{K: "regrt", Caller: 2, Runtime: &RtD{ID: 1, Ent: 1, Kind: 1, Gov: 1, Deps: [][3]int{{1, 6, 0}, {2, 8, 5}}}},
			{K: "regrt", Caller: 2, Runtime: &RtD{ID: 1, Ent: 1, Kind: 1, Gov: 1, Deps: [][3]int{{1, 6, 0}, {2, 8, 0}}}},
			{K: "epoch", Epoch: 9},
			// the active deployment (version 2) cannot be dropped in favour of the older one
			{K: "regrt", Caller: 2, Runtime: &RtD{ID: 1, Ent: 1, Kind: 1, Gov: 1, Deps: [][3]int{{1, 6, 0}}}},
			{K: "regrt", Caller: 2, Runtime: &RtD{ID: 1, Ent: 1, Kind: 1, Gov: 1, Deps: [][3]int{{2, 8, 0}}}}}},
		// key manager references: must name a registered key manager runtime; once set, neither removed nor changed
		{Layer: "tx", Ops: []Op{ent, {K: "regrt", Caller: 2, Runtime: &RtD{ID: 1, Ent: 1, Kind: 1, Gov: 1, KM: 3}}, rtop(2, 3, 1, 2, 1),
			{K: "regrt", Caller: 2, Runtime: &RtD{ID: 1, Ent: 1, Kind: 1, Gov: 1, KM: 3}}, rtop(2, 1, 1, 1, 1),
			{K: "regrt", Caller: 2, Runtime: &RtD{ID: 1, Ent: 1, Kind: 1, Gov: 1, KM: 2}}, {K: "regrt", Caller: 2, Runtime: &RtD{ID: 1, Ent: 1, Kind: 1, Gov: 1, KM: 1}},
			rtop(2, 2, 1, 1, 1), {K: "regrt", Caller: 2, Runtime: &RtD{ID: 2, Ent: 1, Kind: 1, Gov: 1, KM: 3}}, {K: "regrt", Caller: 2, Runtime: &RtD{ID: 3, Ent: 1, Kind: 2, Gov: 1, KM: 3}},
			rtop(2, 4, 1, 2, 1), {K: "regrt", Caller: 2, Runtime: &RtD{ID: 1, Ent: 1, Kind: 1, Gov: 1, KM: 4}}, {K: "regrt", Caller: 2, Runtime: &RtD{ID: 2, Ent: 1, Kind: 1, Gov: 1, KM: 4}}}},
		// unfreezing exactly one epoch before / at the freeze end
		{Layer: "tx", Ops: []Op{ent, reg(9, 10, 11, 4), {K: "epoch", Epoch: 2}, {K: "freeze", ID: 4, Epoch: 3}, {K: "unfreeze", Txs: 1, ID: 4},
			{K: "epoch", Epoch: 3}, {K: "unfreeze", Txs: 1, ID: 4}}},
		// suspension; a compute node registering for the runtime resumes it; dropping a runtime while active is refused
		{Layer: "tx", Ops: []Op{ent, rtop(2, 1, 1, 1, 1), rtop(2, 2, 1, 1, 1), {K: "suspendrt", Rt: 1}, rtop(2, 1, 1, 1, 1), cnode([]int{1, 2}, 3),
			cnode([]int{2}, 4), {K: "epoch", Epoch: 4}, cnode([]int{2}, 6), {K: "epoch", Epoch: 12}}},
		moved(regAs(2, 8, 7), 3),  // expired, within debonding: other entity
		moved(regAs(1, 12, 7), 3), // expired, within debonding: other consensus key
		moved(regAs(2, 12, 7), 4), // both
		moved(regAs(2, 8, 5), 1),  // live node: other entity
		moved(regAs(2, 8, 9), 5),  // removed after debonding: a fresh registration under the other entity is fine
		// rotation of every key to fresh ones, then expiry, removal, re-registration
		{Layer: "tx", Ops: []Op{ent, reg(9, 10, 11, 2), reg(12, 13, 14, 3), {K: "epoch", Epoch: 4}, {K: "epoch", Epoch: 6}, reg(9, 10, 11, 8), {K: "deregent", Txs: 1}}},
		// update that exchanges the P2P and TLS keys
		{Layer: "tx", Ops: []Op{ent, reg(9, 10, 11, 2), reg(11, 10, 9, 2)}},
		// the same at the state layer
		{Layer: "state", Ops: []Op{
			{K: "lsetnode", Node: &NodeD{ID: 4, Ent: 1, Cons: 8, P2P: 9, VRF: 10, TLS: 11, Exp: 2}},
			{K: "lsetnode", Node: &NodeD{ID: 4, Ent: 1, Cons: 8, P2P: 11, VRF: 10, TLS: 9, Exp: 2}}}},
	}
}

// shrink greedily drops operations while the oracle still reports a failure
// of the same class (finding vs other).
func shrink(c Case, res runResult) Case {
	for changed := true; changed; {
		changed = false
		for i := 0; i < len(c.Ops); i++ {
			ops := append(append([]Op{}, c.Ops[:i]...), c.Ops[i+1:]...)
			cand := Case{Layer: c.Layer, Ops: ops}
			r := runCase(cand)
			if r.violated != "" && r.finding == res.finding && r.panicked == res.panicked {
				c = cand
				changed = true
				i--
			}
		}
	}
	return c
}

func main() {
	seed := flag.Uint64("seed", 1, "seed")
	n := flag.Int("cases", 200, "number of generated cases")
	out := flag.String("out", "", "output directory")
	replay := flag.String("replay", "", "replay a case description (JSON file)")
	flag.Parse()
	if *out == "" {
		fmt.Fprintln(os.Stderr, "need -out")
		os.Exit(2)
	}
	_ = logging.Initialize(io.Discard, logging.FmtLogfmt, logging.LevelError, nil)
	viper.Set(cmdFlags.CfgDebugDontBlameOasis, true) // the registry parameters carry debug flags (test runtimes, immediate deployment)
	initPool()
	hdr := "From Verif Require Import Lib.Base Registry.Model Gen.RegistryConsts.\n"
	wb := coqout.NewWriter(*out, hdr, "run_case_b setnode_removals_first", "list_eqb obs_eqb", 16)
	sum := coqout.NewSummary("seeded histories over a pool of 24 keys (1-3 entities, 4-7 node ids, sub-keys mostly 8-24): layer tx = RegisterEntity/DeregisterEntity/RegisterNode/RegisterRuntime transactions through ExecuteTx (runtimes 1-3, entity or runtime governance, callers right/wrong incl. runtime messages through ExecuteMessage, owner and governance changes, entity whitelists, suspension by the environment and resumption by node registration; node descriptors with roles validator/compute/observer/key manager and runtime lists) (transaction signer right/wrong, descriptor signatures full/one missing/one extra/one wrong/invalid) and epoch transitions through BeginBlock; layer state = SetNode/RemoveNode/SetEntity/SetRuntimeOwner called directly; node updates renew, rotate, swap, 3-cycle or take over P2P/VRF/TLS (state layer: also consensus) keys; non-trivial = the history contains an accepted node update that changed at least one sub-key; distinct = distinct operation lists")
	var cases []Case
	if *replay != "" {
		b, err := os.ReadFile(*replay)
		must(err)
		var c Case
		var wrap struct {
			Case *Case `json:"case"`
		}
		if json.Unmarshal(b, &wrap) == nil && wrap.Case != nil {
			c = *wrap.Case
		} else {
			must(json.Unmarshal(b, &c))
		}
		cases = []Case{c}
	} else {
		cases = append(cases, fixedCases()...)
		r := prng.New(*seed)
		for i := 0; i < *n; i++ {
			if i%3 == 2 {
				cases = append(cases, genState(r.Fork()))
			} else {
				cases = append(cases, genTx(r.Fork()))
			}
		}
	}
	seen := map[string]bool{}
	keys := ints(rng(0, poolSize))
	ents := ints(rng(1, nEnts))
	findingsKept := 0
	for _, c := range cases {
		res := runCase(c)
		key, _ := json.Marshal(c)
		if res.nontriv && !seen[string(key)] {
			sum.DistinctNontrivial++
		}
		seen[string(key)] = true
		sum.Evaluations++
		sum.Count("layer", c.Layer)
		for k, v := range res.stats {
			parts := strings.SplitN(k, ":", 2)
			for j := 0; j < v; j++ {
				sum.Count(parts[0], parts[1])
			}
		}
		sum.Sample(c, 3)
		if !res.panicked {
			term := fmt.Sprintf("(((%d, %d), (%s, %s), %s), %s)", maxExp, debond, keys, ents, coqout.List(res.coqOps), coqout.List(res.coqObs))
			wb.Add(term, map[string]any{"case": c})
		}
		if res.violated != "" {
			if res.finding {
				sum.Count("oracle", "known_call_pattern_key_exchange")
				if findingsKept >= 2 {
					continue
				}
				findingsKept++
			}
			c = shrink(c, res)
			res = runCase(c)
			if res.finding {
				sum.Findings = append(sum.Findings, coqout.Finding{Key: findingKX, What: res.violated, Replay: map[string]any{"case": c}})
			} else {
				sum.Count("oracle", "violation")
				sum.Violations = append(sum.Violations, map[string]any{"what": res.violated, "case": c})
			}
		}
	}
	wb.Close()
	sum.Write(*out)
}
