package main

// Framing stream (-mode frame): the uncompressed stream of every chunk file of
// small real checkpoints, byte for byte, against Verif.Ckpt.FrameCorr.run_frame
// (model chunk -> proof entries -> CBOR stream; hash payloads taken from the
// real stream).  Also S: every chunk file must be snappy(frame(items)) in
// canonical form (re-encoding the parsed items reproduces the stream).

import (
	"bytes"
	"encoding/binary"
	"encoding/json"
	"fmt"
	"io"
	"os"
	"strings"

	"github.com/golang/snappy"

	"verifharness/internal/coqout"
	"verifharness/internal/prng"
)

type FCase struct {
	Tree      TreeSpec `json:"tree"`
	Src       string   `json:"src"`
	ChunkSize uint64   `json:"chunk_size"`
	Threads   uint16   `json:"threads"`
	Frame     bool     `json:"frame"`
}

func cborHead(n int) []byte {
	switch {
	case n < 24:
		return []byte{0x40 + byte(n)}
	case n < 256:
		return []byte{0x58, byte(n)}
	case n < 65536:
		b := []byte{0x59, 0, 0}
		binary.BigEndian.PutUint16(b[1:], uint16(n))
		return b
	}
	b := []byte{0x5a, 0, 0, 0, 0}
	binary.BigEndian.PutUint32(b[1:], uint32(n))
	return b
}

func coqNList(b []byte) string {
	var sb strings.Builder
	sb.WriteByte('[')
	for i, x := range b {
		if i > 0 {
			sb.WriteByte(';')
		}
		fmt.Fprintf(&sb, "%d", x)
	}
	sb.WriteByte(']')
	return sb.String()
}

func frameMain(seed uint64, ncases int, out, replay string) {
	hdr := "From Verif Require Import Lib.Base Mkvs.Trie Ckpt.Model Ckpt.Stack Ckpt.Frame Ckpt.FrameCorr.\n"
	wb := coqout.NewWriter(out, hdr, "run_frame", "fr_eqb", 6)
	sum := coqout.NewSummary("chunk framing: seeded trees of 0-40 keys (keys 1-6 bytes, values 0-300 bytes so that all CBOR length forms up to two length bytes occur) checkpointed with both chunkers; the uncompressed stream of every chunk file compared byte for byte with the model's serialization; non-trivial = at least 2 chunks and one hash entry; distinct = distinct (tree, chunk size, threads)")
	var cases []FCase
	if replay != "" {
		b, _ := os.ReadFile(replay)
		var c FCase
		var wrap struct {
			Case *FCase `json:"case"`
		}
		if json.Unmarshal(b, &wrap) == nil && wrap.Case != nil {
			c = *wrap.Case
		} else {
			_ = json.Unmarshal(b, &c)
		}
		cases = []FCase{c}
	} else {
		r := prng.New(seed ^ 0xF4A)
		kinds := []string{"mixed", "dense", "random", "chain", "single", "empty", "bitchain", "mixed"}
		for i := 0; i < ncases; i++ {
			sp := TreeSpec{Kind: kinds[i%len(kinds)], Seed: r.U64(), N: 1 + r.Intn(40), ValMax: []int{0, 3, 30, 38}[r.Intn(4)]}
			if sp.Kind == "chain" || sp.Kind == "bitchain" {
				sp.N = 2 + r.Intn(20)
			}
			total := approxSize(genTree(sp))
			c := FCase{Tree: sp, Src: []string{"badger", "pathbadger"}[i%2], Threads: uint16([]int{0, 1, 2, 3, 7}[r.Intn(5)]), Frame: true}
			c.ChunkSize = total/uint64(1+r.Intn(6)) + uint64(r.Intn(3))
			cases = append(cases, c)
		}
	}
	seen := map[string]bool{}
	for _, c := range cases {
		sum.Evaluations++
		s, err := getSource(c.Tree, c.Src)
		if err != nil {
			panic(err)
		}
		cp, err := getCkpt(s, c.ChunkSize, c.Threads, &result{})
		if err != nil {
			panic(err)
		}
		var raws, hss []string
		nhash := 0
		var viol []string
		for i, b := range cp.chunks {
			raw, err := io.ReadAll(snappy.NewReader(bytes.NewReader(b)))
			if err != nil {
				viol = append(viol, fmt.Sprintf("chunk-not-snappy chunk %d: %v", i, err))
				continue
			}
			items, err := cborItems(raw)
			if err != nil {
				viol = append(viol, fmt.Sprintf("chunk-stream-not-cbor chunk %d: %v", i, err))
				continue
			}
			var re []byte
			var hs []string
			for _, it := range items {
				if it == nil {
					re = append(re, 0xf6)
					sum.Count("cbor_item", "null")
					continue
				}
				h := cborHead(len(it))
				re = append(append(re, h...), it...)
				sum.Count("cbor_item", fmt.Sprintf("bytes-with-%d-byte-head", len(h)))
				if len(it) > 0 && it[0] == 0x02 {
					hs = append(hs, coqNList(it[1:]))
					nhash++
				}
			}
			if !bytes.Equal(re, raw) {
				viol = append(viol, fmt.Sprintf("chunk-stream-not-canonical chunk %d", i))
			}
			raws = append(raws, coqNList(raw))
			hss = append(hss, coqout.List(hs))
		}
		es := make([]string, len(s.order))
		for i, e := range s.order {
			es[i] = coqKV(e)
		}
		term := fmt.Sprintf("(((ByEntries %s), %d, %d, %s), %s)", coqout.List(es), c.ChunkSize, c.Threads, coqout.List(hss), coqout.List(raws))
		wb.Add(term, map[string]any{"case": c})
		sum.Count("chunks", bucket(len(cp.chunks)))
		sum.Count("threads", fmt.Sprint(c.Threads))
		key := fmt.Sprintf("%v/%d/%d", c.Tree, c.ChunkSize, c.Threads)
		if len(cp.chunks) >= 2 && nhash > 0 && !seen[key] {
			sum.DistinctNontrivial++
		}
		seen[key] = true
		sum.Sample(c, 2)
		for _, v := range viol {
			sum.Count("violations", kindOf(v))
			if len(sum.Violations) < 3 {
				sum.Violations = append(sum.Violations, map[string]any{"what": v, "case": c})
			}
		}
	}
	for _, s := range srcs {
		s.ndb.Close()
	}
	wb.Close()
	sum.Write(out)
}
