package main

// Restorer bookkeeping stream (-mode restorer): generated delivery schedules
// (StartRestore with genuine or forged metadata, AbortRestore, RestoreChunk
// with the genuine / a bit-flipped / a foreign file for a slot, duplicates,
// out-of-range slots, Finalize with the right or a wrong root) are applied to
// the REAL restorer on a real database; the answer to every call is recorded
// and compared with Verif.Ckpt.RestorerCorr.run_restorer (the model rstep).

import (
	"bytes"
	"context"
	"encoding/json"
	"fmt"
	"os"

	"github.com/golang/snappy"

	"github.com/oasisprotocol/oasis-core/go/common/crypto/hash"
	"github.com/oasisprotocol/oasis-core/go/storage/mkvs/checkpoint"
	"github.com/oasisprotocol/oasis-core/go/storage/mkvs/node"

	"verifharness/internal/coqout"
	"verifharness/internal/prng"
)

type REv struct {
	K     string `json:"k"`               // start startf abort chunk finalize
	Slot  int    `json:"slot,omitempty"`  // startf: forged slot; chunk: slot
	Kind  int    `json:"kind,omitempty"`  // chunk / startf: 0 genuine, 1 bit-flipped, 2 file of the other tree, 3 not snappy (+ trailer), 4 genuine + reserved snappy frame + trailer, 5 snappy(not CBOR), 6 snappy(CBOR(no proof))
	Right bool   `json:"right,omitempty"` // finalize: with the checkpoint's root
}

type RCase struct {
	Tree      TreeSpec `json:"tree"`
	Src       string   `json:"src"`
	Dst       string   `json:"dst"`
	ChunkSize uint64   `json:"chunk_size"`
	Threads   uint16   `json:"threads"`
	Events    []REv    `json:"events"`
}

const (
	cOk = iota
	cDone
	cCorrupted
	cProofFailed
	cAlreadyRestored
	cNoRestore
	cInProgress
	cFinalizeFailed
	cOther = 99
)

func otherSpec(sp TreeSpec) TreeSpec {
	// always a different, non-empty tree
	return TreeSpec{Kind: "random", N: sp.N%40 + 5, Seed: sp.Seed ^ 0xABCDEF, ValMax: 4}
}

type rresult struct {
	violAt int // number of calls up to and including the first one that violated (0: none / at the end)
	codes []int
	viol  []string
	n     int
}

func runRestorerCase(c RCase) (res *rresult) {
	res = &rresult{}
	defer func() {
		if p := recover(); p != nil {
			res.viol = append(res.viol, fmt.Sprintf("panic: %v", p))
		}
	}()
	s, err := getSource(c.Tree, c.Src)
	if err != nil {
		panic(err)
	}
	cp, err := getCkpt(s, c.ChunkSize, c.Threads, &result{})
	if err != nil {
		panic(err)
	}
	o, err := getSource(otherSpec(c.Tree), c.Src)
	if err != nil {
		panic(err)
	}
	ocp, err := getCkpt(o, c.ChunkSize, c.Threads, &result{})
	if err != nil {
		panic(err)
	}
	n := len(cp.chunks)
	res.n = n
	foreign := func(i int) []byte { return ocp.chunks[((i%len(ocp.chunks))+len(ocp.chunks))%len(ocp.chunks)] }
	file := func(slot, kind int) []byte {
		g := []byte("no such chunk")
		if slot >= 0 && slot < n {
			g = cp.chunks[slot]
		}
		trailer := bytes.Repeat([]byte{0xAA}, 64)
		snap := func(raw []byte) []byte {
			var buf bytes.Buffer
			sw := snappy.NewBufferedWriter(&buf)
			_, _ = sw.Write(raw)
			_ = sw.Close()
			return buf.Bytes()
		}
		switch kind {
		case 1:
			b := append([]byte{}, g...)
			b[len(b)/2] ^= 0x10
			return b
		case 2:
			return foreign(slot)
		case 3: // not a snappy stream at all, longer than a frame header
			return append([]byte(fmt.Sprintf("this is not a snappy stream %d ", slot)), trailer...)
		case 4: // a complete valid stream, then a reserved unskippable frame, then more bytes
			return append(append(append([]byte{}, g...), 0x02, 0x04, 0x00, 0x00, 0x01, 0x02, 0x03, byte(slot)), trailer...)
		case 5: // valid snappy, not CBOR
			return snap(append([]byte{0xff, 0xff, byte(slot)}, trailer...))
		case 6: // valid snappy and CBOR, no proof of this root
			return snap(append([]byte{0x53}, []byte(fmt.Sprintf("this chunk is bogus %2d", slot%100))[:19]...))
		}
		return g
	}

	ctx := context.Background()
	dir, err := os.MkdirTemp(tmpRoot, "rdst")
	if err != nil {
		panic(err)
	}
	defer os.RemoveAll(dir)
	ndb, err := openDB(c.Dst, dir)
	if err != nil {
		panic(err)
	}
	defer ndb.Close()
	rs, _ := checkpoint.NewRestorer(ndb)
	if err := ndb.StartMultipartInsert(version); err != nil {
		panic(err)
	}
	imported := map[int]bool{}
	finalized := false
	var curMeta *checkpoint.Metadata
	for _, e := range c.Events {
		code := cOther
		switch e.K {
		case "start", "startf":
			meta := *cp.meta
			meta.Chunks = append([]hash.Hash{}, cp.meta.Chunks...)
			if e.K == "startf" {
				var h hash.Hash
				h.FromBytes(file(e.Slot, e.Kind))
				meta.Chunks[e.Slot] = h
			}
			switch err := rs.StartRestore(ctx, &meta); {
			case err == nil:
				code = cOk
				curMeta = &meta
			case err == checkpoint.ErrRestoreAlreadyInProgress:
				code = cInProgress
			}
		case "abort":
			if rs.AbortRestore(ctx) == nil {
				code = cOk
			}
		case "chunk":
			data := file(e.Slot, e.Kind)
			done, err := rs.RestoreChunk(ctx, uint64(e.Slot), bytes.NewReader(data))
			// S: bytes that match the manifest digest of their slot are never "damaged in transit"
			if errClass(err) == "corrupted" && curMeta != nil && e.Slot >= 0 && e.Slot < len(curMeta.Chunks) {
				var h hash.Hash
				h.FromBytes(data)
				if h.Equal(&curMeta.Chunks[e.Slot]) {
					if res.violAt == 0 {
						res.violAt = len(res.codes) + 1
					}
					res.viol = append(res.viol, fmt.Sprintf("chunk-matching-manifest-digest-answered-with-retryable-ErrChunkCorrupted (slot %d, file kind %d: the caller refetches the same bytes forever; restorer still active: %v)", e.Slot, e.Kind, rs.GetCurrentCheckpoint() != nil))
				}
			}
			switch errClass(err) {
			case "ok":
				code = cOk
				if done {
					code = cDone
				}
				imported[e.Slot] = true
			case "corrupted":
				code = cCorrupted
			case "proof-failed":
				code = cProofFailed
			case "already-restored":
				code = cAlreadyRestored
			case "no-restore":
				code = cNoRestore
			}
			if err != nil && done {
				res.viol = append(res.viol, "done-with-error")
			}
		case "finalize":
			root := s.root
			if !e.Right {
				root.Hash[3] ^= 0x55
			}
			if err := ndb.Finalize([]node.Root{root}); err == nil {
				code = cOk
				finalized = e.Right
			} else {
				code = cFinalizeFailed
			}
		}
		res.codes = append(res.codes, code)
		if finalized {
			break
		}
	}
	// S: a successful finalize after every slot was imported reads back exactly the contents
	if finalized && len(imported) == n {
		got, err := readAll(ndb, s.root)
		if err != nil || !sameContents(got, s.es) {
			res.viol = append(res.viol, fmt.Sprintf("restored-contents-differ-after-schedule (%d keys read, %d expected, err=%v)", len(got), len(s.es), err))
		}
	}
	return
}

func genRestorerCase(r *prng.R, i int) RCase {
	kinds := []string{"random", "mixed", "dense", "numeric", "random", "single", "mixed", "empty"}
	sp := TreeSpec{Kind: kinds[i%len(kinds)], Seed: r.U64(), ValMax: []int{0, 3, 8, 40}[r.Intn(4)], N: 1 + r.Intn(120)}
	if sp.Kind == "single" {
		sp.N = 1
	}
	es := genTree(sp)
	total := approxSize(es)
	backends := []string{"badger", "pathbadger"}
	c := RCase{Tree: sp, Src: backends[i%2], Dst: backends[r.Intn(2)], Threads: uint16([]int{0, 1, 2, 4, 9}[r.Intn(5)])}
	want := 1 + r.Intn(9) // about that many chunks
	c.ChunkSize = total/uint64(want) + 1
	return c
}

// genSchedule needs the number of chunks, so it runs after the checkpoint exists.
func genSchedule(r *prng.R, n int, canForge func(int) bool) []REv {
	var evs []REv
	active := false
	fj, fk := -1, 0 // the forged slot and file kind of the session in progress
	pend := map[int]bool{}
	steps := 4 + r.Intn(10+3*n)
	for len(evs) < steps {
		switch x := r.Intn(100); {
		case x < 12 || (!active && x < 45):
			if r.Chance(45) {
				j := r.Intn(n)
				if canForge(j) {
					k := []int{2, 3, 4, 5, 6, 1, 3, 4}[r.Intn(8)]
					evs = append(evs, REv{K: "startf", Slot: j, Kind: k})
					if !active {
						active, fj, fk = true, j, k
						for i := 0; i < n; i++ {
							pend[i] = true
						}
					}
					break
				}
			}
			evs = append(evs, REv{K: "start"})
			if !active {
				active, fj = true, -1
				for i := 0; i < n; i++ {
					pend[i] = true
				}
			}
		case x < 18:
			evs = append(evs, REv{K: "abort"})
			active = false
		case x < 24:
			evs = append(evs, REv{K: "finalize", Right: false})
		default:
			slot := r.Intn(n + 1) // n = out of range
			if len(pend) > 0 && r.Chance(60) {
				for k := range pend { // map order is random but we re-pick deterministically below
					_ = k
				}
				// deterministic pick: the smallest pending slot at or after a random point
				p := r.Intn(n)
				for d := 0; d < n; d++ {
					if pend[(p+d)%n] {
						slot = (p + d) % n
						break
					}
				}
			}
			kind := []int{0, 0, 0, 0, 0, 0, 1, 2, 3, 4, 5, 6}[r.Intn(12)]
			if active && fj >= 0 && r.Chance(35) {
				slot, kind = fj, fk // the file the forged manifest names
				if r.Chance(50) {
					evs = append(evs, REv{K: "chunk", Slot: slot, Kind: kind}) // the caller's retry
				}
			}
			evs = append(evs, REv{K: "chunk", Slot: slot, Kind: kind})
			if active && kind == 0 {
				delete(pend, slot)
			}
		}
	}
	// mostly: complete the restore and finalize
	if r.Chance(80) {
		evs = append(evs, REv{K: "abort"}, REv{K: "start"})
		order := make([]int, n)
		for i := range order {
			order[i] = i
		}
		for i := n - 1; i > 0; i-- {
			j := r.Intn(i + 1)
			order[i], order[j] = order[j], order[i]
		}
		for _, i := range order {
			if r.Chance(15) {
				evs = append(evs, REv{K: "chunk", Slot: i, Kind: 1 + r.Intn(6)})
			}
			evs = append(evs, REv{K: "chunk", Slot: i, Kind: 0})
			if r.Chance(15) {
				evs = append(evs, REv{K: "chunk", Slot: i, Kind: 0})
			}
		}
		evs = append(evs, REv{K: "finalize", Right: false}, REv{K: "finalize", Right: true})
	} else if r.Chance(50) {
		evs = append(evs, REv{K: "finalize", Right: true})
	}
	return evs
}

func coqREv(e REv) string {
	switch e.K {
	case "start":
		return "CStart None"
	case "startf":
		return fmt.Sprintf("CStart (Some (%d, %d))", e.Slot, e.Kind)
	case "abort":
		return "CAbort"
	case "chunk":
		return fmt.Sprintf("CChunk %d %d", e.Slot, e.Kind)
	}
	return "CFinalize " + coqout.Bool(e.Right)
}

func restorerMain(seed uint64, ncases int, out, replay string) {
	hdr := "From Verif Require Import Lib.Base Ckpt.Model Ckpt.RestorerCorr.\n"
	wb := coqout.NewWriter(out, hdr, "run_restorer", "codes_eqb", 40)
	sum := coqout.NewSummary("restorer bookkeeping: seeded trees of 0-120 keys checkpointed into 1-12 chunks (both chunkers) on a real database; generated schedules of 4-60 calls: StartRestore with genuine or forged metadata (one slot carries the digest of another tree's chunk), AbortRestore, RestoreChunk with the genuine / a bit-flipped / the other tree's file, duplicates, out-of-range slots, Finalize with a wrong and the right root; mostly ending with a complete restore in random order; the answer to every call is compared with the model; non-trivial = at least one rejected delivery, one abort or forged session and a successful final Finalize; distinct = distinct schedules")
	var cases []RCase
	if replay != "" {
		b, _ := os.ReadFile(replay)
		var c RCase
		var wrap struct {
			Case *RCase `json:"case"`
		}
		if json.Unmarshal(b, &wrap) == nil && wrap.Case != nil {
			c = *wrap.Case
		} else {
			_ = json.Unmarshal(b, &c)
		}
		cases = []RCase{c}
	} else {
		r := prng.New(seed ^ 0x5E5)
		for i := 0; i < ncases; i++ {
			rr := r.Fork()
			c := genRestorerCase(rr, i)
			// the schedule depends on the number of chunks of the real checkpoint
			s, err := getSource(c.Tree, c.Src)
			if err != nil {
				panic(err)
			}
			cp, err := getCkpt(s, c.ChunkSize, c.Threads, &result{})
			if err != nil {
				panic(err)
			}
			o, err := getSource(otherSpec(c.Tree), c.Src)
			if err != nil {
				panic(err)
			}
			ocp, err := getCkpt(o, c.ChunkSize, c.Threads, &result{})
			if err != nil {
				panic(err)
			}
			n := len(cp.chunks)
			canForge := func(j int) bool {
				return !o.root.Hash.Equal(&s.root.Hash) && !bytes.Equal(ocp.chunks[j%len(ocp.chunks)], cp.chunks[j])
			}
			c.Events = genSchedule(rr, n, canForge)
			cases = append(cases, c)
		}
	}
	seen := map[string]bool{}
	violSeen := map[string]bool{}
	for _, c := range cases {
		res := runRestorerCase(c)
		sum.Evaluations++
		sum.Count("chunks", fmt.Sprint(res.n))
		sum.Count("backend_dst", c.Dst)
		sum.Count("events", bucket(len(c.Events)))
		rej, sess, fin := false, false, false
		for i, code := range res.codes {
			e := c.Events[i]
			k := e.K
			if e.K == "chunk" {
				k = fmt.Sprintf("chunk-kind%d", e.Kind)
			}
			sum.Count("call:answer", fmt.Sprintf("%s:%d", k, code))
			if code == cCorrupted || code == cProofFailed || code == cAlreadyRestored {
				rej = true
			}
			if e.K == "abort" || e.K == "startf" {
				sess = true
			}
			if e.K == "finalize" && e.Right && code == cOk {
				fin = true
			}
			if code == cOther {
				res.viol = append(res.viol, fmt.Sprintf("unexpected-answer to call %d (%s)", i, e.K))
			}
		}
		key, _ := json.Marshal(c.Events)
		if rej && sess && fin && len(res.viol) == 0 && !seen[string(key)] {
			sum.DistinctNontrivial++
		}
		seen[string(key)] = true
		sum.Sample(c, 2)
		evs := make([]string, len(res.codes))
		codes := make([]string, len(res.codes))
		for i := range res.codes {
			evs[i] = coqREv(c.Events[i])
			codes[i] = fmt.Sprint(res.codes[i])
		}
		srcT, _ := getSource(c.Tree, c.Src)
		wb.Add(fmt.Sprintf("((%d, %s, %s), %s)", res.n, coqout.Bool(srcT != nil && len(srcT.es) == 0), coqout.List(evs), coqout.List(codes)), map[string]any{"case": c})
		for _, v := range res.viol {
			kind := kindOf(v)
			sum.Count("violations", kind)
			if violSeen[kind] || len(sum.Violations) >= 4 {
				continue
			}
			violSeen[kind] = true
			sc := c
			if res.violAt > 0 && res.violAt < len(c.Events) {
				// the calls after the violating one are irrelevant
				sc.Events = append([]REv{}, c.Events[:res.violAt]...)
				if r2 := runRestorerCase(sc); len(r2.viol) == 0 {
					sc = c
				}
			}
			sum.Violations = append(sum.Violations, map[string]any{"what": v, "case": sc})
		}
		if replay != "" {
			fmt.Printf("codes=%v\nviolations=%v\n", res.codes, res.viol)
		}
	}
	for _, s := range srcs {
		s.ndb.Close()
	}
	wb.Close()
	sum.Write(out)
}
