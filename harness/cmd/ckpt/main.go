// Command ckpt drives the REAL MKVS checkpoint creator and restorer
// (go/storage/mkvs/checkpoint) on real badger / pathbadger node databases in
// temp dirs.  For seeded trees, chunk sizes and chunker thread counts it
//   - creates every checkpoint twice (fresh directories) and compares metadata
//     and chunk files (determinism),
//   - decodes every chunk file with an independent snappy/CBOR/node decoder and
//     checks that the chunks carry exactly the tree's contents (S) and records
//     the per-chunk key lists as Coq correspondence cases for Verif.Ckpt.Model (K),
//   - restores into an EMPTY database (both backends) in a random order with
//     duplicates, from 1-8 goroutines, with abort + restart, finalizes, and
//     reads the root back by full iteration (S),
//   - injects one corruption per case (byte flip, truncation, swapped chunk,
//     wrong digest in the metadata, chunk of another tree with and without a
//     matching digest): RestoreChunk must fail and the finished restore must
//     still read back exactly the original contents (S).
package main

import (
	"bytes"
	"context"
	"encoding/binary"
	"encoding/json"
	"errors"
	"flag"
	"fmt"
	"io"
	"os"
	"path/filepath"
	"sort"
	"strings"
	"sync"

	"github.com/golang/snappy"

	"github.com/oasisprotocol/oasis-core/go/common"
	"github.com/oasisprotocol/oasis-core/go/common/crypto/hash"
	"github.com/oasisprotocol/oasis-core/go/storage/mkvs"
	"github.com/oasisprotocol/oasis-core/go/storage/mkvs/checkpoint"
	"github.com/oasisprotocol/oasis-core/go/storage/mkvs/db/api"
	badgerDb "github.com/oasisprotocol/oasis-core/go/storage/mkvs/db/badger"
	pathDb "github.com/oasisprotocol/oasis-core/go/storage/mkvs/db/pathbadger"
	"github.com/oasisprotocol/oasis-core/go/storage/mkvs/node"

	"verifharness/internal/coqout"
	"verifharness/internal/prng"
)

var testNs = common.NewTestNamespaceFromSeed([]byte("verif ckpt"), 0)

const version = 3 // root version of every checkpointed tree (0 is "no multipart")

const maxProofDepth = 128 // syncer/proof.go:20

const (
	finDepth   = "C12:chunk-of-tree-deeper-than-128-fails-proof-verification"
	finRestart = "C12:pathbadger-restore-after-aborted-multipart-of-same-version-unreadable"
)

func chunkDepth(b []byte) int {
	_, md, err := decodeChunk(b)
	if err != nil {
		return -1
	}
	return md
}

// ---------- case description ----------

type TreeSpec struct {
	Kind   string `json:"kind"` // empty single chain bitchain random dense numeric mixed
	N      int    `json:"n"`
	Seed   uint64 `json:"seed"`
	ValMax int    `json:"valmax"`
}

type Case struct {
	Tree       TreeSpec `json:"tree"`
	Src        string   `json:"src"`        // backend the tree is committed to
	Dst        string   `json:"dst"`        // backend restored into
	ChunkSize  uint64   `json:"chunk_size"`
	Threads    uint16   `json:"threads"`
	RSeed      uint64   `json:"rseed"`      // restore order / duplicates
	Goroutines int      `json:"goroutines"` // concurrent RestoreChunk callers
	Dups       int      `json:"dups"`       // extra deliveries of already scheduled chunks
	AbortAt    int      `json:"abort_at"`   // abort + restart after that many deliveries (-1: never)
	Gate       int      `json:"gate"`       // 0: none; -1: last chunk; k > 0: chunk (k-1) mod n is pinned in flight (blocking reader) while another caller restores all other chunks
	GateDup    bool     `json:"gate_dup"`   // a duplicate of the pinned chunk is submitted while the original is in flight
	Boundary   string   `json:"boundary,omitempty"` // how the chunk size was derived (size == recomputed estimate of a chunk, +-1); informational
	Fault      int      `json:"fault,omitempty"`      // > 0: one GetNode of the node database fails during CreateCheckpoint (call number 1 + (fault-1) mod total calls of the walk)
	FaultKind  string   `json:"fault_kind,omitempty"` // "err": a plain I/O error; "notfound": api.ErrNodeNotFound (a Prune racing the checkpointer)
	Leftover   string   `json:"leftover,omitempty"` // the checkpoint directory already holds files of an earlier attempt for the same root: "full" (a complete earlier checkpoint, meta removed), "partial" (some of its chunk files removed too), "junk" (arbitrary stale files, longer and shorter than the new chunks)
	PrevSize   uint64   `json:"prev_size,omitempty"`
	PrevThr    uint16   `json:"prev_threads,omitempty"`
	FullAbort  bool     `json:"full_abort"` // restarts also AbortMultipartInsert + StartMultipartInsert (else only the restorer is restarted and the multipart insert continues)
	Corrupt    string   `json:"corrupt"`    // "" flip trunc swap digest other other-digest empty
	CorruptIdx int      `json:"corrupt_idx"`
	CorruptPos uint64   `json:"corrupt_pos"`
}

type kv struct{ k, v []byte }

func genTree(sp TreeSpec) []kv {
	r := prng.New(sp.Seed ^ 0xC12C12)
	val := func() []byte {
		if sp.ValMax <= 0 {
			return []byte{}
		}
		if r.Chance(3) {
			return r.Bytes(sp.ValMax * 8)
		}
		return r.Bytes(r.Intn(sp.ValMax + 1))
	}
	m := map[string][]byte{}
	add := func(k []byte) {
		if len(k) == 0 { // the empty key is outside the domain (see C03)
			return
		}
		m[string(k)] = val()
	}
	switch sp.Kind {
	case "empty":
	case "single":
		add(append([]byte("k"), r.Bytes(r.Intn(6))...))
	case "chain": // every key a prefix of the next one
		b := byte(r.Intn(256))
		for i := 1; i <= sp.N; i++ {
			add(bytes.Repeat([]byte{b}, i))
		}
	case "bitchain": // keys 1000.., 01000.., 001000..: one more internal node per key
		nb := (sp.N + 8) / 8
		for i := 0; i < sp.N; i++ {
			k := make([]byte, nb)
			k[i/8] = 0x80 >> uint(i%8)
			add(k)
		}
	case "dense": // short keys over a tiny alphabet: many internal leaves
		for len(m) < sp.N {
			l := 1 + r.Intn(5)
			k := make([]byte, l)
			for i := range k {
				k[i] = []byte{0x00, 0x01, 0x80, 0xff}[r.Intn(4)]
			}
			add(k)
			if l >= 5 && len(m) >= 1000 {
				break
			}
		}
	case "numeric":
		for i := 0; i < sp.N; i++ {
			add([]byte(fmt.Sprint(i)))
		}
	case "random":
		for len(m) < sp.N {
			add(r.Bytes(1 + r.Intn(12)))
		}
	default: // mixed: a shared prefix, random tails, some prefix chains
		pre := r.Bytes(r.Intn(4))
		for len(m) < sp.N {
			k := append(append([]byte{}, pre...), r.Bytes(1+r.Intn(4))...)
			add(k)
			if r.Chance(20) {
				for j := 0; j < 3 && len(m) < sp.N; j++ {
					k = append(k, byte(r.Intn(3)))
					add(k)
				}
			}
		}
	}
	var out []kv
	for k, v := range m {
		out = append(out, kv{[]byte(k), v})
	}
	sort.Slice(out, func(i, j int) bool { return bytes.Compare(out[i].k, out[j].k) < 0 })
	return out
}

// insertion order: a seeded shuffle (the tree is canonical, the order must not matter)
func insertionOrder(sp TreeSpec, es []kv) []kv {
	r := prng.New(sp.Seed ^ 0x5EED)
	out := append([]kv{}, es...)
	for i := len(out) - 1; i > 0; i-- {
		j := r.Intn(i + 1)
		out[i], out[j] = out[j], out[i]
	}
	return out
}

func openDB(kind, dir string) (api.NodeDB, error) {
	cfg := &api.Config{DB: dir, NoFsync: true, Namespace: testNs, MaxCacheSize: 16 * 1024 * 1024}
	if kind == "badger" {
		return badgerDb.New(cfg)
	}
	return pathDb.New(cfg)
}

// ---------- source trees (cached: one per (tree, backend)) ----------

type source struct {
	key   string
	dir   string
	ndb   api.NodeDB
	root  node.Root
	es    []kv
	order []kv
	cps   map[string]*ckpt
	shape string
}

type ckpt struct {
	meta   *checkpoint.Metadata
	chunks [][]byte
}

var (
	tmpRoot string
	srcs    = map[string]*source{}
	srcLRU  []string
)

func getSource(sp TreeSpec, backend string) (*source, error) {
	kb, _ := json.Marshal(sp)
	key := backend + string(kb)
	if s := srcs[key]; s != nil {
		return s, nil
	}
	if len(srcLRU) >= 3 {
		old := srcs[srcLRU[0]]
		old.ndb.Close()
		os.RemoveAll(old.dir)
		delete(srcs, srcLRU[0])
		srcLRU = srcLRU[1:]
	}
	dir, err := os.MkdirTemp(tmpRoot, "src")
	if err != nil {
		return nil, err
	}
	ndb, err := openDB(backend, filepath.Join(dir, "db"))
	if err != nil {
		return nil, err
	}
	es := genTree(sp)
	order := insertionOrder(sp, es)
	ctx := context.Background()
	tree := mkvs.New(nil, ndb, node.RootTypeState)
	for _, e := range order {
		if err := tree.Insert(ctx, e.k, e.v); err != nil {
			return nil, err
		}
	}
	_, rh, err := tree.Commit(ctx, testNs, version)
	if err != nil {
		return nil, err
	}
	tree.Close()
	root := node.Root{Namespace: testNs, Version: version, Type: node.RootTypeState, Hash: rh}
	if err := ndb.Finalize([]node.Root{root}); err != nil {
		return nil, err
	}
	s := &source{key: key, dir: dir, ndb: ndb, root: root, es: es, order: order, cps: map[string]*ckpt{}}
	srcs[key] = s
	srcLRU = append(srcLRU, key)
	return s, nil
}

var cpCounter int

// createOnce creates a checkpoint in a fresh directory and reads all chunk files back.
func createOnce(s *source, size uint64, threads uint16) (*ckpt, error) {
	cpCounter++
	dir := filepath.Join(s.dir, fmt.Sprintf("cp%d", cpCounter))
	defer os.RemoveAll(dir)
	fc, err := checkpoint.NewFileCreator(dir, s.ndb)
	if err != nil {
		return nil, err
	}
	ctx := context.Background()
	meta, err := fc.CreateCheckpoint(ctx, s.root, size, threads)
	if err != nil {
		return nil, err
	}
	c := &ckpt{meta: meta}
	for i := range meta.Chunks {
		cm, err := meta.GetChunkMetadata(uint64(i))
		if err != nil {
			return nil, err
		}
		var buf bytes.Buffer
		if err := fc.GetCheckpointChunk(ctx, cm, &buf); err != nil {
			return nil, err
		}
		c.chunks = append(c.chunks, buf.Bytes())
	}
	return c, nil
}

// faultDB forwards everything to the real node database; the k-th GetNode
// after arming fails once (chunker goroutines call it concurrently).
type faultDB struct {
	api.NodeDB
	mu        sync.Mutex
	calls     int
	countdown int
	fired     bool
	err       error
}

var errInjected = errors.New("verif: injected node database read error")

func (f *faultDB) GetNode(root node.Root, ptr *node.Pointer) (node.Node, error) {
	f.mu.Lock()
	f.calls++
	fail := false
	if f.countdown > 0 {
		f.countdown--
		if f.countdown == 0 {
			f.fired, fail = true, true
		}
	}
	f.mu.Unlock()
	if fail {
		return nil, f.err
	}
	return f.NodeDB.GetNode(root, ptr)
}

// createFaulty runs CreateCheckpoint over a node database whose k-th GetNode
// fails.  It returns (nil, reason) when the creation reported the error.
func createFaulty(s *source, c Case) (*ckpt, string, error) {
	ctx := context.Background()
	fdb := &faultDB{NodeDB: s.ndb}
	// dry run: how many reads does the walk make
	cpCounter++
	dir0 := filepath.Join(s.dir, fmt.Sprintf("cpf%d", cpCounter))
	defer os.RemoveAll(dir0)
	fc0, err := checkpoint.NewFileCreator(dir0, fdb)
	if err != nil {
		return nil, "", err
	}
	if _, err := fc0.CreateCheckpoint(ctx, s.root, c.ChunkSize, c.Threads); err != nil {
		return nil, "", err
	}
	total := fdb.calls
	if total == 0 {
		return nil, "no-reads", nil
	}
	cpCounter++
	dir := filepath.Join(s.dir, fmt.Sprintf("cpf%d", cpCounter))
	defer os.RemoveAll(dir)
	fc, err := checkpoint.NewFileCreator(dir, fdb)
	if err != nil {
		return nil, "", err
	}
	fdb.err = errInjected
	if c.FaultKind == "notfound" {
		fdb.err = api.ErrNodeNotFound
	}
	fdb.calls, fdb.fired = 0, false
	fdb.countdown = 1 + (c.Fault-1)%total
	k := fdb.countdown
	meta, err := fc.CreateCheckpoint(ctx, s.root, c.ChunkSize, c.Threads)
	fdb.countdown = 0
	if err != nil {
		return nil, "create-error", nil
	}
	if !fdb.fired {
		return nil, "fault-not-reached", nil
	}
	out := &ckpt{meta: meta}
	for i := range meta.Chunks {
		cm, err := meta.GetChunkMetadata(uint64(i))
		if err != nil {
			return nil, "", err
		}
		var buf bytes.Buffer
		if err := fc.GetCheckpointChunk(ctx, cm, &buf); err != nil {
			return nil, "", err
		}
		out.chunks = append(out.chunks, buf.Bytes())
	}
	return out, fmt.Sprintf("success-although-read-%d-of-%d-failed", k, total), nil
}

// createOver creates the checkpoint in a directory that already holds the
// leftovers of an earlier, interrupted attempt for the same root (creator
// killed between writing the chunks and the metadata, or DeleteCheckpoint
// interrupted after removing the metadata) and returns what GetCheckpointChunk
// serves afterwards.
func createOver(s *source, c Case) (*ckpt, error) {
	cpCounter++
	dir := filepath.Join(s.dir, fmt.Sprintf("cpo%d", cpCounter))
	defer os.RemoveAll(dir)
	fc, err := checkpoint.NewFileCreator(dir, s.ndb)
	if err != nil {
		return nil, err
	}
	ctx := context.Background()
	cpDir := filepath.Join(dir, fmt.Sprint(s.root.Version), s.root.Hash.String())
	chunksDir := filepath.Join(cpDir, "chunks")
	r := prng.New(c.RSeed ^ 0x1EF7)
	if c.Leftover == "junk" {
		if err := os.MkdirAll(chunksDir, 0o700); err != nil {
			return nil, err
		}
		for i := 0; i < 1+r.Intn(12); i++ {
			n := []int{0, 1, 7, 40, 300, 5000, 70000}[r.Intn(7)]
			if err := os.WriteFile(filepath.Join(chunksDir, fmt.Sprint(i)), r.Bytes(n), 0o600); err != nil {
				return nil, err
			}
		}
	} else {
		prev, err := fc.CreateCheckpoint(ctx, s.root, c.PrevSize, c.PrevThr)
		if err != nil {
			return nil, err
		}
		if err := os.Remove(filepath.Join(cpDir, "meta")); err != nil {
			return nil, err
		}
		if c.Leftover == "partial" {
			for i := range prev.Chunks {
				if r.Chance(50) {
					_ = os.Remove(filepath.Join(chunksDir, fmt.Sprint(i)))
				}
			}
		}
	}
	meta, err := fc.CreateCheckpoint(ctx, s.root, c.ChunkSize, c.Threads)
	if err != nil {
		return nil, err
	}
	out := &ckpt{meta: meta}
	for i := range meta.Chunks {
		cm, err := meta.GetChunkMetadata(uint64(i))
		if err != nil {
			return nil, err
		}
		var buf bytes.Buffer
		if err := fc.GetCheckpointChunk(ctx, cm, &buf); err != nil {
			return nil, err
		}
		out.chunks = append(out.chunks, buf.Bytes())
	}
	return out, nil
}

// ---------- independent chunk decoder ----------

type pnode struct {
	elen  int // length of the proof entry (tag + serialized node) for full entries
	bits  int
	label []byte
	kind  byte // 0 nil, 1 leaf, 2 internal, 3 hash
	k, v  []byte
	lf    *pnode
	l, r  *pnode
	depth int
}

// cborItems decodes a stream of CBOR byte strings / nulls.
func cborItems(b []byte) ([][]byte, error) {
	var out [][]byte
	for len(b) > 0 {
		t := b[0]
		if t == 0xf6 {
			out = append(out, nil)
			b = b[1:]
			continue
		}
		if t>>5 != 2 {
			return nil, fmt.Errorf("unexpected CBOR item 0x%02x", t)
		}
		ai := t & 0x1f
		var n uint64
		hl := 1
		switch {
		case ai < 24:
			n = uint64(ai)
		case ai == 24:
			if len(b) < 2 {
				return nil, io.ErrUnexpectedEOF
			}
			n, hl = uint64(b[1]), 2
		case ai == 25:
			if len(b) < 3 {
				return nil, io.ErrUnexpectedEOF
			}
			n, hl = uint64(binary.BigEndian.Uint16(b[1:])), 3
		case ai == 26:
			if len(b) < 5 {
				return nil, io.ErrUnexpectedEOF
			}
			n, hl = uint64(binary.BigEndian.Uint32(b[1:])), 5
		case ai == 27:
			if len(b) < 9 {
				return nil, io.ErrUnexpectedEOF
			}
			n, hl = binary.BigEndian.Uint64(b[1:]), 9
		default:
			return nil, fmt.Errorf("indefinite length")
		}
		if uint64(len(b)-hl) < n {
			return nil, io.ErrUnexpectedEOF
		}
		item := b[hl : hl+int(n)]
		if item == nil {
			item = []byte{}
		}
		out = append(out, append([]byte{}, item...))
		b = b[hl+int(n):]
	}
	return out, nil
}

func parseLeaf(b []byte) (*pnode, int, error) {
	if len(b) < 7 || b[0] != 0x00 {
		return nil, 0, fmt.Errorf("bad leaf")
	}
	kl := int(binary.LittleEndian.Uint16(b[1:]))
	if len(b) < 3+kl+4 {
		return nil, 0, fmt.Errorf("bad leaf key")
	}
	k := b[3 : 3+kl]
	vl := int(binary.LittleEndian.Uint32(b[3+kl:]))
	if len(b) < 7+kl+vl {
		return nil, 0, fmt.Errorf("bad leaf value")
	}
	return &pnode{kind: 1, k: k, v: b[7+kl : 7+kl+vl]}, 7 + kl + vl, nil
}

// parseProof parses V0 proof entries (pre-order) starting at *pos.
func parseProof(items [][]byte, pos *int, depth int) (*pnode, error) {
	if *pos >= len(items) {
		return nil, fmt.Errorf("proof too short")
	}
	e := items[*pos]
	*pos++
	if e == nil {
		return &pnode{kind: 0, depth: depth}, nil
	}
	if len(e) == 0 {
		return nil, fmt.Errorf("empty entry")
	}
	switch e[0] {
	case 0x02:
		if len(e) != 33 {
			return nil, fmt.Errorf("bad hash entry")
		}
		return &pnode{kind: 3, depth: depth}, nil
	case 0x01:
		b := e[1:]
		if len(b) == 0 {
			return nil, fmt.Errorf("empty node")
		}
		if b[0] == 0x00 {
			n, used, err := parseLeaf(b)
			if err != nil || used != len(b) {
				return nil, fmt.Errorf("bad leaf entry")
			}
			n.depth = depth
			n.elen = len(e)
			return n, nil
		}
		if b[0] != 0x01 || len(b) < 4 {
			return nil, fmt.Errorf("bad node prefix")
		}
		bits := int(binary.LittleEndian.Uint16(b[1:]))
		ll := (bits + 7) / 8
		if len(b) < 3+ll+1 {
			return nil, fmt.Errorf("bad label")
		}
		rest := b[3+ll:]
		n := &pnode{kind: 2, depth: depth, bits: bits, label: append([]byte{}, b[3:3+ll]...), elen: len(e)}
		if rest[0] == 0x02 {
			if len(rest) != 1 {
				return nil, fmt.Errorf("trailing bytes")
			}
		} else {
			lf, used, err := parseLeaf(rest)
			if err != nil || used != len(rest) {
				return nil, fmt.Errorf("bad inline leaf")
			}
			n.lf = lf
		}
		var err error
		if n.l, err = parseProof(items, pos, depth+1); err != nil {
			return nil, err
		}
		if n.r, err = parseProof(items, pos, depth+1); err != nil {
			return nil, err
		}
		return n, nil
	}
	return nil, fmt.Errorf("bad entry tag")
}

func (n *pnode) walk(f func(k, v []byte), maxDepth *int) {
	if n == nil {
		return
	}
	if n.depth > *maxDepth {
		*maxDepth = n.depth
	}
	switch n.kind {
	case 1:
		f(n.k, n.v)
	case 2:
		if n.lf != nil {
			f(n.lf.k, n.lf.v)
		}
		n.l.walk(f, maxDepth)
		n.r.walk(f, maxDepth)
	}
}

// decodeTree parses a chunk file into its proof tree.
func decodeTree(b []byte) (*pnode, error) {
	raw, err := io.ReadAll(snappy.NewReader(bytes.NewReader(b)))
	if err != nil {
		return nil, err
	}
	items, err := cborItems(raw)
	if err != nil {
		return nil, err
	}
	pos := 0
	root, err := parseProof(items, &pos, 0)
	if err != nil {
		return nil, err
	}
	if pos != len(items) {
		return nil, fmt.Errorf("unused entries")
	}
	return root, nil
}

// coqShape renders a complete proof tree (no hash entries) as a Ckpt.Stack.dshape term.
func coqShape(n *pnode) (string, bool) {
	switch n.kind {
	case 0:
		return "DNil", true
	case 1:
		return "(DLeaf " + coqout.Bytes(n.k) + " " + coqout.Bytes(n.v) + ")", true
	case 2:
		lf := "None"
		if n.lf != nil {
			lf = "(Some (" + coqout.Bytes(n.lf.k) + ", " + coqout.Bytes(n.lf.v) + "))"
		}
		l, ok1 := coqShape(n.l)
		r, ok2 := coqShape(n.r)
		return fmt.Sprintf("(DNode %d %s %s %s %s)", n.bits, coqout.Bytes(n.label), lf, l, r), ok1 && ok2
	}
	return "", false
}

// shapeOf dumps the shape of the source tree: its whole-tree proof (one
// sequential chunk with an unbounded chunk size).
func shapeOf(s *source) (string, error) {
	if s.shape != "" {
		return s.shape, nil
	}
	c, err := createOnce(s, ^uint64(0), 0)
	if err != nil {
		return "", err
	}
	if len(c.chunks) != 1 {
		return "", fmt.Errorf("whole-tree checkpoint has %d chunks", len(c.chunks))
	}
	root, err := decodeTree(c.chunks[0])
	if err != nil {
		return "", err
	}
	sh, ok := coqShape(root)
	if !ok {
		return "", fmt.Errorf("whole-tree proof contains hash entries")
	}
	s.shape = sh
	return sh, nil
}

// decodeChunk returns the key/value pairs of a chunk file in proof order and the deepest entry.
func decodeChunk(b []byte) ([]kv, int, error) {
	raw, err := io.ReadAll(snappy.NewReader(bytes.NewReader(b)))
	if err != nil {
		return nil, 0, err
	}
	items, err := cborItems(raw)
	if err != nil {
		return nil, 0, err
	}
	pos := 0
	root, err := parseProof(items, &pos, 0)
	if err != nil {
		return nil, 0, err
	}
	if pos != len(items) {
		return nil, 0, fmt.Errorf("unused entries")
	}
	var out []kv
	md := 0
	root.walk(func(k, v []byte) { out = append(out, kv{k, v}) }, &md)
	return out, md, nil
}

// ---------- running one case ----------

type finding struct{ key, what string }

type result struct {
	faultNote string
	ests     []uint64 // sequential chunker: recomputed estimate of every chunk
	finds    []finding
	viol     []string
	stats    []string
	chunkKey [][][]byte // per chunk: keys in proof order
	nchunks  int
	maxDepth int
	skipK    bool
}

func (r *result) v(format string, a ...any) { r.viol = append(r.viol, fmt.Sprintf(format, a...)) }
func (r *result) s(k string)                { r.stats = append(r.stats, k) }

func sameContents(a, b []kv) bool {
	if len(a) != len(b) {
		return false
	}
	for i := range a {
		if !bytes.Equal(a[i].k, b[i].k) || !bytes.Equal(a[i].v, b[i].v) {
			return false
		}
	}
	return true
}

func readAll(ndb api.NodeDB, root node.Root) (out []kv, err error) {
	defer func() {
		if p := recover(); p != nil {
			err = fmt.Errorf("panic: %v", p)
		}
	}()
	ctx := context.Background()
	tree := mkvs.NewWithRoot(nil, ndb, root)
	defer tree.Close()
	it := tree.NewIterator(ctx)
	defer it.Close()
	for it.Rewind(); it.Valid(); it.Next() {
		out = append(out, kv{append([]byte{}, it.Key()...), append([]byte{}, it.Value()...)})
	}
	return out, it.Err()
}

func errClass(err error) string {
	switch {
	case err == nil:
		return "ok"
	case errors.Is(err, checkpoint.ErrChunkCorrupted):
		return "corrupted"
	case errors.Is(err, checkpoint.ErrChunkProofVerificationFailed):
		return "proof-failed"
	case errors.Is(err, checkpoint.ErrChunkAlreadyRestored):
		return "already-restored"
	case errors.Is(err, checkpoint.ErrNoRestoreInProgress):
		return "no-restore"
	case errors.Is(err, checkpoint.ErrChunkNotFound):
		return "chunk-not-found"
	}
	return "other:" + err.Error()
}

func getCkpt(s *source, size uint64, threads uint16, res *result) (*ckpt, error) {
	key := fmt.Sprintf("%d/%d", size, threads)
	if c := s.cps[key]; c != nil {
		return c, nil
	}
	c1, err := createOnce(s, size, threads)
	if err != nil {
		return nil, err
	}
	c2, err := createOnce(s, size, threads)
	if err != nil {
		return nil, err
	}
	// (a) determinism: same root and parameters, same metadata and chunk files.
	if len(c1.meta.Chunks) != len(c2.meta.Chunks) || !c1.meta.Root.Equal(&c2.meta.Root) || c1.meta.Version != c2.meta.Version {
		res.v("metadata-differs-between-two-creations (%d vs %d chunks)", len(c1.meta.Chunks), len(c2.meta.Chunks))
	} else {
		for i := range c1.meta.Chunks {
			if !c1.meta.Chunks[i].Equal(&c2.meta.Chunks[i]) || !bytes.Equal(c1.chunks[i], c2.chunks[i]) {
				res.v("metadata-differs-between-two-creations (chunk %d)", i)
				break
			}
		}
	}
	if !c1.meta.Root.Equal(&s.root) {
		res.v("metadata-root-differs-from-requested-root")
	}
	for i, b := range c1.chunks {
		var h hash.Hash
		h.FromBytes(b)
		if !h.Equal(&c1.meta.Chunks[i]) {
			res.v("metadata-digest-is-not-the-digest-of-chunk-file %d", i)
		}
	}
	s.cps[key] = c1
	return c1, nil
}

// checkChunks: (b) the chunks carry exactly the contents.
func checkChunks(s *source, c *ckpt, size uint64, threads uint16, res *result) {
	seen := map[string][]byte{}
	var fresh []kv // keys in order of first appearance
	res.nchunks = len(c.chunks)
	for i, b := range c.chunks {
		es, md, err := decodeChunk(b)
		if err != nil {
			res.v("chunk-file-undecodable chunk %d: %v", i, err)
			res.skipK = true
			return
		}
		if md > res.maxDepth {
			res.maxDepth = md
		}
		var keys [][]byte
		nfresh := 0
		run := map[string]bool{}
		lastFresh := ""
		for j, e := range es {
			keys = append(keys, e.k)
			if j > 0 && bytes.Compare(es[j-1].k, e.k) >= 0 {
				res.v("chunk-keys-not-ascending chunk %d", i)
			}
			if old, ok := seen[string(e.k)]; ok {
				if !bytes.Equal(old, e.v) {
					res.v("chunks-disagree-on-value chunk %d", i)
				}
				continue
			}
			seen[string(e.k)] = e.v
			fresh = append(fresh, e)
			nfresh++
			run[string(e.k)] = true
			lastFresh = string(e.k)
		}
		res.chunkKey = append(res.chunkKey, keys)
		if threads == 0 && nfresh > 0 {
			// the boundary rule of the sequential chunker, judged on the implementation:
			// a chunk is closed by the first key that lifts the estimate to the chunk
			// size (only the last chunk may stay below), never later
			root, _ := decodeTree(b)
			est, before := seqEstimate(root, run, lastFresh)
			res.ests = append(res.ests, est)
			if est < size && i != len(c.chunks)-1 {
				res.v("sequential-chunk-closed-below-chunk-size chunk %d: estimate %d < %d", i, est, size)
			}
			if nfresh >= 2 && before >= size {
				res.v("sequential-chunk-overshoots chunk %d: estimate before its last key %d >= %d", i, before, size)
			}
		}
		if len(s.es) > 0 && len(es) == 0 {
			res.v("empty-chunk chunk %d of %d", i, len(c.chunks))
		}
		if threads == 0 && len(s.es) > 0 && nfresh == 0 {
			res.v("sequential-chunk-without-new-key chunk %d", i)
		}
	}
	if len(s.es) > 0 && len(c.chunks) > len(s.es) {
		res.v("more-chunks-than-keys (%d > %d)", len(c.chunks), len(s.es))
	}
	if len(c.chunks) == 0 {
		res.v("zero-chunks")
	}
	if threads == 0 {
		// sequential: first appearances, chunk after chunk, are the contents in order
		if !sameContents(fresh, s.es) {
			res.v("sequential-chunks-do-not-partition-contents-in-order (%d of %d keys)", len(fresh), len(s.es))
		}
	} else {
		sort.Slice(fresh, func(i, j int) bool { return bytes.Compare(fresh[i].k, fresh[j].k) < 0 })
		if !sameContents(fresh, s.es) {
			res.v("chunks-do-not-cover-contents (%d of %d keys)", len(fresh), len(s.es))
		}
	}
}

// seqEstimate recomputes, from a decoded chunk of the SEQUENTIAL chunker, the
// proof builder's size estimate when the chunk was closed (every included
// node: 1 + len(serialized) = the length of its proof entry; a leaf held
// inline by an internal node is counted again when the iterator visited it,
// i.e. when its key belongs to the chunk's run) and the estimate the builder
// had before the last key of the run was visited.
func seqEstimate(root *pnode, run map[string]bool, last string) (est, before uint64) {
	var walk func(n *pnode) (all, others int)
	walk = func(n *pnode) (int, int) {
		if n == nil {
			return 0, 0
		}
		switch n.kind {
		case 1:
			if !run[string(n.k)] {
				return 0, 0
			}
			est += uint64(n.elen)
			if string(n.k) != last {
				before += uint64(n.elen)
				return 1, 1
			}
			return 1, 0
		case 2:
			all, others := 0, 0
			if n.lf != nil && run[string(n.lf.k)] {
				dbl := uint64(8 + len(n.lf.k) + len(n.lf.v))
				est += dbl
				all++
				if string(n.lf.k) != last {
					before += dbl
					others++
				}
			}
			a1, o1 := walk(n.l)
			a2, o2 := walk(n.r)
			all, others = all+a1+a2, others+o1+o2
			// the node is included iff some key of the run lies below it
			if all > 0 {
				est += uint64(n.elen)
			}
			if others > 0 {
				before += uint64(n.elen)
			}
			return all, others
		}
		return 0, 0
	}
	walk(root)
	return
}

// gatedReader announces its first Read and then blocks until released: the
// RestoreChunk call that owns it is pinned "in flight" (past the restorer's
// pending check, nothing imported yet).
type gatedReader struct {
	r       io.Reader
	once    sync.Once
	started chan struct{}
	release chan struct{}
}

func (g *gatedReader) Read(p []byte) (int, error) {
	g.once.Do(func() { close(g.started) })
	<-g.release
	return g.r.Read(p)
}

type delivery struct {
	idx  int
	data []byte
	bad  bool
}

func runCase(c Case) (res *result) {
	res = &result{}
	defer func() {
		if p := recover(); p != nil {
			res.v("panic: %v", p)
		}
	}()
	s, err := getSource(c.Tree, c.Src)
	if err != nil {
		res.v("cannot-build-source-tree: %v", err)
		return
	}
	cp, err := getCkpt(s, c.ChunkSize, c.Threads, res)
	if err != nil {
		res.v("create-checkpoint-failed: %v", err)
		return
	}
	if c.Leftover != "" {
		// the directory is not empty: what is served afterwards must still be
		// exactly what a creation into an empty directory writes
		over, err := createOver(s, c)
		if err != nil {
			res.v("create-checkpoint-over-leftovers-failed: %v", err)
			return
		}
		res.s("leftover:" + c.Leftover)
		if len(over.meta.Chunks) != len(cp.meta.Chunks) {
			res.v("metadata-differs-after-leftovers (%d vs %d chunks; leftovers=%s of size=%d threads=%d)", len(over.meta.Chunks), len(cp.meta.Chunks), c.Leftover, c.PrevSize, c.PrevThr)
		} else {
			for i := range over.chunks {
				var h hash.Hash
				h.FromBytes(over.chunks[i])
				if !over.meta.Chunks[i].Equal(&cp.meta.Chunks[i]) {
					res.v("metadata-differs-after-leftovers (digest of chunk %d)", i)
					break
				}
				if !h.Equal(&over.meta.Chunks[i]) {
					res.v("served-chunk-is-not-the-chunk-written chunk %d of %d: served %d bytes, written %d bytes (leftovers=%s of size=%d threads=%d)", i, len(over.chunks), len(over.chunks[i]), len(cp.chunks[i]), c.Leftover, c.PrevSize, c.PrevThr)
					break
				}
			}
		}
		// the usual restore runs from what is served
		cp = over
	}
	if c.Fault > 0 {
		// a read error during creation: either CreateCheckpoint reports it, or what
		// it created must restore to exactly the source contents
		fcp, why, err := createFaulty(s, c)
		if err != nil {
			res.v("create-checkpoint-with-fault-setup-failed: %v", err)
			return
		}
		if fcp == nil {
			res.s("fault:" + why)
		} else {
			res.s("fault:success-after-failed-read")
			res.faultNote = why
			res.skipK = true // not the fault-free creation the model describes
			cp = fcp
		}
	}
	nv := len(res.viol)
	checkChunks(s, cp, c.ChunkSize, c.Threads, res)
	if res.faultNote != "" && len(res.viol) > nv {
		for i := nv; i < len(res.viol); i++ {
			res.viol[i] += " [CreateCheckpoint reported " + res.faultNote + "]"
		}
	}
	n := len(cp.chunks)
	if n == 0 {
		return
	}

	// (c)/(d) restore into an empty database.
	ctx := context.Background()
	dir, err := os.MkdirTemp(tmpRoot, "dst")
	if err != nil {
		panic(err)
	}
	defer os.RemoveAll(dir)
	ndb, err := openDB(c.Dst, dir)
	if err != nil {
		panic(err)
	}
	defer ndb.Close()
	rs, _ := checkpoint.NewRestorer(ndb)

	meta := *cp.meta
	meta.Chunks = append([]hash.Hash{}, cp.meta.Chunks...)
	forged := *cp.meta
	forged.Chunks = append([]hash.Hash{}, cp.meta.Chunks...)
	isForged := false
	r := prng.New(c.RSeed)

	// the corrupted delivery
	var bad *delivery
	ci := 0
	if n > 0 {
		ci = ((c.CorruptIdx % n) + n) % n
	}
	good := cp.chunks[ci]
	switch c.Corrupt {
	case "":
	case "flip":
		b := append([]byte{}, good...)
		if len(b) > 0 {
			p := c.CorruptPos % uint64(len(b)*8)
			b[p/8] ^= 1 << (p % 8)
		}
		bad = &delivery{idx: ci, data: b, bad: true}
	case "trunc":
		cut := 0
		if len(good) > 0 {
			cut = int(c.CorruptPos % uint64(len(good)))
		}
		bad = &delivery{idx: ci, data: append([]byte{}, good[:cut]...), bad: true}
	case "empty":
		bad = &delivery{idx: ci, data: []byte{}, bad: true}
	case "swap":
		cj := (ci + 1 + int(c.CorruptPos%uint64(max(n-1, 1)))) % n
		if bytes.Equal(cp.chunks[cj], good) {
			res.s("corrupt-skipped:swap-needs-two-different-chunks")
		} else {
			bad = &delivery{idx: ci, data: cp.chunks[cj], bad: true}
		}
	case "digest":
		// the metadata names a different digest for the chunk: the genuine chunk must be refused
		forged.Chunks[ci][c.CorruptPos%32] ^= 0x40
		isForged = true
		bad = &delivery{idx: ci, data: good, bad: true}
	case "other", "other-digest":
		osp := c.Tree
		osp.Seed ^= 0xABCDEF
		if osp.Kind == "empty" || osp.Kind == "single" {
			osp.Kind, osp.N = "random", 5
		}
		o, err := getSource(osp, c.Src)
		if err != nil {
			panic(err)
		}
		ocp, err := getCkpt(o, c.ChunkSize, c.Threads, &result{})
		if err != nil {
			panic(err)
		}
		oi := ci % len(ocp.chunks)
		if o.root.Hash.Equal(&s.root.Hash) {
			res.s("corrupt-skipped:other-tree-identical")
		} else {
			bad = &delivery{idx: ci, data: ocp.chunks[oi], bad: true}
			if c.Corrupt == "other-digest" {
				// also the metadata is forged consistently: only the proof can tell
				forged.Chunks[ci] = ocp.meta.Chunks[oi]
				isForged = true
			}
		}
	}

	// delivery schedule: a random permutation, duplicates at random places
	var sched []delivery
	perm := make([]int, n)
	for i := range perm {
		perm[i] = i
	}
	for i := n - 1; i > 0; i-- {
		j := r.Intn(i + 1)
		perm[i], perm[j] = perm[j], perm[i]
	}
	for _, i := range perm {
		sched = append(sched, delivery{idx: i, data: cp.chunks[i]})
	}
	for d := 0; d < c.Dups; d++ {
		i := r.Intn(n)
		p := r.Intn(len(sched) + 1)
		sched = append(sched[:p], append([]delivery{{idx: i, data: cp.chunks[i]}}, sched[p:]...)...)
	}

	fullAborts := 0
	// restart abandons the restore in progress and starts one for [m]
	restart := func(m *checkpoint.Metadata, first bool) bool {
		if !first {
			if err := rs.AbortRestore(ctx); err != nil {
				res.v("AbortRestore failed: %v", err)
				return false
			}
			if c.FullAbort {
				if err := ndb.AbortMultipartInsert(); err != nil {
					res.v("AbortMultipartInsert failed: %v", err)
					return false
				}
				fullAborts++
			}
		}
		// (when the multipart insert of this version is still running this is a no-op)
		if err := ndb.StartMultipartInsert(m.Root.Version); err != nil {
			res.v("StartMultipartInsert failed: %v", err)
			return false
		}
		if err := rs.StartRestore(ctx, m); err != nil {
			res.v("StartRestore failed: %v", err)
			return false
		}
		return true
	}
	if !restart(&meta, true) {
		return
	}

	// phase 1 (optional): a prefix of the schedule, then abort and restart
	if c.AbortAt >= 0 {
		k := c.AbortAt % (len(sched) + 1)
		if k == len(sched) && k > 0 {
			k-- // never complete the restore before aborting
		}
		completed := false
		for _, d := range sched[:k] {
			done, err := rs.RestoreChunk(ctx, uint64(d.idx), bytes.NewReader(d.data))
			if cl := errClass(err); cl != "ok" && cl != "already-restored" && !(completed && cl == "no-restore") {
				if cl == "proof-failed" && chunkDepth(d.data) > maxProofDepth {
					res.finds = append(res.finds, finding{finDepth, fmt.Sprintf("genuine chunk %d of %d refused: %v", d.idx, n, err)})
					return
				}
				res.v("good-chunk-refused before abort (chunk %d): %s", d.idx, cl)
			}
			completed = completed || done
		}
		res.s("abort-restart")
		if !restart(&meta, false) {
			return
		}
	}

	// phase 2 (optional): the corrupted delivery, before its good twin
	if bad != nil {
		if isForged && !restart(&forged, false) {
			return
		}
		done, err := rs.RestoreChunk(ctx, uint64(bad.idx), bytes.NewReader(bad.data))
		cl := errClass(err)
		res.s("corrupt:" + c.Corrupt + ":" + cl)
		if err == nil || done {
			res.v("corrupt-chunk-accepted class=%s chunk=%d", c.Corrupt, bad.idx)
		} else if cl != "corrupted" && cl != "proof-failed" {
			res.v("corrupt-chunk-unexpected-error class=%s: %s", c.Corrupt, cl)
		}
		// a forged manifest is abandoned; a proof failure has aborted the restorer
		if isForged || cl == "proof-failed" || err == nil {
			if !restart(&meta, false) {
				return
			}
		}
	}

	doneCount := 0
	depthHit := ""
	finalized := false
	gated := c.Gate != 0 && n >= 2
	if gated {
		// phase 3g: chunk k is pinned in flight by caller A; caller B restores every
		// other chunk.  No call may report done=true before k's import has completed.
		k := n - 1
		if c.Gate > 0 {
			k = (c.Gate - 1) % n
		}
		pos := "middle"
		if k == 0 {
			pos = "first"
		} else if k == n-1 {
			pos = "last"
		}
		res.s("gated:" + pos + ":" + c.Dst)
		gr := &gatedReader{r: bytes.NewReader(cp.chunks[k]), started: make(chan struct{}), release: make(chan struct{})}
		type rr struct {
			done bool
			err  error
		}
		resA := make(chan rr, 1)
		go func() {
			defer func() {
				if p := recover(); p != nil {
					resA <- rr{false, fmt.Errorf("panic: %v", p)}
				}
			}()
			done, err := rs.RestoreChunk(ctx, uint64(k), gr)
			resA <- rr{done, err}
		}()
		<-gr.started
		released := false
		release := func() {
			if !released {
				released = true
				close(gr.release)
			}
		}
		defer release()
		kImported := false // some call for chunk k has returned successfully
		early := func(who string) {
			// done=true although chunk k has not been imported by anybody
			res.v("done-signalled-while-a-chunk-is-still-in-flight (chunk %d of %d pinned, done returned by %s)", k, n, who)
			// what the real callers do now: finalize
			finalized = true
			if err := ndb.Finalize([]node.Root{s.root}); err != nil {
				res.v("early-done-Finalize failed: %v", err)
			} else if got, err := readAll(ndb, s.root); err != nil || !sameContents(got, s.es) {
				res.v("early-done-finalized-contents-differ (%d keys read, %d expected, err=%v)", len(got), len(s.es), err)
			}
		}
		var bsched []delivery
		for _, d := range sched {
			if d.idx != k {
				bsched = append(bsched, d)
			}
		}
		if c.GateDup {
			// a duplicate of the pinned chunk, at a seeded position
			p := r.Intn(len(bsched) + 1)
			bsched = append(bsched[:p], append([]delivery{{idx: k, data: cp.chunks[k]}}, bsched[p:]...)...)
			res.s("gated-duplicate-while-in-flight")
		}
		for _, d := range bsched {
			done, err := rs.RestoreChunk(ctx, uint64(d.idx), bytes.NewReader(d.data))
			cl := errClass(err)
			switch cl {
			case "ok":
				if d.idx == k {
					kImported = true
				}
			case "already-restored":
			case "no-restore":
				res.s("late-duplicate-after-completion")
			case "proof-failed":
				if chunkDepth(d.data) > maxProofDepth {
					depthHit = fmt.Sprintf("genuine chunk %d of %d (deepest proof entry at depth %d) refused: %v", d.idx, n, chunkDepth(d.data), err)
				} else {
					res.v("good-chunk-refused (chunk %d of %d, gated): %s", d.idx, n, cl)
				}
			default:
				res.v("good-chunk-refused (chunk %d of %d, gated): %s", d.idx, n, cl)
			}
			if done {
				doneCount++
				if !kImported && !finalized {
					early(fmt.Sprintf("the call for chunk %d", d.idx))
				}
			}
			if depthHit != "" || finalized {
				break
			}
		}
		release()
		ra := <-resA
		if ra.done {
			doneCount++
		}
		switch cl := errClass(ra.err); {
		case cl == "ok" || cl == "already-restored":
		case finalized || kImported || depthHit != "":
			// the pinned call lost a race it is allowed to lose
			res.s("pinned-call-after-completion:" + kindOf(cl))
		case cl == "proof-failed" && chunkDepth(cp.chunks[k]) > maxProofDepth:
			depthHit = fmt.Sprintf("genuine chunk %d of %d (deepest proof entry at depth %d) refused: %v", k, n, chunkDepth(cp.chunks[k]), ra.err)
		default:
			res.v("good-chunk-refused (pinned chunk %d of %d): %s", k, n, cl)
		}
		if finalized {
			return
		}
	}
	if !gated {
	// phase 3: the whole schedule from [Goroutines] concurrent callers
	g := c.Goroutines
	if g < 1 {
		g = 1
	}
	var mu sync.Mutex
	next := 0
	var wg sync.WaitGroup
	for w := 0; w < g; w++ {
		wg.Add(1)
		go func() {
			defer wg.Done()
			defer func() {
				if p := recover(); p != nil {
					mu.Lock()
					res.v("panic in RestoreChunk: %v", p)
					mu.Unlock()
				}
			}()
			for {
				mu.Lock()
				if next >= len(sched) {
					mu.Unlock()
					return
				}
				d := sched[next]
				next++
				mu.Unlock()
				done, err := rs.RestoreChunk(ctx, uint64(d.idx), bytes.NewReader(d.data))
				cl := errClass(err)
				mu.Lock()
				if done {
					doneCount++
				}
				switch cl {
				case "ok", "already-restored":
				case "no-restore":
					// legitimate only once the restore has completed
					res.s("late-duplicate-after-completion")
				case "proof-failed":
					if chunkDepth(d.data) > maxProofDepth {
						depthHit = fmt.Sprintf("genuine chunk %d of %d (deepest proof entry at depth %d) refused: %v", d.idx, n, chunkDepth(d.data), err)
					} else {
						res.v("good-chunk-refused (chunk %d of %d, %d goroutines): %s", d.idx, n, g, cl)
					}
				default:
					res.v("good-chunk-refused (chunk %d of %d, %d goroutines): %s", d.idx, n, g, cl)
				}
				mu.Unlock()
			}
		}()
	}
	wg.Wait()
	}
	if depthHit != "" {
		// the restore cannot complete: every consequence is this one finding
		res.finds = append(res.finds, finding{finDepth, depthHit})
		return
	}
	if doneCount == 0 {
		res.v("restore-never-signalled-completion (%d chunks, %d deliveries)", n, len(sched))
	}
	if rs.GetCurrentCheckpoint() != nil {
		res.v("restorer-still-active-after-all-chunks")
		return
	}
	if err := ndb.Finalize([]node.Root{s.root}); err != nil {
		res.v("Finalize-after-restore failed: %v", err)
		return
	}
	if !ndb.HasRoot(s.root) {
		res.v("restored-root-not-reported-by-HasRoot")
	}
	got, err := readAll(ndb, s.root)
	if err != nil || !sameContents(got, s.es) {
		what := fmt.Sprintf("restored-contents-differ (%d keys read, %d expected)", len(got), len(s.es))
		if err != nil {
			what = fmt.Sprintf("restored-root-unreadable: %v", err)
		}
		if c.Dst == "pathbadger" && fullAborts > 0 {
			res.finds = append(res.finds, finding{finRestart, fmt.Sprintf("after %d AbortMultipartInsert+StartMultipartInsert of version %d, complete restore and successful Finalize: %s", fullAborts, version, what)})
		} else {
			res.v("%s", what)
		}
		return
	}
	// point reads of every key through a fresh tree
	tree := mkvs.NewWithRoot(nil, ndb, s.root)
	for i, e := range s.es {
		if i%7 != 0 {
			continue
		}
		v, err := tree.Get(ctx, e.k)
		if err != nil || !bytes.Equal(v, e.v) {
			res.v("restored-key-unreadable-by-Get")
			break
		}
	}
	tree.Close()
	return
}

// ---------- generator ----------

var corruptions = []string{"", "flip", "trunc", "swap", "digest", "other", "other-digest", "flip", "empty"}

func genTreeSpec(r *prng.R, i int, maxN int) TreeSpec {
	kinds := []string{"mixed", "random", "dense", "chain", "bitchain", "numeric", "mixed", "random", "single", "empty", "dense", "chain"}
	k := kinds[i%len(kinds)]
	sp := TreeSpec{Kind: k, Seed: r.U64(), ValMax: []int{0, 3, 8, 40}[r.Intn(4)]}
	switch k {
	case "empty":
	case "single":
		sp.N = 1
	case "chain", "bitchain":
		sp.N = []int{2, 5, 17, 40, 90, 120}[r.Intn(6)]
	default:
		switch r.Intn(6) {
		case 0:
			sp.N = 1 + r.Intn(8)
		case 1, 2:
			sp.N = 8 + r.Intn(60)
		case 3, 4:
			sp.N = 60 + r.Intn(300)
		default:
			sp.N = 300 + r.Intn(maxN-300+1)
		}
	}
	return sp
}

func approxSize(es []kv) uint64 {
	var t uint64
	for _, e := range es {
		t += uint64(len(e.k) + len(e.v) + 12)
	}
	return t
}

func genCases(r *prng.R, i int, maxN int, perTree int) []Case {
	sp := genTreeSpec(r, i, maxN)
	es := genTree(sp)
	total := approxSize(es)
	backends := []string{"badger", "pathbadger"}
	src := backends[i%2]
	var out []Case
	for j := 0; j < perTree; j++ {
		var size uint64
		switch r.Intn(6) {
		case 0:
			size = 1
		case 1:
			size = uint64(2 + r.Intn(60))
		case 2:
			size = uint64(60 + r.Intn(400))
		case 3:
			size = total/uint64(2+r.Intn(6)) + 1
		case 4:
			size = total*3 + 1000
		default:
			size = uint64(1 + r.Intn(int(total)+2))
		}
		// keep the number of chunks (files, restores) bounded
		if n := uint64(len(es)); n > 400 && size < total/300 {
			size = total/300 + 1
		}
		var threads uint16
		switch r.Intn(5) {
		case 0:
			threads = 0
		case 1:
			threads = 1
		case 2:
			threads = uint16(2 + r.Intn(3))
		default:
			threads = uint16(1 + r.Intn(32))
		}
		c := Case{Tree: sp, Src: src, Dst: backends[r.Intn(2)], ChunkSize: size, Threads: threads,
			RSeed: r.U64(), Goroutines: []int{1, 1, 2, 3, 4, 8}[r.Intn(6)], Dups: r.Intn(4), AbortAt: -1,
			Corrupt: corruptions[r.Intn(len(corruptions))], CorruptIdx: r.Intn(1 << 20), CorruptPos: r.U64() >> 8}
		if r.Chance(25) {
			c.AbortAt = r.Intn(1 << 20)
		}
		c.FullAbort = r.Chance(40)
		if r.Chance(25) {
			c.Fault = 1 + r.Intn(1<<20)
			c.FaultKind = []string{"err", "notfound"}[r.Intn(2)]
			if r.Chance(50) {
				c.Threads = 0
			}
		}
		if r.Chance(22) {
			c.Leftover = []string{"full", "full", "partial", "junk"}[r.Intn(4)]
			// mostly an earlier attempt with BIGGER chunks (its files are longer than the new ones)
			switch r.Intn(4) {
			case 0:
				c.PrevSize = size/uint64(2+r.Intn(4)) + 1
			case 1:
				c.PrevSize = size
			default:
				c.PrevSize = size*uint64(2+r.Intn(20)) + total
			}
			c.PrevThr = uint16([]int{0, 0, 1, 3, 8}[r.Intn(5)])
		}
		if r.Chance(30) {
			c.Gate = []int{1, -1, 1 + r.Intn(1<<20), 1 + r.Intn(1<<20)}[r.Intn(4)]
			c.GateDup = r.Chance(35)
		}
		out = append(out, c)
	}
	return out
}

// deep trees: beyond the proof verifier's depth limit
func deepCases(r *prng.R) []Case {
	var out []Case
	for _, k := range []string{"chain", "bitchain"} {
		for _, n := range []int{128, 129, 130, 131, 200} {
			sp := TreeSpec{Kind: k, N: n, Seed: 7, ValMax: 3}
			out = append(out, Case{Tree: sp, Src: "pathbadger", Dst: []string{"badger", "pathbadger"}[r.Intn(2)],
				ChunkSize: uint64(40 + r.Intn(5000)), Threads: uint16(r.Intn(5)), RSeed: r.U64(), Goroutines: 1, AbortAt: -1})
		}
	}
	return out
}

func kindOf(v string) string {
	if i := strings.IndexAny(v, " ("); i >= 0 {
		return v[:i]
	}
	return v
}

func shrink(c Case, kind string) Case {
	try := func(d Case) bool {
		res := runCase(d)
		for _, v := range res.viol {
			if kindOf(v) == kind {
				return true
			}
		}
		for _, f := range res.finds {
			if f.key == kind {
				return true
			}
		}
		return false
	}
	cur := c
	for _, f := range []func(*Case){
		func(d *Case) { d.Goroutines = 1 },
		func(d *Case) { d.Leftover = "" },
		func(d *Case) {
			if d.Leftover != "" {
				d.Leftover = "full"
			}
		},
		func(d *Case) { d.GateDup = false },
		func(d *Case) {
			if d.Gate != 0 {
				d.Gate = 1
			}
		},
		func(d *Case) { d.Dups = 0 },
		func(d *Case) { d.AbortAt = -1 },
		func(d *Case) { d.Corrupt = "" },
		func(d *Case) { d.Tree.ValMax = 0 },
	} {
		d := cur
		f(&d)
		if try(d) {
			cur = d
		}
	}
	for cur.Tree.N > 1 {
		progressed := false
		for _, n := range []int{cur.Tree.N / 2, cur.Tree.N * 3 / 4, cur.Tree.N - 1} {
			if n < 1 || n >= cur.Tree.N {
				continue
			}
			d := cur
			d.Tree.N = n
			if try(d) {
				cur, progressed = d, true
				break
			}
		}
		if !progressed {
			break
		}
	}
	return cur
}

func coqKV(e kv) string { return "(" + coqout.Bytes(e.k) + ", " + coqout.Bytes(e.v) + ")" }

func main() {
	seed := flag.Uint64("seed", 1, "seed")
	ntrees := flag.Int("trees", 40, "number of generated trees")
	perTree := flag.Int("per-tree", 4, "cases (chunk size, threads, restore schedule) per tree")
	maxN := flag.Int("maxn", 1500, "largest tree")
	kmax := flag.Int("kmax", 160, "largest tree evaluated by the Coq model")
	nboundary := flag.Int("boundary", 4, "number of sequential checkpoints from which boundary chunk sizes (estimate, +-1) are derived (12 cases each)")
	kwork := flag.Int("kwork", 300000, "bound on chunks x key bytes for a case to be evaluated by the Coq model")
	kbuild := flag.Int("kbuild", 60, "largest tree the model builds itself by insert (larger ones are rebuilt from the dumped shape)")
	stackBudget := flag.Int("stack-budget", 1500000, "keys*chunks*depth^2 bound for evaluating the stack port")
	out := flag.String("out", "", "output directory")
	replay := flag.String("replay", "", "replay a case description (JSON file)")
	deep := flag.Bool("deep", true, "include trees deeper than the proof verifier's limit")
	mode := flag.String("mode", "ckpt", "ckpt: checkpoints end to end; restorer: restorer bookkeeping schedules")
	ncases := flag.Int("cases", 60, "restorer mode: number of schedules")
	flag.Parse()
	if *out == "" {
		fmt.Fprintln(os.Stderr, "need -out")
		os.Exit(2)
	}
	var err error
	tmpRoot, err = os.MkdirTemp("", "verif-ckpt")
	if err != nil {
		panic(err)
	}
	defer os.RemoveAll(tmpRoot)

	if *replay != "" {
		// the case description tells which stream it belongs to
		if b, err := os.ReadFile(*replay); err == nil && bytes.Contains(b, []byte("\"events\"")) {
			*mode = "restorer"
		} else if err == nil && bytes.Contains(b, []byte("\"frame\"")) {
			*mode = "frame"
		} else {
			*mode = "ckpt"
		}
	}
	if *mode == "restorer" {
		restorerMain(*seed, *ncases, *out, *replay)
		return
	}
	if *mode == "frame" {
		frameMain(*seed, *ncases, *out, *replay)
		return
	}

	hdr := "From Verif Require Import Lib.Base Mkvs.Trie Ckpt.Model Ckpt.Stack.\n"
	wb := coqout.NewWriter(*out, hdr, "run_both", "ck_eqb", 12)
	sum := coqout.NewSummary("seeded trees (empty, single leaf, prefix chains, bit chains, dense 4-symbol alphabet with many internal leaves, decimal strings, random, shared-prefix mixes; 0-1500 keys; values 0-320 bytes) committed to a real badger or pathbadger database; per tree several (chunk size from 1 byte to 3x the tree, threads 0..16, restore order with duplicates, 1-8 goroutines, optional abort+restart, one corruption class); non-trivial = checkpoint with at least 2 chunks restored completely; distinct = distinct (tree, chunk size, threads)")

	var cases []Case
	if *replay != "" {
		b, err := os.ReadFile(*replay)
		if err != nil {
			panic(err)
		}
		var c Case
		var wrap struct {
			Case *Case `json:"case"`
		}
		if json.Unmarshal(b, &wrap) == nil && wrap.Case != nil {
			c = *wrap.Case
		} else if err := json.Unmarshal(b, &c); err != nil {
			panic(err)
		}
		cases = []Case{c}
	} else {
		r := prng.New(*seed)
		if *deep {
			cases = append(cases, deepCases(r.Fork())...)
		}
		for i := 0; i < *ntrees; i++ {
			cases = append(cases, genCases(r.Fork(), i, *maxN, *perTree)...)
		}
	}

	seen := map[string]bool{}
	violSeen := map[string]bool{}
	findSeen := map[string]bool{}
	boundaryLeft := *nboundary
	for ci := 0; ci < len(cases); ci++ {
		c := cases[ci]
		res := runCase(c)
		sum.Evaluations++
		if c.Boundary != "" {
			sum.Count("boundary", c.Boundary)
		}
		// (3) chunk sizes at the exact boundary values of the estimate: from the
		// recomputed estimates of a sequential checkpoint derive sizes est, est-1,
		// est+1 of its first and of a middle chunk, for both chunkers
		if *replay == "" && c.Boundary == "" && c.Threads == 0 && len(res.ests) >= 2 && len(res.viol) == 0 && boundaryLeft > 0 {
			boundaryLeft--
			for _, i := range []int{0, len(res.ests) / 2} {
				for _, d := range []int{-1, 0, 1} {
					for _, th := range []uint16{0, uint16(2 + (ci+i)%7)} {
						sz := int64(res.ests[i]) + int64(d)
						if sz < 1 {
							continue
						}
						b := c
						b.ChunkSize, b.Threads = uint64(sz), th
						b.Corrupt, b.Gate, b.GateDup, b.AbortAt, b.Dups, b.Goroutines = "", 0, false, -1, 0, 1
						b.Boundary = fmt.Sprintf("estimate-of-chunk%+d", d)
						if i > 0 {
							b.Boundary = "middle-" + b.Boundary
						} else {
							b.Boundary = "first-" + b.Boundary
						}
						cases = append(cases, b)
					}
				}
			}
		}
		s, _ := getSource(c.Tree, c.Src)
		nkeys := 0
		if s != nil {
			nkeys = len(s.es)
		}
		sum.Count("tree_kind", c.Tree.Kind)
		sum.Count("keys", bucket(nkeys))
		sum.Count("chunks", bucket(res.nchunks))
		sum.Count("threads", fmt.Sprint(c.Threads))
		sum.Count("backend_src_dst", c.Src+"->"+c.Dst)
		sum.Count("goroutines", fmt.Sprint(c.Goroutines))
		sum.Count("proof_depth", bucket(res.maxDepth))
		if c.AbortAt >= 0 {
			sum.Count("misc", "abort+restart")
		}
		if c.Dups > 0 {
			sum.Count("misc", "duplicates")
		}
		for _, k := range res.stats {
			sum.Count("misc", k)
		}
		key := fmt.Sprintf("%v/%d/%d", c.Tree, c.ChunkSize, c.Threads)
		if res.nchunks >= 2 && len(res.viol) == 0 && len(res.finds) == 0 && !seen[key] {
			sum.DistinctNontrivial++
		}
		seen[key] = true
		sum.Sample(c, 3)

		lit := 0 // cost of evaluating the byte-string literals of the case
		if s != nil {
			for _, e := range s.es {
				lit += len(e.k)*len(e.k)*len(e.k) + len(e.v)*len(e.v)*len(e.v)
			}
		}
		work := 0 // chunks x total key bytes: what evaluating the prunings costs
		if s != nil {
			for _, e := range s.es {
				work += len(e.k) + 4
			}
			work *= res.nchunks
		}
		if s != nil && !res.skipK && nkeys <= *kmax && lit > 40000000 {
			sum.Count("misc", "K-skipped(long byte strings)")
		} else if s != nil && !res.skipK && nkeys <= *kmax && work > *kwork {
			sum.Count("misc", "K-skipped(work budget)")
		}
		if s != nil && !res.skipK && nkeys <= *kmax && lit <= 40000000 && work <= *kwork && len(res.chunkKey) > 0 {
			src := ""
			if nkeys <= *kbuild {
				es := make([]string, len(s.order))
				for i, e := range s.order {
					es[i] = coqKV(e)
				}
				src = "(ByEntries " + coqout.List(es) + ")"
				sum.Count("misc", "K-tree-built-by-model-insert")
			} else {
				sh, err := shapeOf(s)
				if err != nil {
					panic(err)
				}
				src = "(ByShape " + sh + ")"
				sum.Count("misc", "K-tree-from-dumped-shape")
			}
			idx := map[string]int{}
			for i, e := range s.es {
				idx[string(e.k)] = i
			}
			var chunks []string
			for _, ks := range res.chunkKey {
				var l []string
				for _, k := range ks {
					if i, ok := idx[string(k)]; ok {
						l = append(l, fmt.Sprint(i))
					} else {
						l = append(l, "99999999")
					}
				}
				chunks = append(chunks, coqout.List(l))
			}
			// the stack port identifies nodes by subtree comparison: bounded work only
			both := c.Threads > 0 && nkeys*res.nchunks*(res.maxDepth+1)*(res.maxDepth+1) <= *stackBudget
			if both {
				sum.Count("misc", "K-stack-port-evaluated")
			}
			term := fmt.Sprintf("((%s, %d, %d, %s), %s)", src, c.ChunkSize, c.Threads, coqout.Bool(both), coqout.List(chunks))
			wb.Add(term, map[string]any{"case": c})
			sum.Count("misc", "K-case")
		}

		for _, f := range res.finds {
			sum.Count("findings", f.key)
			if findSeen[f.key] {
				continue
			}
			findSeen[f.key] = true
			sc := c
			if *replay == "" {
				sc = shrink(c, f.key)
			}
			sum.Findings = append(sum.Findings, coqout.Finding{Key: f.key, What: f.what, Replay: map[string]any{"case": sc}})
		}
		for _, v := range res.viol {
			kind := kindOf(v)
			sum.Count("violations", kind)
			if violSeen[kind] || len(sum.Violations) >= 6 {
				continue
			}
			violSeen[kind] = true
			sc := c
			if *replay == "" {
				sc = shrink(c, kind)
			}
			sum.Violations = append(sum.Violations, map[string]any{"what": v, "case": sc})
		}
		if *replay != "" {
			fmt.Printf("chunks=%d maxdepth=%d stats=%v\nviolations=%v\nfindings=%v\n", res.nchunks, res.maxDepth, res.stats, res.viol, res.finds)
		}
	}
	for _, s := range srcs {
		s.ndb.Close()
	}
	wb.Close()
	sum.Write(*out)
}

func bucket(n int) string {
	switch {
	case n == 0:
		return "0"
	case n == 1:
		return "1"
	case n < 10:
		return "2-9"
	case n < 100:
		return "10-99"
	case n < 1000:
		return "100-999"
	}
	return "1000+"
}
