package main

type searchTarget struct {
	name  string
	seeds [][]byte
	fn    func(b []byte) error
}

func searchTargets() []searchTarget { return nil }
