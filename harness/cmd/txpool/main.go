// Command txpool drives the real main-queue scheduler of go/runtime/txpool
// (through the verif-tagged export wrapper) with seeded operation sequences,
// records its observable behaviour as Coq correspondence cases for
// Verif.Txpool.Model, and evaluates the C20 property predicates directly on
// the implementation's outputs with a small independent Go reference (S).
package main

import (
	"encoding/json"
	"flag"
	"fmt"
	"math"
	"os"
	"sort"
	"strconv"
	"strings"

	"github.com/oasisprotocol/oasis-core/go/common/crypto/hash"
	"github.com/oasisprotocol/oasis-core/go/runtime/txpool"

	"verifharness/internal/coqout"
	"verifharness/internal/prng"
)

type Op struct {
	K      string `json:"k"` // add schedule reset used forward clear
	ID     uint64 `json:"id,omitempty"`
	Sender uint64 `json:"sender,omitempty"`
	Seq    string `json:"seq,omitempty"`
	Prio   uint64 `json:"prio,omitempty"`
	State  string `json:"state,omitempty"`
	Limit  int    `json:"limit,omitempty"`
}

type Case struct {
	Cap int  `json:"cap"`
	Ops []Op `json:"ops"`
}

func u(s string) uint64 { v, _ := strconv.ParseUint(s, 10, 64); return v }
func us(v uint64) string { return strconv.FormatUint(v, 10) }

// ---------- independent Go reference (for S) ----------
type rtx struct {
	id, sender, seq, prio uint64
}
type ref struct {
	cap     int
	txs     map[uint64]*rtx
	senders map[uint64]uint64
	sched   map[uint64]uint64
}

func newRef(c int) *ref {
	return &ref{cap: c, txs: map[uint64]*rtx{}, senders: map[uint64]uint64{}, sched: map[uint64]uint64{}}
}
func (r *ref) bySeq(sender, seq uint64) *rtx {
	for _, t := range r.txs {
		if t.sender == sender && t.seq == seq {
			return t
		}
	}
	return nil
}
func (r *ref) hasSender(s uint64) bool {
	for _, t := range r.txs {
		if t.sender == s {
			return true
		}
	}
	return false
}
func (r *ref) remove(t *rtx) {
	delete(r.txs, t.id)
	if !r.hasSender(t.sender) {
		delete(r.senders, t.sender)
	}
}
func (r *ref) isReady(t *rtx) bool {
	if last, ok := r.sched[t.sender]; ok {
		return last != math.MaxUint64 && t.seq == last+1
	}
	c, ok := r.senders[t.sender]
	return ok && t.seq == c
}
func (r *ref) ready() []*rtx {
	var out []*rtx
	for _, t := range r.txs {
		if r.isReady(t) {
			out = append(out, t)
		}
	}
	return out
}
func (r *ref) forward(sender, seq uint64) {
	c, ok := r.senders[sender]
	if !ok || seq <= c {
		return
	}
	r.senders[sender] = seq
	var dead []*rtx
	for _, t := range r.txs {
		if t.sender == sender && t.seq < seq {
			dead = append(dead, t)
		}
	}
	for _, t := range dead {
		r.remove(t)
	}
}

// add returns the expected error class and, when the pool overflows, the set
// of ids any of which may be evicted (all of minimal priority).
func (r *ref) add(t *rtx, state uint64) (string, map[uint64]bool) {
	c, ok := r.senders[t.sender]
	if !ok {
		c = state
		r.senders[t.sender] = c
	}
	if t.seq < c {
		return "expired", nil
	}
	if old := r.bySeq(t.sender, t.seq); old != nil {
		if old.prio >= t.prio {
			return "replunder", nil
		}
		delete(r.txs, old.id)
		r.txs[t.id] = t
		return "ok", nil
	}
	r.txs[t.id] = t
	if len(r.txs) <= r.cap {
		return "ok", nil
	}
	minp := uint64(math.MaxUint64)
	for _, x := range r.txs {
		if x.prio < minp {
			minp = x.prio
		}
	}
	cands := map[uint64]bool{}
	for _, x := range r.txs {
		if x.prio == minp {
			cands[x.id] = true
		}
	}
	return "trim", cands
}

// ---------- running a case on the implementation ----------
type runResult struct {
	coqOps   []string
	coqObs   []string
	violated string // non-empty: the property predicate failed on the implementation
	finding  string // non-empty: known-finding key observed
	stats    map[string]int
	nontriv  bool
	panicked bool
}

func errClass(err error) string {
	if err == nil {
		return "ok"
	}
	switch {
	case strings.Contains(err.Error(), "replacement transaction underpriced"):
		return "replunder"
	case strings.Contains(err.Error(), "transaction underpriced"):
		return "under"
	case strings.Contains(err.Error(), "expired"):
		return "expired"
	}
	return "other:" + err.Error()
}

var coqCode = map[string]string{"ok": "COk", "expired": "CExpired", "replunder": "CReplUnderpriced", "under": "CUnderpriced"}

func runCase(c Case) (res runResult) {
	res = runResult{stats: map[string]int{}}
	defer func() {
		if e := recover(); e != nil {
			res.violated = fmt.Sprintf("implementation panicked: %v", e)
			res.panicked = true
		}
	}()
	s := txpool.VerifNewScheduler(c.Cap)
	r := newRef(c.Cap)
	idOf := map[hash.Hash]uint64{}
	hashOf := map[uint64]hash.Hash{}
	all := func() []uint64 {
		var ids []uint64
		for _, m := range s.All() {
			ids = append(ids, idOf[m.Hash()])
		}
		sort.Slice(ids, func(i, j int) bool { return ids[i] < ids[j] })
		return ids
	}
	refAll := func() []uint64 {
		var ids []uint64
		for id := range r.txs {
			ids = append(ids, id)
		}
		sort.Slice(ids, func(i, j int) bool { return ids[i] < ids[j] })
		return ids
	}
	eq := func(a, b []uint64) bool {
		if len(a) != len(b) {
			return false
		}
		for i := range a {
			if a[i] != b[i] {
				return false
			}
		}
		return true
	}
	viol := func(i int, f string, a ...any) {
		if res.violated == "" {
			res.violated = fmt.Sprintf("op %d: ", i) + fmt.Sprintf(f, a...)
		}
	}
	passEmitted := map[uint64]bool{}
	emittedInPass := 0
	for i, o := range c.Ops {
		code := "COk"
		switch o.K {
		case "add":
			raw := []byte(fmt.Sprintf("tx-%d", o.ID))
			meta := txpool.VerifNewMeta(raw)
			idOf[meta.Hash()] = o.ID
			hashOf[o.ID] = meta.Hash()
			before := all()
			err := s.Add(meta, fmt.Sprintf("s%d", o.Sender), u(o.Seq), o.Prio, u(o.State))
			after := all()
			cls := errClass(err)
			// which id left the pool?
			inAfter := map[uint64]bool{}
			for _, x := range after {
				inAfter[x] = true
			}
			evict := uint64(0)
			for _, x := range append(before, o.ID) {
				if !inAfter[x] {
					evict = x
				}
			}
			t := &rtx{id: o.ID, sender: o.Sender, seq: u(o.Seq), prio: o.Prio}
			exp, cands := r.add(t, u(o.State))
			if exp == "trim" {
				res.stats["trim"]++
				if !cands[evict] {
					viol(i, "capacity eviction removed id %d which is not of minimal priority (candidates %v)", evict, cands)
				} else {
					r.remove(r.txs[evict])
					if evict == o.ID {
						exp = "under"
					} else {
						exp = "ok"
					}
				}
			}
			if cls != exp {
				viol(i, "add returned %q, reference says %q", cls, exp)
			}
			res.stats["add:"+cls]++
			cc, ok := coqCode[cls]
			if !ok {
				cc = "CBadChoice"
			}
			code = cc
			res.coqOps = append(res.coqOps, fmt.Sprintf("OAdd (mkTx %d %d %s %d) %s %d", o.ID, o.Sender, o.Seq, o.Prio, o.State, evict))
		case "schedule":
			metas := s.Schedule(o.Limit)
			var picks []string
			lim := o.Limit
			if lim > 100 {
				lim = 100
			}
			if lim < 0 {
				lim = 0
			}
			for _, m := range metas {
				id := idOf[m.Hash()]
				picks = append(picks, us(id))
				t := r.txs[id]
				if t == nil {
					viol(i, "scheduled id %d which is not in the pool", id)
					continue
				}
				if passEmitted[id] {
					viol(i, "id %d scheduled twice in one pass", id)
				}
				passEmitted[id] = true
				emittedInPass++
				// sender order: must be ready per the reference (current seq, or successor of the last scheduled)
				if !r.isReady(t) {
					viol(i, "scheduled id %d (sender %d seq %d) although it is not ready", id, t.sender, t.seq)
				}
				for _, x := range r.ready() {
					if x.prio > t.prio {
						viol(i, "scheduled id %d prio %d while ready id %d has prio %d", id, t.prio, x.id, x.prio)
					}
				}
				if len(r.ready()) > 1 {
					res.stats["pick_among_many"]++
				}
				r.sched[t.sender] = t.seq
			}
			if len(metas) < lim && len(r.ready()) > 0 {
				x := r.ready()[0]
				viol(i, "schedule returned %d < limit %d although id %d (sender %d seq %d) is ready", len(metas), lim, x.id, x.sender, x.seq)
				if x.seq == 1<<63 {
					res.finding = "C20:successor-of-2^63-1-not-scheduled"
				}
			}
			if len(metas) > lim {
				viol(i, "schedule returned %d > limit %d", len(metas), lim)
			}
			res.stats["sched_len:"+strconv.Itoa(len(metas))]++
			if len(metas) >= 2 {
				res.nontriv = true
			}
			res.coqOps = append(res.coqOps, fmt.Sprintf("OSchedule %d [%s]", max(o.Limit, 0), strings.Join(picks, "; ")))
		case "reset":
			s.Reset()
			r.sched = map[uint64]uint64{}
			passEmitted = map[uint64]bool{}
			emittedInPass = 0
			res.coqOps = append(res.coqOps, "OReset")
		case "used":
			h, ok := hashOf[o.ID]
			if !ok {
				h = hash.NewFromBytes([]byte(fmt.Sprintf("tx-%d", o.ID)))
			}
			s.HandleTxUsed(h)
			if t := r.txs[o.ID]; t != nil {
				r.remove(t)
				if t.seq < math.MaxUint64 {
					r.forward(t.sender, t.seq+1)
				}
			}
			res.coqOps = append(res.coqOps, fmt.Sprintf("OUsed %d", o.ID))
		case "forward":
			s.Forward(fmt.Sprintf("s%d", o.Sender), u(o.Seq))
			r.forward(o.Sender, u(o.Seq))
			res.coqOps = append(res.coqOps, fmt.Sprintf("OForward %d %s", o.Sender, o.Seq))
		case "clear":
			s.Clear()
			r.txs = map[uint64]*rtx{}
			r.senders = map[uint64]uint64{}
			res.coqOps = append(res.coqOps, "OClear")
		}
		res.stats["op:"+o.K]++
		ids := all()
		if len(ids) > c.Cap {
			viol(i, "pool holds %d > capacity %d", len(ids), c.Cap)
		}
		if s.Size() != len(ids) {
			viol(i, "size() %d != len(all()) %d", s.Size(), len(ids))
		}
		if !eq(ids, refAll()) {
			viol(i, "contents %v differ from reference %v", ids, refAll())
		}
		var sids []string
		for _, x := range ids {
			sids = append(sids, us(x))
		}
		res.coqObs = append(res.coqObs, fmt.Sprintf("(%s, [%s])", code, strings.Join(sids, "; ")))
	}
	return res
}

// ---------- generation ----------
func genCase(r *prng.R, big bool) Case {
	c := Case{Cap: r.Range(1, 6)}
	if r.Chance(10) {
		c.Cap = r.Range(7, 12)
	}
	nSenders := r.Range(1, 4)
	bases := []uint64{0, 0, 5, 1<<63 - 2, 1<<63 - 1, math.MaxUint64 - 3, math.MaxUint64 - 1}
	base := make([]uint64, nSenders+1)
	for i := range base {
		if big {
			base[i] = bases[r.Intn(len(bases))]
		} else {
			base[i] = bases[r.Intn(3)]
		}
	}
	seqOf := func(s uint64) uint64 {
		b := base[s]
		off := uint64(r.Intn(5))
		if r.Chance(5) {
			off = uint64(r.Intn(9))
		}
		if b > math.MaxUint64-off {
			return math.MaxUint64
		}
		return b + off
	}
	n := r.Range(3, 40)
	nextID := uint64(1)
	var live []uint64
	for i := 0; i < n; i++ {
		x := r.Intn(100)
		switch {
		case x < 50:
			s := uint64(r.Range(1, nSenders))
			st := base[s]
			if r.Chance(15) {
				st = seqOf(s)
			}
			c.Ops = append(c.Ops, Op{K: "add", ID: nextID, Sender: s, Seq: us(seqOf(s)), Prio: uint64(r.Intn(4)), State: us(st)})
			live = append(live, nextID)
			nextID++
		case x < 70:
			lim := r.Intn(7)
			if r.Chance(3) {
				lim = 150
			}
			c.Ops = append(c.Ops, Op{K: "schedule", Limit: lim})
		case x < 80:
			c.Ops = append(c.Ops, Op{K: "reset"})
		case x < 90:
			id := uint64(r.Range(1, int(nextID)))
			c.Ops = append(c.Ops, Op{K: "used", ID: id})
		case x < 98:
			s := uint64(r.Range(1, nSenders))
			c.Ops = append(c.Ops, Op{K: "forward", Sender: s, Seq: us(seqOf(s))})
		default:
			c.Ops = append(c.Ops, Op{K: "clear"})
		}
	}
	return c
}

// shrink greedily drops operations while the implementation-side oracle still
// reports a violation of the same kind.
func shrink(c Case, res runResult) Case {
	kind := func(r runResult) string {
		w := r.violated
		if i := strings.Index(w, ": "); i >= 0 {
			w = w[i+2:]
		}
		// digits out
		var sb strings.Builder
		for _, ch := range w {
			if ch < '0' || ch > '9' {
				sb.WriteRune(ch)
			}
		}
		return sb.String()
	}
	want := kind(res)
	for changed := true; changed; {
		changed = false
		for i := 0; i < len(c.Ops); i++ {
			ops := append(append([]Op{}, c.Ops[:i]...), c.Ops[i+1:]...)
			cand := Case{Cap: c.Cap, Ops: ops}
			r := runCase(cand)
			if r.violated != "" && kind(r) == want {
				c = cand
				changed = true
				i--
			}
		}
	}
	return c
}

// the boundary pattern of interest written out: sender at B holding B and B+1, one pass
func boundaryCase(b uint64) Case {
	return Case{Cap: 4, Ops: []Op{
		{K: "add", ID: 1, Sender: 1, Seq: us(b), Prio: 1, State: us(b)},
		{K: "add", ID: 2, Sender: 1, Seq: us(b + 1), Prio: 1, State: us(b)},
		{K: "reset"},
		{K: "schedule", Limit: 5},
	}}
}

func main() {
	seed := flag.Uint64("seed", 1, "seed")
	n := flag.Int("cases", 300, "number of generated cases")
	out := flag.String("out", "", "output directory")
	replay := flag.String("replay", "", "replay a case description (JSON file)")
	flag.Parse()
	if *out == "" {
		fmt.Fprintln(os.Stderr, "need -out")
		os.Exit(2)
	}
	hdr := "From Verif Require Import Lib.Base Txpool.Model Gen.TxpoolConsts.\n"
	wb := coqout.NewWriter(*out, hdr, "fun c => (run_case_book next_sched_stop c, run_case_ref c)", "fun a b => list_eqb obs_eqb (fst a) (fst b) && list_eqb obs_eqb (snd a) (snd b)", 250)
	sum := coqout.NewSummary("seeded operation sequences (add/schedule/reset/used/forward/clear) over 1-4 senders with sequence bases {0,5,2^63-2,2^63-1,2^64-4,2^64-2}, priorities 0..3, capacities 1..12, limits 0..6 and 150; non-trivial = some schedule call returned >= 2 transactions; distinct = distinct operation lists")
	var cases []Case
	if *replay != "" {
		b, err := os.ReadFile(*replay)
		if err != nil {
			panic(err)
		}
		var c Case
		// accept either a bare case or {"case": ...}
		var wrap struct {
			Case *Case `json:"case"`
		}
		if json.Unmarshal(b, &wrap) == nil && wrap.Case != nil {
			c = *wrap.Case
		} else if err := json.Unmarshal(b, &c); err != nil {
			panic(err)
		}
		cases = []Case{c}
	} else {
		for _, b := range []uint64{5, 1<<63 - 2, 1<<63 - 1, 1 << 63, math.MaxUint64 - 1} {
			cases = append(cases, boundaryCase(b))
		}
		r := prng.New(*seed)
		for i := 0; i < *n; i++ {
			cases = append(cases, genCase(r.Fork(), i%2 == 0))
		}
	}
	seen := map[string]bool{}
	for _, c := range cases {
		res := runCase(c)
		key, _ := json.Marshal(c)
		if res.nontriv && !seen[string(key)] {
			sum.DistinctNontrivial++
		}
		seen[string(key)] = true
		sum.Evaluations++
		for k, v := range res.stats {
			parts := strings.SplitN(k, ":", 2)
			h, kk := parts[0], ""
			if len(parts) == 2 {
				kk = parts[1]
			} else {
				h, kk = "misc", parts[0]
			}
			for j := 0; j < v; j++ {
				sum.Count(h, kk)
			}
		}
		sum.Sample(c, 3)
		term := fmt.Sprintf("((%d, %s), (%s, %s))", c.Cap, coqout.List(res.coqOps), coqout.List(res.coqObs), coqout.List(res.coqObs))
		if !res.panicked {
			wb.Add(term, map[string]any{"case": c})
		}
		if res.violated != "" {
			c = shrink(c, res)
			res = runCase(c)
			if res.finding != "" {
				sum.Findings = append(sum.Findings, coqout.Finding{Key: res.finding, What: res.violated, Replay: map[string]any{"case": c}})
			} else {
				sum.Violations = append(sum.Violations, map[string]any{"what": res.violated, "case": c})
			}
		}
	}
	wb.Close()
	sum.Write(*out)
}
