package main

// Mode keys: exhaustive sweeps of the real node.Key functions (Split, Merge,
// AppendBit, GetBit, BitLength, CommonPrefixLen) over all packed bit strings up
// to a length bound, folded into checksums that Verif.Mkvs.KeySweep recomputes
// on the byte-wise model (enumeration order and checksum as in KeySweep.v).

import (
	"fmt"
	"strconv"
	"strings"

	"github.com/oasisprotocol/oasis-core/go/storage/mkvs/node"

	"verifharness/internal/coqout"
)

const hmask = uint64(1)<<61 - 1

func hmix(h, x uint64) uint64 { return (h*31 + x + 1) & hmask }

func hbytes(h uint64, b []byte) uint64 {
	h = hmix(h, uint64(len(b)))
	for _, x := range b {
		h = hmix(h, uint64(x))
	}
	return h
}

// A bit string of length n is the integer v < 2^n whose most significant bit
// is the first bit: all_paths(n) in KeySweep.v order is v = 0 .. 2^n-1.
type bpath struct {
	v uint32
	n int
}

// pack: bits MSB first, last byte zero padded; the empty path is an empty non-nil key.
func (p bpath) pack() node.Key {
	nb := (p.n + 7) / 8
	k := make(node.Key, nb)
	x := uint64(p.v) << uint(nb*8-p.n)
	for i := nb - 1; i >= 0; i-- {
		k[i] = byte(x)
		x >>= 8
	}
	return k
}

func (p bpath) String() string {
	if p.n == 0 {
		return "<>"
	}
	return fmt.Sprintf("%0*b", p.n, p.v)
}

// pathsUpto calls f for every bit string of length 0..n in KeySweep.v order.
func pathsUpto(n int, f func(p bpath)) {
	for l := 0; l <= n; l++ {
		for v := uint32(0); v < uint32(1)<<uint(l); v++ {
			f(bpath{v, l})
		}
	}
}

type keySweeper struct {
	perFn  map[string]int
	ncalls int
	viols  []map[string]any
	desc   Case
	trace  bool // print every call (diagnosis of a checksum difference)
}

// guard runs one call of a real function, turning a panic into a violation
// that records the inputs.
func (ks *keySweeper) guard(fn string, inputs func() map[string]any, f func()) (ok bool) {
	ks.ncalls++
	ks.perFn[fn]++
	defer func() {
		if p := recover(); p != nil {
			ok = false
			if len(ks.viols) < 20 {
				ks.viols = append(ks.viols, map[string]any{
					"what": fmt.Sprintf("node.Key.%s panicked: %v", fn, p), "case": ks.desc, "inputs": inputs()})
			}
		}
	}()
	f()
	return true
}

func (ks *keySweeper) run(w, n int) uint64 {
	h := uint64(0)
	d := func(x int) node.Depth { return node.Depth(x) }
	switch w {
	case 1: // Split
		pathsUpto(n, func(p bpath) {
			k := p.pack()
			for sp := 0; sp <= p.n; sp++ {
				var a, b node.Key
				if ks.guard("Split", func() map[string]any {
					return map[string]any{"p": p.String(), "key": fmt.Sprintf("%x", []byte(k)), "split_point": sp, "key_len": p.n}
				}, func() {
					a, b = k.Split(d(sp), d(p.n))
				}) {
					h = hbytes(hbytes(h, a), b)
					if ks.trace {
						fmt.Printf("split p=%s sp=%d -> %x %x h=%d\n", p, sp, []byte(a), []byte(b), h)
					}
				}
			}
		})
	case 2: // Merge
		pathsUpto(n, func(a bpath) {
			ka := a.pack()
			pathsUpto(n-a.n, func(b bpath) {
				kb := b.pack()
				var m node.Key
				if ks.guard("Merge", func() map[string]any { return map[string]any{"a": a.String(), "b": b.String()} }, func() {
					m = ka.Merge(d(a.n), kb, d(b.n))
				}) {
					h = hbytes(h, m)
					if ks.trace {
						fmt.Printf("merge a=%s b=%s -> %x h=%d\n", a, b, []byte(m), h)
					}
				}
			})
		})
	case 3: // AppendBit
		pathsUpto(n, func(p bpath) {
			k := p.pack()
			var k0, k1 node.Key
			ok0 := ks.guard("AppendBit", func() map[string]any { return map[string]any{"p": p.String(), "bit": false} }, func() { k0 = k.AppendBit(d(p.n), false) })
			ok1 := ks.guard("AppendBit", func() map[string]any { return map[string]any{"p": p.String(), "bit": true} }, func() { k1 = k.AppendBit(d(p.n), true) })
			if ok0 && ok1 {
				h = hbytes(hbytes(h, k0), k1)
				if ks.trace {
					fmt.Printf("appendbit p=%s -> %x %x h=%d\n", p, []byte(k0), []byte(k1), h)
				}
			}
		})
	case 4: // BitLength, GetBit
		pathsUpto(n, func(p bpath) {
			k := p.pack()
			bl := 0
			ks.guard("BitLength", func() map[string]any { return map[string]any{"p": p.String()} }, func() { bl = int(k.BitLength()) })
			for i := 0; i < bl; i++ {
				var bit bool
				if ks.guard("GetBit", func() map[string]any { return map[string]any{"p": p.String(), "i": i} }, func() { bit = k.GetBit(d(i)) }) {
					x := uint64(0)
					if bit {
						x = 1
					}
					h = hmix(h, x)
					if ks.trace {
						fmt.Printf("getbit p=%s i=%d -> %v h=%d\n", p, i, bit, h)
					}
				}
			}
		})
	case 5: // CommonPrefixLen, all pairs
		pathsUpto(n, func(a bpath) {
			ka := a.pack()
			pathsUpto(n, func(b bpath) {
				kb := b.pack()
				var c node.Depth
				if ks.guard("CommonPrefixLen", func() map[string]any { return map[string]any{"a": a.String(), "b": b.String()} }, func() {
					c = ka.CommonPrefixLen(d(a.n), kb, d(b.n))
				}) {
					h = hmix(h, uint64(c))
					if ks.trace {
						fmt.Printf("cpl a=%s b=%s -> %d h=%d\n", a, b, c, h)
					}
				}
			})
		})
	case 6: // CommonPrefixLen against prefixes of a with one bit flipped
		pathsUpto(n, func(a bpath) {
			ka := a.pack()
			for j := 0; j < a.n; j++ {
				fl := a.v ^ (uint32(1) << uint(a.n-1-j))
				for m := 0; m <= a.n; m++ {
					b := bpath{fl >> uint(a.n-m), m}
					kb := b.pack()
					var c node.Depth
					if ks.guard("CommonPrefixLen", func() map[string]any { return map[string]any{"a": a.String(), "b": b.String(), "flipped_bit": j} }, func() {
						c = ka.CommonPrefixLen(d(a.n), kb, d(b.n))
					}) {
						h = hmix(h, uint64(c))
						if ks.trace {
							fmt.Printf("cpl2 a=%s j=%d m=%d b=%s -> %d h=%d\n", a, j, m, b, c, h)
						}
					}
				}
			}
		})
	}
	return h
}

func parseKlen(s string) ([6]int, error) {
	var out [6]int
	parts := strings.Split(s, ",")
	if len(parts) != 6 {
		return out, fmt.Errorf("-klen needs six comma separated bounds")
	}
	for i, p := range parts {
		v, err := strconv.Atoi(strings.TrimSpace(p))
		if err != nil || v < 0 || v > 24 {
			return out, fmt.Errorf("-klen: bad bound %q (0..24)", p)
		}
		out[i] = v
	}
	return out, nil
}

func mainKeys(out string, klen [6]int, rp *replayInput, trace bool) {
	w := coqout.NewWriter(out, "From Verif Require Import Lib.Base Mkvs.Trie Mkvs.Key Mkvs.KeySweep.\n", "run_keys", "keys_eqb", 1)
	sum := coqout.NewSummary("exhaustive sweeps of the real node.Key functions over all bit strings (packed MSB first, zero padded) up to a length bound n, folded into a checksum h <- (31h + x + 1) mod 2^61 over every output byte / value, recomputed by Verif.Mkvs.KeySweep on the byte-wise model: " +
		"1 Split at every split point; 2 Merge of every a,b with |a|+|b| <= n; 3 AppendBit of both bits; 4 BitLength and GetBit at every position of the packed key; 5 CommonPrefixLen of every pair; 6 CommonPrefixLen of a against every prefix of a with one bit flipped; " +
		"evaluations = distinct_nontrivial = number of calls of the real functions (every call has distinct inputs)")
	sum.Extra["api_coverage"] = apiCoverage("keys")
	defer func() {
		w.Close()
		sum.Write(out)
	}()
	var todo []Case
	if rp != nil {
		todo = append(todo, *rp.single)
	} else {
		for i, n := range klen {
			todo = append(todo, Case{Mode: "keys", Sweep: i + 1, N: n})
		}
	}
	for _, c := range todo {
		ks := &keySweeper{perFn: map[string]int{}, desc: c, trace: trace}
		h := ks.run(c.Sweep, c.N)
		w.Add(fmt.Sprintf("((%d, %d%%nat), %d)", c.Sweep, c.N, h), c)
		sum.Evaluations += ks.ncalls
		sum.DistinctNontrivial += ks.ncalls
		if sum.Histograms["calls"] == nil {
			sum.Histograms["calls"] = map[string]int{}
		}
		for fn, k := range ks.perFn {
			sum.Histograms["calls"][fn] += k
		}
		sum.Count("sweeps", fmt.Sprintf("sweep%d_n%d", c.Sweep, c.N))
		sum.Sample(map[string]any{"desc": c, "checksum": strconv.FormatUint(h, 10), "calls": ks.ncalls}, 6)
		for _, v := range ks.viols {
			sum.Violations = append(sum.Violations, v)
		}
	}
}
