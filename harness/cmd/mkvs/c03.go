package main

// Mode c03: one tree and a stack of overlays; every answer (Get,
// RemoveExisting, iteration) is recorded for the Coq model (run_c03) and
// compared with a plain Go reference (a stack of maps).

import (
	"bytes"
	"fmt"
	"strings"

	"github.com/oasisprotocol/oasis-core/go/storage/mkvs"
	"github.com/oasisprotocol/oasis-core/go/storage/mkvs/node"

	"verifharness/internal/coqout"
	"verifharness/internal/prng"
)

const maxOverlayDepth = 4

type res03 struct {
	coqOps   []string
	coqRes   []string
	eff      []Op // operations actually performed (illegal ones skipped)
	cut      int  // with a violation: the number of leading operations that produced it
	sig      sigState
	viol     *violation
	panicked bool
	stats    counts
	answered bool // some iter / remex answered non-trivially
	pushed   bool
	maxDepth int
	reopens  int
	forked   bool
}

func (r *res03) term(useLog bool) string {
	ops := "(@nil fop)"
	if len(r.coqOps) > 0 {
		ops = coqout.List(r.coqOps)
	}
	rs := "(@nil sres)"
	if len(r.coqRes) > 0 {
		rs = coqout.List(r.coqRes)
	}
	return fmt.Sprintf("((%s, %s),\n %s)", coqout.Bool(useLog), ops, rs)
}

func (r *res03) kinds() string {
	var ks []string
	for _, o := range r.eff {
		ks = append(ks, o.K)
	}
	return strings.Join(ks, ",")
}

type kv struct{ k, v []byte }

func optCoq(v []byte) string {
	if v == nil {
		return "(RVal None)"
	}
	return "(RVal (Some " + coqBytes(v) + "))"
}

// delta is the reference of one overlay level: what it wrote and what it removed.
type delta struct {
	writes map[string][]byte
	tomb   map[string]bool
}

func newDelta() *delta { return &delta{writes: map[string][]byte{}, tomb: map[string]bool{}} }

func (d *delta) copy() *delta {
	n := newDelta()
	for k, v := range d.writes {
		n.writes[k] = v
	}
	for k := range d.tomb {
		n.tomb[k] = true
	}
	return n
}

func (d *delta) ins(k string, v []byte) { d.writes[k] = v; delete(d.tomb, k) }
func (d *delta) rem(k string)           { delete(d.writes, k); d.tomb[k] = true }

// over returns the view of this level over the map below (a new map).
func (d *delta) over(below map[string][]byte) map[string][]byte {
	m := copyMap(below)
	for k := range d.tomb {
		delete(m, k)
	}
	for k, v := range d.writes {
		m[k] = v
	}
	return m
}

func runC03(c Case) (res *res03) {
	res = &res03{stats: counts{}}
	var e *env
	var tree mkvs.Tree
	var stack []mkvs.OverlayTree
	var sideB mkvs.OverlayTree // the live copy of the top overlay, nil when there is none
	at := -1                   // index of the operation being performed
	fail := func(kind, f string, a ...any) {
		if res.viol == nil {
			res.viol = &violation{kind: kind, what: fmt.Sprintf(f, a...)}
			res.cut = at + 1
			res.sig.snapshot(tree)
		}
	}
	defer func() {
		if p := recover(); p != nil {
			res.viol = &violation{kind: "panic", what: fmt.Sprintf("implementation panicked: %v", p)}
			res.cut = at + 1
			res.sig.snapshot(tree)
			debugStack()
			res.panicked = true
		}
		if sideB != nil {
			quietly(sideB.Close)
		}
		for i := len(stack) - 1; i >= 0; i-- {
			quietly(stack[i].Close)
		}
		if tree != nil {
			quietly(tree.Close)
		}
		e.close()
	}()
	var err error
	if e, err = openEnv(c.Backend); err != nil {
		fail("error", "unexpected error: opening node database: %v", err)
		return
	}
	tree = mkvs.New(nil, e.ndb, node.RootTypeState, treeOptions(c)...)
	// every call on the tree (ours and the overlays') goes through st, which scans after it
	st := &scanTree{Tree: tree}
	st.scan = func() { res.sig.scan(st.Tree) }

	// reference: the full map of the tree level, one delta (writes, tombstones) per overlay
	// level, a delta for the copy B over the same levels below the top, and what the last
	// tree commit persisted
	m0 := map[string][]byte{}
	var deltas []*delta
	var dB *delta
	var committed map[string][]byte
	viewAt := func(n int) map[string][]byte { // the tree level with the lowest n overlays applied
		m := m0
		for _, d := range deltas[:n] {
			m = d.over(m)
		}
		return m
	}
	view := func(b bool) map[string][]byte {
		if b {
			return dB.over(viewAt(len(deltas) - 1))
		}
		return viewAt(len(deltas))
	}
	treeIns := func(k string, v []byte) {
		_, had := m0[k]
		m0[k] = v
		if !had {
			res.sig.depth(m0)
		}
	}
	// levelIns / levelRem write into level n (0 = the tree, n = overlay n-1)
	levelIns := func(n int, k string, v []byte) {
		if n == 0 {
			treeIns(k, v)
		} else {
			deltas[n-1].ins(k, v)
		}
	}
	levelRem := func(n int, k string) {
		if n == 0 {
			delete(m0, k)
		} else {
			deltas[n-1].rem(k)
		}
	}
	sideIns := func(b bool, k string, v []byte) {
		if b {
			dB.ins(k, v)
		} else {
			levelIns(len(deltas), k, v)
		}
	}
	sideRem := func(b bool, k string) {
		if b {
			dB.rem(k)
		} else {
			levelRem(len(deltas), k)
		}
	}
	// commitSide: the delta of the top overlay (or of B) goes into the level below, and is cleared
	commitSide := func(b bool) {
		d := deltas[len(deltas)-1]
		if b {
			d = dB
		}
		below := len(deltas) - 1
		for _, k := range sortedKeys(d.writes) {
			levelIns(below, k, d.writes[k])
		}
		for k := range d.tomb {
			levelRem(below, k)
		}
		d.writes, d.tomb = map[string][]byte{}, map[string]bool{}
	}
	lastWriter := map[string]bool{} // during a fork: key -> written/removed most recently on B?
	crossRead := func(b bool, k []byte) {
		if w, ok := lastWriter[string(k)]; ok && w != b {
			res.stats.add("fork", "cross_reads")
		}
	}
	version := uint64(0)
	var lastRoot node.Root

	for i, o := range c.Ops {
		at = i
		onB := strings.HasPrefix(o.K, "b_")
		kind := strings.TrimPrefix(o.K, "b_")
		// legality (generated histories are legal; shrinking may make an op illegal: skipped)
		switch {
		case onB && sideB == nil:
			continue
		case onB && !(kind == "ins" || kind == "rem" || kind == "remex" || kind == "get" || kind == "iter" || kind == "ovcommit"):
			fail("error", "unexpected error: unknown operation %q", o.K)
			return
		case sideB != nil && (kind == "push" || kind == "ovdiscard" || kind == "ovcopy" || kind == "reopen" || kind == "fork"):
			continue
		}
		var target mkvs.KeyValueTree = st
		if onB {
			target = sideB
		} else if len(stack) > 0 {
			target = stack[len(stack)-1]
		}
		where := fmt.Sprintf("at overlay depth %d", len(stack))
		if onB {
			where = fmt.Sprintf("on the copy B at overlay depth %d", len(stack))
		} else if sideB != nil {
			where = fmt.Sprintf("on A (a copy B is alive) at overlay depth %d", len(stack))
		}
		if sideB != nil && kind != "closeb" {
			if onB {
				res.stats.add("fork", "ops_on_B")
			} else {
				res.stats.add("fork", "ops_on_A_while_forked")
			}
		}
		coqOp, coqRes := "", "RUnit"
		switch kind {
		case "ins", "rem", "remex", "get", "iter":
			if !o.Rewind {
				res.stats.countKey(o.Key)
			}
			if kind == "ins" {
				res.stats.countVal(o.Val)
			}
		}
		switch kind {
		case "ins":
			if err = target.Insert(ctx, nn(o.Key), nn(o.Val)); err != nil {
				fail("error", "unexpected error: op %d Insert: %v", i, err)
				return
			}
			sideIns(onB, string(o.Key), o.Val)
			if sideB != nil {
				lastWriter[string(o.Key)] = onB
			}
			res.sig.scan(tree)
			coqOp = "SIns " + coqBytes(o.Key) + " " + coqBytes(o.Val)
		case "rem":
			if err = target.Remove(ctx, nn(o.Key)); err != nil {
				fail("error", "unexpected error: op %d Remove: %v", i, err)
				return
			}
			sideRem(onB, string(o.Key))
			if sideB != nil {
				lastWriter[string(o.Key)] = onB
			}
			res.sig.scan(tree)
			coqOp = "SRem " + coqBytes(o.Key)
		case "remex", "get":
			var v []byte
			if kind == "get" {
				v, err = target.Get(ctx, nn(o.Key))
				coqOp = "SGet " + coqBytes(o.Key)
			} else {
				v, err = target.RemoveExisting(ctx, nn(o.Key))
				coqOp = "SRemEx " + coqBytes(o.Key)
			}
			res.sig.scan(tree)
			if err != nil {
				fail("error", "unexpected error: op %d %s: %v", i, o.K, err)
				return
			}
			crossRead(onB, o.Key)
			rv, ok := view(onB)[string(o.Key)]
			switch {
			case ok && v == nil:
				fail(kind+"-absent", "op %d (%s %s): key %x answered nil, the reference holds %x", i, o.K, where, o.Key, rv)
			case !ok && v != nil:
				fail(kind+"-present", "op %d (%s %s): key %x answered %x, the reference does not hold the key", i, o.K, where, o.Key, v)
			case ok && !bytes.Equal(v, rv):
				fail(kind+"-value", "op %d (%s %s): key %x answered %x, the reference holds %x", i, o.K, where, o.Key, v, rv)
			}
			if kind == "remex" {
				if ok {
					sideRem(onB, string(o.Key))
				}
				if sideB != nil {
					lastWriter[string(o.Key)] = onB
				}
				if v != nil {
					res.answered = true
				}
			}
			hm := "miss"
			if v != nil {
				hm = "hit"
			}
			res.stats.add(kind, hm)
			if v != nil {
				v = nn(v)
			}
			coqRes = optCoq(v)
		case "iter":
			var got []kv
			func() {
				it := target.NewIterator(ctx)
				defer it.Close()
				if o.Rewind {
					it.Rewind()
				} else {
					it.Seek(nn(o.Key))
				}
				for it.Valid() {
					got = append(got, kv{nn(it.Key()), nn(it.Value())})
					if len(got) >= o.N+1 {
						break
					}
					it.Next()
				}
				err = it.Err()
			}()
			res.sig.scan(tree)
			if err != nil {
				fail("error", "unexpected error: op %d iterator: %v", i, err)
				return
			}
			seek := o.Key
			if o.Rewind {
				seek = []byte{}
			}
			crossRead(onB, seek)
			var want []kv
			vw := view(onB)
			for _, k := range sortedKeys(vw) {
				if bytes.Compare([]byte(k), seek) >= 0 && len(want) < o.N+1 {
					want = append(want, kv{[]byte(k), vw[k]})
				}
			}
			same := len(got) == len(want)
			for j := 0; same && j < len(got); j++ {
				same = bytes.Equal(got[j].k, want[j].k) && bytes.Equal(got[j].v, want[j].v)
			}
			if !same {
				fail("iter", "op %d (%s seek %x rewind %v n %d %s): got %s, the reference says %s", i, o.K, seek, o.Rewind, o.N, where, showKVs(got), showKVs(want))
			}
			if len(got) > 0 {
				res.answered = true
			}
			res.stats.add("iter_result_len", bucket(len(got), 0, 1, 3, 7))
			if len(stack) >= 1 {
				res.stats.add("iter_through_overlay", fmt.Sprintf("depth_%d", len(stack)))
			} else {
				res.stats.add("iter_through_overlay", "depth_0(tree)")
			}
			var items []string
			for _, x := range got {
				items = append(items, "("+coqBytes(x.k)+", "+coqBytes(x.v)+")")
			}
			if len(items) == 0 {
				coqRes = "(RIter (@nil (bytes * bytes)))"
			} else {
				coqRes = "(RIter " + coqout.List(items) + ")"
			}
			coqOp = fmt.Sprintf("SIter %s %d%%nat", coqBytes(seek), o.N)
		case "tcommit":
			res.sig.scan(tree)
			_, h, err := tree.Commit(ctx, ns, version)
			if err != nil {
				fail("error", "unexpected error: op %d Commit(version %d): %v", i, version, err)
				return
			}
			lastRoot = node.Root{Namespace: ns, Version: version, Type: node.RootTypeState, Hash: h}
			if e.ndb != nil {
				if err = e.ndb.Finalize([]node.Root{lastRoot}); err != nil {
					fail("error", "unexpected error: op %d Finalize(version %d): %v", i, version, err)
					return
				}
			}
			version++
			committed = copyMap(m0)
			coqOp = "STreeCommit"
		case "reopen":
			if len(stack) > 0 || e.ndb == nil || committed == nil {
				continue // not legal here (only produced by shrinking): skipped
			}
			tree.Close()
			tree = mkvs.NewWithRoot(nil, e.ndb, lastRoot, treeOptions(c)...)
			st.Tree = tree
			m0 = copyMap(committed)
			res.reopens++
			coqOp = "SReopen"
		case "push":
			if len(stack) >= maxOverlayDepth {
				continue
			}
			stack = append(stack, mkvs.NewOverlay(target))
			deltas = append(deltas, newDelta())
			res.pushed = true
			if len(stack) > res.maxDepth {
				res.maxDepth = len(stack)
			}
			coqOp = "SPush"
		case "ovcommit":
			if len(stack) == 0 {
				continue
			}
			if _, err = target.(mkvs.OverlayTree).Commit(ctx); err != nil {
				fail("error", "unexpected error: op %d overlay Commit: %v", i, err)
				return
			}
			commitSide(onB)
			if sideB != nil {
				if onB {
					res.stats.add("fork", "b_ovcommit")
				} else {
					res.stats.add("fork", "a_ovcommit_while_forked")
				}
			}
			res.sig.scan(tree)
			coqOp = "SOvCommit"
		case "ovdiscard":
			if len(stack) == 0 {
				continue
			}
			stack[len(stack)-1].Close()
			stack = stack[:len(stack)-1]
			deltas = deltas[:len(deltas)-1]
			coqOp = "SOvDiscard"
		case "ovcopy":
			if len(stack) == 0 {
				continue
			}
			old := stack[len(stack)-1]
			cp := old.Copy(nil)
			old.Close()
			stack[len(stack)-1] = cp
			coqOp = "SOvCopy"
		case "fork":
			if len(stack) == 0 {
				continue
			}
			sideB = stack[len(stack)-1].Copy(nil)
			dB = deltas[len(deltas)-1].copy()
			lastWriter = map[string]bool{}
			res.forked = true
			res.stats.add("fork", "episodes")
		case "closeb":
			if sideB == nil {
				continue
			}
			sideB.Close()
			sideB, dB = nil, nil
		default:
			fail("error", "unexpected error: unknown operation %q", o.K)
			return
		}
		switch {
		case kind == "fork":
			coqOp = "FFork"
		case kind == "closeb":
			coqOp = "FCloseB"
		case onB:
			coqOp = "FB (" + coqOp + ")"
		default:
			coqOp = "FA (" + coqOp + ")"
		}
		res.eff = append(res.eff, o)
		res.coqOps = append(res.coqOps, coqOp)
		res.coqRes = append(res.coqRes, coqRes)
		res.stats.add("op_kinds", o.K)
	}
	return res
}

func showKVs(l []kv) string {
	var s []string
	for _, x := range l {
		s = append(s, fmt.Sprintf("%x=%x", x.k, x.v))
	}
	return "[" + strings.Join(s, " ") + "]"
}

// ---------- generation ----------

func genC03(r *prng.R) Case {
	c := Case{Mode: "c03", TwinOf: -1}
	genConfig(r, &c)
	c.UseLog = r.Chance(50)
	g := newKeygen(r)
	n := r.Range(1, 80)
	long := longHistory(r, c)
	if long {
		n = r.Range(40, 160)
	}
	depth, commits := 0, 0
	// fork episodes (an overlay and its copy both alive): in ~40% of the cases 1-2 of them,
	// started once an overlay is on the stack
	episodes := 0
	if r.Chance(40) {
		episodes = r.Range(1, 2)
	}
	written := [][]byte{} // keys inserted so far (likely present in the tree / lower levels)
	for len(c.Ops) < n || (episodes > 0 && depth > 0) {
		if episodes > 0 && depth > 0 && (len(c.Ops) >= n || r.Chance(12)) {
			c.Ops = append(c.Ops, genForkEpisode(r, g, written)...)
			episodes--
			continue
		}
		if len(c.Ops) >= n {
			break
		}
		if k := len(c.Ops); k > 0 && c.Ops[k-1].K == "ins" {
			written = append(written, c.Ops[k-1].Key)
		}
		x := r.Intn(100)
		switch {
		case long && r.Chance(30):
			c.Ops = append(c.Ops, Op{K: "ins", Key: g.newKey(), Val: g.val()})
		case x < 25:
			c.Ops = append(c.Ops, Op{K: "ins", Key: g.key(), Val: g.val()})
		case x < 35:
			c.Ops = append(c.Ops, Op{K: "rem", Key: g.key()})
		case x < 45:
			c.Ops = append(c.Ops, Op{K: "remex", Key: g.key()})
		case x < 60:
			c.Ops = append(c.Ops, Op{K: "get", Key: g.key()})
		case x < 72:
			o := Op{K: "iter", N: r.Intn(7)}
			if r.Chance(8) {
				o.N = 100
			}
			if r.Chance(20) {
				o.Rewind, o.Key = true, []byte{}
			} else {
				o.Key = g.key()
			}
			c.Ops = append(c.Ops, o)
		case x < 77:
			c.Ops = append(c.Ops, Op{K: "tcommit"})
			commits++
		case x < 80:
			if depth == 0 && c.isDB() {
				if commits == 0 {
					// nothing to reopen at yet: commit instead, later draws become legal
					c.Ops = append(c.Ops, Op{K: "tcommit"})
					commits++
				} else {
					c.Ops = append(c.Ops, Op{K: "reopen"})
				}
			}
		case x < 88:
			if depth < maxOverlayDepth {
				c.Ops = append(c.Ops, Op{K: "push"})
				depth++
			}
		case x < 93:
			if depth > 0 {
				c.Ops = append(c.Ops, Op{K: "ovcommit"})
			}
		case x < 97:
			if depth > 0 {
				c.Ops = append(c.Ops, Op{K: "ovdiscard"})
				depth--
			}
		default:
			if depth > 0 {
				c.Ops = append(c.Ops, Op{K: "ovcopy"})
			}
		}
	}
	return c
}

// genForkEpisode: "fork", 4-15 operations on the two sides (A = the top
// overlay, B = its copy), "closeb". Biased to keys that exist below, to a
// write or removal on one side followed by a read of the same key on the
// other side, and to a commit of one side followed by reads on the other.
func genForkEpisode(r *prng.R, g *keygen, written [][]byte) []Op {
	ops := []Op{{K: "fork"}}
	var recent [][]byte
	pick := func() []byte {
		switch x := r.Intn(100); {
		case x < 40 && len(recent) > 0:
			return recent[r.Intn(len(recent))]
		case x < 80 && len(written) > 0:
			return written[r.Intn(len(written))]
		}
		return g.key()
	}
	name := func(b bool, k string) string {
		if b {
			return "b_" + k
		}
		return k
	}
	read := func(b bool, k []byte) Op {
		if r.Chance(50) {
			return Op{K: name(b, "get"), Key: k}
		}
		if r.Chance(15) {
			return Op{K: name(b, "iter"), Key: []byte{}, Rewind: true, N: r.Intn(7)}
		}
		return Op{K: name(b, "iter"), Key: k, N: r.Intn(4)}
	}
	write := func(b bool, k []byte) Op {
		switch x := r.Intn(100); {
		case x < 45:
			return Op{K: name(b, "ins"), Key: k, Val: g.val()}
		case x < 75:
			return Op{K: name(b, "rem"), Key: k}
		}
		return Op{K: name(b, "remex"), Key: k}
	}
	n := r.Range(4, 15)
	for len(ops)-1 < n {
		b := r.Chance(50)
		switch x := r.Intn(100); {
		case x < 35:
			// one side writes / removes, the other side reads the same key
			k := pick()
			recent = append(recent, k)
			ops = append(ops, write(b, k), read(!b, k))
			if r.Chance(30) {
				ops = append(ops, read(b, k))
			}
		case x < 50:
			// one side commits, the other side reads through its own delta
			ops = append(ops, Op{K: name(b, "ovcommit")})
			for j, m := 0, r.Range(1, 2); j < m; j++ {
				ops = append(ops, read(!b, pick()))
			}
		case x < 55:
			ops = append(ops, Op{K: "tcommit"})
		case x < 80:
			k := pick()
			recent = append(recent, k)
			ops = append(ops, write(b, k))
		default:
			ops = append(ops, read(b, pick()))
		}
	}
	return append(ops, Op{K: "closeb"})
}

// shrink03 greedily drops operations while the oracle reports the same kind
// of violation; operations that became illegal are dropped from the description.
func shrink03(c Case, cut int, accept func(cand Case, r *res03) bool) Case {
	test := func(ops []Op) ([]Op, bool) {
		cand := c.withOps(ops)
		r := runC03(cand)
		if r.viol == nil || !accept(cand, r) {
			return nil, false
		}
		if r.panicked || r.viol.kind == "error" {
			return ops, true // the run stopped early: keep the description as it is
		}
		// everything after the first failing answer is irrelevant, but kept simple: what was performed
		return r.eff, true
	}
	ops := c.Ops
	if cut > 0 && cut < len(ops) {
		// first drop everything after the operation at which the violation showed
		if eff, ok := test(ops[:cut]); ok && len(eff) < len(ops) {
			ops = eff
		}
	}
	return c.withOps(shrinkOps(ops, test))
}

func mainC03(seed uint64, n int, out string, rp *replayInput) {
	w := coqout.NewWriter(out, coqHeaderC03, "run_c03", "c03_eqb", 25)
	sum := coqout.NewSummary("seeded histories (1-80 operations: insert, remove, remove-existing, get, seek/rewind iteration of up to n+1 items, tree commit, close+reopen at the committed root, overlay push/commit/discard/copy up to depth 4) on the real tree (with and without write log) over backends mem/badger/pathbadger with node capacities {0,1,2,3,8,16,32,5000} (long histories of 40-160 operations biased to new keys for about 20% of the cases) and value capacities {0,1,16,64,16M}; keys of 0-4 bytes over {00,01,80,ff} plus long keys, values of 0-8 bytes; " +
		"compared: the answer of every operation; non-trivial = the case has at least one overlay push and at least one iteration or remove-existing with a non-empty answer; distinct = distinct operation-kind sequences among those")
	sum.Extra["finding_rules"] = findingRules
	sum.Extra["api_coverage"] = apiCoverage("c03")
	defer func() {
		w.Close()
		sum.Write(out)
	}()
	seen := map[string]bool{}
	process := func(c Case) {
		r := runC03(c)
		sum.Evaluations++
		if !r.panicked && (r.viol == nil || r.viol.kind != "error") {
			w.Add(r.term(c.UseLog), c)
		}
		st := r.stats
		st.add("backend", c.Backend)
		st.add("node_cap", fmt.Sprint(c.NodeCap))
		st.add("value_cap", fmt.Sprint(c.ValueCap))
		st.add("use_log", fmt.Sprint(c.UseLog))
		st.add("ops_per_case", bucket(len(c.Ops), 5, 15, 30, 60, 80))
		st.add("max_overlay_depth", fmt.Sprint(r.maxDepth))
		st.add("reopens", bucket(r.reopens, 0, 1, 2, 4))
		if evicting(c) {
			st.add("features", "evicting_config")
		}
		if k, ok := smallValueCapClass(c, r.sig, r.viol != nil); ok {
			st.add("small_value_cap", k)
		}
		st.into(sum)
		if r.answered && r.pushed {
			if k := r.kinds(); !seen[k] {
				seen[k] = true
				sum.DistinctNontrivial++
			}
		}
		if len(c.Ops) <= 10 && len(c.Ops) >= 3 {
			sum.Sample(map[string]any{"desc": c}, 3)
		}
		if r.viol == nil {
			if r.sig.f1 {
				sum.Count("sig_without_failure", "dirty_node_with_evicted_leaf")
			}
			if r.sig.f2 {
				sum.Count("sig_without_failure", "dirty_pointer_without_node")
			}
			return
		}
		vc, vr, note := c, r, ""
		if key, mech := classify(c, r.sig.failF1, r.sig.failPrefix, r.sig.failDepth); key != "" {
			// evidence of the cache mechanism: the identical history is clean with ample capacities
			ra := runC03(ample(c))
			if ra.viol == nil {
				sum.Count("ample_rerun", "clean")
				recordFinding(sum, key, mech+r.viol.what, c, r.sig, func() (Case, string) {
					sc := shrink03(c, r.cut, func(cand Case, rc *res03) bool {
						k, _ := classify(cand, rc.sig.failF1, rc.sig.failPrefix, rc.sig.failDepth)
						return k == key && runC03(ample(cand)).viol == nil
					})
					what := mech + r.viol.what
					if r2 := runC03(sc); r2.viol != nil {
						_, m2 := classify(sc, r2.sig.failF1, r2.sig.failPrefix, r2.sig.failDepth)
						what = m2 + r2.viol.what
					}
					return sc, what
				})
				return
			}
			sum.Count("ample_rerun", "failed")
			vc, vr, note = ample(c), ra, "fails with ample capacities too"
		}
		sum.Count("violations", vr.viol.kind+"/"+vc.Backend)
		sc, what := vc, vr.viol.what
		if firstOfItsKind(vr.viol.kind, vc) {
			kind := vr.viol.kind
			sc = shrink03(vc, vr.cut, func(cand Case, rc *res03) bool {
				k, _ := classify(cand, rc.sig.failF1, rc.sig.failPrefix, rc.sig.failDepth)
				return rc.viol.kind == kind && k == ""
			})
			if r2 := runC03(sc); r2.viol != nil {
				what = r2.viol.what
			}
		}
		v := map[string]any{"what": what, "case": sc, "evicting_config": evicting(vc),
			"node_cap_vs_max_path_depth":       fmt.Sprintf("%d vs %d", vc.NodeCap, vr.sig.failDepth),
			"sig_dirty_node_with_evicted_leaf": vr.sig.failF1, "sig_dirty_pointer_without_node": vr.sig.failF2, "had_prefix_pair": vr.sig.failPrefix}
		if note != "" {
			v["note"] = note
			v["original_case"] = c
		}
		sum.Violations = append(sum.Violations, v)
	}
	if rp != nil {
		if rp.single != nil {
			process(*rp.single)
		} else {
			process(*rp.base)
			process(*rp.twin)
		}
		return
	}
	// prng.New(seed) and prng.New(seed+1) are the same splitmix64 stream shifted
	// by one step; forking once decorrelates consecutive seeds.
	r := prng.New(seed).Fork()
	for i := 0; i < n; i++ {
		process(genC03(r.Fork()))
	}
}
