package main

// Mode c03: one tree and a stack of overlays; every answer (Get,
// RemoveExisting, iteration) is recorded for the Coq model (run_c03) and
// compared with a plain Go reference (a stack of maps).

import (
	"bytes"
	"fmt"
	"strings"

	"github.com/oasisprotocol/oasis-core/go/storage/mkvs"
	"github.com/oasisprotocol/oasis-core/go/storage/mkvs/node"

	"verifharness/internal/coqout"
	"verifharness/internal/prng"
)

const maxOverlayDepth = 4

type res03 struct {
	coqOps   []string
	coqRes   []string
	eff      []Op // operations actually performed (illegal ones skipped)
	cut      int  // with a violation: the number of leading operations that produced it
	sig      sigState
	viol     *violation
	panicked bool
	stats    counts
	answered bool // some iter / remex answered non-trivially
	pushed   bool
	maxDepth int
	reopens  int
}

func (r *res03) term(useLog bool) string {
	ops := "(@nil sop)"
	if len(r.coqOps) > 0 {
		ops = coqout.List(r.coqOps)
	}
	rs := "(@nil sres)"
	if len(r.coqRes) > 0 {
		rs = coqout.List(r.coqRes)
	}
	return fmt.Sprintf("((%s, %s),\n %s)", coqout.Bool(useLog), ops, rs)
}

func (r *res03) kinds() string {
	var ks []string
	for _, o := range r.eff {
		ks = append(ks, o.K)
	}
	return strings.Join(ks, ",")
}

type kv struct{ k, v []byte }

func optCoq(v []byte) string {
	if v == nil {
		return "(RVal None)"
	}
	return "(RVal (Some " + coqBytes(v) + "))"
}

func runC03(c Case) (res *res03) {
	res = &res03{stats: counts{}}
	var e *env
	var tree mkvs.Tree
	var stack []mkvs.OverlayTree
	at := -1 // index of the operation being performed
	fail := func(kind, f string, a ...any) {
		if res.viol == nil {
			res.viol = &violation{kind: kind, what: fmt.Sprintf(f, a...)}
			res.cut = at + 1
			res.sig.snapshot(tree)
		}
	}
	defer func() {
		if p := recover(); p != nil {
			res.viol = &violation{kind: "panic", what: fmt.Sprintf("implementation panicked: %v", p)}
			res.cut = at + 1
			res.sig.snapshot(tree)
			debugStack()
			res.panicked = true
		}
		for i := len(stack) - 1; i >= 0; i-- {
			quietly(stack[i].Close)
		}
		if tree != nil {
			quietly(tree.Close)
		}
		e.close()
	}()
	var err error
	if e, err = openEnv(c.Backend); err != nil {
		fail("error", "unexpected error: opening node database: %v", err)
		return
	}
	tree = mkvs.New(nil, e.ndb, node.RootTypeState, treeOptions(c)...)
	// every call on the tree (ours and the overlays') goes through st, which scans after it
	st := &scanTree{Tree: tree}
	st.scan = func() { res.sig.scan(st.Tree) }
	top := func() mkvs.KeyValueTree {
		if len(stack) == 0 {
			return st
		}
		return stack[len(stack)-1]
	}
	// reference: one full map per level (level 0 = the tree), plus what the last tree commit persisted
	levels := []map[string][]byte{{}}
	var committed map[string][]byte
	cur := func() map[string][]byte { return levels[len(levels)-1] }
	version := uint64(0)
	var lastRoot node.Root

	for i, o := range c.Ops {
		at = i
		coqOp, coqRes := "", "RUnit"
		switch o.K {
		case "ins", "rem", "remex", "get", "iter":
			if !o.Rewind {
				res.stats.countKey(o.Key)
			}
			if o.K == "ins" {
				res.stats.countVal(o.Val)
			}
		}
		switch o.K {
		case "ins":
			if err = top().Insert(ctx, nn(o.Key), nn(o.Val)); err != nil {
				fail("error", "unexpected error: op %d Insert: %v", i, err)
				return
			}
			_, had := cur()[string(o.Key)]
			cur()[string(o.Key)] = o.Val
			if len(stack) == 0 && !had {
				res.sig.depth(levels[0])
			}
			res.sig.scan(tree)
			coqOp = "SIns " + coqBytes(o.Key) + " " + coqBytes(o.Val)
		case "rem":
			if err = top().Remove(ctx, nn(o.Key)); err != nil {
				fail("error", "unexpected error: op %d Remove: %v", i, err)
				return
			}
			delete(cur(), string(o.Key))
			res.sig.scan(tree)
			coqOp = "SRem " + coqBytes(o.Key)
		case "remex", "get":
			var v []byte
			if o.K == "get" {
				v, err = top().Get(ctx, nn(o.Key))
				coqOp = "SGet " + coqBytes(o.Key)
			} else {
				v, err = top().RemoveExisting(ctx, nn(o.Key))
				coqOp = "SRemEx " + coqBytes(o.Key)
			}
			res.sig.scan(tree)
			if err != nil {
				fail("error", "unexpected error: op %d %s: %v", i, o.K, err)
				return
			}
			rv, ok := cur()[string(o.Key)]
			switch {
			case ok && v == nil:
				fail(o.K+"-absent", "op %d (%s at overlay depth %d): key %x answered nil, the reference holds %x", i, o.K, len(stack), o.Key, rv)
			case !ok && v != nil:
				fail(o.K+"-present", "op %d (%s at overlay depth %d): key %x answered %x, the reference does not hold the key", i, o.K, len(stack), o.Key, v)
			case ok && !bytes.Equal(v, rv):
				fail(o.K+"-value", "op %d (%s at overlay depth %d): key %x answered %x, the reference holds %x", i, o.K, len(stack), o.Key, v, rv)
			}
			if o.K == "remex" {
				delete(cur(), string(o.Key))
				if v != nil {
					res.answered = true
				}
			}
			hm := "miss"
			if v != nil {
				hm = "hit"
			}
			res.stats.add(o.K, hm)
			if v != nil {
				v = nn(v)
			}
			coqRes = optCoq(v)
		case "iter":
			var got []kv
			func() {
				it := top().NewIterator(ctx)
				defer it.Close()
				if o.Rewind {
					it.Rewind()
				} else {
					it.Seek(nn(o.Key))
				}
				for it.Valid() {
					got = append(got, kv{nn(it.Key()), nn(it.Value())})
					if len(got) >= o.N+1 {
						break
					}
					it.Next()
				}
				err = it.Err()
			}()
			res.sig.scan(tree)
			if err != nil {
				fail("error", "unexpected error: op %d iterator: %v", i, err)
				return
			}
			seek := o.Key
			if o.Rewind {
				seek = []byte{}
			}
			var want []kv
			for _, k := range sortedKeys(cur()) {
				if bytes.Compare([]byte(k), seek) >= 0 && len(want) < o.N+1 {
					want = append(want, kv{[]byte(k), cur()[k]})
				}
			}
			same := len(got) == len(want)
			for j := 0; same && j < len(got); j++ {
				same = bytes.Equal(got[j].k, want[j].k) && bytes.Equal(got[j].v, want[j].v)
			}
			if !same {
				fail("iter", "op %d (iter seek %x rewind %v n %d at overlay depth %d): got %s, the reference says %s", i, seek, o.Rewind, o.N, len(stack), showKVs(got), showKVs(want))
			}
			if len(got) > 0 {
				res.answered = true
			}
			res.stats.add("iter_result_len", bucket(len(got), 0, 1, 3, 7))
			if len(stack) >= 1 {
				res.stats.add("iter_through_overlay", fmt.Sprintf("depth_%d", len(stack)))
			} else {
				res.stats.add("iter_through_overlay", "depth_0(tree)")
			}
			var items []string
			for _, x := range got {
				items = append(items, "("+coqBytes(x.k)+", "+coqBytes(x.v)+")")
			}
			if len(items) == 0 {
				coqRes = "(RIter (@nil (bytes * bytes)))"
			} else {
				coqRes = "(RIter " + coqout.List(items) + ")"
			}
			coqOp = fmt.Sprintf("(SIter %s %d%%nat)", coqBytes(seek), o.N)
		case "tcommit":
			res.sig.scan(tree)
			_, h, err := tree.Commit(ctx, ns, version)
			if err != nil {
				fail("error", "unexpected error: op %d Commit(version %d): %v", i, version, err)
				return
			}
			lastRoot = node.Root{Namespace: ns, Version: version, Type: node.RootTypeState, Hash: h}
			if e.ndb != nil {
				if err = e.ndb.Finalize([]node.Root{lastRoot}); err != nil {
					fail("error", "unexpected error: op %d Finalize(version %d): %v", i, version, err)
					return
				}
			}
			version++
			committed = copyMap(levels[0])
			coqOp = "STreeCommit"
		case "reopen":
			if len(stack) > 0 || e.ndb == nil || committed == nil {
				continue // not legal here (only produced by shrinking): skipped
			}
			tree.Close()
			tree = mkvs.NewWithRoot(nil, e.ndb, lastRoot, treeOptions(c)...)
			st.Tree = tree
			levels[0] = copyMap(committed)
			res.reopens++
			coqOp = "SReopen"
		case "push":
			if len(stack) >= maxOverlayDepth {
				continue
			}
			stack = append(stack, mkvs.NewOverlay(top()))
			levels = append(levels, copyMap(cur()))
			res.pushed = true
			if len(stack) > res.maxDepth {
				res.maxDepth = len(stack)
			}
			coqOp = "SPush"
		case "ovcommit":
			if len(stack) == 0 {
				continue
			}
			if _, err = stack[len(stack)-1].Commit(ctx); err != nil {
				fail("error", "unexpected error: op %d overlay Commit: %v", i, err)
				return
			}
			levels[len(levels)-2] = copyMap(cur())
			if len(levels) == 2 {
				res.sig.depth(levels[0])
			}
			res.sig.scan(tree)
			coqOp = "SOvCommit"
		case "ovdiscard":
			if len(stack) == 0 {
				continue
			}
			stack[len(stack)-1].Close()
			stack = stack[:len(stack)-1]
			levels = levels[:len(levels)-1]
			coqOp = "SOvDiscard"
		case "ovcopy":
			if len(stack) == 0 {
				continue
			}
			old := stack[len(stack)-1]
			cp := old.Copy(nil)
			old.Close()
			stack[len(stack)-1] = cp
			coqOp = "SOvCopy"
		default:
			fail("error", "unexpected error: unknown operation %q", o.K)
			return
		}
		res.eff = append(res.eff, o)
		res.coqOps = append(res.coqOps, coqOp)
		res.coqRes = append(res.coqRes, coqRes)
		res.stats.add("op_kinds", o.K)
	}
	return res
}

func showKVs(l []kv) string {
	var s []string
	for _, x := range l {
		s = append(s, fmt.Sprintf("%x=%x", x.k, x.v))
	}
	return "[" + strings.Join(s, " ") + "]"
}

// ---------- generation ----------

func genC03(r *prng.R) Case {
	c := Case{Mode: "c03", TwinOf: -1}
	genConfig(r, &c)
	c.UseLog = r.Chance(50)
	g := newKeygen(r)
	n := r.Range(1, 80)
	long := longHistory(r, c)
	if long {
		n = r.Range(40, 160)
	}
	depth, commits := 0, 0
	for len(c.Ops) < n {
		x := r.Intn(100)
		switch {
		case long && r.Chance(30):
			c.Ops = append(c.Ops, Op{K: "ins", Key: g.newKey(), Val: g.val()})
		case x < 25:
			c.Ops = append(c.Ops, Op{K: "ins", Key: g.key(), Val: g.val()})
		case x < 35:
			c.Ops = append(c.Ops, Op{K: "rem", Key: g.key()})
		case x < 45:
			c.Ops = append(c.Ops, Op{K: "remex", Key: g.key()})
		case x < 60:
			c.Ops = append(c.Ops, Op{K: "get", Key: g.key()})
		case x < 72:
			o := Op{K: "iter", N: r.Intn(7)}
			if r.Chance(8) {
				o.N = 100
			}
			if r.Chance(20) {
				o.Rewind, o.Key = true, []byte{}
			} else {
				o.Key = g.key()
			}
			c.Ops = append(c.Ops, o)
		case x < 77:
			c.Ops = append(c.Ops, Op{K: "tcommit"})
			commits++
		case x < 80:
			if depth == 0 && c.isDB() {
				if commits == 0 {
					// nothing to reopen at yet: commit instead, later draws become legal
					c.Ops = append(c.Ops, Op{K: "tcommit"})
					commits++
				} else {
					c.Ops = append(c.Ops, Op{K: "reopen"})
				}
			}
		case x < 88:
			if depth < maxOverlayDepth {
				c.Ops = append(c.Ops, Op{K: "push"})
				depth++
			}
		case x < 93:
			if depth > 0 {
				c.Ops = append(c.Ops, Op{K: "ovcommit"})
			}
		case x < 97:
			if depth > 0 {
				c.Ops = append(c.Ops, Op{K: "ovdiscard"})
				depth--
			}
		default:
			if depth > 0 {
				c.Ops = append(c.Ops, Op{K: "ovcopy"})
			}
		}
	}
	return c
}

// shrink03 greedily drops operations while the oracle reports the same kind
// of violation; operations that became illegal are dropped from the description.
func shrink03(c Case, cut int, accept func(cand Case, r *res03) bool) Case {
	test := func(ops []Op) ([]Op, bool) {
		cand := c.withOps(ops)
		r := runC03(cand)
		if r.viol == nil || !accept(cand, r) {
			return nil, false
		}
		if r.panicked || r.viol.kind == "error" {
			return ops, true // the run stopped early: keep the description as it is
		}
		// everything after the first failing answer is irrelevant, but kept simple: what was performed
		return r.eff, true
	}
	ops := c.Ops
	if cut > 0 && cut < len(ops) {
		// first drop everything after the operation at which the violation showed
		if eff, ok := test(ops[:cut]); ok && len(eff) < len(ops) {
			ops = eff
		}
	}
	return c.withOps(shrinkOps(ops, test))
}

func mainC03(seed uint64, n int, out string, rp *replayInput) {
	w := coqout.NewWriter(out, coqHeader, "run_c03", "c03_eqb", 25)
	sum := coqout.NewSummary("seeded histories (1-80 operations: insert, remove, remove-existing, get, seek/rewind iteration of up to n+1 items, tree commit, close+reopen at the committed root, overlay push/commit/discard/copy up to depth 4) on the real tree (with and without write log) over backends mem/badger/pathbadger with node capacities {0,1,2,3,8,16,32,5000} (long histories of 40-160 operations biased to new keys for about 20% of the cases) and value capacities {0,1,16,64,16M}; keys of 0-4 bytes over {00,01,80,ff} plus long keys, values of 0-8 bytes; " +
		"compared: the answer of every operation; non-trivial = the case has at least one overlay push and at least one iteration or remove-existing with a non-empty answer; distinct = distinct operation-kind sequences among those")
	sum.Extra["finding_rules"] = findingRules
	defer func() {
		w.Close()
		sum.Write(out)
	}()
	seen := map[string]bool{}
	process := func(c Case) {
		r := runC03(c)
		sum.Evaluations++
		if !r.panicked && (r.viol == nil || r.viol.kind != "error") {
			w.Add(r.term(c.UseLog), c)
		}
		st := r.stats
		st.add("backend", c.Backend)
		st.add("node_cap", fmt.Sprint(c.NodeCap))
		st.add("value_cap", fmt.Sprint(c.ValueCap))
		st.add("use_log", fmt.Sprint(c.UseLog))
		st.add("ops_per_case", bucket(len(c.Ops), 5, 15, 30, 60, 80))
		st.add("max_overlay_depth", fmt.Sprint(r.maxDepth))
		st.add("reopens", bucket(r.reopens, 0, 1, 2, 4))
		if evicting(c) {
			st.add("features", "evicting_config")
		}
		if k, ok := smallValueCapClass(c, r.sig, r.viol != nil); ok {
			st.add("small_value_cap", k)
		}
		st.into(sum)
		if r.answered && r.pushed {
			if k := r.kinds(); !seen[k] {
				seen[k] = true
				sum.DistinctNontrivial++
			}
		}
		if len(c.Ops) <= 10 && len(c.Ops) >= 3 {
			sum.Sample(map[string]any{"desc": c}, 3)
		}
		if r.viol == nil {
			if r.sig.f1 {
				sum.Count("sig_without_failure", "dirty_node_with_evicted_leaf")
			}
			if r.sig.f2 {
				sum.Count("sig_without_failure", "dirty_pointer_without_node")
			}
			return
		}
		vc, vr, note := c, r, ""
		if key, mech := classify(c, r.sig.failF1, r.sig.failPrefix, r.sig.failDepth); key != "" {
			// evidence of the cache mechanism: the identical history is clean with ample capacities
			ra := runC03(ample(c))
			if ra.viol == nil {
				sum.Count("ample_rerun", "clean")
				recordFinding(sum, key, mech+r.viol.what, c, r.sig, func() (Case, string) {
					sc := shrink03(c, r.cut, func(cand Case, rc *res03) bool {
						k, _ := classify(cand, rc.sig.failF1, rc.sig.failPrefix, rc.sig.failDepth)
						return k == key && runC03(ample(cand)).viol == nil
					})
					what := mech + r.viol.what
					if r2 := runC03(sc); r2.viol != nil {
						_, m2 := classify(sc, r2.sig.failF1, r2.sig.failPrefix, r2.sig.failDepth)
						what = m2 + r2.viol.what
					}
					return sc, what
				})
				return
			}
			sum.Count("ample_rerun", "failed")
			vc, vr, note = ample(c), ra, "fails with ample capacities too"
		}
		sum.Count("violations", vr.viol.kind+"/"+vc.Backend)
		sc, what := vc, vr.viol.what
		if firstOfItsKind(vr.viol.kind, vc) {
			kind := vr.viol.kind
			sc = shrink03(vc, vr.cut, func(cand Case, rc *res03) bool {
				k, _ := classify(cand, rc.sig.failF1, rc.sig.failPrefix, rc.sig.failDepth)
				return rc.viol.kind == kind && k == ""
			})
			if r2 := runC03(sc); r2.viol != nil {
				what = r2.viol.what
			}
		}
		v := map[string]any{"what": what, "case": sc, "evicting_config": evicting(vc),
			"node_cap_vs_max_path_depth":       fmt.Sprintf("%d vs %d", vc.NodeCap, vr.sig.failDepth),
			"sig_dirty_node_with_evicted_leaf": vr.sig.failF1, "sig_dirty_pointer_without_node": vr.sig.failF2, "had_prefix_pair": vr.sig.failPrefix}
		if note != "" {
			v["note"] = note
			v["original_case"] = c
		}
		sum.Violations = append(sum.Violations, v)
	}
	if rp != nil {
		if rp.single != nil {
			process(*rp.single)
		} else {
			process(*rp.base)
			process(*rp.twin)
		}
		return
	}
	// prng.New(seed) and prng.New(seed+1) are the same splitmix64 stream shifted
	// by one step; forking once decorrelates consecutive seeds.
	r := prng.New(seed).Fork()
	for i := 0; i < n; i++ {
		process(genC03(r.Fork()))
	}
}
