package main

// API coverage listing: the methods of the tree interfaces as declared in the
// CURRENT source tree (go/parser on $VERIF_REPO/go/storage/mkvs) against a
// static table of what each mode of this harness calls.

import (
	"go/ast"
	"go/parser"
	"go/token"
	"os"
	"path/filepath"
	"sort"
	"strings"
)

// the methods each mode calls on the real objects (Interface.Method)
var modeCalls = map[string][]string{
	"c02": {
		"Tree.Insert", "Tree.Remove", "Tree.Get", "Tree.Commit", "Tree.CommitKnown", "Tree.Close", "Tree.ApplyWriteLog", "Tree.NewIterator",
		"Iterator.Valid", "Iterator.Err", "Iterator.Seek", "Iterator.Next", "Iterator.Key", "Iterator.Value", "Iterator.Close",
	},
	"c03": {
		"Tree.Insert", "Tree.Remove", "Tree.RemoveExisting", "Tree.Get", "Tree.NewIterator", "Tree.Commit", "Tree.Close",
		"OverlayTree.Insert", "OverlayTree.Remove", "OverlayTree.RemoveExisting", "OverlayTree.Get", "OverlayTree.NewIterator",
		"OverlayTree.Copy", "OverlayTree.Commit", "OverlayTree.Close",
		"Iterator.Valid", "Iterator.Err", "Iterator.Rewind", "Iterator.Seek", "Iterator.Next", "Iterator.Key", "Iterator.Value", "Iterator.Close",
	},
	"keys": {},
}

// package-level constructors / options used (not interface methods; listed for information)
var modeFuncs = map[string][]string{
	"c02":  {"New", "NewWithRoot", "Capacity", "WithoutWriteLog", "NoPersist", "VerifDump", "VerifScan"},
	"c03":  {"New", "NewWithRoot", "Capacity", "WithoutWriteLog", "NewOverlay", "VerifScan"},
	"keys": {},
}

func apiCoverage(mode string) map[string]any {
	repo := os.Getenv("VERIF_REPO")
	if repo == "" {
		repo = "/repo"
	}
	dir := filepath.Join(repo, "go", "storage", "mkvs")
	type iface struct {
		methods  []string
		embedded []string
	}
	decls := map[string]*iface{}
	fset := token.NewFileSet()
	var files []string
	for _, pat := range []string{"*.go", "syncer/*.go"} {
		m, _ := filepath.Glob(filepath.Join(dir, pat))
		files = append(files, m...)
	}
	for _, fn := range files {
		if strings.HasSuffix(fn, "_test.go") {
			continue
		}
		f, err := parser.ParseFile(fset, fn, nil, parser.SkipObjectResolution)
		if err != nil {
			continue
		}
		for _, d := range f.Decls {
			gd, ok := d.(*ast.GenDecl)
			if !ok || gd.Tok != token.TYPE {
				continue
			}
			for _, sp := range gd.Specs {
				ts := sp.(*ast.TypeSpec)
				it, ok := ts.Type.(*ast.InterfaceType)
				if !ok {
					continue
				}
				x := &iface{}
				for _, m := range it.Methods.List {
					switch t := m.Type.(type) {
					case *ast.FuncType:
						for _, n := range m.Names {
							x.methods = append(x.methods, n.Name)
						}
					case *ast.Ident:
						x.embedded = append(x.embedded, t.Name)
					case *ast.SelectorExpr:
						x.embedded = append(x.embedded, t.Sel.Name)
					}
				}
				decls[ts.Name.Name] = x
			}
		}
	}
	if len(decls) == 0 {
		return map[string]any{"error": "no interface declarations found under " + dir}
	}
	var flat func(name string, seen map[string]bool) []string
	flat = func(name string, seen map[string]bool) []string {
		x := decls[name]
		if x == nil || seen[name] {
			return nil
		}
		seen[name] = true
		out := append([]string{}, x.methods...)
		for _, e := range x.embedded {
			out = append(out, flat(e, seen)...)
		}
		return out
	}
	interfaces := map[string][]string{}
	all := map[string]bool{}
	for _, name := range []string{"KeyValueTree", "ClosableTree", "OverlayTree", "Tree", "Iterator"} {
		ms := flat(name, map[string]bool{})
		sort.Strings(ms)
		interfaces[name] = ms
		if name == "Tree" || name == "OverlayTree" || name == "Iterator" { // the interfaces of the concrete objects
			for _, m := range ms {
				all[name+"."+m] = true
			}
		}
	}
	called := map[string]bool{}
	for _, l := range modeCalls {
		for _, m := range l {
			called[m] = true
		}
	}
	var never, stale []string
	for m := range all {
		if !called[m] {
			never = append(never, m)
		}
	}
	for m := range called {
		if !all[m] {
			stale = append(stale, m) // in the harness table but no longer declared
		}
	}
	sort.Strings(never)
	sort.Strings(stale)
	this := append([]string{}, modeCalls[mode]...)
	sort.Strings(this)
	return map[string]any{
		"source":                   dir,
		"interfaces":               interfaces,
		"called_by_this_mode":      this,
		"functions_used_this_mode": modeFuncs[mode],
		"never_called_by_any_mode": never,
		"called_but_not_declared":  stale,
	}
}
