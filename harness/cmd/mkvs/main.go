// Command mkvs drives the real MKVS tree of go/storage/mkvs (tree, node
// cache, node databases, overlays, iterators) with seeded operation histories,
// records what it returns as Coq correspondence cases for Verif.Mkvs.Corr
// (run_c02: shape + root hashes, run_c03: every answer of the tree / overlay
// stack), and evaluates the properties directly on the implementation with
// small independent Go references (S).
//
// This file: case descriptions (JSON), configuration / key / value
// generators, the scratch node databases, replay-file parsing and main.
// c02.go and c03.go hold the two modes.
package main

import (
	"context"
	"encoding/hex"
	"encoding/json"
	"errors"
	"flag"
	"fmt"
	"os"
	"runtime/debug"
	"sort"
	"strings"

	"github.com/oasisprotocol/oasis-core/go/common"
	"github.com/oasisprotocol/oasis-core/go/storage/mkvs"
	db "github.com/oasisprotocol/oasis-core/go/storage/mkvs/db/api"
	badgerDb "github.com/oasisprotocol/oasis-core/go/storage/mkvs/db/badger"
	pathBadgerDb "github.com/oasisprotocol/oasis-core/go/storage/mkvs/db/pathbadger"
	"github.com/oasisprotocol/oasis-core/go/storage/mkvs/node"
	"github.com/oasisprotocol/oasis-core/go/storage/mkvs/writelog"

	"verifharness/internal/coqout"
	"verifharness/internal/prng"
)

var (
	ctx = context.Background()
	// the one namespace used by every case
	ns = common.NewTestNamespaceFromSeed([]byte("verif mkvs harness ns"), 0)
	// all scratch databases live below this directory (removed at exit)
	scratchRoot string
)

const coqHeader = "From Verif Require Import Lib.Base Mkvs.Trie Mkvs.Overlay Mkvs.Corr.\n"
const coqHeaderC03 = "From Verif Require Import Lib.Base Mkvs.Trie Mkvs.Overlay Mkvs.Fork Mkvs.Corr.\n"

// nn returns a non-nil copy of b (keys and values handed to the implementation are never nil).
func nn(b []byte) []byte {
	out := make([]byte, len(b))
	copy(out, b)
	return out
}

// coqBytes renders a byte string as a Coq term of type bytes. Long strings are
// written as a concatenation of coqout.Bytes chunks: evaluating [bs len n]
// costs about len^2, which dominated the evaluation of the case files.
func coqBytes(b []byte) string {
	const chunk = 8
	if len(b) <= chunk {
		return coqout.Bytes(b)
	}
	var parts []string
	for i := 0; i < len(b); i += chunk {
		parts = append(parts, coqout.Bytes(b[i:min(i+chunk, len(b))]))
	}
	return "(" + strings.Join(parts, " ++ ") + ")"
}

// ---------- case descriptions ----------

// WLEntry is one entry of an applied write log; Val == nil is a removal.
type WLEntry struct {
	Key []byte
	Val []byte
}

func (e WLEntry) MarshalJSON() ([]byte, error) {
	m := map[string]any{"key": hex.EncodeToString(e.Key)}
	if e.Val == nil {
		m["val"] = nil
	} else {
		m["val"] = hex.EncodeToString(e.Val)
	}
	return json.Marshal(m)
}

func (e *WLEntry) UnmarshalJSON(b []byte) error {
	var raw struct {
		Key string  `json:"key"`
		Val *string `json:"val"`
	}
	if err := json.Unmarshal(b, &raw); err != nil {
		return err
	}
	k, err := hex.DecodeString(raw.Key)
	if err != nil {
		return err
	}
	e.Key, e.Val = nn(k), nil
	if raw.Val != nil {
		v, err := hex.DecodeString(*raw.Val)
		if err != nil {
			return err
		}
		e.Val = nn(v)
	}
	return nil
}

// Op is one harness-level operation (both modes).
type Op struct {
	K       string // c02: ins rem commit reopen applywl; c03: ins rem remex get iter tcommit reopen push ovcommit ovdiscard ovcopy
	Key     []byte
	Val     []byte
	N       int
	Rewind  bool
	Entries []WLEntry
	// commitknown_bad: how the wrong root is made ("flip": the true root with one byte
	// flipped, "prev": the previously committed root, "rand": Hash) and the 32 bytes for "rand"
	Bad    string
	Hash   []byte
	FaultK int // c02 fault twins: arm the node database to fail its k-th GetNode during this op (0 = no fault)
	// FaultKind: "db" (default; the k-th GetNode returns an error) or "ctx" (at the
	// k-th GetNode the context of the op is cancelled and the read proceeds)
	FaultKind string
	Faulted   bool // recorded: the op returned the injected error and was retried
}

func (o Op) MarshalJSON() ([]byte, error) {
	m := map[string]any{"k": o.K}
	switch strings.TrimPrefix(o.K, "b_") {
	case "ins":
		m["key"] = hex.EncodeToString(o.Key)
		m["val"] = hex.EncodeToString(o.Val)
	case "rem", "remex", "get":
		m["key"] = hex.EncodeToString(o.Key)
	case "iter":
		m["key"] = hex.EncodeToString(o.Key)
		m["n"] = o.N
		m["rewind"] = o.Rewind
	case "applywl":
		es := o.Entries
		if es == nil {
			es = []WLEntry{}
		}
		m["entries"] = es
	case "commitknown_bad":
		m["bad"] = o.Bad
		if o.Bad == "rand" {
			m["hash"] = hex.EncodeToString(o.Hash)
		}
	}
	if o.FaultK > 0 {
		m["fault_k"] = o.FaultK
		m["fault_kind"] = o.faultKind()
		m["faulted"] = o.Faulted
	}
	return json.Marshal(m)
}

func (o Op) faultKind() string {
	if o.FaultKind == "ctx" {
		return "ctx"
	}
	return "db"
}

func (o *Op) UnmarshalJSON(b []byte) error {
	var raw struct {
		K       string    `json:"k"`
		Key     string    `json:"key"`
		Val     string    `json:"val"`
		N       int       `json:"n"`
		Rewind  bool      `json:"rewind"`
		Entries []WLEntry `json:"entries"`
		Bad     string    `json:"bad"`
		Hash    string    `json:"hash"`
		FaultK  int       `json:"fault_k"`
		FKind   string    `json:"fault_kind"`
		Faulted bool      `json:"faulted"`
	}
	if err := json.Unmarshal(b, &raw); err != nil {
		return err
	}
	k, err := hex.DecodeString(raw.Key)
	if err != nil {
		return err
	}
	v, err := hex.DecodeString(raw.Val)
	if err != nil {
		return err
	}
	hb, err := hex.DecodeString(raw.Hash)
	if err != nil {
		return err
	}
	*o = Op{Bad: raw.Bad, Hash: hb, K: raw.K, Key: nn(k), Val: nn(v), N: raw.N, Rewind: raw.Rewind, Entries: raw.Entries, FaultK: raw.FaultK, Faulted: raw.Faulted, FaultKind: raw.FKind}
	return nil
}

// Case is the replayable description of one case.
type Case struct {
	Mode     string
	Backend  string // mem badger pathbadger
	NodeCap  uint64
	ValueCap uint64
	UseLog   bool // c03: tree created without WithoutWriteLog
	Ops      []Op
	TwinOf   int    // c02: global index of the base case, -1 if none
	TwinKind string // c02: shuffle detour writelog, "" if none
	Class    string // c02: "" (ordinary), "long" (read-modify-write rounds on a large tree), "bigbatch"
	Sweep    int    // keys: sweep number 1..6
	N        int    // keys: length bound
}

func (c Case) MarshalJSON() ([]byte, error) {
	if c.Mode == "keys" {
		return json.Marshal(map[string]any{"mode": c.Mode, "sweep": c.Sweep, "n": c.N})
	}
	ops := c.Ops
	if ops == nil {
		ops = []Op{}
	}
	m := map[string]any{"mode": c.Mode, "backend": c.Backend, "node_cap": c.NodeCap, "value_cap": c.ValueCap, "ops": ops}
	m["use_log"] = c.UseLog
	if c.Mode != "c03" {
		m["twin_of"] = c.TwinOf
		m["twin_kind"] = c.TwinKind
		if c.Class != "" {
			m["class"] = c.Class
		}
	}
	return json.Marshal(m)
}

func (c *Case) UnmarshalJSON(b []byte) error {
	var raw struct {
		Mode     string `json:"mode"`
		Backend  string `json:"backend"`
		NodeCap  uint64 `json:"node_cap"`
		ValueCap uint64 `json:"value_cap"`
		UseLog   *bool  `json:"use_log"`
		Ops      []Op   `json:"ops"`
		TwinOf   *int   `json:"twin_of"`
		TwinKind string `json:"twin_kind"`
		Class    string `json:"class"`
		Sweep    int    `json:"sweep"`
		N        int    `json:"n"`
	}
	if err := json.Unmarshal(b, &raw); err != nil {
		return err
	}
	if raw.Mode == "keys" {
		if raw.Sweep < 1 || raw.Sweep > 6 || raw.N < 0 || raw.N > 24 {
			return fmt.Errorf("keys: bad sweep %d / bound %d", raw.Sweep, raw.N)
		}
		*c = Case{Mode: "keys", Sweep: raw.Sweep, N: raw.N, TwinOf: -1}
		return nil
	}
	*c = Case{Mode: raw.Mode, Backend: raw.Backend, NodeCap: raw.NodeCap, ValueCap: raw.ValueCap,
		Ops: raw.Ops, TwinOf: -1, TwinKind: raw.TwinKind, Class: raw.Class}
	// a c02 description without the field (written before the option existed) had the write log on
	c.UseLog = raw.Mode != "c03"
	if raw.UseLog != nil {
		c.UseLog = *raw.UseLog
	}
	if raw.TwinOf != nil {
		c.TwinOf = *raw.TwinOf
	}
	if c.Mode == "" {
		c.Mode = "c02"
	}
	switch c.Backend {
	case "mem", "badger", "pathbadger":
	default:
		return fmt.Errorf("unknown backend %q", c.Backend)
	}
	return nil
}

func (c Case) withOps(ops []Op) Case {
	c.Ops = ops
	return c
}

func dropOp(ops []Op, i int) []Op {
	return append(append([]Op{}, ops[:i]...), ops[i+1:]...)
}

func (c Case) isDB() bool { return c.Backend != "mem" }

// violation is one failure of an implementation-side oracle; kind is what
// shrinking preserves.
type violation struct {
	kind string
	what string
}

// ---------- anomaly signatures and finding classification ----------

// sigState tracks, over one case, the anomalies reported by mkvs.VerifScan and
// the path depth of the reference contents.
type sigState struct {
	f1, f2   bool // DirtyNodeWithEvictedLeaf / DirtyPointerWithoutNode ever observed
	maxDepth int  // max trieDepth of the reference key set so far
	// the same, frozen at the first failure of the case
	failed         bool
	failF1, failF2 bool
	failDepth      int
	// hadPrefixPair: at some time the tree-level reference key set held a key
	// that is a proper byte-prefix of another key (an internal node with an
	// embedded leaf existed)
	hadPrefix, failPrefix bool
}

func (s *sigState) scan(tree mkvs.Tree) {
	if tree == nil {
		return
	}
	quietly(func() {
		a := mkvs.VerifScan(tree)
		if a.DirtyNodeWithEvictedLeaf > 0 {
			s.f1 = true
		}
		if a.DirtyPointerWithoutNode > 0 {
			s.f2 = true
		}
	})
}

func (s *sigState) depth(m map[string][]byte) {
	ks := make([][]byte, 0, len(m))
	for k := range m {
		ks = append(ks, []byte(k))
	}
	if d := trieDepth(ks); d > s.maxDepth {
		s.maxDepth = d
	}
	if !s.hadPrefix {
		// in sorted order a proper prefix of some key is a prefix of its successor
		sk := sortedKeys(m)
		for i := 0; i+1 < len(sk); i++ {
			if len(sk[i]) < len(sk[i+1]) && strings.HasPrefix(sk[i+1], sk[i]) {
				s.hadPrefix = true
				break
			}
		}
	}
}

// snapshot scans once more and freezes the flags (called at a failure).
func (s *sigState) snapshot(tree mkvs.Tree) {
	s.scan(tree)
	s.failed, s.failF1, s.failF2, s.failDepth, s.failPrefix = true, s.f1, s.f2, s.maxDepth, s.hadPrefix
}

// scanningWL scans the tree between the entries of an applied write log.
type scanningWL struct {
	inner writelog.Iterator
	scan  func()
}

func (s *scanningWL) Next() (bool, error)               { s.scan(); return s.inner.Next() }
func (s *scanningWL) Value() (writelog.LogEntry, error) { return s.inner.Value() }

// scanTree forwards to the tree and scans it after every call, so that the
// calls an overlay makes on the tree (Commit, Get, iterators) are covered at
// the granularity of single tree operations.
type scanTree struct {
	mkvs.Tree
	scan func()
}

func (s *scanTree) Insert(ctx context.Context, k, v []byte) error {
	err := s.Tree.Insert(ctx, k, v)
	s.scan()
	return err
}

func (s *scanTree) Remove(ctx context.Context, k []byte) error {
	err := s.Tree.Remove(ctx, k)
	s.scan()
	return err
}

func (s *scanTree) RemoveExisting(ctx context.Context, k []byte) ([]byte, error) {
	v, err := s.Tree.RemoveExisting(ctx, k)
	s.scan()
	return v, err
}

func (s *scanTree) Get(ctx context.Context, k []byte) ([]byte, error) {
	v, err := s.Tree.Get(ctx, k)
	s.scan()
	return v, err
}

func (s *scanTree) NewIterator(ctx context.Context, options ...mkvs.IteratorOption) mkvs.Iterator {
	return &scanIter{Iterator: s.Tree.NewIterator(ctx, options...), scan: s.scan}
}

type scanIter struct {
	mkvs.Iterator
	scan func()
}

func (s *scanIter) Rewind()         { s.Iterator.Rewind(); s.scan() }
func (s *scanIter) Seek(k node.Key) { s.Iterator.Seek(k); s.scan() }
func (s *scanIter) Next()           { s.Iterator.Next(); s.scan() }

func keyBit(k []byte, i int) bool { return k[i/8]&(1<<(7-uint(i%8))) != 0 }

// trieDepth is the maximum number of internal nodes on a root-to-leaf path of
// the compressed binary Patricia trie over the key set (bits MSB first): a set
// S with |S| >= 2 has an internal node at its longest common bit prefix q; the
// key equal to q is that node's embedded leaf (not a level); the others split
// on the next bit.
func trieDepth(keys [][]byte) int {
	if len(keys) <= 1 {
		return 0
	}
	q := len(keys[0]) * 8
	for _, k := range keys[1:] {
		n := min(q, len(k)*8)
		i := 0
		for i < n && keyBit(k, i) == keyBit(keys[0], i) {
			i++
		}
		q = i
	}
	var s0, s1 [][]byte
	for _, k := range keys {
		switch {
		case len(k)*8 == q: // embedded leaf
		case keyBit(k, q):
			s1 = append(s1, k)
		default:
			s0 = append(s0, k)
		}
	}
	return 1 + max(trieDepth(s0), trieDepth(s1))
}

const findingRules = "a failing case (S violation, panic or unexpected error) of mode PID can only be a finding if the IDENTICAL history (same operations, backend, write-log option; for pair/twin violations both members) re-run in a fresh database with ample capacities node_cap=5000, value_cap=16777216 is clean; if that re-run fails too the failure is an ordinary violation reported on the ample-capacity variant (note: fails with ample capacities too) and no finding is emitted. With a clean ample re-run, rules tried in this order: " +
	"(1) PID:node-capacity-not-above-path-depth iff 0 < node_cap <= D+1, D = the maximum so far of the number of internal nodes on a root-to-leaf path of the compressed binary trie over the tree-level reference key set; " +
	"(2) PID:embedded-leaf-evicted-under-dirty-internal-node iff 0 < value_cap < 16777216 and, at or before the first failure, either mkvs.VerifScan reported DirtyNodeWithEvictedLeaf > 0 or the tree-level reference key set contained a key that is a proper byte-prefix of another key (the empty key with any other key included); " +
	"(3) otherwise it is an ordinary violation. A pair/twin violation is attributed to the finding of a member that satisfies (1) or (2) with its flags over its whole run."

const (
	findingF1 = "embedded-leaf-evicted-under-dirty-internal-node"
	findingF2 = "node-capacity-not-above-path-depth"
)

// classify maps a failing case to a finding key ("" = ordinary violation) and
// the mechanism text that prefixes the finding's description.
func classify(c Case, f1, prefixPair bool, depth int) (key, mechanism string) {
	pid := "C02"
	if c.Mode == "c03" {
		pid = "C03"
	}
	switch {
	case c.NodeCap > 0 && c.NodeCap <= uint64(depth)+1:
		return pid + ":" + findingF2, fmt.Sprintf("node capacity %d <= path depth %d+1, a node on the active path is evicted: ", c.NodeCap, depth)
	case c.ValueCap > 0 && c.ValueCap < 16777216 && (f1 || prefixPair):
		return pid + ":" + findingF1, "value-cache eviction of the embedded leaf of a dirty internal node (LeafNode.Node == nil): "
	}
	return "", ""
}

// ample is the identical history with capacities that never evict.
func ample(c Case) Case {
	c.NodeCap, c.ValueCap = 5000, 16777216
	return c
}

// recordFinding appends the finding (replay = the un-shrunk description) and
// keeps, per key, one shrunk replay in summary.Extra["findings_shrunk"].
func recordFinding(sum *coqout.Summary, key, what string, c Case, sig sigState, shrink func() (Case, string)) {
	sum.Findings = append(sum.Findings, coqout.Finding{Key: key, What: what, Replay: c})
	sum.Count("findings", key+"/"+c.Backend)
	fs, _ := sum.Extra["findings_shrunk"].(map[string]any)
	if fs == nil {
		fs = map[string]any{}
		sum.Extra["findings_shrunk"] = fs
	}
	if e, ok := fs[key].(map[string]any); ok {
		e["count"] = e["count"].(int) + 1
		return
	}
	sc, swhat := shrink()
	fs[key] = map[string]any{"case": sc, "what": swhat, "count": 1,
		"sig_dirty_node_with_evicted_leaf": sig.failF1, "sig_dirty_pointer_without_node": sig.failF2, "max_path_depth": sig.failDepth, "had_prefix_pair": sig.failPrefix, "ample_rerun": "clean"}
	sum.Extra["finding_rules"] = findingRules
}

// smallValueCapClass is the histogram key telling, for a case with a small
// value capacity, whether a proper-prefix key pair ever existed and whether
// the case failed.
func smallValueCapClass(c Case, sig sigState, failed bool) (string, bool) {
	if !c.isDB() || c.ValueCap == 0 || c.ValueCap >= 16777216 {
		return "", false
	}
	k, p := "never_prefix_pair", sig.hadPrefix
	if failed {
		p = sig.failPrefix
	}
	if p {
		k = "had_prefix_pair"
	}
	if failed {
		return k + "/failed", true
	}
	return k + "/clean", true
}

// counts collects histogram increments of one case.
type counts map[string]map[string]int

func (c counts) add(h, k string) { c.addN(h, k, 1) }
func (c counts) addN(h, k string, n int) {
	if c[h] == nil {
		c[h] = map[string]int{}
	}
	c[h][k] += n
}
func (c counts) into(s *coqout.Summary) {
	for _, h := range coqout.SortedKeys(c) {
		for _, k := range coqout.SortedKeys(c[h]) {
			for i := 0; i < c[h][k]; i++ {
				s.Count(h, k)
			}
		}
	}
}

// countKV records the distribution of the generated keys / values.
func (c counts) countKey(k []byte) {
	c.add("key_len", bucket(len(k), 0, 4, 16, 64))
}
func (c counts) countVal(v []byte) {
	c.add("value_len", bucket(len(v), 0, 8))
}

func bucket(n int, edges ...int) string {
	// edges are inclusive upper bounds of consecutive buckets
	lo := 0
	for _, e := range edges {
		if n <= e {
			if lo == e {
				return fmt.Sprint(e)
			}
			return fmt.Sprintf("%d-%d", lo, e)
		}
		lo = e + 1
	}
	return fmt.Sprintf("%d+", lo)
}

// ---------- shrinking ----------

// shrinkLeft is the run-wide budget of candidate runs spent on shrinking (the
// implementation is re-run once per candidate); when it is used up the
// remaining violations are reported un-shrunk.
var shrinkLeft = 250

const shrinkPerViolation = 120

// Only the first violation of every (kind, backend, evicting-or-not) class is
// shrunk; further ones of the same class are reported as they were generated.
var shrunkClasses = map[string]bool{}

func firstOfItsKind(kind string, c Case) bool {
	k := fmt.Sprintf("%s/%s/%v", kind, c.Backend, evicting(c))
	if shrunkClasses[k] {
		return false
	}
	shrunkClasses[k] = true
	return true
}

// shrinkOps greedily removes chunks of operations (halving the chunk size down
// to single operations) while test accepts the candidate; test returns the
// operation list to continue with (the operations actually performed).
func shrinkOps(ops []Op, test func([]Op) ([]Op, bool)) []Op {
	budget := shrinkPerViolation
	if len(ops) > 300 {
		budget = 30 // long histories: every candidate run is expensive
	}
	for chunk := (len(ops) + 1) / 2; chunk >= 1 && budget > 0 && shrinkLeft > 0; {
		removed := false
		for i := 0; i+chunk <= len(ops) && budget > 0 && shrinkLeft > 0; {
			cand := append(append([]Op{}, ops[:i]...), ops[i+chunk:]...)
			budget--
			shrinkLeft--
			if eff, ok := test(cand); ok && len(eff) < len(ops) {
				ops = eff
				removed = true
			} else {
				i += chunk
			}
		}
		switch {
		case chunk > 1:
			chunk /= 2
		case !removed:
			chunk = 0
		}
	}
	return ops
}

// ---------- scratch node databases ----------

type env struct {
	ndb db.NodeDB
	dir string
}

func openEnv(backend string) (*env, error) {
	if backend == "mem" {
		return &env{}, nil
	}
	dir, err := os.MkdirTemp(scratchRoot, "db-"+backend+"-")
	if err != nil {
		return nil, err
	}
	cfg := &db.Config{DB: dir, NoFsync: true, Namespace: ns, MaxCacheSize: 16 * 1024 * 1024}
	var ndb db.NodeDB
	switch backend {
	case "badger":
		ndb, err = badgerDb.New(cfg)
	case "pathbadger":
		ndb, err = pathBadgerDb.New(cfg)
	default:
		err = fmt.Errorf("unknown backend %q", backend)
	}
	if err != nil {
		_ = os.RemoveAll(dir)
		return nil, err
	}
	return &env{ndb: ndb, dir: dir}, nil
}

func (e *env) close() {
	if e == nil {
		return
	}
	if e.ndb != nil {
		func() {
			defer func() { _ = recover() }()
			e.ndb.Close()
		}()
		e.ndb = nil
	}
	if e.dir != "" {
		_ = os.RemoveAll(e.dir)
		e.dir = ""
	}
}

// debugStack prints the stack of a recovered panic when VERIF_MKVS_STACK is set (diagnosis only).
func debugStack() {
	if os.Getenv("VERIF_MKVS_STACK") != "" {
		os.Stderr.Write(debug.Stack())
	}
}

// ---------- fault injection ----------

var errInjected = errors.New("verif: injected node database read error")

func isInjected(err error) bool {
	return err != nil && (errors.Is(err, errInjected) || strings.Contains(err.Error(), errInjected.Error()))
}

// faultDB forwards everything to the real node database; when armed, the
// k-th GetNode call (counted from arming) fails once with errInjected, or,
// when armed with a cancel function, cancels the operation's context and
// lets the read proceed.
type faultDB struct {
	db.NodeDB
	calls     int
	countdown int
	fired     bool
	cancel    context.CancelFunc
}

func (f *faultDB) GetNode(root node.Root, ptr *node.Pointer) (node.Node, error) {
	f.calls++
	if f.countdown > 0 {
		f.countdown--
		if f.countdown == 0 {
			f.fired = true
			if f.cancel == nil {
				return nil, errInjected
			}
			f.cancel()
		}
	}
	return f.NodeDB.GetNode(root, ptr)
}

func (f *faultDB) arm(k int, cancel context.CancelFunc) {
	f.countdown, f.fired, f.cancel = k, false, cancel
}

// disarm reports whether the fault fired since arming.
func (f *faultDB) disarm() bool {
	f.countdown, f.cancel = 0, nil
	return f.fired
}

// quietly runs f, swallowing a panic (used for cleanup after the implementation panicked).
func quietly(f func()) {
	defer func() { _ = recover() }()
	f()
}

func treeOptions(c Case) []mkvs.Option {
	o := []mkvs.Option{mkvs.Capacity(c.NodeCap, c.ValueCap)}
	if !c.UseLog {
		o = append(o, mkvs.WithoutWriteLog())
	}
	return o
}

// ---------- generators ----------

// capsMode restricts the generated capacities: all (default), safe (never
// evicting), evicting (database backends with at least one small capacity).
var capsMode = "all"

var (
	alphabet  = []byte{0x00, 0x01, 0x80, 0xff}
	nodeCaps  = []uint64{0, 1, 2, 3, 8, 16, 32, 5000}
	valueCaps = []uint64{0, 1, 16, 64, 16777216}
)

// genConfig fills backend and capacities. The in-memory backend (NopNodeDB)
// cannot re-fetch evicted nodes, so it only gets the unlimited or the default
// capacity.
func genConfig(r *prng.R, c *Case) {
	switch capsMode {
	case "safe":
		// only capacities that never evict in histories of this size
		c.Backend = []string{"mem", "badger", "pathbadger"}[r.Intn(3)]
		c.NodeCap = []uint64{0, 5000}[r.Intn(2)]
		c.ValueCap = []uint64{0, 16777216}[r.Intn(2)]
		if c.Backend == "mem" && (c.NodeCap == 0) != (c.ValueCap == 0) {
			c.ValueCap = 16777216 * (c.NodeCap / 5000)
		}
		return
	case "evicting":
		for {
			c.Backend = []string{"badger", "pathbadger"}[r.Intn(2)]
			c.NodeCap = nodeCaps[r.Intn(len(nodeCaps))]
			c.ValueCap = valueCaps[r.Intn(len(valueCaps))]
			if evicting(*c) {
				return
			}
		}
	}
	c.Backend = []string{"mem", "badger", "pathbadger"}[r.Intn(3)]
	if c.Backend == "mem" {
		if r.Chance(50) {
			c.NodeCap, c.ValueCap = 0, 0
		} else {
			c.NodeCap, c.ValueCap = 5000, 16777216
		}
		return
	}
	c.NodeCap = nodeCaps[r.Intn(len(nodeCaps))]
	c.ValueCap = valueCaps[r.Intn(len(valueCaps))]
}

func evicting(c Case) bool {
	return c.isDB() && ((c.NodeCap >= 1 && c.NodeCap <= 32) || (c.ValueCap >= 1 && c.ValueCap <= 64))
}

// longHistory decides whether the case gets a long history biased toward
// inserts of new keys: with node capacity 16/32 or a small value capacity the
// number of cached nodes / value bytes then regularly exceeds the capacity
// while the path depth stays below it (eviction that has to work). About 45%
// of the eligible cases, i.e. roughly 20% of all cases.
func longHistory(r *prng.R, c Case) bool {
	eligible := c.isDB() && (c.NodeCap == 16 || c.NodeCap == 32 || (c.ValueCap >= 1 && c.ValueCap <= 64))
	return eligible && r.Chance(45)
}

// keygen produces keys and values; it remembers the keys of this history.
type keygen struct {
	r    *prng.R
	used [][]byte
	set  map[string]bool
}

func newKeygen(r *prng.R) *keygen { return &keygen{r: r, set: map[string]bool{}} }

func (g *keygen) note(k []byte) []byte {
	if !g.set[string(k)] {
		g.set[string(k)] = true
		g.used = append(g.used, k)
	}
	return k
}

func (g *keygen) short() []byte {
	k := make([]byte, g.r.Intn(5))
	for i := range k {
		k[i] = alphabet[g.r.Intn(len(alphabet))]
	}
	return k
}

// key picks the next key: 6% the empty key, 5% a long key, 64% a key already
// used in this history (if any), else a fresh short key over the alphabet.
func (g *keygen) key() []byte {
	x := g.r.Intn(100)
	switch {
	case x < 6:
		return g.note([]byte{})
	case x < 11:
		// long key: an existing key or an alphabet prefix, extended by random bytes to 5..64 bytes
		var base []byte
		if len(g.used) > 0 && g.r.Chance(50) {
			base = g.used[g.r.Intn(len(g.used))]
		} else {
			base = g.short()
		}
		n := g.r.Range(5, 64)
		if g.r.Chance(50) {
			n = g.r.Range(5, 9)
		}
		k := append([]byte{}, base...)
		if len(k) > n-1 {
			k = k[:n-1]
		}
		k = append(k, g.r.Bytes(n-len(k))...)
		return g.note(k)
	case x < 75 && len(g.used) > 0:
		return g.used[g.r.Intn(len(g.used))]
	}
	return g.note(g.short())
}

// newKey returns a key not used in this history yet.
func (g *keygen) newKey() []byte {
	for i := 0; i < 40; i++ {
		k := g.short()
		if i >= 10 || g.r.Chance(10) {
			k = append(k, g.r.Bytes(g.r.Range(1, 3))...)
		}
		if !g.set[string(k)] {
			return g.note(k)
		}
	}
	return g.note(append(g.short(), g.r.Bytes(8)...))
}

func (g *keygen) val() []byte {
	if g.r.Chance(12) {
		return []byte{}
	}
	return g.r.Bytes(g.r.Range(0, 8))
}

func sortedKeys(m map[string][]byte) []string {
	ks := make([]string, 0, len(m))
	for k := range m {
		ks = append(ks, k)
	}
	sort.Strings(ks) // byte-wise order of Go strings = bytes.Compare order
	return ks
}

func copyMap(m map[string][]byte) map[string][]byte {
	out := make(map[string][]byte, len(m))
	for k, v := range m {
		out[k] = v
	}
	return out
}

// ---------- replay files ----------

type replayInput struct {
	single *Case
	base   *Case
	twin   *Case
}

// parseReplay accepts a case description, a {"base":..,"twin":..} pair, or
// either of them wrapped in "case" / "desc" / "first_disagreeing_case" objects
// (a violation entry, a cases.jsonl line, a replay file of the driver).
func parseReplay(b []byte) (*replayInput, error) {
	for depth := 0; depth < 6; depth++ {
		var m map[string]json.RawMessage
		if err := json.Unmarshal(b, &m); err != nil {
			return nil, err
		}
		if _, ok := m["mode"]; ok {
			var c Case
			if err := json.Unmarshal(b, &c); err != nil {
				return nil, err
			}
			return &replayInput{single: &c}, nil
		}
		if _, ok := m["backend"]; ok {
			var c Case
			if err := json.Unmarshal(b, &c); err != nil {
				return nil, err
			}
			return &replayInput{single: &c}, nil
		}
		_, hb := m["base"]
		_, ht := m["twin"]
		if hb && ht {
			var a, t Case
			if err := json.Unmarshal(m["base"], &a); err != nil {
				return nil, err
			}
			if err := json.Unmarshal(m["twin"], &t); err != nil {
				return nil, err
			}
			return &replayInput{base: &a, twin: &t}, nil
		}
		next := json.RawMessage(nil)
		for _, k := range []string{"case", "desc", "first_disagreeing_case", "replay"} {
			if v, ok := m[k]; ok && len(v) > 0 && v[0] == '{' {
				next = v
				break
			}
		}
		if next == nil {
			return nil, fmt.Errorf("no case description found in replay file")
		}
		b = next
	}
	return nil, fmt.Errorf("replay file nested too deeply")
}

func main() {
	seed := flag.Uint64("seed", 1, "seed")
	n := flag.Int("cases", 300, "number of emitted cases")
	out := flag.String("out", "", "output directory")
	mode := flag.String("mode", "c02", "c02 (shape and root hash), c03 (tree / overlay answers) or keys (node.Key sweeps)")
	replay := flag.String("replay", "", "replay a case description (JSON file)")
	klenFlag := flag.String("klen", "11,10,13,12,7,10", "mode keys: length bounds of the six sweeps")
	flag.StringVar(&capsMode, "caps", "all", "generated cache capacities: all, safe (never evicting) or evicting")
	flag.Parse()
	switch capsMode {
	case "all", "safe", "evicting":
	default:
		fmt.Fprintln(os.Stderr, "unknown -caps", capsMode)
		os.Exit(2)
	}
	if *out == "" {
		fmt.Fprintln(os.Stderr, "need -out")
		os.Exit(2)
	}
	if os.Getenv("VERIF_MKVS_NOSHRINK") != "" {
		shrinkLeft = 0 // diagnosis only
	}
	var err error
	scratchRoot, err = os.MkdirTemp("", "verif-mkvs-")
	if err != nil {
		fmt.Fprintln(os.Stderr, "cannot create scratch directory:", err)
		os.Exit(2)
	}
	code := 0
	func() {
		defer os.RemoveAll(scratchRoot)
		var rp *replayInput
		if *replay != "" {
			b, err := os.ReadFile(*replay)
			if err == nil {
				rp, err = parseReplay(b)
			}
			if err != nil {
				fmt.Fprintln(os.Stderr, "cannot read replay file:", err)
				code = 2
				return
			}
			switch {
			case rp.single != nil:
				*mode = rp.single.Mode
			default:
				*mode = rp.base.Mode
			}
		}
		switch *mode {
		case "c02":
			mainC02(*seed, *n, *out, rp)
		case "c03":
			mainC03(*seed, *n, *out, rp)
		case "keys":
			klen, err := parseKlen(*klenFlag)
			if err != nil || (rp != nil && rp.single == nil) {
				fmt.Fprintln(os.Stderr, "mode keys:", err)
				code = 2
				return
			}
			mainKeys(*out, klen, rp, os.Getenv("VERIF_MKVS_KTRACE") != "")
		default:
			fmt.Fprintln(os.Stderr, "unknown mode", *mode)
			code = 2
		}
	}()
	os.Exit(code)
}
