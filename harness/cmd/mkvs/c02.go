package main

// Mode c02: insert / remove / commit histories on one tree; the shape after
// the last commit and every committed root hash are compared with the Coq
// model (run_c02), and the "root is a function of the contents only" property
// is evaluated directly on the implementation (twins, global contents<->root
// maps, Get against a reference map).

import (
	"bytes"
	"context"
	"crypto/sha512"
	"encoding/binary"
	"encoding/hex"
	"encoding/json"
	"errors"
	"fmt"
	"sort"
	"strings"

	"github.com/oasisprotocol/oasis-core/go/storage/mkvs"
	db "github.com/oasisprotocol/oasis-core/go/storage/mkvs/db/api"
	"github.com/oasisprotocol/oasis-core/go/storage/mkvs/node"
	"github.com/oasisprotocol/oasis-core/go/storage/mkvs/writelog"

	"verifharness/internal/coqout"
	"verifharness/internal/prng"
)

// ---------- the hash table handed to the model ----------

type hashTable struct {
	seen map[string]bool
	rows []string
}

func newHashTable() *hashTable {
	t := &hashTable{seen: map[string]bool{}}
	t.add(nil) // the hash of a nil pointer: digest of the empty string
	return t
}

func (t *hashTable) add(pre []byte) [32]byte {
	d := sha512.Sum512_256(pre)
	if !t.seen[string(pre)] {
		t.seen[string(pre)] = true
		t.rows = append(t.rows, "("+coqBytes(pre)+", "+coqBytes(d[:])+")")
	}
	return d
}

// hash evaluates the node hash formula over a dumped shape (never reading the
// nodes' cached Hash fields) and records every pre-image.
func (t *hashTable) hash(n *mkvs.VerifNode) [32]byte {
	if n == nil || n.Kind == 0 {
		return t.add(nil)
	}
	var pre []byte
	switch n.Kind {
	case 1:
		pre = append(pre, 0x00)
		pre = binary.LittleEndian.AppendUint32(pre, uint32(len(n.Key)))
		pre = append(pre, n.Key...)
		pre = binary.LittleEndian.AppendUint32(pre, uint32(len(n.Value)))
		pre = append(pre, n.Value...)
	default:
		lf, l, r := t.hash(n.Leaf), t.hash(n.Left), t.hash(n.Right)
		pre = append(pre, 0x01)
		pre = binary.LittleEndian.AppendUint16(pre, n.LabelBitLength)
		pre = append(pre, n.Label...)
		pre = append(pre, lf[:]...)
		pre = append(pre, l[:]...)
		pre = append(pre, r[:]...)
	}
	return t.add(pre)
}

func dumpCoq(n *mkvs.VerifNode, internal *int) string {
	if n == nil || n.Kind == 0 {
		return "DNil"
	}
	if n.Kind == 1 {
		return "(DLeaf " + coqBytes(n.Key) + " " + coqBytes(n.Value) + ")"
	}
	*internal++
	return fmt.Sprintf("(DNode %d %s %s %s %s)", n.LabelBitLength, coqBytes(n.Label),
		dumpCoq(n.Leaf, internal), dumpCoq(n.Left, internal), dumpCoq(n.Right, internal))
}

// storedTreeFinite walks the nodes stored under root directly through the node
// database (no cache) with a bound on depth and node count.
func storedTreeFinite(ndb db.NodeDB, root node.Root) error {
	const maxDepth, maxNodes = 600, 200000 // keys are at most 64 bytes = 512 bits
	nodes := 0
	var walk func(ptr *node.Pointer, d int) error
	walk = func(ptr *node.Pointer, d int) error {
		if ptr == nil {
			return nil
		}
		if nodes++; d > maxDepth || nodes > maxNodes {
			return fmt.Errorf("deeper than %d levels or more than %d nodes (a node refers back to an ancestor)", maxDepth, maxNodes)
		}
		n := ptr.Node
		if n == nil {
			if ptr.Hash.IsEmpty() {
				return nil
			}
			var err error
			if n, err = ndb.GetNode(root, ptr); err != nil {
				return fmt.Errorf("GetNode at depth %d: %w", d, err)
			}
		}
		if in, ok := n.(*node.InternalNode); ok {
			if err := walk(in.Left, d+1); err != nil {
				return err
			}
			return walk(in.Right, d+1)
		}
		return nil
	}
	return walk(&node.Pointer{Clean: true, Hash: root.Hash}, 0)
}

func dumpContents(n *mkvs.VerifNode, into map[string][]byte) {
	if n == nil || n.Kind == 0 {
		return
	}
	if n.Kind == 1 {
		into[string(n.Key)] = n.Value
		return
	}
	dumpContents(n.Leaf, into)
	dumpContents(n.Left, into)
	dumpContents(n.Right, into)
}

func showMap(m map[string][]byte) string {
	var s []string
	for _, k := range sortedKeys(m) {
		s = append(s, fmt.Sprintf("%x=%x", k, m[k]))
	}
	return "{" + strings.Join(s, " ") + "}"
}

// ---------- running one case on the implementation ----------

type res02 struct {
	coqOps    []string
	roots     [][]byte
	logs      [][]WLEntry // the write logs returned by Commit, sorted by key
	table     *hashTable
	dumpStr   string
	internal  int
	ref       map[string][]byte // reference contents at the end
	used      map[string]bool   // every key touched
	viol      *violation
	panicked  bool
	stats     counts
	commits   int
	reopens   int
	eff       []Op // the operations actually performed (illegal reopens skipped)
	cut       int  // with a violation: the number of leading operations that produced it
	sig       sigState
	lastRoot  []byte // the root of the last successful commit
	completed bool
	badKnown  int          // failed CommitKnown attempts performed
	faulted   map[int]bool // indices (in the case's ops) of the ops that returned the injected error and were retried
	fired     int
}

func (r *res02) finalRoot() []byte { return r.lastRoot }

func (r *res02) term() string {
	ops := "(@nil cop)"
	if len(r.coqOps) > 0 {
		ops = coqout.List(r.coqOps)
	}
	tab := "(@nil (bytes * bytes))"
	if len(r.table.rows) > 0 {
		tab = "[" + strings.Join(r.table.rows, ";\n  ") + "]"
	}
	roots := "(@nil bytes)"
	if len(r.roots) > 0 {
		var rs []string
		for _, h := range r.roots {
			rs = append(rs, coqBytes(h))
		}
		roots = coqout.List(rs)
	}
	return fmt.Sprintf("((%s,\n %s),\n (%s,\n  %s))", ops, tab, roots, r.dumpStr)
}

// canonical serialisation of a contents map: sorted, length-prefixed
func canonContents(m map[string][]byte) string {
	var b []byte
	for _, k := range sortedKeys(m) {
		b = binary.LittleEndian.AppendUint32(b, uint32(len(k)))
		b = append(b, k...)
		b = binary.LittleEndian.AppendUint32(b, uint32(len(m[k])))
		b = append(b, m[k]...)
	}
	return string(b)
}

func faultPrefix(r *res02) string {
	if r.fired > 0 {
		return "after an injected node database read error and retry: "
	}
	return ""
}

// withFaulted records on the description which armed ops returned the injected error.
func withFaulted(c Case, r *res02) Case {
	if len(r.faulted) == 0 {
		return c
	}
	ops := append([]Op{}, c.Ops...)
	for i := range ops {
		ops[i].Faulted = r.faulted[i]
	}
	return c.withOps(ops)
}

// isCommit: the op commits the tree (a successful commit in the model).
func isCommit(k string) bool { return k == "commit" || k == "commitknown_ok" }

// commitOps: a commit point of a generated history: a plain commit or (25%) a
// CommitKnown with the right root, preceded (20%) by a CommitKnown with a wrong root.
func commitOps(r *prng.R) []Op {
	var ops []Op
	if r.Chance(20) {
		ops = append(ops, badKnown(r))
	}
	if r.Chance(25) {
		return append(ops, Op{K: "commitknown_ok"})
	}
	return append(ops, Op{K: "commit"})
}

func badKnown(r *prng.R) Op {
	switch x := r.Intn(100); {
	case x < 50:
		return Op{K: "commitknown_bad", Bad: "flip", N: r.Intn(32)}
	case x < 75:
		return Op{K: "commitknown_bad", Bad: "prev"}
	}
	h := r.Bytes(32)
	h[0] |= 1 // never all zero
	return Op{K: "commitknown_bad", Bad: "rand", Hash: h}
}

// normalize02 makes the history end with a commit (a reopen may follow it).
func normalize02(c Case) Case {
	last := ""
	for i := len(c.Ops) - 1; i >= 0; i-- {
		if c.Ops[i].K != "reopen" {
			last = c.Ops[i].K
			break
		}
	}
	if !isCommit(last) {
		ops := append([]Op{}, c.Ops...)
		// keep trailing reopens legal: drop them, they would not follow a commit
		for len(ops) > 0 && ops[len(ops)-1].K == "reopen" {
			ops = ops[:len(ops)-1]
		}
		c.Ops = append(ops, Op{K: "commit"})
	}
	return c
}

func runC02(c Case) (res *res02) {
	res = &res02{table: newHashTable(), ref: map[string][]byte{}, used: map[string]bool{}, stats: counts{}, dumpStr: "DNil", faulted: map[int]bool{}}
	var e *env
	var tree mkvs.Tree
	at := -1 // index of the operation being performed
	fail := func(kind, f string, a ...any) {
		if res.viol == nil {
			res.viol = &violation{kind: kind, what: faultPrefix(res) + fmt.Sprintf(f, a...)}
			res.cut = at + 1
			res.sig.snapshot(tree)
		}
	}
	defer func() {
		if p := recover(); p != nil {
			res.viol = &violation{kind: "panic", what: faultPrefix(res) + fmt.Sprintf("implementation panicked: %v", p)}
			res.cut = at + 1
			res.sig.snapshot(tree)
			debugStack()
			res.panicked = true
		}
		if tree != nil {
			quietly(tree.Close)
		}
		e.close()
	}()
	var err error
	if e, err = openEnv(c.Backend); err != nil {
		fail("error", "unexpected error: opening node database: %v", err)
		return
	}
	// the tree under test reads through treeDB; dumps and Finalize use the real database
	treeDB := e.ndb
	var fdb *faultDB
	for _, o := range c.Ops {
		if o.FaultK > 0 && e.ndb != nil {
			fdb = &faultDB{NodeDB: e.ndb}
			treeDB = fdb
			break
		}
	}
	tree = mkvs.New(nil, treeDB, node.RootTypeState, treeOptions(c)...)
	// attempt performs one tree operation, with the fault armed when the op asks for it; an
	// injected failure is recorded and the operation retried once without fault.
	attempt := func(i int, o Op, f func(cx context.Context) error) error {
		if o.FaultK <= 0 || fdb == nil {
			return f(ctx)
		}
		kind := o.faultKind()
		tag := kind + "/" + o.K
		cx, cancel := ctx, context.CancelFunc(nil)
		if kind == "ctx" {
			cx, cancel = context.WithCancel(ctx)
			defer cancel()
		}
		_, present := res.ref[string(o.Key)]
		fdb.arm(o.FaultK, cancel)
		res.stats.add("faults", "armed/"+tag)
		err := f(cx)
		fired := fdb.disarm()
		switch {
		case err != nil && fired && (kind == "db" && isInjected(err) || kind == "ctx" && errors.Is(err, context.Canceled)):
			res.faulted[i] = true
			res.fired++
			res.stats.add("faults", "fired/"+tag)
			if o.K == "rem" && present {
				res.stats.add("faults", "rem_present_fired")
			}
			res.sig.scan(tree)
			return f(ctx) // retry, fresh context, no fault
		case err != nil:
			return err
		case fired:
			res.stats.add("faults", "fired_but_op_succeeded/"+tag)
		default:
			res.stats.add("faults", "not_reached/"+tag)
		}
		return nil
	}
	version := uint64(0)
	var lastRoot node.Root
	justCommitted := false
	feat := map[string]bool{}
	noteKey := func(k []byte) {
		res.used[string(k)] = true
		res.stats.countKey(k)
		if len(k) == 0 {
			feat["has_empty_key"] = true
		}
		if len(k) > 4 {
			feat["has_long_key"] = true
		}
	}
	refIns := func(k, v []byte) {
		noteKey(k)
		res.stats.countVal(v)
		if len(v) == 0 {
			feat["has_empty_value"] = true
		}
		_, had := res.ref[string(k)]
		res.ref[string(k)] = v
		if !had {
			res.sig.depth(res.ref)
		}
		res.coqOps = append(res.coqOps, "CIns "+coqBytes(k)+" "+coqBytes(v))
	}
	refRem := func(k []byte) {
		noteKey(k)
		if _, ok := res.ref[string(k)]; ok {
			if len(res.ref) >= 2 {
				feat["collapse"] = true
			}
			delete(res.ref, string(k))
			if len(res.ref) == 0 {
				feat["removed_to_empty"] = true
			}
		}
		res.coqOps = append(res.coqOps, "CRem "+coqBytes(k))
	}
	// class "long": only the final commit goes to the model (the case stays small); the
	// contents of every commit are still checked against the reference
	lastCommit := -1
	for i, o := range c.Ops {
		if isCommit(o.K) {
			lastCommit = i
		}
	}
	toModel := func(i int) bool { return c.Class != "long" || i == lastCommit }
	for i, o := range c.Ops {
		at = i
		switch o.K {
		case "get":
			v, err := tree.Get(ctx, nn(o.Key))
			res.sig.scan(tree)
			if err != nil {
				fail("error", "unexpected error: op %d Get(%x): %v", i, o.Key, err)
				return
			}
			rv, ok := res.ref[string(o.Key)]
			switch {
			case ok && v == nil:
				fail("get-absent", "op %d: Get(%x) returned nil, the reference map holds %x", i, o.Key, rv)
			case !ok && v != nil:
				fail("get-present", "op %d: Get(%x) returned %x, the reference map does not hold the key", i, o.Key, v)
			case ok && !bytes.Equal(v, rv):
				fail("get-value", "op %d: Get(%x) returned %x, the reference map holds %x", i, o.Key, v, rv)
			}
		case "iter":
			var got []kv
			func() {
				it := tree.NewIterator(ctx)
				defer it.Close()
				it.Seek(nn(o.Key))
				for it.Valid() {
					got = append(got, kv{nn(it.Key()), nn(it.Value())})
					if len(got) >= o.N+1 {
						break
					}
					it.Next()
				}
				err = it.Err()
			}()
			res.sig.scan(tree)
			if err != nil {
				fail("error", "unexpected error: op %d iterator: %v", i, err)
				return
			}
			var want []kv
			for _, k := range sortedKeys(res.ref) {
				if bytes.Compare([]byte(k), o.Key) >= 0 && len(want) < o.N+1 {
					want = append(want, kv{[]byte(k), res.ref[k]})
				}
			}
			same := len(got) == len(want)
			for j := 0; same && j < len(got); j++ {
				same = bytes.Equal(got[j].k, want[j].k) && bytes.Equal(got[j].v, want[j].v)
			}
			if !same {
				fail("iter", "op %d (iter seek %x n %d): got %s, the reference says %s", i, o.Key, o.N, showKVs(got), showKVs(want))
			}
		case "ins":
			if err = attempt(i, o, func(cx context.Context) error { return tree.Insert(cx, nn(o.Key), nn(o.Val)) }); err != nil {
				fail("error", "unexpected error: Insert: %v", err)
				return
			}
			refIns(o.Key, o.Val)
			res.sig.scan(tree)
			justCommitted = false
		case "rem":
			if err = attempt(i, o, func(cx context.Context) error { return tree.Remove(cx, nn(o.Key)) }); err != nil {
				fail("error", "unexpected error: Remove: %v", err)
				return
			}
			refRem(o.Key)
			res.sig.scan(tree)
			justCommitted = false
		case "applywl":
			var wl writelog.WriteLog
			for _, en := range o.Entries {
				le := writelog.LogEntry{Key: nn(en.Key)}
				if en.Val != nil {
					le.Value = nn(en.Val)
				}
				wl = append(wl, le)
			}
			if err = tree.ApplyWriteLog(ctx, &scanningWL{inner: writelog.NewStaticIterator(wl), scan: func() { res.sig.scan(tree) }}); err != nil {
				fail("error", "unexpected error: ApplyWriteLog: %v", err)
				return
			}
			for _, en := range o.Entries {
				if en.Val == nil {
					refRem(en.Key)
					res.stats.add("op_kinds", "applywl_rem")
				} else {
					refIns(en.Key, en.Val)
					res.stats.add("op_kinds", "applywl_ins")
				}
			}
			res.sig.scan(tree)
			justCommitted = false
		case "commitknown_bad":
			// CommitKnown with a wrong root: must fail with ErrKnownRootMismatch and leave
			// the tree, the database and the version usable
			res.sig.scan(tree)
			wrong := lastRoot.Hash
			if o.Bad == "rand" && len(o.Hash) == 32 {
				copy(wrong[:], o.Hash)
			} else {
				_, h0, err := tree.Commit(ctx, ns, version, mkvs.NoPersist())
				if err != nil {
					fail("error", "unexpected error: Commit(version %d, NoPersist): %v", version, err)
					return
				}
				if o.Bad == "prev" && version > 0 && !lastRoot.Hash.Equal(&h0) {
					wrong = lastRoot.Hash
				} else {
					wrong = h0
					wrong[((o.N%32)+32)%32] ^= 0x01
				}
			}
			_, err = tree.CommitKnown(ctx, node.Root{Namespace: ns, Version: version, Type: node.RootTypeState, Hash: wrong})
			switch {
			case err == nil:
				fail("commitknown-accepted", "CommitKnown(version %d) accepted the wrong root %x", version, wrong[:])
				return
			case !errors.Is(err, mkvs.ErrKnownRootMismatch):
				fail("error", "unexpected error: CommitKnown(version %d) with a wrong root: %v", version, err)
				return
			}
			res.sig.scan(tree)
			res.roots = append(res.roots, []byte{})
			res.coqOps = append(res.coqOps, "CCommitKnown "+coqBytes(wrong[:]))
			res.stats.add("commitknown", "bad_"+o.Bad)
			res.badKnown++
			justCommitted = false
		case "commit", "commitknown_ok":
			res.sig.scan(tree)
			var wl writelog.WriteLog
			h := lastRoot.Hash
			if o.K == "commit" {
				wl, h, err = tree.Commit(ctx, ns, version)
				if err != nil {
					fail("error", "unexpected error: Commit(version %d): %v", version, err)
					return
				}
				if toModel(i) {
					res.coqOps = append(res.coqOps, "CCommit")
				}
			} else {
				// learn the root with a hash-only commit, then commit against it
				if _, h, err = tree.Commit(ctx, ns, version, mkvs.NoPersist()); err != nil {
					fail("error", "unexpected error: Commit(version %d, NoPersist): %v", version, err)
					return
				}
				if wl, err = tree.CommitKnown(ctx, node.Root{Namespace: ns, Version: version, Type: node.RootTypeState, Hash: h}); err != nil {
					fail("error", "unexpected error: CommitKnown(version %d) with the root %x learnt by a NoPersist commit: %v", version, h[:], err)
					return
				}
				if toModel(i) {
					res.coqOps = append(res.coqOps, "CCommitKnown "+coqBytes(h[:]))
				}
				res.stats.add("commitknown", "ok")
			}
			lastRoot = node.Root{Namespace: ns, Version: version, Type: node.RootTypeState, Hash: h}
			if e.ndb != nil {
				if err = e.ndb.Finalize([]node.Root{lastRoot}); err != nil {
					fail("error", "unexpected error: Finalize(version %d): %v", version, err)
					return
				}
			}
			version++
			res.commits++
			if toModel(i) {
				res.roots = append(res.roots, append([]byte{}, h[:]...))
			}
			res.lastRoot = append([]byte{}, h[:]...)
			// the returned write log comes from a Go map: sort it
			var lg []WLEntry
			for _, le := range wl {
				en := WLEntry{Key: nn(le.Key)}
				if le.Value != nil {
					en.Val = nn(le.Value)
				}
				lg = append(lg, en)
			}
			sort.Slice(lg, func(i, j int) bool { return bytes.Compare(lg[i].Key, lg[j].Key) < 0 })
			res.logs = append(res.logs, lg)
			// dump the committed shape
			var d *mkvs.VerifNode
			switch {
			case h.IsEmpty():
				d = nil
			case e.ndb == nil:
				d, err = mkvs.VerifDump(ctx, tree)
			default:
				// the dump recurses without bound: make sure first that what the database
				// holds under this root is a finite tree
				if err = storedTreeFinite(e.ndb, lastRoot); err != nil {
					fail("stored-tree", "the tree stored at version %d (root %x) is not a finite tree: %v", version-1, h[:], err)
					return
				}
				func() {
					fresh := mkvs.NewWithRoot(nil, e.ndb, lastRoot, mkvs.Capacity(0, 0))
					defer fresh.Close()
					d, err = mkvs.VerifDump(ctx, fresh)
				}()
			}
			if err != nil {
				fail("error", "unexpected error: dumping the tree committed at version %d: %v", version-1, err)
				return
			}
			if toModel(i) {
				res.table.hash(d)
			}
			res.internal = 0
			res.dumpStr = dumpCoq(d, &res.internal)
			justCommitted = true
			// S(4): what was committed is exactly the reference contents
			got := map[string][]byte{}
			dumpContents(d, got)
			if canonContents(got) != canonContents(res.ref) {
				if len(res.ref) > 16 {
					miss, extra, diff := map[string][]byte{}, map[string][]byte{}, map[string][]byte{}
					for k, v := range res.ref {
						if gv, ok := got[k]; !ok {
							miss[k] = v
						} else if !bytes.Equal(gv, v) {
							diff[k] = gv
						}
					}
					for k, v := range got {
						if _, ok := res.ref[k]; !ok {
							extra[k] = v
						}
					}
					fail("commit-contents", "the tree committed at version %d holds %d keys, the reference map %d: missing %s, not in the reference %s, different value %s", version-1, len(got), len(res.ref), showMap(miss), showMap(extra), showMap(diff))
				} else {
					fail("commit-contents", "the tree committed at version %d holds %s, the reference map holds %s", version-1, showMap(got), showMap(res.ref))
				}
			}
		case "reopen":
			if !justCommitted || e.ndb == nil {
				continue // not legal here (only produced by shrinking): skipped
			}
			tree.Close()
			tree = mkvs.NewWithRoot(nil, treeDB, lastRoot, treeOptions(c)...)
			res.reopens++
		default:
			fail("error", "unexpected error: unknown operation %q", o.K)
			return
		}
		res.eff = append(res.eff, o)
		res.stats.add("op_kinds", o.K)
	}
	res.completed = true // every operation was performed (no early return)
	at = len(c.Ops) - 1
	// S(3): Get of every key ever used agrees with the reference map
	var keys []string
	for k := range res.used {
		keys = append(keys, k)
	}
	sort.Strings(keys)
	for _, k := range keys {
		v, err := tree.Get(ctx, []byte(k))
		res.sig.scan(tree)
		if err != nil {
			fail("error", "unexpected error: Get(%x): %v", k, err)
			return
		}
		rv, ok := res.ref[k]
		switch {
		case ok && v == nil:
			fail("get-absent", "after the last commit Get(%x) returned nil, the reference map holds %x", k, rv)
		case !ok && v != nil:
			fail("get-present", "after the last commit Get(%x) returned %x, the reference map does not hold the key", k, v)
		case ok && !bytes.Equal(v, rv):
			fail("get-value", "after the last commit Get(%x) returned %x, the reference map holds %x", k, v, rv)
		}
	}
	// per-case features
	ks := sortedKeys(res.ref)
	for i := range ks {
		for j := range ks {
			if i != j && len(ks[i]) < len(ks[j]) && strings.HasPrefix(ks[j], ks[i]) {
				feat["has_prefix_key_pair"] = true
			}
		}
	}
	for f := range feat {
		res.stats.add("features", f)
	}
	if evicting(c) {
		res.stats.add("features", "evicting_config")
	}
	return res
}

// ---------- generation ----------

func genOps02(r *prng.R, g *keygen, isDB, long bool) []Op {
	var ops []Op
	n := r.Range(1, 60)
	if long {
		n = r.Range(40, 150)
	}
	for i := 0; i < n; i++ {
		x := r.Intn(100)
		switch {
		case long && r.Chance(45):
			ops = append(ops, Op{K: "ins", Key: g.newKey(), Val: g.val()})
		case x < 58:
			ops = append(ops, Op{K: "ins", Key: g.key(), Val: g.val()})
		case x < 88:
			ops = append(ops, Op{K: "rem", Key: g.key()})
		default:
			// a write log with unique keys
			seen := map[string]bool{}
			var es []WLEntry
			for j, m := 0, r.Range(1, 4); j < m; j++ {
				k := g.key()
				if seen[string(k)] {
					continue
				}
				seen[string(k)] = true
				if r.Chance(35) {
					es = append(es, WLEntry{Key: k})
				} else {
					es = append(es, WLEntry{Key: k, Val: g.val()})
				}
			}
			ops = append(ops, Op{K: "applywl", Entries: es})
		}
		if r.Chance(3) {
			ops = append(ops, badKnown(r))
		}
		if r.Chance(10) {
			ops = append(ops, commitOps(r)...)
			if isDB && r.Chance(30) {
				ops = append(ops, Op{K: "reopen"})
			}
		}
	}
	return ops
}

func finish02(r *prng.R, c Case) Case {
	c = normalize02(c)
	if c.isDB() && isCommit(c.Ops[len(c.Ops)-1].K) && r.Chance(30) {
		c.Ops = append(c.Ops, Op{K: "reopen"})
	}
	return c
}

func genC02(r *prng.R) Case {
	c := Case{Mode: "c02", TwinOf: -1}
	genConfig(r, &c)
	c.UseLog = r.Chance(50)
	c.Ops = genOps02(r, newKeygen(r), c.isDB(), longHistory(r, c))
	return finish02(r, c)
}

// long cases whose final tree has more keys than this are not emitted as Coq cases
const longCoqMaxKeys = 150

// genLong: a large tree (150-400 keys) under a moderate node capacity and
// unlimited value capacity on a database backend, driven by read-modify-write
// rounds: [1-4 x (get or iterator read of k; insert / remove of the same k)],
// commit, sometimes a reopen.
func genLong(r *prng.R) Case {
	c := Case{Mode: "c02", TwinOf: -1, Class: "long", UseLog: r.Chance(50)}
	c.Backend = []string{"badger", "pathbadger"}[r.Intn(2)]
	c.NodeCap = []uint64{16, 32, 64}[r.Intn(3)]
	c.ValueCap = 0
	g := newKeygen(r)
	seen := map[string]bool{}
	var pool [][]byte
	for n := r.Range(150, 400); len(pool) < n; {
		var k []byte
		if r.Chance(20) {
			k = g.short()
		} else {
			k = r.Bytes(r.Range(4, 12))
		}
		if !seen[string(k)] {
			seen[string(k)] = true
			pool = append(pool, k)
		}
	}
	// the node capacity stays well above the deepest path of the pool (every later key is from
	// the pool), so that eviction is forced but legitimate
	if d := trieDepth(pool); c.NodeCap < uint64(d)+8 {
		c.NodeCap = 32
		if d+8 > 32 {
			c.NodeCap = 64
		}
	}
	for _, k := range pool {
		c.Ops = append(c.Ops, Op{K: "ins", Key: k, Val: g.val()})
	}
	c.Ops = append(c.Ops, Op{K: "commit"})
	for round, rounds := 0, r.Range(20, 120); round < rounds; round++ {
		for j, m := 0, r.Range(1, 4); j < m; j++ {
			k := pool[r.Intn(len(pool))]
			if r.Chance(25) {
				c.Ops = append(c.Ops, Op{K: "iter", Key: k, N: r.Intn(3)})
			} else {
				c.Ops = append(c.Ops, Op{K: "get", Key: k})
			}
			if r.Chance(25) {
				c.Ops = append(c.Ops, Op{K: "rem", Key: k})
			} else {
				c.Ops = append(c.Ops, Op{K: "ins", Key: k, Val: g.val()})
			}
		}
		c.Ops = append(c.Ops, Op{K: "commit"})
		if r.Chance(20) {
			c.Ops = append(c.Ops, Op{K: "reopen"})
		}
	}
	return normalize02(c)
}

// genBigBatch: one large uncommitted batch with a failed CommitKnown in its
// middle: [committed prefix], 16-48 inserts of new keys, CommitKnown with a
// wrong root, 16-48 more inserts of new keys plus a few overwrites / removals,
// commit, reopen. Ample capacities.
func genBigBatch(r *prng.R) Case {
	c := Case{Mode: "c02", TwinOf: -1, Class: "bigbatch", UseLog: r.Chance(50), NodeCap: 5000, ValueCap: 16777216}
	c.Backend = "pathbadger"
	if r.Chance(30) {
		c.Backend = "badger"
	}
	g := newKeygen(r)
	if r.Chance(50) {
		for i, n := 0, r.Range(1, 10); i < n; i++ {
			c.Ops = append(c.Ops, Op{K: "ins", Key: g.newKey(), Val: g.val()})
		}
		c.Ops = append(c.Ops, Op{K: "commit"})
		if r.Chance(50) {
			c.Ops = append(c.Ops, Op{K: "reopen"})
		}
	}
	fresh := func() []byte {
		if r.Chance(50) {
			return g.note(r.Bytes(r.Range(3, 10)))
		}
		return g.newKey()
	}
	for i, n := 0, r.Range(16, 48); i < n; i++ {
		c.Ops = append(c.Ops, Op{K: "ins", Key: fresh(), Val: g.val()})
	}
	c.Ops = append(c.Ops, badKnown(r))
	for i, n := 0, r.Range(16, 48); i < n; i++ {
		c.Ops = append(c.Ops, Op{K: "ins", Key: fresh(), Val: g.val()})
		if r.Chance(10) {
			c.Ops = append(c.Ops, Op{K: "ins", Key: g.used[r.Intn(len(g.used))], Val: g.val()})
		}
		if r.Chance(8) {
			c.Ops = append(c.Ops, Op{K: "rem", Key: g.used[r.Intn(len(g.used))]})
		}
	}
	c.Ops = append(c.Ops, commitOps(r)...)
	c.Ops = append(c.Ops, Op{K: "reopen"})
	return c
}

func otherConfig(r *prng.R, base Case) Case {
	c := Case{Mode: "c02"}
	for i := 0; i < 20; i++ {
		genConfig(r, &c)
		if c.Backend != base.Backend || c.NodeCap != base.NodeCap || c.ValueCap != base.ValueCap {
			break
		}
	}
	c.UseLog = r.Chance(50)
	return c
}

// twinNoBadKnown: the same history and configuration without the failed CommitKnown attempts.
func twinNoBadKnown(base Case) Case {
	c := base
	c.TwinKind, c.Ops = "nobadknown", nil
	for _, o := range base.Ops {
		if o.K != "commitknown_bad" {
			c.Ops = append(c.Ops, o)
		}
	}
	return normalize02(c)
}

// sprinkle inserts commit (and reopen) points at random.
func sprinkle(r *prng.R, ops []Op, isDB bool, pct int) []Op {
	var out []Op
	for _, o := range ops {
		out = append(out, o)
		if !isCommit(o.K) && o.K != "reopen" && r.Chance(pct) {
			out = append(out, commitOps(r)...)
			if isDB && r.Chance(30) {
				out = append(out, Op{K: "reopen"})
			}
		}
	}
	return out
}

// twinShuffle: a fresh tree receives exactly the base's final contents, in a random order.
func twinShuffle(r *prng.R, base Case, br *res02) Case {
	c := otherConfig(r, base)
	ks := sortedKeys(br.ref)
	for i := len(ks) - 1; i > 0; i-- {
		j := r.Intn(i + 1)
		ks[i], ks[j] = ks[j], ks[i]
	}
	var ops []Op
	for _, k := range ks {
		ops = append(ops, Op{K: "ins", Key: []byte(k), Val: br.ref[k]})
	}
	c.Ops = sprinkle(r, ops, c.isDB(), 10)
	c.TwinKind = "shuffle"
	return finish02(r, c)
}

// twinDetour: the base's operations with extra keys (never used by the base)
// inserted and removed again, and overwrite-then-restore steps.
func twinDetour(r *prng.R, base Case, br *res02) Case {
	c := otherConfig(r, base)
	g := newKeygen(r)
	for k := range br.used {
		g.note([]byte(k))
	}
	baseKeys := append([][]byte{}, g.used...)
	sort.Slice(baseKeys, func(i, j int) bool { return bytes.Compare(baseKeys[i], baseKeys[j]) < 0 })
	freshKey := func() []byte {
		for i := 0; i < 50; i++ {
			var k []byte
			if r.Chance(70) {
				k = g.short()
			} else {
				k = append(g.short(), r.Bytes(r.Range(1, 6))...)
			}
			if !g.set[string(k)] {
				return g.note(k)
			}
		}
		return g.note(append([]byte{0x80, 0x01}, r.Bytes(8)...))
	}
	sim := map[string][]byte{}
	var pending [][]byte // extra keys currently in the tree
	var ops []Op
	detour := func() {
		switch x := r.Intn(100); {
		case x < 40:
			k := freshKey()
			ops = append(ops, Op{K: "ins", Key: k, Val: g.val()})
			pending = append(pending, k)
		case x < 65 && len(pending) > 0:
			i := r.Intn(len(pending))
			ops = append(ops, Op{K: "rem", Key: pending[i]})
			pending = append(pending[:i], pending[i+1:]...)
		case len(baseKeys) > 0:
			k := baseKeys[r.Intn(len(baseKeys))]
			ops = append(ops, Op{K: "ins", Key: k, Val: g.val()})
			if r.Chance(25) {
				ops = append(ops, Op{K: "commit"})
			}
			if v, ok := sim[string(k)]; ok {
				ops = append(ops, Op{K: "ins", Key: k, Val: v})
			} else {
				ops = append(ops, Op{K: "rem", Key: k})
			}
		}
	}
	// the base without its final commit / reopen
	bops := base.Ops
	for len(bops) > 0 && (isCommit(bops[len(bops)-1].K) || bops[len(bops)-1].K == "reopen") {
		bops = bops[:len(bops)-1]
	}
	for _, o := range bops {
		for r.Chance(25) {
			detour()
		}
		switch o.K {
		case "ins":
			sim[string(o.Key)] = o.Val
		case "rem":
			delete(sim, string(o.Key))
		case "applywl":
			for _, en := range o.Entries {
				if en.Val == nil {
					delete(sim, string(en.Key))
				} else {
					sim[string(en.Key)] = en.Val
				}
			}
		case "reopen":
			if !c.isDB() || len(ops) == 0 || !isCommit(ops[len(ops)-1].K) {
				continue
			}
		}
		ops = append(ops, o)
	}
	for i, m := 0, r.Range(1, 3); i < m; i++ {
		detour()
	}
	if len(pending) > 0 && r.Chance(50) {
		ops = append(ops, Op{K: "commit"})
	}
	for _, k := range pending {
		ops = append(ops, Op{K: "rem", Key: k})
	}
	c.Ops = ops
	c.TwinKind = "detour"
	return finish02(r, c)
}

// twinWriteLog: a fresh tree replays the write logs returned by the base's commits.
func twinWriteLog(r *prng.R, base Case, br *res02) Case {
	c := otherConfig(r, base)
	var ops []Op
	for _, lg := range br.logs {
		ops = append(ops, Op{K: "applywl", Entries: append([]WLEntry{}, lg...)}, Op{K: "commit"})
		if c.isDB() && r.Chance(30) {
			ops = append(ops, Op{K: "reopen"})
		}
	}
	c.Ops = ops
	c.TwinKind = "writelog"
	return finish02(r, c)
}

// share of the eligible base cases that get a fault twin
const faultTwinPct = 35

// faultEligible: a database-backed base with a commit that is followed by further mutations.
func faultEligible(base Case) bool {
	if !base.isDB() {
		return false
	}
	committed := false
	for _, o := range base.Ops {
		switch o.K {
		case "commit", "commitknown_ok":
			committed = true
		case "ins", "rem", "applywl":
			if committed {
				return true
			}
		}
	}
	return false
}

// twinFault: the base's operations (write logs split into single operations)
// on a fresh tree with ample capacities over a fault-injecting node database;
// 1-3 mutations after a commit get the fault armed (k-th GetNode of the op
// fails once, k in 1..3) and are retried when it fires. The tree is reopened
// after a commit before every faulted op so that its path has to be fetched.
func twinFault(r *prng.R, base Case) Case {
	c := Case{Mode: "c02", Backend: base.Backend, NodeCap: 5000, ValueCap: 16777216, TwinKind: "fault", UseLog: r.Chance(50)}
	var ops []Op
	for _, o := range base.Ops {
		switch o.K {
		case "applywl":
			for _, en := range o.Entries {
				if en.Val == nil {
					ops = append(ops, Op{K: "rem", Key: en.Key})
				} else {
					ops = append(ops, Op{K: "ins", Key: en.Key, Val: en.Val})
				}
			}
		case "reopen":
			// placed anew below
		default:
			ops = append(ops, o)
		}
	}
	// candidate targets: mutations after the first commit; among them the removals of a key
	// that is present at that point (simulated contents)
	var cands, remPresent []int
	committed := false
	sim := map[string]bool{}
	for i, o := range ops {
		switch o.K {
		case "commit", "commitknown_ok":
			committed = true
			continue
		case "commitknown_bad":
			continue
		case "rem":
			if committed && sim[string(o.Key)] {
				remPresent = append(remPresent, i)
			}
			delete(sim, string(o.Key))
		case "ins":
			sim[string(o.Key)] = true
		}
		if committed {
			cands = append(cands, i)
		}
	}
	targets := map[int]int{} // op index -> k
	cold := map[int]bool{}   // targets that get a commit + reopen directly before them
	for j, m := 0, r.Range(1, 3); j < m && len(cands) > 0; j++ {
		if len(remPresent) > 0 && r.Chance(20) {
			// Remove of a present key on a cold tree: the fetches of the two children of the
			// first internal node before the descent are GetNode #2 / #3, a deeper one #4
			t := remPresent[r.Intn(len(remPresent))]
			targets[t] = r.Range(2, 4)
			cold[t] = true
			continue
		}
		// k = 1 fails the first fetch of the op (often the root: nothing to corrupt yet), so 2 and 3 get more weight
		targets[cands[r.Intn(len(cands))]] = []int{1, 2, 2, 3, 3}[r.Intn(5)]
	}
	// reopen points: for every target either directly before it (an extra commit
	// + reopen: the whole path is cold) or after the nearest commit before it
	// (partially cached tree)
	reopenAfter := map[int]bool{}  // after ops[i], which is a commit
	commitBefore := map[int]bool{} // extra commit + reopen directly before ops[i]
	var tlist []int
	for t := range targets {
		tlist = append(tlist, t)
	}
	sort.Ints(tlist)
	for _, t := range tlist {
		last := -1
		for i := 0; i < t; i++ {
			if isCommit(ops[i].K) {
				last = i
			}
		}
		if last >= 0 && last != t-1 && !cold[t] && r.Chance(50) {
			reopenAfter[last] = true
		} else if last == t-1 {
			reopenAfter[last] = true
		} else {
			commitBefore[t] = true
		}
	}
	var out []Op
	for i, o := range ops {
		if commitBefore[i] {
			out = append(out, Op{K: "commit"}, Op{K: "reopen"})
		}
		if k, ok := targets[i]; ok {
			o.FaultK, o.FaultKind = k, "db"
			if r.Chance(30) {
				o.FaultKind = "ctx"
			}
		}
		out = append(out, o)
		if reopenAfter[i] {
			out = append(out, Op{K: "reopen"})
		}
	}
	c.Ops = out
	return normalize02(c)
}

// ---------- shrinking ----------

// shrink02 greedily drops operations while the case still fails and accept
// holds (same kind of violation, or same finding key).
func shrink02(c Case, cut int, accept func(cand Case, r *res02) bool) Case {
	test := func(ops []Op) ([]Op, bool) {
		cand := normalize02(c.withOps(ops))
		r := runC02(cand)
		if r.viol == nil || !accept(cand, r) {
			return nil, false
		}
		if r.panicked || !r.completed {
			return cand.Ops, true // the run stopped early: keep the description as it is
		}
		return r.eff, true
	}
	ops := c.Ops
	if cut > 0 && cut < len(ops) {
		// first drop everything after the operation at which the violation showed
		if eff, ok := test(ops[:cut]); ok && len(eff) < len(ops) {
			ops = eff
		}
	}
	return c.withOps(shrinkOps(ops, test))
}

// shrinkPair greedily drops operations of either case while both still run
// cleanly and pred holds on the pair.
func shrinkPair(a, b Case, pred func(ra, rb *res02) bool) (Case, Case) {
	ra, rb := runC02(a), runC02(b)
	if ra.viol != nil || rb.viol != nil || !pred(ra, rb) {
		return a, b // not reproducible in isolation: report un-shrunk
	}
	for round := 0; round < 2; round++ {
		a.Ops = shrinkOps(a.Ops, func(ops []Op) ([]Op, bool) {
			rc := runC02(normalize02(a.withOps(ops)))
			if rc.viol != nil || !pred(rc, rb) {
				return nil, false
			}
			ra = rc
			return rc.eff, true
		})
		ra = runC02(a)
		b.Ops = shrinkOps(b.Ops, func(ops []Op) ([]Op, bool) {
			rc := runC02(normalize02(b.withOps(ops)))
			if rc.viol != nil || !pred(ra, rc) {
				return nil, false
			}
			return rc.eff, true
		})
		rb = runC02(b)
	}
	return a, b
}

func sameContentsDifferentRoot(ra, rb *res02) bool {
	return canonContents(ra.ref) == canonContents(rb.ref) && !bytes.Equal(ra.finalRoot(), rb.finalRoot())
}

func differentContentsSameRoot(ra, rb *res02) bool {
	return canonContents(ra.ref) != canonContents(rb.ref) && bytes.Equal(ra.finalRoot(), rb.finalRoot())
}

// ---------- the run ----------

type session02 struct {
	w          *coqout.Writer
	sum        *coqout.Summary
	byContents map[string]Case // canonical contents -> first case that produced them
	rootOf     map[string]string
	byRoot     map[string]Case // root -> first case that produced it
	contentsOf map[string]string
	shapes     map[string]bool
	sigOf      map[string]sigState // flags of the cases registered in the global maps
	samples    int
}

// process runs one case, emits it, and applies the single-case and global
// oracles. It returns the result and the global index of the emitted case
// (-1 when the case could not be emitted).
func (s *session02) process(c Case, base *Case, br *res02) (*res02, int) {
	r := runC02(c)
	c = withFaulted(c, r)
	s.sum.Evaluations++
	idx := -1
	emit := !r.panicked && (r.viol == nil || r.viol.kind != "error")
	if c.Class == "long" && len(r.ref) > longCoqMaxKeys {
		emit = false // too large for the quick model evaluation: implementation-side oracles only
		s.sum.Count("class", "long_not_sent_to_model")
	}
	if emit {
		idx = s.w.Total
		s.w.Add(r.term(), c)
	}
	// histograms
	st := r.stats
	st.add("backend", c.Backend)
	st.add("node_cap", fmt.Sprint(c.NodeCap))
	st.add("value_cap", fmt.Sprint(c.ValueCap))
	st.add("use_log", fmt.Sprint(c.UseLog))
	if c.Class != "" {
		st.add("class", c.Class)
		if c.Class == "long" {
			st.add("long_max_path_depth", fmt.Sprint(r.sig.maxDepth))
			st.add("long_keys_final", bucket(len(r.ref), 100, 200, 300, 400))
		}
	} else {
		st.add("class", "ordinary")
	}
	st.add("ops_per_case", bucket(len(c.Ops), 5, 15, 30, 60, 100))
	st.add("final_size", bucket(len(r.ref), 0, 1, 3, 7, 15))
	st.add("commits", bucket(r.commits, 1, 2, 4, 8))
	st.add("reopens", bucket(r.reopens, 0, 1, 2, 4))
	if c.TwinKind == "" {
		st.add("twin_kind", "none(base)")
	} else {
		st.add("twin_kind", c.TwinKind)
	}
	if k, ok := smallValueCapClass(c, r.sig, r.viol != nil); ok {
		st.add("small_value_cap", k)
	}
	st.into(s.sum)
	if r.internal >= 1 && !s.shapes[r.dumpStr] {
		s.shapes[r.dumpStr] = true
		s.sum.DistinctNontrivial++
	}
	if s.samples < 3 && idx >= 0 && len(c.Ops) <= 8 && len(r.ref) >= 1 {
		s.samples++
		s.sum.Sample(map[string]any{"desc": c, "root": hex.EncodeToString(r.finalRoot())}, 3)
	}
	if r.viol == nil {
		if r.sig.f1 {
			s.sum.Count("sig_without_failure", "dirty_node_with_evicted_leaf")
		}
		if r.sig.f2 {
			s.sum.Count("sig_without_failure", "dirty_pointer_without_node")
		}
	}
	if r.viol != nil {
		vc, vr, note := c, r, ""
		key, mech := classify(c, r.sig.failF1, r.sig.failPrefix, r.sig.failDepth)
		if c.Class == "long" {
			key = "" // node capacity >= 16 with a path depth well below it, unlimited values: never a cache finding
		}
		if key != "" {
			// evidence of the cache mechanism: the identical history is clean with ample capacities
			ra := runC02(ample(c))
			if ra.viol == nil {
				s.sum.Count("ample_rerun", "clean")
				recordFinding(s.sum, key, mech+r.viol.what, c, r.sig, func() (Case, string) {
					sc := shrink02(c, r.cut, func(cand Case, rc *res02) bool {
						k, _ := classify(cand, rc.sig.failF1, rc.sig.failPrefix, rc.sig.failDepth)
						return k == key && runC02(ample(cand)).viol == nil
					})
					what := mech + r.viol.what
					if r2 := runC02(sc); r2.viol != nil {
						_, m2 := classify(sc, r2.sig.failF1, r2.sig.failPrefix, r2.sig.failDepth)
						what = m2 + r2.viol.what
					}
					return sc, what
				})
				return r, idx
			}
			s.sum.Count("ample_rerun", "failed")
			vc, vr, note = ample(c), ra, "fails with ample capacities too"
		}
		s.sum.Count("violations", vr.viol.kind+"/"+vc.Backend)
		sc, what := vc, vr.viol.what
		if firstOfItsKind(vr.viol.kind, vc) {
			kind := vr.viol.kind
			sc = shrink02(vc, vr.cut, func(cand Case, rc *res02) bool {
				k, _ := classify(cand, rc.sig.failF1, rc.sig.failPrefix, rc.sig.failDepth)
				return rc.viol.kind == kind && k == ""
			})
			if r2 := runC02(sc); r2.viol != nil {
				what = r2.viol.what
				sc = withFaulted(sc, r2)
			}
		}
		v := map[string]any{"what": what, "case": sc, "evicting_config": evicting(vc),
			"node_cap_vs_max_path_depth":       fmt.Sprintf("%d vs %d", vc.NodeCap, vr.sig.failDepth),
			"sig_dirty_node_with_evicted_leaf": vr.sig.failF1, "sig_dirty_pointer_without_node": vr.sig.failF2, "had_prefix_pair": vr.sig.failPrefix}
		if note != "" {
			v["note"] = note
			v["original_case"] = c
		}
		s.sum.Violations = append(s.sum.Violations, v)
		return r, idx
	}
	// S(1): a twin ends at its base's root
	if base != nil && s.checkTwin(*base, br, c, r) {
		return r, idx
	}
	// S(2): contents <-> root, over the whole run
	cc, root := canonContents(r.ref), string(r.finalRoot())
	if prev, ok := s.byContents[cc]; ok && s.rootOf[cc] != root {
		s.pairViolation(fmt.Sprintf("equal contents, different roots: %x (earlier case) vs %x", s.rootOf[cc], root),
			prev, s.sigOf[caseKey(prev)], c, r.sig, sameContentsDifferentRoot)
	} else if !ok {
		s.byContents[cc], s.rootOf[cc] = c, root
	}
	if prev, ok := s.byRoot[root]; ok && s.contentsOf[root] != cc {
		s.pairViolation(fmt.Sprintf("different contents, equal root %x", root),
			prev, s.sigOf[caseKey(prev)], c, r.sig, differentContentsSameRoot)
	} else if !ok {
		s.byRoot[root], s.contentsOf[root] = c, cc
	}
	s.sigOf[caseKey(c)] = r.sig
	return r, idx
}

func caseKey(c Case) string {
	b, _ := json.Marshal(c)
	return string(b)
}

// pairViolation reports a violation that involves two cases. When either
// member, taken alone, shows one of the two known eviction mechanisms (its
// flags over the whole run), the pair is attributed to that finding.
func (s *session02) pairViolation(what string, a Case, asig sigState, b Case, bsig sigState, pred func(ra, rb *res02) bool) {
	for _, m := range []struct {
		c   Case
		sig sigState
	}{{b, bsig}, {a, asig}} {
		if key, mech := classify(m.c, m.sig.f1, m.sig.hadPrefix, m.sig.maxDepth); key != "" {
			// evidence of the cache mechanism: the pair is fine with ample capacities
			aa, ab := ample(a), ample(b)
			ra, rb := runC02(aa), runC02(ab)
			if ra.viol != nil || rb.viol != nil || pred(ra, rb) {
				s.sum.Count("ample_rerun", "failed")
				sa, sb := shrinkPair(aa, ab, pred)
				s.sum.Violations = append(s.sum.Violations, map[string]any{"what": what, "case": map[string]any{"base": sa, "twin": sb},
					"note": "fails with ample capacities too", "original_case": map[string]any{"base": a, "twin": b}})
				return
			}
			s.sum.Count("ample_rerun", "clean")
			sig := m.sig
			sig.failF1, sig.failF2, sig.failPrefix, sig.failDepth = sig.f1, sig.f2, sig.hadPrefix, sig.maxDepth
			w := mech + "pair violation: " + what
			recordFinding(s.sum, key, w, m.c, sig, func() (Case, string) { return m.c, w })
			return
		}
	}
	sa, sb := shrinkPair(a, b, pred)
	s.sum.Violations = append(s.sum.Violations, map[string]any{"what": what, "case": map[string]any{"base": sa, "twin": sb}})
}

// logsReproduce: the write logs returned by the commits, applied in order to
// the empty map, give the final reference contents (the case ends with a commit).
func logsReproduce(r *res02) bool {
	m := map[string][]byte{}
	for _, lg := range r.logs {
		for _, en := range lg {
			if en.Val == nil {
				delete(m, string(en.Key))
			} else {
				m[string(en.Key)] = en.Val
			}
		}
	}
	return canonContents(m) == canonContents(r.ref)
}

// S(1): a twin must end at its base's root. Returns true when a violation was recorded.
func (s *session02) checkTwin(base Case, br *res02, twin Case, tr *res02) bool {
	if br == nil || br.viol != nil || tr.viol != nil {
		return false
	}
	if canonContents(br.ref) != canonContents(tr.ref) {
		if twin.TwinKind == "writelog" && !logsReproduce(br) {
			// the write logs returned by the base's commits are wrong although its tree
			// is right: a cache finding of the base if, on evidence, the same base with
			// ample capacities returns write logs that do reproduce its contents
			what := "the write logs returned by Commit do not reproduce the committed contents (a removal of a key that an earlier eviction had already dropped is not logged)"
			if key, mech := classify(base, br.sig.f1, br.sig.hadPrefix, br.sig.maxDepth); key != "" {
				if ra := runC02(ample(base)); ra.viol == nil && logsReproduce(ra) {
					s.sum.Count("ample_rerun", "clean")
					sig := br.sig
					sig.failF1, sig.failF2, sig.failPrefix, sig.failDepth = sig.f1, sig.f2, sig.hadPrefix, sig.maxDepth
					recordFinding(s.sum, key, mech+what, base, sig, func() (Case, string) { return base, mech + what })
					return true
				}
				s.sum.Count("ample_rerun", "failed")
			}
			s.sum.Violations = append(s.sum.Violations, map[string]any{"what": what, "case": base})
			return true
		}
		// cannot happen unless the twin generator is wrong: make it loud
		s.sum.Violations = append(s.sum.Violations, map[string]any{
			"what": "harness: twin (" + twin.TwinKind + ") does not reproduce its base's contents",
			"case": map[string]any{"base": base, "twin": twin}})
		return true
	}
	if bytes.Equal(br.finalRoot(), tr.finalRoot()) {
		return false
	}
	s.pairViolation(fmt.Sprintf("twin (%s) ends at root %x, its base at %x, with equal contents", twin.TwinKind, tr.finalRoot(), br.finalRoot()),
		base, br.sig, twin, tr.sig, sameContentsDifferentRoot)
	return true
}

func mainC02(seed uint64, n int, out string, rp *replayInput) {
	s := &session02{
		w: coqout.NewWriter(out, coqHeader, "run_c02", "c02_eqb", 12),
		sum: coqout.NewSummary("seeded insert/remove/apply-write-log/commit/reopen histories (1-60 operations, keys of 0-4 bytes over {00,01,80,ff} plus long keys up to 64 bytes, values of 0-8 bytes) on the real tree over backends mem/badger/pathbadger with node capacities {0,1,2,3,8,16,32,5000} (long histories of 40-150 operations biased to new keys for about 20% of the cases) and value capacities {0,1,16,64,16M}, plus shuffle/detour/writelog twins of ~60% of the base cases; " +
			"compared: every committed root hash and the shape dumped after the last commit; non-trivial = the final tree has at least one internal node; distinct = distinct final shape dumps among those"),
		byContents: map[string]Case{}, rootOf: map[string]string{}, byRoot: map[string]Case{}, contentsOf: map[string]string{}, shapes: map[string]bool{}, sigOf: map[string]sigState{},
	}
	s.sum.Extra["finding_rules"] = findingRules
	s.sum.Extra["api_coverage"] = apiCoverage("c02")
	defer func() {
		s.w.Close()
		s.sum.Write(out)
	}()
	if rp != nil {
		if rp.single != nil {
			s.process(normalize02(*rp.single), nil, nil)
			return
		}
		a, b := normalize02(*rp.base), normalize02(*rp.twin)
		// the global contents<->root maps evaluate both pair predicates
		s.process(a, nil, nil)
		s.process(b, nil, nil)
		return
	}
	// prng.New(seed) and prng.New(seed+1) are the same splitmix64 stream shifted
	// by one step; forking once decorrelates consecutive seeds.
	r := prng.New(seed).Fork()
	for s.w.Total < n && s.sum.Evaluations < 2*n+10 {
		cr := r.Fork()
		var base Case
		switch x := cr.Intn(100); {
		case x < 4:
			base = genLong(cr)
		case x < 11:
			base = genBigBatch(cr)
		default:
			base = genC02(cr)
		}
		br, bidx := s.process(base, nil, nil)
		if bidx < 0 || br.viol != nil || base.Class != "" {
			continue // no twins of the special classes
		}
		if faultEligible(base) && cr.Chance(faultTwinPct) && s.w.Total < n {
			twin := twinFault(cr, base)
			twin.TwinOf = bidx
			s.process(twin, &base, br)
		}
		if br.badKnown > 0 && cr.Chance(50) && s.w.Total < n {
			twin := twinNoBadKnown(base)
			twin.TwinOf = bidx
			s.process(twin, &base, br)
		}
		if !cr.Chance(60) {
			continue
		}
		for i, m := 0, cr.Range(1, 2); i < m && s.w.Total < n; i++ {
			var twin Case
			kind := cr.Intn(3)
			if kind == 2 && !base.UseLog {
				kind = cr.Intn(2) // without a write log Commit returns an empty log: no writelog twin
			}
			switch kind {
			case 0:
				twin = twinShuffle(cr, base, br)
			case 1:
				twin = twinDetour(cr, base, br)
			default:
				twin = twinWriteLog(cr, base, br)
			}
			twin.TwinOf = bidx
			s.process(twin, &base, br)
		}
	}
}
