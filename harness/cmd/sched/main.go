// Command sched drives the REAL scheduler application of oasis-core
// (validator election, committee election, validator diff in EndBlock) on mock
// application states holding generated registries and staking ledgers, and
// records, per epoch transition, the inputs and the observed outputs as Coq
// correspondence cases for Verif.Sched.Elect.run_epoch.  It also evaluates
// the C14 predicates directly on the implementation's output with an
// independent Go oracle (S) and runs every case twice with a different state
// insertion order (determinism).
package main

import (
	"encoding/hex"
	"encoding/json"
	"flag"
	"fmt"
	"math/big"
	"os"
	"sort"
	"strings"

	beacon "github.com/oasisprotocol/oasis-core/go/beacon/api"
	"github.com/oasisprotocol/oasis-core/go/common"
	"github.com/oasisprotocol/oasis-core/go/common/cbor"
	"github.com/oasisprotocol/oasis-core/go/common/crypto/signature"
	"github.com/oasisprotocol/oasis-core/go/common/node"
	"github.com/oasisprotocol/oasis-core/go/common/quantity"
	"github.com/oasisprotocol/oasis-core/go/common/version"
	abciAPI "github.com/oasisprotocol/oasis-core/go/consensus/cometbft/api"
	memorySigner "github.com/oasisprotocol/oasis-core/go/common/crypto/signature/signers/memory"
	beaconState "github.com/oasisprotocol/oasis-core/go/consensus/cometbft/apps/beacon/state"
	stakingApp "github.com/oasisprotocol/oasis-core/go/consensus/cometbft/apps/staking"
	consensusState "github.com/oasisprotocol/oasis-core/go/consensus/cometbft/apps/consensus/state"
	registryState "github.com/oasisprotocol/oasis-core/go/consensus/cometbft/apps/registry/state"
	schedulerApp "github.com/oasisprotocol/oasis-core/go/consensus/cometbft/apps/scheduler"
	schedulerState "github.com/oasisprotocol/oasis-core/go/consensus/cometbft/apps/scheduler/state"
	stakingState "github.com/oasisprotocol/oasis-core/go/consensus/cometbft/apps/staking/state"
	consensusGenesis "github.com/oasisprotocol/oasis-core/go/consensus/genesis"
	registry "github.com/oasisprotocol/oasis-core/go/registry/api"
	scheduler "github.com/oasisprotocol/oasis-core/go/scheduler/api"
	staking "github.com/oasisprotocol/oasis-core/go/staking/api"
	"github.com/oasisprotocol/oasis-core/go/upgrade/migrations"

	"verifharness/internal/coqout"
	"verifharness/internal/prng"
)

// ---------- case description (JSON, replayable) ----------
type NodeRt struct {
	Rt  int    `json:"rt"`
	Ver uint64 `json:"ver"`
	Tee int    `json:"tee,omitempty"` // 0: no TEE capability; 1: SGX capability (attestation does not verify); 2: capability with invalid hardware
}
type FaultD struct {
	Rt    int    `json:"rt"`
	Until uint64 `json:"until"`
}
type NodeD struct {
	Key    string   `json:"key"`  // node ID, 32 bytes hex
	Cons   string   `json:"cons"` // consensus key, 32 bytes hex
	Ent    int      `json:"ent"`  // index into Case.EntKeys
	Roles  uint32   `json:"roles"`
	Exp    uint64   `json:"exp"`
	Freeze uint64   `json:"freeze,omitempty"`
	Elig   uint64   `json:"elig,omitempty"`  // NodeStatus.ElectionEligibleAfter
	NoPi   bool     `json:"no_pi,omitempty"` // VRF epochs: the node did not submit a proof
	Rts    []NodeRt `json:"rts,omitempty"`
	Faults []FaultD `json:"faults,omitempty"`
}
type ThrD struct {
	Global int    `json:"global"` // -1: constant
	Const  string `json:"const,omitempty"`
}
type ClaimD struct {
	Name string `json:"name"`
	Thr  []ThrD `json:"thr"`
}
type EntD struct {
	NoAccount bool     `json:"no_account,omitempty"`
	Escrow    string   `json:"escrow"`
	Claims    []ClaimD `json:"claims,omitempty"`
}
type CsD struct {
	VSet bool `json:"vset,omitempty"`
	Max  *int `json:"max,omitempty"`
	Min  *int `json:"min,omitempty"`
}
type DepD struct {
	Ver  uint64 `json:"ver"`
	From uint64 `json:"from"`
}
type RtD struct {
	ID        string `json:"id"` // 32 bytes hex
	Compute   bool   `json:"compute"`
	Suspended bool   `json:"suspended,omitempty"`
	G         int    `json:"g"`
	B         int    `json:"b"`
	Deps      []DepD `json:"deps"`
	CW        *CsD   `json:"cw,omitempty"`
	CB        *CsD   `json:"cb,omitempty"`
	Tee       int    `json:"tee,omitempty"` // TEEHardware
}
type ParamsD struct {
	Min    int  `json:"min"`
	Max    int  `json:"max"`
	Per    int  `json:"per"`
	Bypass bool `json:"bypass,omitempty"`
	Sqrt   bool `json:"sqrt,omitempty"`
}
type EpochD struct {
	Epoch   uint64  `json:"epoch"`
	Entropy string  `json:"entropy"`
	Params  ParamsD `json:"params"`
	FV261   bool    `json:"fv261"`
	VRF     *VrfD   `json:"vrf,omitempty"` // beacon backend VRF
	Base    uint64  `json:"base"`          // base epoch
	Changed bool    `json:"changed"`       // the epoch changed in this block
	Slashed bool    `json:"slashed,omitempty"` // a bare TakeEscrowEvent emitted before the scheduler runs
	Slashes []SlashD `json:"slashes,omitempty"` // real SlashEscrow calls (+ node freeze) before the scheduler runs
	Ents    []EntD  `json:"ents"` // same length/order as Case.EntKeys
	Nodes   []NodeD `json:"nodes"`
}
type SlashD struct {
	Ent    int    `json:"ent"`
	Amount string `json:"amount"`
	Freeze string `json:"freeze,omitempty"` // node key to freeze
	Until  uint64 `json:"until,omitempty"`
}

// effective returns the epoch as the election sees it (post-slash escrows and
// freezes) and whether any slash took something.
func (e *EpochD) effective() (EpochD, bool) {
	out := *e
	out.Ents = append([]EntD{}, e.Ents...)
	out.Nodes = append([]NodeD{}, e.Nodes...)
	took := false
	for _, s := range e.Slashes {
		en := &out.Ents[s.Ent]
		if !en.NoAccount {
			esc, amt := bigOf(en.Escrow), bigOf(s.Amount)
			if amt.Cmp(esc) > 0 {
				amt = esc
			}
			if amt.Sign() > 0 {
				took = true
			}
			en.Escrow = new(big.Int).Sub(esc, amt).String()
		}
		for k := range out.Nodes {
			if s.Freeze != "" && out.Nodes[k].Key == s.Freeze {
				out.Nodes[k].Freeze = s.Until
			}
		}
	}
	return out, took
}

type VrfD struct {
	Can  bool `json:"can"`  // PrevState.CanElectCommittees
	Weak bool `json:"weak"` // DebugAllowWeakAlpha
}
type Case struct {
	Thresholds []string `json:"thresholds"` // global thresholds by kind 0..6
	EntKeys    []string `json:"ent_keys"`   // entity public keys, 32 bytes hex
	Rts        []RtD    `json:"rts"`
	Epochs     []EpochD `json:"epochs"`
}

// ---------- observables ----------
type ValO struct {
	Cons, ID, Ent string // hex
	Power         int64
}
type UpdO struct {
	Cons  string
	Power int64
}
type MemO struct {
	Role int
	ID   string
}
type CommO struct {
	Rt      string
	Members []MemO // nil: no committee
	Present bool
}
type Obs struct {
	Skip    bool
	Err     int // 0 ok, 1 power, 2 none, 3 insufficient, 9 other
	ErrText string
	Vals    []ValO
	Updates []UpdO
	Comms   []CommO
	Current []UpdO // scheduler's CurrentValidators after EndBlock
}

func hx(s string) []byte { b, _ := hex.DecodeString(s); return b }

const chainContext = "verif-c14-chain-context"

func alphaOf(epoch uint64) []byte { return []byte(fmt.Sprintf("verif-alpha-%d", epoch)) }

var proofCache = map[string]*signature.Proof{}

// proofOf is a real VRF proof (memory signer seeded by the node key) over the epoch's alpha.
// The election never verifies proofs (they are verified on submission); it hashes their betas.
func proofOf(key string, epoch uint64) *signature.Proof {
	ck := fmt.Sprintf("%s/%d", key, epoch)
	if p, ok := proofCache[ck]; ok {
		return p
	}
	signer, err := memorySigner.NewFromSeed(hx(key))
	must(err)
	signer.(*memorySigner.Signer).UnsafeSetRole(signature.SignerVRF)
	p, err := signature.Prove(signer, alphaOf(epoch))
	must(err)
	proofCache[ck] = p
	return p
}
func pk(s string) (k signature.PublicKey) {
	copy(k[:], hx(s))
	return
}
func ns(s string) (n common.Namespace) { copy(n[:], hx(s)); return }
func bigOf(s string) *big.Int {
	v, ok := new(big.Int).SetString(s, 10)
	if !ok {
		return new(big.Int)
	}
	return v
}
func qOf(v *big.Int) quantity.Quantity {
	q := quantity.NewQuantity()
	_ = q.FromBigInt(v)
	return *q
}
func entAddr(key string) staking.Address { return staking.NewAddress(pk(key)) }
func entAddrHex(key string) string     { a := entAddr(key); return hex.EncodeToString(a[:]) }

func classify(err error) (int, string) {
	if err == nil {
		return 0, ""
	}
	s := err.Error()
	switch {
	case strings.Contains(s, "computing voting power"):
		return 1, s
	case strings.Contains(s, "failed to elect any validators"):
		return 2, s
	case strings.Contains(s, "insufficient validators"):
		return 3, s
	}
	return 9, s
}

func claimTotal(c *Case, e EntD) *big.Int {
	t := new(big.Int)
	for _, cl := range e.Claims {
		for _, th := range cl.Thr {
			if th.Global >= 0 {
				t.Add(t, bigOf(c.Thresholds[th.Global]))
			} else {
				t.Add(t, bigOf(th.Const))
			}
		}
	}
	return t
}

// ---------- running a case on the implementation ----------
type runner struct {
	c       *Case
	st      abciAPI.MockApplicationState
	cfg     *abciAPI.MockApplicationStateConfig
	app     *schedulerApp.Application
	prevN   map[string]*node.Node // nodes currently in the registry state
	order   *prng.R
	rtsDone bool
}

func newRunner(c *Case, orderSeed uint64) *runner {
	cfg := &abciAPI.MockApplicationStateConfig{}
	st := abciAPI.NewMockApplicationState(cfg)
	return &runner{c: c, st: st, cfg: cfg, app: schedulerApp.New(st, &abciAPI.NoopMessageDispatcher{}),
		prevN: map[string]*node.Node{}, order: prng.New(orderSeed)}
}

func (r *runner) perm(n int) []int {
	p := make([]int, n)
	for i := range p {
		p[i] = i
	}
	for i := n - 1; i > 0; i-- {
		j := r.order.Intn(i + 1)
		p[i], p[j] = p[j], p[i]
	}
	return p
}

func must(err error) {
	if err != nil {
		panic(err)
	}
}

func mkConstraints(cs *CsD) registry.SchedulingConstraints {
	var out registry.SchedulingConstraints
	if cs == nil {
		return out
	}
	if cs.VSet {
		out.ValidatorSet = &registry.ValidatorSetConstraint{}
	}
	if cs.Max != nil {
		out.MaxNodes = &registry.MaxNodesConstraint{Limit: uint16(*cs.Max)}
	}
	if cs.Min != nil {
		out.MinPoolSize = &registry.MinPoolSizeConstraint{Limit: uint16(*cs.Min)}
	}
	return out
}

func (r *runner) mkNode(d NodeD) *node.Node {
	n := &node.Node{
		Versioned:  cbor.NewVersioned(node.LatestNodeDescriptorVersion),
		ID:         pk(d.Key),
		EntityID:   pk(r.c.EntKeys[d.Ent]),
		Expiration: beacon.EpochTime(d.Exp),
		Roles:      node.RolesMask(d.Roles),
	}
	n.Consensus.ID = pk(d.Cons)
	for _, x := range d.Rts {
		nr := &node.Runtime{ID: ns(r.c.Rts[x.Rt].ID), Version: version.FromU64(x.Ver)}
		switch x.Tee {
		case 1:
			nr.Capabilities.TEE = &node.CapabilityTEE{Hardware: node.TEEHardwareIntelSGX, Attestation: []byte("not an attestation")}
		case 2:
			nr.Capabilities.TEE = &node.CapabilityTEE{Hardware: node.TEEHardwareInvalid}
		}
		n.Runtimes = append(n.Runtimes, nr)
	}
	return n
}

func (r *runner) epoch(e *EpochD) (obs Obs) {
	c := r.c
	r.cfg.CurrentEpoch = beacon.EpochTime(e.Epoch)
	r.cfg.LastHeight = int64(e.Epoch * 10)
	r.cfg.EpochChanged = e.Changed
	r.cfg.BaseEpoch = beacon.EpochTime(e.Base)
	r.st.UpdateMockApplicationStateConfig(r.cfg)

	// --- set up the state of this epoch ---
	func() {
		ctx := r.st.NewContext(abciAPI.ContextEndBlock)
		defer ctx.Close()
		cp := &consensusGenesis.Parameters{}
		if e.FV261 {
			v := migrations.Version261
			cp.FeatureVersion = &v
		}
		must(consensusState.NewMutableState(ctx.State()).SetConsensusParameters(ctx, cp))
		bs := beaconState.NewMutableState(ctx.State())
		if e.VRF == nil {
			must(bs.SetConsensusParameters(ctx, &beacon.ConsensusParameters{Backend: beacon.BackendInsecure}))
		} else {
			must(bs.SetConsensusParameters(ctx, &beacon.ConsensusParameters{Backend: beacon.BackendVRF, VRFParameters: &beacon.VRFParameters{}}))
			func() {
				ictx := r.st.NewContext(abciAPI.ContextInitChain)
				defer ictx.Close()
				must(consensusState.NewMutableState(ictx.State()).SetChainContext(ictx, chainContext))
			}()
			prev := &beacon.PrevVRFState{Pi: map[signature.PublicKey]*signature.Proof{}, CanElectCommittees: e.VRF.Can}
			for _, d := range e.Nodes {
				if !d.NoPi {
					prev.Pi[pk(d.Key)] = proofOf(d.Key, e.Epoch)
				}
			}
			must(bs.SetVRFState(ctx, &beacon.VRFState{Epoch: beacon.EpochTime(e.Epoch), Alpha: alphaOf(e.Epoch), PrevState: prev}))
		}
		must(bs.DebugForceSetBeacon(ctx, hx(e.Entropy)))
		must(bs.SetEpoch(ctx, beacon.EpochTime(e.Epoch), int64(e.Epoch*10)))
		sp := &scheduler.ConsensusParameters{
			MinValidators: e.Params.Min, MaxValidators: e.Params.Max, MaxValidatorsPerEntity: e.Params.Per,
			DebugBypassStake: e.Params.Bypass,
		}
		if e.VRF != nil {
			sp.DebugAllowWeakAlpha = e.VRF.Weak
		}
		if e.Params.Sqrt {
			sp.VotingPowerDistribution = scheduler.VotingPowerDistributionSqrt
		}
		must(schedulerState.NewMutableState(ctx.State()).SetConsensusParameters(ctx, sp))
		thr := map[staking.ThresholdKind]quantity.Quantity{}
		for k, v := range c.Thresholds {
			thr[staking.ThresholdKind(k)] = qOf(bigOf(v))
		}
		ss := stakingState.NewMutableState(ctx.State())
		must(ss.SetConsensusParameters(ctx, &staking.ConsensusParameters{Thresholds: thr}))
		rs := registryState.NewMutableState(ctx.State())
		must(rs.SetConsensusParameters(ctx, &registry.ConsensusParameters{}))

		if !r.rtsDone {
			for _, i := range r.perm(len(c.Rts)) {
				d := c.Rts[i]
				rt := &registry.Runtime{
					Versioned: cbor.NewVersioned(registry.LatestRuntimeDescriptorVersion),
					ID:        ns(d.ID), Kind: registry.KindKeyManager,
					Executor: registry.ExecutorParameters{GroupSize: uint16(d.G), GroupBackupSize: uint16(d.B)},
				}
				if d.Compute {
					rt.Kind = registry.KindCompute
				}
				rt.TEEHardware = node.TEEHardware(d.Tee)
				for _, dp := range d.Deps {
					rt.Deployments = append(rt.Deployments, &registry.VersionInfo{Version: version.FromU64(dp.Ver), ValidFrom: beacon.EpochTime(dp.From)})
				}
				if d.CW != nil || d.CB != nil {
					rt.Constraints = map[scheduler.CommitteeKind]map[scheduler.Role]registry.SchedulingConstraints{
						scheduler.KindComputeExecutor: {
							scheduler.RoleWorker:       mkConstraints(d.CW),
							scheduler.RoleBackupWorker: mkConstraints(d.CB),
						},
					}
				}
				must(rs.SetRuntime(ctx, rt, d.Suspended))
			}
			r.rtsDone = true
		}

		// staking accounts
		for _, i := range r.perm(len(e.Ents)) {
			d := e.Ents[i]
			acct := &staking.Account{}
			if !d.NoAccount {
				acct.Escrow.Active.Balance = qOf(bigOf(d.Escrow))
				acct.Escrow.Active.TotalShares = qOf(bigOf(d.Escrow))
				if len(d.Claims) > 0 {
					acct.Escrow.StakeAccumulator.Claims = map[staking.StakeClaim][]staking.StakeThreshold{}
					for _, cl := range d.Claims {
						var ts []staking.StakeThreshold
						for _, th := range cl.Thr {
							if th.Global >= 0 {
								ts = append(ts, staking.GlobalStakeThreshold(staking.ThresholdKind(th.Global)))
							} else {
								q := qOf(bigOf(th.Const))
								ts = append(ts, staking.StakeThreshold{Constant: &q})
							}
						}
						acct.Escrow.StakeAccumulator.Claims[staking.StakeClaim(cl.Name)] = ts
					}
				}
			}
			must(ss.SetAccount(ctx, entAddr(c.EntKeys[i]), acct))
		}

		// registry nodes: remove the ones gone, upsert the rest
		want := map[string]bool{}
		for _, d := range e.Nodes {
			want[d.Key] = true
		}
		var gone []string
		for k := range r.prevN {
			if !want[k] {
				gone = append(gone, k)
			}
		}
		sort.Strings(gone)
		for _, k := range gone {
			must(rs.RemoveNode(ctx, r.prevN[k]))
			delete(r.prevN, k)
		}
		for _, i := range r.perm(len(e.Nodes)) {
			d := e.Nodes[i]
			n := r.mkNode(d)
			sn := &node.MultiSignedNode{}
			sn.Blob = cbor.Marshal(n)
			must(rs.SetNode(ctx, r.prevN[d.Key], n, sn))
			r.prevN[d.Key] = n
			stt := &registry.NodeStatus{FreezeEndTime: beacon.EpochTime(d.Freeze), ElectionEligibleAfter: beacon.EpochTime(d.Elig)}
			for _, f := range d.Faults {
				if stt.Faults == nil {
					stt.Faults = map[common.Namespace]*registry.Fault{}
				}
				stt.Faults[ns(c.Rts[f.Rt].ID)] = &registry.Fault{Failures: 1, SuspendedUntil: beacon.EpochTime(f.Until)}
			}
			must(rs.SetNodeStatus(ctx, n.ID, stt))
		}
	}()

	// --- BeginBlock part: the election ---
	var pending map[signature.PublicKey]*scheduler.Validator
	func() {
		ctx := r.st.NewContext(abciAPI.ContextBeginBlock)
		defer ctx.Close()
		if e.Slashed {
			ctx.EmitEvent(abciAPI.NewEventBuilder(stakingApp.AppName).TypedAttribute(&staking.TakeEscrowEvent{}))
		}
		// what staking's evidence handling does before the scheduler's BeginBlock:
		// the real SlashEscrow (emits TakeEscrowEvent iff something was taken) and the node freeze
		for _, sl := range e.Slashes {
			amt := qOf(bigOf(sl.Amount))
			_, serr := stakingState.NewMutableState(ctx.State()).SlashEscrow(ctx, entAddr(c.EntKeys[sl.Ent]), &amt)
			must(serr)
			if sl.Freeze != "" {
				rs := registryState.NewMutableState(ctx.State())
				stt, serr := rs.NodeStatus(ctx, pk(sl.Freeze))
				must(serr)
				stt.FreezeEndTime = beacon.EpochTime(sl.Until)
				must(rs.SetNodeStatus(ctx, pk(sl.Freeze), stt))
			}
		}
		// the real BeginBlock: shouldElect + elect (+ reward distribution over an empty schedule)
		err := r.app.BeginBlock(ctx)
		obs.Err, obs.ErrText = classify(err)
		var err2 error
		pending, err2 = schedulerState.NewMutableState(ctx.State()).PendingValidators(ctx)
		must(err2)
		obs.Skip = err == nil && pending == nil
	}()
	for k, v := range pending {
		ea := staking.NewAddress(v.EntityID)
		obs.Vals = append(obs.Vals, ValO{Cons: hex.EncodeToString(k[:]), ID: hex.EncodeToString(v.ID[:]), Ent: hex.EncodeToString(ea[:]), Power: v.VotingPower})
	}
	sort.Slice(obs.Vals, func(i, j int) bool { return obs.Vals[i].Cons < obs.Vals[j].Cons })

	// --- EndBlock: validator updates ---
	func() {
		ctx := r.st.NewContext(abciAPI.ContextEndBlock)
		defer ctx.Close()
		resp, err := r.app.EndBlock(ctx)
		must(err)
		for _, u := range resp.ValidatorUpdates {
			obs.Updates = append(obs.Updates, UpdO{Cons: hex.EncodeToString(u.PubKey.GetEd25519()), Power: u.Power})
		}
		sort.SliceStable(obs.Updates, func(i, j int) bool { return obs.Updates[i].Cons < obs.Updates[j].Cons })
		ss := schedulerState.NewMutableState(ctx.State())
		cur, err := ss.CurrentValidators(ctx)
		must(err)
		for k, v := range cur {
			obs.Current = append(obs.Current, UpdO{Cons: hex.EncodeToString(k[:]), Power: v.VotingPower})
		}
		sort.Slice(obs.Current, func(i, j int) bool { return obs.Current[i].Cons < obs.Current[j].Cons })
		for _, d := range c.Rts {
			cm, err := ss.Committee(ctx, scheduler.KindComputeExecutor, ns(d.ID))
			must(err)
			co := CommO{Rt: d.ID}
			if cm != nil {
				co.Present = true
				for _, m := range cm.Members {
					co.Members = append(co.Members, MemO{Role: int(m.Role), ID: hex.EncodeToString(m.PublicKey[:])})
				}
			}
			obs.Comms = append(obs.Comms, co)
		}
	}()
	return obs
}

type caseRun struct {
	obs      []Obs
	tracked  [][]UpdO // consensus-engine copy of the validator set BEFORE each epoch
	panicked string
}

func applyUpdates(cur map[string]int64, ups []UpdO) map[string]int64 {
	out := map[string]int64{}
	for k, v := range cur {
		out[k] = v
	}
	for _, u := range ups {
		if u.Power == 0 {
			delete(out, u.Cons)
		} else {
			out[u.Cons] = u.Power
		}
	}
	return out
}
func sortedSet(m map[string]int64) []UpdO {
	var out []UpdO
	for k, v := range m {
		out = append(out, UpdO{k, v})
	}
	sort.Slice(out, func(i, j int) bool { return out[i].Cons < out[j].Cons })
	return out
}

func runCase(c *Case, orderSeed uint64) (cr caseRun) {
	defer func() {
		if e := recover(); e != nil {
			cr.panicked = fmt.Sprintf("%v", e)
		}
	}()
	r := newRunner(c, orderSeed)
	engine := map[string]int64{}
	for i := range c.Epochs {
		cr.tracked = append(cr.tracked, sortedSet(engine))
		o := r.epoch(&c.Epochs[i])
		cr.obs = append(cr.obs, o)
		engine = applyUpdates(engine, o.Updates)
	}
	return cr
}

// ---------- independent oracle (S) ----------
func expectedPower(stake *big.Int, sqrt bool) (int64, bool) {
	q := new(big.Int).Set(stake)
	if !sqrt {
		q.Div(q, big.NewInt(16))
	}
	if q.Sign() == 0 {
		return 1, true
	}
	if sqrt {
		q.Sqrt(q)
	}
	if !q.IsInt64() {
		return 0, false
	}
	return q.Int64(), true
}

type view struct {
	c    *Case
	e    *EpochD
	byID map[string]*NodeD
}

func (v *view) escrow(ent int) *big.Int {
	if v.e.Ents[ent].NoAccount {
		return new(big.Int)
	}
	return bigOf(v.e.Ents[ent].Escrow)
}
func (v *view) stakeOK(ent int) bool {
	if v.e.Params.Bypass || v.e.Ents[ent].NoAccount {
		return true
	}
	return v.escrow(ent).Cmp(claimTotal(v.c, v.e.Ents[ent])) >= 0
}
func (v *view) live(n *NodeD) bool { return n.Freeze == 0 && n.Exp >= v.e.Epoch }
func (v *view) entIdx(addrHex string) int {
	for i, k := range v.c.EntKeys {
		if entAddrHex(k) == addrHex {
			return i
		}
	}
	return -1
}
func activeVer(rt *RtD, epoch uint64) (uint64, bool) {
	found := false
	var ver, from uint64
	for _, d := range rt.Deps {
		if d.From > epoch {
			continue
		}
		if !found || d.From > from {
			found, ver, from = true, d.Ver, d.From
		}
	}
	return ver, found
}
// sortition is used for the validators of this epoch (enough candidates with a proof)
func (v *view) valSortition() bool {
	if v.e.VRF == nil {
		return false
	}
	k := 0
	for i := range v.e.Nodes {
		n := &v.e.Nodes[i]
		if v.live(n) && n.Roles&8 != 0 && v.stakeOK(n.Ent) && !n.NoPi {
			k++
		}
	}
	return k >= v.e.Params.Min
}

// committee candidate under the VRF backend: proof submitted and past ElectionEligibleAfter
func (v *view) vrfOK(n *NodeD) bool {
	if v.e.VRF == nil {
		return true
	}
	if n.NoPi {
		return false
	}
	return v.e.VRF.Weak || v.e.Epoch > n.Elig
}

func (v *view) suitable(n *NodeD, rti int) bool {
	rt := &v.c.Rts[rti]
	if n.Roles&1 == 0 || !v.vrfOK(n) {
		return false
	}
	ver, ok := activeVer(rt, v.e.Epoch)
	if !ok {
		return false
	}
	for _, x := range n.Rts {
		if x.Rt != rti || x.Ver != ver {
			continue
		}
		for _, f := range n.Faults {
			if f.Rt == rti && f.Until > 0 && v.e.Epoch < f.Until {
				return false
			}
		}
		// no TEE capability for a non-TEE runtime; the generated TEE capabilities never verify
		return rt.Tee == 0 && x.Tee == 0
	}
	return false
}

// oracle returns "" or a description of the first C14 predicate that fails on
// the implementation's output for epoch i.
func oracle(c *Case, i int, o *Obs, before []UpdO) string {
	eff, took := c.Epochs[i].effective()
	e := &eff
	v := &view{c: c, e: e, byID: map[string]*NodeD{}}
	for k := range e.Nodes {
		v.byID[e.Nodes[k].Key] = &e.Nodes[k]
	}
	if o.Err == 9 {
		return "election failed with an unexpected error: " + o.ErrText
	}
	wantElect := e.Epoch != e.Base && (e.Changed || e.Slashed || took)
	if o.Skip == wantElect {
		return fmt.Sprintf("election trigger: skipped=%v although epoch=%d base=%d changed=%v slashed=%v", o.Skip, e.Epoch, e.Base, e.Changed, e.Slashed)
	}
	if o.Skip {
		if len(o.Updates) != 0 {
			return "validator updates emitted without an election"
		}
		return ""
	}
	// the updates turn the engine's previous set into the pending one
	engine := map[string]int64{}
	for _, u := range before {
		engine[u.Cons] = u.Power
	}
	seen := map[string]bool{}
	for _, u := range o.Updates {
		if seen[u.Cons] {
			return "validator updates mention key " + u.Cons[:8] + " twice"
		}
		seen[u.Cons] = true
		if u.Power < 0 {
			return "negative power in validator update"
		}
	}
	after := sortedSet(applyUpdates(engine, o.Updates))
	if o.Err != 0 {
		if len(o.Updates) != 0 {
			return "validator updates emitted although the election failed"
		}
		return ""
	}
	var pend []UpdO
	for _, x := range o.Vals {
		pend = append(pend, UpdO{x.Cons, x.Power})
	}
	if fmt.Sprint(after) != fmt.Sprint(pend) {
		return fmt.Sprintf("validator updates do not turn the previous set into the elected one: after=%v elected=%v", after, pend)
	}
	if fmt.Sprint(o.Current) != fmt.Sprint(pend) {
		return "scheduler's current validator set differs from the elected one after EndBlock"
	}
	// validators
	if e.Params.Max >= 1 && len(o.Vals) > e.Params.Max {
		return fmt.Sprintf("%d validators elected > MaxValidators %d", len(o.Vals), e.Params.Max)
	}
	if len(o.Vals) < e.Params.Min || len(o.Vals) == 0 {
		return fmt.Sprintf("%d validators elected < MinValidators %d", len(o.Vals), e.Params.Min)
	}
	perEnt := map[int]int{}
	represented := map[int]bool{}
	for _, x := range o.Vals {
		n := v.byID[x.ID]
		if n == nil {
			return "elected validator " + x.ID[:8] + " is not a registered node"
		}
		if n.Cons != x.Cons {
			return "elected validator " + x.ID[:8] + " listed under a foreign consensus key"
		}
		if entAddrHex(c.EntKeys[n.Ent]) != x.Ent {
			return "elected validator " + x.ID[:8] + " attributed to a foreign entity"
		}
		if n.Exp < e.Epoch {
			return "elected validator " + x.ID[:8] + " is expired"
		}
		if n.Freeze != 0 {
			return "elected validator " + x.ID[:8] + " is frozen"
		}
		if n.Roles&8 == 0 {
			return "elected validator " + x.ID[:8] + " lacks the validator role"
		}
		if !v.stakeOK(n.Ent) {
			return "elected validator " + x.ID[:8] + ": entity escrow does not cover its stake claims"
		}
		want := int64(1)
		if !e.Params.Bypass {
			w, ok := expectedPower(v.escrow(n.Ent), e.Params.Sqrt)
			if !ok {
				return "validator elected although its voting power overflows"
			}
			want = w
		}
		if x.Power != want || x.Power <= 0 {
			return fmt.Sprintf("validator %s has voting power %d, expected %d", x.ID[:8], x.Power, want)
		}
		perEnt[n.Ent]++
		represented[n.Ent] = true
		if perEnt[n.Ent] > e.Params.Per {
			return fmt.Sprintf("entity %d has %d validators > MaxValidatorsPerEntity %d", n.Ent, perEnt[n.Ent], e.Params.Per)
		}
	}
	if !e.Params.Bypass {
		for k := range e.Nodes {
			n := &e.Nodes[k]
			if !v.live(n) || n.Roles&8 == 0 || !v.stakeOK(n.Ent) || represented[n.Ent] {
				continue
			}
			if v.valSortition() && n.NoPi {
				continue // takes no part in the sortition
			}
			for r := range represented {
				if v.escrow(r).Cmp(v.escrow(n.Ent)) < 0 {
					return fmt.Sprintf("entity %d (escrow %v) is represented while eligible entity %d (escrow %v) is not", r, v.escrow(r), n.Ent, v.escrow(n.Ent))
				}
			}
		}
		for _, a := range o.Vals {
			for _, b := range o.Vals {
				ea, eb := v.escrow(v.entIdx(a.Ent)), v.escrow(v.entIdx(b.Ent))
				if ea.Cmp(eb) <= 0 && a.Power > b.Power {
					return "voting power not monotone in stake"
				}
			}
		}
	}
	// committees
	for ri, co := range o.Comms {
		rt := &c.Rts[ri]
		if !co.Present {
			continue
		}
		if rt.Suspended {
			return "committee elected for a suspended runtime"
		}
		if !rt.Compute && e.FV261 {
			return "executor committee elected for a non-compute runtime"
		}
		if e.VRF != nil && !e.VRF.Can && !e.VRF.Weak {
			return "committee elected although the VRF alpha was weak"
		}
		cnt := map[int]int{}
		perRole := map[int]map[int]int{1: {}, 2: {}}
		lastRole := 1
		for _, m := range co.Members {
			if m.Role != 1 && m.Role != 2 {
				return "committee member with invalid role"
			}
			if m.Role < lastRole {
				return "backup worker listed before a worker"
			}
			lastRole = m.Role
			cnt[m.Role]++
			n := v.byID[m.ID]
			if n == nil {
				return "committee member " + m.ID[:8] + " is not a registered node"
			}
			if !v.live(n) {
				return "committee member " + m.ID[:8] + " is expired or frozen"
			}
			if !v.suitable(n, ri) {
				return "committee member " + m.ID[:8] + " lacks the compute role / active runtime version or is suspended"
			}
			if !v.stakeOK(n.Ent) {
				return "committee member " + m.ID[:8] + ": entity escrow does not cover its stake claims"
			}
			cs := rt.CW
			if m.Role == 2 {
				cs = rt.CB
			}
			if cs != nil && cs.VSet && !represented[n.Ent] {
				return "committee member " + m.ID[:8] + ": entity not in the validator set (constraint)"
			}
			perRole[m.Role][n.Ent]++
			if cs != nil && cs.Max != nil && perRole[m.Role][n.Ent] > *cs.Max {
				return fmt.Sprintf("committee has %d nodes of entity %d in role %d > MaxNodes %d", perRole[m.Role][n.Ent], n.Ent, m.Role, *cs.Max)
			}
		}
		if cnt[1] != rt.G || cnt[2] != rt.B || rt.G == 0 {
			return fmt.Sprintf("committee sizes %d/%d differ from configured %d/%d", cnt[1], cnt[2], rt.G, rt.B)
		}
		for role, cs := range map[int]*CsD{1: rt.CW, 2: rt.CB} {
			if cs == nil || cs.Min == nil || (role == 2 && rt.B == 0) {
				continue
			}
			pool := map[int]int{}
			for k := range e.Nodes {
				n := &e.Nodes[k]
				if v.live(n) && v.suitable(n, ri) && v.stakeOK(n.Ent) && (!cs.VSet || represented[n.Ent]) {
					pool[n.Ent]++
				}
			}
			tot := 0
			for _, k := range pool {
				if cs.Max != nil && *cs.Max > 0 && k > *cs.Max {
					k = *cs.Max
				}
				tot += k
			}
			if tot < *cs.Min {
				return fmt.Sprintf("committee elected from a pool of %d < MinPoolSize %d", tot, *cs.Min)
			}
		}
	}
	return ""
}

// ---------- Coq terms ----------
// Identifiers and hashed betas are only compared (equality, order) by the
// model, so a long byte string is rendered by its first 8 bytes: the order and
// equality of distinct strings are preserved as long as the prefixes are
// distinct, which is asserted here (a collision aborts the run).
var prefixSeen = map[string]string{}

func short(hexs string, from int) string {
	if len(hexs) < from+16 {
		return hexs
	}
	p := hexs[from : from+16]
	if full, ok := prefixSeen[p]; ok && full != hexs {
		panic("identifier prefix collision: " + full + " / " + hexs)
	}
	prefixSeen[p] = hexs
	return p
}
func numHex(s string) string {
	s = strings.TrimLeft(s, "0")
	if s == "" {
		return "0"
	}
	return "0x" + s
}
func num(hexs string) string   { return numHex(short(hexs, 0)) }
func numRt(hexs string) string { return numHex(short(hexs, 16)) } // a namespace starts with 8 flag bytes
func nlist(xs []int) string {
	var s []string
	for _, x := range xs {
		s = append(s, fmt.Sprint(x))
	}
	return coqout.List(s)
}
func table(f func(n int) []int, max int) string {
	var s []string
	for k := 0; k <= max; k++ {
		s = append(s, nlist(f(k)))
	}
	return coqout.List(s)
}
func csTerm(cs *CsD) string {
	if cs == nil {
		return "(mkCs false None None)"
	}
	o := func(p *int) string {
		if p == nil {
			return "None"
		}
		return fmt.Sprintf("(Some %d)", *p)
	}
	return fmt.Sprintf("(mkCs %s %s %s)", coqout.Bool(cs.VSet), o(cs.Max), o(cs.Min))
}

func inputTerm(c *Case, i int, before []UpdO) string {
	e := &c.Epochs[i]
	var ents, nodes, rts, permc, cur []string
	for k, d := range e.Ents {
		esc := "0"
		var cl []string
		if !d.NoAccount {
			esc = bigOf(d.Escrow).String()
			for _, x := range d.Claims {
				for _, th := range x.Thr {
					if th.Global >= 0 {
						cl = append(cl, bigOf(c.Thresholds[th.Global]).String())
					} else {
						cl = append(cl, bigOf(th.Const).String())
					}
				}
			}
		}
		ents = append(ents, fmt.Sprintf("mkEnt %s %s %s", num(entAddrHex(c.EntKeys[k])), esc, coqout.List(cl)))
	}
	for _, d := range e.Nodes {
		var nr, fl []string
		for _, x := range d.Rts {
			tee := "None"
			switch x.Tee {
			case 1:
				tee = "(Some (1, false))"
			case 2:
				tee = "(Some (0, false))"
			}
			nr = append(nr, fmt.Sprintf("(%s, %d, %s)", numRt(c.Rts[x.Rt].ID), x.Ver, tee))
		}
		// NodeStatus.Faults is a map: one entry per runtime, the last one set wins
		fm := map[int]uint64{}
		var fo []int
		for _, f := range d.Faults {
			if _, ok := fm[f.Rt]; !ok {
				fo = append(fo, f.Rt)
			}
			fm[f.Rt] = f.Until
		}
		for _, k := range fo {
			fl = append(fl, fmt.Sprintf("(%s, %d)", numRt(c.Rts[k].ID), fm[k]))
		}
		nodes = append(nodes, fmt.Sprintf("mkNode %s %s %s %d %d %d %d %s %s", num(d.Key), num(entAddrHex(c.EntKeys[d.Ent])), num(d.Cons), d.Roles, d.Exp, d.Freeze, d.Elig, coqout.List(nr), coqout.List(fl)))
	}
	entropy := hx(e.Entropy)
	nmax := len(e.Nodes)
	for _, d := range c.Rts {
		var deps []string
		for _, dp := range d.Deps {
			deps = append(deps, fmt.Sprintf("(%d, %d)", dp.Ver, dp.From))
		}
		rts = append(rts, fmt.Sprintf("mkRt %s %s %s %d %d %s %s %s %d", numRt(d.ID), coqout.Bool(d.Compute), coqout.Bool(d.Suspended), d.G, d.B, coqout.List(deps), csTerm(d.CW), csTerm(d.CB), d.Tee))
		id := ns(d.ID)
		tw := table(func(n int) []int { p, err := schedulerApp.VerifCommitteePerm(entropy, id, scheduler.RoleWorker, n); must(err); return p }, nmax)
		tb := table(func(n int) []int {
			p, err := schedulerApp.VerifCommitteePerm(entropy, id, scheduler.RoleBackupWorker, n)
			must(err)
			return p
		}, nmax)
		permc = append(permc, fmt.Sprintf("(%s, %s)", tw, tb))
	}
	te := table(func(n int) []int { p, err := schedulerApp.VerifEntityPerm(entropy, n); must(err); return p }, len(e.Ents))
	tn := table(func(n int) []int { p, err := schedulerApp.VerifValidatorPerm(entropy, n); must(err); return p }, nmax)
	for _, u := range before {
		cur = append(cur, fmt.Sprintf("(%s, %d)", num(u.Cons), u.Power))
	}
	p := e.Params
	vrf := "None"
	if e.VRF != nil {
		// the hashed betas of the submitted proofs in every election context, from the real hashers
		betas := func(f func(pi *signature.Proof) [32]byte) string {
			var s []string
			for _, d := range e.Nodes {
				if !d.NoPi {
					b := f(proofOf(d.Key, e.Epoch))
					s = append(s, fmt.Sprintf("(%s, %s)", num(d.Key), num(hex.EncodeToString(b[:]))))
				}
			}
			return coqout.List(s)
		}
		ep := beacon.EpochTime(e.Epoch)
		cc := []byte(chainContext)
		var per []string
		for _, d := range c.Rts {
			id := ns(d.ID)
			k := scheduler.KindComputeExecutor
			per = append(per, fmt.Sprintf("(%s, %s, %s, %s)",
				betas(func(pi *signature.Proof) [32]byte { return schedulerApp.VerifDedupBeta(cc, ep, id, k, scheduler.RoleWorker, pi) }),
				betas(func(pi *signature.Proof) [32]byte { return schedulerApp.VerifCommitteeBeta(cc, ep, id, k, scheduler.RoleWorker, pi) }),
				betas(func(pi *signature.Proof) [32]byte { return schedulerApp.VerifDedupBeta(cc, ep, id, k, scheduler.RoleBackupWorker, pi) }),
				betas(func(pi *signature.Proof) [32]byte { return schedulerApp.VerifCommitteeBeta(cc, ep, id, k, scheduler.RoleBackupWorker, pi) })))
		}
		vrf = fmt.Sprintf("(Some (mkVrf %s %s %s %s))", coqout.Bool(e.VRF.Can), coqout.Bool(e.VRF.Weak),
			betas(func(pi *signature.Proof) [32]byte { return schedulerApp.VerifValidatorBeta(cc, ep, pi) }), coqout.List(per))
	}
	var sls []string
	for _, sl := range e.Slashes {
		fr := "None"
		if sl.Freeze != "" {
			fr = fmt.Sprintf("(Some (%s, %d))", num(sl.Freeze), sl.Until)
		}
		sls = append(sls, fmt.Sprintf("(%s, %s, %s)", num(entAddrHex(c.EntKeys[sl.Ent])), bigOf(sl.Amount).String(), fr))
	}
	return fmt.Sprintf("mkIn (mkParams %d %d %d %s %s) %s %d %s %s %s %s %s %s %s %s %d %s %s %s",
		p.Min, p.Max, p.Per, coqout.Bool(p.Bypass), coqout.Bool(p.Sqrt),
		coqout.List(ents), e.Epoch, coqout.List(nodes), coqout.List(rts), te, tn, coqout.List(permc), coqout.List(cur), coqout.Bool(e.FV261),
		vrf, e.Base, coqout.Bool(e.Changed), coqout.Bool(e.Slashed), coqout.List(sls))
}

func outputTerm(o *Obs) string {
	if o.Skip {
		return "ESkip"
	}
	if o.Err != 0 {
		return fmt.Sprintf("EErr %d", o.Err)
	}
	var vs, us, cs []string
	for _, x := range o.Vals {
		vs = append(vs, fmt.Sprintf("(%s, (%s, %s, %d))", num(x.Cons), num(x.ID), num(x.Ent), x.Power))
	}
	for _, u := range o.Updates {
		us = append(us, fmt.Sprintf("(%s, %d)", num(u.Cons), u.Power))
	}
	for _, c := range o.Comms {
		if !c.Present {
			cs = append(cs, fmt.Sprintf("(%s, None)", numRt(c.Rt)))
			continue
		}
		var ms []string
		for _, m := range c.Members {
			ms = append(ms, fmt.Sprintf("(%d, %s)", m.Role, num(m.ID)))
		}
		cs = append(cs, fmt.Sprintf("(%s, Some %s)", numRt(c.Rt), coqout.List(ms)))
	}
	return fmt.Sprintf("EOk %s %s %s", coqout.List(vs), coqout.List(us), coqout.List(cs))
}

// ---------- generation ----------
func rkey(r *prng.R) string { return hex.EncodeToString(r.Bytes(32)) }

// a well-formed runtime namespace: 8 flag bytes (test, optionally key manager) + 24 random bytes
func rtKey(r *prng.R, compute bool) string {
	b := r.Bytes(32)
	for i := 0; i < 8; i++ {
		b[i] = 0
	}
	b[0] = 0x80
	if !compute {
		b[0] = 0xc0
	}
	return hex.EncodeToString(b)
}

var versions = []uint64{0, 1 << 32, 1<<32 | 1, 2 << 32}

func genCs(r *prng.R) *CsD {
	if r.Chance(35) {
		return nil
	}
	cs := &CsD{VSet: r.Chance(25)}
	if r.Chance(55) {
		m := []int{0, 1, 1, 1, 2, 2}[r.Intn(6)]
		cs.Max = &m
	}
	if r.Chance(40) {
		m := []int{0, 1, 1, 2, 2, 3}[r.Intn(6)]
		cs.Min = &m
	}
	return cs
}

func genClaims(r *prng.R, e0 uint64) []ClaimD {
	var out []ClaimD
	if r.Chance(75) {
		out = append(out, ClaimD{Name: "registry.RegisterEntity", Thr: []ThrD{{Global: 0}}})
	}
	k := r.Intn(3)
	for j := 0; j < k; j++ {
		var th []ThrD
		if r.Chance(70) {
			th = append(th, ThrD{Global: 1 + r.Intn(4)})
		}
		if r.Chance(30) {
			th = append(th, ThrD{Global: 5 + r.Intn(2)})
		}
		if r.Chance(20) {
			th = append(th, ThrD{Global: -1, Const: fmt.Sprint(r.Intn(500))})
		}
		out = append(out, ClaimD{Name: fmt.Sprintf("registry.RegisterNode.%d", j), Thr: th})
	}
	_ = e0
	return out
}

func genEscrow(r *prng.R, c *Case, e *EntD, tie int) string {
	tot := claimTotal(c, *e)
	x := r.Intn(100)
	switch {
	case x < 30:
		return fmt.Sprint(tie)
	case x < 45:
		return tot.String()
	case x < 52:
		if tot.Sign() > 0 {
			return new(big.Int).Sub(tot, big.NewInt(1)).String()
		}
		return "0"
	case x < 65:
		return new(big.Int).Add(tot, big.NewInt(1)).String()
	case x < 69:
		return "0"
	case x < 72:
		// around the int64 voting power limit of either distribution
		b := new(big.Int).Lsh(big.NewInt(1), uint([]int{67, 126}[r.Intn(2)]))
		return b.Add(b, big.NewInt(int64(r.Intn(3)-1)*16)).String()
	case x < 80:
		return fmt.Sprint([]int{15, 16, 17, 31, 32, 255, 256}[r.Intn(7)])
	default:
		return fmt.Sprint(r.Intn(20000))
	}
}

func genNode(r *prng.R, c *Case, ent int, epoch uint64) NodeD {
	n := NodeD{Key: rkey(r), Cons: rkey(r), Ent: ent}
	if r.Chance(70) {
		n.Roles |= 8
	}
	if r.Chance(75) {
		n.Roles |= 1
	}
	if r.Chance(10) {
		n.Roles |= 2
	}
	if r.Chance(8) {
		n.Roles |= 4
	}
	x := r.Intn(100)
	switch {
	case x < 10:
		if epoch > 0 {
			n.Exp = epoch - 1
		}
	case x < 25:
		n.Exp = epoch
	default:
		n.Exp = epoch + uint64(r.Range(1, 4))
	}
	if r.Chance(10) {
		n.Freeze = []uint64{1, epoch, epoch + 3, ^uint64(0)}[r.Intn(4)]
	}
	if r.Chance(35) {
		n.Elig = []uint64{epoch - 1, epoch, epoch + 1}[r.Intn(3)]
	}
	n.NoPi = r.Chance(22)
	if n.Roles&1 != 0 && len(c.Rts) > 0 {
		k := r.Range(1, 3)
		for j := 0; j < k; j++ {
			ri := r.Intn(len(c.Rts))
			rt := c.Rts[ri]
			ver := rt.Deps[r.Intn(len(rt.Deps))].Ver
			if a, ok := activeVer(&rt, epoch); ok && r.Chance(85) {
				ver = a
			}
			if r.Chance(8) {
				ver = versions[r.Intn(len(versions))]
			}
			tee := 0
			if rt.Tee != 0 && r.Chance(60) {
				tee = 1
			} else if r.Chance(5) {
				tee = r.Range(1, 2)
			}
			n.Rts = append(n.Rts, NodeRt{Rt: ri, Ver: ver, Tee: tee})
		}
		if r.Chance(12) {
			n.Faults = append(n.Faults, FaultD{Rt: n.Rts[0].Rt, Until: []uint64{0, epoch, epoch + 1, epoch + 5}[r.Intn(4)]})
		}
	}
	return n
}

func genParams(r *prng.R) ParamsD {
	p := ParamsD{Min: r.Range(1, 3), Max: r.Range(1, 6), Per: 1, Bypass: r.Chance(5), Sqrt: r.Chance(30)}
	if r.Chance(30) {
		p.Per = r.Range(2, 3)
	}
	if r.Chance(60) {
		p.Min = 1
	}
	return p
}

// genPoolCase targets the scheduling-constraint boundaries: runtimes whose roles
// combine MaxNodes, MinPoolSize (and ValidatorSet), entities with node counts
// around the per-entity limit, and MinPoolSize placed relative to the raw and
// the de-duplicated pool sizes (raw >= min > deduped >= group size; deduped ==
// min; deduped == group size; ...).  All nodes are otherwise eligible.
func genPoolCase(r *prng.R) Case {
	c := Case{Thresholds: []string{"100", "200", "300", "50", "400", "500", "600"}}
	e0 := uint64(r.Range(1, 6))
	nEnt := r.Range(2, 4)
	ep := EpochD{Epoch: e0, Entropy: hex.EncodeToString(r.Bytes(32)), Params: ParamsD{Min: 1, Max: r.Range(1, 4), Per: 1}, FV261: true, Changed: true}
	if r.Chance(30) {
		ep.VRF = &VrfD{Can: true, Weak: r.Chance(20)}
	}
	lim := r.Range(1, 2)
	ver := versions[1]
	counts := make([]int, nEnt)
	for i := 0; i < nEnt; i++ {
		c.EntKeys = append(c.EntKeys, rkey(r))
		ep.Ents = append(ep.Ents, EntD{Escrow: fmt.Sprint(1000 * (1 + r.Intn(3)))})
		// one validator node per entity (so that ValidatorSet splits the entities when MaxValidators is small)
		ep.Nodes = append(ep.Nodes, NodeD{Key: rkey(r), Cons: rkey(r), Ent: i, Roles: 8, Exp: e0 + 2})
		counts[i] = []int{0, lim - 1, lim, lim, lim + 1, lim + 2}[r.Intn(6)]
	}
	if r.Chance(50) {
		counts[0] = lim + r.Range(1, 2) // one entity surely above the limit
	}
	raw, ded := 0, 0
	for i, k := range counts {
		for j := 0; j < k; j++ {
			ep.Nodes = append(ep.Nodes, NodeD{Key: rkey(r), Cons: rkey(r), Ent: i, Roles: 1, Exp: e0 + 2, NoPi: r.Chance(8),
				Rts: []NodeRt{{Rt: 0, Ver: ver}}})
		}
		raw += k
		if k > lim {
			ded += lim
		} else {
			ded += k
		}
	}
	g := []int{1, 2, 2, 3}[r.Intn(4)]
	if r.Chance(40) && ded >= 1 {
		g = ded // group size == de-duplicated pool
	}
	mkCs := func() *CsD {
		cs := &CsD{VSet: r.Chance(20)}
		if r.Chance(85) {
			l := lim
			cs.Max = &l
		}
		cands := []int{ded, ded, ded + 1, raw, g, ded - 1, raw + 1}
		m := cands[r.Intn(len(cands))]
		if m < 0 {
			m = 0
		}
		if r.Chance(85) {
			cs.Min = &m
		}
		return cs
	}
	c.Rts = append(c.Rts, RtD{ID: rtKey(r, true), Compute: true, G: g, B: []int{0, 0, 1, 2}[r.Intn(4)],
		Deps: []DepD{{Ver: ver, From: 0}}, CW: mkCs(), CB: mkCs()})
	c.Epochs = append(c.Epochs, ep)
	if r.Chance(40) {
		// next epoch: one compute node leaves
		nx := ep
		nx.Epoch, nx.Entropy = ep.Epoch+1, hex.EncodeToString(r.Bytes(32))
		nx.Nodes = append([]NodeD{}, ep.Nodes...)
		for k := len(nx.Nodes) - 1; k >= 0; k-- {
			if nx.Nodes[k].Roles == 1 {
				nx.Nodes = append(nx.Nodes[:k], nx.Nodes[k+1:]...)
				break
			}
		}
		c.Epochs = append(c.Epochs, nx)
	}
	return c
}

func genCase(r *prng.R) Case {
	c := Case{Thresholds: []string{"100", "200", "300", "50", "400", "500", "600"}}
	if r.Chance(15) {
		for i := range c.Thresholds {
			c.Thresholds[i] = fmt.Sprint(r.Intn(3) * 100)
		}
	}
	e0 := uint64(r.Range(1, 6))
	nRt := []int{0, 1, 1, 2, 2, 3}[r.Intn(6)]
	for i := 0; i < nRt; i++ {
		compute := r.Chance(85)
		rt := RtD{ID: rtKey(r, compute), Compute: compute, Suspended: r.Chance(8), G: []int{0, 1, 1, 1, 1, 2, 2, 3}[r.Intn(8)], B: []int{0, 0, 0, 1, 1, 2}[r.Intn(6)]}
		rt.Deps = append(rt.Deps, DepD{Ver: versions[r.Intn(2)], From: 0})
		if r.Chance(40) {
			rt.Deps = append(rt.Deps, DepD{Ver: versions[2+r.Intn(2)], From: e0 + uint64(r.Intn(4)) - 1})
		}
		if r.Chance(5) {
			rt.Deps[0].From = e0 + 1
		}
		rt.CW, rt.CB = genCs(r), genCs(r)
		if r.Chance(8) {
			rt.Tee = 1
		}
		c.Rts = append(c.Rts, rt)
	}
	nEnt := r.Range(2, 7)
	for i := 0; i < nEnt; i++ {
		c.EntKeys = append(c.EntKeys, rkey(r))
	}
	tie := []int{1000, 2000, 5000, 300, 16}[r.Intn(5)]
	ep := EpochD{Epoch: e0, Entropy: hex.EncodeToString(r.Bytes(32)), Params: genParams(r), FV261: r.Chance(85), Changed: true}
	if r.Chance(35) {
		ep.VRF = &VrfD{Can: r.Chance(88), Weak: r.Chance(15)}
	}
	if ep.VRF != nil && len(c.Rts) > 0 && r.Chance(40) {
		// a pool-size constraint without de-duplication: nodes without a proof must not count
		m := r.Range(2, 3)
		c.Rts[0].CW = &CsD{Min: &m}
		c.Rts[0].G = 1
	}
	if r.Chance(4) {
		ep.Base = e0 // still in the bootstrap epoch: no election
	}
	if r.Chance(3) {
		ep.Changed = false
		ep.Slashed = r.Chance(50)
	}
	for i := 0; i < nEnt; i++ {
		e := EntD{NoAccount: r.Chance(7), Claims: genClaims(r, e0)}
		e.Escrow = genEscrow(r, &c, &e, tie)
		ep.Ents = append(ep.Ents, e)
		k := []int{0, 1, 1, 1, 2, 2, 3}[r.Intn(7)]
		for j := 0; j < k; j++ {
			ep.Nodes = append(ep.Nodes, genNode(r, &c, i, e0))
		}
	}
	c.Epochs = append(c.Epochs, ep)
	nEp := []int{1, 2, 3, 3, 4, 5, 6, 8, 10}[r.Intn(9)]
	for k := 1; k < nEp; k++ {
		prev := c.Epochs[k-1]
		slashNow := false
		nx := EpochD{Epoch: prev.Epoch + 1, Entropy: hex.EncodeToString(r.Bytes(32)), Params: prev.Params, FV261: prev.FV261, Base: prev.Base, Changed: true}
		if prev.VRF != nil {
			nx.VRF = &VrfD{Can: prev.VRF.Can, Weak: prev.VRF.Weak}
			if r.Chance(15) {
				nx.VRF.Can = !nx.VRF.Can
			}
		}
		if r.Chance(20) {
			nx.Params = genParams(r)
		}
		if r.Chance(10) {
			nx.Epoch += uint64(r.Intn(3))
		}
		if r.Chance(22) {
			// a block inside the epoch: re-election only if stake was slashed in it
			nx.Epoch, nx.Entropy, nx.Changed = prev.Epoch, prev.Entropy, false
			nx.Slashed = r.Chance(20)
			slashNow = r.Chance(60)
		}
		for i, e := range prev.Ents {
			ne := e
			if r.Chance(40) {
				ne.Escrow = genEscrow(r, &c, &ne, tie)
			}
			if r.Chance(10) {
				ne.Claims = genClaims(r, nx.Epoch)
			}
			nx.Ents = append(nx.Ents, ne)
			_ = i
		}
		for _, n := range prev.Nodes {
			x := r.Intn(100)
			switch {
			case x < 8: // deregistered
				continue
			case x < 16:
				n.Freeze = nx.Epoch + 2
			case x < 22:
				n.Freeze = 0
			case x < 40:
				n.Exp = nx.Epoch + uint64(r.Intn(3))
			case x < 45:
				n.Roles ^= 8
			}
			if nx.Changed {
				n.NoPi = r.Chance(22)
				if n.Exp <= nx.Epoch && r.Chance(75) { // the node re-registers
					n.Exp = nx.Epoch + uint64(r.Intn(3))
				}
				if n.Freeze != 0 && r.Chance(30) {
					n.Freeze = 0
				}
			}
			nx.Nodes = append(nx.Nodes, n)
		}
		if r.Chance(50) && len(nx.Nodes) < 14 {
			nx.Nodes = append(nx.Nodes, genNode(r, &c, r.Intn(nEnt), nx.Epoch))
		}
		if slashNow {
			k := r.Range(1, 2)
			for j := 0; j < k; j++ {
				ei := r.Intn(nEnt)
				en := nx.Ents[ei]
				esc, tot := bigOf(en.Escrow), claimTotal(&c, en)
				amt := big.NewInt(int64(r.Range(0, 400)))
				switch r.Intn(5) {
				case 0: // leaves the entity exactly at its claims
					if esc.Cmp(tot) > 0 {
						amt = new(big.Int).Sub(esc, tot)
					}
				case 1: // one unit below its claims
					if esc.Cmp(tot) >= 0 {
						amt = new(big.Int).Add(new(big.Int).Sub(esc, tot), big.NewInt(1))
					}
				case 2: // more than there is
					amt = new(big.Int).Add(esc, big.NewInt(5))
				}
				sl := SlashD{Ent: ei, Amount: amt.String()}
				if r.Chance(55) {
					for _, nd := range nx.Nodes {
						if nd.Ent == ei && nd.Roles&8 != 0 {
							sl.Freeze, sl.Until = nd.Key, nx.Epoch+uint64(r.Range(1, 3))
							break
						}
					}
				}
				nx.Slashes = append(nx.Slashes, sl)
			}
		}
		c.Epochs = append(c.Epochs, nx)
	}
	return c
}

// hand-written boundary cases: a stake tie at the MaxValidators boundary and
// an entity exactly at / just below its claim threshold.
func boundaryCases() []Case {
	mk := func(escrows []string, max int, entropy byte) Case {
		c := Case{Thresholds: []string{"100", "200", "300", "50", "400", "500", "600"}}
		ep := EpochD{Epoch: 3, Entropy: hex.EncodeToString([]byte{entropy, 1, 2, 3, 4, 5, 6, 7, 8, 9, 10, 11, 12, 13, 14, 15, 16, 17, 18, 19, 20, 21, 22, 23, 24, 25, 26, 27, 28, 29, 30, 31}),
			Params: ParamsD{Min: 1, Max: max, Per: 1}, FV261: true}
		for i, s := range escrows {
			key := fmt.Sprintf("%016x%048x", 0x1000+i, 0)
			c.EntKeys = append(c.EntKeys, key)
			ep.Ents = append(ep.Ents, EntD{Escrow: s, Claims: []ClaimD{{Name: "registry.RegisterEntity", Thr: []ThrD{{Global: 0}}}, {Name: "registry.RegisterNode.0", Thr: []ThrD{{Global: 1}}}}})
			ep.Nodes = append(ep.Nodes, NodeD{Key: fmt.Sprintf("%016x%048x", 0x2000+i, 0), Cons: fmt.Sprintf("%016x%048x", 0x3000+i, 0), Ent: i, Roles: 8, Exp: 3})
		}
		c.Epochs = []EpochD{ep}
		return c
	}
	var out []Case
	for s := byte(0); s < 4; s++ {
		out = append(out, mk([]string{"5000", "1000", "1000", "1000", "300"}, 3, s))
		out = append(out, mk([]string{"300", "299", "301", "300"}, 2, s))
	}
	return out
}

// ---------- shrinking ----------
func firstViolation(c *Case) (string, int) {
	a := runCase(c, 1)
	if a.panicked != "" {
		return "implementation panicked: " + a.panicked, 0
	}
	for i := range c.Epochs {
		if w := oracle(c, i, &a.obs[i], a.tracked[i]); w != "" {
			return fmt.Sprintf("epoch %d (index %d): %s", c.Epochs[i].Epoch, i, w), i
		}
	}
	b := runCase(c, 2)
	ja, _ := json.Marshal(a.obs)
	jb, _ := json.Marshal(b.obs)
	if b.panicked != "" || string(ja) != string(jb) {
		return "outputs differ between two runs with different state insertion orders", 0
	}
	return "", 0
}

func kindOf(w string) string {
	if i := strings.Index(w, "): "); i >= 0 {
		w = w[i+3:]
	}
	var sb strings.Builder
	for _, ch := range w {
		if (ch < '0' || ch > '9') && (ch < 'a' || ch > 'f') {
			sb.WriteRune(ch)
		}
	}
	s := sb.String()
	if len(s) > 30 {
		s = s[:30]
	}
	return s
}

func clone(c *Case) Case {
	var d Case
	b, _ := json.Marshal(c)
	_ = json.Unmarshal(b, &d)
	return d
}

func shrink(c Case, what string) Case {
	want := kindOf(what)
	try := func(d Case) bool {
		w, _ := firstViolation(&d)
		return w != "" && kindOf(w) == want
	}
	for changed := true; changed; {
		changed = false
		// drop the last / first epoch
		for len(c.Epochs) > 1 {
			d := clone(&c)
			d.Epochs = d.Epochs[:len(d.Epochs)-1]
			if !try(d) {
				break
			}
			c, changed = d, true
		}
		for len(c.Epochs) > 1 {
			d := clone(&c)
			d.Epochs = d.Epochs[1:]
			if !try(d) {
				break
			}
			c, changed = d, true
		}
		// drop nodes (by key, from every epoch)
		keys := map[string]bool{}
		for _, e := range c.Epochs {
			for _, n := range e.Nodes {
				keys[n.Key] = true
			}
		}
		var ks []string
		for k := range keys {
			ks = append(ks, k)
		}
		sort.Strings(ks)
		for _, k := range ks {
			d := clone(&c)
			for ei := range d.Epochs {
				var nn []NodeD
				for _, n := range d.Epochs[ei].Nodes {
					if n.Key != k {
						nn = append(nn, n)
					}
				}
				d.Epochs[ei].Nodes = nn
			}
			if try(d) {
				c, changed = d, true
			}
		}
	}
	return c
}

func main() {
	seed := flag.Uint64("seed", 1, "seed")
	n := flag.Int("cases", 100, "number of generated cases")
	out := flag.String("out", "", "output directory")
	replay := flag.String("replay", "", "replay a case description (JSON file)")
	mode := flag.String("mode", "sched", "sched | beacon")
	flag.Parse()
	if *out == "" {
		fmt.Fprintln(os.Stderr, "need -out")
		os.Exit(2)
	}
	if *replay != "" {
		// the driver replays with "-replay FILE" only: recognise a beacon case by its shape
		if b, err := os.ReadFile(*replay); err == nil && strings.Contains(string(b), "\"future_height\"") {
			*mode = "beacon"
		}
	}
	if *mode == "beacon" {
		beaconMain(*seed, *out, *replay, *n)
		return
	}
	hdr := "From Verif Require Import Lib.Base Sched.Elect Sched.ElectSpec.\n"
	// per case: the model's functional result must equal the implementation's output, and
	// the proved-sound checker impl_ok_b must accept the implementation's output
	wb := coqout.NewWriter(*out, hdr, "fun c => (run_epoch (fst c), impl_ok_b (fst c) (snd c))",
		"fun a b => out_eqb (fst a) (fst b) && Bool.eqb (snd a) (snd b)", 40)
	sum := coqout.NewSummary("one evaluation = one epoch transition (real scheduler elect + EndBlock on a mock application state) of a seeded case: 1-6 entities with 0-3 nodes each (validator/compute/observer/key-manager role mixes, expired/at-expiry/frozen/suspended nodes, wrong runtime versions, TEE-capable nodes), escrow at / one below / one above the sum of the entity's claim thresholds, tie values, zero, int64-power-overflow values, 0-3 runtimes (compute/key-manager, suspended, group sizes 0-3 / backup 0-2, ValidatorSet / MaxNodes 0-2 / MinPoolSize 0-3 constraints, 1-2 deployments), MaxValidators 1-6, MinValidators 1-3, MaxValidatorsPerEntity 1-3, both power distributions, stake bypass, 1-4 successive epochs with stake/membership/param changes; beacon backend insecure or VRF (real proofs from seeded signers, nodes without proof, ElectionEligibleAfter around the epoch, weak alpha with/without DebugAllowWeakAlpha), TEE runtimes and TEE-capable nodes (attestations that do not verify), blocks inside an epoch with/without a slashing event and base-epoch blocks through the real BeginBlock trigger, 1-10 successive blocks per case with the engine's validator set carried along; non-trivial = election succeeded with >= 2 validators and at least one validator-role node was not elected; distinct = distinct (epoch input, previous set) pairs")
	var cases []Case
	if *replay != "" {
		b, err := os.ReadFile(*replay)
		must(err)
		var c Case
		var wrap struct {
			Case *json.RawMessage `json:"case"`
		}
		raw := b
		for k := 0; k < 3; k++ { // unwrap {"case": ...} (possibly nested: a violation entry)
			wrap.Case = nil
			if json.Unmarshal(raw, &wrap) == nil && wrap.Case != nil {
				raw = *wrap.Case
			} else {
				break
			}
		}
		must(json.Unmarshal(raw, &c))
		cases = []Case{c}
	} else {
		cases = append(cases, boundaryCases()...)
		r := prng.New(*seed)
		for i := 0; i < *n; i++ {
			if i%4 == 3 {
				cases = append(cases, genPoolCase(r.Fork()))
			} else {
				cases = append(cases, genCase(r.Fork()))
			}
		}
	}
	seen := map[string]bool{}
	for ci := range cases {
		c := &cases[ci]
		a := runCase(c, 1)
		sum.Sample(c, 2)
		viol := ""
		if a.panicked != "" {
			viol = "implementation panicked: " + a.panicked
			sum.Evaluations++
		} else {
			b := runCase(c, 2)
			ja, _ := json.Marshal(a.obs)
			jb, _ := json.Marshal(b.obs)
			if b.panicked != "" || string(ja) != string(jb) {
				viol = "outputs differ between two runs with different state insertion orders"
			}
			for i := range c.Epochs {
				o := &a.obs[i]
				e := &c.Epochs[i]
				sum.Evaluations++
				in := inputTerm(c, i, a.tracked[i])
				// a sub-case that replays epochs 0..i
				sub := clone(c)
				sub.Epochs = sub.Epochs[:i+1]
				ot := outputTerm(o)
				wb.Add(fmt.Sprintf("((%s,\n  %s),\n (%s, true))", in, ot, ot), map[string]any{"case": sub, "epoch_index": i})
				if w := oracle(c, i, o, a.tracked[i]); w != "" && viol == "" {
					viol = fmt.Sprintf("epoch %d (index %d): %s", e.Epoch, i, w)
				}
				// statistics
				vr := 0
				for _, nd := range e.Nodes {
					if nd.Roles&8 != 0 {
						vr++
					}
					if nd.Freeze != 0 {
						sum.Count("node", "frozen")
					} else if nd.Exp < e.Epoch {
						sum.Count("node", "expired")
					} else if nd.Exp == e.Epoch {
						sum.Count("node", "expires-this-epoch")
					} else {
						sum.Count("node", "live")
					}
				}
				for _, en := range e.Ents {
					if en.NoAccount {
						sum.Count("stake-vs-claims", "no-account")
						continue
					}
					switch bigOf(en.Escrow).Cmp(claimTotal(c, en)) {
					case 0:
						sum.Count("stake-vs-claims", "exactly-at")
					case -1:
						if new(big.Int).Add(bigOf(en.Escrow), big.NewInt(1)).Cmp(claimTotal(c, en)) == 0 {
							sum.Count("stake-vs-claims", "one-below")
						} else {
							sum.Count("stake-vs-claims", "below")
						}
					default:
						if new(big.Int).Sub(bigOf(en.Escrow), big.NewInt(1)).Cmp(claimTotal(c, en)) == 0 {
							sum.Count("stake-vs-claims", "one-above")
						} else {
							sum.Count("stake-vs-claims", "above")
						}
					}
				}
				if o.Skip {
					sum.Count("result", "no-election")
				} else {
					sum.Count("result", []string{"ok", "err-power", "err-none-elected", "err-insufficient", "", "", "", "", "", "err-other"}[o.Err])
				}
				switch {
				case e.Epoch == e.Base:
					sum.Count("trigger", "base-epoch")
				case e.Changed:
					sum.Count("trigger", "epoch-changed")
				case len(e.Slashes) > 0:
					if _, took := e.effective(); took {
						sum.Count("trigger", "real-slash-in-epoch")
					} else {
						sum.Count("trigger", "slash-that-took-nothing")
					}
				case e.Slashed:
					sum.Count("trigger", "slash-event-in-epoch")
				default:
					sum.Count("trigger", "none")
				}
				if e.VRF == nil {
					sum.Count("beacon", "insecure")
				} else {
					vv := &view{c: c, e: e}
					switch {
					case !e.VRF.Can && !e.VRF.Weak:
						sum.Count("beacon", "vrf-weak-alpha-no-committees")
					case vv.valSortition():
						sum.Count("beacon", "vrf-sortition")
					default:
						sum.Count("beacon", "vrf-validators-fall-back-to-entropy")
					}
					for _, nd := range e.Nodes {
						if nd.NoPi {
							sum.Count("node", "vrf-no-proof")
						}
					}
				}
				for _, nd := range e.Nodes {
					for _, x := range nd.Rts {
						if x.Tee != 0 || c.Rts[x.Rt].Tee != 0 {
							sum.Count("tee", fmt.Sprintf("runtime-hw-%d/node-cap-%d", c.Rts[x.Rt].Tee, x.Tee))
						}
					}
				}
				if o.Err == 0 && !o.Skip {
					sum.Count("validators", fmt.Sprint(len(o.Vals)))
					sum.Count("updates", fmt.Sprint(len(o.Updates)))
					// tie at the boundary: an unrepresented eligible entity with the same escrow as a represented one
					v := &view{c: c, e: e, byID: map[string]*NodeD{}}
					rep := map[int]bool{}
					for _, x := range o.Vals {
						rep[v.entIdx(x.Ent)] = true
					}
					tieB := false
					for k := range e.Nodes {
						nd := &e.Nodes[k]
						if v.live(nd) && nd.Roles&8 != 0 && v.stakeOK(nd.Ent) && !rep[nd.Ent] {
							for rr := range rep {
								if v.escrow(rr).Cmp(v.escrow(nd.Ent)) == 0 {
									tieB = true
								}
							}
						}
					}
					if tieB {
						sum.Count("misc", "stake-tie-at-validator-boundary")
					}
					for ri, cm := range o.Comms {
						rt := &c.Rts[ri]
						if cs := rt.CW; cs != nil && cs.Max != nil && cs.Min != nil && *cs.Max > 0 && rt.Compute && !rt.Suspended {
							ev, _ := e.effective()
							vw := &view{c: c, e: &ev}
							rep := map[int]bool{}
							for _, x := range o.Vals {
								rep[vw.entIdx(x.Ent)] = true
							}
							per := map[int]int{}
							rawN := 0
							for k := range ev.Nodes {
								nd := &ev.Nodes[k]
								if vw.live(nd) && vw.suitable(nd, ri) && vw.stakeOK(nd.Ent) && (!cs.VSet || rep[nd.Ent]) {
									per[nd.Ent]++
									rawN++
								}
							}
							dd := 0
							for _, k := range per {
								if k > *cs.Max {
									k = *cs.Max
								}
								dd += k
							}
							switch {
							case rawN >= *cs.Min && *cs.Min > dd && dd >= rt.G:
								sum.Count("worker-pool", "raw>=min>deduped>=group")
							case dd == *cs.Min:
								sum.Count("worker-pool", "deduped==min")
							case dd == rt.G:
								sum.Count("worker-pool", "deduped==group")
							case dd < *cs.Min:
								sum.Count("worker-pool", "deduped<min")
							default:
								sum.Count("worker-pool", "deduped>min")
							}
						}
						if cm.Present {
							sum.Count("committee", fmt.Sprintf("elected-%d", len(cm.Members)))
						} else {
							sum.Count("committee", "none")
						}
					}
					key := in
					if len(o.Vals) >= 2 && vr > len(o.Vals) && !seen[key] {
						sum.DistinctNontrivial++
					}
					seen[key] = true
				}
			}
		}
		if viol != "" {
			sc := shrink(clone(c), viol)
			w, _ := firstViolation(&sc)
			if w == "" {
				sc, w = clone(c), viol
			}
			sum.Violations = append(sum.Violations, map[string]any{"what": w, "case": sc})
		}
	}
	wb.Close()
	sum.Write(*out)
}
